import ObiVerif.Lemmas.FpBasic
/-!
# Bit-level lemmas for the shift primitives `leftShift64` / `rightShift64` (core Lean only)

`Nat.lor` / `Nat.land` on disjoint bit ranges are turned into `+`, `%`, `/`.
-/
namespace ObiVerif.Fp

theorem W_eq_pow : W = 2 ^ 64 := by decide

theorem two_pow_split {n : Nat} (h : n ≤ 64) : 2 ^ n * 2 ^ (64 - n) = W := by
  rw [← Nat.pow_add, W_eq_pow]; congr 1; omega

theorem lor_mul_pow (a b n : Nat) (h : b < 2 ^ n) : Nat.lor (a * 2 ^ n) b = a * 2 ^ n + b := by
  show a * 2 ^ n ||| b = _
  rw [← Nat.shiftLeft_eq, Nat.shiftLeft_add_eq_or_of_lt h]

theorem land_low (c n : Nat) : Nat.land c (2 ^ n - 1) = c % 2 ^ n :=
  Nat.and_two_pow_sub_one_eq_mod c n

theorem not64_mask {k : Nat} (hk : k ≤ 64) : not64 (2 ^ k - 1) = (2 ^ (64 - k) - 1) * 2 ^ k := by
  have h := two_pow_split hk
  have hp : 0 < 2 ^ k := Nat.two_pow_pos k
  unfold not64
  rw [Nat.sub_mul, Nat.mul_comm (2 ^ (64 - k)), h]
  omega

theorem land_high (c k : Nat) (hk : k ≤ 64) (hc : c < W) :
    Nat.land c (not64 (2 ^ k - 1)) = c / 2 ^ k * 2 ^ k := by
  rw [not64_mask hk]
  show c &&& (2 ^ (64 - k) - 1) * 2 ^ k = _
  apply Nat.eq_of_testBit_eq
  intro i
  rw [Nat.testBit_and, Nat.testBit_mul_two_pow, Nat.testBit_mul_two_pow, Nat.testBit_two_pow_sub_one,
    Nat.testBit_div_two_pow]
  by_cases hki : k ≤ i
  · have e : i - k + k = i := by omega
    rw [e]
    by_cases hi : i < 64
    · have : i - k < 64 - k := by omega
      simp [hki, this]
    · have : c.testBit i = false :=
        Nat.testBit_lt_two_pow (Nat.lt_of_lt_of_le (W_eq_pow ▸ hc) (Nat.pow_le_pow_right (by decide) (by omega)))
      simp [this]
  · simp [hki]

/-! ## `leftShift64` / `rightShift64` for a sub-limb amount `n < 64` -/

/-- for `n < 64` and an incoming carry below `2^n`, `(value, carry)` are the low limb and the overflow of
`w * 2^n + carryIn` -/
theorem leftShift64_small {w n c : Nat} (hn : n < 64) (hw : w < W) (hc : c < 2 ^ n) :
    (leftShift64 w n c).1 + (leftShift64 w n c).2 * W = w * 2 ^ n + c ∧
      (leftShift64 w n c).1 < W ∧ (leftShift64 w n c).2 < 2 ^ n := by
  unfold leftShift64
  by_cases h0 : n = 0
  · subst h0; simp at hc; simp [hc, hw]
  · rw [if_neg h0, if_pos hn]
    have hpq := two_pow_split (Nat.le_of_lt hn)
    unfold shl64 shr64
    have e1 : w * 2 ^ n % W = w % 2 ^ (64 - n) * 2 ^ n := by
      rw [← hpq, Nat.mul_comm (2 ^ n), Nat.mul_mod_mul_right]
    rw [land_low, Nat.mod_eq_of_lt hc, e1, lor_mul_pow _ _ _ hc]
    generalize 2 ^ n = p at *
    generalize hq : 2 ^ (64 - n) = q at *
    have hq0 : 0 < q := by rw [← hq]; exact Nat.two_pow_pos _
    have hw' := (Nat.div_add_mod w q).symm
    have hb : w % q < q := Nat.mod_lt _ hq0
    generalize w / q = a at *
    generalize w % q = b at *
    refine ⟨?_, ?_, ?_⟩
    · subst hw'; simp only []; rw [← hpq]; grind
    · have := Nat.mul_le_mul_right p (Nat.succ_le_of_lt hb)
      simp only []; rw [← hpq]; grind
    · simp only []
      apply Nat.lt_of_mul_lt_mul_left (a := q)
      grind

/-- for `n < 64` and an incoming carry that is a multiple of `2^(64-n)` below `W` (what the limb above
hands down), the value is `w / 2^n + carryIn` and the carry is `(w % 2^n) * 2^(64-n)` -/
theorem rightShift64_small {w n c : Nat} (hn : n < 64) (hw : w < W) (hc : c < W)
    (hd : c % 2 ^ (64 - n) = 0) :
    (rightShift64 w n c).1 = w / 2 ^ n + c ∧ (rightShift64 w n c).2 = w % 2 ^ n * 2 ^ (64 - n) := by
  unfold rightShift64
  by_cases h0 : n = 0
  · subst h0
    have : c = 0 := by simp only [W] at *; omega
    simp [this, Nat.mod_one]
  · rw [if_neg h0, if_pos hn]
    have hpq := two_pow_split (Nat.le_of_lt hn)
    unfold shl64 shr64
    rw [land_high c (64 - n) (by omega) hc]
    have e0 : Nat.lor (w / 2 ^ n) (c / 2 ^ (64 - n) * 2 ^ (64 - n)) =
        c / 2 ^ (64 - n) * 2 ^ (64 - n) + w / 2 ^ n := by
      show (w / 2 ^ n) ||| (c / 2 ^ (64 - n) * 2 ^ (64 - n)) = _
      rw [Nat.or_comm]
      apply lor_mul_pow
      apply Nat.div_lt_of_lt_mul
      rw [hpq]; exact hw
    rw [e0]
    generalize 2 ^ n = p at *
    generalize 2 ^ (64 - n) = q at *
    have e1 : w * q % W = w % p * q := by rw [← hpq, Nat.mul_mod_mul_right]
    have e2 : c / q * q = c := by
      have := Nat.div_add_mod c q; rw [hd] at this; rw [Nat.mul_comm]; omega
    refine ⟨?_, e1⟩
    simp only []
    rw [e2, Nat.add_comm]

/-! ## whole-limb amounts -/

theorem two_pow_ge_64 {n : Nat} (h : 64 ≤ n) : 2 ^ n = 2 ^ (n - 64) * W := by
  rw [W_eq_pow, ← Nat.pow_add]; congr 1; omega

theorem two_pow_ge_128 {n : Nat} (h : 128 ≤ n) : 2 ^ n = 2 ^ (n - 128) * (W * W) := by
  rw [W_eq_pow, ← Nat.pow_add, ← Nat.pow_add]; congr 1; omega

theorem two_pow_ge_256 {n : Nat} (h : 256 ≤ n) : 2 ^ n = 2 ^ (n - 256) * W ^ 4 := by
  rw [W_eq_pow, ← Nat.pow_mul, ← Nat.pow_add]; congr 1; omega

theorem leftShift64_mid {w n c : Nat} (hw : w < W) (h1 : 64 ≤ n) (h2 : n < 128) :
    leftShift64 w n c = (c, w * 2 ^ (n - 64) % W) := by
  unfold leftShift64 shl64
  rw [if_neg (by omega), if_neg (by omega)]
  by_cases h : n = 64
  · subst h; simp [Nat.mod_eq_of_lt hw]
  · rw [if_neg h, if_pos h2]

theorem leftShift64_big {w n c : Nat} (h : 128 ≤ n) : leftShift64 w n c = (0, 0) := by
  unfold leftShift64
  rw [if_neg (by omega), if_neg (by omega), if_neg (by omega), if_neg (by omega)]

theorem rightShift64_mid {w n c : Nat} (h1 : 64 ≤ n) (h2 : n < 128) :
    rightShift64 w n c = (c, w / 2 ^ (n - 64)) := by
  unfold rightShift64 shr64
  rw [if_neg (by omega), if_neg (by omega)]
  by_cases h : n = 64
  · subst h; simp
  · rw [if_neg h, if_pos h2]

theorem rightShift64_big {w n c : Nat} (h : 128 ≤ n) : rightShift64 w n c = (0, 0) := by
  unfold rightShift64
  rw [if_neg (by omega), if_neg (by omega), if_neg (by omega), if_neg (by omega)]

/-! ## Uint64 -/

theorem U64.leftShift_spec (u : U64) (n : Nat) (hu : u.WF) :
    (u.leftShift n).WF ∧ (u.leftShift n).toNat = u.toNat * 2 ^ n % W := by
  unfold U64.WF at hu
  unfold U64.leftShift U64.WF U64.toNat
  simp only []
  by_cases hn : n < 64
  · have h := leftShift64_small (c := 0) hn hu (Nat.two_pow_pos n)
    generalize leftShift64 u.w0 n 0 = r at *
    generalize u.w0 * 2 ^ n = x at *
    simp only [W] at *
    omega
  · have e : u.w0 * 2 ^ n % W = 0 := by
      rw [two_pow_ge_64 (by omega), ← Nat.mul_assoc, Nat.mul_mod_left]
    by_cases hn' : n < 128
    · rw [leftShift64_mid hu (by omega) hn', e]; exact ⟨show 0 < W by decide, rfl⟩
    · rw [leftShift64_big (by omega), e]; exact ⟨by decide, rfl⟩

theorem U64.rightShift_spec (u : U64) (n : Nat) (hu : u.WF) :
    (u.rightShift n).WF ∧ (u.rightShift n).toNat = u.toNat / 2 ^ n := by
  unfold U64.WF at hu
  unfold U64.rightShift U64.WF U64.toNat
  simp only []
  by_cases hn : n < 64
  · have h := rightShift64_small (c := 0) hn hu (by decide) (Nat.zero_mod _)
    rw [h.1, Nat.add_zero]
    exact ⟨Nat.lt_of_le_of_lt (Nat.div_le_self _ _) hu, rfl⟩
  · have e : u.w0 / 2 ^ n = 0 := by
      apply Nat.div_eq_of_lt
      rw [two_pow_ge_64 (by omega)]
      exact Nat.lt_of_lt_of_le hu (Nat.le_mul_of_pos_left _ (Nat.two_pow_pos _))
    by_cases hn' : n < 128
    · rw [rightShift64_mid (by omega) hn', e]; exact ⟨show 0 < W by decide, rfl⟩
    · rw [rightShift64_big (by omega), e]; exact ⟨by decide, rfl⟩

/-! ## arithmetic of a right shift across a limb boundary (`p * q = W`) -/

theorem shr_step {p q : Nat} (hpq : p * q = W) (hp : 0 < p) (x w : Nat) :
    (x * W + w) / p = x / p * W + (x % p * q + w / p) := by
  have hx := (Nat.div_add_mod x p).symm
  generalize x / p = a at *
  generalize x % p = b at *
  have e : x * W + w = p * (a * W + b * q) + w := by subst hx; rw [← hpq]; grind
  rw [e, Nat.mul_add_div hp, Nat.add_assoc]

theorem mod_step {p q : Nat} (hpq : p * q = W) (x w : Nat) : (x * W + w) % p = w % p := by
  rw [← hpq, ← Nat.mul_assoc, Nat.mul_right_comm, Nat.mul_add_mod_self_right]

theorem shr_limb_lt {p q a w : Nat} (hpq : p * q = W) (ha : a < p) (hw : w < W) :
    a * q + w / p < W := by
  have h1 : w / p < q := Nat.div_lt_of_lt_mul (hpq ▸ hw)
  have h2 := Nat.mul_le_mul_right q (Nat.succ_le_of_lt ha)
  rw [← hpq]; grind

/-! ## Uint128 -/

theorem U128.leftShift_eq (u : U128) (n : Nat) : u.leftShift n =
    ⟨(leftShift64 u.w1 n (leftShift64 u.w0 n 0).2).1, (leftShift64 u.w0 n 0).1⟩ := rfl

theorem U128.rightShift_eq (u : U128) (n : Nat) : u.rightShift n =
    ⟨(rightShift64 u.w1 n 0).1, (rightShift64 u.w0 n (rightShift64 u.w1 n 0).2).1⟩ := rfl

theorem U128.leftShift_spec (u : U128) (n : Nat) (hu : u.WF) :
    (u.leftShift n).WF ∧ (u.leftShift n).toNat = u.toNat * 2 ^ n % (W * W) := by
  obtain ⟨h1, h0⟩ := hu
  rw [U128.leftShift_eq]
  unfold U128.WF U128.toNat
  simp only []
  by_cases hn : n < 64
  · have s0 := leftShift64_small (c := 0) hn h0 (Nat.two_pow_pos n)
    generalize leftShift64 u.w0 n 0 = r0 at *
    have s1 := leftShift64_small hn h1 s0.2.2
    generalize leftShift64 u.w1 n r0.2 = r1 at *
    rw [Nat.add_mul, Nat.mul_right_comm]
    generalize u.w0 * 2 ^ n = x0 at *
    generalize u.w1 * 2 ^ n = x1 at *
    generalize 2 ^ n = p at *
    simp only [W] at *
    omega
  · by_cases hn' : n < 128
    · rw [leftShift64_mid h0 (by omega) hn', leftShift64_mid h1 (by omega) hn']
      simp only []
      refine ⟨⟨Nat.mod_lt _ (by decide), by decide⟩, ?_⟩
      rw [two_pow_ge_64 (Nat.le_of_not_lt hn), ← Nat.mul_assoc, Nat.mul_mod_mul_right, Nat.add_mul,
        Nat.mul_right_comm, Nat.mul_add_mod_self_right, Nat.add_zero]
    · rw [leftShift64_big (by omega), leftShift64_big (by omega)]
      simp only []
      refine ⟨⟨by decide, by decide⟩, ?_⟩
      rw [two_pow_ge_128 (by omega), ← Nat.mul_assoc, Nat.mul_mod_left, Nat.zero_mul]

theorem U128.rightShift_spec (u : U128) (n : Nat) (hu : u.WF) :
    (u.rightShift n).WF ∧ (u.rightShift n).toNat = u.toNat / 2 ^ n := by
  obtain ⟨h1, h0⟩ := hu
  rw [U128.rightShift_eq]
  unfold U128.WF U128.toNat
  simp only []
  by_cases hn : n < 64
  · have hpq := two_pow_split (Nat.le_of_lt hn)
    have hp := Nat.two_pow_pos n
    have s1 := rightShift64_small (c := 0) hn h1 (by decide) (Nat.zero_mod _)
    rw [s1.1, s1.2]
    have s0 := rightShift64_small hn h0 (c := u.w1 % 2 ^ n * 2 ^ (64 - n))
      (by have := shr_limb_lt (w := 0) hpq (Nat.mod_lt u.w1 hp) (by decide); simpa using this)
      (Nat.mul_mod_left _ _)
    rw [s0.1, shr_step hpq hp]
    have b := shr_limb_lt hpq (Nat.mod_lt u.w1 hp) h0
    have b1 : u.w1 / 2 ^ n < W := Nat.lt_of_le_of_lt (Nat.div_le_self _ _) h1
    simp only [Nat.add_zero]
    exact ⟨⟨b1, by omega⟩, by omega⟩
  · by_cases hn' : n < 128
    · rw [rightShift64_mid (by omega) hn', rightShift64_mid (by omega) hn']
      simp only []
      refine ⟨⟨by decide, Nat.lt_of_le_of_lt (Nat.div_le_self _ _) h1⟩, ?_⟩
      rw [two_pow_ge_64 (Nat.le_of_not_lt hn), Nat.mul_comm (2 ^ (n - 64)) W, ← Nat.div_div_eq_div_mul,
        Nat.zero_mul, Nat.zero_add]
      congr 1
      simp only [W] at *; omega
    · rw [rightShift64_big (by omega), rightShift64_big (by omega)]
      simp only []
      refine ⟨⟨by decide, by decide⟩, ?_⟩
      symm
      apply Nat.div_eq_of_lt
      rw [two_pow_ge_128 (by omega)]
      have : u.w1 * W + u.w0 < W * W := by simp only [W] at *; omega
      exact Nat.lt_of_lt_of_le this (Nat.le_mul_of_pos_left _ (Nat.two_pow_pos _))

/-! ## Uint256 -/

/-- the four chained `LeftShift64` calls of `Uint256.LeftShift` (after the whole-limb loop) -/
def U256.shlSmall (u : U256) (n : Nat) : U256 :=
  let r0 := leftShift64 u.w0 n 0
  let r1 := leftShift64 u.w1 n r0.2
  let r2 := leftShift64 u.w2 n r1.2
  let r3 := leftShift64 u.w3 n r2.2
  ⟨r3.1, r2.1, r1.1, r0.1⟩

/-- the four chained `RightShift64` calls of `Uint256.RightShift` -/
def U256.shrSmall (u : U256) (n : Nat) : U256 :=
  let r3 := rightShift64 u.w3 n 0
  let r2 := rightShift64 u.w2 n r3.2
  let r1 := rightShift64 u.w1 n r2.2
  let r0 := rightShift64 u.w0 n r1.2
  ⟨r3.1, r2.1, r1.1, r0.1⟩

theorem U256.leftShift_eq (u : U256) (n : Nat) : u.leftShift n =
    if n ≥ 256 then ⟨0, 0, 0, 0⟩ else U256.shlSmall (U256.limbsLeft 4 u n).1 (U256.limbsLeft 4 u n).2 := rfl

theorem U256.rightShift_eq (u : U256) (n : Nat) : u.rightShift n =
    if n ≥ 256 then ⟨0, 0, 0, 0⟩ else U256.shrSmall (U256.limbsRight 4 u n).1 (U256.limbsRight 4 u n).2 := rfl

theorem U256.limbsLeft_spec (u : U256) (n : Nat) (hu : u.WF) (hn : n < 256) :
    (U256.limbsLeft 4 u n).2 = n % 64 ∧ (U256.limbsLeft 4 u n).1.WF ∧
      (U256.limbsLeft 4 u n).1.toNat = u.toNat * W ^ (n / 64) % W ^ 4 := by
  obtain ⟨h3, h2, h1, h0⟩ := hu
  by_cases c1 : n < 64
  · have e : U256.limbsLeft 4 u n = (u, n) := by
      simp only [U256.limbsLeft]; rw [if_neg (by omega)]
    have k : n / 64 = 0 := by omega
    rw [e, k]; unfold U256.WF U256.toNat
    simp only [W] at *
    refine ⟨by omega, ⟨h3, h2, h1, h0⟩, by omega⟩
  · by_cases c2 : n < 128
    · have e : U256.limbsLeft 4 u n = (⟨u.w2, u.w1, u.w0, 0⟩, n - 64) := by
        simp only [U256.limbsLeft]; rw [if_pos (by omega), if_neg (by omega)]
      have k : n / 64 = 1 := by omega
      rw [e, k]; unfold U256.WF U256.toNat
      simp only [W] at *
      refine ⟨by omega, ⟨h2, h1, h0, by omega⟩, by omega⟩
    · by_cases c3 : n < 192
      · have e : U256.limbsLeft 4 u n = (⟨u.w1, u.w0, 0, 0⟩, n - 64 - 64) := by
          simp only [U256.limbsLeft]; rw [if_pos (by omega), if_pos (by omega), if_neg (by omega)]
        have k : n / 64 = 2 := by omega
        rw [e, k]; unfold U256.WF U256.toNat
        simp only [W] at *
        refine ⟨by omega, ⟨h1, h0, by omega, by omega⟩, by omega⟩
      · have e : U256.limbsLeft 4 u n = (⟨u.w0, 0, 0, 0⟩, n - 64 - 64 - 64) := by
          simp only [U256.limbsLeft]; rw [if_pos (by omega), if_pos (by omega), if_pos (by omega), if_neg (by omega)]
        have k : n / 64 = 3 := by omega
        rw [e, k]; unfold U256.WF U256.toNat
        simp only [W] at *
        refine ⟨by omega, ⟨h0, by omega, by omega, by omega⟩, by omega⟩

theorem U256.limbsRight_spec (u : U256) (n : Nat) (hu : u.WF) (hn : n < 256) :
    (U256.limbsRight 4 u n).2 = n % 64 ∧ (U256.limbsRight 4 u n).1.WF ∧
      (U256.limbsRight 4 u n).1.toNat = u.toNat / W ^ (n / 64) := by
  obtain ⟨h3, h2, h1, h0⟩ := hu
  by_cases c1 : n < 64
  · have e : U256.limbsRight 4 u n = (u, n) := by
      simp only [U256.limbsRight]; rw [if_neg (by omega)]
    have k : n / 64 = 0 := by omega
    rw [e, k]; unfold U256.WF U256.toNat
    simp only [W] at *
    refine ⟨by omega, ⟨h3, h2, h1, h0⟩, by omega⟩
  · by_cases c2 : n < 128
    · have e : U256.limbsRight 4 u n = (⟨0, u.w3, u.w2, u.w1⟩, n - 64) := by
        simp only [U256.limbsRight]; rw [if_pos (by omega), if_neg (by omega)]
      have k : n / 64 = 1 := by omega
      rw [e, k]; unfold U256.WF U256.toNat
      simp only [W] at *
      refine ⟨by omega, ⟨by omega, h3, h2, h1⟩, by omega⟩
    · by_cases c3 : n < 192
      · have e : U256.limbsRight 4 u n = (⟨0, 0, u.w3, u.w2⟩, n - 64 - 64) := by
          simp only [U256.limbsRight]; rw [if_pos (by omega), if_pos (by omega), if_neg (by omega)]
        have k : n / 64 = 2 := by omega
        rw [e, k]; unfold U256.WF U256.toNat
        simp only [W] at *
        refine ⟨by omega, ⟨by omega, by omega, h3, h2⟩, by omega⟩
      · have e : U256.limbsRight 4 u n = (⟨0, 0, 0, u.w3⟩, n - 64 - 64 - 64) := by
          simp only [U256.limbsRight]; rw [if_pos (by omega), if_pos (by omega), if_pos (by omega), if_neg (by omega)]
        have k : n / 64 = 3 := by omega
        rw [e, k]; unfold U256.WF U256.toNat
        simp only [W] at *
        refine ⟨by omega, ⟨by omega, by omega, by omega, h3⟩, by omega⟩

theorem U256.shlSmall_spec (u : U256) (n : Nat) (hu : u.WF) (hn : n < 64) :
    (u.shlSmall n).WF ∧ (u.shlSmall n).toNat = u.toNat * 2 ^ n % W ^ 4 := by
  obtain ⟨h3, h2, h1, h0⟩ := hu
  unfold U256.shlSmall U256.WF U256.toNat
  simp only []
  have s0 := leftShift64_small (c := 0) hn h0 (Nat.two_pow_pos n)
  generalize leftShift64 u.w0 n 0 = r0 at *
  have s1 := leftShift64_small hn h1 s0.2.2
  generalize leftShift64 u.w1 n r0.2 = r1 at *
  have s2 := leftShift64_small hn h2 s1.2.2
  generalize leftShift64 u.w2 n r1.2 = r2 at *
  have s3 := leftShift64_small hn h3 s2.2.2
  generalize leftShift64 u.w3 n r2.2 = r3 at *
  have e : (((u.w3 * W + u.w2) * W + u.w1) * W + u.w0) * 2 ^ n =
      ((u.w3 * 2 ^ n * W + u.w2 * 2 ^ n) * W + u.w1 * 2 ^ n) * W + u.w0 * 2 ^ n := by
    generalize 2 ^ n = p; generalize W = B; grind
  rw [e]
  generalize u.w0 * 2 ^ n = x0 at *
  generalize u.w1 * 2 ^ n = x1 at *
  generalize u.w2 * 2 ^ n = x2 at *
  generalize u.w3 * 2 ^ n = x3 at *
  generalize 2 ^ n = p at *
  simp only [W] at *
  omega

theorem U256.shrSmall_spec (u : U256) (n : Nat) (hu : u.WF) (hn : n < 64) :
    (u.shrSmall n).WF ∧ (u.shrSmall n).toNat = u.toNat / 2 ^ n := by
  obtain ⟨h3, h2, h1, h0⟩ := hu
  unfold U256.shrSmall U256.WF U256.toNat
  simp only []
  have hpq := two_pow_split (Nat.le_of_lt hn)
  have hp := Nat.two_pow_pos n
  have cl : ∀ w, w % 2 ^ n * 2 ^ (64 - n) < W := fun w => by
    have := shr_limb_lt (w := 0) hpq (Nat.mod_lt w hp) W_pos; simpa using this
  have s3 := rightShift64_small (c := 0) hn h3 W_pos (Nat.zero_mod _)
  rw [s3.1, s3.2]
  have s2 := rightShift64_small hn h2 (cl u.w3) (Nat.mul_mod_left _ _)
  rw [s2.1, s2.2]
  have s1 := rightShift64_small hn h1 (cl u.w2) (Nat.mul_mod_left _ _)
  rw [s1.1, s1.2]
  have s0 := rightShift64_small hn h0 (cl u.w1) (Nat.mul_mod_left _ _)
  rw [s0.1]
  rw [shr_step hpq hp, shr_step hpq hp, shr_step hpq hp, mod_step hpq, mod_step hpq]
  have b3 : u.w3 / 2 ^ n < W := Nat.lt_of_le_of_lt (Nat.div_le_self _ _) h3
  have b2 := shr_limb_lt hpq (Nat.mod_lt u.w3 hp) h2
  have b1 := shr_limb_lt hpq (Nat.mod_lt u.w2 hp) h1
  have b0 := shr_limb_lt hpq (Nat.mod_lt u.w1 hp) h0
  simp only [Nat.add_zero]
  generalize u.w3 % 2 ^ n * 2 ^ (64 - n) = c3 at *
  generalize u.w2 % 2 ^ n * 2 ^ (64 - n) = c2 at *
  generalize u.w1 % 2 ^ n * 2 ^ (64 - n) = c1 at *
  generalize u.w3 / 2 ^ n = a3 at *
  generalize u.w2 / 2 ^ n = a2 at *
  generalize u.w1 / 2 ^ n = a1 at *
  generalize u.w0 / 2 ^ n = a0 at *
  simp only [W] at *
  omega

theorem U256.leftShift_spec (u : U256) (n : Nat) (hu : u.WF) :
    (u.leftShift n).WF ∧ (u.leftShift n).toNat = u.toNat * 2 ^ n % W ^ 4 := by
  rw [U256.leftShift_eq]
  by_cases hn : n ≥ 256
  · rw [if_pos hn, two_pow_ge_256 hn, ← Nat.mul_assoc, Nat.mul_mod_left]
    exact ⟨by decide, rfl⟩
  · rw [if_neg hn]
    have hl := U256.limbsLeft_spec u n hu (by omega)
    generalize U256.limbsLeft 4 u n = r at *
    obtain ⟨u', n'⟩ := r
    obtain ⟨e1, hu', e2⟩ := hl
    simp only [] at e1 e2 hu' ⊢
    have hs := U256.shlSmall_spec u' n' hu' (by omega)
    refine ⟨hs.1, ?_⟩
    rw [hs.2, e2, e1, Nat.mod_mul_mod, Nat.mul_assoc]
    congr 2
    rw [W_eq_pow, ← Nat.pow_mul, ← Nat.pow_add]
    congr 1
    omega

theorem U256.rightShift_spec (u : U256) (n : Nat) (hu : u.WF) :
    (u.rightShift n).WF ∧ (u.rightShift n).toNat = u.toNat / 2 ^ n := by
  rw [U256.rightShift_eq]
  by_cases hn : n ≥ 256
  · rw [if_pos hn]
    refine ⟨by decide, ?_⟩
    symm
    apply Nat.div_eq_of_lt
    rw [two_pow_ge_256 hn]
    exact Nat.lt_of_lt_of_le (U256.toNat_lt hu) (Nat.le_mul_of_pos_left _ (Nat.two_pow_pos _))
  · rw [if_neg hn]
    have hl := U256.limbsRight_spec u n hu (by omega)
    generalize U256.limbsRight 4 u n = r at *
    obtain ⟨u', n'⟩ := r
    obtain ⟨e1, hu', e2⟩ := hl
    simp only [] at e1 e2 hu' ⊢
    have hs := U256.shrSmall_spec u' n' hu' (by omega)
    refine ⟨hs.1, ?_⟩
    rw [hs.2, e2, e1, Nat.div_div_eq_div_mul]
    congr 1
    rw [W_eq_pow, ← Nat.pow_mul, ← Nat.pow_add]
    congr 1
    omega

end ObiVerif.Fp
