import ObiVerif.Lemmas.FpBasic
/-!
# Bit-level lemmas for the shift primitives `leftShift64` / `rightShift64` (core Lean only)

`Nat.lor` / `Nat.land` on disjoint bit ranges are turned into `+`, `%`, `/`.
-/
namespace ObiVerif.Fp

theorem W_eq_pow : W = 2 ^ 64 := by decide

theorem two_pow_split {n : Nat} (h : n ≤ 64) : 2 ^ n * 2 ^ (64 - n) = W := by
  rw [← Nat.pow_add, W_eq_pow]; congr 1; omega

theorem lor_mul_pow (a b n : Nat) (h : b < 2 ^ n) : Nat.lor (a * 2 ^ n) b = a * 2 ^ n + b := by
  show a * 2 ^ n ||| b = _
  rw [← Nat.shiftLeft_eq, Nat.shiftLeft_add_eq_or_of_lt h]

theorem land_low (c n : Nat) : Nat.land c (2 ^ n - 1) = c % 2 ^ n :=
  Nat.and_two_pow_sub_one_eq_mod c n

theorem not64_mask {k : Nat} (hk : k ≤ 64) : not64 (2 ^ k - 1) = (2 ^ (64 - k) - 1) * 2 ^ k := by
  have h := two_pow_split hk
  have hp : 0 < 2 ^ k := Nat.two_pow_pos k
  unfold not64
  rw [Nat.sub_mul, Nat.mul_comm (2 ^ (64 - k)), h]
  omega

theorem land_high (c k : Nat) (hk : k ≤ 64) (hc : c < W) :
    Nat.land c (not64 (2 ^ k - 1)) = c / 2 ^ k * 2 ^ k := by
  rw [not64_mask hk]
  show c &&& (2 ^ (64 - k) - 1) * 2 ^ k = _
  apply Nat.eq_of_testBit_eq
  intro i
  rw [Nat.testBit_and, Nat.testBit_mul_two_pow, Nat.testBit_mul_two_pow, Nat.testBit_two_pow_sub_one,
    Nat.testBit_div_two_pow]
  by_cases hki : k ≤ i
  · have e : i - k + k = i := by omega
    rw [e]
    by_cases hi : i < 64
    · have : i - k < 64 - k := by omega
      simp [hki, this]
    · have : c.testBit i = false :=
        Nat.testBit_lt_two_pow (Nat.lt_of_lt_of_le (W_eq_pow ▸ hc) (Nat.pow_le_pow_right (by decide) (by omega)))
      simp [this]
  · simp [hki]

/-! ## `leftShift64` / `rightShift64` for a sub-limb amount `n < 64` -/

/-- for `n < 64` and an incoming carry below `2^n`, `(value, carry)` are the low limb and the overflow of
`w * 2^n + carryIn` -/
theorem leftShift64_small {w n c : Nat} (hn : n < 64) (hw : w < W) (hc : c < 2 ^ n) :
    (leftShift64 w n c).1 + (leftShift64 w n c).2 * W = w * 2 ^ n + c ∧
      (leftShift64 w n c).1 < W ∧ (leftShift64 w n c).2 < 2 ^ n := by
  unfold leftShift64
  by_cases h0 : n = 0
  · subst h0; simp at hc; simp [hc, hw]
  · rw [if_neg h0, if_pos hn]
    have hpq := two_pow_split (Nat.le_of_lt hn)
    unfold shl64 shr64
    have e1 : w * 2 ^ n % W = w % 2 ^ (64 - n) * 2 ^ n := by
      rw [← hpq, Nat.mul_comm (2 ^ n), Nat.mul_mod_mul_right]
    rw [land_low, Nat.mod_eq_of_lt hc, e1, lor_mul_pow _ _ _ hc]
    generalize 2 ^ n = p at *
    generalize hq : 2 ^ (64 - n) = q at *
    have hq0 : 0 < q := by rw [← hq]; exact Nat.two_pow_pos _
    have hw' := (Nat.div_add_mod w q).symm
    have hb : w % q < q := Nat.mod_lt _ hq0
    generalize w / q = a at *
    generalize w % q = b at *
    refine ⟨?_, ?_, ?_⟩
    · subst hw'; simp only []; rw [← hpq]; grind
    · have := Nat.mul_le_mul_right p (Nat.succ_le_of_lt hb)
      simp only []; rw [← hpq]; grind
    · simp only []
      apply Nat.lt_of_mul_lt_mul_left (a := q)
      grind

/-- for `n < 64` and an incoming carry that is a multiple of `2^(64-n)` below `W` (what the limb above
hands down), the value is `w / 2^n + carryIn` and the carry is `(w % 2^n) * 2^(64-n)` -/
theorem rightShift64_small {w n c : Nat} (hn : n < 64) (hw : w < W) (hc : c < W)
    (hd : c % 2 ^ (64 - n) = 0) :
    (rightShift64 w n c).1 = w / 2 ^ n + c ∧ (rightShift64 w n c).2 = w % 2 ^ n * 2 ^ (64 - n) := by
  unfold rightShift64
  by_cases h0 : n = 0
  · subst h0
    have : c = 0 := by simp only [W] at *; omega
    simp [this, Nat.mod_one]
  · rw [if_neg h0, if_pos hn]
    have hpq := two_pow_split (Nat.le_of_lt hn)
    unfold shl64 shr64
    rw [land_high c (64 - n) (by omega) hc]
    have e0 : Nat.lor (w / 2 ^ n) (c / 2 ^ (64 - n) * 2 ^ (64 - n)) =
        c / 2 ^ (64 - n) * 2 ^ (64 - n) + w / 2 ^ n := by
      show (w / 2 ^ n) ||| (c / 2 ^ (64 - n) * 2 ^ (64 - n)) = _
      rw [Nat.or_comm]
      apply lor_mul_pow
      apply Nat.div_lt_of_lt_mul
      rw [hpq]; exact hw
    rw [e0]
    generalize 2 ^ n = p at *
    generalize 2 ^ (64 - n) = q at *
    have e1 : w * q % W = w % p * q := by rw [← hpq, Nat.mul_mod_mul_right]
    have e2 : c / q * q = c := by
      have := Nat.div_add_mod c q; rw [hd] at this; rw [Nat.mul_comm]; omega
    refine ⟨?_, e1⟩
    simp only []
    rw [e2, Nat.add_comm]

end ObiVerif.Fp
