import ObiVerif.Model.KseqIdx
import ObiVerif.Lemmas.KseqStream
set_option Elab.async false
namespace ObiVerif.KseqIdx
open ObiVerif.Kseq

def slice (L : Bytes) (b e : Int) : Bytes := (L.drop b.toNat).take (e - b).toNat

theorem rd_eq (buf : Array UInt8) (i : Int) : rd buf i = buf.toList.getD i.toNat 0 := by
  simp [rd, Array.getD_eq_getD_getElem?, List.getD_eq_getElem?_getD]

theorem slice_nil {L : Bytes} {b e : Int} (h : e ≤ b) : slice L b e = [] := by
  have : (e - b).toNat = 0 := by omega
  simp [slice, this]

theorem slice_cons {L : Bytes} {b e : Int} (h0 : 0 ≤ b) (h1 : b < e) (h2 : e ≤ L.length) :
    slice L b e = L.getD b.toNat 0 :: slice L (b + 1) e := by
  unfold slice
  have hb : b.toNat < L.length := by omega
  have e1 : (e - b).toNat = (e - (b + 1)).toNat + 1 := by omega
  have e2 : (b + 1).toNat = b.toNat + 1 := by omega
  rw [e1, e2, List.drop_eq_getElem_cons hb, List.take_succ_cons]
  simp [List.getD_eq_getElem?_getD, hb]

theorem store_toList (buf : Array UInt8) (b : Bytes) : (store buf b).toList = b ++ buf.toList.drop b.length := by
  simp [store]

theorem store_size (buf : Array UInt8) (b : Bytes) (h : b.length ≤ buf.size) : (store buf b).size = buf.size := by
  simp [store]; omega

def absKS (s : IKS) : KS := ⟨slice s.buf.toList s.begin s.end_, s.isEof, rd s.buf 0, s.next⟩

def RdOK (bufsz : Nat) : Rd → Prop
  | .full _ r => r.length + 1 = bufsz
  | .short b => b.length < bufsz
  | .fail => True

structure InvI (bufsz : Nat) (s : IKS) : Prop where
  pos : 1 ≤ bufsz
  size : s.buf.size = bufsz
  beg : 0 ≤ s.begin
  en : s.end_ ≤ bufsz
  nxt : ∀ r ∈ s.next, RdOK bufsz r

theorem slice_store_all (buf : Array UInt8) (b : Bytes) : slice (store buf b).toList 0 b.length = b := by
  simp [slice, store_toList]

theorem rd_store_cons (buf : Array UInt8) (c : UInt8) (r : Bytes) : rd (store buf (c :: r)) 0 = c := by
  simp [rd_eq, store_toList]

theorem rd_store_nil (buf : Array UInt8) : store buf [] = buf := by
  simp [store]

/-- what `fill` does, by the next `gzread` -/
theorem fill_nil {bufsz : Nat} {s : IKS} (hb : 1 ≤ bufsz) (h : s.next = []) :
    fill bufsz s = ⟨s.buf, 0, 0, true, []⟩ := by
  simp [fill, h, gzreadI]
  exact Or.inl hb

theorem fill_full {bufsz : Nat} {s : IKS} {c : UInt8} {r : Bytes} {rest : List Rd}
    (h : s.next = .full c r :: rest) (hl : r.length + 1 = bufsz) :
    fill bufsz s = ⟨store s.buf (c :: r), 0, (bufsz : Int), s.isEof, rest⟩ := by
  have : ¬ ((r.length : Int) + 1 < bufsz) := by omega
  simp [fill, h, gzreadI, this]
  omega

theorem fill_short {bufsz : Nat} {s : IKS} {b : Bytes} {rest : List Rd}
    (h : s.next = .short b :: rest) (hl : b.length < bufsz) :
    fill bufsz s = ⟨store s.buf b, 0, (b.length : Int), true, rest⟩ := by
  have : ((b.length : Int) < bufsz) := by omega
  simp [fill, h, gzreadI, this]

theorem fill_fail {bufsz : Nat} {s : IKS} {rest : List Rd}
    (h : s.next = .fail :: rest) :
    fill bufsz s = ⟨s.buf, 0, -1, true, rest⟩ := by
  have : ((-1 : Int) < bufsz) := by omega
  simp [fill, h, gzreadI, this]

theorem InvI.tail {bufsz : Nat} {s : IKS} (h : InvI bufsz s) {r : Rd} {rest : List Rd} (hn : s.next = r :: rest) :
    RdOK bufsz r ∧ ∀ x ∈ rest, RdOK bufsz x := by
  have := h.nxt
  rw [hn] at this
  exact ⟨this r (by simp), fun x hx => this x (by simp [hx])⟩

/-- advancing `begin` keeps the invariant -/
theorem InvI.adv {bufsz : Nat} {s : IKS} (h : InvI bufsz s) (i : Int) (hi : 0 ≤ i) :
    InvI bufsz { s with begin := i } := ⟨h.pos, h.size, hi, h.en, h.nxt⟩

theorem fill_inv {bufsz : Nat} {s : IKS} (h : InvI bufsz s) : InvI bufsz (fill bufsz s) := by
  cases hn : s.next with
  | nil =>
    rw [fill_nil h.pos hn]
    exact ⟨h.pos, h.size, by simp, by simp, by simp⟩
  | cons r rest =>
    obtain ⟨h1, h2⟩ := h.tail hn
    cases r with
    | full c r =>
      rw [fill_full hn h1]
      exact ⟨h.pos, by rw [store_size _ _ (by simp [h.size]; exact Nat.le_of_eq h1)]; exact h.size, by simp, by simp, h2⟩
    | short b =>
      rw [fill_short hn h1]
      exact ⟨h.pos, by rw [store_size _ _ (by rw [h.size]; exact Nat.le_of_lt h1)]; exact h.size, by simp,
        by simp only; have : b.length < bufsz := h1; omega, h2⟩
    | fail =>
      rw [fill_fail hn]
      exact ⟨h.pos, h.size, by simp, by simp only; omega, h2⟩

/-- `ks_getc` when the buffer is not exhausted -/
theorem getc_abs_lt {bufsz : Nat} {s : IKS} (h : InvI bufsz s) (hlt : s.begin < s.end_) :
    getc (absKS s) = (some (rd s.buf s.begin), absKS { s with begin := s.begin + 1 }) := by
  have hc := slice_cons (L := s.buf.toList) h.beg hlt (by simp [h.size, h.en])
  simp only [getc, absKS, hc, rd_eq]

theorem getcI_sim {bufsz : Nat} {s : IKS} (h : InvI bufsz s) :
    getc (absKS s) = ((getcI bufsz s).1, absKS (getcI bufsz s).2) ∧ InvI bufsz (getcI bufsz s).2 := by
  by_cases hlt : s.begin < s.end_
  · have e : getcI bufsz s = (some (rd s.buf s.begin), { s with begin := s.begin + 1 }) := by
      have : ¬ (s.end_ ≤ s.begin) := by omega
      simp [getcI, this]
    rw [e]
    exact ⟨getc_abs_lt h hlt, h.adv _ (by have := h.beg; omega)⟩
  · have hge : s.end_ ≤ s.begin := by omega
    have hcur : slice s.buf.toList s.begin s.end_ = [] := slice_nil hge
    by_cases he : s.isEof = true
    · have e : getcI bufsz s = (none, s) := by simp [getcI, he, hge]
      rw [e]
      refine ⟨?_, h⟩
      simp [getc, absKS, hcur, he]
    · have he' : s.isEof = false := by simpa using he
      have e : getcI bufsz s = (if (fill bufsz s).end_ == 0 then (none, fill bufsz s)
          else (some (rd (fill bufsz s).buf (fill bufsz s).begin),
            { fill bufsz s with begin := (fill bufsz s).begin + 1 })) := by
        simp [getcI, he', hge]
      rw [e]
      have hfi := fill_inv h
      cases hn : s.next with
      | nil =>
        rw [fill_nil h.pos hn]
        refine ⟨?_, ⟨h.pos, h.size, by simp, by simp, by simp⟩⟩
        simp [getc, absKS, hcur, he', hn, slice_nil]
      | cons r rest =>
        obtain ⟨h1, h2⟩ := h.tail hn
        cases r with
        | full c r =>
          have h1' : r.length + 1 = bufsz := h1
          rw [fill_full hn h1] at hfi ⊢
          have hne : ¬ ((bufsz : Int) = 0) := by have := h.pos; omega
          simp only [beq_iff_eq, hne, if_false]
          refine ⟨?_, hfi.adv _ (by omega)⟩
          have hc := slice_cons (L := (store s.buf (c :: r)).toList) (b := 0) (e := bufsz) (by omega)
            (by have := h.pos; omega) (by simp [hfi.size])
          have hs := slice_store_all s.buf (c :: r)
          simp only [List.length_cons, Int.natCast_add, Int.natCast_one] at hs
          have hbz : ((r.length : Int) + 1) = bufsz := by omega
          rw [hbz, hc] at hs
          simp only [List.cons.injEq] at hs
          simp only [getc, absKS, hcur, he', hn, rd_eq, Bool.false_eq_true, if_false]
          simp only [Int.toNat_zero, Int.zero_add] at hs ⊢
          rw [hs.1, hs.2]
        | short b =>
          have h1' : b.length < bufsz := h1
          rw [fill_short hn h1] at hfi ⊢
          cases b with
          | nil =>
            simp only [List.length_nil, Int.natCast_zero, beq_self_eq_true, if_true]
            refine ⟨?_, hfi⟩
            simp [getc, absKS, hcur, he', hn, slice_nil, rd_store_nil]
          | cons c r =>
            have hne : ¬ ((((c :: r).length : Nat) : Int) = 0) := by simp; omega
            simp only [beq_iff_eq, hne, if_false]
            refine ⟨?_, hfi.adv _ (by omega)⟩
            have hc := slice_cons (L := (store s.buf (c :: r)).toList) (b := 0) (e := ((c :: r).length : Nat)) (by omega)
              (by simp) (by have := hfi.size; simp only [List.length_cons] at h1'; simp only at this; simp [this]; omega)
            have hs := slice_store_all s.buf (c :: r)
            rw [hc] at hs
            simp only [List.cons.injEq] at hs
            simp only [getc, absKS, hcur, he', hn, rd_eq, Bool.false_eq_true, if_false]
            simp only [Int.toNat_zero, Int.zero_add] at hs ⊢
            rw [hs.1, hs.2]
        | fail =>
          rw [fill_fail hn] at hfi ⊢
          have hne : ¬ ((-1 : Int) = 0) := by omega
          simp only [beq_iff_eq, hne, if_false]
          refine ⟨?_, hfi.adv _ (by omega)⟩
          simp [getc, absKS, hcur, he', hn, slice_nil]

/-- one call of `ks_getc`, as used below -/
theorem getcI_step {bufsz : Nat} {s s' : IKS} {o : Option UInt8} (h : InvI bufsz s) (hg : getcI bufsz s = (o, s')) :
    getc (absKS s) = (o, absKS s') ∧ InvI bufsz s' := by
  have := getcI_sim h
  rw [hg] at this
  exact this

theorem skipToHeaderI_sim {bufsz : Nat} (s : IKS) (h : InvI bufsz s) :
    skipToHeader (absKS s) = ((skipToHeaderI bufsz s).1, absKS (skipToHeaderI bufsz s).2) ∧
    InvI bufsz (skipToHeaderI bufsz s).2 := by
  fun_induction skipToHeaderI bufsz s with
  | case1 s s' hg =>
    obtain ⟨h1, h2⟩ := getcI_step h hg
    exact ⟨skipToHeader_none h1, h2⟩
  | case2 s c s' hg hc =>
    obtain ⟨h1, h2⟩ := getcI_step h hg
    rw [skipToHeader_some h1]
    simp only [hc, if_true]
    exact ⟨trivial, h2⟩
  | case3 s c s' hg hc ih =>
    obtain ⟨h1, h2⟩ := getcI_step h hg
    rw [skipToHeader_some h1]
    simp only [hc]
    exact ih h2

theorem skipLineI_sim {bufsz : Nat} (s : IKS) (h : InvI bufsz s) :
    skipLine (absKS s) = ((skipLineI bufsz s).1, absKS (skipLineI bufsz s).2) ∧
    InvI bufsz (skipLineI bufsz s).2 := by
  fun_induction skipLineI bufsz s with
  | case1 s s' hg =>
    obtain ⟨h1, h2⟩ := getcI_step h hg
    exact ⟨skipLine_none h1, h2⟩
  | case2 s c s' hg hc =>
    obtain ⟨h1, h2⟩ := getcI_step h hg
    rw [skipLine_some h1]
    simp only [hc, if_true]
    exact ⟨trivial, h2⟩
  | case3 s c s' hg hc ih =>
    obtain ⟨h1, h2⟩ := getcI_step h hg
    rw [skipLine_some h1]
    simp only [hc]
    exact ih h2

theorem seqLoopI_sim {bufsz : Nat} (s : IKS) (acc : Bytes) (h : InvI bufsz s) :
    seqLoop (absKS s) acc = ((seqLoopI bufsz s acc).1, (seqLoopI bufsz s acc).2.1, absKS (seqLoopI bufsz s acc).2.2) ∧
    InvI bufsz (seqLoopI bufsz s acc).2.2 := by
  fun_induction seqLoopI bufsz s acc with
  | case1 s acc s' hg =>
    obtain ⟨h1, h2⟩ := getcI_step h hg
    exact ⟨seqLoop_none acc h1, h2⟩
  | case2 s acc c s' hg hc =>
    obtain ⟨h1, h2⟩ := getcI_step h hg
    rw [seqLoop_some acc h1]
    simp only [hc, if_true]
    exact ⟨trivial, h2⟩
  | case3 s acc c s' hg hc hgr ih =>
    obtain ⟨h1, h2⟩ := getcI_step h hg
    rw [seqLoop_some acc h1]
    simp only [hc, hgr, if_true]
    exact ih h2
  | case4 s acc c s' hg hc hgr ih =>
    obtain ⟨h1, h2⟩ := getcI_step h hg
    rw [seqLoop_some acc h1]
    simp only [hc, hgr]
    exact ih h2

theorem qualLoopI_sim {bufsz : Nat} (n : Nat) (s : IKS) (acc : Bytes) (h : InvI bufsz s) :
    qualLoop n (absKS s) acc = ((qualLoopI bufsz n s acc).1, absKS (qualLoopI bufsz n s acc).2) ∧
    InvI bufsz (qualLoopI bufsz n s acc).2 := by
  fun_induction qualLoopI bufsz n s acc with
  | case1 s acc s' hg =>
    obtain ⟨h1, h2⟩ := getcI_step h hg
    exact ⟨qualLoop_none n acc h1, h2⟩
  | case2 s acc c s' hg hc hq ih =>
    obtain ⟨h1, h2⟩ := getcI_step h hg
    rw [qualLoop_some n acc h1]
    simp only [hc, if_true, hq]
    exact ih h2
  | case3 s acc c s' hg hc hq ih =>
    obtain ⟨h1, h2⟩ := getcI_step h hg
    rw [qualLoop_some n acc h1]
    simp only [hc, if_true, hq]
    exact ih h2
  | case4 s acc c s' hg hc =>
    obtain ⟨h1, h2⟩ := getcI_step h hg
    rw [qualLoop_some n acc h1]
    simp only [hc, if_false]
    exact ⟨trivial, h2⟩


/-! ## `ks_getuntil` -/

theorem take_takeWhile_length {α} (p : α → Bool) : ∀ l : List α, l.take (l.takeWhile p).length = l.takeWhile p
  | [] => rfl
  | a :: l => by
    by_cases h : p a = true
    · simp [h, take_takeWhile_length p l]
    · simp [h]

theorem drop_takeWhile_length {α} (p : α → Bool) : ∀ l : List α, l.drop (l.takeWhile p).length = l.dropWhile p
  | [] => rfl
  | a :: l => by
    by_cases h : p a = true
    · simp [h, drop_takeWhile_length p l]
    · simp [h]

theorem length_takeWhile_le' {α} (p : α → Bool) (l : List α) : (l.takeWhile p).length ≤ l.length := by
  have := congrArg List.length (take_takeWhile_length p l)
  simp only [List.length_take] at this
  omega

theorem slice_length {L : Bytes} {b e : Int} (h0 : 0 ≤ b) (h1 : b ≤ e) (h2 : e ≤ L.length) :
    (slice L b e).length = (e - b).toNat := by
  simp only [slice, List.length_take, List.length_drop]
  omega

theorem slice_drop {L : Bytes} {b e : Int} (k : Nat) (_h0 : 0 ≤ b) :
    (slice L b e).drop k = slice L (b + k) e := by
  simp only [slice, List.drop_take, List.drop_drop]
  have e1 : (b + k).toNat = b.toNat + k := by omega
  have e2 : (e - (b + k)).toNat = (e - b).toNat - k := by omega
  rw [e1, e2]

theorem bytesAt_eq {buf : Array UInt8} {b e : Int} (k : Nat) (_h0 : 0 ≤ b) (hk : k ≤ (e - b).toNat) :
    bytesAt buf b k = (slice buf.toList b e).take k := by
  simp only [bytesAt, slice, List.take_take, Int.toNat_natCast]
  rw [Nat.min_eq_left hk]

theorem scan_ge (isSep : UInt8 → Bool) (buf : Array UInt8) {e j : Int} (h : e ≤ j) : scan isSep buf e j = j := by
  rw [scan]
  have : ¬ j < e := by omega
  simp [this]

theorem scan_eq (isSep : UInt8 → Bool) (buf : Array UInt8) (e : Int) (he : e ≤ buf.size) :
    ∀ (n : Nat) (j : Int), (e - j).toNat = n → 0 ≤ j → j ≤ e →
      scan isSep buf e j = j + (((slice buf.toList j e).takeWhile (fun c => !isSep c)).length : Nat) := by
  intro n
  induction n with
  | zero =>
    intro j hn h0 h1
    rw [scan_ge isSep buf (by omega), slice_nil (by omega)]
    simp
  | succ n ih =>
    intro j hn h0 h1
    have hlt : j < e := by omega
    rw [scan, slice_cons h0 hlt (by simpa using he), List.takeWhile_cons]
    simp only [hlt, if_true, ← rd_eq]
    cases hs : isSep (rd buf j) with
    | true => simp
    | false =>
      simp only [Bool.false_eq_true, if_false, Bool.not_false, if_true, List.length_cons]
      rw [ih (j + 1) (by omega) (by omega) (by omega)]
      omega

/-- the inner scan of `ks_getuntil` and its `memcpy`, in terms of the unread bytes of the buffer -/
theorem scan_spec (isSep : UInt8 → Bool) {bufsz : Nat} {s : IKS} (h : InvI bufsz s) :
    s.begin ≤ scan isSep s.buf s.end_ s.begin ∧
    bytesAt s.buf s.begin (scan isSep s.buf s.end_ s.begin - s.begin) =
      (absKS s).cur.takeWhile (fun c => !isSep c) ∧
    (scan isSep s.buf s.end_ s.begin < s.end_ →
      (absKS s).cur.dropWhile (fun c => !isSep c) =
        rd s.buf (scan isSep s.buf s.end_ s.begin) ::
          slice s.buf.toList (scan isSep s.buf s.end_ s.begin + 1) s.end_) ∧
    (¬ scan isSep s.buf s.end_ s.begin < s.end_ → (absKS s).cur.dropWhile (fun c => !isSep c) = []) := by
  by_cases hlt : s.begin < s.end_
  · have he : s.end_ ≤ (s.buf.size : Int) := by rw [h.size]; exact h.en
    have hsc := scan_eq isSep s.buf s.end_ he _ s.begin rfl h.beg (by omega)
    have hlen := slice_length (L := s.buf.toList) h.beg (Int.le_of_lt hlt) (by simpa using he)
    have hk : ((absKS s).cur.takeWhile (fun c => !isSep c)).length ≤ (s.end_ - s.begin).toNat := by
      rw [← hlen]; exact length_takeWhile_le' _ _
    simp only [absKS] at hk ⊢
    generalize hkk : ((slice s.buf.toList s.begin s.end_).takeWhile (fun c => !isSep c)).length = k at hsc hk
    rw [hsc]
    have e1 : s.begin + (k : Int) - s.begin = (k : Int) := by omega
    have hb0 := h.beg
    refine ⟨by omega, ?_, ?_, ?_⟩
    · rw [e1, bytesAt_eq (e := s.end_) k h.beg hk, ← hkk, take_takeWhile_length]
    · intro hi
      rw [← drop_takeWhile_length, hkk, slice_drop k h.beg,
        slice_cons (by omega) hi (by simpa using he), rd_eq]
    · intro hi
      rw [← drop_takeWhile_length, hkk]
      apply List.drop_eq_nil_of_le
      rw [hlen]; omega
  · have hge : s.end_ ≤ s.begin := by omega
    rw [scan_ge isSep s.buf hge]
    have hcur : (absKS s).cur = [] := slice_nil hge
    rw [hcur]
    refine ⟨Int.le_refl _, ?_, fun hi => absurd hi hlt, fun _ => rfl⟩
    simp [bytesAt]


/-! ### the list-level loop `Kseq.guLoop`, one turn at a time -/

theorem guLoop_stop (isSep : UInt8 → Bool) (next : List Rd) (cur : Bytes) (e : Bool) (b : UInt8) (acc : Bytes)
    {d : UInt8} {r : Bytes} (h : cur.dropWhile (fun c => !isSep c) = d :: r) :
    guLoop isSep next cur e b acc = (acc ++ cur.takeWhile (fun c => !isSep c), d, ⟨r, e, b, next⟩) := by
  rw [guLoop.eq_def]
  simp only [h]

theorem guLoop_eof (isSep : UInt8 → Bool) (next : List Rd) (b : UInt8) (acc : Bytes) :
    guLoop isSep next [] true b acc = (acc, 0, ⟨[], true, b, next⟩) := by
  rw [guLoop.eq_def]
  simp

theorem guLoop_all (isSep : UInt8 → Bool) (next : List Rd) (cur : Bytes) (e : Bool) (b : UInt8) (acc : Bytes)
    (h : cur.dropWhile (fun c => !isSep c) = []) :
    guLoop isSep next cur e b acc = guLoop isSep next [] e b (acc ++ cur.takeWhile (fun c => !isSep c)) := by
  rw [guLoop.eq_def]
  conv => rhs; rw [guLoop.eq_def]
  simp only [h, List.takeWhile_nil, List.dropWhile_nil, List.append_nil]


/-! ### the head of a turn of `ks_getuntil` -/

theorem guTop_true {bufsz : Nat} {s s1 : IKS} (h : guTop bufsz s = (true, s1)) :
    s.end_ ≤ s.begin ∧
    ((s.isEof = true ∧ s1 = s) ∨ (s.isEof = false ∧ s1 = fill bufsz s ∧ s1.end_ = 0)) := by
  unfold guTop at h
  split at h
  · rename_i hge
    refine ⟨hge, ?_⟩
    split at h
    · rename_i he
      simp only at h
      split at h
      · rename_i h0
        simp only [Prod.mk.injEq, true_and] at h
        subst h
        exact Or.inr ⟨by simpa using he, rfl, by simpa using h0⟩
      · simp at h
    · rename_i he
      simp only [Prod.mk.injEq, true_and] at h
      exact Or.inl ⟨by simpa using he, h.symm⟩
  · simp at h

/-- a turn that breaks at its head -/
theorem guTop_true_abs (isSep : UInt8 → Bool) {bufsz : Nat} {s s1 : IKS} (str : Bytes) (hi : InvI bufsz s)
    (h : guTop bufsz s = (true, s1)) :
    guLoop isSep s.next (absKS s).cur s.isEof (rd s.buf 0) str = (str, 0, absKS s1) ∧ InvI bufsz s1 := by
  obtain ⟨hge, ⟨he, rfl⟩ | ⟨he, rfl, h0⟩⟩ := guTop_true h
  · have hcur : (absKS s1).cur = [] := slice_nil hge
    rw [hcur, he, guLoop_eof]
    refine ⟨?_, hi⟩
    simp only [absKS, Prod.mk.injEq, true_and]
    rw [show slice s1.buf.toList s1.begin s1.end_ = [] from hcur, he]
  · have hcur : (absKS s).cur = [] := slice_nil hge
    refine ⟨?_, fill_inv hi⟩
    rw [hcur, he, guLoop.eq_def]
    cases hn : s.next with
    | nil =>
      rw [fill_nil hi.pos hn]
      simp [absKS, slice_nil]
    | cons r rest =>
      obtain ⟨h1, h2⟩ := hi.tail hn
      cases r with
      | full c r =>
        have h1' : r.length + 1 = bufsz := h1
        rw [fill_full hn h1] at h0
        simp only at h0
        omega
      | short b =>
        rw [fill_short hn h1] at h0 ⊢
        simp only at h0
        have hb : b = [] := List.eq_nil_of_length_eq_zero (by omega)
        subst hb
        simp [absKS, slice_nil, rd_store_nil, guLoop_eof]
      | fail =>
        rw [fill_fail hn] at h0
        simp at h0

/-- a turn that goes on to the scan: the refill, if any, is the one `Kseq.guLoop` makes -/
theorem guTop_false_abs (isSep : UInt8 → Bool) {bufsz : Nat} {s s1 : IKS} (str : Bytes) (hi : InvI bufsz s)
    (h : guTop bufsz s = (false, s1)) :
    guLoop isSep s.next (absKS s).cur s.isEof (rd s.buf 0) str =
      guLoop isSep s1.next (absKS s1).cur s1.isEof (rd s1.buf 0) str ∧ InvI bufsz s1 := by
  rcases guTop_false h with ⟨_, rfl⟩ | ⟨hge, he, rfl, h0, _⟩
  · exact ⟨rfl, hi⟩
  · have hcur : (absKS s).cur = [] := slice_nil hge
    refine ⟨?_, fill_inv hi⟩
    rw [hcur, he]
    conv => lhs; rw [guLoop.eq_def]
    cases hn : s.next with
    | nil =>
      rw [fill_nil hi.pos hn] at h0
      simp at h0
    | cons r rest =>
      obtain ⟨h1, h2⟩ := hi.tail hn
      cases r with
      | full c r =>
        have h1' : r.length + 1 = bufsz := h1
        rw [fill_full hn h1]
        have hs := slice_store_all s.buf (c :: r)
        simp only [List.length_cons, Int.natCast_add, Int.natCast_one] at hs
        have hbz : ((r.length : Int) + 1) = bufsz := by omega
        rw [hbz] at hs
        simp [absKS, hs, rd_store_cons, he]
      | short b =>
        rw [fill_short hn h1] at h0 ⊢
        simp only at h0
        cases b with
        | nil => simp at h0
        | cons c r =>
          have hs := slice_store_all s.buf (c :: r)
          simp only [List.length_cons, Int.natCast_add, Int.natCast_one] at hs
          simp [absKS, hs, rd_store_cons]
      | fail =>
        rw [fill_fail hn]
        simp [absKS, slice_nil, guLoop_eof]


/-- **the `for (;;)` loop of `ks_getuntil`, index level = list level** -/
theorem getuntilLoop_sim (isSep : UInt8 → Bool) {bufsz : Nat} (s : IKS) (str : Bytes) (hi : InvI bufsz s) :
    guLoop isSep s.next (absKS s).cur s.isEof (rd s.buf 0) str =
      ((getuntilLoop bufsz isSep s str).1, (getuntilLoop bufsz isSep s str).2.1,
        absKS (getuntilLoop bufsz isSep s str).2.2) ∧
    InvI bufsz (getuntilLoop bufsz isSep s str).2.2 := by
  fun_induction getuntilLoop bufsz isSep s str with
  | case1 s str s1 h => exact guTop_true_abs isSep str hi h
  | case2 s str s1 h i str' hlt =>
    obtain ⟨e1, hi1⟩ := guTop_false_abs isSep str hi h
    obtain ⟨hb, hcp, hfound, _⟩ := scan_spec isSep hi1
    rw [e1, guLoop_stop isSep _ _ _ _ _ (hfound hlt), ← hcp]
    exact ⟨rfl, hi1.adv _ (by have := hi1.beg; omega)⟩
  | case3 s str s1 h i str' hlt ih =>
    obtain ⟨e1, hi1⟩ := guTop_false_abs isSep str hi h
    obtain ⟨hb, hcp, _, hall⟩ := scan_spec isSep hi1
    have hi2 : InvI bufsz { s1 with begin := i + 1 } := hi1.adv _ (by have := hi1.beg; omega)
    obtain ⟨ih1, ih2⟩ := ih hi2
    refine ⟨?_, ih2⟩
    rw [e1, guLoop_all isSep _ _ _ _ _ (hall hlt), ← hcp, ← ih1]
    have : (absKS { s1 with begin := i + 1 }).cur = [] := slice_nil (by simp only; omega)
    rw [this]

theorem getuntilI_sim (isSep : UInt8 → Bool) {bufsz : Nat} (s : IKS) (hi : InvI bufsz s) :
    getuntil isSep (absKS s) =
      ⟨(getuntilI bufsz isSep s).ret, (getuntilI bufsz isSep s).str, (getuntilI bufsz isSep s).dret,
        absKS (getuntilI bufsz isSep s).ks⟩ ∧
    InvI bufsz (getuntilI bufsz isSep s).ks := by
  have hemp : (absKS s).cur.isEmpty = decide (s.begin ≥ s.end_) := by
    by_cases hlt : s.begin < s.end_
    · have hc := slice_cons (L := s.buf.toList) hi.beg hlt (by simp [hi.size, hi.en])
      have : ¬ (s.end_ ≤ s.begin) := by omega
      simp [absKS, hc, this]
    · have hge : s.end_ ≤ s.begin := by omega
      have hc : (absKS s).cur = [] := slice_nil hge
      simp [hc, hge]
  unfold getuntil getuntilI
  rw [hemp]
  have e0 : (absKS s).isEof = s.isEof := rfl
  rw [e0]
  split
  · exact ⟨rfl, hi⟩
  · obtain ⟨h1, h2⟩ := getuntilLoop_sim isSep s [] hi
    refine ⟨?_, h2⟩
    have e1 : (absKS s).next = s.next := rfl
    have e2 : (absKS s).buf0 = rd s.buf 0 := rfl
    simp only [e1, e2, h1]


/-! ## `kseq_read` -/

def absSt (st : StI) : St := ⟨st.lastChar, absKS st.ks⟩

def absGU (g : GUI) : GU := ⟨g.ret, g.str, g.dret, absKS g.ks⟩

/-- the comment part of `kseq_read` (as `Kseq.cmOf`) -/
def cmOfI (bufsz : Nat) (g : GUI) : GUI :=
  if g.dret != 10 then getuntilI bufsz (fun c => c == 10) g.ks else ⟨0, [], 0, g.ks⟩

/-- `kseq_read` from the sequence loop on (as `Kseq.kseqTail`) -/
def kseqTailI (bufsz : Nat) (lc : UInt8) (nm cm : Bytes) (s1 : IKS) : Int × Rec × StI :=
  let q := seqLoopI bufsz s1 []
  let lc2 := match q.1 with
    | some c => if c == 62 || c == 64 then c else lc
    | none => lc
  if q.1 != some 43 then ((q.2.1.length : Int), ⟨nm, cm, q.2.1, []⟩, ⟨lc2, q.2.2⟩) else
  let k := skipLineI bufsz q.2.2
  match k.1 with
  | none => (-2, ⟨nm, cm, q.2.1, []⟩, ⟨lc2, k.2⟩)
  | some _ =>
    let ql := qualLoopI bufsz q.2.1.length k.2 []
    if q.2.1.length != ql.1.length then (-2, ⟨nm, cm, q.2.1, ql.1⟩, ⟨0, ql.2⟩)
    else ((q.2.1.length : Int), ⟨nm, cm, q.2.1, ql.1⟩, ⟨0, ql.2⟩)

theorem kseqBodyI_eq (bufsz : Nat) (lc : UInt8) (s : IKS) (hg : ¬ (getuntilI bufsz isSpace s).ret < 0) :
    kseqBodyI bufsz lc s = kseqTailI bufsz lc (getuntilI bufsz isSpace s).str
      (cmOfI bufsz (getuntilI bufsz isSpace s)).str (cmOfI bufsz (getuntilI bufsz isSpace s)).ks := by
  simp only [kseqBodyI, hg, if_false, cmOfI, kseqTailI]
  rfl

theorem cmOfI_sim {bufsz : Nat} (g : GUI) (hi : InvI bufsz g.ks) :
    cmOf (absGU g) = absGU (cmOfI bufsz g) ∧ InvI bufsz (cmOfI bufsz g).ks := by
  unfold cmOf cmOfI
  have e : (absGU g).dret = g.dret := rfl
  rw [e]
  split
  · obtain ⟨h1, h2⟩ := getuntilI_sim (fun c => c == 10) g.ks hi
    exact ⟨h1, h2⟩
  · exact ⟨rfl, hi⟩

theorem kseqTailI_sim {bufsz : Nat} (lc : UInt8) (nm cm : Bytes) (s1 : IKS) (hi : InvI bufsz s1) :
    kseqTail lc nm cm (absKS s1) =
      ((kseqTailI bufsz lc nm cm s1).1, (kseqTailI bufsz lc nm cm s1).2.1, absSt (kseqTailI bufsz lc nm cm s1).2.2) ∧
    InvI bufsz (kseqTailI bufsz lc nm cm s1).2.2.ks := by
  obtain ⟨hq, iq⟩ := seqLoopI_sim s1 [] hi
  unfold kseqTail kseqTailI
  simp only [hq]
  generalize seqLoopI bufsz s1 [] = q at iq ⊢
  by_cases h43 : (q.1 != some 43) = true
  · simp only [h43, if_true]
    exact ⟨rfl, iq⟩
  · simp only [h43]
    obtain ⟨hk, ik⟩ := skipLineI_sim q.2.2 iq
    simp only [hk]
    generalize skipLineI bufsz q.2.2 = k at ik ⊢
    cases hk1 : k.1 with
    | none =>
      simp only []
      exact ⟨rfl, ik⟩
    | some x =>
      simp only []
      obtain ⟨hql, iql⟩ := qualLoopI_sim q.2.1.length k.2 [] ik
      simp only [hql]
      generalize qualLoopI bufsz q.2.1.length k.2 [] = ql at iql ⊢
      by_cases hne : (q.2.1.length != ql.1.length) = true
      · simp only [hne, if_true]
        exact ⟨rfl, iql⟩
      · simp only [hne]
        exact ⟨rfl, iql⟩


theorem kseqBodyI_sim {bufsz : Nat} (lc : UInt8) (s : IKS) (hi : InvI bufsz s) :
    kseqBody lc (absKS s) =
      ((kseqBodyI bufsz lc s).1, (kseqBodyI bufsz lc s).2.1, absSt (kseqBodyI bufsz lc s).2.2) ∧
    InvI bufsz (kseqBodyI bufsz lc s).2.2.ks := by
  obtain ⟨hg, ig⟩ := getuntilI_sim isSpace s hi
  by_cases hneg : (getuntilI bufsz isSpace s).ret < 0
  · have hneg' : (getuntil isSpace (absKS s)).ret < 0 := by rw [hg]; exact hneg
    have e1 : kseqBody lc (absKS s) = (-1, ⟨[], [], [], []⟩, ⟨lc, (getuntil isSpace (absKS s)).ks⟩) := by
      simp only [kseqBody, hneg', if_true]
    have e2 : kseqBodyI bufsz lc s = (-1, ⟨[], [], [], []⟩, ⟨lc, (getuntilI bufsz isSpace s).ks⟩) := by
      simp only [kseqBodyI, hneg, if_true]
    rw [e1, e2, hg]
    exact ⟨rfl, ig⟩
  · have hneg' : ¬ (getuntil isSpace (absKS s)).ret < 0 := by rw [hg]; exact hneg
    rw [kseqBody_eq lc _ hneg', kseqBodyI_eq bufsz lc s hneg]
    have hg' : getuntil isSpace (absKS s) = absGU (getuntilI bufsz isSpace s) := hg
    obtain ⟨hc, ic⟩ := cmOfI_sim (getuntilI bufsz isSpace s) ig
    rw [hg', hc]
    exact kseqTailI_sim lc _ _ _ ic

theorem kseqReadI_sim {bufsz : Nat} (st : StI) (hi : InvI bufsz st.ks) :
    kseqRead (absSt st) = ((kseqReadI bufsz st).1, (kseqReadI bufsz st).2.1, absSt (kseqReadI bufsz st).2.2) ∧
    InvI bufsz (kseqReadI bufsz st).2.2.ks := by
  unfold kseqRead kseqReadI
  have e : (absSt st).lastChar = st.lastChar := rfl
  have e' : (absSt st).ks = absKS st.ks := rfl
  rw [e, e']
  split
  · obtain ⟨hh, ih⟩ := skipToHeaderI_sim st.ks hi
    simp only [hh]
    generalize skipToHeaderI bufsz st.ks = k at ih ⊢
    cases hk1 : k.1 with
    | none => exact ⟨rfl, ih⟩
    | some c => exact kseqBodyI_sim c k.2 ih
  · exact kseqBodyI_sim st.lastChar st.ks hi

theorem nextFastSekI_sim {bufsz : Nat} (fin : Fin) (early : Bool) (st : StI) (hi : InvI bufsz st.ks) :
    nextFastSek fin early (absSt st) =
      ((nextFastSekI bufsz fin early st).1, (nextFastSekI bufsz fin early st).2.1,
        absSt (nextFastSekI bufsz fin early st).2.2) ∧
    InvI bufsz (nextFastSekI bufsz fin early st).2.2.ks := by
  obtain ⟨hr, ir⟩ := kseqReadI_sim st hi
  unfold nextFastSek nextFastSekI
  simp only [hr]
  generalize kseqReadI bufsz st = r at ir ⊢
  have ee : errnum fin early (absSt r.2.2).ks = errnumI fin early r.2.2.ks := rfl
  rw [ee]
  split
  · exact ⟨rfl, ir⟩
  · exact ⟨rfl, ir⟩

/-- under the invariant the termination measures of the two layers coincide -/
theorem sizeI_eq {bufsz : Nat} {s : IKS} (hi : InvI bufsz s) : sizeI s = size (absKS s) := by
  unfold sizeI size
  have : (absKS s).cur.length = (s.end_ - s.begin).toNat := by
    by_cases hlt : s.begin ≤ s.end_
    · exact slice_length hi.beg hlt (by simp [hi.size, hi.en])
    · rw [show (absKS s).cur = [] from slice_nil (by omega)]
      simp only [List.length_nil]; omega
  rw [this]
  rfl

theorem readLoopI_sim {bufsz : Nat} (fin : Fin) (early : Bool) (st : StI) (acc : List Rec) (hi : InvI bufsz st.ks) :
    readLoopI bufsz fin early st acc = readLoop fin early (absSt st) acc := by
  fun_induction readLoopI bufsz fin early st acc with
  | case1 st acc r h0 =>
    obtain ⟨hn, _⟩ := nextFastSekI_sim fin early st hi
    rw [readLoop]
    simp only [hn]
    simp only [show ((nextFastSekI bufsz fin early st).1 == 0) = true from h0, if_true]
  | case2 st acc r h0 hneg =>
    obtain ⟨hn, _⟩ := nextFastSekI_sim fin early st hi
    rw [readLoop]
    simp only [hn]
    have h0' : ((nextFastSekI bufsz fin early st).1 == 0) = false := by simpa using h0
    have hneg' : (nextFastSekI bufsz fin early st).1 < 0 := hneg
    simp only [h0', Bool.false_eq_true, if_false, hneg', if_true]
    rfl
  | case3 st acc r h0 hneg hlt ih =>
    obtain ⟨hn, inx⟩ := nextFastSekI_sim fin early st hi
    rw [readLoop]
    simp only [hn]
    have h0' : ((nextFastSekI bufsz fin early st).1 == 0) = false := by simpa using h0
    have hneg' : ¬ (nextFastSekI bufsz fin early st).1 < 0 := hneg
    have hlt' : size (absSt (nextFastSekI bufsz fin early st).2.2).ks < size (absSt st).ks := by
      have : sizeI (nextFastSekI bufsz fin early st).2.2.ks < sizeI st.ks := hlt
      rw [sizeI_eq inx, sizeI_eq hi] at this
      exact this
    simp only [h0', Bool.false_eq_true, if_false, hneg', hlt', dite_true]
    exact ih inx
  | case4 st acc r h0 hneg hlt =>
    obtain ⟨hn, inx⟩ := nextFastSekI_sim fin early st hi
    rw [readLoop]
    simp only [hn]
    have h0' : ((nextFastSekI bufsz fin early st).1 == 0) = false := by simpa using h0
    have hneg' : ¬ (nextFastSekI bufsz fin early st).1 < 0 := hneg
    have hlt' : ¬ size (absSt (nextFastSekI bufsz fin early st).2.2).ks < size (absSt st).ks := by
      have : ¬ sizeI (nextFastSekI bufsz fin early st).2.2.ks < sizeI st.ks := hlt
      rw [sizeI_eq inx, sizeI_eq hi] at this
      exact this
    simp only [h0', Bool.false_eq_true, if_false, hneg', hlt', dite_false]

/-! ## the `gzread` results `Kseq.reads` makes fit the buffer -/

theorem reads_ok (bufsz : Nat) (hb : 1 ≤ bufsz) (fin : Fin) :
    ∀ (fuel : Nat) (d : Bytes), ∀ r ∈ reads bufsz fin fuel d, RdOK bufsz r := by
  intro fuel
  induction fuel with
  | zero =>
    intro d r hr
    simp only [reads, List.mem_singleton] at hr
    subst hr; trivial
  | succ n ih =>
    intro d r hr
    simp only [reads] at hr
    split at hr
    · rename_i hc
      split at hr
      · rename_i c t hct
        rcases List.mem_cons.mp hr with rfl | hr
        · have := congrArg List.length hct
          simp only [List.length_take, List.length_cons] at this
          show t.length + 1 = bufsz
          omega
        · exact ih _ r hr
      · simp only [List.mem_singleton] at hr
        subst hr
        show 0 < bufsz
        omega
    · rename_i hc
      split at hr
      · simp only [List.mem_singleton] at hr
        subst hr; trivial
      · simp only [List.mem_singleton] at hr
        subst hr
        show d.length < bufsz
        omega

theorem initStI_inv (bufsz : Nat) (hb : 1 ≤ bufsz) (fin : Fin) (buf : Array UInt8) (hsz : buf.size = bufsz)
    (d : Bytes) : InvI bufsz (initStI bufsz fin buf d).ks :=
  ⟨hb, hsz, Int.le_refl _, by simp [initStI], reads_ok bufsz hb fin _ d⟩

theorem initStI_abs (bufsz : Nat) (fin : Fin) (buf : Array UInt8) (d : Bytes) :
    absSt (initStI bufsz fin buf d) = initSt bufsz fin (buf.getD 0 0) d := by
  simp [absSt, initStI, initSt, absKS, slice_nil, rd]

/-- **refinement**: for every buffer size ≥ 1, every initial content of the `malloc`'ed buffer, every stream and
final status, the index-level transcription computes exactly what the list model computes (`junk` = the
initial `buf[0]`) -/
theorem readAllI_eq (bufsz : Nat) (hb : 1 ≤ bufsz) (fin : Fin) (early : Bool) (buf : Array UInt8)
    (hsz : buf.size = bufsz) (d : Bytes) :
    readAllI bufsz fin early buf d = readAll bufsz fin early (buf.getD 0 0) d := by
  unfold readAllI readAll
  rw [readLoopI_sim fin early _ [] (initStI_inv bufsz hb fin buf hsz d), initStI_abs]


/-! ## every access to the buffer is in bounds -/

/-- the byte `ks_getc` returns is read at an index in `[0, __bufsize)` (index 0 after a failed `gzread`) -/
theorem getcI_in_bounds {bufsz : Nat} {s s' : IKS} {c : UInt8} (hi : InvI bufsz s)
    (h : getcI bufsz s = (some c, s')) :
    0 ≤ s'.begin - 1 ∧ s'.begin - 1 < bufsz ∧ c = rd s'.buf (s'.begin - 1) := by
  have hb := hi.beg
  have he := hi.en
  have hp := hi.pos
  unfold getcI at h
  split at h
  · simp at h
  · split at h
    · simp only at h
      split at h
      · simp at h
      · have hf := (fill_inv hi).en
        have hf0 : (fill bufsz s).begin = 0 := rfl
        simp only [Prod.mk.injEq, Option.some.injEq] at h
        obtain ⟨rfl, rfl⟩ := h
        simp only [hf0]
        refine ⟨by omega, by omega, by simp⟩
    · simp only [Prod.mk.injEq, Option.some.injEq] at h
      obtain ⟨rfl, rfl⟩ := h
      simp only
      refine ⟨by omega, by omega, by simp⟩

/-- the scan of `ks_getuntil` stops in `[begin, end]`: the bytes tested, the source of the `memcpy` and the
delimiter `buf[i]` (`i < end`) are inside `buf[0 .. __bufsize)` -/
theorem scan_in_bounds (isSep : UInt8 → Bool) {bufsz : Nat} {s : IKS} (hi : InvI bufsz s) (hle : s.begin ≤ s.end_) :
    s.begin ≤ scan isSep s.buf s.end_ s.begin ∧ scan isSep s.buf s.end_ s.begin ≤ s.end_ ∧ s.end_ ≤ bufsz := by
  have he : s.end_ ≤ (s.buf.size : Int) := by rw [hi.size]; exact hi.en
  have hsc := scan_eq isSep s.buf s.end_ he _ s.begin rfl hi.beg hle
  have hlen := slice_length (L := s.buf.toList) hi.beg hle (by simpa using he)
  have hk := length_takeWhile_le' (fun c => !isSep c) (slice s.buf.toList s.begin s.end_)
  refine ⟨(scan_spec isSep hi).1, ?_, hi.en⟩
  rw [hsc]
  omega

end ObiVerif.KseqIdx
