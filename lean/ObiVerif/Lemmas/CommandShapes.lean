import ObiVerif.Model.CommandShapes
import ObiVerif.Lemmas.Command
import ObiVerif.Lemmas.IterWorker
import ObiVerif.Props.C03
/-!
# Lemmas for the command shapes of `Model/CommandShapes.lean`
-/
namespace ObiVerif.Command
open ObiVerif.Reseq ObiVerif.Iter ObiVerif.Writer ObiVerif.Props.C03

/-- the records held by any arrival order of the batches of the input -/
theorem flatten_perm_inFlat (v : Nat → List Rec) (n : Nat) (arr : List Batch)
    (h : arr.Perm ((List.range n).map fun k => (k, v k))) : (flatten arr).Perm (inFlat v n) := by
  have := h.flatMap_right (fun b : Batch => b.2)
  have e2 : flatten ((List.range n).map fun k => (k, v k)) = inFlat v n := flatten_keyed v _
  unfold flatten at e2 ⊢
  rwa [e2] at this

/-- a numbered list (keys `0..m-1` in order) is keyed by its own contents -/
theorem numbered_rep_gen {β : Type} (d : β) (out : List (Nat × β))
    (h : out.map (·.1) = List.range out.length) :
    out = (List.range out.length).map fun k => (k, (out.getD k (0, d)).2) := by
  apply List.ext_getElem (by simp)
  intro i h1 h2
  have hk := List.getElem_of_eq h (by simpa using h1 : i < (out.map (·.1)).length)
  simp only [List.getElem_map, List.getElem_range] at hk
  simp only [List.getElem_map, List.getElem_range, List.getD_eq_getElem?_getD, List.getElem?_eq_getElem h1,
    Option.getD_some]
  exact Prod.ext hk rfl

/-- a permutation of a keyed list is keyed by the same function -/
theorem keyed_of_perm_gen {β : Type} (w : Nat → β) (ks : List Nat) (arr : List (Nat × β))
    (h : arr.Perm (ks.map fun k => (k, w k))) :
    (arr.map (·.1)).Perm ks ∧ arr = (arr.map (·.1)).map fun k => (k, w k) := by
  constructor
  · have := h.map (·.1)
    simpa [List.map_map, Function.comp_def] using this
  · rw [List.map_map]
    conv => lhs; rw [← List.map_id arr]
    apply List.map_congr_left
    intro b hb
    have hb' := h.mem_iff.mp hb
    obtain ⟨k, _, hk⟩ := List.mem_map.mp hb'
    subst hk; rfl

theorem flatten_map_flatten {α : Type} (f : α → Bytes) (l : List (List α)) :
    (l.map fun x => (x.map f).flatten).flatten = (l.flatten.map f).flatten := by
  induction l with
  | nil => rfl
  | cons a t ih => simp [ih]

end ObiVerif.Command
