import ObiVerif.Model.Apat
/-!
# When is a gated search the filter of the whole-read search? (C12, on C10's model of `FilterBestMatch`)

`ExtractMultiBarcode` searches the complemented partner of a primer from `begin = locs[0][0] + 1` on.  The
symmetry theorems of C12 (`symmetric_class`, …) model that call as `gate`: the hits of the WHOLE read that start
at `begin` or after.  `AllMatches(seq, begin)` is `FilterBestMatch` over the raw hits found from `begin` on, and
`FilterBestMatch` keeps one representative per chain of overlapping raw hits — the chains seen from `begin`
are not the chains seen from 0 when a raw hit further left overlaps the first ones.  So *gate = filter* is NOT
a property of the matcher in general (`gate_is_not_filter_with_overlaps`: the shape met on a degenerate 16-nt
IUPAC primer with 3 mismatches); it holds whenever the raw hits of the pattern on the read are pairwise
non-overlapping in the sense of `FilterBestMatch` (`gate_is_filter_of_separated`), which is the situation of
the reads the symmetry theorems are about (separated hits).  The harness counts both classes
(`demux.gate-is-filter`, `demux.gate-is-not-filter.*`); the model of demultiplexing itself never uses `gate`:
it takes the hit lists of the real gated calls as data.
-/
namespace ObiVerif.DemuxGate

open ObiVerif.Apat (Hit filterStep filterBest)

/-- `b` starts (error margin included) after the end of `a`: the negation of the overlap test of `FilterBestMatch` -/
def NoOverlap (a b : Hit) : Prop := a.2.1 + a.2.2 ≤ b.1 - b.2.2

/-- a real hit: an error count below the sentinel -/
def Real (x : Hit) : Prop := x.2.2 < 10000

theorem fold_separated : ∀ (l : List Hit) (b : Hit) (filtered : List Hit), Real b → (∀ x ∈ l, Real x) →
    List.Pairwise NoOverlap (b :: l) →
    ((l.foldl filterStep (filtered, b)).2 :: (l.foldl filterStep (filtered, b)).1).reverse =
      filtered.reverse ++ (b :: l) := by
  intro l
  induction l with
  | nil => intro b filtered _ _ _; simp
  | cons m l' ih =>
    intro b filtered hb hl hp
    have hbm : NoOverlap b m := (List.pairwise_cons.1 hp).1 m (by simp)
    have hstep : filterStep (filtered, b) m = (b :: filtered, m) := by
      unfold filterStep
      have h1 : ¬ (m.1 - m.2.2 < b.2.1 + b.2.2) := by unfold NoOverlap at hbm; omega
      have h2 : b.2.2 < 10000 := hb
      simp [h1, h2]
    rw [List.foldl_cons, hstep]
    rw [ih m (b :: filtered) (hl m (by simp)) (fun x hx => hl x (by simp [hx])) (List.pairwise_cons.1 hp).2]
    simp

/-- `FilterBestMatch` is the identity on pairwise non-overlapping hits -/
theorem filterBest_separated (l : List Hit) (hr : ∀ x ∈ l, Real x) (hp : List.Pairwise NoOverlap l) :
    filterBest l = l := by
  cases l with
  | nil => simp [filterBest]
  | cons m l' =>
    have h0 : filterStep ([], (0, 0, 10000)) m = ([], m) := by
      unfold filterStep; simp
    have key := fold_separated l' m [] (hr m (by simp)) (fun x hx => hr x (by simp [hx])) hp
    unfold filterBest
    rw [List.foldl_cons, h0]
    simp only [List.reverse_nil, List.nil_append] at key
    have hmem : (l'.foldl filterStep ([], m)).2 ∈ m :: l' := by
      have : (l'.foldl filterStep ([], m)).2 ∈
          ((l'.foldl filterStep ([], m)).2 :: (l'.foldl filterStep ([], m)).1).reverse := by simp
      rw [key] at this
      exact this
    have hlast : (l'.foldl filterStep ([], m)).2.2.2 < 10000 := hr _ hmem
    show (if (l'.foldl filterStep ([], m)).2.2.2 < 10000 then
        (l'.foldl filterStep ([], m)).2 :: (l'.foldl filterStep ([], m)).1
      else (l'.foldl filterStep ([], m)).1).reverse = m :: l'
    rw [if_pos hlast, key]

/-- GATE = FILTER on separated raw hits: if the raw hits of a pattern on the read are pairwise non-overlapping,
then `FilterBestMatch` over the raw hits that satisfy any position test (`start ≥ begin`: what a search started
at `begin` finds, for a mismatch-only pattern) is the whole-read result restricted by the same test -/
theorem gate_is_filter_of_separated (raw : List Hit) (q : Hit → Bool) (hr : ∀ x ∈ raw, Real x)
    (hp : List.Pairwise NoOverlap raw) :
    filterBest (raw.filter q) = (filterBest raw).filter q := by
  rw [filterBest_separated raw hr hp,
    filterBest_separated (raw.filter q) (fun x hx => hr x (List.mem_filter.1 hx).1) (hp.sublist List.filter_sublist)]

/-- … and not otherwise: a hit further left that overlaps the second hit but not the third changes the chains
(the alarm of the sweep: the search from 8 returned `[19 35 3]`, the whole read has `[27 43 3]` there) -/
theorem gate_is_not_filter_with_overlaps :
    let raw : List Hit := [(5, 21, 2), (19, 35, 3), (27, 43, 3)]
    let q : Hit → Bool := fun x => decide (8 ≤ x.1)
    filterBest (raw.filter q) = [(19, 35, 3)] ∧ (filterBest raw).filter q = [(27, 43, 3)] := by
  decide

/-- test of the hypotheses on a concrete value -/
example : filterBest [(5, 21, 2), (30, 46, 3), (60, 76, 0)] = [(5, 21, 2), (30, 46, 3), (60, 76, 0)] :=
  filterBest_separated _ (by intro x hx; simp at hx; rcases hx with rfl | rfl | rfl <;> (unfold Real; decide))
    (by simp [NoOverlap])

end ObiVerif.DemuxGate
