import ObiVerif.Model.LcsBuf
import ObiVerif.Lemmas.LcsMatrix
/-!
# C09: the verbatim anti-diagonal kernel refines the banded matrix

`fastLCSEGFScoreByte` (Model/Lcs.lean: two anti-diagonal rows in one buffer, the `xs`/`xf` index arithmetic, packed
cells, sentinels, `_setout`; every Go bounds check explicit) with endgapfree = false returns, for ALL inputs and for
EVERY initial content of the scratch buffer, what the structural layer `bandLCS` returns — no panic, no dependence
on stale cells. Plan: `evenCell_ok` / `oddCell_ok` (one loop body = one `bandCell` of the three cells it reads),
`EvenOK` / `OddOK` (the buffer row holds the in-matrix in-band cells of anti-diagonals `2y` / `2y+1`),
`diagStep_ok` (one outer iteration preserves it: every cell READ was WRITTEN in this call), `outer_ok`, `runFrom_ok`.
-/
namespace ObiVerif.Lcs

/-! ## the transcription split at the buffer -/


theorem exc_map_eq {ε α β} (f : α → β) (x : Except ε α) : Except.map f x = f <$> x := rfl

theorem fastLCSEGFScoreByte_eq_runFrom (a b : Seq) (e : Int) (egf : Bool) (fill : Option UInt64) :
    fastLCSEGFScoreByte a b e egf fill =
      match setup a b e egf with
      | none => .ok (-1, -1, -1)
      | some su => (runFrom su (fillBuf su.g.width fill)).map (·.1) := by
  unfold fastLCSEGFScoreByte setup
  simp only []
  generalize (if a.length < b.length then (b, a) else (a, b)) = p
  obtain ⟨A, B⟩ := p
  simp only []
  generalize (if egf = true then _ else _ : Int) = me
  split
  · rfl
  · simp only [runFrom, exc_map_eq, map_bind, fillBuf]
    cases fill <;> simp only [apply_ite, map_pure] <;> rfl

/-! ## helpers -/


theorem getD_set_eq (a : Array UInt64) (i : Nat) (v : UInt64) (h : i < a.size) :
    (a.setIfInBounds i v).getD i 0 = v := by
  simp [Array.getD, h]

theorem getD_set_ne (a : Array UInt64) (i j : Nat) (v : UInt64) (h : i ≠ j) :
    (a.setIfInBounds i v).getD j 0 = a.getD j 0 := by
  simp only [Array.getD, Array.size_setIfInBounds]
  split
  · exact Array.getElem_setIfInBounds_ne (by assumption) h
  · rfl

theorem bandCell_row0_irrel (lo hi : Int) (j : Nat) (m m' : Bool) (d u l d' u' l' : UInt64) :
    bandCell lo hi 0 j m d u l = bandCell lo hi 0 j m' d' u' l' := by simp [bandCell]

theorem bandCell_col0_irrel (lo hi : Int) (i : Nat) (m m' : Bool) (d u l d' u' l' : UInt64) :
    bandCell lo hi i 0 m d u l = bandCell lo hi i 0 m' d' u' l' := by
  by_cases h : i = 0 <;> simp [bandCell, h]

theorem bandCell_up_irrel (lo hi : Int) (i j : Nat) (m : Bool) (d u l u' : UInt64) (h : ¬ ((j : Int) - (i : Int) < hi)) :
    bandCell lo hi i j m d u l = bandCell lo hi i j m d u' l := by simp [bandCell, h]

theorem bandCell_left_irrel (lo hi : Int) (i j : Nat) (m : Bool) (d u l l' : UInt64) (h : ¬ ((j : Int) - (i : Int) > lo)) :
    bandCell lo hi i j m d u l = bandCell lo hi i j m d u l' := by simp [bandCell, h]

theorem loopM_inv {σ : Type} (P : Int → σ → Prop) (f : Int → σ → Except Err σ) :
    ∀ (n : Nat) (lo : Int) (s : σ), P lo s →
      (∀ k s, lo ≤ k → k < lo + n → P k s → ∃ s', f k s = .ok s' ∧ P (k + 1) s') →
      ∃ s', loopM n lo f s = .ok s' ∧ P (lo + n) s' := by
  intro n
  induction n with
  | zero => intro lo s h _; exact ⟨s, rfl, by simpa using h⟩
  | succ n ih =>
    intro lo s h step
    obtain ⟨s1, h1, h2⟩ := step lo s (by omega) (by omega) h
    obtain ⟨s2, h3, h4⟩ := ih (lo + 1) s1 h2 (fun k s hk1 hk2 hp => step k s (by omega) (by omega) hp)
    refine ⟨s2, ?_, ?_⟩
    · simp only [loopM, h1, h3]
    · have : lo + ((n + 1 : Nat) : Int) = lo + 1 + (n : Int) := by omega
      rw [this]; exact h4


/-! ## one loop body = one `bandCell` -/


structure GeoOK (g : Geo) (A B : Seq) : Prop where
  hA : g.A = A.toArray
  hB : g.B = B.toArray
  hlA : g.lA = A.length
  hlB : g.lB = B.length
  hegf : g.egf = false
  hle : B.length ≤ A.length
  hextra : 1 ≤ g.extra
  heven : g.even = 1 + (g.lA - g.lB) + 2 * g.extra
  hwidth : (g.width : Int) = 2 * g.even - 1

def gLo (g : Geo) : Int := -(2 * g.extra)
def gHi (g : Geo) : Int := 2 * ((g.lA - g.lB) + g.extra)

theorem evenCell_ok {g : Geo} {A B : Seq} (hg : GeoOK g A B) (poff coff : Nat) (y x : Int) (st : St) (i j : Nat)
    (hx0 : 0 ≤ x) (hx1 : x ≤ g.even - 1)
    (hi : y - x + g.extra = (i : Int)) (hi1 : i ≤ B.length)
    (hj : y + x - g.extra = (j : Int)) (hj1 : j ≤ A.length) :
    evenCell g poff coff y x st = .ok ⟨st.buf.setIfInBounds (coff + x.toNat)
      (bandCell (gLo g) (gHi g) i j
        (samenuc (A.getD (j - 1) 0) (B.getD (i - 1) 0))
        (st.buf.getD (poff + x.toNat) 0) (st.buf.getD (poff + (x + g.even).toNat) 0)
        (st.buf.getD (poff + (x + g.even - 1).toNat) 0)), st.pend, st.endp⟩ := by
  obtain ⟨hA, hB, hlA, hlB, hegf, hle, hextra, heven, hwidth⟩ := hg
  have hb : ((j : Int) - (i : Int) = gLo g ∨ (j : Int) - (i : Int) = gHi g) ↔ (x = 0 ∨ x = g.even - 1) := by
    unfold gLo gHi; omega
  have hw : 0 ≤ x ∧ x < (g.width : Int) := by omega
  unfold evenCell
  simp only [hi, hj]
  by_cases h0 : i = 0
  · subst h0
    simp at hb
    simp [hegf, choose, wr, hw, bandCell, hb]
  · by_cases hj0 : j = 0
    · subst hj0
      simp at hb
      simp [h0, hegf, choose, wr, hw, bandCell, hb]
    · have hja : 1 ≤ (j : Int) ∧ (j : Int) - 1 < (A.length : Int) := by omega
      have hia : 1 ≤ (i : Int) ∧ (i : Int) - 1 < (B.length : Int) := by omega
      have hup : (j : Int) - (i : Int) < gHi g ↔ x < g.even - 1 := by unfold gHi; omega
      have hlf : gLo g < (j : Int) - (i : Int) ↔ 0 < x := by unfold gLo; omega
      by_cases c1 : x < g.even - 1 <;> by_cases c2 : 0 < x
      · have r1 : 0 ≤ x + g.even ∧ x + g.even < (g.width : Int) := by omega
        have r2 : 1 ≤ x + g.even ∧ x + g.even - 1 < (g.width : Int) := by omega
        simp [h0, hj0, hegf, choose, wr, rd, byteAt, hw, bandCell, hA, hB, hja, hia, hup, hlf, hb, c1, c2, r1, r2]
        try rfl
      · have r1 : 0 ≤ x + g.even ∧ x + g.even < (g.width : Int) := by omega
        simp [h0, hj0, hegf, choose, wr, rd, byteAt, hw, bandCell, hA, hB, hja, hia, hup, hlf, hb, c1, c2, r1]
        try rfl
      · have r2 : 1 ≤ x + g.even ∧ x + g.even - 1 < (g.width : Int) := by omega
        simp [h0, hj0, hegf, choose, wr, rd, byteAt, hw, bandCell, hA, hB, hja, hia, hup, hlf, hb, c1, c2, r2]
        try rfl
      · simp [h0, hj0, hegf, choose, wr, rd, byteAt, hw, bandCell, hA, hB, hja, hia, hup, hlf, hb, c1, c2]
        try rfl

theorem oddCell_ok {g : Geo} {A B : Seq} (hg : GeoOK g A B) (poff coff : Nat) (y x : Int) (st : St) (i j : Nat)
    (hx0 : g.even ≤ x) (hx1 : x ≤ (g.width : Int) - 1)
    (hi : y - x + g.extra + g.even = (i : Int)) (hi1 : i ≤ B.length)
    (hj : y + x - g.extra - g.even + 1 = (j : Int)) (hj1 : j ≤ A.length) :
    oddCell g poff coff y x st = .ok ⟨st.buf.setIfInBounds (coff + x.toNat)
      (bandCell (gLo g) (gHi g) i j
        (samenuc (A.getD (j - 1) 0) (B.getD (i - 1) 0))
        (st.buf.getD (poff + x.toNat) 0) (st.buf.getD (coff + (x - g.even + 1).toNat) 0)
        (st.buf.getD (coff + (x - g.even).toNat) 0)), st.pend, st.endp⟩ := by
  obtain ⟨hA, hB, hlA, hlB, hegf, hle, hextra, heven, hwidth⟩ := hg
  have hb : ¬ ((j : Int) - (i : Int) = gLo g ∨ (j : Int) - (i : Int) = gHi g) := by
    unfold gLo gHi; omega
  have hw : 0 ≤ x ∧ x < (g.width : Int) := by omega
  unfold oddCell
  simp only [hi, hj]
  by_cases h0 : i = 0
  · subst h0
    simp at hb
    simp [hegf, choose, wr, hw, bandCell, hb]
  · by_cases hj0 : j = 0
    · subst hj0
      simp at hb
      simp [h0, hegf, choose, wr, hw, bandCell, hb]
    · have hja : 1 ≤ (j : Int) ∧ (j : Int) - 1 < (A.length : Int) := by omega
      have hia : 1 ≤ (i : Int) ∧ (i : Int) - 1 < (B.length : Int) := by omega
      have hup : (j : Int) - (i : Int) < gHi g := by unfold gHi; omega
      have hlf : gLo g < (j : Int) - (i : Int) := by unfold gLo; omega
      have r1 : 0 ≤ x - g.even ∧ x - g.even < (g.width : Int) := by omega
      have r2 : 0 ≤ x - g.even + 1 ∧ x - g.even + 1 < (g.width : Int) := by omega
      simp [h0, hj0, hegf, choose, wr, rd, byteAt, hw, bandCell, hA, hB, hja, hia, hup, hlf, hb, r1, r2, hx0]
      try rfl


/-! ## the invariant of the two buffer rows -/


/-- the buffer row at `off` holds the in-matrix cells of the even anti-diagonal `i + j = 2y` -/
def EvenOK (g : Geo) (A B : Seq) (buf : Array UInt64) (off : Nat) (y : Int) : Prop :=
  ∀ (x : Int) (i j : Nat), 0 ≤ x → x ≤ g.even - 1 → y - x + g.extra = (i : Int) → i ≤ B.length →
    y + x - g.extra = (j : Int) → j ≤ A.length →
    buf.getD (off + x.toNat) 0 = cellM (gLo g) (gHi g) A B i j

/-- … and of the odd anti-diagonal `i + j = 2y + 1` -/
def OddOK (g : Geo) (A B : Seq) (buf : Array UInt64) (off : Nat) (y : Int) : Prop :=
  ∀ (x : Int) (i j : Nat), g.even ≤ x → x ≤ (g.width : Int) - 1 → y - x + g.extra + g.even = (i : Int) → i ≤ B.length →
    y + x - g.extra - g.even + 1 = (j : Int) → j ≤ A.length →
    buf.getD (off + x.toNat) 0 = cellM (gLo g) (gHi g) A B i j

/-- cells `x < k` of the even part of the current row are done -/
def PartE (g : Geo) (A B : Seq) (buf : Array UInt64) (off : Nat) (y k : Int) : Prop :=
  ∀ (x : Int) (i j : Nat), 0 ≤ x → x < k → x ≤ g.even - 1 → y - x + g.extra = (i : Int) → i ≤ B.length →
    y + x - g.extra = (j : Int) → j ≤ A.length →
    buf.getD (off + x.toNat) 0 = cellM (gLo g) (gHi g) A B i j

def PartO (g : Geo) (A B : Seq) (buf : Array UInt64) (off : Nat) (y k : Int) : Prop :=
  ∀ (x : Int) (i j : Nat), g.even ≤ x → x < k → x ≤ (g.width : Int) - 1 → y - x + g.extra + g.even = (i : Int) → i ≤ B.length →
    y + x - g.extra - g.even + 1 = (j : Int) → j ≤ A.length →
    buf.getD (off + x.toNat) 0 = cellM (gLo g) (gHi g) A B i j

/-- the value `evenCell` writes is the matrix cell, given the previous row -/
theorem evenVal_eq {g : Geo} {A B : Seq} (hg : GeoOK g A B) (buf : Array UInt64) (poff : Nat) (y x : Int) (i j : Nat)
    (hE : EvenOK g A B buf poff (y - 1)) (hO : OddOK g A B buf poff (y - 1))
    (hx0 : 0 ≤ x) (hx1 : x ≤ g.even - 1)
    (hi : y - x + g.extra = (i : Int)) (hi1 : i ≤ B.length)
    (hj : y + x - g.extra = (j : Int)) (hj1 : j ≤ A.length) :
    bandCell (gLo g) (gHi g) i j (samenuc (A.getD (j - 1) 0) (B.getD (i - 1) 0))
        (buf.getD (poff + x.toNat) 0) (buf.getD (poff + (x + g.even).toNat) 0)
        (buf.getD (poff + (x + g.even - 1).toNat) 0) = cellM (gLo g) (gHi g) A B i j := by
  obtain ⟨hA, hB, hlA, hlB, hegf, hle, hextra, heven, hwidth⟩ := hg
  cases i with
  | zero => rw [cellM_row0 _ _ _ _ _ hj1]; exact bandCell_row0_irrel ..
  | succ i' =>
    cases j with
    | zero => rw [cellM_col0]; exact bandCell_col0_irrel ..
    | succ j' =>
      rw [cellM_succ _ _ _ _ _ _ (by omega)]
      have hd := hE x i' j' hx0 hx1 (by omega) (by omega) (by omega) (by omega)
      rw [hd]
      simp only [Nat.add_sub_cancel]
      by_cases c1 : x < g.even - 1
      · have hu := hO (x + g.even) i' (j' + 1) (by omega) (by omega) (by omega) (by omega) (by omega) (by omega)
        rw [hu]
        by_cases c2 : 0 < x
        · have hl := hO (x + g.even - 1) (i' + 1) j' (by omega) (by omega) (by omega) (by omega) (by omega) (by omega)
          rw [hl]
        · exact bandCell_left_irrel _ _ _ _ _ _ _ _ _ (by unfold gLo; omega)
      · rw [bandCell_up_irrel _ _ _ _ _ _ _ _ (cellM (gLo g) (gHi g) A B i' (j' + 1)) (by unfold gHi; omega)]
        by_cases c2 : 0 < x
        · have hl := hO (x + g.even - 1) (i' + 1) j' (by omega) (by omega) (by omega) (by omega) (by omega) (by omega)
          rw [hl]
        · exact bandCell_left_irrel _ _ _ _ _ _ _ _ _ (by unfold gLo; omega)

theorem oddVal_eq {g : Geo} {A B : Seq} (hg : GeoOK g A B) (buf : Array UInt64) (poff coff : Nat) (y x : Int) (i j : Nat)
    (hO : OddOK g A B buf poff (y - 1)) (hE : EvenOK g A B buf coff y)
    (hx0 : g.even ≤ x) (hx1 : x ≤ (g.width : Int) - 1)
    (hi : y - x + g.extra + g.even = (i : Int)) (hi1 : i ≤ B.length)
    (hj : y + x - g.extra - g.even + 1 = (j : Int)) (hj1 : j ≤ A.length) :
    bandCell (gLo g) (gHi g) i j (samenuc (A.getD (j - 1) 0) (B.getD (i - 1) 0))
        (buf.getD (poff + x.toNat) 0) (buf.getD (coff + (x - g.even + 1).toNat) 0)
        (buf.getD (coff + (x - g.even).toNat) 0) = cellM (gLo g) (gHi g) A B i j := by
  obtain ⟨hA, hB, hlA, hlB, hegf, hle, hextra, heven, hwidth⟩ := hg
  cases i with
  | zero => rw [cellM_row0 _ _ _ _ _ hj1]; exact bandCell_row0_irrel ..
  | succ i' =>
    cases j with
    | zero => rw [cellM_col0]; exact bandCell_col0_irrel ..
    | succ j' =>
      rw [cellM_succ _ _ _ _ _ _ (by omega)]
      have hd := hO x i' j' hx0 hx1 (by omega) (by omega) (by omega) (by omega)
      have hu := hE (x - g.even + 1) i' (j' + 1) (by omega) (by omega) (by omega) (by omega) (by omega) (by omega)
      have hl := hE (x - g.even) (i' + 1) j' (by omega) (by omega) (by omega) (by omega) (by omega) (by omega)
      rw [hd, hu, hl]
      simp only [Nat.add_sub_cancel]

/-! ## frame: a write outside a row leaves its invariant alone -/

theorem EvenOK_frame {g : Geo} {A B : Seq} {buf : Array UInt64} {off : Nat} {y : Int} (w : Nat) (v : UInt64)
    (hw : w < off ∨ off + g.even.toNat ≤ w) (h : EvenOK g A B buf off y) :
    EvenOK g A B (buf.setIfInBounds w v) off y := by
  intro x i j h1 h2 h3 h4 h5 h6
  rw [getD_set_ne _ _ _ _ (by omega)]
  exact h x i j h1 h2 h3 h4 h5 h6

theorem OddOK_frame {g : Geo} {A B : Seq} (hg : GeoOK g A B) {buf : Array UInt64} {off : Nat} {y : Int} (w : Nat) (v : UInt64)
    (hw : w < off + g.even.toNat ∨ off + g.width ≤ w) (h : OddOK g A B buf off y) :
    OddOK g A B (buf.setIfInBounds w v) off y := by
  have := hg.hwidth
  intro x i j h1 h2 h3 h4 h5 h6
  rw [getD_set_ne _ _ _ _ (by omega)]
  exact h x i j h1 h2 h3 h4 h5 h6

/-! ## the two inner loops -/

theorem evenLoop_ok {g : Geo} {A B : Seq} (hg : GeoOK g A B) (poff coff : Nat)
    (hdisj : poff + g.width ≤ coff ∨ coff + g.width ≤ poff) (y : Int) (st : St)
    (hsz : coff + g.width ≤ st.buf.size)
    (hE : EvenOK g A B st.buf poff (y - 1)) (hO : OddOK g A B st.buf poff (y - 1)) :
    ∃ st', loopM ((imin3 (y + g.extra) (g.lA + g.extra - y) (g.even - 1) + 1) -
                  (imax3 (y - g.lB + g.extra) (g.extra - y) 0)).toNat
             (imax3 (y - g.lB + g.extra) (g.extra - y) 0) (evenCell g poff coff y) st = .ok st' ∧
      st'.pend = st.pend ∧ st'.endp = st.endp ∧ st'.buf.size = st.buf.size ∧
      EvenOK g A B st'.buf poff (y - 1) ∧ OddOK g A B st'.buf poff (y - 1) ∧ EvenOK g A B st'.buf coff y := by
  have hg' := hg
  obtain ⟨hA, hB, hlA, hlB, hegf, hle, hextra, heven, hwidth⟩ := hg
  generalize hxs : imax3 (y - g.lB + g.extra) (g.extra - y) 0 = xs
  generalize hxf : imin3 (y + g.extra) (g.lA + g.extra - y) (g.even - 1) + 1 = xf
  unfold imax3 at hxs
  unfold imin3 at hxf
  have := loopM_inv (fun k (s : St) => s.pend = st.pend ∧ s.endp = st.endp ∧ s.buf.size = st.buf.size ∧
      EvenOK g A B s.buf poff (y - 1) ∧ OddOK g A B s.buf poff (y - 1) ∧ PartE g A B s.buf coff y k)
    (evenCell g poff coff y) (xf - xs).toNat xs st
    ⟨rfl, rfl, rfl, hE, hO, by intro x i j h1 h2 h3 h4 h5 h6 h7; omega⟩
    (by
      intro k s hk1 hk2 ⟨p1, p2, p3, p4, p5, p6⟩
      have hi : y - k + g.extra = ((y - k + g.extra).toNat : Int) := by omega
      have hj : y + k - g.extra = ((y + k - g.extra).toNat : Int) := by omega
      have hcell := evenCell_ok hg' poff coff y k s _ _ (by omega) (by omega) hi (by omega) hj (by omega)
      rw [evenVal_eq hg' s.buf poff y k _ _ p4 p5 (by omega) (by omega) hi (by omega) hj (by omega)] at hcell
      refine ⟨_, hcell, p1, p2, by simp [p3], ?_, ?_, ?_⟩
      · exact EvenOK_frame _ _ (by omega) p4
      · exact OddOK_frame hg' _ _ (by omega) p5
      · intro x i j h1 h2 h3 h4 h5 h6 h7
        by_cases hxk : x = k
        · subst hxk
          have e1 : i = (y - x + g.extra).toNat := by omega
          have e2 : j = (y + x - g.extra).toNat := by omega
          subst e1 e2
          exact getD_set_eq _ _ _ (by omega)
        · simp only []
          rw [getD_set_ne _ _ _ _ (by omega)]
          exact p6 x i j h1 (by omega) h3 h4 h5 h6 h7)
  obtain ⟨st', h1, p1, p2, p3, p4, p5, p6⟩ := this
  refine ⟨st', h1, p1, p2, p3, p4, p5, ?_⟩
  intro x i j h1 h2 h3 h4 h5 h6
  exact p6 x i j h1 (by omega) h2 h3 h4 h5 h6

theorem oddLoop_ok {g : Geo} {A B : Seq} (hg : GeoOK g A B) (poff coff : Nat)
    (hdisj : poff + g.width ≤ coff ∨ coff + g.width ≤ poff) (y : Int) (st : St)
    (hsz : coff + g.width ≤ st.buf.size)
    (hO : OddOK g A B st.buf poff (y - 1)) (hE : EvenOK g A B st.buf coff y) :
    ∃ st', loopM ((imin3 (y + g.extra + g.even) (g.lA + g.extra - y + g.even - 1) ((g.width : Int) - 1) + 1) -
                  (imax3 (y - g.lB + g.extra + g.even) (g.extra - y + g.even - 1) g.even)).toNat
             (imax3 (y - g.lB + g.extra + g.even) (g.extra - y + g.even - 1) g.even) (oddCell g poff coff y) st = .ok st' ∧
      st'.pend = st.pend ∧ st'.endp = st.endp ∧ st'.buf.size = st.buf.size ∧
      EvenOK g A B st'.buf coff y ∧ OddOK g A B st'.buf coff y := by
  have hg' := hg
  obtain ⟨hA, hB, hlA, hlB, hegf, hle, hextra, heven, hwidth⟩ := hg
  generalize hxs : imax3 (y - g.lB + g.extra + g.even) (g.extra - y + g.even - 1) g.even = xs
  generalize hxf : imin3 (y + g.extra + g.even) (g.lA + g.extra - y + g.even - 1) ((g.width : Int) - 1) + 1 = xf
  unfold imax3 at hxs
  unfold imin3 at hxf
  have := loopM_inv (fun k (s : St) => s.pend = st.pend ∧ s.endp = st.endp ∧ s.buf.size = st.buf.size ∧
      OddOK g A B s.buf poff (y - 1) ∧ EvenOK g A B s.buf coff y ∧ PartO g A B s.buf coff y k)
    (oddCell g poff coff y) (xf - xs).toNat xs st
    ⟨rfl, rfl, rfl, hO, hE, by intro x i j h1 h2 h3 h4 h5 h6 h7; omega⟩
    (by
      intro k s hk1 hk2 ⟨p1, p2, p3, p4, p5, p6⟩
      have hi : y - k + g.extra + g.even = ((y - k + g.extra + g.even).toNat : Int) := by omega
      have hj : y + k - g.extra - g.even + 1 = ((y + k - g.extra - g.even + 1).toNat : Int) := by omega
      have hcell := oddCell_ok hg' poff coff y k s _ _ (by omega) (by omega) hi (by omega) hj (by omega)
      rw [oddVal_eq hg' s.buf poff coff y k _ _ p4 p5 (by omega) (by omega) hi (by omega) hj (by omega)] at hcell
      refine ⟨_, hcell, p1, p2, by simp [p3], ?_, ?_, ?_⟩
      · exact OddOK_frame hg' _ _ (by omega) p4
      · exact EvenOK_frame _ _ (by omega) p5
      · intro x i j h1 h2 h3 h4 h5 h6 h7
        by_cases hxk : x = k
        · subst hxk
          have e1 : i = (y - x + g.extra + g.even).toNat := by omega
          have e2 : j = (y + x - g.extra - g.even + 1).toNat := by omega
          subst e1 e2
          exact getD_set_eq _ _ _ (by omega)
        · simp only []
          rw [getD_set_ne _ _ _ _ (by omega)]
          exact p6 x i j h1 (by omega) h3 h4 h5 h6 h7)
  obtain ⟨st', h1, p1, p2, p3, p4, p5, p6⟩ := this
  refine ⟨st', h1, p1, p2, p3, p5, ?_⟩
  intro x i j h1 h2 h3 h4 h5 h6
  exact p6 x i j h1 (by omega) h2 h3 h4 h5 h6

/-- one iteration of the outer loop: every cell read was written (in this call), nothing panics, the current row
ends up holding anti-diagonals `2y` and `2y+1` of the banded matrix -/
theorem diagStep_ok {g : Geo} {A B : Seq} (hg : GeoOK g A B) (poff coff : Nat)
    (hdisj : poff + g.width ≤ coff ∨ coff + g.width ≤ poff) (y : Int) (st : St)
    (hsz : coff + g.width ≤ st.buf.size)
    (hE : EvenOK g A B st.buf poff (y - 1)) (hO : OddOK g A B st.buf poff (y - 1)) :
    ∃ st', diagStep g poff coff y st = .ok st' ∧
      st'.pend = st.pend ∧ st'.endp = st.endp ∧ st'.buf.size = st.buf.size ∧
      EvenOK g A B st'.buf coff y ∧ OddOK g A B st'.buf coff y := by
  obtain ⟨s1, h1, p1, p2, p3, p4, p5, p6⟩ := evenLoop_ok hg poff coff hdisj y st hsz hE hO
  obtain ⟨s2, h2, q1, q2, q3, q4, q5⟩ := oddLoop_ok hg poff coff hdisj y s1 (by omega) p5 p6
  refine ⟨s2, ?_, by omega, by omega, by omega, q4, q5⟩
  unfold diagStep
  simp only [h1, bind, Except.bind]
  exact h2


end ObiVerif.Lcs
