import ObiVerif.Model.WriterPeek
import ObiVerif.Lemmas.Reseq
/-!
# Lemmas on the peek of `WriteSequence` and the pool of formatting workers (C04, glue)
-/
set_option Elab.async false
namespace ObiVerif.WriterPeek
open ObiVerif.WriterFmt ObiVerif.Reseq

theorem lookupK_perm {α : Type} {k : Nat} {l : List (Nat × α)} {x : α} (h : lookupK k l = some x) :
    l.Perm ((k, x) :: eraseK k l) := by
  induction l with
  | nil => simp [lookupK] at h
  | cons p t ih =>
    obtain ⟨j, y⟩ := p
    simp only [lookupK, eraseK] at *
    by_cases hj : j = k
    · simp only [hj, if_true] at h ⊢
      cases h
      exact List.Perm.refl _
    · simp only [hj, if_false] at h ⊢
      exact ((ih h).cons (j, y)).trans (List.Perm.swap _ _ _)

/-- everything the pool has in hand, wherever it is -/
def Pool.content (p : Pool) : List Batch := p.sent ++ (p.hold.map Prod.snd ++ (p.pb.toList ++ p.chan))

theorem step_content (p : Pool) (w : Nat) : (p.step w).content.Perm p.content := by
  unfold Pool.step
  cases hh : lookupK w p.hold with
  | some b =>
    simp only [Pool.content, List.append_assoc]
    apply List.Perm.append_left
    have hp := (lookupK_perm hh).map Prod.snd
    simp only [List.map_cons] at hp
    exact (hp.symm.append_right _)
  | none =>
    simp only
    cases hpb : (if w = 0 then p.pb else none) with
    | some b =>
      have hb : p.pb = some b := by
        by_cases hw : w = 0
        · simpa [hw] using hpb
        · simp [hw] at hpb
      simp only [Pool.content, hb, List.map_cons, Option.toList]
      apply List.Perm.append_left
      simpa using (List.perm_middle (a := b) (l₁ := p.hold.map Prod.snd) (l₂ := p.chan)).symm
    | none =>
      simp only
      cases hc : p.chan with
      | nil => simp [Pool.content, hc]
      | cons b rest =>
        simp only [Pool.content, List.map_cons, hc]
        apply List.Perm.append_left
        have := (List.perm_middle (a := b) (l₁ := p.hold.map Prod.snd ++ p.pb.toList) (l₂ := rest)).symm
        simpa [List.append_assoc] using this

theorem run_content (p : Pool) (sched : List Nat) : (p.run sched).content.Perm p.content := by
  induction sched generalizing p with
  | nil => exact List.Perm.refl _
  | cons w ws ih =>
    simp only [Pool.run, List.foldl_cons]
    exact (ih (p.step w)).trans (step_content p w)

theorem done_content (p : Pool) (h : p.done = true) : p.content = p.sent := by
  simp only [Pool.done, Bool.and_eq_true, List.isEmpty_iff, Option.isNone_iff_eq_none] at h
  obtain ⟨⟨hc, hp⟩, hh⟩ := h
  simp [Pool.content, hc, hp, hh]

/-- **the workers lose and duplicate nothing**: when all of them have ended, what the writer goroutine has received is
a rearrangement of the pushed-back batch and of what the channel still held -/
theorem pool_sent_perm (p : Pool) (sched : List Nat) (h : (p.run sched).done = true) :
    (p.run sched).sent.Perm p.content := by
  rw [← done_content _ h]; exact run_content p sched

theorem ofIt_content (it : It) :
    (Pool.ofIt it).content = (if it.pushBack then it.current else none).toList ++ (if it.finished then [] else it.chan) := by
  simp [Pool.ofIt, Pool.content]

/-! ## the peek -/

theorem writeSequence_nil : writeSequence (It.ofArrival []) = .nothing := rfl

theorem writeSequence_cons (b : Batch) (rest : List Batch) :
    writeSequence (It.ofArrival (b :: rest)) =
      .start (pick (some b)) { chan := rest, current := some b, pushBack := true, finished := false } := rfl

/-- after the peek the iterator still delivers the whole stream -/
theorem peek_content (b : Batch) (rest : List Batch) :
    (Pool.ofIt { chan := rest, current := some b, pushBack := true, finished := false }).content = b :: rest := by
  simp [ofIt_content]

theorem plain_content (arr : List Batch) : (Pool.ofIt (It.ofArrival arr)).content = arr := by
  simp [ofIt_content, It.ofArrival]

/-- an arrival history that rearranges the batches `k ↦ (k, recs k)`, `k ∈ src`, is `ks.map …` for a rearrangement
`ks` of `src` -/
theorem perm_map_orders (recs : Nat → List Rec) (src : List Nat) (arr : List Batch)
    (h : arr.Perm (src.map fun k => (k, recs k))) :
    arr = (arr.map Prod.fst).map (fun k => (k, recs k)) ∧ (arr.map Prod.fst).Perm src := by
  constructor
  · rw [List.map_map]
    conv => lhs; rw [← List.map_id arr]
    apply List.map_congr_left
    intro a ha
    obtain ⟨k, _, hk⟩ := List.mem_map.mp (h.mem_iff.mp ha)
    subst hk; rfl
  · have := h.map Prod.fst
    simpa [List.map_map, Function.comp_def] using this

/-! ## the re-sequencing machine never releases anything when batch `next` does not come -/

theorem step_stuck {σ α : Type} (fT fD : σ → α → σ) (s : WS σ α) (a : Nat × α) (ha : a.1 ≠ s.next) :
    (step fT fD s a).next = s.next ∧ (step fT fD s a).acc = s.acc := by
  simp [step, ha]

theorem run_stuck {σ α : Type} (fT fD : σ → α → σ) (arr : List (Nat × α)) (s : WS σ α) (h : ∀ a ∈ arr, a.1 ≠ s.next) :
    (arr.foldl (step fT fD) s).acc = s.acc ∧ (arr.foldl (step fT fD) s).next = s.next := by
  induction arr generalizing s with
  | nil => simp
  | cons a t ih =>
    simp only [List.foldl_cons]
    obtain ⟨hn, hacc⟩ := step_stuck fT fD s a (h a (by simp))
    have := ih (step fT fD s a) (by intro b hb; rw [hn]; exact h b (List.mem_cons_of_mem _ hb))
    rw [this.1, this.2, hn, hacc]; exact ⟨rfl, rfl⟩

end ObiVerif.WriterPeek
