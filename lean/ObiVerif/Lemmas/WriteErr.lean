import ObiVerif.Model.WriteErr
import ObiVerif.Model.Writer
/-!
# Lemmas on the `bufio.Writer` model over a failing sink (C18)

`BWInv limit cf b e` relates a buffered writer `b` to the list `e` of all bytes handed to `Write` so far:
the sink holds a prefix of `e` of length at most `limit`; while no error has been seen, sink ++ buffer
is exactly `e`; once an error has been seen, `e` is longer than `limit` and the sink is full.
`Flush`, the loop of `Write`, and `Write` preserve it, for every buffer size (0 included) and every fuel.
`closeW` then yields the complete characterisation: the sink holds `e.take limit`, and the outcome is
`fatal` iff `limit < e.length` or `Close` fails.
-/
namespace ObiVerif.WriteErr

/-! ## the sink -/

theorem Sink.write_limit (s : Sink) (p : Bytes) : (s.write p).1.limit = s.limit := rfl
theorem Sink.write_closeFails (s : Sink) (p : Bytes) : (s.write p).1.closeFails = s.closeFails := rfl
theorem Sink.write_got (s : Sink) (p : Bytes) : (s.write p).1.got = s.got ++ p.take (s.write p).2.1 := rfl
theorem Sink.write_n (s : Sink) (p : Bytes) : (s.write p).2.1 = min p.length (s.limit - s.got.length) := rfl
theorem Sink.write_e (s : Sink) (p : Bytes) :
    (s.write p).2.2 = decide (min p.length (s.limit - s.got.length) < p.length) := rfl

/-- no error: everything was taken -/
theorem Sink.write_ok_n (s : Sink) (p : Bytes) (h : (s.write p).2.2 = false) :
    (s.write p).2.1 = p.length := by
  rw [Sink.write_e] at h
  rw [Sink.write_n]
  have : ¬ (min p.length (s.limit - s.got.length) < p.length) := by simpa using h
  omega

/-- error: the sink is now full, and it could not hold `got ++ p` -/
theorem Sink.write_err (s : Sink) (p : Bytes) (hc : s.got.length ≤ s.limit) (h : (s.write p).2.2 = true) :
    (s.write p).1.got.length = s.limit ∧ s.limit < s.got.length + p.length := by
  rw [Sink.write_e] at h
  have h' : min p.length (s.limit - s.got.length) < p.length := by simpa using h
  rw [Sink.write_got, Sink.write_n, List.length_append, List.length_take]
  omega

theorem Sink.write_cap (s : Sink) (p : Bytes) (hc : s.got.length ≤ s.limit) :
    (s.write p).1.got.length ≤ s.limit := by
  rw [Sink.write_got, Sink.write_n, List.length_append, List.length_take]
  omega

/-! ## the invariant -/

structure BWInv (limit : Nat) (cf : Bool) (b : BW) (e : Bytes) : Prop where
  lim  : b.sink.limit = limit
  cfe  : b.sink.closeFails = cf
  pre  : b.sink.got <+: e
  cap  : b.sink.got.length ≤ limit
  ok   : b.err = false → b.sink.got ++ b.buf = e
  bad  : b.err = true → limit < e.length
  full : b.err = true → b.sink.got.length = limit

theorem BWInv.init (size limit : Nat) (cf : Bool) :
    BWInv limit cf ⟨size, [], false, ⟨limit, [], cf⟩⟩ [] := by
  constructor <;> simp

/-- `Flush` preserves the invariant and leaves an empty buffer unless it fails -/
theorem flush_inv {limit : Nat} {cf : Bool} {b : BW} {e : Bytes} (h : BWInv limit cf b e) :
    BWInv limit cf b.flush e ∧ (b.flush.err = false → b.flush.buf = []) := by
  unfold BW.flush
  by_cases he : b.err = true
  · simp only [he, if_true]
    exact ⟨h, fun hf => by simp at hf⟩
  · have he' : b.err = false := by simpa using he
    simp only [he']
    by_cases hl : b.buf.length = 0
    · simp only [hl, if_true]
      exact ⟨h, fun _ => List.eq_nil_of_length_eq_zero hl⟩
    · simp only [hl, if_false]
      have hc : b.sink.got.length ≤ b.sink.limit := by rw [h.lim]; exact h.cap
      have hok := h.ok he'
      cases hw : (b.sink.write b.buf).2.2 with
      | true =>
        have := Sink.write_err b.sink b.buf hc hw
        simp only [if_true]
        refine ⟨⟨?_, ?_, ?_, ?_, ?_, ?_, ?_⟩, ?_⟩
        · exact h.lim
        · exact h.cfe
        · show (b.sink.write b.buf).1.got <+: e
          rw [Sink.write_got, ← hok]
          exact (List.prefix_append_right_inj _).mpr (List.take_prefix _ _)
        · show (b.sink.write b.buf).1.got.length ≤ limit
          rw [this.1, h.lim]; exact Nat.le_refl _
        · intro hf; simp at hf
        · intro _
          rw [← hok, List.length_append, ← h.lim]; exact this.2
        · intro _
          show (b.sink.write b.buf).1.got.length = limit
          rw [this.1, h.lim]
        · intro hf; simp at hf
      | false =>
        have hn := Sink.write_ok_n b.sink b.buf hw
        have hg : (b.sink.write b.buf).1.got = e := by
          rw [Sink.write_got, hn, List.take_length, hok]
        simp only [Bool.false_eq_true, if_false]
        refine ⟨⟨?_, ?_, ?_, ?_, ?_, ?_, ?_⟩, ?_⟩
        · exact h.lim
        · exact h.cfe
        · show (b.sink.write b.buf).1.got <+: e
          rw [hg]; exact List.prefix_refl _
        · show (b.sink.write b.buf).1.got.length ≤ limit
          have := Sink.write_cap b.sink b.buf hc
          rw [h.lim] at this; exact this
        · intro _
          show (b.sink.write b.buf).1.got ++ [] = e
          rw [hg, List.append_nil]
        · intro hf; simp at hf
        · intro hf; simp at hf
        · simp

/-- the tail of `Write`: after the loop, the rest of `p` goes to the buffer unless an error is pending -/
def fin : BW × Bytes → BW
  | (b, p) => if b.err then b else { b with buf := b.buf ++ p }

theorem write_eq (b : BW) (p : Bytes) : b.write p = fin (BW.writeLoop (p.length + 2) b p) := rfl

theorem fin_inv {limit : Nat} {cf : Bool} {b : BW} {e : Bytes} (h : BWInv limit cf b e) (p : Bytes) :
    BWInv limit cf (fin (b, p)) (e ++ p) := by
  unfold fin
  cases he : b.err with
  | true =>
    simp only [he, if_true]
    refine ⟨h.lim, h.cfe, ?_, h.cap, ?_, ?_, h.full⟩
    · exact List.IsPrefix.trans h.pre (List.prefix_append _ _)
    · intro hf; simp [he] at hf
    · intro _
      have := h.bad he
      rw [List.length_append]; omega
  | false =>
    simp only [he, Bool.false_eq_true, if_false]
    refine ⟨h.lim, h.cfe, ?_, h.cap, ?_, ?_, ?_⟩
    · exact List.IsPrefix.trans h.pre (List.prefix_append _ _)
    · intro _
      show b.sink.got ++ (b.buf ++ p) = e ++ p
      rw [← List.append_assoc, h.ok he]
    · intro hf; simp at hf
    · intro hf; simp at hf

theorem writeLoop_err (fuel : Nat) (b : BW) (p : Bytes) (he : b.err = true) :
    BW.writeLoop fuel b p = (b, p) := by
  cases fuel with
  | zero => rfl
  | succ f => simp [BW.writeLoop, he]

/-- the loop of `Write` followed by its tail preserves the invariant, whatever the fuel and the size -/
theorem writeLoop_inv {limit : Nat} {cf : Bool} (fuel : Nat) (b : BW) (p e : Bytes)
    (h : BWInv limit cf b e) : BWInv limit cf (fin (BW.writeLoop fuel b p)) (e ++ p) := by
  induction fuel generalizing b p e with
  | zero => exact fin_inv h p
  | succ f ih =>
    rw [BW.writeLoop]
    by_cases hcond : (decide (p.length > b.size - b.buf.length) && !b.err) = true
    · rw [if_pos hcond]
      have he : b.err = false := by
        cases hb : b.err with
        | false => rfl
        | true => simp [hb] at hcond
      have hok := h.ok he
      have hc : b.sink.got.length ≤ b.sink.limit := by rw [h.lim]; exact h.cap
      by_cases hl : b.buf.length = 0
      · rw [if_pos hl]
        have hbuf : b.buf = [] := List.eq_nil_of_length_eq_zero hl
        have hge : b.sink.got = e := by rw [← hok, hbuf, List.append_nil]
        show BWInv limit cf (fin (BW.writeLoop f
          { b with err := (b.sink.write p).2.2, sink := (b.sink.write p).1 }
          (p.drop (b.sink.write p).2.1))) (e ++ p)
        cases hw : (b.sink.write p).2.2 with
        | true =>
          have hx := Sink.write_err b.sink p hc hw
          rw [writeLoop_err _ _ _ rfl]
          unfold fin
          simp only [if_true]
          refine ⟨h.lim, h.cfe, ?_, ?_, ?_, ?_, ?_⟩
          · show (b.sink.write p).1.got <+: e ++ p
            rw [Sink.write_got, hge]
            exact (List.prefix_append_right_inj _).mpr (List.take_prefix _ _)
          · show (b.sink.write p).1.got.length ≤ limit
            rw [hx.1, h.lim]; exact Nat.le_refl _
          · intro hf; simp at hf
          · intro _
            rw [List.length_append, ← hge, ← h.lim]; exact hx.2
          · intro _
            show (b.sink.write p).1.got.length = limit
            rw [hx.1, h.lim]
        | false =>
          have hn := Sink.write_ok_n b.sink p hw
          rw [hn, List.drop_length]
          have hg : (b.sink.write p).1.got = e ++ p := by
            rw [Sink.write_got, hn, List.take_length, hge]
          have hinv : BWInv limit cf { b with err := false, sink := (b.sink.write p).1 } (e ++ p) := by
            refine ⟨h.lim, h.cfe, ?_, ?_, ?_, ?_, ?_⟩
            · show (b.sink.write p).1.got <+: e ++ p
              rw [hg]; exact List.prefix_refl _
            · show (b.sink.write p).1.got.length ≤ limit
              have := Sink.write_cap b.sink p hc
              rw [h.lim] at this; exact this
            · intro _
              show (b.sink.write p).1.got ++ b.buf = e ++ p
              rw [hg, hbuf, List.append_nil]
            · intro hf; simp at hf
            · intro hf; simp at hf
          have := ih _ [] _ hinv
          rwa [List.append_nil] at this
      · rw [if_neg hl]
        have hinv : BWInv limit cf
            { b with buf := b.buf ++ p.take (min p.length (b.size - b.buf.length)) }
            (e ++ p.take (min p.length (b.size - b.buf.length))) := by
          refine ⟨h.lim, h.cfe, ?_, h.cap, ?_, ?_, ?_⟩
          · exact List.IsPrefix.trans h.pre (List.prefix_append _ _)
          · intro _
            show b.sink.got ++ (b.buf ++ _) = e ++ _
            rw [← List.append_assoc, hok]
          · intro hf; exact absurd hf (by simp [he])
          · intro hf; exact absurd hf (by simp [he])
        have := ih _ (p.drop (min p.length (b.size - b.buf.length))) _ (flush_inv hinv).1
        rwa [List.append_assoc, List.take_append_drop] at this
    · rw [if_neg hcond]
      exact fin_inv h p

/-- `Write(p)` preserves the invariant, with `p` added to the history -/
theorem write_inv {limit : Nat} {cf : Bool} {b : BW} {e : Bytes} (h : BWInv limit cf b e) (p : Bytes) :
    BWInv limit cf (b.write p) (e ++ p) := by
  rw [write_eq]; exact writeLoop_inv _ b p e h

/-- `Wfile.Close`: the sink ends with the first `limit` bytes of the history; the outcome is `fatal`
exactly when the history does not fit or `Close` fails -/
theorem closeW_eq {limit : Nat} {cf : Bool} {b : BW} {e : Bytes} (h : BWInv limit cf b e) :
    closeW b = (if limit < e.length || cf then .fatal else .ok, e.take limit) := by
  obtain ⟨hi, hbuf⟩ := flush_inv h
  unfold closeW
  simp only [hi.cfe]
  cases he : b.flush.err with
  | true =>
    have h1 := hi.bad he
    have h2 := hi.full he
    have h3 : b.flush.sink.got = e.take limit := by
      rw [← h2]; exact List.prefix_iff_eq_take.mp hi.pre
    simp [h1, h3]
  | false =>
    have h1 := hi.ok he
    rw [hbuf he, List.append_nil] at h1
    have h2 : e.length ≤ limit := by rw [← h1]; exact hi.cap
    have h3 : ¬ (limit < e.length) := by omega
    have h4 : e.take limit = e := List.take_of_length_le h2
    cases cf <;> simp [h3, h4, h1]

/-! ## the emit folds -/

theorem foldl_emitRaw_inv {limit : Nat} {cf : Bool} (l : List Bytes) (b : BW) (e : Bytes)
    (h : BWInv limit cf b e) : BWInv limit cf (l.foldl emitRaw b) (e ++ l.flatten) := by
  induction l generalizing b e with
  | nil => simpa using h
  | cons t ts ih =>
    simp only [List.foldl_cons, List.flatten_cons, ← List.append_assoc]
    exact ih _ _ (write_inv h t)

theorem sepJson_eq : sepJson = Writer.sepJson := rfl
theorem openJson_eq : openJson = Writer.openJson := rfl
theorem closeJson_eq : closeJson = Writer.closeJson := rfl

/-- the JSON writer over the failing sink simulates the plain JSON writer of C04: same `started`
flag, and the history of bytes handed to `Write` is the output of the plain writer -/
theorem emitJson_sim {limit : Nat} {cf : Bool} (s : JS) (m : Writer.JS) (t : Bytes)
    (hs : s.started = m.some) (h : BWInv limit cf s.bw m.out) :
    (emitJson s t).started = (Writer.emitJson m t).some ∧
    BWInv limit cf (emitJson s t).bw (Writer.emitJson m t).out := by
  unfold emitJson Writer.emitJson
  rw [← hs]
  by_cases ht : t.isEmpty = true
  · simp only [ht, if_true]; exact ⟨hs, h⟩
  · simp only [ht]
    cases hst : s.started with
    | true =>
      simp only [if_true]
      exact ⟨by simp, write_inv (write_inv h sepJson) t⟩
    | false =>
      simp only [Bool.false_eq_true, if_false]
      exact ⟨by simp, write_inv h t⟩

theorem foldl_emitJson_sim {limit : Nat} {cf : Bool} (l : List Bytes) (s : JS) (m : Writer.JS)
    (hs : s.started = m.some) (h : BWInv limit cf s.bw m.out) :
    (l.foldl emitJson s).started = (l.foldl Writer.emitJson m).some ∧
    BWInv limit cf (l.foldl emitJson s).bw (l.foldl Writer.emitJson m).out := by
  induction l generalizing s m with
  | nil => exact ⟨hs, h⟩
  | cons t ts ih =>
    simp only [List.foldl_cons]
    obtain ⟨h1, h2⟩ := emitJson_sim s m t hs h
    exact ih _ _ h1 h2

/-! ## adequacy of the fuel: the bounded loop is Go's unbounded loop -/

theorem flush_size (b : BW) : b.flush.size = b.size := by
  unfold BW.flush
  repeat' split
  all_goals rfl

theorem flush_buf (b : BW) : b.flush.err = true ∨ b.flush.buf = [] ∨ (b.flush = b ∧ b.buf.length = 0) := by
  unfold BW.flush
  by_cases he : b.err = true
  · simp [he]
  · by_cases hl : b.buf.length = 0
    · simp [he, hl]
    · simp only [he, hl, if_false]
      cases (b.sink.write b.buf).2.2 <;> simp

/-- loop exit condition of `for len(p) > b.Available() && b.err == nil` -/
def exits (r : BW × Bytes) : Prop := r.1.err = true ∨ r.2.length ≤ r.1.size - r.1.buf.length

theorem writeLoop_exits_empty (fuel : Nat) (b : BW) (p : Bytes) (hf : 1 ≤ fuel) (hb : b.buf = []) :
    exits (BW.writeLoop fuel b p) := by
  obtain ⟨f, rfl⟩ : ∃ f, fuel = f + 1 := ⟨fuel - 1, by omega⟩
  rw [BW.writeLoop]
  by_cases hcond : (decide (p.length > b.size - b.buf.length) && !b.err) = true
  · rw [if_pos hcond, if_pos (by simp [hb])]
    show exits (BW.writeLoop f { b with err := (b.sink.write p).2.2, sink := (b.sink.write p).1 }
      (p.drop (b.sink.write p).2.1))
    cases hw : (b.sink.write p).2.2 with
    | true => rw [writeLoop_err _ _ _ rfl]; exact Or.inl rfl
    | false =>
      rw [Sink.write_ok_n _ _ hw, List.drop_length]
      cases f with
      | zero => right; simp [BW.writeLoop]
      | succ g => right; simp [BW.writeLoop]
  · rw [if_neg hcond]
    cases he : b.err with
    | true => exact Or.inl he
    | false =>
      right
      simp [he] at hcond
      exact hcond

/-- two iterations always suffice (so `p.length + 2` does): one to fill and flush the buffer, one
to write the rest directly -/
theorem writeLoop_exits (fuel : Nat) (b : BW) (p : Bytes) (hf : 2 ≤ fuel) :
    exits (BW.writeLoop fuel b p) := by
  obtain ⟨f, rfl⟩ : ∃ f, fuel = f + 1 := ⟨fuel - 1, by omega⟩
  by_cases hl : b.buf.length = 0
  · exact writeLoop_exits_empty _ b p (by omega) (List.eq_nil_of_length_eq_zero hl)
  · rw [BW.writeLoop]
    by_cases hcond : (decide (p.length > b.size - b.buf.length) && !b.err) = true
    · rw [if_pos hcond, if_neg hl]
      simp only
      generalize hb1 : ({ b with buf := b.buf ++ p.take (min p.length (b.size - b.buf.length)) } : BW) = b1
      have hne : b1.buf.length ≠ 0 := by
        rw [← hb1]; simp only [List.length_append]; omega
      rcases flush_buf b1 with h | h | h
      · rw [writeLoop_err _ _ _ h]; exact Or.inl h
      · exact writeLoop_exits_empty _ _ _ (by omega) h
      · exact absurd h.2 hne
    · rw [if_neg hcond]
      cases he : b.err with
      | true => exact Or.inl he
      | false =>
        right
        simp [he] at hcond
        exact hcond

theorem write_exits (b : BW) (p : Bytes) : exits (BW.writeLoop (p.length + 2) b p) :=
  writeLoop_exits _ b p (by omega)

theorem flush_buf_le (b : BW) : b.flush.buf.length ≤ b.buf.length := by
  unfold BW.flush
  by_cases he : b.err = true
  · simp [he]
  · by_cases hl : b.buf.length = 0
    · simp [he, hl]
    · simp only [he, hl, if_false]
      cases (b.sink.write b.buf).2.2 <;> simp

theorem writeLoop_size (fuel : Nat) (b : BW) (p : Bytes) : (BW.writeLoop fuel b p).1.size = b.size := by
  induction fuel generalizing b p with
  | zero => rfl
  | succ f ih =>
    rw [BW.writeLoop]
    split
    · split
      · simp only; rw [ih]
      · simp only; rw [ih, flush_size]
    · rfl

/-- the buffer never grows beyond `size` inside the loop -/
theorem writeLoop_buf_le (fuel : Nat) (b : BW) (p : Bytes) (hb : b.buf.length ≤ b.size) :
    (BW.writeLoop fuel b p).1.buf.length ≤ b.size := by
  induction fuel generalizing b p with
  | zero => exact hb
  | succ f ih =>
    rw [BW.writeLoop]
    split
    · split
      · simp only
        exact ih _ _ hb
      · simp only
        generalize hb1 : ({ b with buf := b.buf ++ p.take (min p.length (b.size - b.buf.length)) } : BW) = b1
        have h1 : b1.buf.length ≤ b.size := by
          rw [← hb1]; simp only [List.length_append, List.length_take]; omega
        have h2 : b1.size = b.size := by rw [← hb1]
        have := ih b1.flush (p.drop (min p.length (b.size - b.buf.length)))
          (by rw [flush_size, h2]; exact Nat.le_trans (flush_buf_le b1) h1)
        rwa [flush_size, h2] at this
    · exact hb

theorem write_size (b : BW) (p : Bytes) : (b.write p).size = b.size := by
  rw [write_eq]
  have := writeLoop_size (p.length + 2) b p
  generalize BW.writeLoop (p.length + 2) b p = r at this ⊢
  obtain ⟨b', p'⟩ := r
  unfold fin
  simp only at this ⊢
  split <;> exact this

/-- `Write` keeps `len(buf) ≤ size`: the fuel of the loop is adequate (the loop has really exited when
the rest of `p` is copied to the buffer), for every size -/
theorem write_buf_le (b : BW) (p : Bytes) (hb : b.buf.length ≤ b.size) :
    (b.write p).buf.length ≤ (b.write p).size := by
  rw [write_size, write_eq]
  have h1 := writeLoop_size (p.length + 2) b p
  have h2 := writeLoop_buf_le (p.length + 2) b p hb
  have h3 := write_exits b p
  generalize BW.writeLoop (p.length + 2) b p = r at h1 h2 h3 ⊢
  obtain ⟨b', p'⟩ := r
  unfold exits at h3
  unfold fin
  simp only at h1 h2 h3 ⊢
  cases he : b'.err with
  | true => simpa using h2
  | false =>
    simp only [he, Bool.false_eq_true, if_false, false_or] at h3 ⊢
    simp only [List.length_append]
    omega

end ObiVerif.WriteErr
