import ObiVerif.Lemmas.PERows
import ObiVerif.Spec.AlignSteps
/-!
# Lemmas for C08: a strictly winning true path is the unique optimum (up to alignment columns)

Lattice-walk view of alignment paths (`Spec/AlignSteps`).  If, in every cell the walk of the true path
enters, the candidate of the recurrence coming from the walk's predecessor strictly beats the other
existing candidates (`strictAlong`), then the DP corner is the score of that path and every path that
scores at least as much has the same walk, hence the same alignment columns.
-/
namespace ObiVerif.PEAlign
open ObiVerif.Align

/-! ## walks: append, snoc, monotonicity -/

theorem walk_append : ∀ (xs ys : List Step) (i j : Nat),
    walk i j (xs ++ ys) = walk (walk i j xs).1 (walk i j xs).2 ys
  | [], _, _, _ => rfl
  | t :: xs, ys, i, j => by
    simp only [List.cons_append, walk]
    exact walk_append xs ys _ _

theorem walkScore_append (s : Nat → Nat → Int) (cA cB : Nat → Int) : ∀ (xs ys : List Step) (i j : Nat),
    walkScore s cA cB i j (xs ++ ys) =
      walkScore s cA cB i j xs + walkScore s cA cB (walk i j xs).1 (walk i j xs).2 ys
  | [], ys, i, j => by simp [walkScore, walk]
  | t :: xs, ys, i, j => by
    simp only [List.cons_append, walkScore, walk]
    rw [walkScore_append s cA cB xs ys]
    omega

theorem strictAlong_append (M : Nat → Nat → Int) (s : Nat → Nat → Int) (cA cB : Nat → Int) :
    ∀ (xs ys : List Step) (i j : Nat),
    strictAlong M s cA cB i j (xs ++ ys) =
      (strictAlong M s cA cB i j xs && strictAlong M s cA cB (walk i j xs).1 (walk i j xs).2 ys)
  | [], ys, i, j => by simp [strictAlong, walk]
  | t :: xs, ys, i, j => by
    simp only [List.cons_append, strictAlong, walk]
    rw [strictAlong_append M s cA cB xs ys, Bool.and_assoc]

theorem walk_snoc (xs : List Step) (t : Step) (i j a b : Nat) (h : walk i j xs = (a, b)) :
    walk i j (xs ++ [t]) = (a + t.di, b + t.dj) := by
  rw [walk_append, h]
  rfl

theorem walkScore_snoc (s : Nat → Nat → Int) (cA cB : Nat → Int) (xs : List Step) (t : Step) (i j a b : Nat)
    (h : walk i j xs = (a, b)) :
    walkScore s cA cB i j (xs ++ [t]) = walkScore s cA cB i j xs + stepScore s cA cB a b t := by
  rw [walkScore_append, h]
  simp [walkScore]

theorem strictAlong_snoc (M : Nat → Nat → Int) (s : Nat → Nat → Int) (cA cB : Nat → Int) (xs : List Step) (t : Step)
    (i j a b : Nat) (h : walk i j xs = (a, b)) :
    strictAlong M s cA cB i j (xs ++ [t]) =
      (strictAlong M s cA cB i j xs && strictAt M s cA cB (a + t.di) (b + t.dj) t) := by
  rw [strictAlong_append, h]
  simp [strictAlong]

theorem step_pos (t : Step) : 1 ≤ t.di + t.dj := by
  cases t <;> simp [Step.di, Step.dj]

theorem walk_mono : ∀ (xs : List Step) (i j : Nat),
    i ≤ (walk i j xs).1 ∧ j ≤ (walk i j xs).2 ∧ i + j + xs.length ≤ (walk i j xs).1 + (walk i j xs).2
  | [], i, j => by simp [walk]
  | t :: xs, i, j => by
    have ih := walk_mono xs (i + t.di) (j + t.dj)
    have := step_pos t
    simp only [walk, List.length_cons]
    omega

theorem snoc_cases {α : Type} : ∀ l : List α, l = [] ∨ ∃ l' x, l = l' ++ [x]
  | [] => Or.inl rfl
  | x :: l => by
    rcases snoc_cases l with h | ⟨l', y, h⟩
    · exact Or.inr ⟨[], x, by simp [h]⟩
    · exact Or.inr ⟨x :: l', y, by simp [h]⟩

/-! ## runs of one kind of step -/

theorem walk_repA : ∀ (n i j : Nat), walk i j (List.replicate n Step.A) = (i + n, j)
  | 0, _, _ => rfl
  | n + 1, i, j => by
    simp only [List.replicate_succ, walk, Step.di, Step.dj, Nat.add_zero]
    rw [walk_repA n, Nat.add_right_comm]
    rfl

theorem walk_repB : ∀ (n i j : Nat), walk i j (List.replicate n Step.B) = (i, j + n)
  | 0, _, _ => rfl
  | n + 1, i, j => by
    simp only [List.replicate_succ, walk, Step.di, Step.dj, Nat.add_zero]
    rw [walk_repB n, Nat.add_right_comm]
    rfl

theorem walk_repD : ∀ (n i j : Nat), walk i j (List.replicate n Step.D) = (i + n, j + n)
  | 0, _, _ => rfl
  | n + 1, i, j => by
    simp only [List.replicate_succ, walk, Step.di, Step.dj]
    rw [walk_repD n]
    simp only [Prod.mk.injEq]
    omega

theorem walkScore_repA (s : Nat → Nat → Int) (cA cB : Nat → Int) : ∀ (n i j : Nat),
    walkScore s cA cB i j (List.replicate n Step.A) = (n : Int) * cA j
  | 0, _, _ => by simp [walkScore]
  | n + 1, i, j => by
    simp only [List.replicate_succ, walkScore, stepScore, Step.di, Step.dj, Nat.add_zero]
    rw [walkScore_repA s cA cB n, succ_cast_mul, Int.add_comm]

theorem walkScore_repB (s : Nat → Nat → Int) (cA cB : Nat → Int) : ∀ (n i j : Nat),
    walkScore s cA cB i j (List.replicate n Step.B) = (n : Int) * cB i
  | 0, _, _ => by simp [walkScore]
  | n + 1, i, j => by
    simp only [List.replicate_succ, walkScore, stepScore, Step.di, Step.dj, Nat.add_zero]
    rw [walkScore_repB s cA cB n, succ_cast_mul, Int.add_comm]

theorem walkScore_repD (s : Nat → Nat → Int) (cA cB : Nat → Int) : ∀ (n i j : Nat),
    walkScore s cA cB i j (List.replicate n Step.D) = runD s n i j
  | 0, _, _ => by simp [walkScore, runD]
  | n + 1, i, j => by
    simp only [List.replicate_succ, walkScore, stepScore, Step.di, Step.dj, runD]
    rw [walkScore_repD s cA cB n]

/-! ## bridge: run-length paths and their walks -/

/-- the walk of a path ends where the path's consumption says -/
theorem walk_stepsOf : ∀ (p : Path) (i j : Nat), walk i j (stepsOf p) = (i + usedA p, j + usedB p)
  | [], _, _ => rfl
  | [_], _, _ => rfl
  | ind :: d :: rest, i, j => by
    simp only [stepsOf, walk_append, walk_repA, walk_repB, walk_repD, walk_stepsOf rest, usedA_cons, usedB_cons,
      Prod.mk.injEq]
    omega

/-- the score of a path is the score of its walk -/
theorem scoreFrom_walkScore (s : Nat → Nat → Int) (cA cB : Nat → Int) : ∀ (p : Path) (i j : Nat),
    scoreFrom s cA cB i j p = walkScore s cA cB i j (stepsOf p)
  | [], _, _ => rfl
  | [_], _, _ => rfl
  | ind :: d :: rest, i, j => by
    have h0 : (-ind).toNat = 0 ∨ ind.toNat = 0 := by omega
    simp only [stepsOf, walkScore_append, walk_append, walk_repA, walk_repB, walk_repD, walkScore_repA,
      walkScore_repB, walkScore_repD, scoreFrom, scoreFrom_walkScore s cA cB rest]
    rcases h0 with h | h <;> simp [h]

/-- the alignment columns of a lattice walk -/
def colsOfSteps : Nat → Nat → List Step → List Col
  | _, _, [] => []
  | i, j, .A :: ts => (some i, none) :: colsOfSteps (i + 1) j ts
  | i, j, .B :: ts => (none, some j) :: colsOfSteps i (j + 1) ts
  | i, j, .D :: ts => (some i, some j) :: colsOfSteps (i + 1) (j + 1) ts

theorem colsOfSteps_append : ∀ (xs ys : List Step) (i j : Nat),
    colsOfSteps i j (xs ++ ys) = colsOfSteps i j xs ++ colsOfSteps (walk i j xs).1 (walk i j xs).2 ys
  | [], _, _, _ => rfl
  | .A :: xs, ys, i, j => by
    simp only [List.cons_append, colsOfSteps, walk, Step.di, Step.dj, Nat.add_zero]
    rw [colsOfSteps_append xs ys]
  | .B :: xs, ys, i, j => by
    simp only [List.cons_append, colsOfSteps, walk, Step.di, Step.dj, Nat.add_zero]
    rw [colsOfSteps_append xs ys]
  | .D :: xs, ys, i, j => by
    simp only [List.cons_append, colsOfSteps, walk, Step.di, Step.dj]
    rw [colsOfSteps_append xs ys]

theorem colsOfSteps_repA : ∀ (n i j : Nat), colsOfSteps i j (List.replicate n Step.A) = colsA n i
  | 0, _, _ => rfl
  | n + 1, i, j => by
    simp only [List.replicate_succ, colsOfSteps, colsA]
    rw [colsOfSteps_repA n]

theorem colsOfSteps_repB : ∀ (n i j : Nat), colsOfSteps i j (List.replicate n Step.B) = colsB n j
  | 0, _, _ => rfl
  | n + 1, i, j => by
    simp only [List.replicate_succ, colsOfSteps, colsB]
    rw [colsOfSteps_repB n]

theorem colsOfSteps_repD : ∀ (n i j : Nat), colsOfSteps i j (List.replicate n Step.D) = colsD n i j
  | 0, _, _ => rfl
  | n + 1, i, j => by
    simp only [List.replicate_succ, colsOfSteps, colsD]
    rw [colsOfSteps_repD n]

/-- the alignment columns of a path depend on the path only through its walk -/
theorem columns_steps : ∀ (p : Path) (i j : Nat), columns p i j = colsOfSteps i j (stepsOf p)
  | [], _, _ => rfl
  | [_], _, _ => rfl
  | ind :: d :: rest, i, j => by
    simp only [stepsOf, colsOfSteps_append, walk_append, walk_repA, walk_repB, walk_repD, colsOfSteps_repA,
      colsOfSteps_repB, colsOfSteps_repD, columns, columns_steps rest]

theorem columns_congr_steps (p q : Path) (h : stepsOf q = stepsOf p) : columns q 0 0 = columns p 0 0 := by
  rw [columns_steps, columns_steps, h]

/-! ## the recurrence in candidate form -/

section Fill
variable {s : Nat → Nat → Int} {cA cB : Nat → Int} {la lb : Nat} {M P : Nat → Nat → Int}

/-- the candidate for arriving by `t` from cell (a, b) -/
theorem cand_step (M : Nat → Nat → Int) (s : Nat → Nat → Int) (cA cB : Nat → Int) (a b : Nat) (t : Step) :
    cand M s cA cB (a + t.di) (b + t.dj) t = some (M a b + stepScore s cA cB a b t) := by
  cases t <;> simp [cand, Step.di, Step.dj, stepScore]

theorem step_le (hf : IsFill s cA cB la lb M P) (i j : Nat) (t : Step) (hi : i + t.di ≤ la) (hj : j + t.dj ≤ lb) :
    M i j + stepScore s cA cB i j t ≤ M (i + t.di) (j + t.dj) := by
  cases t <;> simp only [Step.di, Step.dj, stepScore, Nat.add_zero] at *
  · exact (cell_ge hf).2.2 i j (by omega) hj
  · exact (cell_ge hf).2.1 i j hi (by omega)
  · exact (cell_ge hf).1 i j (by omega) (by omega)

/-- **upper bound, walk form**: no walk from a cell beats the cell it reaches -/
theorem walk_le (hf : IsFill s cA cB la lb M P) : ∀ (qs : List Step) (i j : Nat),
    (walk i j qs).1 ≤ la → (walk i j qs).2 ≤ lb →
    M i j + walkScore s cA cB i j qs ≤ M (walk i j qs).1 (walk i j qs).2
  | [], i, j, _, _ => by simp [walk, walkScore]
  | t :: qs, i, j, h1, h2 => by
    simp only [walk] at h1 h2
    have ih := walk_le hf qs _ _ h1 h2
    have hm := walk_mono qs (i + t.di) (j + t.dj)
    have hstep := step_le hf i j t (by omega) (by omega)
    simp only [walk, walkScore]
    omega

/-- every existing candidate of a cell is at most the cell -/
theorem cand_le (hf : IsFill s cA cB la lb M P) (i j : Nat) (hi : i ≤ la) (hj : j ≤ lb) (u : Step) (w : Int)
    (h : cand M s cA cB i j u = some w) : w ≤ M i j := by
  cases u
  · cases i with
    | zero => simp [cand] at h
    | succ i =>
      simp [cand] at h
      have := (cell_ge hf).2.2 i j (by omega) hj
      omega
  · cases j with
    | zero => simp [cand] at h
    | succ j =>
      simp [cand] at h
      have := (cell_ge hf).2.1 i j hi (by omega)
      omega
  · cases i with
    | zero => simp [cand] at h
    | succ i =>
      cases j with
      | zero => simp [cand] at h
      | succ j =>
        simp [cand] at h
        have := (cell_ge hf).1 i j (by omega) (by omega)
        omega

/-- a cell other than the origin equals one of its candidates -/
theorem cell_is_cand (hf : IsFill s cA cB la lb M P) (i j : Nat) (hi : i ≤ la) (hj : j ≤ lb) (h0 : ¬(i = 0 ∧ j = 0)) :
    ∃ u, cand M s cA cB i j u = some (M i j) := by
  rcases stepFact hf i j hi hj h0 with ⟨_, i', j', rfl, rfl, h⟩ | ⟨_, j', rfl, h⟩ | ⟨_, i', rfl, h⟩
  · exact ⟨Step.D, by simp [cand, h]⟩
  · exact ⟨Step.B, by simp [cand, h]⟩
  · exact ⟨Step.A, by simp [cand, h]⟩

theorem strictAt_spec {i j : Nat} {t : Step} (h : strictAt M s cA cB i j t = true) :
    ∃ v, cand M s cA cB i j t = some v ∧ ∀ u w, u ≠ t → cand M s cA cB i j u = some w → w < v := by
  unfold strictAt at h
  cases hc : cand M s cA cB i j t with
  | none => simp [hc] at h
  | some v =>
    simp only [hc, List.all_cons, List.all_nil, Bool.and_true, Bool.and_eq_true, Bool.or_eq_true,
      decide_eq_true_eq] at h
    refine ⟨v, rfl, ?_⟩
    intro u w hu hw
    cases u
    · rcases h.1 with h1 | h1
      · exact absurd h1 hu
      · simpa [hw] using h1
    · rcases h.2.1 with h1 | h1
      · exact absurd h1 hu
      · simpa [hw] using h1
    · rcases h.2.2 with h1 | h1
      · exact absurd h1 hu
      · simpa [hw] using h1

theorem cand_origin (t : Step) : cand M s cA cB 0 0 t = none := by
  cases t <;> simp [cand]

/-- the strict winner of a cell is the value of the cell -/
theorem strictAt_eq (hf : IsFill s cA cB la lb M P) {i j : Nat} {t : Step} (hi : i ≤ la) (hj : j ≤ lb)
    (h : strictAt M s cA cB i j t = true) : cand M s cA cB i j t = some (M i j) := by
  obtain ⟨v, hv, hlt⟩ := strictAt_spec h
  have h0 : ¬(i = 0 ∧ j = 0) := by
    rintro ⟨rfl, rfl⟩
    rw [cand_origin] at hv
    cases hv
  obtain ⟨u, hu⟩ := cell_is_cand hf i j hi hj h0
  by_cases hut : u = t
  · subst hut; exact hu
  · have h1 := hlt u _ hut hu
    have h2 := cand_le hf i j hi hj t v hv
    omega

/-- the other existing candidates of a strictly won cell are strictly below the cell -/
theorem strictAt_lt (hf : IsFill s cA cB la lb M P) {i j : Nat} {t u : Step} {w : Int} (hi : i ≤ la) (hj : j ≤ lb)
    (h : strictAt M s cA cB i j t = true) (hut : u ≠ t) (hu : cand M s cA cB i j u = some w) : w < M i j := by
  obtain ⟨v, hv, hlt⟩ := strictAt_spec h
  have he := strictAt_eq hf hi hj h
  rw [hv] at he
  have := Option.some.inj he
  have := hlt u w hut hu
  omega

/-! ## strictness along a walk -/

/-- along a strictly winning walk every cell is its predecessor plus the step score -/
theorem strictAlong_walkScore (hf : IsFill s cA cB la lb M P) : ∀ (ts : List Step) (i j : Nat),
    (walk i j ts).1 ≤ la → (walk i j ts).2 ≤ lb → strictAlong M s cA cB i j ts = true →
    M i j + walkScore s cA cB i j ts = M (walk i j ts).1 (walk i j ts).2
  | [], i, j, _, _, _ => by simp [walk, walkScore]
  | t :: ts, i, j, h1, h2, hs => by
    simp only [walk] at h1 h2
    simp only [strictAlong, Bool.and_eq_true] at hs
    have ih := strictAlong_walkScore hf ts _ _ h1 h2 hs.2
    have hm := walk_mono ts (i + t.di) (j + t.dj)
    have he := strictAt_eq hf (by omega) (by omega) hs.1
    rw [cand_step] at he
    have := Option.some.inj he
    simp only [walk, walkScore]
    omega

/-- one backward step of the uniqueness argument -/
theorem walk_unique_step (hf : IsFill s cA cB la lb M P) (qs' : List Step) (t u : Step) (a' b' c d : Nat)
    (hqs : walk 0 0 qs' = (c, d))
    (hi : c + u.di = a' + t.di) (hj : d + u.dj = b' + t.dj) (ha : a' + t.di ≤ la) (hb : b' + t.dj ≤ lb)
    (hst : strictAt M s cA cB (a' + t.di) (b' + t.dj) t = true)
    (hge : M (a' + t.di) (b' + t.dj) ≤ walkScore s cA cB 0 0 qs' + stepScore s cA cB c d u) :
    u = t ∧ c = a' ∧ d = b' ∧ M a' b' ≤ walkScore s cA cB 0 0 qs' := by
  have hub := walk_le hf qs' 0 0 (by rw [hqs]; simp only; omega) (by rw [hqs]; simp only; omega)
  rw [hqs, hf.m00] at hub
  simp only at hub
  have hcu := cand_step M s cA cB c d u
  rw [hi, hj] at hcu
  by_cases hut : u = t
  · subst hut
    have hc : c = a' := by omega
    have hd : d = b' := by omega
    subst hc hd
    have he := strictAt_eq hf ha hb hst
    rw [hcu] at he
    have := Option.some.inj he
    exact ⟨rfl, rfl, rfl, by omega⟩
  · have := strictAt_lt hf ha hb hst hut hcu
    omega

/-- **uniqueness, walk form**: a walk that reaches the same cell as a strictly winning walk and scores at
least the cell is that walk -/
theorem walk_unique (hf : IsFill s cA cB la lb M P) : ∀ (n : Nat) (ts qs : List Step) (a b : Nat),
    ts.length = n → walk 0 0 ts = (a, b) → walk 0 0 qs = (a, b) → a ≤ la → b ≤ lb →
    strictAlong M s cA cB 0 0 ts = true → M a b ≤ walkScore s cA cB 0 0 qs → qs = ts
  | 0, ts, qs, a, b, hn, hts, hqs, _, _, _, _ => by
    have hnil : ts = [] := List.eq_nil_of_length_eq_zero hn
    subst hnil
    simp only [walk, Prod.mk.injEq] at hts
    have hm := walk_mono qs 0 0
    rw [hqs] at hm
    simp only at hm
    exact List.eq_nil_of_length_eq_zero (by omega)
  | n + 1, ts, qs, a, b, hn, hts, hqs, ha, hb, hst, hge => by
    rcases snoc_cases ts with h | ⟨ts', t, rfl⟩
    · subst h; simp at hn
    rcases snoc_cases qs with h | ⟨qs', u, rfl⟩
    · subst h
      exfalso
      simp only [walk, Prod.mk.injEq] at hqs
      have hm := walk_mono (ts' ++ [t]) 0 0
      rw [hts] at hm
      simp only [List.length_append, List.length_cons, List.length_nil] at hm
      omega
    rcases hp : walk 0 0 ts' with ⟨a', b'⟩
    rcases hq : walk 0 0 qs' with ⟨c, d⟩
    rw [walk_snoc _ _ _ _ _ _ hp, Prod.mk.injEq] at hts
    rw [walk_snoc _ _ _ _ _ _ hq, Prod.mk.injEq] at hqs
    rw [strictAlong_snoc _ _ _ _ _ _ _ _ _ _ hp, Bool.and_eq_true] at hst
    rw [walkScore_snoc _ _ _ _ _ _ _ _ _ hq] at hge
    obtain ⟨e1, e2⟩ := hts
    subst e1 e2
    obtain ⟨rfl, rfl, rfl, hge'⟩ := walk_unique_step hf qs' t u a' b' c d hq hqs.1 hqs.2 ha hb hst.2 hge
    have hm := walk_mono [u] c d
    simp only [walk] at hm
    have hlen : ts'.length = n := by simpa using hn
    rw [walk_unique hf n ts' qs' c d hlen hp hq (by omega) (by omega) hst.1 hge']

end Fill

/-! ## the theorems on run-length paths -/

/-- strictness along the true path: the DP corner is the score of that path -/
theorem strictAlong_score {s : Nat → Nat → Int} {cA cB : Nat → Int} {la lb : Nat} {M P : Nat → Nat → Int}
    (hf : IsFill s cA cB la lb M P) (tp : Path) (htp : consumes tp la lb)
    (hs : strictAlong M s cA cB 0 0 (stepsOf tp) = true) :
    scoreOf s cA cB tp = M la lb := by
  obtain ⟨_, hA, hB⟩ := htp
  have hw := walk_stepsOf tp 0 0
  rw [hA, hB, Nat.zero_add, Nat.zero_add] at hw
  have h := strictAlong_walkScore hf (stepsOf tp) 0 0 (by rw [hw]; exact Nat.le_refl _) (by rw [hw]; exact Nat.le_refl _) hs
  rw [hw, hf.m00] at h
  simp only at h
  unfold scoreOf
  rw [scoreFrom_walkScore]
  omega

/-- the true path is the unique optimum up to alignment columns -/
theorem unique_of_strictAlong {s : Nat → Nat → Int} {cA cB : Nat → Int} {la lb : Nat} {M P : Nat → Nat → Int}
    (hf : IsFill s cA cB la lb M P) (tp q : Path) (htp : consumes tp la lb) (hq : consumes q la lb)
    (hs : strictAlong M s cA cB 0 0 (stepsOf tp) = true)
    (hge : scoreOf s cA cB tp ≤ scoreOf s cA cB q) :
    columns q 0 0 = columns tp 0 0 := by
  have hsc := strictAlong_score hf tp htp hs
  have hwt := walk_stepsOf tp 0 0
  rw [htp.2.1, htp.2.2, Nat.zero_add, Nat.zero_add] at hwt
  have hwq := walk_stepsOf q 0 0
  rw [hq.2.1, hq.2.2, Nat.zero_add, Nat.zero_add] at hwq
  have hq' : M la lb ≤ walkScore s cA cB 0 0 (stepsOf q) := by
    rw [← scoreFrom_walkScore]
    unfold scoreOf at hge hsc
    omega
  exact columns_congr_steps tp q
    (walk_unique hf _ (stepsOf tp) (stepsOf q) la lb rfl hwt hwq (Nat.le_refl _) (Nat.le_refl _) hs hq')

/-! ## non-vacuity: a concrete strictly winning path -/

example :
    strictAlong (Mf (fun i j => if i = j + 1 then 2 else -1) (cALeft (-3)) (cBLeft (-3) 3) 3)
      (fun i j => if i = j + 1 then 2 else -1) (cALeft (-3)) (cBLeft (-3) 3) 0 0 (stepsOf [-1, 2, 1, 0]) = true := by
  decide

end ObiVerif.PEAlign
