import ObiVerif.Model.WriterWfile
/-! # `obicsv --auto` column detection: the detected keys are the sorted union of the non-map attribute keys (C04) -/
set_option Elab.async false
namespace ObiVerif.WriterWfile
open ObiVerif.WriterFmt

theorem u8_lt_irrefl (a : UInt8) : ¬ a < a := by
  rw [UInt8.lt_iff_toNat_lt]; omega

theorem ltB_irrefl : ∀ a : B, ltB a a = false
  | [] => rfl
  | x :: xs => by simp [ltB, u8_lt_irrefl, ltB_irrefl xs]

theorem ltB_total : ∀ a b : B, ltB a b = false → a ≠ b → ltB b a = true
  | [], [], _, h => absurd rfl h
  | [], _ :: _, h, _ => by simp [ltB] at h
  | _ :: _, [], _, _ => rfl
  | x :: xs, y :: ys, h, hne => by
    simp only [ltB] at h ⊢
    by_cases h1 : x < y
    · simp [h1] at h
    · by_cases h2 : y < x
      · simp [h2]
      · have hxy : x = y := by
          apply UInt8.toNat_inj.mp
          rw [UInt8.lt_iff_toNat_lt] at h1 h2; omega
        subst hxy
        simp only [h1, if_false] at h ⊢
        exact ltB_total xs ys h (fun e => hne (by rw [e]))

theorem ltB_trans : ∀ a b c : B, ltB a b = true → ltB b c = true → ltB a c = true
  | [], [], _, h, _ => by simp [ltB] at h
  | [], _ :: _, [], _, h => by simp [ltB] at h
  | [], _ :: _, _ :: _, _, _ => rfl
  | _ :: _, [], _, h, _ => by simp [ltB] at h
  | _ :: _, _ :: _, [], _, h => by simp [ltB] at h
  | x :: xs, y :: ys, z :: zs, h1, h2 => by
    simp only [ltB] at h1 h2 ⊢
    by_cases a1 : x < y
    · by_cases a2 : y < z
      · have : x < z := by rw [UInt8.lt_iff_toNat_lt] at *; omega
        simp [this]
      · by_cases a3 : z < y
        · simp [a2, a3] at h2
        · have hyz : y = z := by
            apply UInt8.toNat_inj.mp
            rw [UInt8.lt_iff_toNat_lt] at a2 a3; omega
          subst hyz; simp [a1]
    · by_cases a1' : y < x
      · simp [a1, a1'] at h1
      · have hxy : x = y := by
          apply UInt8.toNat_inj.mp
          rw [UInt8.lt_iff_toNat_lt] at a1 a1'; omega
        subst hxy
        simp only [a1, if_false] at h1
        by_cases a2 : x < z
        · simp [a2]
        · by_cases a3 : z < x
          · simp [a2, a3] at h2
          · simp only [a2, a3, if_false] at h2 ⊢
            exact ltB_trans xs ys zs h1 h2

theorem mem_insertU (k x : B) : ∀ l : List B, x ∈ insertU k l ↔ x = k ∨ x ∈ l
  | [] => by simp [insertU]
  | y :: ys => by
    unfold insertU
    by_cases h1 : ltB k y = true
    · rw [if_pos h1]; simp
    · rw [if_neg h1]
      by_cases h2 : k = y
      · rw [if_pos h2]; subst h2; simp
      · rw [if_neg h2, List.mem_cons, List.mem_cons, mem_insertU k x ys]
        constructor
        · rintro (h | h | h)
          · exact Or.inr (Or.inl h)
          · exact Or.inl h
          · exact Or.inr (Or.inr h)
        · rintro (h | h | h)
          · exact Or.inr (Or.inl h)
          · exact Or.inl h
          · exact Or.inr (Or.inr h)

theorem sorted_insertU (k : B) : ∀ l : List B, l.Pairwise (fun a b => ltB a b = true) →
    (insertU k l).Pairwise (fun a b => ltB a b = true)
  | [], _ => by simp [insertU]
  | y :: ys, h => by
    unfold insertU
    have hy := List.pairwise_cons.mp h
    by_cases h1 : ltB k y = true
    · rw [if_pos h1]
      refine List.pairwise_cons.mpr ⟨?_, h⟩
      intro z hz
      rcases List.mem_cons.mp hz with rfl | hz
      · exact h1
      · exact ltB_trans _ _ _ h1 (hy.1 z hz)
    · rw [if_neg h1]
      by_cases h2 : k = y
      · rw [if_pos h2]; exact h
      · rw [if_neg h2]
        refine List.pairwise_cons.mpr ⟨?_, sorted_insertU k ys hy.2⟩
        intro z hz
        rcases (mem_insertU k z ys).mp hz with rfl | hz
        · exact ltB_total _ _ (by simpa using h1) h2
        · exact hy.1 z hz

/-- the detected columns are strictly increasing in Go's string order: sorted, no column twice -/
theorem autoKeys_sorted (first : List Rec) : (autoKeys first).Pairwise (fun a b => ltB a b = true) := by
  unfold autoKeys
  induction first.flatMap attrKeys with
  | nil => simp
  | cons k ks ih => exact sorted_insertU k _ ih

/-- the detected columns are exactly the union over the records of the first batch of the keys of their attributes
whose value is not a map -/
theorem mem_autoKeys (first : List Rec) (k : B) :
    k ∈ autoKeys first ↔ ∃ r ∈ first, ∃ v, (k, v) ∈ r.ann ∧ isMap v = false := by
  have h : ∀ l : List B, k ∈ l.foldr insertU [] ↔ k ∈ l := by
    intro l
    induction l with
    | nil => simp
    | cons x xs ih => simp [List.foldr_cons, mem_insertU, ih]
  unfold autoKeys
  rw [h, List.mem_flatMap]
  constructor
  · rintro ⟨r, hr, hk⟩
    unfold attrKeys at hk
    obtain ⟨e, he, rfl⟩ := List.mem_map.mp hk
    obtain ⟨he1, he2⟩ := List.mem_filter.mp he
    exact ⟨r, hr, e.2, he1, by simpa using he2⟩
  · rintro ⟨r, hr, v, hv, hm⟩
    refine ⟨r, hr, ?_⟩
    unfold attrKeys
    exact List.mem_map.mpr ⟨(k, v), List.mem_filter.mpr ⟨hv, by simp [hm]⟩, rfl⟩

end ObiVerif.WriterWfile
