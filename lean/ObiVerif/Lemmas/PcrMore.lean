import ObiVerif.Model.PcrAnnot
import ObiVerif.Model.PcrSeqBuf
import ObiVerif.Lemmas.Pcr
import ObiVerif.Lemmas.PcrCircular
import ObiVerif.Lemmas.PcrFrag
set_option Elab.async false
/-!
# Lemmas for C11, third pass

* the annotation map of an amplicon (`annotate`): what each key holds (`annotate_get_*`);
* the matched string a record carries, read alone, is a site of the primer it is attributed to (`site_of_seg`,
  `site_of_rc_seg`);
* a circular template shorter than a primer yields nothing (`block_unfit`);
* a piece of a fragmented template whose end clipped a flank: exactly when (`linBounds_clipped_iff`,
  `block_of_piece_clipped_exact`);
* the options of `CLIPCR` written out (`cliWindow`, `cliLengthOk`).
-/
namespace ObiVerif.Pcr
open ObiVerif ObiVerif.Apat

/-! ## annotation maps -/

theorem Annot.get_cons (k' k : Key) (v : AVal) (r : Annot) :
    Annot.get ((k', v) :: r) k = if k' = k then some v else Annot.get r k := rfl

theorem Annot.get_filter_ne (a : Annot) (k k' : Key) (h : k' ≠ k) :
    Annot.get (a.filter (fun kv => kv.1 ≠ k)) k' = Annot.get a k' := by
  induction a with
  | nil => rfl
  | cons x r ih =>
    obtain ⟨kx, vx⟩ := x
    by_cases hx : kx = k
    · subst hx
      rw [List.filter_cons_of_neg (by simp), ih, Annot.get_cons, if_neg (fun e => h e.symm)]
    · rw [List.filter_cons_of_pos (by simpa using hx), Annot.get_cons, Annot.get_cons, ih]

/-- `annot[k] = v` then `annot[k]` -/
theorem Annot.get_set_same (a : Annot) (k : Key) (v : AVal) : (a.set k v).get k = some v := by
  unfold Annot.set
  rw [Annot.get_cons, if_pos rfl]

/-- `annot[k] = v` leaves every other key alone -/
theorem Annot.get_set_ne (a : Annot) (k k' : Key) (v : AVal) (h : k' ≠ k) : (a.set k v).get k' = a.get k' := by
  unfold Annot.set
  rw [Annot.get_cons, if_neg (fun e => h e.symm), Annot.get_filter_ne a k k' h]

/-- a key that is not one of the seven keeps the value the template gives it (none if it gives none) -/
theorem annotate_get_other (fwd rev : Bytes) (tpl : Annot) (x : Amplicon) (n : Bytes) :
    (annotate fwd rev tpl x).get (.other n) = tpl.get (.other n) := by
  unfold annotate
  simp only [Annot.get_set_ne _ _ _ _ (show Key.other n ≠ Key.pcr _ from fun e => by cases e)]

/-- the seven keys, whatever the template carried under these names -/
theorem annotate_get_pcr (fwd rev : Bytes) (tpl : Annot) (x : Amplicon) :
    (annotate fwd rev tpl x).get (.pcr .forwardPrimer) = some (.str fwd) ∧
    (annotate fwd rev tpl x).get (.pcr .reversePrimer) = some (.str rev) ∧
    (annotate fwd rev tpl x).get (.pcr .forwardMatch) = some (.str x.fmatch) ∧
    (annotate fwd rev tpl x).get (.pcr .forwardError) = some (.int x.ferr) ∧
    (annotate fwd rev tpl x).get (.pcr .reverseMatch) = some (.str x.rmatch) ∧
    (annotate fwd rev tpl x).get (.pcr .reverseError) = some (.int x.rerr) ∧
    (annotate fwd rev tpl x).get (.pcr .direction) = some (.str (dirBytes x.isForward)) := by
  have ne : ∀ a b : PcrKey, a ≠ b → Key.pcr a ≠ Key.pcr b := fun a b h e => h (by cases e; rfl)
  unfold annotate
  refine ⟨?_, ?_, ?_, ?_, ?_, ?_, ?_⟩
  · rw [Annot.get_set_ne _ _ _ _ (ne _ _ (by decide)), Annot.get_set_ne _ _ _ _ (ne _ _ (by decide)),
      Annot.get_set_ne _ _ _ _ (ne _ _ (by decide)), Annot.get_set_ne _ _ _ _ (ne _ _ (by decide)),
      Annot.get_set_ne _ _ _ _ (ne _ _ (by decide)), Annot.get_set_ne _ _ _ _ (ne _ _ (by decide)), Annot.get_set_same]
  · rw [Annot.get_set_ne _ _ _ _ (ne _ _ (by decide)), Annot.get_set_ne _ _ _ _ (ne _ _ (by decide)),
      Annot.get_set_ne _ _ _ _ (ne _ _ (by decide)), Annot.get_set_same]
  · rw [Annot.get_set_ne _ _ _ _ (ne _ _ (by decide)), Annot.get_set_ne _ _ _ _ (ne _ _ (by decide)),
      Annot.get_set_ne _ _ _ _ (ne _ _ (by decide)), Annot.get_set_ne _ _ _ _ (ne _ _ (by decide)),
      Annot.get_set_ne _ _ _ _ (ne _ _ (by decide)), Annot.get_set_same]
  · rw [Annot.get_set_ne _ _ _ _ (ne _ _ (by decide)), Annot.get_set_ne _ _ _ _ (ne _ _ (by decide)),
      Annot.get_set_ne _ _ _ _ (ne _ _ (by decide)), Annot.get_set_ne _ _ _ _ (ne _ _ (by decide)), Annot.get_set_same]
  · rw [Annot.get_set_ne _ _ _ _ (ne _ _ (by decide)), Annot.get_set_ne _ _ _ _ (ne _ _ (by decide)), Annot.get_set_same]
  · rw [Annot.get_set_ne _ _ _ _ (ne _ _ (by decide)), Annot.get_set_same]
  · rw [Annot.get_set_same]

/-- the annotations only depend on what `obs` shows of a record -/
theorem annotate_congr (fwd rev : Bytes) (tpl : Annot) (x y : Amplicon) (h1 : x.isForward = y.isForward)
    (h2 : x.fmatch = y.fmatch) (h3 : x.ferr = y.ferr) (h4 : x.rmatch = y.rmatch) (h5 : x.rerr = y.rerr) :
    annotate fwd rev tpl x = annotate fwd rev tpl y := by
  unfold annotate
  rw [h1, h2, h3, h4, h5]

/-! ## the matched strings, read alone -/

theorem seg_self_length (seq : Bytes) (i n : Nat) (h : i + n ≤ seq.length) : (seg seq i (i + n)).length = n := by
  rw [seg_length seq i (i + n) h]; omega

/-- **the string of a site is a site**: the `patlen` symbols cut at a site of `P`, read alone, match `P` at offset 0 with the
same number of mismatches -/
theorem site_of_seg (P : Pattern) (seq : Bytes) (i k : Nat) (h : MatchAt P (enc seq) i k) :
    MatchAt P (enc (seg seq i (i + P.patlen))) 0 k := by
  have hlen := h.1
  simp only [enc_length] at hlen
  have := (matchAt_seg P seq i (i + P.patlen) 0 k (by omega) hlen).mpr ⟨by simpa using h, by omega⟩
  exact this

/-- … and the reverse complement of the string cut at a site of the COMPLEMENTED pattern is a site of the pattern itself:
`forward_match` of the reverse block / `reverse_match` of the forward block are in primer orientation -/
theorem site_of_rc_seg (P P' : Pattern) (hm : Mirror P P') (seq : Bytes) (hs : ∀ b ∈ seq, b ∈ iupac) (j k : Nat)
    (h : MatchAt P' (enc seq) j k) : MatchAt P (enc (SeqOps.rc (seg seq j (j + P'.patlen)))) 0 k := by
  have hlen := h.1
  simp only [enc_length] at hlen
  have h0 := site_of_seg P' seq j k h
  have hl : (seg seq j (j + P'.patlen)).length = P'.patlen := seg_self_length seq j _ hlen
  have := site_mirror P P' hm (seg seq j (j + P'.patlen)) (seg_iupac seq hs _ _) 0 k h0
  have e : P'.patlen - 0 - P.patlen = 0 := by rw [hm.patlen]; omega
  rw [hl, e] at this
  exact this


/-- the same on a circle: the `patlen` symbols read clockwise from a site of the circle, read alone, are a site -/
theorem site_of_cseg (P : Pattern) (seq : Bytes) (i k : Nat) (h : CMatchAt P (enc seq) i k) :
    MatchAt P (enc (cseg seq i P.patlen)) 0 k := by
  have h2 : MatchAt P (enc (seq ++ seq)) i k := by rw [enc_append]; exact h.2
  have := site_of_seg P (seq ++ seq) i k h2
  unfold seg at this
  unfold cseg
  rwa [Nat.add_sub_cancel_left] at this

/-- … and the reverse complement of the symbols read from a site of the complemented pattern is a site of the pattern -/
theorem site_of_rc_cseg (P P' : Pattern) (hm : Mirror P P') (seq : Bytes) (hs : ∀ b ∈ seq, b ∈ iupac) (j k : Nat)
    (h : CMatchAt P' (enc seq) j k) : MatchAt P (enc (SeqOps.rc (cseg seq j P'.patlen))) 0 k := by
  have h2 : MatchAt P' (enc (seq ++ seq)) j k := by rw [enc_append]; exact h.2
  have hs2 : ∀ b ∈ seq ++ seq, b ∈ iupac := by
    intro b hb
    rcases List.mem_append.mp hb with hb | hb <;> exact hs b hb
  have := site_of_rc_seg P P' hm (seq ++ seq) hs2 j k h2
  unfold seg at this
  unfold cseg
  rwa [Nat.add_sub_cancel_left] at this

/-! ## a circular template shorter than a primer -/

/-- shape of the hits of `FindAllIndex` on a circular sequence: `(i, i + patlen, k)`, `i` a natural number -/
theorem fai_circ_shape (P : Pattern) (hP : POk P) (seq : Bytes) (b l : Int) (h : Hit)
    (hh : h ∈ findAllIndex P seq true b l) : ∃ i : Nat, h.1 = (i : Int) ∧ h.2.1 = (i : Int) + P.patlen := by
  obtain ⟨s, e, k⟩ := h
  obtain ⟨i, _, rfl, rfl, _, _⟩ := (findAllIndex_exact_circular P seq b l (Or.inl hP.noIndel) hP.pos hP.le63 s e k).mp hh
  exact ⟨i, rfl, rfl⟩

/-- **a primer longer than the circle gives nothing**: when the direct primer or the complemented primer has more
positions than the circular template has symbols, the orientation block reports no pair at all — the matcher does find
sites of such a primer (the buffer holds the circle twice: since fix c69892e `min(len, 64)` symbols are copied behind the
end), but every pair fails the length test of `_Pcr` -/
theorem block_unfit (isFwd : Bool) (D C : Pattern) (hD : POk D) (hC : POk C) (wl : Int) (o : Opts)
    (hc : o.circular = true) (seq : Bytes) (hu : seq.length < D.patlen ∨ seq.length < C.patlen) :
    block isFwd D C D.patlen wl o seq = [] := by
  apply List.eq_nil_iff_forall_not_mem.mpr
  intro x hx
  rw [mem_block_iff] at hx
  obtain ⟨first, last, fm, rm, _, _, hfm, hrm, hlt, hlt2, hstep⟩ := hx
  rw [hc] at hfm hrm
  obtain ⟨i, hi1, hi2⟩ := fai_circ_shape D hD seq _ _ fm hfm
  obtain ⟨j, hj1, hj2⟩ := fai_circ_shape C hC seq _ _ rm hrm
  have hlen : pairLength o seq.length D.patlen fm rm ≤ 0 := by
    unfold pairLength
    simp only [hc, Bool.true_and, if_true]
    split
    · split
      · omega
      · rename_i h1 h2
        have h2' : ¬ (rm.2.1 - fm.1 > (seq.length : Int)) := by simpa using h2
        rcases hu with hu | hu <;> omega
    · rename_i h1
      rcases hu with hu | hu <;> omega
  have hl := lengthOk_nonpos o _ hlen
  simp [pairStep, hl] at hstep

/-! ## the recycled C sequence buffer -/

/-- what `EncodeSequence` writes is the `seqData` of the matcher model -/
theorem written_eq_seqData (seq : Bytes) (circ : Bool) :
    seq.map encodeByte ++ (seq.map encodeByte).take (if circ then min seq.length Gen.apatMaxPatLen else 0) = seqData seq circ := by
  unfold seqData
  cases circ
  · simp
  · simp only [if_true]
    congr 1
    by_cases h : seq.length ≤ Gen.apatMaxPatLen
    · rw [Nat.min_eq_left h, List.take_of_length_le (by simp), List.take_of_length_le (by simpa using h)]
    · rw [Nat.min_eq_right (by omega)]

/-- the structure `new_apatseq` returns: lengths, and the first `seqlen + circular` codes of the buffer are the `seqData` of
the current template — whatever structure was recycled -/
theorem newApatSeq_valid (out : Option CSeq) (seq : Bytes) (circ : Bool) :
    (newApatSeq out seq circ).seqlen = seq.length ∧
    (newApatSeq out seq circ).seqlen + (newApatSeq out seq circ).circular = (seqData seq circ).length ∧
    ∃ tail, (newApatSeq out seq circ).data = seqData seq circ ++ tail := by
  have hw := written_eq_seqData seq circ
  refine ⟨rfl, ?_, ?_⟩
  · rw [← hw]
    simp only [newApatSeq, List.length_append, List.length_map, List.length_take]
    cases circ <;> simp only [if_true, Bool.false_eq_true, if_false] <;> omega
  · unfold newApatSeq
    simp only []
    rw [hw]
    cases out with
    | none => exact ⟨[], by simp⟩
    | some o =>
      simp only []
      split
      · exact ⟨[], by simp⟩
      · exact ⟨_, rfl⟩

/-- **the recycled buffer does not leak**: what the automata scan of the structure `new_apatseq` returns
(`data[begin .. min(begin + length, seqlen + circular))`) is what they scan of the `seqData` of the current template, for
every recycled structure `out` — so that `FindAllIndex` on a recycled `ApatSequence` is `findAllIndex` of the model, and
`_PCRSlice` a `map` over the templates -/
theorem windowC_newApatSeq (out : Option CSeq) (seq : Bytes) (circ : Bool) (b l : Nat) :
    windowC (newApatSeq out seq circ) b l = window (seqData seq circ) b l := by
  obtain ⟨_, h2, tail, h3⟩ := newApatSeq_valid out seq circ
  unfold windowC window
  rw [h2, h3]
  by_cases hb : b ≤ (seqData seq circ).length
  · rw [List.drop_append_of_le_length hb, List.take_append_of_le_length (by simp only [List.length_drop]; omega)]
  · have e : min (b + l) (seqData seq circ).length - b = 0 := by omega
    rw [e, List.take_zero, List.take_zero]

/-! ## fragments: when exactly a piece end clips a flank -/

/-- the window of a pair on the piece vs. on the template, flanks that may be clipped: each bound is the same iff the flank
fits in the piece or the end of the piece is an end of the template -/
theorem linBounds_clipped_iff (o : Opts) (hx : o.hasExtension = true) (hf : o.fullExtension = false)
    (L fa fb i dl j cl a b : Nat) (hfb : fb ≤ L) (hfa : fa ≤ fb)
    (h : linBounds o (fb - fa) i dl j cl = some (a, b)) :
    ∃ A B, linBounds o L (fa + i) dl (fa + j) cl = some (A, B) ∧ A ≤ fa + a ∧ fa + b ≤ B ∧
      (A = fa + a ↔ (o.extension.toNat ≤ i ∨ fa = 0)) ∧ (B = fa + b ↔ (fa + j + cl + o.extension.toNat ≤ fb ∨ fb = L)) := by
  unfold linBounds at h ⊢
  rw [if_pos hx, if_neg (by simp [hf])] at h ⊢
  simp only [Option.some.injEq, Prod.mk.injEq] at h
  refine ⟨_, _, rfl, by omega, by omega, by omega, by omega⟩

/-- `block_of_piece_clipped` with the exact condition: the record `y` of the piece is the record `x` of the template iff no
inner end of the piece clipped a flank -/
theorem block_of_piece_clipped_exact (isFwd : Bool) (D C : Pattern) (hD : POk D) (hC : POk C) (w wl : Int) (hwl : 0 ≤ wl)
    (o : Opts) (hc : o.circular = false) (hx : o.hasExtension = true) (hf : o.fullExtension = false)
    (seq : Bytes) (fa fb : Nat) (hfa : fa ≤ fb) (hfb : fb ≤ seq.length) (y : Amplicon)
    (hy : (.ok y : Except Bad Amplicon) ∈ block isFwd D C w wl o (seg seq fa fb)) :
    ∃ x, (.ok x : Except Bad Amplicon) ∈ block isFwd D C w wl o seq ∧
      x.hitD = shiftHit fa y.hitD ∧ x.hitC = shiftHit fa y.hitC ∧
      (x = shiftAmp fa y ↔
        ((o.extension ≤ y.hitD.1 ∨ fa = 0) ∧ (y.hitC.2.1 + o.extension + fa ≤ fb ∨ fb = seq.length))) := by
  obtain ⟨i, ki, j, kj, a, b, h1, h2, h3, h4, h5⟩ := (mem_block_linear isFwd D C hD hC w wl hwl o hc _ _).mp hy
  cases h5
  rw [seg_length seq fa fb hfb] at h4
  obtain ⟨g1, g1'⟩ := (matchAt_seg D seq fa fb i ki hfa hfb).mp h1
  obtain ⟨g2, g2'⟩ := (matchAt_seg C seq fa fb j kj hfa hfb).mp h2
  have hpos := lengthOk_pos o _ h3
  obtain ⟨A, B, hAB, hA, hB, hA', hB'⟩ := linBounds_clipped_iff o hx hf seq.length fa fb i D.patlen j C.patlen a b hfb hfa h4
  have he : 0 ≤ o.extension := by
    have : o.extension > -1 := by simpa [Opts.hasExtension] using hx
    omega
  have hwin := linBounds_window o (fb - fa) i _ j _ a b (by omega) (by omega) hC.pos h4
  have hsh := mkAmp_seg isFwd seq fa fb i ki j kj D.patlen C.patlen a b (by omega) (by omega) (by omega)
  refine ⟨mkAmp isFwd seq (fa + i) ki (fa + j) kj D.patlen C.patlen A B,
    (mem_block_linear isFwd D C hD hC w wl hwl o hc seq _).mpr ⟨fa + i, ki, fa + j, kj, A, B, g1, g2, ?_, hAB, rfl⟩, ?_, ?_, ?_⟩
  · rw [← h3]; congr 1; omega
  · cases isFwd <;> simp only [mkAmp, if_true, Bool.false_eq_true, if_false, shiftHit, Prod.mk.injEq] <;>
      exact ⟨by omega, by omega, trivial⟩
  · cases isFwd <;> simp only [mkAmp, if_true, Bool.false_eq_true, if_false, shiftHit, Prod.mk.injEq] <;>
      exact ⟨by omega, by omega, trivial⟩
  · rw [hsh]
    have hD1 : (mkAmp isFwd (seg seq fa fb) i ki j kj D.patlen C.patlen a b).hitD.1 = (i : Int) := by
      cases isFwd <;> simp [mkAmp]
    have hC1 : (mkAmp isFwd (seg seq fa fb) i ki j kj D.patlen C.patlen a b).hitC.2.1 = (j : Int) + C.patlen := by
      cases isFwd <;> simp [mkAmp]
    rw [hD1, hC1]
    have hcond : ((o.extension ≤ (i : Int) ∨ fa = 0) ∧ ((j : Int) + C.patlen + o.extension + fa ≤ fb ∨ fb = seq.length)) ↔
        (A = fa + a ∧ B = fa + b) := by
      rw [hA', hB']
      constructor
      · rintro ⟨c1, c2⟩; exact ⟨by omega, by omega⟩
      · rintro ⟨c1, c2⟩; exact ⟨by omega, by omega⟩
    rw [hcond]
    constructor
    · intro e
      have e1 := congrArg Amplicon.idFrom e
      have e2 := congrArg Amplicon.idTo e
      cases isFwd <;> simp only [mkAmp, if_true, Bool.false_eq_true, if_false] at e1 e2 <;> omega
    · rintro ⟨rfl, rfl⟩; rfl

/-! ## the options of `CLIPCR`, written out -/

/-- the window `obipcr` cuts for a pair of sites of a linear template: `--delta` absent (negative): what lies between the
sites; `--delta e`: sites + `e` symbols on each side, clipped at the ends of the template, or — with
`--only-complete-flanking` — reported only when complete -/
def cliWindow (delta : Int) (full : Bool) (L i dl j cl : Nat) : Option (Nat × Nat) :=
  if delta < 0 then some (i + dl, j)
  else if full then
    (if delta.toNat ≤ i ∧ j + cl + delta.toNat ≤ L then some (i - delta.toNat, j + cl + delta.toNat) else none)
  else some (i - delta.toNat, min (j + cl + delta.toNat) L)

theorem linBounds_cli (mn mx delta : Int) (full circ : Bool) (L i dl j cl : Nat) :
    linBounds (cliOpts mn mx delta full circ) L i dl j cl = cliWindow delta full L i dl j cl := by
  unfold linBounds cliWindow cliOpts Opts.hasExtension
  by_cases hd : delta < 0
  · have : ¬ (delta ≥ 0) := by omega
    simp [hd, this]
  · have : delta ≥ 0 := by omega
    have h2 : delta > -1 := by omega
    simp only [hd, this, if_true, if_false, h2, decide_true]

/-- the length filter of `obipcr -l mn -L mx`: at least one symbol between the sites; `-l` ≤ 0 is no lower bound; `-L 0` is no
upper bound; a negative `-L` rejects everything -/
theorem lengthOk_cli (mn mx delta : Int) (full circ : Bool) (g : Int) :
    lengthOk (cliOpts mn mx delta full circ) g = true ↔ 1 ≤ g ∧ (mn ≤ 0 ∨ mn ≤ g) ∧ (mx = 0 ∨ g ≤ mx) := by
  unfold lengthOk cliOpts
  simp only [Bool.and_eq_true, Bool.or_eq_true, decide_eq_true_eq, beq_iff_eq]
  by_cases h : mn > 0
  · simp only [h, if_true]
    constructor
    · rintro ⟨⟨h1, h2⟩, h3⟩; exact ⟨by omega, by omega, h3⟩
    · rintro ⟨h1, h2, h3⟩; exact ⟨⟨by omega, by omega⟩, h3⟩
  · simp only [h, if_false]
    constructor
    · rintro ⟨⟨h1, _⟩, h3⟩; exact ⟨by omega, by omega, h3⟩
    · rintro ⟨h1, _, h3⟩; exact ⟨⟨by omega, by simp⟩, h3⟩

end ObiVerif.Pcr
