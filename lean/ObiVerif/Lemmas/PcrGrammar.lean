import ObiVerif.Lemmas.Pcr
import ObiVerif.Lemmas.ApatComp
/-!
# Lemmas for C11: primers written in the documented pattern grammar

For every pair of primers written in the grammar `['!'] (Letter | '[' Letter+ ']') ['#']` (token lists `Tok`, C10's
`Lemmas/ApatComp.lean`) with 1..63 positions each, `OptionForwardPrimer` / `OptionReversePrimer` succeed and the four
patterns they build satisfy `PrimersOk` and `PrimersMirror` — the hypotheses of the C11 theorems (`mkPrimers_grammar`).
-/
namespace ObiVerif.Pcr
open ObiVerif ObiVerif.Apat

/-- each position takes at least one character of the pattern string -/
theorem patStr_length_ge (ts : List Tok) (hts : ∀ t ∈ ts, t.WF) : ts.length ≤ (patStr ts).length := by
  induction ts with
  | nil => simp
  | cons t ts ih =>
    rw [patStr_cons, List.length_append, List.length_cons]
    have := ih (fun u hu => hts u (List.mem_cons_of_mem _ hu))
    have hw := hts t (by simp)
    have h1 : 1 ≤ t.str.length := by
      unfold Tok.str Tok.body
      simp only [List.length_append]
      have : 1 ≤ t.letters.length := List.length_pos_iff.mpr hw.2.1
      split
      · simp only [List.length_cons, List.length_append]; omega
      · omega
    omega

/-- **`OptionForwardPrimer(fwd, ef)` + `OptionReversePrimer(rev, er)` on primers of the grammar**: no `log.Fatalf`; the four
patterns are in C10's domain, the complemented patterns carry the mirrored code lists, one position per token -/
theorem mkPrimers_grammar (tf tr : List Tok) (hf : ∀ t ∈ tf, t.WF) (hr : ∀ t ∈ tr, t.WF) (hfn : tf ≠ []) (hrn : tr ≠ [])
    (hfl : tf.length ≤ 63) (hrl : tr.length ≤ 63) (ef er : Nat) :
    ∃ P, mkPrimers (patStr tf) (patStr tr) ef er = some P ∧ PrimersOk P ∧ PrimersMirror P ∧
      P.forward.patlen = tf.length ∧ P.cfwd.patlen = tf.length ∧ P.reverse.patlen = tr.length ∧ P.crev.patlen = tr.length ∧
      P.forward.maxerr = ef ∧ P.reverse.maxerr = er := by
  obtain ⟨f1, f2⟩ := reverseComplement_pat tf hf hfn ef false
  obtain ⟨r1, r2⟩ := reverseComplement_pat tr hr hrn er false
  have hfp : 1 ≤ tf.length := List.length_pos_iff.mpr hfn
  have hrp : 1 ≤ tr.length := List.length_pos_iff.mpr hrn
  refine ⟨⟨⟨patStr tf, tf.map Tok.code, ef, false⟩, ⟨patStr (tf.reverse.map Tok.comp), (tf.reverse.map Tok.comp).map Tok.code, ef, false⟩,
    ⟨patStr tr, tr.map Tok.code, er, false⟩, ⟨patStr (tr.reverse.map Tok.comp), (tr.reverse.map Tok.comp).map Tok.code, er, false⟩⟩,
    ?_, ?_, ?_, ?_⟩
  · unfold mkPrimers
    simp only [compile_pat tf hf hfn ef false, compile_pat tr hr hrn er false, f1, r1]
  · exact ⟨⟨rfl, by simp [Pattern.patlen]; omega, by simp [Pattern.patlen]; omega⟩,
      ⟨rfl, by simp [Pattern.patlen]; omega, by simp [Pattern.patlen]; omega⟩,
      ⟨rfl, by simp [Pattern.patlen]; omega, by simp [Pattern.patlen]; omega⟩,
      ⟨rfl, by simp [Pattern.patlen]; omega, by simp [Pattern.patlen]; omega⟩⟩
  · exact ⟨⟨f2, rfl⟩, ⟨r2, rfl⟩⟩
  · simp [Pattern.patlen]

end ObiVerif.Pcr
