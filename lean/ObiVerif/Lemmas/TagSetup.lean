import ObiVerif.Model.TagSetup
set_option Elab.async false
/-!
# The set-up loops of `Model/TagSetup.lean` are `List.filter` on the records with a known taxid (C15, round 4)

Loop invariants of `tag1Loop` / `refidxLoop` (in-place compaction with `List.set`), the alignment of the parallel
arrays they leave, and the equality of the searches on separate arrays (`findClosestsVC`, `indexSequenceVC`,
`identifyTextVC`) with the searches of `Model/TagV.lean` / `Model/TagTV.lean` on the kept list.
-/
namespace ObiVerif.Tag

open ObiVerif.Kmer (Bytes)
open ObiVerif.Lcs (Err)

/-- the records with a known taxid among the first `i` -/
def keptPre (t : Tax.Taxo) (recs : List RefRec) (i : Nat) : List RefRec := (recs.take i).filter (known t)

/-- the last record of the list exists and has an unknown taxid -/
def lastDropped (t : Tax.Taxo) (l : List RefRec) : Bool := ((l.getLast?).map (fun r => !known t r)).getD false

theorem keptPre_succ (t : Tax.Taxo) (recs : List RefRec) (i : Nat) (r : RefRec) (h : recs[i]? = some r) :
    keptPre t recs (i + 1) = keptPre t recs i ++ (if known t r = true then [r] else []) := by
  unfold keptPre
  rw [List.take_add_one, List.filter_append, h]
  by_cases hk : known t r = true <;> simp [hk]

theorem keptPre_length_le (t : Tax.Taxo) (recs : List RefRec) (i : Nat) : (keptPre t recs i).length ≤ i := by
  unfold keptPre
  exact Nat.le_trans (List.length_filter_le _ _) (by simp [List.length_take]; omega)

theorem keptPre_all (t : Tax.Taxo) (recs : List RefRec) : keptPre t recs recs.length = recs.filter (known t) := by
  unfold keptPre
  rw [List.take_length]

theorem lastDropped_succ (t : Tax.Taxo) (recs : List RefRec) (i : Nat) (r : RefRec) (h : recs[i]? = some r) :
    lastDropped t (recs.take (i + 1)) = !known t r := by
  unfold lastDropped
  rw [List.take_add_one, h]
  simp

/-! ## the loop of `obitag.CLIAssignTaxonomy` -/

/-- the invariant of the loop after `i` iterations -/
structure Tag1Inv (t : Tax.Taxo) (recs : List RefRec) (i : Nat) (st : SetupState) : Prop where
  lr : st.refs.length = recs.length
  lc : st.counts.length = recs.length
  lt : st.taxa.length = recs.length
  hj : st.j = (keptPre t recs i).length
  rk : ∀ k, k < st.j → st.refs[k]? = (keptPre t recs i)[k]?
  rd : ∀ k, i ≤ k → st.refs[k]? = recs[k]?
  ck : ∀ k, k < st.j → st.counts[k]? = ((keptPre t recs i)[k]?).map (fun r => some (Kmer.count4mer r.seq))
  tk : ∀ k, k < st.j → st.taxa[k]? = ((keptPre t recs i)[k]?).map (fun r => some (Tax.resolve t r.tid))
  tr : ∀ k, st.j ≤ k → k < recs.length →
    st.taxa[k]? = some (if k = st.j ∧ lastDropped t (recs.take i) = true then some none else none)
  dj : lastDropped t (recs.take i) = true → st.j < recs.length

theorem tag1Inv_init (t : Tax.Taxo) (recs : List RefRec) : Tag1Inv t recs 0 (tag1Init recs) := by
  constructor <;> simp [tag1Init, keptPre, lastDropped]
  intro k hk
  simp [hk]

theorem tag1Step_known (t : Tax.Taxo) (st : SetupState) (i : Nat) (r : RefRec) (h : st.refs[i]? = some r)
    (hk : known t r = true) :
    tag1Step t st i =
      { refs := st.refs.set st.j r, counts := st.counts.set st.j (some (Kmer.count4mer r.seq)),
        taxa := st.taxa.set st.j (some (Tax.resolve t r.tid)), j := st.j + 1 } := by
  unfold tag1Step
  simp [h, hk]

theorem tag1Step_unknown (t : Tax.Taxo) (st : SetupState) (i : Nat) (r : RefRec) (h : st.refs[i]? = some r)
    (hk : known t r = false) :
    tag1Step t st i =
      { refs := st.refs.set st.j r, counts := st.counts.set st.j (some (Kmer.count4mer r.seq)),
        taxa := st.taxa.set st.j (some none), j := st.j } := by
  unfold tag1Step
  have hn : Tax.resolve t r.tid = none := by
    unfold known at hk
    cases hh : Tax.resolve t r.tid with
    | none => rfl
    | some x => rw [hh] at hk; simp at hk
  simp [h, hk, hn]

theorem tag1Inv_step_known (t : Tax.Taxo) (recs : List RefRec) (i : Nat) (st : SetupState) (r : RefRec)
    (h : Tag1Inv t recs i st) (hi : i < recs.length) (hr : recs[i]? = some r) (hk : known t r = true) :
    Tag1Inv t recs (i + 1)
      { refs := st.refs.set st.j r, counts := st.counts.set st.j (some (Kmer.count4mer r.seq)),
        taxa := st.taxa.set st.j (some (Tax.resolve t r.tid)), j := st.j + 1 } := by
  have hK := keptPre_succ t recs i r hr
  have hD := lastDropped_succ t recs i r hr
  have hle := keptPre_length_le t recs i
  have hj := h.hj
  simp only [hk, if_true] at hK
  constructor
  · simp [h.lr]
  · simp [h.lc]
  · simp [h.lt]
  · simp [hK, hj]
  · intro k hk'
    simp only at hk' ⊢
    rw [hK, List.getElem?_set, List.getElem?_append, h.lr]
    by_cases e : st.j = k
    · subst e
      simp [hj]
      omega
    · have : k < (keptPre t recs i).length := by omega
      simp only [e, if_false, this, if_true]
      exact h.rk k (by omega)
  · intro k hk'
    simp only at hk' ⊢
    rw [List.getElem?_set]
    have e : ¬ st.j = k := by omega
    simp only [e, if_false]
    exact h.rd k (by omega)
  · intro k hk'
    simp only at hk' ⊢
    rw [hK, List.getElem?_set, List.getElem?_append, h.lc]
    by_cases e : st.j = k
    · subst e
      simp [hj]
      omega
    · have : k < (keptPre t recs i).length := by omega
      simp only [e, if_false, this, if_true]
      exact h.ck k (by omega)
  · intro k hk'
    simp only at hk' ⊢
    rw [hK, List.getElem?_set, List.getElem?_append, h.lt]
    by_cases e : st.j = k
    · subst e
      simp [hj]
      omega
    · have : k < (keptPre t recs i).length := by omega
      simp only [e, if_false, this, if_true]
      exact h.tk k (by omega)
  · intro k hk1 hk2
    simp only at hk1 ⊢
    rw [List.getElem?_set, hD]
    have e : ¬ st.j = k := by omega
    simp only [e, if_false]
    rw [h.tr k (by omega) hk2]
    have e' : ¬ k = st.j := by omega
    simp [e', hk]
  · intro hd
    rw [hD, hk] at hd
    simp at hd

theorem tag1Inv_step_unknown (t : Tax.Taxo) (recs : List RefRec) (i : Nat) (st : SetupState) (r : RefRec)
    (h : Tag1Inv t recs i st) (hi : i < recs.length) (hr : recs[i]? = some r) (hk : known t r = false) :
    Tag1Inv t recs (i + 1)
      { refs := st.refs.set st.j r, counts := st.counts.set st.j (some (Kmer.count4mer r.seq)),
        taxa := st.taxa.set st.j (some none), j := st.j } := by
  have hK := keptPre_succ t recs i r hr
  have hD := lastDropped_succ t recs i r hr
  have hle := keptPre_length_le t recs i
  have hj := h.hj
  simp only [hk, Bool.false_eq_true, if_false, List.append_nil] at hK
  constructor
  · simp [h.lr]
  · simp [h.lc]
  · simp [h.lt]
  · simp [hK, hj]
  · intro k hk'
    simp only at hk' ⊢
    rw [hK, List.getElem?_set]
    have e : ¬ st.j = k := by omega
    simp only [e, if_false]
    exact h.rk k hk'
  · intro k hk'
    simp only at hk' ⊢
    rw [List.getElem?_set]
    have e : ¬ st.j = k := by omega
    simp only [e, if_false]
    exact h.rd k (by omega)
  · intro k hk'
    simp only at hk' ⊢
    rw [hK, List.getElem?_set]
    have e : ¬ st.j = k := by omega
    simp only [e, if_false]
    exact h.ck k hk'
  · intro k hk'
    simp only at hk' ⊢
    rw [hK, List.getElem?_set]
    have e : ¬ st.j = k := by omega
    simp only [e, if_false]
    exact h.tk k hk'
  · intro k hk1 hk2
    simp only at hk1 ⊢
    rw [List.getElem?_set, hD, h.lt]
    by_cases e : st.j = k
    · subst e
      simp [hk, hk2]
    · simp only [e, if_false]
      rw [h.tr k hk1 hk2]
      have e' : ¬ k = st.j := by omega
      simp [e']
  · intro _
    simp only
    omega

theorem tag1Inv_step (t : Tax.Taxo) (recs : List RefRec) (i : Nat) (st : SetupState)
    (h : Tag1Inv t recs i st) (hi : i < recs.length) : Tag1Inv t recs (i + 1) (tag1Step t st i) := by
  have hr : recs[i]? = some recs[i] := List.getElem?_eq_getElem hi
  have hs : st.refs[i]? = some recs[i] := by rw [h.rd i (Nat.le_refl i)]; exact hr
  cases hk : known t recs[i] with
  | true =>
    rw [tag1Step_known t st i _ hs hk]
    exact tag1Inv_step_known t recs i st _ h hi hr hk
  | false =>
    rw [tag1Step_unknown t st i _ hs hk]
    exact tag1Inv_step_unknown t recs i st _ h hi hr hk

theorem tag1Inv_prefix (t : Tax.Taxo) (recs : List RefRec) (i : Nat) (hi : i ≤ recs.length) :
    Tag1Inv t recs i ((List.range i).foldl (tag1Step t) (tag1Init recs)) := by
  induction i with
  | zero => exact tag1Inv_init t recs
  | succ i ih =>
    rw [List.range_succ, List.foldl_append]
    exact tag1Inv_step t recs i _ (ih (by omega)) (by omega)

/-- **the loop invariant at the end of the loop** -/
theorem tag1Loop_inv (t : Tax.Taxo) (recs : List RefRec) : Tag1Inv t recs recs.length (tag1Loop t recs) :=
  tag1Inv_prefix t recs recs.length (Nat.le_refl _)

/-! ## consequences -/

theorem take_eq_of_getElem? {α : Type} (l K : List α) (j : Nat) (hj : j = K.length)
    (h : ∀ k, k < j → l[k]? = K[k]?) : l.take j = K := by
  apply List.ext_getElem?
  intro k
  rw [List.getElem?_take]
  by_cases hk : k < j
  · simp only [hk, if_true]; exact h k hk
  · simp only [hk, if_false]
    exact (List.getElem?_eq_none (by omega)).symm

theorem take_eq_map_of_getElem? {α β : Type} (f : α → β) (l : List β) (K : List α) (j : Nat) (hj : j = K.length)
    (h : ∀ k, k < j → l[k]? = (K[k]?).map f) : l.take j = K.map f := by
  apply take_eq_of_getElem? l (K.map f) j (by simp [hj])
  intro k hk
  rw [h k hk, List.getElem?_map]

theorem known_resolve {t : Tax.Taxo} {r : RefRec} (h : known t r = true) :
    ∃ x, Tax.resolve t r.tid = some x := by
  unfold known at h
  exact Option.isSome_iff_exists.mp h

theorem filterMap_eq_map_of_some {α β : Type} (f : α → Option β) (g : α → β) (l : List α)
    (h : ∀ a ∈ l, f a = some (g a)) : l.filterMap f = l.map g := by
  induction l with
  | nil => rfl
  | cons a l ih =>
    rw [List.filterMap_cons, h a (List.mem_cons_self ..), List.map_cons,
      ih (fun b hb => h b (List.mem_cons_of_mem _ hb))]

/-- `references[:j]` = the records with a known taxid, in file order -/
theorem tag1Setup_refs (t : Tax.Taxo) (recs : List RefRec) : (tag1Setup t recs).refs = recs.filter (known t) := by
  have h := tag1Loop_inv t recs
  unfold tag1Setup
  simp only
  rw [← keptPre_all]
  exact take_eq_of_getElem? _ _ _ h.hj h.rk

/-- `refcounts[:j]` = the tables of 4-mers of the kept records -/
theorem tag1Setup_counts (t : Tax.Taxo) (recs : List RefRec) :
    (tag1Setup t recs).counts = (recs.filter (known t)).map (fun r => some (Kmer.count4mer r.seq)) := by
  have h := tag1Loop_inv t recs
  unfold tag1Setup
  simp only
  rw [← keptPre_all]
  exact take_eq_map_of_getElem? _ _ _ _ h.hj h.ck

theorem countFn_map (K : List RefRec) :
    countFn (K.map (fun r => some (Kmer.count4mer r.seq))) = fun i => Kmer.count4mer (refFn K i) := by
  funext i
  unfold countFn refFn
  rw [List.getElem?_map]
  cases K[i]? <;> rfl

/-- `refcounts[i] = Count4Mer(references[i])` -/
theorem tag1Setup_aligned (t : Tax.Taxo) (recs : List RefRec) :
    countFn (tag1Setup t recs).counts = fun i => Kmer.count4mer (refFn (tag1Setup t recs).refs i) := by
  rw [tag1Setup_counts, tag1Setup_refs, countFn_map]

/-- the map `taxa` after the loop: the kept records, then slots none of which holds a node; one of them holds a nil
node exactly when the last record of the file is dropped -/
theorem tag1Setup_taxa (t : Tax.Taxo) (recs : List RefRec) :
    ∃ rest, (tag1Setup t recs).taxa = (recs.filter (known t)).map (fun r => some (Tax.resolve t r.tid)) ++ rest ∧
      (∀ s ∈ rest, s.join = none) ∧ rest.any (fun s => s == some none) = lastDropped t recs := by
  have h := tag1Loop_inv t recs
  have htk := take_eq_map_of_getElem? _ _ _ _ h.hj h.tk
  rw [keptPre_all] at htk
  have htr := h.tr
  have hdj := h.dj
  rw [List.take_length] at htr hdj
  refine ⟨(tag1Loop t recs).taxa.drop (tag1Loop t recs).j, ?_, ?_, ?_⟩
  · show (tag1Loop t recs).taxa = _
    rw [← htk, List.take_append_drop]
  · intro s hs
    obtain ⟨k, hk⟩ := List.mem_iff_getElem?.mp hs
    rw [List.getElem?_drop] at hk
    have hlt : (tag1Loop t recs).j + k < recs.length := by
      rw [← h.lt]
      exact (List.getElem?_eq_some_iff.mp hk).1
    rw [htr _ (by omega) hlt] at hk
    injection hk with hk
    rw [← hk]
    split <;> rfl
  · cases hd : lastDropped t recs with
    | true =>
      rw [List.any_eq_true]
      refine ⟨some none, ?_, by simp⟩
      rw [List.mem_iff_getElem?]
      refine ⟨0, ?_⟩
      rw [List.getElem?_drop, Nat.add_zero, htr _ (Nat.le_refl _) (hdj hd)]
      simp [hd]
    | false =>
      rw [List.any_eq_false]
      intro s hs
      obtain ⟨k, hk⟩ := List.mem_iff_getElem?.mp hs
      rw [List.getElem?_drop] at hk
      have hlt : (tag1Loop t recs).j + k < recs.length := by
        rw [← h.lt]
        exact (List.getElem?_eq_some_iff.mp hk).1
      rw [htr _ (by omega) hlt] at hk
      injection hk with hk
      rw [← hk]
      simp [hd]

theorem keptMap_noNil (t : Tax.Taxo) (K : List RefRec) (hK : ∀ r ∈ K, known t r = true) :
    (K.map (fun r => some (Tax.resolve t r.tid))).any (fun s => s == some none) = false := by
  rw [List.any_eq_false]
  intro s hs
  obtain ⟨r, hr, rfl⟩ := List.mem_map.mp hs
  obtain ⟨x, hx⟩ := known_resolve (hK r hr)
  simp [hx]

theorem known_of_mem_filter {t : Tax.Taxo} {recs : List RefRec} : ∀ r ∈ recs.filter (known t), known t r = true :=
  fun _ hr => (List.mem_filter.mp hr).2

/-- a nil node is stored in the map iff the LAST record of the file is dropped -/
theorem tag1Setup_hasNil (t : Tax.Taxo) (recs : List RefRec) :
    hasNil (tag1Setup t recs).taxa = ((recs.getLast?).map (fun r => !known t r)).getD false := by
  obtain ⟨rest, h1, _, h3⟩ := tag1Setup_taxa t recs
  unfold hasNil
  rw [h1, List.any_append, keptMap_noNil t _ known_of_mem_filter, h3]
  rfl

theorem taxaIds_of_shape (t : Tax.Taxo) (K : List RefRec) (rest : List Slot) (h : ∀ s ∈ rest, s.join = none) :
    taxaIds (K.map (fun r => some (Tax.resolve t r.tid)) ++ rest) = K.filterMap (fun r => Tax.resolve t r.tid) := by
  unfold taxaIds
  rw [List.filterMap_append, List.filterMap_map, List.filterMap_eq_nil_iff.mpr h, List.append_nil]
  rfl

/-- the non-nil nodes of the map, by increasing key = the taxa of the kept records, in file order -/
theorem tag1Setup_taxaIds (t : Tax.Taxo) (recs : List RefRec) :
    taxaIds (tag1Setup t recs).taxa = (recs.filter (known t)).filterMap (fun r => Tax.resolve t r.tid) := by
  obtain ⟨rest, h1, h2, _⟩ := tag1Setup_taxa t recs
  rw [h1, taxaIds_of_shape t _ rest h2]

theorem keptIds_eq_map (t : Tax.Taxo) (K : List RefRec) (hK : ∀ r ∈ K, known t r = true) :
    K.filterMap (fun r => Tax.resolve t r.tid) = K.map (fun r => (Tax.resolve t r.tid).getD 0) := by
  apply filterMap_eq_map_of_some
  intro r hr
  obtain ⟨x, hx⟩ := known_resolve (hK r hr)
  simp [hx]

theorem keptIds_length (t : Tax.Taxo) (recs : List RefRec) :
    ((recs.filter (known t)).filterMap (fun r => Tax.resolve t r.tid)).length = (recs.filter (known t)).length := by
  rw [keptIds_eq_map t _ known_of_mem_filter, List.length_map]

theorem keptIds_getElem? (t : Tax.Taxo) (recs : List RefRec) (i : Nat) (h : i < (recs.filter (known t)).length) :
    ((recs.filter (known t)).filterMap (fun r => Tax.resolve t r.tid))[i]? =
      Tax.resolve t ((recs.filter (known t))[i]'h).tid := by
  rw [keptIds_eq_map t _ known_of_mem_filter, List.getElem?_map, List.getElem?_eq_getElem h]
  obtain ⟨x, hx⟩ := known_resolve (known_of_mem_filter _ (List.getElem_mem h))
  simp [hx]

theorem tag1Setup_taxaIds_length (t : Tax.Taxo) (recs : List RefRec) :
    (taxaIds (tag1Setup t recs).taxa).length = (recs.filter (known t)).length := by
  rw [tag1Setup_taxaIds, keptIds_length]

/-- `taxa[i]` = the taxon of `references[i]` -/
theorem tag1Setup_taxaIds_getElem? (t : Tax.Taxo) (recs : List RefRec) (i : Nat)
    (h : i < (recs.filter (known t)).length) :
    (taxaIds (tag1Setup t recs).taxa)[i]? = Tax.resolve t ((recs.filter (known t))[i]'h).tid := by
  rw [tag1Setup_taxaIds, keptIds_getElem?]

/-! ## the searches on separate arrays = the searches that recompute the tables -/

theorem findClosestsVC_aligned (v : Variant) (q : Bytes) (refs : Nat → Bytes) (o : List Nat) :
    findClosestsVC v q refs (fun i => Kmer.count4mer (refs i)) o = findClosestsV v q refs o := rfl

theorem indexSequenceVC_aligned (t : Tax.Taxo) (fuel : Nat) (taxids : List Nat) (s : Nat) (refs : Nat → Bytes)
    (ow : List Nat) :
    indexSequenceVC t fuel taxids s refs (fun i => Kmer.count4mer (refs i)) ow =
      indexSequenceV t fuel taxids s refs ow := rfl

/-! ## the worker of `obitag.CLIAssignTaxonomy` -/

theorem indexSequenceVT_noNil (t : Tax.Taxo) (fuel : Nat) (taxa : List Slot) (b : Nat) (refs : Nat → Bytes)
    (ow : List Nat) (h : hasNil taxa = false) :
    indexSequenceVT t fuel taxa b refs (fun i => Kmer.count4mer (refs i)) ow =
      indexSequenceV t fuel (taxaIds taxa) b refs ow := by
  unfold indexSequenceVT
  rw [h, indexSequenceVC_aligned]
  rfl

theorem indexSequenceVT_nil (t : Tax.Taxo) (fuel : Nat) (taxa : List Slot) (b : Nat) (refs : Nat → Bytes)
    (counts : Nat → Array Nat) (ow : List Nat) (h : hasNil taxa = true) :
    indexSequenceVT t fuel taxa b refs counts ow = .ok (.error .panic) := by
  unfold indexSequenceVT
  rw [h]
  rfl

/-- **when the last record of the file has a known taxid, the worker of `CLIAssignTaxonomy` is `Identify` on exactly
the records with a known taxid, in file order** -/
theorem cliAssign1_eq (t : Tax.Taxo) (fuel : Nat) (nm rk : Nat → Text) (recs : List RefRec) (q : Bytes)
    (o : List Nat) (ows : Nat → List Nat)
    (hlast : ((recs.getLast?).map (fun r => !known t r)).getD false = false) :
    cliAssign1 t fuel nm rk recs q o ows =
      identifyTextV t fuel .tag1 nm rk q (refFn (recs.filter (known t)))
        ((recs.filter (known t)).filterMap (fun r => Tax.resolve t r.tid)) o ows := by
  have hn : hasNil (tag1Setup t recs).taxa = false := by rw [tag1Setup_hasNil, hlast]
  unfold cliAssign1 identifyTextVC identifyTextV
  simp only
  rw [tag1Setup_aligned, tag1Setup_refs, findClosestsVC_aligned]
  have hix : ∀ b, indexSequenceVT t fuel (tag1Setup t recs).taxa b (refFn (recs.filter (known t)))
      (fun i => Kmer.count4mer (refFn (recs.filter (known t)) i)) (ows b) =
      indexSequenceV t fuel ((recs.filter (known t)).filterMap (fun r => Tax.resolve t r.tid)) b
        (refFn (recs.filter (known t))) (ows b) := by
    intro b
    rw [indexSequenceVT_noNil _ _ _ _ _ _ hn, tag1Setup_taxaIds]
  simp only [hix]
  rfl

/-- **when the last record of the file has an unknown taxid, every call of `IndexSequence` ends in `log.Panicf`** -/
theorem cliAssign1_trailing (t : Tax.Taxo) (fuel : Nat) (nm rk : Nat → Text) (recs : List RefRec) (q : Bytes)
    (o : List Nat) (ows : Nat → List Nat)
    (hlast : ((recs.getLast?).map (fun r => !known t r)).getD false = true) :
    cliAssign1 t fuel nm rk recs q o ows =
      (match findClosestsV .tag1 q (refFn (recs.filter (known t))) o with
        | .error _ => .bad .panic
        | .ok fc => identifyText t fuel fc (fun _ => .error .panic)) := by
  have hn : hasNil (tag1Setup t recs).taxa = true := by rw [tag1Setup_hasNil, hlast]
  unfold cliAssign1 identifyTextVC
  simp only
  rw [tag1Setup_aligned, tag1Setup_refs, findClosestsVC_aligned]
  have hix : ∀ b, indexSequenceVT t fuel (tag1Setup t recs).taxa b (refFn (recs.filter (known t)))
      (fun i => Kmer.count4mer (refFn (recs.filter (known t)) i)) (ows b) = .ok (.error .panic) :=
    fun b => indexSequenceVT_nil _ _ _ _ _ _ _ hn
  simp only [hix]
  rfl

/-! ## the loop of `obirefidx.IndexReferenceDB` -/

structure RefIdxInv (t : Tax.Taxo) (recs : List RefRec) (i : Nat) (st : RefIdxState) : Prop where
  lr : st.refs.length = recs.length
  lt : st.taxa.length = recs.length
  hj : st.j = (keptPre t recs i).length
  rk : ∀ k, k < st.j → st.refs[k]? = (keptPre t recs i)[k]?
  rd : ∀ k, i ≤ k → st.refs[k]? = recs[k]?
  tk : ∀ k, k < st.j → st.taxa[k]? = ((keptPre t recs i)[k]?).map (fun r => some (Tax.resolve t r.tid))
  tr : ∀ k, st.j ≤ k → k < recs.length → st.taxa[k]? = some none

theorem refidxInv_init (t : Tax.Taxo) (recs : List RefRec) :
    RefIdxInv t recs 0 { refs := recs, taxa := recs.map fun _ => none, j := 0 } := by
  constructor <;> simp [keptPre]
  intro k hk
  simp [hk]

theorem refidxStep_known (t : Tax.Taxo) (st : RefIdxState) (i : Nat) (r : RefRec) (h : st.refs[i]? = some r)
    (hk : known t r = true) :
    refidxStep t st i =
      { refs := st.refs.set st.j r, taxa := st.taxa.set st.j (some (Tax.resolve t r.tid)), j := st.j + 1 } := by
  obtain ⟨x, hx⟩ := known_resolve hk
  unfold refidxStep
  simp [h, hx]

theorem refidxStep_unknown (t : Tax.Taxo) (st : RefIdxState) (i : Nat) (r : RefRec) (h : st.refs[i]? = some r)
    (hk : known t r = false) : refidxStep t st i = st := by
  have hn : Tax.resolve t r.tid = none := by
    unfold known at hk
    cases hh : Tax.resolve t r.tid with
    | none => rfl
    | some x => rw [hh] at hk; simp at hk
  unfold refidxStep
  simp [h, hn]

theorem refidxInv_step_known (t : Tax.Taxo) (recs : List RefRec) (i : Nat) (st : RefIdxState) (r : RefRec)
    (h : RefIdxInv t recs i st) (hi : i < recs.length) (hr : recs[i]? = some r) (hk : known t r = true) :
    RefIdxInv t recs (i + 1)
      { refs := st.refs.set st.j r, taxa := st.taxa.set st.j (some (Tax.resolve t r.tid)), j := st.j + 1 } := by
  have hK := keptPre_succ t recs i r hr
  have hle := keptPre_length_le t recs i
  have hj := h.hj
  simp only [hk, if_true] at hK
  constructor
  · simp [h.lr]
  · simp [h.lt]
  · simp [hK, hj]
  · intro k hk'
    simp only at hk' ⊢
    rw [hK, List.getElem?_set, List.getElem?_append, h.lr]
    by_cases e : st.j = k
    · subst e
      simp [hj]
      omega
    · have : k < (keptPre t recs i).length := by omega
      simp only [e, if_false, this, if_true]
      exact h.rk k (by omega)
  · intro k hk'
    simp only at hk' ⊢
    rw [List.getElem?_set]
    have e : ¬ st.j = k := by omega
    simp only [e, if_false]
    exact h.rd k (by omega)
  · intro k hk'
    simp only at hk' ⊢
    rw [hK, List.getElem?_set, List.getElem?_append, h.lt]
    by_cases e : st.j = k
    · subst e
      simp [hj]
      omega
    · have : k < (keptPre t recs i).length := by omega
      simp only [e, if_false, this, if_true]
      exact h.tk k (by omega)
  · intro k hk1 hk2
    simp only at hk1 ⊢
    rw [List.getElem?_set]
    have e : ¬ st.j = k := by omega
    simp only [e, if_false]
    exact h.tr k (by omega) hk2

theorem refidxInv_step_unknown (t : Tax.Taxo) (recs : List RefRec) (i : Nat) (st : RefIdxState) (r : RefRec)
    (h : RefIdxInv t recs i st) (hr : recs[i]? = some r) (hk : known t r = false) :
    RefIdxInv t recs (i + 1) st := by
  have hK := keptPre_succ t recs i r hr
  simp only [hk, Bool.false_eq_true, if_false, List.append_nil] at hK
  constructor
  · exact h.lr
  · exact h.lt
  · rw [hK]; exact h.hj
  · rw [hK]; exact h.rk
  · exact fun k hk' => h.rd k (by omega)
  · rw [hK]; exact h.tk
  · exact h.tr

theorem refidxInv_step (t : Tax.Taxo) (recs : List RefRec) (i : Nat) (st : RefIdxState)
    (h : RefIdxInv t recs i st) (hi : i < recs.length) : RefIdxInv t recs (i + 1) (refidxStep t st i) := by
  have hr : recs[i]? = some recs[i] := List.getElem?_eq_getElem hi
  have hs : st.refs[i]? = some recs[i] := by rw [h.rd i (Nat.le_refl i)]; exact hr
  cases hk : known t recs[i] with
  | true =>
    rw [refidxStep_known t st i _ hs hk]
    exact refidxInv_step_known t recs i st _ h hi hr hk
  | false =>
    rw [refidxStep_unknown t st i _ hs hk]
    exact refidxInv_step_unknown t recs i st _ h hr hk

theorem refidxInv_prefix (t : Tax.Taxo) (recs : List RefRec) (i : Nat) (hi : i ≤ recs.length) :
    RefIdxInv t recs i
      ((List.range i).foldl (refidxStep t) { refs := recs, taxa := recs.map fun _ => none, j := 0 }) := by
  induction i with
  | zero => exact refidxInv_init t recs
  | succ i ih =>
    rw [List.range_succ, List.foldl_append]
    exact refidxInv_step t recs i _ (ih (by omega)) (by omega)

theorem refidxLoop_inv (t : Tax.Taxo) (recs : List RefRec) : RefIdxInv t recs recs.length (refidxLoop t recs) :=
  refidxInv_prefix t recs recs.length (Nat.le_refl _)

/-- `references[0:j]` = the records with a known taxid, in file order -/
theorem refidxSetup_refs (t : Tax.Taxo) (recs : List RefRec) : (refidxSetup t recs).refs = recs.filter (known t) := by
  have h := refidxLoop_inv t recs
  unfold refidxSetup
  simp only
  rw [← keptPre_all]
  exact take_eq_of_getElem? _ _ _ h.hj h.rk

theorem refidxSetup_counts (t : Tax.Taxo) (recs : List RefRec) :
    (refidxSetup t recs).counts = (recs.filter (known t)).map (fun r => some (Kmer.count4mer r.seq)) := by
  have h := refidxSetup_refs t recs
  unfold refidxSetup at h ⊢
  simp only at h ⊢
  rw [h]

theorem refidxSetup_aligned (t : Tax.Taxo) (recs : List RefRec) :
    countFn (refidxSetup t recs).counts = fun i => Kmer.count4mer (refFn (refidxSetup t recs).refs i) := by
  rw [refidxSetup_counts, refidxSetup_refs, countFn_map]

theorem refidxSetup_taxa (t : Tax.Taxo) (recs : List RefRec) :
    ∃ rest, (refidxSetup t recs).taxa = (recs.filter (known t)).map (fun r => some (Tax.resolve t r.tid)) ++ rest ∧
      ∀ s ∈ rest, s = none := by
  have h := refidxLoop_inv t recs
  have htk := take_eq_map_of_getElem? _ _ _ _ h.hj h.tk
  rw [keptPre_all] at htk
  refine ⟨(refidxLoop t recs).taxa.drop (refidxLoop t recs).j, ?_, ?_⟩
  · show (refidxLoop t recs).taxa = _
    rw [← htk, List.take_append_drop]
  · intro s hs
    obtain ⟨k, hk⟩ := List.mem_iff_getElem?.mp hs
    rw [List.getElem?_drop] at hk
    have hlt : (refidxLoop t recs).j + k < recs.length := by
      rw [← h.lt]
      exact (List.getElem?_eq_some_iff.mp hk).1
    rw [h.tr _ (by omega) hlt] at hk
    injection hk with hk
    exact hk.symm

/-- no key of the map of `IndexReferenceDB` holds a nil node -/
theorem refidxSetup_hasNil (t : Tax.Taxo) (recs : List RefRec) : hasNil (refidxSetup t recs).taxa = false := by
  obtain ⟨rest, h1, h2⟩ := refidxSetup_taxa t recs
  unfold hasNil
  rw [h1, List.any_append, keptMap_noNil t _ known_of_mem_filter, Bool.false_or, List.any_eq_false]
  intro s hs
  rw [h2 s hs]
  simp

theorem refidxSetup_taxaIds (t : Tax.Taxo) (recs : List RefRec) :
    taxaIds (refidxSetup t recs).taxa = (recs.filter (known t)).filterMap (fun r => Tax.resolve t r.tid) := by
  obtain ⟨rest, h1, h2⟩ := refidxSetup_taxa t recs
  rw [h1, taxaIds_of_shape t _ rest (fun s hs => by rw [h2 s hs]; rfl)]

theorem refidxSetup_taxaIds_getElem? (t : Tax.Taxo) (recs : List RefRec) (i : Nat)
    (h : i < (recs.filter (known t)).length) :
    (taxaIds (refidxSetup t recs).taxa)[i]? = Tax.resolve t ((recs.filter (known t))[i]'h).tid := by
  rw [refidxSetup_taxaIds, keptIds_getElem?]

/-- **the index `IndexReferenceDB` writes on kept reference `b` is `IndexSequence` on exactly the records with a known
taxid, in file order** -/
theorem refidxIndex_eq (t : Tax.Taxo) (fuel : Nat) (recs : List RefRec) (b : Nat) (ow : List Nat) :
    refidxIndex t fuel recs b ow =
      indexSequenceV t fuel ((recs.filter (known t)).filterMap (fun r => Tax.resolve t r.tid)) b
        (refFn (recs.filter (known t))) ow := by
  unfold refidxIndex
  simp only
  rw [refidxSetup_aligned, refidxSetup_refs, indexSequenceVT_noNil _ _ _ _ _ _ (refidxSetup_hasNil t recs),
    refidxSetup_taxaIds]

/-! ## a trailing record with an unknown taxid -/

theorem findClosestsV_ok_ne_nil {v : Variant} {q : Bytes} {refs : Nat → Bytes} {o : List Nat} {e : Nat}
    {bid : Nat × Nat} {bm : Nat} {idxs : List Nat} (h : findClosestsV v q refs o = .ok (.ok e bid bm idxs)) :
    idxs ≠ [] := by
  unfold findClosestsV at h
  cases o with
  | nil => simp at h
  | cons o0 os =>
    simp only at h
    split at h
    · simp at h
    · rename_i st _ _
      split at h
      · rename_i e' x xs hm hb
        injection h with h
        injection h with _ _ _ h4
        rw [← h4, hb]
        simp
      · simp at h

theorem identifyText_index_panics (t : Tax.Taxo) (fuel : Nat) (e : Nat) (bid : Nat × Nat) (bm : Nat) (idxs : List Nat)
    (hne : idxs ≠ []) (hid : bid.2 ≠ 0 ∧ 2 * bid.1 ≥ bid.2) :
    identifyText t fuel (.ok e bid bm idxs) (fun _ => .error .panic) = .bad .panic := by
  cases idxs with
  | nil => exact absurd rfl hne
  | cons b bs =>
    unfold identifyText identifyG
    simp only
    rw [if_pos hid]
    unfold selectAllG
    rfl

/-! ## `obirefidx.MakeIndexingSliceWorker` -/

theorem sliceWorker_go_ok (t : Tax.Taxo) (kmers : List (Array Nat)) :
    ∀ (seqs : List RefRec) (ids : List (Option Nat)) (cs : List (Option (Array Nat))) (ts : List Slot),
      sliceWorkerSetup.go t kmers seqs ids = .ok (cs, ts) →
      (∀ (i : Nat) (r : RefRec), seqs[i]? = some r →
        ∃ j : Nat, ids[i]? = some (some j) ∧ kmers[j]? = some (Kmer.count4mer r.seq)) →
      cs = seqs.map (fun r => some (Kmer.count4mer r.seq)) := by
  intro seqs
  induction seqs with
  | nil =>
    intro ids cs ts h _
    unfold sliceWorkerSetup.go at h
    injection h with h
    injection h with h1 _
    rw [← h1]; rfl
  | cons r rs ih =>
    intro ids cs ts h hal
    obtain ⟨j, hj1, hj2⟩ := hal 0 r (by simp)
    cases ids with
    | nil => simp at hj1
    | cons x js =>
      have hx : x = some j := by simpa using hj1
      subst hx
      unfold sliceWorkerSetup.go at h
      rw [hj2] at h
      simp only at h
      cases hg : sliceWorkerSetup.go t kmers rs js with
      | error e => rw [hg] at h; simp at h
      | ok p =>
        obtain ⟨cs', ts'⟩ := p
        rw [hg] at h
        simp only at h
        injection h with h
        injection h with h1 _
        have := ih js cs' ts' hg (fun i r' hi => hal (i + 1) r' hi)
        rw [← h1, this]
        rfl

/-- **`kmercounts[i]` fetched through the id slot = `Count4Mer(sequences[i])`**, provided the id slot of every
sequence of the slice points at ITS table in `*kmers` -/
theorem sliceWorker_aligned (t : Tax.Taxo) (kmers : List (Array Nat)) (seqs : List RefRec) (ids : List (Option Nat))
    (out : SetupOut) (h : sliceWorkerSetup t kmers seqs ids = .ok out)
    (hal : ∀ (i : Nat) (r : RefRec), seqs[i]? = some r →
      ∃ j : Nat, ids[i]? = some (some j) ∧ kmers[j]? = some (Kmer.count4mer r.seq)) :
    out.refs = seqs ∧ countFn out.counts = fun i => Kmer.count4mer (refFn seqs i) := by
  unfold sliceWorkerSetup at h
  cases hg : sliceWorkerSetup.go t kmers seqs ids with
  | error e => rw [hg] at h; simp at h
  | ok p =>
    obtain ⟨cs, ts⟩ := p
    rw [hg] at h
    simp only at h
    injection h with h
    rw [← h]
    refine ⟨rfl, ?_⟩
    show countFn cs = _
    rw [sliceWorker_go_ok t kmers seqs ids cs ts hg hal, countFn_map]

theorem sliceWorker_go_err (t : Tax.Taxo) (kmers : List (Array Nat)) :
    ∀ (seqs : List RefRec) (ids : List (Option Nat)), ids.length = seqs.length →
      (∃ i : Nat, i < seqs.length ∧ ids[i]? = some none) →
      (∀ (k j : Nat), ids[k]? = some (some j) → j < kmers.length) →
      sliceWorkerSetup.go t kmers seqs ids = .error .err := by
  intro seqs
  induction seqs with
  | nil =>
    intro ids _ h _
    obtain ⟨i, hi, _⟩ := h
    simp at hi
  | cons r rs ih =>
    intro ids hl hex hb
    cases ids with
    | nil => simp at hl
    | cons x js =>
      cases x with
      | none => unfold sliceWorkerSetup.go; rfl
      | some j =>
        have hj : j < kmers.length := hb 0 j rfl
        obtain ⟨i, hi, hin⟩ := hex
        cases i with
        | zero => simp at hin
        | succ i =>
          have hrec := ih js (by simpa using hl) ⟨i, by simpa using hi, by simpa using hin⟩
            (fun k j' hk => hb (k + 1) j' (by simpa using hk))
          unfold sliceWorkerSetup.go
          rw [List.getElem?_eq_getElem hj]
          simp only
          rw [hrec]

/-- a sequence of the slice without the id slot: the worker returns an error (no panic, nothing indexed) -/
theorem sliceWorker_err (t : Tax.Taxo) (kmers : List (Array Nat)) (seqs : List RefRec) (ids : List (Option Nat))
    (hl : ids.length = seqs.length) (hex : ∃ i : Nat, i < seqs.length ∧ ids[i]? = some none)
    (hb : ∀ (k j : Nat), ids[k]? = some (some j) → j < kmers.length) :
    sliceWorkerSetup t kmers seqs ids = .error .err := by
  unfold sliceWorkerSetup
  rw [sliceWorker_go_err t kmers seqs ids hl hex hb]

/-! ## test data of `Props/C15S.lean` -/

/-- (test data) taxonomy `4,5 → 2 → 1`, `3 → 1` -/
def suT : Tax.Taxo :=
  { ids := [1, 2, 3, 4, 5],
    node := fun k => match k with
      | 1 => some ⟨1, ""⟩ | 2 => some ⟨1, ""⟩ | 3 => some ⟨1, ""⟩ | 4 => some ⟨2, ""⟩ | 5 => some ⟨2, ""⟩ | _ => none,
    alias := fun _ => none }
/-- (test data) `acgtac`, taxon 4 -/
def suA : RefRec := ⟨[97,99,103,116,97,99], some 4⟩
/-- (test data) `acgtag`, taxon 3 -/
def suC : RefRec := ⟨[97,99,103,116,97,103], some 3⟩
/-- (test data) `acgttt`, unknown taxid 9 -/
def suU : RefRec := ⟨[97,99,103,116,116,116], some 9⟩
/-- (test data) `gggttt`, unknown taxid 9 -/
def suW : RefRec := ⟨[103,103,103,116,116,116], some 9⟩

end ObiVerif.Tag
