import ObiVerif.Lemmas.LcsEgfSound
import ObiVerif.Lemmas.LcsBand
/-!
# C09, endgapfree = true: OPTIMALITY of the banded matrix `bandEGF` (the half of exactness missing so far)

`EIn lo hi A B i j s l` : a path of the matrix from some cell `(0, j0)` of row 0 (the free overhang `A.take j0`) to the
cell `(i, j)`, with score `s` and `l` counted columns (a horizontal move in the last row `i = |B|` costs nothing), all
of whose points lie strictly inside the band `lo < j - i < hi`.

* `cellME_lb`     : every cell of the banded matrix is, as a packed word, at least every such in-band path (lower-bound
                    invariant, carried over the cells together with the soundness invariant `GoodE`);
* `EgfAli.toEIn`  : an end-gap-free alignment `(s, l)` with `|B| ≤ s + e` (in particular one with `l - s ≤ e`) is such a
                    path to the last cell, for the band of `FastLCSEGFScoreByte` (`extra = e + 1`);
* `bandEGFAB_exact`, `bandEGF_exact`, `bandEGF_within_is_opt`, `bandEGF_beyond`, `bandEGF_unbounded`.
-/
namespace ObiVerif.Lcs

variable (m : UInt8 → UInt8 → Bool)

def inb (lo hi : Int) (i j : Nat) : Prop := lo < (j : Int) - (i : Int) ∧ (j : Int) - (i : Int) < hi

inductive EIn (lo hi : Int) (A B : Seq) : Nat → Nat → Nat → Nat → Prop where
  | start (j : Nat) : j ≤ A.length → inb lo hi 0 j → EIn lo hi A B 0 j 0 0
  | pair {i j s l : Nat} : EIn lo hi A B i j s l → i < B.length → j < A.length → inb lo hi (i + 1) (j + 1) →
      EIn lo hi A B (i + 1) (j + 1) (s + (if m (A.getD j 0) (B.getD i 0) then 1 else 0)) (l + 1)
  | up {i j s l : Nat} : EIn lo hi A B i j s l → i < B.length → inb lo hi (i + 1) j →
      EIn lo hi A B (i + 1) j s (l + 1)
  | left {i j s l : Nat} : EIn lo hi A B i j s l → j < A.length → inb lo hi i (j + 1) →
      EIn lo hi A B i (j + 1) s (if i < B.length then l + 1 else l)

theorem EIn.bounds {lo hi : Int} {A B : Seq} {i j s l : Nat} (h : EIn m lo hi A B i j s l) :
    i ≤ B.length ∧ j ≤ A.length ∧ s ≤ i ∧ s ≤ j ∧ i ≤ l ∧ l ≤ i + j := by
  induction h with
  | start j hj _ => omega
  | pair _ hi' hj _ ih => split <;> omega
  | up _ hi' _ ih => omega
  | left _ hj _ ih => split <;> omega

theorem EIn.inband {lo hi : Int} {A B : Seq} {i j s l : Nat} (h : EIn m lo hi A B i j s l) : inb lo hi i j := by
  cases h with
  | start _ _ p => exact p
  | pair _ _ _ p => exact p
  | up _ _ p => exact p
  | left _ _ p => exact p

/-- the lower-bound invariant -/
def LBE (lo hi : Int) (A B : Seq) (i j : Nat) (v : UInt64) : Prop :=
  ∀ s l, EIn m lo hi A B i j s l → encodeValues s l false ≤ v

/-- a sound cell that is above an in-band word is itself in-band, realised, and lexicographically at least it -/
theorem goodE_ge_in {A B : Seq} {i j : Nat} {v : UInt64} {s l : Nat} (hi : i ≤ B.length) (hj : j ≤ A.length)
    (hn : i + j ≤ 30000) (hg : GoodE m A B i j v) (hs : s ≤ i + j) (hl : l ≤ i + j)
    (h : encodeValues s l false ≤ v) :
    ∃ s0 l0, v = encodeValues s0 l0 false ∧ EPre m A B i j s0 l0 ∧ s0 ≤ i + j ∧ l0 ≤ i + j ∧
      (s < s0 ∨ (s = s0 ∧ l0 ≤ l)) := by
  rcases hg with ⟨s0, l0, rfl, hs0, hl0⟩ | ⟨s0, l0, rfl, ha0⟩
  · exfalso
    have hlt := encode_out_lt_in s0 l0 s l (by omega) (by omega) (by omega) (by omega)
    rw [UInt64.le_iff_toNat_le] at h
    rw [UInt64.lt_iff_toNat_lt] at hlt
    omega
  · have hb0 := ha0.bounds m hi hj
    refine ⟨s0, l0, rfl, ha0, by omega, by omega, ?_⟩
    rw [encode_le_iff s l s0 l0 false (by omega) (by omega) (by omega) (by omega)] at h
    exact h

/-- packed-word arithmetic of one step, on in-band words within the field widths -/
theorem enc_step_le {s l s0 l0 : Nat} (hs : s < 65535) (hs0 : s0 < 65535) (hl : l + 1 ≤ 65534) (hl0 : l0 + 1 ≤ 65534)
    (hc : s < s0 ∨ (s = s0 ∧ l0 ≤ l)) :
    encodeValues s (l + 1) false ≤ incpath (encodeValues s0 l0 false) := by
  rw [incpath_encode s0 l0 false (by omega) hl0,
    encode_le_iff s (l + 1) s0 (l0 + 1) false (by omega) (by omega) (by omega) (by omega)]
  omega

theorem enc_diag_le {s l s0 l0 : Nat} (c : Bool) (hs : s + 1 < 65536) (hs0 : s0 + 1 < 65536) (hl : l + 1 ≤ 65534)
    (hl0 : l0 + 1 ≤ 65534) (hc : s < s0 ∨ (s = s0 ∧ l0 ≤ l)) :
    encodeValues (s + (if c then 1 else 0)) (l + 1) false ≤
      (if c then incscore (incpath (encodeValues s0 l0 false)) else incpath (encodeValues s0 l0 false)) := by
  rw [incpath_encode s0 l0 false (by omega) hl0]
  cases c with
  | true =>
    simp only [if_true]
    rw [incscore_encode s0 (l0 + 1) false (by omega) (by omega),
      encode_le_iff (s + 1) (l + 1) (s0 + 1) (l0 + 1) false (by omega) (by omega) (by omega) (by omega)]
    omega
  | false =>
    simp only [Bool.false_eq_true, if_false]
    rw [encode_le_iff (s + 0) (l + 1) s0 (l0 + 1) false (by omega) (by omega) (by omega) (by omega)]
    omega

/-- interior cell: the lower bound is inherited from the three neighbours -/
theorem bandCellE_lb (lo hi : Int) (A B : Seq) (i j : Nat) (hi' : i < B.length) (hj : j < A.length)
    (hn : i + j + 2 ≤ 30000) {diag up left : UInt64}
    (gd : GoodE samenuc A B i j diag) (gu : GoodE samenuc A B i (j + 1) up) (gl : GoodE samenuc A B (i + 1) j left)
    (ld : LBE samenuc lo hi A B i j diag) (lu : LBE samenuc lo hi A B i (j + 1) up)
    (ll : LBE samenuc lo hi A B (i + 1) j left) :
    LBE samenuc lo hi A B (i + 1) (j + 1)
      (bandCellE lo hi B.length (i + 1) (j + 1) (samenuc (A.getD j 0) (B.getD i 0)) diag up left) := by
  intro s l h
  have hin := h.inband samenuc
  unfold inb at hin
  have hi0 : ¬ i + 1 = 0 := by omega
  have hj0 : ¬ j + 1 = 0 := by omega
  have hedge : ¬ (((j + 1 : Nat) : Int) - ((i + 1 : Nat) : Int) = lo ∨
      ((j + 1 : Nat) : Int) - ((i + 1 : Nat) : Int) = hi) := by omega
  unfold bandCellE
  simp only [if_neg hi0, if_neg hj0, if_neg hedge, if_pos hin.1, if_pos hin.2]
  have pg := pick_ge (if samenuc (A.getD j 0) (B.getD i 0) then incscore (incpath diag) else incpath diag)
    (incpath up) (if i + 1 < B.length then incpath left else left)
  cases h with
  | @pair _ _ s' l' h' _ _ _ =>
    have hb := h'.bounds samenuc
    obtain ⟨s0, l0, rfl, _, hs0, hl0, hc⟩ :=
      goodE_ge_in samenuc (by omega) (by omega) (by omega) gd (by omega) (by omega) (ld _ _ h')
    exact UInt64.le_trans (enc_diag_le _ (by omega) (by omega) (by omega) (by omega) hc) pg.1
  | @up _ _ _ l' h' _ _ =>
    have hb := h'.bounds samenuc
    obtain ⟨s0, l0, rfl, _, hs0, hl0, hc⟩ :=
      goodE_ge_in samenuc (by omega) (by omega) (by omega) gu (by omega) (by omega) (lu _ _ h')
    exact UInt64.le_trans (enc_step_le (by omega) (by omega) (by omega) (by omega) hc) pg.2.1
  | @left _ _ _ l' h' _ _ =>
    have hb := h'.bounds samenuc
    obtain ⟨s0, l0, rfl, _, hs0, hl0, hc⟩ :=
      goodE_ge_in samenuc (by omega) (by omega) (by omega) gl (by omega) (by omega) (ll _ _ h')
    refine UInt64.le_trans ?_ pg.2.2
    by_cases c : i + 1 < B.length
    · rw [if_pos c, if_pos c]
      exact enc_step_le (by omega) (by omega) (by omega) (by omega) hc
    · rw [if_neg c, if_neg c]
      rw [encode_le_iff s l' s0 l0 false (by omega) (by omega) (by omega) (by omega)]
      exact hc

/-- every cell of the banded matrix (endgapfree = true) is above every in-band path that reaches it -/
theorem cellME_lb (lo hi : Int) (A B : Seq) (hn : A.length + B.length + 1 ≤ 30000) :
    ∀ i, i ≤ B.length → ∀ j, j ≤ A.length → LBE samenuc lo hi A B i j (cellME lo hi A B i j) := by
  intro i
  induction i with
  | zero =>
    intro _ j hj s l h
    have hin := h.inband samenuc
    have hb := h.bounds samenuc
    unfold inb at hin
    rw [cellME_row0 _ _ _ _ _ hj]
    have hedge : ¬ (((j : Nat) : Int) - ((0 : Nat) : Int) = lo ∨ ((j : Nat) : Int) - ((0 : Nat) : Int) = hi) := by omega
    unfold bandCellE
    simp only [if_true, if_neg hedge]
    rw [pick_row0 0 (by omega), encode_le_iff s l 0 0 false (by omega) (by omega) (by omega) (by omega)]
    omega
  | succ i ih =>
    intro hiB j
    induction j with
    | zero =>
      intro _ s l h
      have hin := h.inband samenuc
      have hb := h.bounds samenuc
      unfold inb at hin
      rw [cellME_col0]
      have hedge : ¬ (((0 : Nat) : Int) - ((i + 1 : Nat) : Int) = lo ∨ ((0 : Nat) : Int) - ((i + 1 : Nat) : Int) = hi) := by
        omega
      unfold bandCellE
      simp only [if_neg (Nat.succ_ne_zero i), if_true, if_neg hedge]
      rw [pick_col0 (i + 1) (by omega),
        encode_le_iff s l 0 (i + 1) false (by omega) (by omega) (by omega) (by omega)]
      omega
    | succ j ihj =>
      intro hj
      rw [cellME_succ _ _ _ _ _ _ (by omega)]
      exact bandCellE_lb lo hi A B i j (by omega) (by omega) (by omega)
        (cellME_good lo hi A B hn i (by omega) j (by omega))
        (cellME_good lo hi A B hn i (by omega) (j + 1) hj)
        (cellME_good lo hi A B hn (i + 1) hiB j (by omega))
        (ih (by omega) j (by omega)) (ih (by omega) (j + 1) hj) (ihj (by omega))

/-! ## an end-gap-free alignment is an in-band path -/

theorem drop_eq_cons {l : Seq} {j : Nat} {x : UInt8} {r : Seq} (h : l.drop j = x :: r) :
    j < l.length ∧ l.getD j 0 = x ∧ l.drop (j + 1) = r := by
  have hlt : j < l.length := by
    rcases Nat.lt_or_ge j l.length with h' | h'
    · exact h'
    · rw [List.drop_of_length_le h'] at h; cases h
  have := List.getElem_cons_drop hlt
  rw [h] at this
  simp only [List.cons.injEq] at this
  exact ⟨hlt, by simp [List.getD, List.getElem?_eq_getElem hlt, this.1], this.2⟩

/-- follow an alignment of `x` (the next symbols of `A`) with `y` (all that is left of `B`) from the cell `(i, j)` -/
theorem EIn.extend {lo hi : Int} {A B : Seq} {x y : Seq} {s l : Nat} (ha : Ali m x y s l) :
    ∀ (i j s0 l0 : Nat) (rest : Seq), EIn m lo hi A B i j s0 l0 → A.drop j = x ++ rest → B.drop i = y →
      lo < ((j : Int) - (i : Int)) - ((l : Int) - (x.length : Int)) →
      ((j : Int) - (i : Int)) + ((l : Int) - (y.length : Int)) < hi →
      ∃ l', l' ≤ l0 + l ∧ EIn m lo hi A B B.length (j + x.length) (s0 + s) l' := by
  induction ha with
  | nil =>
    intro i j s0 l0 rest h hA hB _ _
    have hb := h.bounds m
    have : B.length ≤ i := by simpa using hB
    have e : i = B.length := by omega
    subst e
    exact ⟨l0, by omega, by simpa using h⟩
  | @gapB c a b s l h' ih =>
    intro i j s0 l0 rest h hA hB h1 h2
    have hb := h'.bounds m
    obtain ⟨hj, _, hd⟩ := drop_eq_cons (by simpa using hA : A.drop j = c :: (a ++ rest))
    simp only [List.length_cons] at h1 h2
    have hstep := EIn.left (m := m) h hj (by unfold inb; omega)
    obtain ⟨l', hl', hE⟩ := ih i (j + 1) s0 _ rest hstep hd hB (by omega) (by omega)
    refine ⟨l', ?_, ?_⟩
    · split at hl' <;> omega
    · simp only [List.length_cons]
      have e : j + (a.length + 1) = j + 1 + a.length := by omega
      rw [e]; exact hE
  | @gapA c a b s l h' ih =>
    intro i j s0 l0 rest h hA hB h1 h2
    have hb := h'.bounds m
    obtain ⟨hi', _, hd⟩ := drop_eq_cons hB
    simp only [List.length_cons] at h1 h2
    have hstep := EIn.up (m := m) h hi' (by unfold inb; omega)
    obtain ⟨l', hl', hE⟩ := ih (i + 1) j s0 _ rest hstep hA hd (by omega) (by omega)
    exact ⟨l', by omega, hE⟩
  | @pair c d a b s l h' ih =>
    intro i j s0 l0 rest h hA hB h1 h2
    have hb := h'.bounds m
    obtain ⟨hj, hx, hdA⟩ := drop_eq_cons (by simpa using hA : A.drop j = c :: (a ++ rest))
    obtain ⟨hi', hy, hdB⟩ := drop_eq_cons hB
    simp only [List.length_cons] at h1 h2
    have hstep := EIn.pair (m := m) h hi' hj (by unfold inb; omega)
    rw [hx, hy] at hstep
    obtain ⟨l', hl', hE⟩ := ih (i + 1) (j + 1) _ _ rest hstep hdA hdB (by omega) (by omega)
    refine ⟨l', by omega, ?_⟩
    simp only [List.length_cons]
    have e : j + (a.length + 1) = j + 1 + a.length := by omega
    have e2 : s0 + (s + if m c d = true then 1 else 0) = s0 + (if m c d = true then 1 else 0) + s := by omega
    rw [e, e2]; exact hE

/-- free horizontal moves in the last row -/
theorem EIn.slide {lo hi : Int} {A B : Seq} {j s l : Nat} (h : EIn m lo hi A B B.length j s l)
    (hhi : ((A.length : Int) - (B.length : Int)) < hi) :
    ∀ k, j + k ≤ A.length → EIn m lo hi A B B.length (j + k) s l := by
  intro k
  induction k with
  | zero => intro _; exact h
  | succ k ih =>
    intro hk
    have h' := ih (by omega)
    have hin := h.inband m
    unfold inb at hin
    have := EIn.left (m := m) h' (by omega : j + k < A.length) (by unfold inb; omega)
    rw [if_neg (Nat.lt_irrefl _)] at this
    exact this

/-- an end-gap-free alignment `(s, l)` with `|B| ≤ s + e` is an in-band path to the last cell, for the band
`lo = -2(e+1)`, `hi = 2(delta+e+1)` -/
theorem EgfAli.toEIn {A B : Seq} {s l : Nat} (h : EgfAli m A B s l) (hAB : B.length ≤ A.length) (e : Int)
    (hc : (B.length : Int) ≤ (s : Int) + e) :
    ∃ l', l' ≤ l ∧ EIn m (-(2 * (e + 1))) (2 * (((A.length : Int) - (B.length : Int)) + (e + 1))) A B
      B.length A.length s l' := by
  obtain ⟨pre, mid, suf, hA, ha⟩ := h
  have hb := ha.bounds m
  have hsl := ha.score_len m
  have hlen : A.length = pre.length + mid.length + suf.length := by rw [hA]; simp only [List.length_append]
  have hst : EIn m (-(2 * (e + 1))) (2 * (((A.length : Int) - (B.length : Int)) + (e + 1))) A B 0 pre.length 0 0 :=
    EIn.start pre.length (by omega) (by unfold inb; omega)
  obtain ⟨l', hl', hE⟩ := EIn.extend m ha 0 pre.length 0 0 suf hst (by rw [hA]; simp) (by simp)
    (by omega) (by omega)
  have hs := EIn.slide m hE (by omega) suf.length (by omega)
  refine ⟨l', by omega, ?_⟩
  have e1 : pre.length + mid.length + suf.length = A.length := by omega
  rw [e1] at hs
  simpa using hs

/-! ## exactness -/

/-- the band actually used: `bandGeoE` in closed form for an effective bound `e1 ≥ 0` -/
theorem bandGeoE_eq (lA lB : Nat) (e : Int) :
    bandGeoE lA lB e =
      (let e1 : Int := if e = -1 then 2 * (lA : Int) else e
       if e1 < 0 then none else some (-(2 * (e1 + 1)), 2 * (((lA : Int) - (lB : Int)) + (e1 + 1)))) := by
  unfold bandGeoE
  by_cases he : e = -1
  · subst he
    simp only [show ((-1 : Int) == -1) = true from rfl, if_true]
    split <;> split <;> first | rfl | omega | (congr 1; congr 1 <;> omega)
  · have he' : (e == -1) = false := by simpa using he
    simp only [he', Bool.false_eq_true, if_false, if_neg he]
    split <;> split <;> first | rfl | omega | (congr 1; congr 1 <;> omega)

/-- the value of the last cell when some covered end-gap-free alignment exists: in-band, realised, and above it -/
theorem lastE_ge {A B : Seq} (hAB : B.length ≤ A.length) (hn : A.length + B.length + 1 ≤ 30000) (e1 : Int)
    {s l : Nat} (h : EgfAli samenuc A B s l) (hc : (B.length : Int) ≤ (s : Int) + e1) :
    ∃ s0 l0, cellME (-(2 * (e1 + 1))) (2 * (((A.length : Int) - (B.length : Int)) + (e1 + 1))) A B B.length A.length =
        encodeValues s0 l0 false ∧ EgfAli samenuc A B s0 l0 ∧ s0 ≤ 30000 ∧ l0 ≤ 30000 ∧
        (s < s0 ∨ (s = s0 ∧ l0 ≤ l)) := by
  obtain ⟨l', hl', hE⟩ := h.toEIn samenuc hAB e1 hc
  have hb := hE.bounds samenuc
  have hlb := cellME_lb _ _ A B hn B.length (by omega) A.length (by omega) s l' hE
  have hg := cellME_good (-(2 * (e1 + 1))) (2 * (((A.length : Int) - (B.length : Int)) + (e1 + 1))) A B hn
    B.length (by omega) A.length (by omega)
  obtain ⟨s0, l0, hv, hp, hs0, hl0, hcmp⟩ :=
    goodE_ge_in samenuc (by omega) (by omega) (by omega) hg (by omega) (by omega) hlb
  exact ⟨s0, l0, hv, hp.toEgf samenuc, by omega, by omega, by omega⟩

theorem bandResult_enc {s l : Nat} (hs : s < 65536) (hl : l ≤ 65534) :
    bandResult (encodeValues s l false) = some (s, l) := by
  unfold bandResult
  rw [decode_encode s l false hs hl]
  simp

/-- `A` the longer sequence. With no bound, or an explicit bound `e` with `|B| ≤ s + e` for the optimum `(s, l)` (in
particular when the optimum has at most `e` differences), the banded matrix returns the end-gap-free optimum. -/
theorem bandEGFAB_exact (A B : Seq) (e : Int) (s l : Nat) (hAB : B.length ≤ A.length)
    (hn : A.length + B.length + 1 ≤ 30000) (hopt : EgfOpt samenuc A B s l)
    (h : e = -1 ∨ (B.length : Int) ≤ (s : Int) + e) : bandEGFAB A B e = some (s, l) := by
  have hsb : s ≤ B.length := by
    obtain ⟨_, _, _, _, ha⟩ := hopt.1
    exact (ha.bounds samenuc).2.1
  unfold bandEGFAB
  rw [bandGeoE_eq]
  simp only []
  generalize he1 : (if e = -1 then 2 * (A.length : Int) else e) = e1
  have hc : (B.length : Int) ≤ (s : Int) + e1 := by
    rw [← he1]; split
    · omega
    · rcases h with h | h
      · contradiction
      · exact h
  have hneg : ¬ e1 < 0 := by omega
  rw [if_neg hneg]
  simp only [bandLastE_getLastD]
  obtain ⟨s0, l0, hv, hr, hs0, hl0, hcmp⟩ := lastE_ge hAB hn e1 hopt.1 hc
  have := hopt.2 s0 l0 hr
  have e1' : s0 = s := by omega
  have e2' : l0 = l := by omega
  rw [hv, e1', e2', bandResult_enc (by omega) (by omega)]

/-- an answer within an explicit bound is the end-gap-free optimum -/
theorem bandEGFAB_within_is_opt (A B : Seq) (e : Int) (s l : Nat) (hAB : B.length ≤ A.length)
    (hn : A.length + B.length + 1 ≤ 30000) (he : e ≠ -1) (h : bandEGFAB A B e = some (s, l))
    (hb : (l : Int) - (s : Int) ≤ e) : EgfOpt samenuc A B s l := by
  have hr := bandEGFAB_sound A B e s l hn h
  refine ⟨hr, fun s' l' h' => ?_⟩
  have hlB : B.length ≤ l ∧ s ≤ l := by
    obtain ⟨_, _, _, _, ha⟩ := hr
    exact ⟨(ha.bounds samenuc).2.2.2.2.1, (ha.bounds samenuc).2.2.2.2.2⟩
  by_cases c : s' < s
  · exact .inl c
  · right
    unfold bandEGFAB at h
    rw [bandGeoE_eq] at h
    simp only [if_neg he] at h
    have hneg : ¬ e < 0 := by omega
    rw [if_neg hneg] at h
    simp only [bandLastE_getLastD] at h
    obtain ⟨s0, l0, hv, _, hs0, hl0, hcmp⟩ := lastE_ge hAB hn e h' (by omega)
    rw [hv, bandResult_enc (by omega) (by omega)] at h
    injection h with h
    injection h with h1 h2
    omega

/-- with no bound the answer exists and is the end-gap-free optimum (which therefore exists) -/
theorem bandEGFAB_unbounded (A B : Seq) (hAB : B.length ≤ A.length) (hn : A.length + B.length + 1 ≤ 30000) :
    ∃ s l, bandEGFAB A B (-1) = some (s, l) ∧ EgfOpt samenuc A B s l := by
  have h0 : EgfAli samenuc A B (lcsDP samenuc A B).1 (lcsDP samenuc A B).2 :=
    ⟨[], A, [], by simp, (lcsDP_opt samenuc A B).1⟩
  have hv0 := lastE_ge hAB hn (2 * (A.length : Int)) h0 (by omega)
  obtain ⟨s0, l0, hv, hr, hs0, hl0, _⟩ := hv0
  have hres : bandEGFAB A B (-1) = some (s0, l0) := by
    unfold bandEGFAB
    rw [bandGeoE_eq]
    simp only [if_true]
    have hneg : ¬ (2 * (A.length : Int) < 0) := by omega
    rw [if_neg hneg]
    simp only [bandLastE_getLastD]
    rw [hv, bandResult_enc (by omega) (by omega)]
  refine ⟨s0, l0, hres, hr, fun s' l' h' => ?_⟩
  obtain ⟨s1, l1, hv1, _, _, _, hcmp⟩ := lastE_ge hAB hn (2 * (A.length : Int)) h' (by omega)
  rw [hv] at hv1
  have hs0' : s0 < 65536 := by omega
  have d0 := decode_encode s0 l0 false (by omega) (by omega)
  rw [hv1, decode_encode s1 l1 false (by omega) (by omega)] at d0
  injection d0 with d1 d2
  injection d2 with d2 _
  omega

theorem EgfOpt.unique {A B : Seq} {s l s' l' : Nat} (h : EgfOpt m A B s l) (h' : EgfOpt m A B s' l') :
    s = s' ∧ l = l' := by
  have a := h.2 s' l' h'.1
  have b := h'.2 s l h.1
  omega

/-! ## both orders of the arguments -/

theorem bandEGF_eq_long (a b : Seq) (e : Int) : bandEGF a b e = bandEGFAB (egfLong a b) (egfShort a b) e := by
  unfold bandEGF egfLong egfShort
  split <;> rfl

theorem egf_long_short (a b : Seq) :
    (egfShort a b).length ≤ (egfLong a b).length ∧
      (egfLong a b).length + (egfShort a b).length = a.length + b.length ∧
      (egfShort a b).length = min a.length b.length := by
  unfold egfLong egfShort
  by_cases c : a.length < b.length
  · simp only [if_pos c]; exact ⟨by omega, by omega, (Nat.min_eq_left (by omega)).symm⟩
  · simp only [if_neg c]; exact ⟨by omega, trivial, (Nat.min_eq_right (by omega)).symm⟩

theorem bandEGF_exact (a b : Seq) (e : Int) (s l : Nat) (hn : a.length + b.length + 1 ≤ 30000)
    (hopt : EgfOpt samenuc (egfLong a b) (egfShort a b) s l)
    (h : e = -1 ∨ ((min a.length b.length : Nat) : Int) ≤ (s : Int) + e) : bandEGF a b e = some (s, l) := by
  obtain ⟨h1, h2, h3⟩ := egf_long_short a b
  rw [bandEGF_eq_long]
  exact bandEGFAB_exact _ _ e s l h1 (by omega) hopt (by rw [h3]; exact h)

theorem bandEGF_within_is_opt (a b : Seq) (e : Int) (s l : Nat) (hn : a.length + b.length + 1 ≤ 30000) (he : e ≠ -1)
    (h : bandEGF a b e = some (s, l)) (hb : (l : Int) - (s : Int) ≤ e) :
    EgfOpt samenuc (egfLong a b) (egfShort a b) s l := by
  obtain ⟨h1, h2, _⟩ := egf_long_short a b
  rw [bandEGF_eq_long] at h
  exact bandEGFAB_within_is_opt _ _ e s l h1 (by omega) he h hb

theorem bandEGF_unbounded (a b : Seq) (hn : a.length + b.length + 1 ≤ 30000) :
    ∃ s l, bandEGF a b (-1) = some (s, l) ∧ EgfOpt samenuc (egfLong a b) (egfShort a b) s l := by
  obtain ⟨h1, h2, _⟩ := egf_long_short a b
  rw [bandEGF_eq_long]
  exact bandEGFAB_unbounded _ _ h1 (by omega)

/-- beyond the bound: no answer, or an answer that is itself beyond the bound -/
theorem bandEGF_beyond (a b : Seq) (e : Int) (S L : Nat) (hn : a.length + b.length + 1 ≤ 30000) (he : e ≠ -1)
    (hopt : EgfOpt samenuc (egfLong a b) (egfShort a b) S L) (h : e < (L : Int) - (S : Int)) :
    bandEGF a b e = none ∨ ∃ s l, bandEGF a b e = some (s, l) ∧ e < (l : Int) - (s : Int) := by
  cases hr : bandEGF a b e with
  | none => exact .inl rfl
  | some p =>
    obtain ⟨s, l⟩ := p
    refine .inr ⟨s, l, rfl, ?_⟩
    apply Int.lt_of_not_ge
    intro hle
    have := (bandEGF_within_is_opt a b e s l hn he hr hle).unique samenuc hopt
    omega

end ObiVerif.Lcs
