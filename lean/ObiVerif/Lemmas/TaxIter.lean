import ObiVerif.Model.TaxLoad
import ObiVerif.Lemmas.Tax
/-!
# Lemmas on the drained taxon iterators and on `taxonomic_path` (C14)
-/
namespace ObiVerif.TaxLoad
open ObiVerif.Tax

/-- `IsBelongingSubclades` walks in lockstep with `Path` -/
theorem isBelonging_eq_any {t : Taxo} (cl : List Nat) :
    ∀ (f x : Nat) (p : List Nat), path t f x = .ok p → isBelonging t cl f x = .ok (p.any cl.contains) := by
  intro f
  induction f with
  | zero => intro x p h; simp [path] at h
  | succ f ih =>
    intro x p h
    unfold path at h
    unfold isBelonging
    split at h
    · cases h
    · rename_i n hn
      split at h
      · rename_i hr
        cases h
        by_cases hk : x ∈ cl
        · simp [hk, hn]
        · simp [hk, hr, hn]
      · rename_i hr
        split at h
        · rename_i q hq
          cases h
          by_cases hk : x ∈ cl
          · simp [hk, hn]
          · simp [hk, hr, hn, ih _ _ hq]
        · cases h

/-- a generic "filter with a partial test" : when the test answers on every element, the result is the
`List.filter` of the source -/
theorem filterSubclade_eq {t : Taxo} {fuel c : Nat} (g : Nat → Bool) :
    ∀ (src : List Nat), (∀ x ∈ src, isSubCladeOf t c fuel x = .ok (g x)) →
      filterSubclade t fuel c src = .ok (src.filter g) := by
  intro src
  induction src with
  | nil => intro _; rfl
  | cons x r ih =>
    intro h
    have hx := h x (by simp)
    have hr := ih (fun y hy => h y (by simp [hy]))
    unfold filterSubclade
    rw [hx, hr]
    cases hg : g x <;> simp [List.filter, hg]

theorem filterBelongingMany_eq {t : Taxo} {fuel : Nat} {cl : List Nat} (g : Nat → Bool) :
    ∀ (src : List Nat), (∀ x ∈ src, isBelonging t cl fuel x = .ok (g x)) →
      filterBelongingMany t fuel cl src = .ok (src.filter g) := by
  intro src
  induction src with
  | nil => intro _; rfl
  | cons x r ih =>
    intro h
    have hx := h x (by simp)
    have hr := ih (fun y hy => h y (by simp [hy]))
    unfold filterBelongingMany
    rw [hx, hr]
    cases hg : g x <;> simp [List.filter, hg]

/-- the path of `x` as a total function (`[]` when the walk fails) -/
def pathOf (t : Taxo) (fuel x : Nat) : List Nat :=
  match path t fuel x with
  | .ok p => p
  | .error _ => []

theorem pathOf_spec {t : Taxo} {root : Nat} {depth : Nat → Nat} (wf : WF t root depth) {fuel : Nat}
    (hf : FuelOK t fuel) {x : Nat} {n : Node} (hn : t.node x = some n) :
    path t fuel x = .ok (pathOf t fuel x) ∧ IsPath t x (pathOf t fuel x) := by
  obtain ⟨p, hp, ip⟩ := path_total wf hf hn
  simp [pathOf, hp, ip]

theorem filterSubclade_ok {t : Taxo} {root : Nat} {depth : Nat → Nat} (wf : WF t root depth) {fuel : Nat}
    (hf : FuelOK t fuel) (c : Nat) (src : List Nat) (hsrc : ∀ x ∈ src, ∃ n, t.node x = some n) :
    filterSubclade t fuel c src = .ok (src.filter fun x => (pathOf t fuel x).contains c) := by
  apply filterSubclade_eq
  intro x hx
  obtain ⟨n, hn⟩ := hsrc x hx
  exact isSubCladeOf_eq_contains c _ _ _ (pathOf_spec wf hf hn).1

theorem filterBelongingMany_ok {t : Taxo} {root : Nat} {depth : Nat → Nat} (wf : WF t root depth) {fuel : Nat}
    (hf : FuelOK t fuel) (cl : List Nat) (src : List Nat) (hsrc : ∀ x ∈ src, ∃ n, t.node x = some n) :
    filterBelongingMany t fuel cl src = .ok (src.filter fun x => (pathOf t fuel x).any cl.contains) := by
  apply filterBelongingMany_eq
  intro x hx
  obtain ⟨n, hn⟩ := hsrc x hx
  exact isBelonging_eq_any cl _ _ _ (pathOf_spec wf hf hn).1

theorem mem_pathOf_iff {t : Taxo} {root : Nat} {depth : Nat → Nat} (wf : WF t root depth) {fuel : Nat}
    (hf : FuelOK t fuel) {x : Nat} {n : Node} (hn : t.node x = some n) (a : Nat) :
    a ∈ pathOf t fuel x ↔ Anc t a x :=
  (pathOf_spec wf hf hn).2.mem_iff_anc a

/-! ## `joinBytes` / `pathString` -/

theorem splitOn_ne_nil (sep : UInt8) : ∀ b : Bytes, splitOn sep b ≠ [] := by
  intro b
  induction b with
  | nil => simp [splitOn]
  | cons c r ih =>
    unfold splitOn
    split
    · simp
    · split <;> simp

/-- splitting a byte string without separator gives the string itself -/
theorem splitOn_clean (sep : UInt8) : ∀ b : Bytes, sep ∉ b → splitOn sep b = [b] := by
  intro b
  induction b with
  | nil => intro _; rfl
  | cons c r ih =>
    intro h
    have hc : c ≠ sep := fun e => h (by simp [e])
    have hr : sep ∉ r := fun e => h (by simp [e])
    unfold splitOn
    simp [hc, ih hr]

theorem splitOn_append (sep : UInt8) : ∀ (a b : Bytes), sep ∉ a →
    splitOn sep (a ++ sep :: b) = a :: splitOn sep b := by
  intro a
  induction a with
  | nil => intro b _; simp [splitOn]
  | cons c r ih =>
    intro b h
    have hc : c ≠ sep := fun e => h (by simp [e])
    have hr : sep ∉ r := fun e => h (by simp [e])
    have := ih b hr
    simp only [List.cons_append]
    conv => lhs; unfold splitOn
    simp [hc, this]

/-- splitting the join of separator-free items gives the items back (`taxonomic_path` can be split
back into its `taxid@name@rank` items) -/
theorem splitOn_joinBytes (sep : UInt8) : ∀ (l : List Bytes), l ≠ [] → (∀ a ∈ l, sep ∉ a) →
    splitOn sep (joinBytes sep l) = l := by
  intro l
  induction l with
  | nil => intro h; exact absurd rfl h
  | cons a r ih =>
    intro _ h
    cases r with
    | nil => simp [joinBytes, splitOn_clean sep a (h a (by simp))]
    | cons b r' =>
      have := ih (by simp) (fun x hx => h x (by simp [hx]))
      simp only [joinBytes]
      rw [splitOn_append sep a _ (h a (by simp)), this]

end ObiVerif.TaxLoad
