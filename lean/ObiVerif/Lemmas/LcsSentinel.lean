import ObiVerif.Lemmas.LcsMatrix
/-!
# C09: the role of the sentinel length 30000 of `_notavail` / `_out`, and what happens beyond it

`_notavail = encodeValues(0, 30000, false)` stands for "no neighbour in this direction" on the first row / column, and
`_out = encodeValues(0, 30000, true)` for a neighbour outside the band. They must LOSE the three-way `uint64` selection
against every real candidate. A real in-band cell has score `s ≥ 0` and length `l ≤ |a| + |b|`:
* `sentinel_loses`: while `l < 30000` the sentinels are strictly below every real in-band cell (this is where the
  hypothesis `|a| + |b| < 30000` of the exactness / soundness theorems comes from);
* `sentinel_wins_beyond`: from `l > 30000` on, a real cell of score 0 is strictly BELOW `_notavail`: the selection
  takes the sentinel and the cell claims the length 30000;
* `bandLCS_long_row0`: consequently, for EVERY sequence `A` with `30000 < |A| ≤ 65534`, the kernel answers (0, 30000)
  for `A` against the empty sequence, where the optimum is `(0, |A|)` — the length bound of `fastLCS_exact` cannot be
  dropped. (The model has the real field widths: `UInt64` words, 16-bit score and inverted-length fields.)
The 16-bit inverted length field itself holds lengths up to 65534 (`cell_order`, sharp at 65535).
-/
namespace ObiVerif.Lcs

theorem sentinel_loses (s l : Nat) (hs : s < 65536) (hl : l < 30000) :
    notavailV < encodeValues s l false ∧ outV < notavailV ∧ outV < encodeValues s l false := by
  have h1 : ¬ (encodeValues s l false ≤ notavailV) := by
    unfold notavailV
    rw [encode_le_iff s l 0 30000 false hs (by omega) (by omega) (by omega)]; omega
  have h2 : outV < notavailV := encode_out_lt_in 0 30000 0 30000 (by omega) (by omega) (by omega) (by omega)
  have h3 : outV < encodeValues s l false := encode_out_lt_in 0 30000 s l (by omega) hs (by omega) (by omega)
  exact ⟨UInt64.not_le.1 h1, h2, h3⟩

theorem sentinel_wins_beyond (l : Nat) (h1 : 30000 < l) (h2 : l ≤ 65534) :
    encodeValues 0 l false < notavailV := by
  have h : ¬ (notavailV ≤ encodeValues 0 l false) := by
    unfold notavailV
    rw [encode_le_iff 0 30000 0 l false (by omega) (by omega) (by omega) h2]; omega
  exact UInt64.not_le.1 h

/-- a first-row cell beyond column 30000 holds the sentinel, not `(0, j)` -/
theorem bandCell_row0_beyond (lo hi : Int) (j : Nat) (h1 : 30000 < j) (h2 : j ≤ 65534)
    (hlo : lo < (j : Int)) (hhi : (j : Int) < hi) :
    bandCell lo hi 0 j false 0 0 0 = notavailV := by
  have hb : ¬ ((j : Int) - ((0 : Nat) : Int) = lo ∨ (j : Int) - ((0 : Nat) : Int) = hi) := by omega
  have hw := sentinel_wins_beyond j h1 h2
  have hge : notavailV ≥ encodeValues 0 j false := UInt64.le_of_lt hw
  simp only [bandCell, if_true, if_neg hb, pick]
  rw [if_pos ⟨UInt64.le_refl _, hge⟩]

theorem bandResult_notavail : bandResult notavailV = some (0, 30000) := by decide

/-- **beyond the sentinel**: for every `A` with `30000 < |A| ≤ 65534` the kernel (no bound) answers (0, 30000) for `A`
against the empty sequence; the optimum is `(0, |A|)` -/
theorem bandLCS_long_row0 (A : Seq) (h1 : 30000 < A.length) (h2 : A.length ≤ 65534) :
    bandLCS A [] (-1) = some (0, 30000) ∧ lcsDP samenuc A [] = (0, A.length) := by
  refine ⟨?_, ?_⟩
  · have hl : ¬ A.length < ([] : Seq).length := by simp
    unfold bandLCS
    rw [if_neg hl]
    unfold bandLCSAB bandGeo
    have hd : ¬ ((A.length : Int) - (([] : Seq).length : Int) > 2 * (A.length : Int)) := by simp; omega
    simp only [show ((-1 : Int) == -1) = true from rfl, if_true, if_neg hd]
    rw [bandLast_getLastD]
    simp only [List.length_nil]
    rw [cellM_row0 _ _ _ _ _ (Nat.le_refl _),
      bandCell_row0_beyond _ _ _ h1 h2 (by simp; omega) (by simp; omega)]
    exact bandResult_notavail
  · cases A with
    | nil => simp at h1
    | cons x as => simp [lcsDP]

end ObiVerif.Lcs
