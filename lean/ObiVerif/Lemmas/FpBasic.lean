import ObiVerif.Model.Fp
/-!
# Helper lemmas for C20 (core Lean only): limb products, `bits.Sub64`, `U256.ofNat`
-/
namespace ObiVerif.Fp

theorem W_pos : 0 < W := by decide

instance (u : U64) : Decidable u.WF := by unfold U64.WF; infer_instance
instance (u : U128) : Decidable u.WF := by unfold U128.WF; infer_instance
instance (u : U256) : Decidable u.WF := by unfold U256.WF; infer_instance

/-- the four 64-bit limbs of `n` (big-endian fields, as in `Uint256`) -/
def U256.ofNat (n : Nat) : U256 := ⟨n / (W * W * W) % W, n / (W * W) % W, n / W % W, n % W⟩

theorem U256.ofNat_WF (n : Nat) : (U256.ofNat n).WF := by
  unfold U256.ofNat U256.WF
  refine ⟨?_, ?_, ?_, ?_⟩ <;> exact Nat.mod_lt _ (by decide)

theorem U128.ofNat_WF (n : Nat) : (U128.ofNat n).WF := by
  unfold U128.ofNat U128.WF
  refine ⟨?_, ?_⟩ <;> exact Nat.mod_lt _ (by decide)

theorem U128.toNat_ofNat {n : Nat} (h : n < W * W) : (U128.ofNat n).toNat = n := by
  unfold U128.ofNat U128.toNat
  simp only [W] at *
  omega

theorem U256.toNat_ofNat {n : Nat} (h : n < W ^ 4) : (U256.ofNat n).toNat = n := by
  unfold U256.ofNat U256.toNat
  simp only [W] at *
  omega

theorem U128.toNat_lt {u : U128} (h : u.WF) : u.toNat < W * W := by
  obtain ⟨h1, h0⟩ := h
  unfold U128.toNat
  simp only [W] at *
  omega

theorem U256.toNat_lt {u : U256} (h : u.WF) : u.toNat < W ^ 4 := by
  obtain ⟨h3, h2, h1, h0⟩ := h
  unfold U256.toNat
  simp only [W] at *
  omega

/-- a well-formed `U128` is determined by its value -/
theorem U128.eq_ofNat_toNat {u : U128} (h : u.WF) : u = U128.ofNat u.toNat := by
  obtain ⟨h1, h0⟩ := h
  obtain ⟨a, b⟩ := u
  unfold U128.ofNat U128.toNat
  simp only [W] at *
  congr 1 <;> omega

/-- a well-formed `U256` is determined by its value -/
theorem U256.eq_ofNat_toNat {u : U256} (h : u.WF) : u = U256.ofNat u.toNat := by
  obtain ⟨h3, h2, h1, h0⟩ := h
  obtain ⟨a, b, c, d⟩ := u
  unfold U256.ofNat U256.toNat
  simp only [W] at *
  congr 1 <;> omega

/-- product of two limbs fits in two limbs (with room for two more limbs: `≤ (W-1)^2`) -/
theorem mul_limb_le {a b : Nat} (ha : a < W) (hb : b < W) : a * b ≤ (W - 1) * (W - 1) :=
  Nat.mul_le_mul (by omega) (by omega)

theorem bitsSub64_spec {x y b : Nat} (hx : x < W) (hy : y < W) (hb : b ≤ 1) :
    (bitsSub64 x y b).1 < W ∧ (bitsSub64 x y b).2 ≤ 1 ∧
      x + (bitsSub64 x y b).2 * W = (bitsSub64 x y b).1 + y + b := by
  unfold bitsSub64
  simp only [W] at *
  split <;> simp <;> omega

end ObiVerif.Fp
