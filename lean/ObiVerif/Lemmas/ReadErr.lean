import ObiVerif.Model.ReadErr
/-!
# Lemmas on the chunked reader model (C17)

Unfolding equations of `growLoop` / `chunkLoop`, the specification of `growLoop` (it stops on a
buffer the splitter accepts, or on the final error of the stream, never on its fuel), the accounting
invariant of `chunkLoop` (every byte of the stream enters the buffer once and leaves it once, as part
of a chunk or as a stripped end-of-line byte) and the invariant of the backward scan `fastaScan`.
-/
namespace ObiVerif.ReadErr

/-! ## `readFull` -/

theorem readFull_fst (s : Stream) (pos k : Nat) : (readFull s pos k).1 = (s.data.drop pos).take k := by
  unfold readFull
  by_cases h : k ≤ s.data.length - pos
  · simp [h]
  · simp only [h, if_false]
    rw [List.take_of_length_le]
    simp only [List.length_drop]; omega

theorem readFull_snd (s : Stream) (pos k : Nat) :
    (readFull s pos k).2 = if k ≤ s.data.length - pos then none else some s.final := by
  unfold readFull
  by_cases h : k ≤ s.data.length - pos <;> simp [h]

/-! ## end-of-line stripping -/

/-- the bytes that `stripEol` removes -/
def isEol (c : UInt8) : Bool := c == 10 || c == 13

theorem isEol_iff (c : UInt8) : isEol c = true ↔ c = 10 ∨ c = 13 := by
  simp [isEol]

theorem all_takeWhile {α} (p : α → Bool) : ∀ l : List α, ∀ c ∈ l.takeWhile p, p c = true
  | [], c, h => by simp at h
  | a :: l, c, h => by
    rw [List.takeWhile_cons] at h
    by_cases ha : p a = true
    · simp only [ha, if_true, List.mem_cons] at h
      rcases h with h | h
      · exact h ▸ ha
      · exact all_takeWhile p l c h
    · simp [ha] at h

/-- `stripEol` only removes a suffix made of `\n` / `\r` bytes -/
theorem stripEol_decomp (b : Bytes) :
    ∃ e : Bytes, b = stripEol b ++ e ∧ ∀ c ∈ e, c = 10 ∨ c = 13 := by
  refine ⟨(b.reverse.takeWhile isEol).reverse, ?_, ?_⟩
  · have h := @List.takeWhile_append_dropWhile _ isEol b.reverse
    have h2 := congrArg List.reverse h
    rw [List.reverse_append, List.reverse_reverse] at h2
    exact h2.symm
  · intro c hc
    rw [List.mem_reverse] at hc
    exact (isEol_iff c).1 (all_takeWhile isEol _ c hc)

/-! ## unfolding equations -/

theorem growLoop_succ (split : Bytes → Int) (bufsz : Nat) (s : Stream) (fuel : Nat) (buff : Bytes) (pos : Nat) :
    growLoop split bufsz s (fuel+1) buff pos =
      if split buff < 0 then
        if bufsz - 1 ≤ s.data.length - pos then
          growLoop split bufsz s fuel (buff ++ (s.data.drop pos).take (bufsz - 1))
            (pos + ((s.data.drop pos).take (bufsz - 1)).length)
        else (buff ++ s.data.drop pos, pos + (s.data.drop pos).length, some s.final)
      else (buff, pos, none) := by
  simp only [growLoop, readFull]
  by_cases h1 : split buff < 0
  · by_cases h2 : bufsz - 1 ≤ s.data.length - pos <;> simp [h1, h2]
  · simp [h1]

/-- the position in the buffer at which the chunk is cut -/
def endp (split : Bytes → Int) (buff : Bytes) : Nat :=
  if split buff < 0 then buff.length else (split buff).toNat

/-- the body of the outer loop after the inner loop: push the chunk, keep the rest -/
def emit (split : Bytes → Int) (out : List Bytes) (buff : Bytes) : List Bytes × Bytes :=
  if buff.length > 0 then
    (if (stripEol (buff.take (endp split buff))).length > 0
        then out ++ [stripEol (buff.take (endp split buff))] else out,
     buff.drop (endp split buff))
  else (out, buff)

theorem chunkLoop_succ (split : Bytes → Int) (bufsz : Nat) (s : Stream) (fuel : Nat)
    (out : List Bytes) (buff : Bytes) (pos : Nat) :
    chunkLoop split bufsz s (fuel+1) out buff pos =
      match (growLoop split bufsz s (s.data.length + 2) buff pos).2.2 with
      | none => chunkLoop split bufsz s fuel
          (emit split out (growLoop split bufsz s (s.data.length + 2) buff pos).1).1
          (emit split out (growLoop split bufsz s (s.data.length + 2) buff pos).1).2
          (growLoop split bufsz s (s.data.length + 2) buff pos).2.1
      | some e =>
          ((emit split out (growLoop split bufsz s (s.data.length + 2) buff pos).1).1,
           (emit split out (growLoop split bufsz s (s.data.length + 2) buff pos).1).2, some e) := by
  rw [chunkLoop]
  rcases growLoop split bufsz s (s.data.length + 2) buff pos with ⟨b, p, e⟩
  simp only [emit, endp]
  by_cases hb : b.length > 0 <;> cases e <;> simp [hb]

/-! ## the inner loop -/

/-- `growLoop`, started with more fuel than there are unread bytes, appends `n` fresh bytes of the
stream to the buffer and stops either on a buffer in which the splitter finds a record (no error) or
on the final error of the stream, all of it read -/
theorem growLoop_spec (split : Bytes → Int) (bufsz : Nat) (s : Stream) (hb : 2 ≤ bufsz) :
    ∀ (fuel : Nat) (buff : Bytes) (pos : Nat), pos ≤ s.data.length → s.data.length - pos < fuel →
      ∃ n, pos + n ≤ s.data.length ∧
        (growLoop split bufsz s fuel buff pos).1 = buff ++ (s.data.drop pos).take n ∧
        (growLoop split bufsz s fuel buff pos).2.1 = pos + n ∧
        (((growLoop split bufsz s fuel buff pos).2.2 = none ∧
            ¬ split (buff ++ (s.data.drop pos).take n) < 0) ∨
         ((growLoop split bufsz s fuel buff pos).2.2 = some s.final ∧ pos + n = s.data.length)) := by
  intro fuel
  induction fuel with
  | zero => intro buff pos _ h; omega
  | succ fuel ih =>
    intro buff pos hpos hfuel
    rw [growLoop_succ]
    by_cases h1 : split buff < 0
    · simp only [h1, if_true]
      by_cases h2 : bufsz - 1 ≤ s.data.length - pos
      · simp only [h2, if_true]
        have hlen : ((s.data.drop pos).take (bufsz - 1)).length = bufsz - 1 := by
          simp only [List.length_take, List.length_drop]; omega
        rw [hlen]
        obtain ⟨n, hn, e1, e2, e3⟩ := ih (buff ++ (s.data.drop pos).take (bufsz - 1)) (pos + (bufsz - 1))
          (by omega) (by omega)
        have happ : buff ++ List.take (bufsz - 1) (List.drop pos s.data) ++
            List.take n (List.drop (pos + (bufsz - 1)) s.data) =
            buff ++ List.take (bufsz - 1 + n) (List.drop pos s.data) := by
          rw [List.append_assoc, List.take_add, List.drop_drop]
        refine ⟨bufsz - 1 + n, by omega, ?_, ?_, ?_⟩
        · rw [e1, happ]
        · rw [e2]; omega
        · rw [happ] at e3
          rcases e3 with ⟨e3, e4⟩ | ⟨e3, e4⟩
          · exact Or.inl ⟨e3, e4⟩
          · exact Or.inr ⟨e3, by omega⟩
      · simp only [h2, if_false]
        refine ⟨s.data.length - pos, by omega, ?_, ?_, Or.inr ⟨trivial, by omega⟩⟩
        · rw [List.take_of_length_le]; simp
        · simp only [List.length_drop]
    · simp only [h1, if_false]
      exact ⟨0, by omega, by simp, rfl, Or.inl ⟨trivial, by simpa using h1⟩⟩

/-! ## the accounting invariant of the outer loop -/

/-- the chunks pushed on the channel: the non-empty first components -/
def chunksOf (pairs : List (Bytes × Bytes)) : List Bytes :=
  (pairs.map Prod.fst).filter (fun c => decide (0 < c.length))

/-- the bytes consumed: each chunk followed by the end-of-line bytes stripped from it -/
def joinPairs (pairs : List (Bytes × Bytes)) : Bytes :=
  (pairs.map (fun p => p.1 ++ p.2)).flatten

def EolsOnly (pairs : List (Bytes × Bytes)) : Prop :=
  ∀ p ∈ pairs, ∀ c ∈ p.2, c = 10 ∨ c = 13

theorem chunksOf_append (a b : List (Bytes × Bytes)) : chunksOf (a ++ b) = chunksOf a ++ chunksOf b := by
  simp [chunksOf]

theorem joinPairs_append (a b : List (Bytes × Bytes)) : joinPairs (a ++ b) = joinPairs a ++ joinPairs b := by
  simp [joinPairs]

theorem EolsOnly_append {a b : List (Bytes × Bytes)} (ha : EolsOnly a) (hb : EolsOnly b) :
    EolsOnly (a ++ b) := by
  intro p hp
  rcases List.mem_append.1 hp with h | h
  · exact ha p h
  · exact hb p h

/-- state of the outer loop: what was pushed (`out`) and what is in the buffer account for exactly
the first `pos` bytes of the stream -/
structure Acc (s : Stream) (pairs : List (Bytes × Bytes)) (out : List Bytes) (buff : Bytes) (pos : Nat) : Prop where
  eols : EolsOnly pairs
  out_eq : out = chunksOf pairs
  data_eq : joinPairs pairs ++ buff = s.data.take pos
  pos_le : pos ≤ s.data.length

theorem emit_acc (split : Bytes → Int) (s : Stream) {pairs out buff pos} (h : Acc s pairs out buff pos) :
    ∃ pairs', Acc s pairs' (emit split out buff).1 (emit split out buff).2 pos := by
  unfold emit
  by_cases hb : buff.length > 0
  · simp only [hb, if_true]
    obtain ⟨e, he, hall⟩ := stripEol_decomp (buff.take (endp split buff))
    refine ⟨pairs ++ [(stripEol (buff.take (endp split buff)), e)], ?_, ?_, ?_, h.pos_le⟩
    · apply EolsOnly_append h.eols
      intro p hp
      simp only [List.mem_singleton] at hp
      subst hp
      exact hall
    · rw [chunksOf_append, ← h.out_eq]
      by_cases hc : (stripEol (buff.take (endp split buff))).length > 0
      · simp [hc, chunksOf]
      · simp [hc, chunksOf]
    · rw [joinPairs_append, ← h.data_eq]
      have : joinPairs [(stripEol (buff.take (endp split buff)), e)] = buff.take (endp split buff) := by
        simp [joinPairs, ← he]
      rw [this, List.append_assoc, List.take_append_drop]
  · simp only [hb, if_false]
    exact ⟨pairs, h⟩

theorem emit_length_le (split : Bytes → Int) (out : List Bytes) (buff : Bytes) :
    (emit split out buff).2.length ≤ buff.length := by
  unfold emit
  by_cases hb : buff.length > 0
  · simp only [hb, if_true, List.length_drop]; omega
  · simp [hb]

theorem emit_length_lt (split : Bytes → Int) (out : List Bytes) (buff : Bytes)
    (hb : 0 < buff.length) (he : 1 ≤ endp split buff) :
    (emit split out buff).2.length < buff.length := by
  unfold emit
  simp only [gt_iff_lt, hb, if_true, List.length_drop]; omega

/-! ## the outer loop -/

theorem endp_pos (split : Bytes → Int)
    (hs : ∀ b : Bytes, split b = -1 ∨ (1 ≤ split b ∧ split b ≤ (b.length : Int)))
    (buff : Bytes) (hb : 0 < buff.length) : 1 ≤ endp split buff := by
  unfold endp
  rcases hs buff with h | ⟨h1, _⟩
  · simp [h]; omega
  · have : ¬ split buff < 0 := by omega
    simp only [this, if_false]; omega

/-- `chunkLoop`, started with more fuel than `unread bytes + buffered bytes`, always ends on the
final error of the stream (its fuel is never exhausted), and what it pushed plus what it leaves in
the buffer is the whole stream, each chunk followed by the end-of-line bytes stripped from it -/
theorem chunkLoop_spec (split : Bytes → Int) (bufsz : Nat) (s : Stream) (hb : 2 ≤ bufsz)
    (hs : ∀ b : Bytes, split b = -1 ∨ (1 ≤ split b ∧ split b ≤ (b.length : Int))) :
    ∀ (fuel : Nat) (pairs : List (Bytes × Bytes)) (out : List Bytes) (buff : Bytes) (pos : Nat),
      Acc s pairs out buff pos → (s.data.length - pos) + buff.length < fuel →
      ∃ pairs', EolsOnly pairs' ∧
        (chunkLoop split bufsz s fuel out buff pos).1 = chunksOf pairs' ∧
        joinPairs pairs' ++ (chunkLoop split bufsz s fuel out buff pos).2.1 = s.data ∧
        (chunkLoop split bufsz s fuel out buff pos).2.2 = some s.final := by
  intro fuel
  induction fuel with
  | zero => intro _ _ _ _ _ h; omega
  | succ fuel ih =>
    intro pairs out buff pos hacc hfuel
    rw [chunkLoop_succ]
    obtain ⟨n, hn, e1, e2, e3⟩ := growLoop_spec split bufsz s hb (s.data.length + 2) buff pos
      hacc.pos_le (by omega)
    have hlen : ((s.data.drop pos).take n).length = n := by
      simp only [List.length_take, List.length_drop]; omega
    have hacc1 : Acc s pairs out (growLoop split bufsz s (s.data.length + 2) buff pos).1
        (growLoop split bufsz s (s.data.length + 2) buff pos).2.1 := by
      rw [e1, e2]
      refine ⟨hacc.eols, hacc.out_eq, ?_, hn⟩
      rw [← List.append_assoc, hacc.data_eq, List.take_add]
    obtain ⟨pairs1, hacc2⟩ := emit_acc split s hacc1
    rcases e3 with ⟨e3, hsp⟩ | ⟨e3, hend⟩
    · rw [e3]
      apply ih pairs1 _ _ _ hacc2
      have hpos : 0 < (growLoop split bufsz s (s.data.length + 2) buff pos).1.length := by
        rw [e1]
        rcases hs (buff ++ (s.data.drop pos).take n) with h | ⟨h1, h2⟩
        · omega
        · omega
      have hlt := emit_length_lt split out _ hpos (endp_pos split hs _ hpos)
      rw [e1, List.length_append, hlen] at hlt
      rw [e1, e2]
      omega
    · rw [e3]
      refine ⟨pairs1, hacc2.eols, hacc2.out_eq, ?_, rfl⟩
      have := hacc2.data_eq
      rw [e2, hend, List.take_length] at this
      exact this

/-! ## `readChunks` -/

/-- the end of `ReadSeqFileChunk`: push the rest of the buffer, or `log.Fatalf` -/
def finish (r : List Bytes × Bytes × Option Err) : List Bytes × Outcome :=
  match r.2.2 with
  | some Err.eof | none => (if r.2.1.length > 0 then r.1 ++ [r.2.1] else r.1, .ok)
  | some _ => (r.1, .fatal)

theorem readChunks_eq (split : Bytes → Int) (bufsz : Nat) (s : Stream) :
    readChunks split bufsz s =
      finish (if bufsz ≤ s.data.length then
                chunkLoop split bufsz s (s.data.length + 2) [] (s.data.take bufsz) bufsz
              else if s.final = Err.eof ∧ 0 < s.data.length then
                chunkLoop split bufsz s (s.data.length + 2) [] s.data s.data.length
              else ([], s.data, some s.final)) := by
  unfold readChunks readFull
  by_cases h : bufsz ≤ s.data.length
  · have hl : (List.take bufsz s.data).length = bufsz := by simp; omega
    simp only [Nat.sub_zero, h, if_true, List.drop_zero, hl]
    generalize chunkLoop split bufsz s (s.data.length + 2) [] (s.data.take bufsz) bufsz = r
    rcases r with ⟨a, b, _ | _ | _ | _⟩ <;> simp [finish]
  · simp only [Nat.sub_zero, h, if_false, List.drop_zero]
    by_cases h2 : s.final = Err.eof ∧ 0 < s.data.length
    · simp only [h2, gt_iff_lt, decide_true, Bool.and_self, if_true, and_self]
      generalize chunkLoop split bufsz s (s.data.length + 2) [] s.data s.data.length = r
      rcases r with ⟨a, b, _ | _ | _ | _⟩ <;> simp [finish]
    · have h3 : (decide (some s.final = some Err.eof) && decide (s.data.length > 0)) = false := by
        simpa using h2
      simp only [h2, h3, if_false, Bool.false_eq_true]
      cases s.final <;> simp [finish]

/-- `readChunks` in closed form: the stream is cut into chunks, each followed by the end-of-line
bytes stripped from it, and a last buffer; the outcome depends on the final error only -/
theorem readChunks_spec (split : Bytes → Int) (bufsz : Nat) (s : Stream) (hb : 2 ≤ bufsz)
    (hs : ∀ b : Bytes, split b = -1 ∨ (1 ≤ split b ∧ split b ≤ (b.length : Int))) :
    ∃ (pairs : List (Bytes × Bytes)) (buff : Bytes), EolsOnly pairs ∧ joinPairs pairs ++ buff = s.data ∧
      readChunks split bufsz s = finish (chunksOf pairs, buff, some s.final) := by
  have hnil : EolsOnly [] := fun p hp => by simp at hp
  rw [readChunks_eq]
  by_cases h : bufsz ≤ s.data.length
  · simp only [h, if_true]
    obtain ⟨pairs, h1, h2, h3, h4⟩ := chunkLoop_spec split bufsz s hb hs (s.data.length + 2) [] []
      (s.data.take bufsz) bufsz ⟨hnil, rfl, by simp [joinPairs], h⟩
      (by simp only [List.length_take]; omega)
    refine ⟨pairs, _, h1, h3, ?_⟩
    rw [← h2, ← h4]
  · simp only [h, if_false]
    by_cases h2 : s.final = Err.eof ∧ 0 < s.data.length
    · rw [if_pos h2]
      obtain ⟨pairs, h1, h2, h3, h4⟩ := chunkLoop_spec split bufsz s hb hs (s.data.length + 2) [] []
        s.data s.data.length ⟨hnil, rfl, by simp [joinPairs], Nat.le_refl _⟩ (by omega)
      refine ⟨pairs, _, h1, h3, ?_⟩
      rw [← h2, ← h4]
    · rw [if_neg h2]
      exact ⟨[], s.data, hnil, by simp [joinPairs], rfl⟩

/-! ## consequences of the accounting: nothing invented, nothing reordered, only end-of-lines lost -/

theorem chunksOf_flatten_cons (p : Bytes × Bytes) (ps : List (Bytes × Bytes)) :
    (chunksOf (p :: ps)).flatten = p.1 ++ (chunksOf ps).flatten := by
  by_cases h : 0 < p.1.length
  · simp [chunksOf, h]
  · have : p.1 = [] := List.eq_nil_of_length_eq_zero (by omega)
    simp [chunksOf, this]

theorem joinPairs_cons (p : Bytes × Bytes) (ps : List (Bytes × Bytes)) :
    joinPairs (p :: ps) = p.1 ++ p.2 ++ joinPairs ps := by
  simp [joinPairs]

theorem chunksOf_flatten_sublist : ∀ pairs : List (Bytes × Bytes),
    (chunksOf pairs).flatten.Sublist (joinPairs pairs)
  | [] => by simp [chunksOf, joinPairs]
  | p :: ps => by
    rw [chunksOf_flatten_cons, joinPairs_cons]
    exact List.Sublist.append (List.sublist_append_left _ _) (chunksOf_flatten_sublist ps)

theorem filter_eols_nil : ∀ (e : Bytes), (∀ c ∈ e, c = 10 ∨ c = 13) → e.filter (fun c => !isEol c) = []
  | [], _ => rfl
  | a :: e, h => by
    have ha : isEol a = true := (isEol_iff a).2 (h a (List.mem_cons_self))
    rw [List.filter_cons]
    simp only [ha, Bool.not_true, Bool.false_eq_true, if_false]
    exact filter_eols_nil e (fun c hc => h c (List.mem_cons_of_mem _ hc))

theorem chunksOf_filter : ∀ pairs : List (Bytes × Bytes), EolsOnly pairs →
    (joinPairs pairs).filter (fun c => !isEol c) = (chunksOf pairs).flatten.filter (fun c => !isEol c)
  | [], _ => by simp [chunksOf, joinPairs]
  | p :: ps, h => by
    rw [chunksOf_flatten_cons, joinPairs_cons, List.filter_append, List.filter_append, List.filter_append,
      filter_eols_nil p.2 (h p List.mem_cons_self), List.append_nil,
      chunksOf_filter ps (fun q hq => h q (List.mem_cons_of_mem _ hq))]

/-! ## the backward scan of the FASTA splitter -/

/-- invariant of `fastaScan`: in state 1 `last` is the index just scanned, in state 2 `last` is a
position in `1 .. len-1` -/
theorem fastaScan_inv (b : Array UInt8) (len : Nat) :
    ∀ (fuel i1 state last : Nat), i1 ≤ len →
      (state = 1 → last = i1 ∧ i1 < len) → (state = 2 → 1 ≤ last ∧ last < len) →
      fastaScan b fuel i1 state last = -1 ∨
        (1 ≤ fastaScan b fuel i1 state last ∧ fastaScan b fuel i1 state last < (len : Int)) := by
  intro fuel
  induction fuel with
  | zero =>
    intro i1 state last _ _ h2
    unfold fastaScan
    by_cases hs : state = 2
    · have := h2 hs
      simp only [hs, bne_self_eq_false, Bool.false_eq_true, if_false]
      omega
    · simp [hs]
  | succ fuel ih =>
    intro i1 state last hi h1 h2
    unfold fastaScan
    by_cases hc : (decide (i1 ≥ 1) && decide (state < 2)) = true
    · simp only [hc, if_true]
      simp only [Bool.and_eq_true, decide_eq_true_eq] at hc
      split
      · exact ih (i1 - 1) 1 (i1 - 1) (by omega) (fun _ => ⟨rfl, by omega⟩) (fun h => by omega)
      · split
        · rename_i _ h3
          simp only [Bool.and_eq_true, beq_iff_eq] at h3
          have := h1 h3.1
          exact ih (i1 - 1) 2 last (by omega) (fun h => by omega) (fun _ => by omega)
        · exact ih (i1 - 1) 0 last (by omega) (fun h => by omega) (fun h => by omega)
    · simp only [hc, Bool.false_eq_true, if_false]
      by_cases hs : state = 2
      · have := h2 hs
        by_cases h11 : i1 = 1
        · simp [h11]
        · simp only [h11, hs, bne_self_eq_false]
          omega
      · simp [hs]

end ObiVerif.ReadErr
