import ObiVerif.Model.LcsEgf
import ObiVerif.Lemmas.LcsMatrix
/-! C09, endgapfree = true: the banded matrix of the structural layer `bandEGF` (Model/LcsEgf.lean), cell by cell:
`cellME lo hi A B i j` and the recurrence it satisfies (`cellME_row0`, `cellME_col0`, `cellME_succ`); the last cell of
`bandLastE` is `cellME … |B| |A|`. Same development as Lemmas/LcsMatrix.lean with `bandCellE`. -/
namespace ObiVerif.Lcs

/-! ## the banded matrix by index -/

/-- row `i` of the banded matrix of `A` (columns) against `B` (rows) -/
def rowNE (lo hi : Int) (A B : Seq) : Nat → List UInt64
  | 0 => bandRow0E lo hi B.length 0 A
  | i + 1 => bandRowE lo hi B.length A (i + 1) (B.getD i 0) (rowNE lo hi A B i)

/-- cell `(i, j)` -/
def cellME (lo hi : Int) (A B : Seq) (i j : Nat) : UInt64 := (rowNE lo hi A B i).getD j 0

theorem bandRow0E_spec (lo hi : Int) (lB : Nat) (A : Seq) (j0 : Nat) :
    (bandRow0E lo hi lB j0 A).length = A.length + 1 ∧
    ∀ k, k ≤ A.length → (bandRow0E lo hi lB j0 A).getD k 0 = bandCellE lo hi lB 0 (j0 + k) false 0 0 0 := by
  induction A generalizing j0 with
  | nil =>
    refine ⟨by simp [bandRow0E], fun k hk => ?_⟩
    have : k = 0 := by simpa using hk
    subst this; simp [bandRow0E]
  | cons x as ih =>
    obtain ⟨h1, h2⟩ := ih (j0 + 1)
    refine ⟨by simp [bandRow0E, h1], fun k hk => ?_⟩
    cases k with
    | zero => simp [bandRow0E]
    | succ k =>
      have := h2 k (by simpa using hk)
      simp only [bandRow0E, List.getD_cons_succ, this]
      congr 1; omega

theorem bandRowGoE_spec (lo hi : Int) (lB : Nat) (i : Nat) (y : UInt8) (as : Seq) :
    ∀ (j : Nat) (left : UInt64) (prev : List UInt64), prev.length = as.length + 1 →
    (bandRowGoE lo hi lB i y j left as prev).length = as.length ∧
    ∀ k, k < as.length → (bandRowGoE lo hi lB i y j left as prev).getD k 0 =
      bandCellE lo hi lB i (j + k) (samenuc (as.getD k 0) y) (prev.getD k 0) (prev.getD (k + 1) 0)
        (if k = 0 then left else (bandRowGoE lo hi lB i y j left as prev).getD (k - 1) 0) := by
  induction as with
  | nil => intro j left prev _; exact ⟨by cases prev <;> simp [bandRowGoE], fun k hk => by simp at hk⟩
  | cons x as ih =>
    intro j left prev hp
    match prev, hp with
    | d :: u :: rest, hp =>
      obtain ⟨h1, h2⟩ := ih (j + 1) (bandCellE lo hi lB i j (samenuc x y) d u left) (u :: rest) (by simpa using hp)
      refine ⟨by simp [bandRowGoE, h1], fun k hk => ?_⟩
      cases k with
      | zero => simp [bandRowGoE]
      | succ k =>
        have := h2 k (by simpa using hk)
        simp only [bandRowGoE, List.getD_cons_succ, this]
        have e1 : j + 1 + k = j + (k + 1) := by omega
        rw [e1]
        cases k with
        | zero => simp
        | succ k => simp

theorem rowNE_length (lo hi : Int) (A B : Seq) (i : Nat) : (rowNE lo hi A B i).length = A.length + 1 := by
  induction i with
  | zero => exact (bandRow0E_spec lo hi B.length A 0).1
  | succ i ih => simp [rowNE, bandRowE, (bandRowGoE_spec lo hi B.length (i + 1) _ A 1 _ _ ih).1]

theorem cellME_row0 (lo hi : Int) (A B : Seq) (j : Nat) (hj : j ≤ A.length) :
    cellME lo hi A B 0 j = bandCellE lo hi B.length 0 j false 0 0 0 := by
  have := (bandRow0E_spec lo hi B.length A 0).2 j hj
  simpa [cellME, rowNE] using this

theorem cellME_col0 (lo hi : Int) (A B : Seq) (i : Nat) :
    cellME lo hi A B (i + 1) 0 = bandCellE lo hi B.length (i + 1) 0 false 0 0 0 := by
  simp [cellME, rowNE, bandRowE]

theorem cellME_succ (lo hi : Int) (A B : Seq) (i j : Nat) (hj : j < A.length) :
    cellME lo hi A B (i + 1) (j + 1) =
      bandCellE lo hi B.length (i + 1) (j + 1) (samenuc (A.getD j 0) (B.getD i 0))
        (cellME lo hi A B i j) (cellME lo hi A B i (j + 1)) (cellME lo hi A B (i + 1) j) := by
  have h := (bandRowGoE_spec lo hi B.length (i + 1) (B.getD i 0) A 1 (bandCellE lo hi B.length (i + 1) 0 false 0 0 0)
    (rowNE lo hi A B i) (rowNE_length lo hi A B i)).2 j hj
  simp only [cellME, rowNE, bandRowE, List.getD_cons_succ]
  rw [h]
  have e1 : 1 + j = j + 1 := by omega
  rw [e1]
  cases j with
  | zero => simp
  | succ j => simp

theorem bandRowsE_rowNE (lo hi : Int) (A B : Seq) :
    ∀ (bs : Seq) (k : Nat), k ≤ B.length → B.drop k = bs →
      bandRowsE lo hi B.length A (k + 1) bs (rowNE lo hi A B k) = rowNE lo hi A B B.length := by
  intro bs
  induction bs with
  | nil =>
    intro k hk h
    have h1 : B.length ≤ k := by simpa using h
    have : k = B.length := by omega
    subst this; simp [bandRowsE]
  | cons y bs ih =>
    intro k hk h
    have hlt : k < B.length := by
      rcases Nat.lt_or_ge k B.length with h' | h'
      · exact h'
      · rw [List.drop_of_length_le h'] at h; cases h
    have hy : B.getD k 0 = y := by
      have := List.getElem_cons_drop hlt
      rw [h] at this
      simp only [List.cons.injEq] at this
      simp [List.getD, List.getElem?_eq_getElem hlt, this.1]
    have hd : B.drop (k + 1) = bs := by
      have := List.getElem_cons_drop hlt
      rw [h] at this
      simp only [List.cons.injEq] at this
      exact this.2
    have := ih (k + 1) hlt hd
    simp only [bandRowsE]
    rw [← this, rowNE, hy]

theorem bandLastE_eq_rowNE (lo hi : Int) (A B : Seq) : bandLastE lo hi A B = rowNE lo hi A B B.length := by
  have := bandRowsE_rowNE lo hi A B B 0 (by omega) (by simp)
  simpa [bandLastE, rowNE] using this

theorem bandLastE_getLastD (lo hi : Int) (A B : Seq) :
    (bandLastE lo hi A B).getLastD 0 = cellME lo hi A B B.length A.length := by
  rw [bandLastE_eq_rowNE, cellME]
  have h := rowNE_length lo hi A B B.length
  generalize rowNE lo hi A B B.length = r at h
  rw [List.getLastD_eq_getLast?, List.getLast?_eq_getElem?, h]
  simp [List.getD]

end ObiVerif.Lcs
