import ObiVerif.Lemmas.ApatIndel
/-!
# `ManberIndel` with obligatory (`#`) positions: exact characterisation (C10, `indel_oblig_iff`)

`Lemmas/ApatIndel.lean` proves that the indel automaton is exact for patterns WITHOUT obligatory position.  With `#`
the C code masks the three error transitions (`ins | sub | del`) of a state by `cmask = ~omask`, but not the
pre-shifted start words of the init loop.  This file says exactly what that computes, for EVERY pattern of 1..63
positions (`ReachO`):

* an obligatory position is never substituted and never deleted, and no text symbol is inserted right after it
  (the state "prefix ending with an obligatory position" can only be entered by the identity transition);
* exception (`ReachO.start`): in front of the first symbol of the scanned window any pattern prefix — obligatory
  positions included — counts as deleted, one error per position (the words `smask | smask>>1 | …` written by the
  init loop are not masked by `omask`).

`ReachO rq s k`: the reversed pattern prefix `rq` aligns, at cost `k`, with a prefix of `s` (= the reversed text read
since the start of the window, i.e. with a suffix of the text read) under these rules.
`manberIndel_oblig_mem`: a hit `(pos - m + 1, k)` is pushed iff `k ≤ maxerr` is the least such cost for the whole pattern.
`reachO_strict_or_short`: the exception only concerns end positions closer than `m + k - 1` symbols to the window start;
`reachO_strict_of_long`: farther away every reported alignment is strict (`ReachS`: no `start` rule), so that an
obligatory position is matched by a symbol it accepts — "a `#` position never counts as an error".
`reachS_reach`: a strict alignment is an ordinary alignment (`Reach accepts false`): the reported count is at least the
plain edit distance to the best substring ending there.
-/
namespace ObiVerif.Apat

/-- alignments as the indel automaton reads them (lists reversed: head = last pattern position / last text symbol) -/
inductive ReachO : List Nat → List Nat → Nat → Prop
  /-- the empty prefix matches everywhere -/
  | nil (s : List Nat) : ReachO [] s 0
  /-- init loop of `ManberIndel`: before the first symbol of the window, the prefix of length `j` is present at level `j` -/
  | start (rq : List Nat) : ReachO rq [] rq.length
  /-- identity: the text symbol is accepted by the position -/
  | id {a c : Nat} {rq s : List Nat} {k : Nat} : accepts a c = true → ReachO rq s k → ReachO (a :: rq) (c :: s) k
  /-- substitution by a symbol the position does not accept (not at an obligatory position) -/
  | sub {a c : Nat} {rq s : List Nat} {k : Nat} : oblig a = false → accepts a c = false → ReachO rq s k →
      ReachO (a :: rq) (c :: s) (k + 1)
  /-- insertion of a text symbol after position `a` (not after an obligatory position) -/
  | ins {a c : Nat} {rq s : List Nat} {k : Nat} : oblig a = false → ReachO (a :: rq) s k → ReachO (a :: rq) (c :: s) (k + 1)
  /-- deletion of the pattern position (not an obligatory one) -/
  | del {a : Nat} {rq s : List Nat} {k : Nat} : oblig a = false → ReachO rq s k → ReachO (a :: rq) s (k + 1)

/-- strict alignments: the same rules without the start exception -/
inductive ReachS : List Nat → List Nat → Nat → Prop
  | nil (s : List Nat) : ReachS [] s 0
  | id {a c : Nat} {rq s : List Nat} {k : Nat} : accepts a c = true → ReachS rq s k → ReachS (a :: rq) (c :: s) k
  | sub {a c : Nat} {rq s : List Nat} {k : Nat} : oblig a = false → accepts a c = false → ReachS rq s k →
      ReachS (a :: rq) (c :: s) (k + 1)
  | ins {a c : Nat} {rq s : List Nat} {k : Nat} : oblig a = false → ReachS (a :: rq) s k → ReachS (a :: rq) (c :: s) (k + 1)
  | del {a : Nat} {rq s : List Nat} {k : Nat} : oblig a = false → ReachS rq s k → ReachS (a :: rq) s (k + 1)

def WithinO (rq s : List Nat) (e : Nat) : Prop := ∃ k, k ≤ e ∧ ReachO rq s k

theorem withinO_nil (s : List Nat) (e : Nat) : WithinO [] s e := ⟨0, Nat.zero_le _, ReachO.nil s⟩

theorem reachO_niltext_ge {rq s : List Nat} {k : Nat} (h : ReachO rq s k) : s = [] → rq.length ≤ k := by
  induction h with
  | nil s => intro _; exact Nat.le_refl _
  | start rq => intro _; exact Nat.le_refl _
  | id _ _ _ => intro hs; cases hs
  | sub _ _ _ _ => intro hs; cases hs
  | ins _ _ _ => intro hs; cases hs
  | del _ _ ih => intro hs; have := ih hs; simp only [List.length_cons]; omega

theorem withinO_niltext (rq : List Nat) (e : Nat) : WithinO rq [] e ↔ rq.length ≤ e := by
  constructor
  · rintro ⟨k, hk, hr⟩
    have := reachO_niltext_ge hr rfl
    omega
  · intro hle
    exact ⟨rq.length, hle, ReachO.start rq⟩

/-- the recurrence computed by one step of the automaton: identity, or — budget permitting and the position not being
obligatory — insertion, substitution, deletion -/
theorem withinO_step (a c : Nat) (rq s : List Nat) (e : Nat) :
    WithinO (a :: rq) (c :: s) e ↔
      (WithinO rq s e ∧ accepts a c = true) ∨
      (oblig a = false ∧ ∃ e', e = e' + 1 ∧ (WithinO (a :: rq) s e' ∨ WithinO rq s e' ∨ WithinO rq (c :: s) e')) := by
  constructor
  · rintro ⟨k, hk, hr⟩
    cases hr with
    | id hacc h => exact Or.inl ⟨⟨k, hk, h⟩, hacc⟩
    | @sub _ _ _ _ k' ho _ h => exact Or.inr ⟨ho, e - 1, by omega, Or.inr (Or.inl ⟨k', by omega, h⟩)⟩
    | @ins _ _ _ _ k' ho h => exact Or.inr ⟨ho, e - 1, by omega, Or.inl ⟨k', by omega, h⟩⟩
    | @del _ _ _ k' ho h => exact Or.inr ⟨ho, e - 1, by omega, Or.inr (Or.inr ⟨k', by omega, h⟩)⟩
  · rintro (⟨⟨k, hk, h⟩, hacc⟩ | ⟨ho, e', rfl, ⟨k, hk, h⟩ | ⟨k, hk, h⟩ | ⟨k, hk, h⟩⟩)
    · exact ⟨k, hk, ReachO.id hacc h⟩
    · exact ⟨k + 1, by omega, ReachO.ins ho h⟩
    · by_cases hacc : accepts a c = true
      · exact ⟨k, by omega, ReachO.id hacc h⟩
      · exact ⟨k + 1, by omega, ReachO.sub ho (by simpa using hacc) h⟩
    · exact ⟨k + 1, by omega, ReachO.del ho h⟩

/-! ## the invariant -/

/-- the automaton invariant for one level, obligatory positions included -/
def RepIO (codes seen : List Nat) (e : Nat) (r : W) : Prop :=
  ∀ j, 1 ≤ j → j ≤ codes.length → (r.getLsbD (codes.length - j) = true ↔ WithinO ((codes.take j).reverse) seen e)

def PrevOkIO (codes seen : List Nat) (c e : Nat) (pr0 pr1 : W) : Prop :=
  (e = 0 ∧ pr0 = 0 ∧ pr1 = 0) ∨
  (∃ e' r', e = e' + 1 ∧ RepIO codes seen e' r' ∧ pr0 = r' ||| (1#64 <<< codes.length) ∧ RepIO codes (c :: seen) e' pr1)

theorem repIO_prev_bit (codes seen : List Nat) (e : Nat) (r : W) (hr : RepIO codes seen e r)
    (hm : codes.length ≤ 63) (j : Nat) (hj1 : 1 ≤ j) (hjm : j ≤ codes.length) :
    (r.getLsbD (codes.length - j + 1) = true ∨ (1#64 <<< codes.length).getLsbD (codes.length - j + 1) = true) ↔
      WithinO ((codes.take (j - 1)).reverse) seen e := by
  rw [one_shl_bit]
  by_cases h1 : j = 1
  · subst h1
    have : codes.length - 1 + 1 = codes.length := by omega
    rw [this]
    simp only [Nat.sub_self, List.take_zero, List.reverse_nil]
    constructor
    · intro _; exact withinO_nil _ _
    · intro _; right; simp; omega
  · have h2 : codes.length - j + 1 = codes.length - (j - 1) := by omega
    have h3 : ¬ (codes.length - (j - 1) = codes.length) := by omega
    rw [h2, hr (j - 1) (by omega) (by omega)]
    simp [h3]

theorem indelStep_repIO (codes seen : List Nat) (c e : Nat) (pr0 pr1 r : W) (hm : codes.length ≤ 63)
    (hr : RepIO codes seen e r) (hp : PrevOkIO codes seen c e pr0 pr1) :
    RepIO codes (c :: seen) e
      (indelStep (1#64 <<< codes.length) (~~~ omaskWord codes) (smatWord codes c) pr0 pr1 r) := by
  intro j hj1 hjm
  have hlt : codes.length - j < 64 := by omega
  generalize ha : codes.getD (j - 1) 0 = a
  have hcm : (~~~ omaskWord codes).getLsbD (codes.length - j) = !(oblig a) := by
    rw [BitVec.getLsbD_not, omask_bit codes j (by omega) hj1 hjm, ha]
    simp [hlt]
  rw [indelStep_bit, hcm, smat_bit codes c j (by omega) hj1 hjm, take_reverse_succ codes j hj1 hjm, ha,
    withinO_step]
  have hid := repIO_prev_bit codes seen e r hr hm j hj1 hjm
  simp only [Bool.or_eq_true, Bool.and_eq_true, Bool.not_eq_true']
  rw [hid]
  rcases hp with ⟨he, h0, h1⟩ | ⟨e', r', he, hr', h0, h1⟩
  · subst he; subst h0; subst h1
    simp
  · subst he; subst h0
    have hA : (r' ||| (1#64 <<< codes.length)).getLsbD (codes.length - j) = true ↔
        WithinO (a :: (codes.take (j - 1)).reverse) seen e' := by
      rw [BitVec.getLsbD_or, one_shl_bit]
      have : ¬ (codes.length - j = codes.length) := by omega
      simp only [this, decide_false, Bool.false_and, Bool.or_false]
      rw [hr' j hj1 hjm, take_reverse_succ codes j hj1 hjm, ha]
    have hB : (r' ||| (1#64 <<< codes.length)).getLsbD (codes.length - j + 1) = true ↔
        WithinO ((codes.take (j - 1)).reverse) seen e' := by
      rw [BitVec.getLsbD_or, Bool.or_eq_true]
      exact repIO_prev_bit codes seen e' r' hr' hm j hj1 hjm
    rw [hA, hB]
    by_cases hj : j = 1
    · -- first column: the empty prefix always matches
      subst hj
      simp only [Nat.sub_self, List.take_zero, List.reverse_nil]
      constructor
      · rintro (⟨_, ho⟩ | h)
        · exact Or.inr ⟨ho, e', rfl, Or.inr (Or.inl (withinO_nil _ _))⟩
        · exact Or.inl h
      · rintro (h | ⟨ho, _⟩)
        · exact Or.inr h
        · exact Or.inl ⟨Or.inl (Or.inr (withinO_nil _ _)), ho⟩
    · have hC : pr1.getLsbD (codes.length - j + 1) = true ↔ WithinO ((codes.take (j - 1)).reverse) (c :: seen) e' := by
        have h2 : codes.length - j + 1 = codes.length - (j - 1) := by omega
        rw [h2, h1 (j - 1) (by omega) (by omega)]
      rw [hC]
      constructor
      · rintro (⟨(h | h) | h, ho⟩ | h)
        · exact Or.inr ⟨ho, e', rfl, Or.inl h⟩
        · exact Or.inr ⟨ho, e', rfl, Or.inr (Or.inl h)⟩
        · exact Or.inr ⟨ho, e', rfl, Or.inr (Or.inr h)⟩
        · exact Or.inl h
      · rintro (h | ⟨ho, e'', he, h | h | h⟩)
        · exact Or.inr h
        · have : e'' = e' := by omega
          subst this; exact Or.inl ⟨Or.inl (Or.inl h), ho⟩
        · have : e'' = e' := by omega
          subst this; exact Or.inl ⟨Or.inl (Or.inr h), ho⟩
        · have : e'' = e' := by omega
          subst this; exact Or.inl ⟨Or.inr h, ho⟩

def RepAllIO (codes seen : List Nat) (e0 : Nat) (rs : List W) : Prop :=
  ∀ k r, rs[k]? = some r → RepIO codes seen (e0 + k) r

theorem indelLevels_repIO (codes seen : List Nat) (c : Nat) (hm : codes.length ≤ 63)
    (rs : List W) (e0 : Nat) (pr0 pr1 : W)
    (hr : RepAllIO codes seen e0 rs) (hp : PrevOkIO codes seen c e0 pr0 pr1) :
    RepAllIO codes (c :: seen) e0
      (indelLevels (1#64 <<< codes.length) (~~~ omaskWord codes) (smatWord codes c) pr0 pr1 rs) := by
  induction rs generalizing e0 pr0 pr1 with
  | nil => intro k r h; simp [indelLevels] at h
  | cons r0 rs ih =>
    have h0 : RepIO codes seen e0 r0 := by have := hr 0 r0 (by simp); simpa using this
    have hnew := indelStep_repIO codes seen c e0 pr0 pr1 r0 hm h0 hp
    intro k r h
    rw [indelLevels_cons] at h
    cases k with
    | zero =>
      simp only [List.getElem?_cons_zero, Option.some.injEq] at h
      subst h
      exact hnew
    | succ k =>
      simp only [List.getElem?_cons_succ] at h
      have hr' : RepAllIO codes seen (e0 + 1) rs := by
        intro k' r' h'
        have := hr (k' + 1) r' (by simpa using h')
        have e : e0 + (k' + 1) = e0 + 1 + k' := by omega
        rwa [e] at this
      have := ih (e0 + 1) (r0 ||| (1#64 <<< codes.length)) _ hr' (Or.inr ⟨e0, r0, rfl, h0, rfl, hnew⟩) k r h
      have e : e0 + (k + 1) = e0 + 1 + k := by omega
      rwa [e]

theorem runLevels_repIO (codes : List Nat) (hm : codes.length ≤ 63)
    (cs seen : List Nat) (rs : List W) (hcs : ∀ c ∈ cs, c < 26) (hr : RepAllIO codes seen 0 rs) :
    RepAllIO codes (cs.reverse ++ seen) 0
      (runLevels (fun sindx => indelLevels (1#64 <<< codes.length) (~~~ omaskWord codes) sindx 0 0) (smat codes) rs cs) := by
  induction cs generalizing seen rs with
  | nil => simpa [runLevels] using hr
  | cons c cs ih =>
    simp only [runLevels, List.reverse_cons, List.append_assoc, List.singleton_append]
    apply ih
    · intro c' hc'; exact hcs c' (List.mem_cons_of_mem _ hc')
    · rw [smat_getD codes c (hcs c (by simp))]
      exact indelLevels_repIO codes seen c hm rs 0 0 0 hr (Or.inl ⟨rfl, rfl, rfl⟩)

/-- the initial words (NOT masked by `omask`): level `e` has the bits `m, m-1, …, m-e` -/
theorem indelInit_repIO (codes : List Nat) (hm : codes.length ≤ 63) (n e0 : Nat) (c : W)
    (hc : ∀ i, i < 64 → c.getLsbD i = decide (i ≤ codes.length ∧ codes.length ≤ i + e0)) :
    RepAllIO codes [] e0 (indelInit (1#64 <<< codes.length) n c) := by
  induction n generalizing e0 c with
  | zero => intro k r h; simp [indelInit] at h
  | succ n ih =>
    intro k r h
    cases k with
    | zero =>
      simp only [indelInit, List.getElem?_cons_zero, Option.some.injEq] at h
      subst h
      intro j hj1 hjm
      rw [hc _ (by omega), withinO_niltext]
      simp only [List.length_reverse, List.length_take, Nat.add_zero, decide_eq_true_eq]
      omega
    | succ k =>
      simp only [indelInit, List.getElem?_cons_succ] at h
      have := ih (e0 + 1) ((c >>> 1) ||| (1#64 <<< codes.length)) (by
        intro i hi
        rw [BitVec.getLsbD_or, BitVec.getLsbD_ushiftRight, one_shl_bit]
        by_cases h64 : 1 + i < 64
        · rw [hc _ h64, Bool.eq_iff_iff]
          simp only [Bool.or_eq_true, Bool.and_eq_true, decide_eq_true_eq]
          omega
        · have : c.getLsbD (1 + i) = false := by
            apply BitVec.getLsbD_of_ge; omega
          rw [this, Bool.eq_iff_iff]
          simp only [Bool.or_eq_true, Bool.and_eq_true, decide_eq_true_eq, Bool.false_eq_true, false_or]
          omega) k r h
      have e : e0 + (k + 1) = e0 + 1 + k := by omega
      rwa [e]

noncomputable def withinOB (rq s : List Nat) (e : Nat) : Bool := @decide (WithinO rq s e) (Classical.propDecidable _)

theorem withinOB_iff (rq s : List Nat) (e : Nat) : withinOB rq s e = true ↔ WithinO rq s e := by
  unfold withinOB
  exact @decide_eq_true_iff _ (Classical.propDecidable _)

theorem withinOB_false_iff (rq s : List Nat) (e : Nat) : withinOB rq s e = false ↔ ¬ WithinO rq s e := by
  rw [← withinOB_iff]
  cases withinOB rq s e <;> simp

theorem least_withinO (rq s : List Nat) (k : Nat) :
    (WithinO rq s k ∧ ∀ e', e' < k → ¬ WithinO rq s e') ↔ IsLeast (ReachO rq s) k := by
  constructor
  · rintro ⟨⟨k0, hk0, hr⟩, h2⟩
    have : k0 = k := by
      by_cases hlt : k0 < k
      · exact absurd ⟨k0, Nat.le_refl _, hr⟩ (h2 k0 hlt)
      · omega
    subst this
    refine ⟨hr, fun k' hk' => ?_⟩
    by_cases hlt : k' < k0
    · exact absurd ⟨k', Nat.le_refl _, hk'⟩ (h2 k' hlt)
    · omega
  · rintro ⟨h1, h2⟩
    refine ⟨⟨k, Nat.le_refl _, h1⟩, ?_⟩
    rintro e' hlt ⟨k0, hk0, hr⟩
    have := h2 k0 hr
    omega

/-- **the indel automaton, obligatory positions included**: `(i, k)` is pushed on the hit stacks iff `i = pos - m + 1`
for a position `pos` of the scanned window `[begin, min(begin+length, |data|))`, `k ≤ maxerr`, and `k` is the least cost
of an alignment (`ReachO`) of the whole pattern with a suffix of the text `data[begin .. pos]` read so far. -/
theorem manberIndel_oblig_mem (P : Pattern) (data : List Nat) (begin length : Nat)
    (hm1 : 1 ≤ P.patlen) (hm : P.patlen ≤ 63) (hd : ∀ c ∈ data, c < 26) (i : Int) (k : Nat) :
    (i, k) ∈ manberIndel P data begin length ↔
      ∃ pos : Nat, begin ≤ pos ∧ pos < min (begin + length) data.length ∧ i = (pos : Int) - P.patlen + 1 ∧ k ≤ P.maxerr ∧
        IsLeast (ReachO P.codes.reverse (((data.drop begin).take (pos + 1 - begin)).reverse)) k := by
  unfold manberIndel Pattern.patlen at *
  simp only []
  rw [errScan_mem]
  have hwl := window_length data begin length
  have hwin : ∀ c ∈ window data begin length, c < 26 := by
    intro c hc
    unfold window at hc
    exact hd c (List.mem_of_mem_drop (List.mem_of_mem_take hc))
  have hfirst : ∀ t, t < (window data begin length).length →
      (firstHit (runLevels (fun sindx => indelLevels (1#64 <<< P.codes.length) (~~~ omaskWord P.codes) sindx 0 0) (smat P.codes)
          (indelInit (1#64 <<< P.codes.length) (P.maxerr + 1) (1#64 <<< P.codes.length)) ((window data begin length).take (t + 1))) 0 = some k ↔
        IsLeast (ReachO P.codes.reverse (((window data begin length).take (t + 1)).reverse)) k ∧ k ≤ P.maxerr) := by
    intro t _
    have hinit : RepAllIO P.codes [] 0 (indelInit (1#64 <<< P.codes.length) (P.maxerr + 1) (1#64 <<< P.codes.length)) := by
      apply indelInit_repIO P.codes hm
      intro i hi
      rw [one_shl_bit]
      by_cases h1 : i = P.codes.length <;> simp [h1, hi] <;> omega
    have hrep := runLevels_repIO P.codes hm ((window data begin length).take (t + 1)) [] _
      (fun c hc => hwin c (List.mem_of_mem_take hc)) hinit
    rw [List.append_nil] at hrep
    rw [firstHit_spec (fun e => withinOB P.codes.reverse (((window data begin length).take (t + 1)).reverse) e)]
    · rw [runLevels_lengthI, indelInit_length, ← least_withinO]
      simp only [withinOB_iff, withinOB_false_iff, Nat.zero_add, Nat.zero_le, true_and, forall_const]
      constructor
      · rintro ⟨h2, h3, h4⟩
        exact ⟨⟨h3, h4⟩, by omega⟩
      · rintro ⟨⟨h3, h4⟩, h2⟩
        exact ⟨by omega, h3, h4⟩
    · intro e r hr
      have := hrep e r hr P.codes.length hm1 (Nat.le_refl _)
      rw [Nat.sub_self, List.take_length, Nat.zero_add] at this
      rw [Nat.zero_add]
      cases hb : r.getLsbD 0 with
      | true => exact ((withinOB_iff _ _ _).2 (this.1 hb)).symm
      | false =>
        symm
        rw [withinOB_false_iff]
        intro hw
        have := this.2 hw
        rw [hb] at this; cases this
  have htake : ∀ t, t < (window data begin length).length →
      (window data begin length).take (t + 1) = (data.drop begin).take (t + 1) := by
    intro t ht
    unfold window
    rw [List.take_take]
    congr 1
    omega
  constructor
  · rintro ⟨t, ht, hi, hf⟩
    obtain ⟨hl, hk⟩ := (hfirst t ht).1 hf
    rw [htake t ht] at hl
    refine ⟨begin + t, by omega, by omega, hi, hk, ?_⟩
    have e1 : begin + t + 1 - begin = t + 1 := by omega
    rw [e1]; exact hl
  · rintro ⟨pos, hp1, hp2, hi, hk, hl⟩
    have ht : pos - begin < (window data begin length).length := by omega
    refine ⟨pos - begin, ht, ?_, ?_⟩
    · rw [hi]; congr 2; omega
    · rw [hfirst _ ht]
      refine ⟨?_, hk⟩
      rw [htake _ ht]
      have e1 : pos - begin + 1 = pos + 1 - begin := by omega
      rw [e1]; exact hl

/-! ## what the alignments are -/

theorem ReachS.toO {rq s : List Nat} {k : Nat} (h : ReachS rq s k) : ReachO rq s k := by
  induction h with
  | nil s => exact ReachO.nil s
  | id ha _ ih => exact ReachO.id ha ih
  | sub ho hn _ ih => exact ReachO.sub ho hn ih
  | ins ho _ ih => exact ReachO.ins ho ih
  | del ho _ ih => exact ReachO.del ho ih

/-- an alignment of the automaton is strict, or it used the start exception — and is then short: at most `m + k - 2`
text symbols since the start of the window -/
theorem reachO_strict_or_short {rq s : List Nat} {k : Nat} (h : ReachO rq s k) :
    ReachS rq s k ∨ s.length + 2 ≤ rq.length + k := by
  induction h with
  | nil s => exact Or.inl (ReachS.nil s)
  | start rq =>
    cases rq with
    | nil => exact Or.inl (ReachS.nil [])
    | cons a rq => right; simp only [List.length_cons, List.length_nil]; omega
  | id ha _ ih =>
    rcases ih with ih | ih
    · exact Or.inl (ReachS.id ha ih)
    · right; simp only [List.length_cons]; omega
  | sub ho hn _ ih =>
    rcases ih with ih | ih
    · exact Or.inl (ReachS.sub ho hn ih)
    · right; simp only [List.length_cons]; omega
  | ins ho _ ih =>
    rcases ih with ih | ih
    · exact Or.inl (ReachS.ins ho ih)
    · right; simp only [List.length_cons] at *; omega
  | del ho _ ih =>
    rcases ih with ih | ih
    · exact Or.inl (ReachS.del ho ih)
    · right; simp only [List.length_cons]; omega

/-- far enough from the start of the window every alignment is strict -/
theorem reachO_strict_of_long {rq s : List Nat} {k : Nat} (h : ReachO rq s k) (hl : rq.length + k < s.length + 2) :
    ReachS rq s k := by
  rcases reachO_strict_or_short h with h | h
  · exact h
  · omega

/-- a strict alignment is an ordinary alignment of the pattern prefix with a suffix of the text read -/
theorem reachS_reach {rq s : List Nat} {k : Nat} (h : ReachS rq s k) : Reach accepts false rq s k := by
  induction h with
  | nil s => exact (least_nilpat accepts false s).1
  | @id a c rq s k ha _ ih =>
    obtain ⟨x, u, v, hx, hf, hali⟩ := ih
    have hx0 := hf rfl
    subst hx0
    refine ⟨[], c :: u, v, by rw [hx]; rfl, fun _ => rfl, ?_⟩
    have := Ali.sub a c hali
    simp only [subCost, ha, if_true, Nat.add_zero] at this
    exact this
  | @sub a c rq s k _ hn _ ih =>
    obtain ⟨x, u, v, hx, hf, hali⟩ := ih
    have hx0 := hf rfl
    subst hx0
    refine ⟨[], c :: u, v, by rw [hx]; rfl, fun _ => rfl, ?_⟩
    have := Ali.sub a c hali
    simp only [subCost, hn, Bool.false_eq_true, if_false] at this
    exact this
  | @ins a c rq s k _ _ ih =>
    obtain ⟨x, u, v, hx, hf, hali⟩ := ih
    have hx0 := hf rfl
    subst hx0
    exact ⟨[], c :: u, v, by rw [hx]; rfl, fun _ => rfl, Ali.ins c hali⟩
  | @del a rq s k _ _ ih =>
    obtain ⟨x, u, v, hx, hf, hali⟩ := ih
    have hx0 := hf rfl
    subst hx0
    exact ⟨[], u, v, hx, fun _ => rfl, Ali.del a hali⟩

end ObiVerif.Apat
