import ObiVerif.Lemmas.TagRecord
/-!
# (a) each recorded distance of `IndexSequence` is the minimum of its own lineage level; (b) the two stages of
`obitag2.Identify`: the ancestor statement for the list searched last (C15, round 2)
-/
namespace ObiVerif.Tag
open ObiVerif.Tax

/-! ## (a) minimality within the level -/

/-- an entry `(d, a)` of the index: `d` is at most the distance of every reference whose LCA with the indexed
sequence is `a` (the level of `a`) -/
theorem ixRecord_level_min (lseq : Nat) (c : Nat → Cand) (anc : Nat → Nat) (ow : List Nat)
    (hs : SortedByCw c ow) (hq : QGramBound lseq c ow) :
    ∀ (as pre : List Nat) (st : IxState) (old : Nat),
      IsMin c anc ow pre st.mini → (st.mini = none → st.wordmin ≤ 0) →
      ∀ e ∈ ixRecord as (ixOuter thrNew lseq c anc ow as st) old, ∀ j ∈ ow, anc j = e.2 → e.1 ≤ (c j).dist := by
  intro as
  induction as with
  | nil => intro pre st old _ _ e he; simp [ixRecord] at he
  | cons a as ih =>
    intro pre st old hmin hw e he
    obtain ⟨r1, r2⟩ := ixInner_spec lseq c anc a ow st hw hs hq
    have hmin' := isMin_step c anc ow pre a st.mini hmin
    rw [← r1] at hmin'
    unfold ixOuter at he
    simp only at he
    cases hmi : (ixInner thrNew lseq c anc a ow st).mini with
    | none =>
      rw [hmi] at he
      simp only [ixRecord] at he
      exact ih (pre ++ [a]) _ old hmin' r2 e he
    | some d =>
      rw [hmi] at he
      simp only [ixRecord] at he
      by_cases hlt : d < old
      · simp only [hlt, if_true] at he
        rcases List.mem_cons.1 he with he | he
        · subst he
          intro j hj haj
          rw [hmi] at hmin'
          exact hmin'.1 j hj (by simp [haj])
        · exact ih (pre ++ [a]) _ d hmin' r2 e he
      · simp only [hlt, if_false] at he
        exact ih (pre ++ [a]) _ old hmin' r2 e he

theorem indexCore_level_min (lseq : Nat) (c : Nat → Cand) (anc : Nat → Nat) (ow pseq : List Nat)
    (hs : SortedByCw c ow) (hq : QGramBound lseq c ow) :
    ∀ e ∈ indexCore lseq c anc ow pseq, ∀ j ∈ ow, anc j = e.2 → e.1 ≤ (c j).dist :=
  ixRecord_level_min lseq c anc ow hs hq pseq [] { mini := none, wordmin := 0 } lseq
    (by intro j _; simp) (by intro _; exact Int.le_refl 0)

variable {t : Taxo} {root : Nat} {depth : Nat → Nat} {fuel : Nat}

/-- **every recorded distance is the minimum of its level**: an entry `d ↦ a` of the index of reference `seqidx`
is such that some reference whose LCA with the indexed sequence is `a` is at distance exactly `d`, and NO reference
whose LCA with the indexed sequence is `a` is closer than `d` -/
theorem indexSequence_level_min (wf : WF t root depth) (hf : FuelOK t fuel)
    (taxids : List Nat) (htax : ∀ x ∈ taxids, ∃ n, t.node x = some n)
    (seqidx lseq : Nat) (hidx : seqidx < taxids.length) (c : Nat → Cand) (ow : List Nat)
    (hperm : ∀ j, j ∈ ow ↔ j < taxids.length)
    (hs : SortedByCw c ow) (hq : QGramBound lseq c ow) :
    ∃ idx, indexSequence t fuel taxids seqidx lseq c ow = .ok idx ∧
      ∀ e ∈ idx,
        (∃ j, j < taxids.length ∧ Tax.lca t fuel (taxids.getD seqidx 0) (taxids.getD j 0) = .ok e.2 ∧ (c j).dist = e.1) ∧
        (∀ j, j < taxids.length → Tax.lca t fuel (taxids.getD seqidx 0) (taxids.getD j 0) = .ok e.2 → e.1 ≤ (c j).dist) := by
  have hgetD : ∀ j, j < taxids.length → ∃ n, t.node (taxids.getD j 0) = some n := by
    intro j hj
    apply htax
    rw [List.getD_eq_getElem?_getD, List.getElem?_eq_getElem hj]
    simp
  obtain ⟨ns, hns⟩ := hgetD seqidx hidx
  obtain ⟨zs, hz1, _, hz3⟩ := lcaAll_ok wf hf hns taxids htax
  obtain ⟨p, hp1, hp⟩ := path_total wf hf hns
  refine ⟨indexCore lseq c (fun j => zs.getD j 0) ow p.reverse, by simp only [indexSequence, hz1, hp1], ?_⟩
  intro e he
  obtain ⟨pre, post, _, ⟨js, hjs, hajs, hdjs⟩, _, _⟩ :=
    indexCore_entry lseq c (fun j => zs.getD j 0) ow p.reverse hs hq e he
  refine ⟨⟨js, (hperm js).1 hjs, ?_, hdjs⟩, ?_⟩
  · rw [hz3 js ((hperm js).1 hjs)]
    exact congrArg Except.ok hajs
  · intro j hj hl
    apply indexCore_level_min lseq c (fun j => zs.getD j 0) ow p.reverse hs hq e he j ((hperm j).2 hj)
    have := hz3 j hj
    rw [hl] at this
    exact (Except.ok.inj this).symm

/-! ## (b) the two stages of `obitag2.Identify` -/

theorem selectAllG_spec {ι : Type} {sel : ι → Nat → Tax.Res Nat} {index : Nat → Tax.Res ι} {d : Nat} :
    ∀ {bs ms : List Nat}, selectAllG sel index d bs = .ok ms →
      (∀ b ∈ bs, ∃ m ∈ ms, ∃ idx, index b = .ok idx ∧ sel idx d = .ok m) ∧
      (∀ m ∈ ms, ∃ b ∈ bs, ∃ idx, index b = .ok idx ∧ sel idx d = .ok m) := by
  intro bs
  induction bs with
  | nil => intro ms h; simp [selectAllG] at h; cases h; simp
  | cons b bs ih =>
    intro ms h
    unfold selectAllG at h
    cases h1 : index b with
    | error e => rw [h1] at h; cases h
    | ok idx =>
      rw [h1] at h
      simp only at h
      cases h2 : sel idx d with
      | error e => rw [h2] at h; cases h
      | ok m =>
        rw [h2] at h
        simp only at h
        cases h3 : selectAllG sel index d bs with
        | error e => rw [h3] at h; cases h
        | ok ms' =>
          rw [h3] at h
          simp only at h
          cases h
          obtain ⟨i1, i2⟩ := ih h3
          refine ⟨?_, ?_⟩
          · intro b' hb'
            rcases List.mem_cons.1 hb' with e | hb'
            · subst e; exact ⟨m, List.mem_cons_self, idx, h1, h2⟩
            · obtain ⟨m', hm', r⟩ := i1 b' hb'
              exact ⟨m', List.mem_cons_of_mem _ hm', r⟩
          · intro m' hm'
            rcases List.mem_cons.1 hm' with e | hm'
            · subst e; exact ⟨b, List.mem_cons_self, idx, h1, h2⟩
            · obtain ⟨b', hb', r⟩ := i2 m' hm'
              exact ⟨b', List.mem_cons_of_mem _ hb', r⟩

/-- one search + consensus (the body shared by `Identify`, and by each stage of `obitag2.Identify`): when every
selected entry of the index of reference `b` is a node above the taxon `tax b` of that reference, the consensus is
an ancestor-or-self of the taxon of every reference of `idxs` -/
theorem stage_anc {ι : Type} (wf : WF t root depth) (hf : FuelOK t fuel) (sel : ι → Nat → Tax.Res Nat)
    (index : Nat → Tax.Res ι) (tax : Nat → Nat) (d : Nat) (idxs ms : List Nat) (z : Nat)
    (hsel : ∀ b ∈ idxs, ∀ idx m, index b = .ok idx → sel idx d = .ok m → (∃ n, t.node m = some n) ∧ Anc t m (tax b))
    (h1 : selectAllG sel index d idxs = .ok ms) (h2 : consensus t fuel none ms = .ok (some z)) :
    ∀ b ∈ idxs, Anc t z (tax b) := by
  obtain ⟨s1, s2⟩ := selectAllG_spec h1
  have hnodes : ∀ m ∈ ms, ∃ nm, t.node m = some nm := by
    intro m hm
    obtain ⟨b, hb, idx, hidx, hm'⟩ := s2 m hm
    exact (hsel b hb idx m hidx hm').1
  obtain ⟨_, c2⟩ := consensus_anc wf hf ms none z hnodes (by intro x hx; cases hx) h2
  intro b hb
  obtain ⟨m, hm, idx, hidx, hm'⟩ := s1 b hb
  exact (c2 m hm).trans (hsel b hb idx m hidx hm').2

/-- what the selection loop on the TEXT of an index built by `IndexSequence` returns is a node above the taxon of
the indexed reference -/
theorem selectText_index_anc (nm rk : Nat → Text) {taxids : List Nat} {b lseq : Nat} {c : Nat → Cand} {ow : List Nat}
    {T : List (Nat × Text)} {D m : Nat}
    (h : (indexSequence t fuel taxids b lseq c ow).map (textIndex nm rk) = .ok T)
    (hm : selectText t T D = .ok m) : (∃ n, t.node m = some n) ∧ Anc t m (taxids.getD b 0) := by
  cases hi : indexSequence t fuel taxids b lseq c ow with
  | error e => rw [hi] at h; cases h
  | ok idx =>
    rw [hi] at h
    have hT : T = textIndex nm rk idx := by cases h; rfl
    subst hT
    have hn := fun e he => (indexSequence_anc hi e he).2
    rw [selectText_wellformed t nm rk idx hn D] at hm
    obtain ⟨e, he, rfl⟩ := selectEntry_mem hm
    exact ⟨(indexSequence_anc hi e he).2, (indexSequence_anc hi e he).1⟩

/-- **the two stages of `obitag2.Identify`, ancestor statement**: whatever the exact-match table, the cluster heads
and the families, when the answer comes from a search (`stage ≠ exact`) the assigned taxon is the root (identity
below 0.5) or an ancestor-or-self of the taxon of EVERY reference returned by the search run LAST: the search among
the members of the family `f` for `.family f`, the search among the cluster heads for `.clusters`.  `taxC b` /
`taxF f b` = taxon of cluster head `b` / of member `b` of family `f`; the hypotheses on `sel` say that an entry
selected in the index of a reference is a node above the taxon of that reference (true of indices built by
`IndexSequence`: `selectText_index_anc`). -/
theorem identify2_anc {ι : Type} (wf : WF t 1 depth) (hf : FuelOK t fuel) (sel : ι → Nat → Tax.Res Nat)
    (fcC : FCOut) (indexC : Nat → Tax.Res ι) (fam : Nat → Option (FCOut × (Nat → Tax.Res ι)))
    (taxC : Nat → Nat) (taxF : Nat → Nat → Nat)
    (hC : ∀ b idx D m, indexC b = .ok idx → sel idx D = .ok m → (∃ n, t.node m = some n) ∧ Anc t m (taxC b))
    (hF : ∀ f fcF indexF, fam f = some (fcF, indexF) →
      ∀ b idx D m, indexF b = .ok idx → sel idx D = .ok m → (∃ n, t.node m = some n) ∧ Anc t m (taxF f b))
    (z bm w : Nat) (stage : Id2Stage) (h : identify2 sel t fuel none fcC indexC fam = .ok z bm w stage) :
    (∃ f, stage = .family f ∧ ∃ maxe2 bid2 idxs2 indexF, fam f = some (.ok maxe2 bid2 bm idxs2, indexF) ∧
        ∀ b ∈ idxs2, Anc t z (taxF f b)) ∨
    (stage = .clusters ∧ ∃ maxe bid idxs, fcC = .ok maxe bid bm idxs ∧ w = idxs.length ∧
        (z = 1 ∨ ∀ b ∈ idxs, Anc t z (taxC b))) := by
  unfold identify2 at h
  simp only at h
  cases fcC with
  | panic => cases h
  | ok maxe bestId bestmatch idxs =>
    simp only at h
    split at h
    · cases h1 : selectAllG sel indexC maxe idxs with
      | error e => rw [h1] at h; cases h
      | ok ms =>
        rw [h1] at h
        simp only at h
        cases h2 : consensus t fuel none ms with
        | error e => rw [h2] at h; cases h
        | ok r =>
          rw [h2] at h
          cases r with
          | none => cases h
          | some f0 =>
            simp only at h
            have hanc0 := stage_anc wf hf sel indexC taxC maxe idxs ms f0
              (fun b _ idx m hi hm => hC b idx maxe m hi hm) h1 h2
            cases h3 : Tax.taxonAtRank t "family" fuel f0 with
            | error e => rw [h3] at h; cases h
            | ok r3 =>
              rw [h3] at h
              cases r3 with
              | none =>
                simp only at h
                cases h
                exact .inr ⟨rfl, maxe, bestId, idxs, rfl, rfl, .inr hanc0⟩
              | some f =>
                simp only at h
                cases h4 : fam f with
                | none => rw [h4] at h; cases h
                | some x =>
                  rw [h4] at h
                  obtain ⟨fcF, indexF⟩ := x
                  cases fcF with
                  | panic => cases h
                  | ok maxe2 bid2 bm2 idxs2 =>
                    simp only at h
                    cases h5 : selectAllG sel indexF maxe2 idxs2 with
                    | error e => rw [h5] at h; cases h
                    | ok ms2 =>
                      rw [h5] at h
                      simp only at h
                      cases h6 : consensus t fuel none ms2 with
                      | error e => rw [h6] at h; cases h
                      | ok r6 =>
                        rw [h6] at h
                        cases r6 with
                        | none => cases h
                        | some z' =>
                          simp only at h
                          cases h
                          left
                          refine ⟨f, rfl, maxe2, bid2, idxs2, indexF, h4, ?_⟩
                          exact stage_anc wf hf sel indexF (taxF f) maxe2 idxs2 ms2 z
                            (fun b _ idx m hi hm => hF f _ indexF h4 b idx maxe2 m hi hm) h5 h6
    · cases h1 : t.node 1 with
      | none => rw [h1] at h; cases h
      | some n1 =>
        rw [h1] at h
        cases h
        exact .inr ⟨rfl, maxe, bestId, idxs, rfl, rfl, .inl rfl⟩

end ObiVerif.Tag
