import ObiVerif.Lemmas.LcsVerbatimEgf
/-!
# C09: two runs of the verbatim kernel (either mode) on two different scratch buffers stay in lock step

Relational invariant `EvenEq` / `OddEq`: the two buffers agree on the in-matrix in-band cells of the row holding
anti-diagonals `2y`, `2y+1` (elsewhere they may hold anything). One outer iteration preserves it, and `pend`/`end`
evolve identically, because every cell a loop body reads is one of those cells (`evenBody_rel`, `oddBody_rel`).
-/
namespace ObiVerif.Lcs


def EvenEq (g : Geo) (A B : Seq) (b1 b2 : Array UInt64) (off : Nat) (y : Int) : Prop :=
  ∀ (x : Int) (i j : Nat), 0 ≤ x → x ≤ g.even - 1 → y - x + g.extra = (i : Int) → i ≤ B.length →
    y + x - g.extra = (j : Int) → j ≤ A.length →
    b1.getD (off + x.toNat) 0 = b2.getD (off + x.toNat) 0

def OddEq (g : Geo) (A B : Seq) (b1 b2 : Array UInt64) (off : Nat) (y : Int) : Prop :=
  ∀ (x : Int) (i j : Nat), g.even ≤ x → x ≤ (g.width : Int) - 1 → y - x + g.extra + g.even = (i : Int) → i ≤ B.length →
    y + x - g.extra - g.even + 1 = (j : Int) → j ≤ A.length →
    b1.getD (off + x.toNat) 0 = b2.getD (off + x.toNat) 0

def PartEEq (g : Geo) (A B : Seq) (b1 b2 : Array UInt64) (off : Nat) (y k : Int) : Prop :=
  ∀ (x : Int) (i j : Nat), 0 ≤ x → x < k → x ≤ g.even - 1 → y - x + g.extra = (i : Int) → i ≤ B.length →
    y + x - g.extra = (j : Int) → j ≤ A.length →
    b1.getD (off + x.toNat) 0 = b2.getD (off + x.toNat) 0

def PartOEq (g : Geo) (A B : Seq) (b1 b2 : Array UInt64) (off : Nat) (y k : Int) : Prop :=
  ∀ (x : Int) (i j : Nat), g.even ≤ x → x < k → x ≤ (g.width : Int) - 1 → y - x + g.extra + g.even = (i : Int) → i ≤ B.length →
    y + x - g.extra - g.even + 1 = (j : Int) → j ≤ A.length →
    b1.getD (off + x.toNat) 0 = b2.getD (off + x.toNat) 0

theorem loopM_rel {σ : Type} (R : Int → σ → σ → Prop) (f : Int → σ → Except Err σ) :
    ∀ (n : Nat) (lo : Int) (s1 s2 : σ), R lo s1 s2 →
      (∀ k s1 s2, lo ≤ k → k < lo + n → R k s1 s2 → ∃ s1' s2', f k s1 = .ok s1' ∧ f k s2 = .ok s2' ∧ R (k + 1) s1' s2') →
      ∃ s1' s2', loopM n lo f s1 = .ok s1' ∧ loopM n lo f s2 = .ok s2' ∧ R (lo + n) s1' s2' := by
  intro n
  induction n with
  | zero => intro lo s1 s2 h _; exact ⟨s1, s2, rfl, rfl, by simpa using h⟩
  | succ n ih =>
    intro lo s1 s2 h step
    obtain ⟨t1, t2, h1, h2, h3⟩ := step lo s1 s2 (by omega) (by omega) h
    obtain ⟨u1, u2, k1, k2, k3⟩ := ih (lo + 1) t1 t2 h3 (fun k s1 s2 hk1 hk2 hp => step k s1 s2 (by omega) (by omega) hp)
    refine ⟨u1, u2, ?_, ?_, ?_⟩
    · simp only [loopM, h1, k1]
    · simp only [loopM, h2, k2]
    · have : lo + ((n + 1 : Nat) : Int) = lo + 1 + (n : Int) := by omega
      rw [this]; exact k3

theorem EvenEq_frame {g : Geo} {A B : Seq} {b1 b2 : Array UInt64} {off : Nat} {y : Int} (w : Nat) (v1 v2 : UInt64)
    (hw : w < off ∨ off + g.even.toNat ≤ w) (h : EvenEq g A B b1 b2 off y) :
    EvenEq g A B (b1.setIfInBounds w v1) (b2.setIfInBounds w v2) off y := by
  intro x i j h1 h2 h3 h4 h5 h6
  rw [getD_set_ne _ _ _ _ (by omega), getD_set_ne _ _ _ _ (by omega)]
  exact h x i j h1 h2 h3 h4 h5 h6

theorem OddEq_frame {g : Geo} {A B : Seq} (hg : GeoW g A B) {b1 b2 : Array UInt64} {off : Nat} {y : Int} (w : Nat) (v1 v2 : UInt64)
    (hw : w < off + g.even.toNat ∨ off + g.width ≤ w) (h : OddEq g A B b1 b2 off y) :
    OddEq g A B (b1.setIfInBounds w v1) (b2.setIfInBounds w v2) off y := by
  have := hg.hwidth
  intro x i j h1 h2 h3 h4 h5 h6
  rw [getD_set_ne _ _ _ _ (by omega), getD_set_ne _ _ _ _ (by omega)]
  exact h x i j h1 h2 h3 h4 h5 h6

/-- the values (and `pend`/`end`) the first loop body produces on two buffers that agree on the previous row -/
theorem evenBody_rel {g : Geo} {A B : Seq} (hg : GeoW g A B) (b1 b2 : Array UInt64) (poff : Nat) (y x : Int) (i j : Nat)
    (pend : Nat) (endp : Int)
    (hE : EvenEq g A B b1 b2 poff (y - 1)) (hO : OddEq g A B b1 b2 poff (y - 1))
    (hx0 : 0 ≤ x) (hx1 : x ≤ g.even - 1)
    (hi : y - x + g.extra = (i : Int)) (hi1 : i ≤ B.length)
    (hj : y + x - g.extra = (j : Int)) (hj1 : j ≤ A.length) :
    evenBody g y x (b1.getD (poff + x.toNat) 0) (b1.getD (poff + (x + g.even).toNat) 0)
        (b1.getD (poff + (x + g.even - 1).toNat) 0) pend endp =
    evenBody g y x (b2.getD (poff + x.toNat) 0) (b2.getD (poff + (x + g.even).toNat) 0)
        (b2.getD (poff + (x + g.even - 1).toNat) 0) pend endp := by
  obtain ⟨hA, hB, hlA, hlB, hle, hextra, heven, hwidth⟩ := hg
  apply evenBody_congr
  · intro c0 c1
    exact hE x (i - 1) (j - 1) hx0 hx1 (by omega) (by omega) (by omega) (by omega)
  · intro c0 c1 c2
    exact hO (x + g.even) (i - 1) j (by omega) (by omega) (by omega) (by omega) (by omega) (by omega)
  · intro c0 c1 c2
    exact hO (x + g.even - 1) i (j - 1) (by omega) (by omega) (by omega) (by omega) (by omega) (by omega)

theorem oddBody_rel {g : Geo} {A B : Seq} (hg : GeoW g A B) (b1 b2 : Array UInt64) (poff coff : Nat) (y x : Int) (i j : Nat)
    (pend : Nat) (endp : Int)
    (hO : OddEq g A B b1 b2 poff (y - 1)) (hE : EvenEq g A B b1 b2 coff y)
    (hx0 : g.even ≤ x) (hx1 : x ≤ (g.width : Int) - 1)
    (hi : y - x + g.extra + g.even = (i : Int)) (hi1 : i ≤ B.length)
    (hj : y + x - g.extra - g.even + 1 = (j : Int)) (hj1 : j ≤ A.length) :
    oddBody g y x (b1.getD (poff + x.toNat) 0) (b1.getD (coff + (x - g.even + 1).toNat) 0)
        (b1.getD (coff + (x - g.even).toNat) 0) pend endp =
    oddBody g y x (b2.getD (poff + x.toNat) 0) (b2.getD (coff + (x - g.even + 1).toNat) 0)
        (b2.getD (coff + (x - g.even).toNat) 0) pend endp := by
  obtain ⟨hA, hB, hlA, hlB, hle, hextra, heven, hwidth⟩ := hg
  apply oddBody_congr
  intro c0 c1
  exact ⟨hO x (i - 1) (j - 1) hx0 hx1 (by omega) (by omega) (by omega) (by omega),
    hE (x - g.even + 1) (i - 1) j (by omega) (by omega) (by omega) (by omega) (by omega) (by omega),
    hE (x - g.even) i (j - 1) (by omega) (by omega) (by omega) (by omega) (by omega) (by omega)⟩

/-- two runs of the first inner loop on buffers that agree on the previous row -/
theorem evenLoop_rel {g : Geo} {A B : Seq} (hg : GeoW g A B) (poff coff : Nat)
    (hdisj : poff + g.width ≤ coff ∨ coff + g.width ≤ poff) (y : Int) (s1 s2 : St)
    (hsz1 : coff + g.width ≤ s1.buf.size) (hsz2 : coff + g.width ≤ s2.buf.size)
    (hp : s1.pend = s2.pend) (he : s1.endp = s2.endp)
    (hE : EvenEq g A B s1.buf s2.buf poff (y - 1)) (hO : OddEq g A B s1.buf s2.buf poff (y - 1)) :
    ∃ t1 t2, loopM ((imin3 (y + g.extra) (g.lA + g.extra - y) (g.even - 1) + 1) -
                  (imax3 (y - g.lB + g.extra) (g.extra - y) 0)).toNat
             (imax3 (y - g.lB + g.extra) (g.extra - y) 0) (evenCell g poff coff y) s1 = .ok t1 ∧
      loopM ((imin3 (y + g.extra) (g.lA + g.extra - y) (g.even - 1) + 1) -
                  (imax3 (y - g.lB + g.extra) (g.extra - y) 0)).toNat
             (imax3 (y - g.lB + g.extra) (g.extra - y) 0) (evenCell g poff coff y) s2 = .ok t2 ∧
      t1.pend = t2.pend ∧ t1.endp = t2.endp ∧ t1.buf.size = s1.buf.size ∧ t2.buf.size = s2.buf.size ∧
      EvenEq g A B t1.buf t2.buf poff (y - 1) ∧ OddEq g A B t1.buf t2.buf poff (y - 1) ∧
      EvenEq g A B t1.buf t2.buf coff y := by
  have hg' := hg
  obtain ⟨hA, hB, hlA, hlB, hle, hextra, heven, hwidth⟩ := hg
  generalize hxs : imax3 (y - g.lB + g.extra) (g.extra - y) 0 = xs
  generalize hxf : imin3 (y + g.extra) (g.lA + g.extra - y) (g.even - 1) + 1 = xf
  unfold imax3 at hxs
  unfold imin3 at hxf
  have := loopM_rel (fun k (a b : St) => a.pend = b.pend ∧ a.endp = b.endp ∧ a.buf.size = s1.buf.size ∧
      b.buf.size = s2.buf.size ∧ EvenEq g A B a.buf b.buf poff (y - 1) ∧ OddEq g A B a.buf b.buf poff (y - 1) ∧
      PartEEq g A B a.buf b.buf coff y k)
    (evenCell g poff coff y) (xf - xs).toNat xs s1 s2
    ⟨hp, he, rfl, rfl, hE, hO, by intro x i j h1 h2 h3 h4 h5 h6 h7; omega⟩
    (by
      intro k a b hk1 hk2 ⟨p1, p2, p3, p3', p4, p5, p6⟩
      have hi : y - k + g.extra = ((y - k + g.extra).toNat : Int) := by omega
      have hj : y + k - g.extra = ((y + k - g.extra).toNat : Int) := by omega
      have hc1 := evenCell_eq_body hg' poff coff y k a _ _ (by omega) (by omega) hi (by omega) hj (by omega)
      have hc2 := evenCell_eq_body hg' poff coff y k b _ _ (by omega) (by omega) hi (by omega) hj (by omega)
      rw [evenBody_rel hg' a.buf b.buf poff y k _ _ a.pend a.endp p4 p5 (by omega) (by omega) hi (by omega) hj (by omega),
        p1, p2] at hc1
      refine ⟨_, _, hc1, hc2, rfl, rfl, by simp [p3], by simp [p3'], ?_, ?_, ?_⟩
      · exact EvenEq_frame _ _ _ (by omega) p4
      · exact OddEq_frame hg' _ _ _ (by omega) p5
      · intro x i j h1 h2 h3 h4 h5 h6 h7
        by_cases hxk : x = k
        · subst hxk
          simp only []
          rw [getD_set_eq _ _ _ (by omega), getD_set_eq _ _ _ (by omega)]
        · simp only []
          rw [getD_set_ne _ _ _ _ (by omega), getD_set_ne _ _ _ _ (by omega)]
          exact p6 x i j h1 (by omega) h3 h4 h5 h6 h7)
  obtain ⟨t1, t2, h1, h2, p1, p2, p3, p3', p4, p5, p6⟩ := this
  refine ⟨t1, t2, h1, h2, p1, p2, p3, p3', p4, p5, ?_⟩
  intro x i j h1 h2 h3 h4 h5 h6
  exact p6 x i j h1 (by omega) h2 h3 h4 h5 h6

theorem oddLoop_rel {g : Geo} {A B : Seq} (hg : GeoW g A B) (poff coff : Nat)
    (hdisj : poff + g.width ≤ coff ∨ coff + g.width ≤ poff) (y : Int) (s1 s2 : St)
    (hsz1 : coff + g.width ≤ s1.buf.size) (hsz2 : coff + g.width ≤ s2.buf.size)
    (hp : s1.pend = s2.pend) (he : s1.endp = s2.endp)
    (hO : OddEq g A B s1.buf s2.buf poff (y - 1)) (hE : EvenEq g A B s1.buf s2.buf coff y) :
    ∃ t1 t2, loopM ((imin3 (y + g.extra + g.even) (g.lA + g.extra - y + g.even - 1) ((g.width : Int) - 1) + 1) -
                  (imax3 (y - g.lB + g.extra + g.even) (g.extra - y + g.even - 1) g.even)).toNat
             (imax3 (y - g.lB + g.extra + g.even) (g.extra - y + g.even - 1) g.even) (oddCell g poff coff y) s1 = .ok t1 ∧
      loopM ((imin3 (y + g.extra + g.even) (g.lA + g.extra - y + g.even - 1) ((g.width : Int) - 1) + 1) -
                  (imax3 (y - g.lB + g.extra + g.even) (g.extra - y + g.even - 1) g.even)).toNat
             (imax3 (y - g.lB + g.extra + g.even) (g.extra - y + g.even - 1) g.even) (oddCell g poff coff y) s2 = .ok t2 ∧
      t1.pend = t2.pend ∧ t1.endp = t2.endp ∧ t1.buf.size = s1.buf.size ∧ t2.buf.size = s2.buf.size ∧
      EvenEq g A B t1.buf t2.buf coff y ∧ OddEq g A B t1.buf t2.buf coff y := by
  have hg' := hg
  obtain ⟨hA, hB, hlA, hlB, hle, hextra, heven, hwidth⟩ := hg
  generalize hxs : imax3 (y - g.lB + g.extra + g.even) (g.extra - y + g.even - 1) g.even = xs
  generalize hxf : imin3 (y + g.extra + g.even) (g.lA + g.extra - y + g.even - 1) ((g.width : Int) - 1) + 1 = xf
  unfold imax3 at hxs
  unfold imin3 at hxf
  have := loopM_rel (fun k (a b : St) => a.pend = b.pend ∧ a.endp = b.endp ∧ a.buf.size = s1.buf.size ∧
      b.buf.size = s2.buf.size ∧ OddEq g A B a.buf b.buf poff (y - 1) ∧ EvenEq g A B a.buf b.buf coff y ∧
      PartOEq g A B a.buf b.buf coff y k)
    (oddCell g poff coff y) (xf - xs).toNat xs s1 s2
    ⟨hp, he, rfl, rfl, hO, hE, by intro x i j h1 h2 h3 h4 h5 h6 h7; omega⟩
    (by
      intro k a b hk1 hk2 ⟨p1, p2, p3, p3', p4, p5, p6⟩
      have hi : y - k + g.extra + g.even = ((y - k + g.extra + g.even).toNat : Int) := by omega
      have hj : y + k - g.extra - g.even + 1 = ((y + k - g.extra - g.even + 1).toNat : Int) := by omega
      have hc1 := oddCell_eq_body hg' poff coff y k a _ _ (by omega) (by omega) hi (by omega) hj (by omega)
      have hc2 := oddCell_eq_body hg' poff coff y k b _ _ (by omega) (by omega) hi (by omega) hj (by omega)
      rw [oddBody_rel hg' a.buf b.buf poff coff y k _ _ a.pend a.endp p4 p5 (by omega) (by omega) hi (by omega) hj (by omega),
        p1, p2] at hc1
      refine ⟨_, _, hc1, hc2, rfl, rfl, by simp [p3], by simp [p3'], ?_, ?_, ?_⟩
      · exact OddEq_frame hg' _ _ _ (by omega) p4
      · exact EvenEq_frame _ _ _ (by omega) p5
      · intro x i j h1 h2 h3 h4 h5 h6 h7
        by_cases hxk : x = k
        · subst hxk
          simp only []
          rw [getD_set_eq _ _ _ (by omega), getD_set_eq _ _ _ (by omega)]
        · simp only []
          rw [getD_set_ne _ _ _ _ (by omega), getD_set_ne _ _ _ _ (by omega)]
          exact p6 x i j h1 (by omega) h3 h4 h5 h6 h7)
  obtain ⟨t1, t2, h1, h2, p1, p2, p3, p3', p4, p5, p6⟩ := this
  refine ⟨t1, t2, h1, h2, p1, p2, p3, p3', p5, ?_⟩
  intro x i j h1 h2 h3 h4 h5 h6
  exact p6 x i j h1 (by omega) h2 h3 h4 h5 h6

theorem diagStep_rel {g : Geo} {A B : Seq} (hg : GeoW g A B) (poff coff : Nat)
    (hdisj : poff + g.width ≤ coff ∨ coff + g.width ≤ poff) (y : Int) (s1 s2 : St)
    (hsz1 : coff + g.width ≤ s1.buf.size) (hsz2 : coff + g.width ≤ s2.buf.size)
    (hp : s1.pend = s2.pend) (he : s1.endp = s2.endp)
    (hE : EvenEq g A B s1.buf s2.buf poff (y - 1)) (hO : OddEq g A B s1.buf s2.buf poff (y - 1)) :
    ∃ t1 t2, diagStep g poff coff y s1 = .ok t1 ∧ diagStep g poff coff y s2 = .ok t2 ∧
      t1.pend = t2.pend ∧ t1.endp = t2.endp ∧ t1.buf.size = s1.buf.size ∧ t2.buf.size = s2.buf.size ∧
      EvenEq g A B t1.buf t2.buf coff y ∧ OddEq g A B t1.buf t2.buf coff y := by
  obtain ⟨u1, u2, h1, h2, p1, p2, p3, p3', p4, p5, p6⟩ := evenLoop_rel hg poff coff hdisj y s1 s2 hsz1 hsz2 hp he hE hO
  obtain ⟨t1, t2, k1, k2, q1, q2, q3, q3', q4, q5⟩ :=
    oddLoop_rel hg poff coff hdisj y u1 u2 (by omega) (by omega) p1 p2 p5 p6
  refine ⟨t1, t2, ?_, ?_, q1, q2, by omega, by omega, q4, q5⟩
  · unfold diagStep; simp only [h1, bind, Except.bind]; exact k1
  · unfold diagStep; simp only [h2, bind, Except.bind]; exact k2

theorem outer_rel {g : Geo} {A B : Seq} (hg : GeoW g A B) :
    ∀ (n : Nat) (y : Int) (poff coff : Nat) (s1 s2 : St),
      (poff + g.width ≤ coff ∨ coff + g.width ≤ poff) →
      poff + g.width ≤ s1.buf.size → coff + g.width ≤ s1.buf.size →
      poff + g.width ≤ s2.buf.size → coff + g.width ≤ s2.buf.size →
      s1.pend = s2.pend → s1.endp = s2.endp →
      EvenEq g A B s1.buf s2.buf poff (y - 1) → OddEq g A B s1.buf s2.buf poff (y - 1) →
      ∃ t1 t2 p', outer g n y poff coff s1 = .ok (t1, p') ∧ outer g n y poff coff s2 = .ok (t2, p') ∧
        t1.endp = t2.endp ∧ (p' = poff ∨ p' = coff) ∧
        EvenEq g A B t1.buf t2.buf p' (y + n - 1) ∧ OddEq g A B t1.buf t2.buf p' (y + n - 1) := by
  intro n
  induction n with
  | zero =>
    intro y poff coff s1 s2 _ _ _ _ _ _ he hE hO
    exact ⟨s1, s2, poff, rfl, rfl, he, .inl rfl, by simpa using hE, by simpa using hO⟩
  | succ n ih =>
    intro y poff coff s1 s2 hd a1 a2 a3 a4 hp he hE hO
    obtain ⟨u1, u2, e1, e2, p1, p2, p3, p3', p4, p5⟩ := diagStep_rel hg poff coff hd y s1 s2 a2 a4 hp he hE hO
    have hE' : EvenEq g A B u1.buf u2.buf coff (y + 1 - 1) := by simpa using p4
    have hO' : OddEq g A B u1.buf u2.buf coff (y + 1 - 1) := by simpa using p5
    obtain ⟨t1, t2, p', k1, k2, q1, q2, q3, q4⟩ :=
      ih (y + 1) coff poff u1 u2 (by omega) (by omega) (by omega) (by omega) (by omega) p1 p2 hE' hO'
    refine ⟨t1, t2, p', ?_, ?_, q1, by omega, ?_, ?_⟩
    · simp only [outer, e1, k1]
    · simp only [outer, e2, k2]
    · have : y + ((n + 1 : Nat) : Int) - 1 = y + 1 + (n : Int) - 1 := by omega
      rw [this]; exact q3
    · have : y + ((n + 1 : Nat) : Int) - 1 = y + 1 + (n : Int) - 1 := by omega
      rw [this]; exact q4


end ObiVerif.Lcs
