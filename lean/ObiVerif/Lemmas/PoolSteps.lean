import ObiVerif.Model.PoolSteps
import ObiVerif.Lemmas.LoopSteps
/-! # Safety invariant, deadlock freedom and termination of the `Pool` stage (C03) -/
namespace ObiVerif.PoolSteps
open ObiVerif.LoopSteps (upd sumTo b2n upd_same upd_ne sumTo_upd sumTo_upd_ge)
open ObiVerif.Iter

/-! ## `catTo`, `sumTo` under a point update -/

theorem catTo_upd_ge {α β : Type} (f : β → List α) (n : Nat) (g : Nat → β) (i : Nat) (v : β) (h : n ≤ i) :
    catTo f n (upd g i v) = catTo f n g := by
  induction n with
  | zero => rfl
  | succ n ih =>
    simp only [catTo]
    rw [ih (by omega), upd_ne g v (by omega)]

theorem count_catTo_upd {α β : Type} [BEq α] (f : β → List α) (n : Nat) (g : Nat → β) (i : Nat) (v : β)
    (h : i < n) (a : α) :
    (catTo f n (upd g i v)).count a + (f (g i)).count a = (catTo f n g).count a + (f v).count a := by
  induction n with
  | zero => omega
  | succ n ih =>
    simp only [catTo, List.count_append]
    by_cases e : i = n
    · subst e
      rw [catTo_upd_ge f i g i v (Nat.le_refl _), upd_same]; omega
    · have := ih (by omega)
      rw [upd_ne g v (fun h' => e h'.symm)]; omega

theorem catTo_nil {α β : Type} (f : β → List α) (n : Nat) (g : Nat → β) (h : ∀ i, i < n → f (g i) = []) :
    catTo f n g = [] := by
  induction n with
  | zero => rfl
  | succ n ih =>
    simp only [catTo]
    rw [ih (fun i hi => h i (by omega)), h n (by omega)]; rfl

theorem sumTo_comp_upd {β : Type} (r : β → Nat) (n : Nat) (g : Nat → β) (i : Nat) (v : β) (h : i < n) :
    sumTo n (fun x => r (upd g i v x)) + r (g i) = sumTo n (fun x => r (g x)) + r v := by
  have e : (fun x => r (upd g i v x)) = upd (fun x => r (g x)) i (r v) := by
    funext x
    by_cases hx : x = i
    · subst hx; simp [upd]
    · simp [upd, hx]
  rw [e]
  exact sumTo_upd n (fun x => r (g x)) i (r v) h

/-! ## `Iter.pool` one batch further -/

theorem pool_fold_snd (arr out : List Batch) (c : Nat) :
    (arr.foldl (fun (st : List Batch × Nat) (b : Batch) => (st.1 ++ [(st.2, b.2)], st.2 + 1)) (out, c)).2 =
      c + arr.length := by
  induction arr generalizing out c with
  | nil => simp
  | cons a t ih => simp only [List.foldl_cons, List.length_cons]; rw [ih]; omega

theorem pool_snoc (arr : List Batch) (b : Batch) : pool (arr ++ [b]) = pool arr ++ [(arr.length, b.2)] := by
  unfold pool
  rw [List.foldl_append]
  simp only [List.foldl_cons, List.foldl_nil]
  rw [pool_fold_snd]; simp

theorem pool_fold_len (arr out : List Batch) (c : Nat) :
    (arr.foldl (fun (st : List Batch × Nat) (b : Batch) => (st.1 ++ [(st.2, b.2)], st.2 + 1)) (out, c)).1.length =
      out.length + arr.length := by
  induction arr generalizing out c with
  | nil => simp
  | cons a t ih => simp only [List.foldl_cons, List.length_cons]; rw [ih]; simp; omega

theorem pool_length (arr : List Batch) : (pool arr).length = arr.length := by
  unfold pool; rw [pool_fold_len]; simp

/-! ## Invariant -/

structure Inv (N : Nat) (ins : Nat → List Batch) (s : St) : Prop where
  /-- every numbered batch is at exactly one place (delivered, in the channel, in a goroutine's hand), and
  these batches are `Iter.pool` of the batches numbered so far -/
  places : (s.delivered ++ s.cout ++ catTo (fun x : G => x.hand.toList) N s.g).Perm (pool s.taken)
  /-- every input batch is either numbered or still upstream -/
  inputs : (s.taken ++ catTo G.todo N s.g).Perm (catTo id N ins)
  count : s.counter = s.taken.length
  doneI : ∀ i, i < N → (s.g i).done = true → (s.g i).todo = [] ∧ (s.g i).hand = none
  closedI : s.closed = true → ∀ i, i < N → (s.g i).done = true

theorem inv_init (N : Nat) (ins : Nat → List Batch) : Inv N ins (init ins) := by
  refine ⟨?_, ?_, rfl, ?_, ?_⟩
  · have : catTo (fun x : G => x.hand.toList) N (init ins).g = [] := catTo_nil _ _ _ (fun _ _ => rfl)
    rw [this]; simp [init, pool]
  · have : ∀ n, catTo G.todo n (init ins).g = catTo id n ins := by
      intro n
      induction n with
      | zero => rfl
      | succ n ih => simp only [catTo, ih]; rfl
    simp [init] at this ⊢
    rw [this]
  · intro i _ h; simp [init] at h
  · intro h; simp [init] at h

theorem step_inv {N cap : Nat} {ins : Nat → List Batch} {s s' : St} (h : Inv N ins s) (st : Step N cap s s') :
    Inv N ins s' := by
  cases st with
  | take i k t hi htodo hhand hdone =>
    refine ⟨?_, ?_, ?_, ?_, ?_⟩
    · refine List.perm_iff_count.2 fun a => ?_
      have h1 := List.perm_iff_count.1 h.places a
      have h2 := count_catTo_upd (fun x : G => x.hand.toList) N s.g i
        { todo := t, hand := some (s.counter, k.2), done := false } hi a
      rw [hhand] at h2
      simp only [pool_snoc, List.count_append, Option.toList_none, Option.toList_some, List.count_nil] at h1 h2 ⊢
      rw [← h.count]; omega
    · refine List.perm_iff_count.2 fun a => ?_
      have h1 := List.perm_iff_count.1 h.inputs a
      have h2 := count_catTo_upd G.todo N s.g i { todo := t, hand := some (s.counter, k.2), done := false } hi a
      rw [htodo, ← List.singleton_append] at h2
      simp only [List.count_append] at h1 h2 ⊢
      omega
    · simp [h.count]
    · intro x hx hd
      by_cases e : x = i
      · subst e; simp [upd] at hd
      · simp only [upd_ne s.g _ e] at hd ⊢; exact h.doneI x hx hd
    · intro hc
      have := h.closedI hc i hi
      rw [hdone] at this; cases this
  | push i b hi hhand hcap =>
    refine ⟨?_, ?_, h.count, ?_, ?_⟩
    · refine List.perm_iff_count.2 fun a => ?_
      have h1 := List.perm_iff_count.1 h.places a
      have h2 := count_catTo_upd (fun x : G => x.hand.toList) N s.g i { s.g i with hand := none } hi a
      rw [hhand] at h2
      simp only [List.count_append, Option.toList_none, Option.toList_some, List.count_nil] at h1 h2 ⊢
      omega
    · refine List.perm_iff_count.2 fun a => ?_
      have h1 := List.perm_iff_count.1 h.inputs a
      have h2 := count_catTo_upd G.todo N s.g i { s.g i with hand := none } hi a
      simp only [List.count_append] at h1 h2 ⊢
      omega
    · intro x hx hd
      by_cases e : x = i
      · subst e
        simp only [upd_same] at hd ⊢
        have := (h.doneI x hx hd).2
        rw [hhand] at this; cases this
      · simp only [upd_ne s.g _ e] at hd ⊢; exact h.doneI x hx hd
    · intro hc
      have := (h.doneI i hi (h.closedI hc i hi)).2
      rw [hhand] at this; cases this
  | pushHand i b hi hhand hcout =>
    refine ⟨?_, ?_, h.count, ?_, ?_⟩
    · refine List.perm_iff_count.2 fun a => ?_
      have h1 := List.perm_iff_count.1 h.places a
      have h2 := count_catTo_upd (fun x : G => x.hand.toList) N s.g i { s.g i with hand := none } hi a
      rw [hhand] at h2
      simp only [List.count_append, Option.toList_none, Option.toList_some, List.count_nil] at h1 h2 ⊢
      omega
    · refine List.perm_iff_count.2 fun a => ?_
      have h1 := List.perm_iff_count.1 h.inputs a
      have h2 := count_catTo_upd G.todo N s.g i { s.g i with hand := none } hi a
      simp only [List.count_append] at h1 h2 ⊢
      omega
    · intro x hx hd
      by_cases e : x = i
      · subst e
        simp only [upd_same] at hd ⊢
        have := (h.doneI x hx hd).2
        rw [hhand] at this; cases this
      · simp only [upd_ne s.g _ e] at hd ⊢; exact h.doneI x hx hd
    · intro hc
      have := (h.doneI i hi (h.closedI hc i hi)).2
      rw [hhand] at this; cases this
  | finish i hi htodo hhand hdone =>
    refine ⟨?_, ?_, h.count, ?_, ?_⟩
    · refine List.perm_iff_count.2 fun a => ?_
      have h1 := List.perm_iff_count.1 h.places a
      have h2 := count_catTo_upd (fun x : G => x.hand.toList) N s.g i { s.g i with done := true } hi a
      simp only [List.count_append] at h1 h2 ⊢
      omega
    · refine List.perm_iff_count.2 fun a => ?_
      have h1 := List.perm_iff_count.1 h.inputs a
      have h2 := count_catTo_upd G.todo N s.g i { s.g i with done := true } hi a
      simp only [List.count_append] at h1 h2 ⊢
      omega
    · intro x hx hd
      by_cases e : x = i
      · subst e
        simp only [upd_same]
        exact ⟨htodo, hhand⟩
      · simp only [upd_ne s.g _ e] at hd ⊢; exact h.doneI x hx hd
    · intro hc
      have := h.closedI hc i hi
      rw [hdone] at this; cases this
  | close hall hcout hcl =>
    exact ⟨h.places, h.inputs, h.count, h.doneI, fun _ => hall⟩
  | consume k t hcout =>
    refine ⟨?_, h.inputs, h.count, h.doneI, h.closedI⟩
    refine List.perm_iff_count.2 fun a => ?_
    have h1 := List.perm_iff_count.1 h.places a
    rw [hcout, ← List.singleton_append] at h1
    simp only [List.count_append] at h1 ⊢
    omega

theorem reach_inv {N cap : Nat} {ins : Nat → List Batch} {s : St} (hr : Reach N cap (init ins) s) :
    Inv N ins s := by
  induction hr with
  | init => exact inv_init N ins
  | step _ st ih => exact step_inv ih st

/-- what an ended execution has delivered -/
theorem final_result {N : Nat} {ins : Nat → List Batch} {s : St} (h : Inv N ins s) (hf : Final s) :
    s.delivered.Perm (pool s.taken) ∧ s.taken.Perm (catTo id N ins) ∧
    (∀ i, i < N → (s.g i).todo = [] ∧ (s.g i).hand = none) := by
  have hd := h.closedI hf.1
  have hall : ∀ i, i < N → (s.g i).todo = [] ∧ (s.g i).hand = none := fun i hi => h.doneI i hi (hd i hi)
  have e1 : catTo (fun x : G => x.hand.toList) N s.g = [] :=
    catTo_nil _ _ _ (fun i hi => by rw [(hall i hi).2]; rfl)
  have e2 : catTo G.todo N s.g = [] := catTo_nil _ _ _ (fun i hi => (hall i hi).1)
  have p1 := h.places
  have p2 := h.inputs
  rw [e1, hf.2] at p1
  rw [e2] at p2
  simp only [List.append_nil] at p1 p2
  exact ⟨p1, p2, hall⟩

/-! ## Deadlock freedom -/

theorem exists_or_all (p : Nat → Bool) (n : Nat) : (∃ i, i < n ∧ p i = true) ∨ ∀ i, i < n → p i = false := by
  induction n with
  | zero => exact Or.inr (fun _ h => by omega)
  | succ n ih =>
    rcases ih with ⟨i, hi, hp⟩ | hall
    · exact Or.inl ⟨i, by omega, hp⟩
    · by_cases hn : p n = true
      · exact Or.inl ⟨n, by omega, hn⟩
      · refine Or.inr (fun i hi => ?_)
        by_cases e : i = n
        · subst e; simpa using hn
        · exact hall i (by omega)

theorem progress (N cap : Nat) (s : St) (hnf : ¬ Final s) : ∃ s', Step N cap s s' := by
  cases hc : s.cout with
  | cons k t => exact ⟨_, Step.consume s k t hc⟩
  | nil =>
    rcases exists_or_all (fun i => (s.g i).hand.isSome) N with ⟨i, hi, hp⟩ | hnone
    · cases hh : (s.g i).hand with
      | none => simp [hh] at hp
      | some b => exact ⟨_, Step.pushHand s i b hi hh hc⟩
    · rcases exists_or_all (fun i => !(s.g i).done) N with ⟨i, hi, hp⟩ | hdone
      · have hd : (s.g i).done = false := by simpa using hp
        have hh : (s.g i).hand = none := by
          have := hnone i hi
          cases e : (s.g i).hand with
          | none => rfl
          | some b => simp [e] at this
        cases ht : (s.g i).todo with
        | nil => exact ⟨_, Step.finish s i hi ht hh hd⟩
        | cons k t => exact ⟨_, Step.take s i k t hi ht hh hd⟩
      · have hall : ∀ i, i < N → (s.g i).done = true := fun i hi => by simpa using hdone i hi
        cases hcl : s.closed with
        | true => exact absurd ⟨hcl, hc⟩ hnf
        | false => exact ⟨_, Step.close s hall hc hcl⟩

/-! ## Termination -/

theorem step_rank {N cap : Nat} {s s' : St} (st : Step N cap s s') : rank N s' < rank N s := by
  cases st with
  | take i k t hi htodo hhand hdone =>
    have := sumTo_comp_upd rG N s.g i { todo := t, hand := some (s.counter, k.2), done := false } hi
    have e1 : rG { todo := t, hand := some (s.counter, k.2), done := false } + 1 = rG (s.g i) := by
      simp [rG, htodo, hhand, hdone, b2n]; omega
    simp only [rank]
    omega
  | push i b hi hhand hcap =>
    have := sumTo_comp_upd rG N s.g i { todo := (s.g i).todo, hand := none, done := (s.g i).done } hi
    have e1 : rG { todo := (s.g i).todo, hand := none, done := (s.g i).done } + 2 = rG (s.g i) := by
      simp [rG, hhand]; omega
    simp only [rank, List.length_append, List.length_cons, List.length_nil]
    omega
  | pushHand i b hi hhand hcout =>
    have := sumTo_comp_upd rG N s.g i { todo := (s.g i).todo, hand := none, done := (s.g i).done } hi
    have e1 : rG { todo := (s.g i).todo, hand := none, done := (s.g i).done } + 2 = rG (s.g i) := by
      simp [rG, hhand]; omega
    simp only [rank]
    omega
  | finish i hi htodo hhand hdone =>
    have := sumTo_comp_upd rG N s.g i { todo := (s.g i).todo, hand := (s.g i).hand, done := true } hi
    have e1 : rG { todo := (s.g i).todo, hand := (s.g i).hand, done := true } + 1 = rG (s.g i) := by
      simp [rG, hdone, b2n]
    simp only [rank]
    omega
  | close hall hcout hcl =>
    simp only [rank, hcl, b2n]
    simp
  | consume k t hcout =>
    simp only [rank, hcout, List.length_cons]
    omega

theorem run_bounded {N cap : Nat} {s s' : St} {m : Nat} (r : Run N cap s s' m) : m + rank N s' ≤ rank N s := by
  induction r with
  | nil => omega
  | cons st _ ih => have := step_rank st; omega

theorem run_reach {N cap : Nat} {s0 s s' : St} {m : Nat} (hr : Reach N cap s0 s) (r : Run N cap s s' m) :
    Reach N cap s0 s' := by
  induction r with
  | nil => exact hr
  | cons st _ ih => exact ih (Reach.step hr st)

theorem exists_final_run (N cap : Nat) : ∀ (r : Nat) (s : St), rank N s ≤ r → ∃ s' m, Run N cap s s' m ∧ Final s' := by
  intro r
  induction r with
  | zero =>
    intro s hr
    by_cases hf : Final s
    · exact ⟨s, 0, Run.nil s, hf⟩
    · obtain ⟨s', st⟩ := progress N cap s hf
      have := step_rank st; omega
  | succ r ih =>
    intro s hr
    by_cases hf : Final s
    · exact ⟨s, 0, Run.nil s, hf⟩
    · obtain ⟨s', st⟩ := progress N cap s hf
      have := step_rank st
      obtain ⟨s'', m, run, hf'⟩ := ih s' (by omega)
      exact ⟨s'', m + 1, Run.cons st run, hf'⟩

theorem rank_init (N : Nat) (ins : Nat → List Batch) :
    rank N (init ins) = 3 * (catTo id N ins).length + N + 1 := by
  have : ∀ n, sumTo n (fun i => rG ((init ins).g i)) = 3 * (catTo id n ins).length + n := by
    intro n
    induction n with
    | zero => rfl
    | succ n ih =>
      simp only [sumTo, catTo, List.length_append, ih]
      simp [init, rG, b2n]; omega
  simp only [rank, this]
  simp [init, b2n]

/-! ## The executable scheduler takes steps of the relation -/

theorem findIn_some (p : Nat → Bool) : ∀ (len lo j : Nat), findIn p len lo = some j → lo ≤ j ∧ j < lo + len ∧ p j = true := by
  intro len
  induction len with
  | zero => intro lo j h; simp [findIn] at h
  | succ len ih =>
    intro lo j h
    simp only [findIn] at h
    by_cases hp : p lo = true
    · simp [hp] at h; subst h; exact ⟨Nat.le_refl _, by omega, hp⟩
    · simp [hp] at h
      have := ih (lo + 1) j h
      exact ⟨by omega, by omega, this.2.2⟩

theorem findIn_none (p : Nat → Bool) : ∀ (len lo : Nat), findIn p len lo = none → ∀ j, lo ≤ j → j < lo + len → p j = false := by
  intro len
  induction len with
  | zero => intro lo _ j h1 h2; omega
  | succ len ih =>
    intro lo h j h1 h2
    simp only [findIn] at h
    by_cases hp : p lo = true
    · simp [hp] at h
    · simp [hp] at h
      by_cases e : j = lo
      · subst e; simpa using hp
      · exact ih (lo + 1) h j (by omega) (by omega)

theorem findRot_some {N : Nat} {p : Nat → Bool} {start j : Nat} (h : findRot N p start = some j) :
    j < N ∧ p j = true := by
  unfold findRot at h
  cases h1 : findIn p (N - start) start with
  | some j' =>
    rw [h1] at h; cases h
    have := findIn_some p _ _ _ h1
    exact ⟨by omega, this.2.2⟩
  | none =>
    rw [h1] at h
    have := findIn_some p _ _ _ h
    exact ⟨by omega, this.2.2⟩

theorem findRot_none {N : Nat} {p : Nat → Bool} {start : Nat} (h : findRot N p start = none) :
    ∀ j, j < N → p j = false := by
  unfold findRot at h
  cases h1 : findIn p (N - start) start with
  | some j' => rw [h1] at h; cases h
  | none =>
    rw [h1] at h
    intro j hj
    by_cases c : start ≤ j
    · exact findIn_none p _ _ h1 j c (by omega)
    · exact findIn_none p _ _ h j (by omega) (by omega)

theorem sched_sound {N cap start : Nat} {s s' : St} (h : schedStep N cap start s = some s') : Step N cap s s' := by
  unfold schedStep at h
  split at h
  · next k t hc => cases h; exact Step.consume s k t hc
  · next hc =>
    split at h
    · next i h1 =>
      have hi := (findRot_some h1).1
      split at h
      · next b hh =>
        split at h
        · next hcap => cases h; exact Step.push s i b hi hh (by rw [hc]; exact hcap)
        · cases h; exact Step.pushHand s i b hi hh hc
      · cases h
    · next h1 =>
      have hnone := findRot_none h1
      split at h
      · next i h2 =>
        obtain ⟨hi, hp⟩ := findRot_some h2
        have hd : (s.g i).done = false := by simpa using hp
        have hh : (s.g i).hand = none := by
          have := hnone i hi
          cases e : (s.g i).hand with
          | none => rfl
          | some b => simp [e] at this
        split at h
        · next k t ht => cases h; exact Step.take s i k t hi ht hh hd
        · next ht => cases h; exact Step.finish s i hi ht hh hd
      · next h2 =>
        have hall : ∀ i, i < N → (s.g i).done = true := fun i hi => by simpa using findRot_none h2 i hi
        split at h
        · cases h
        · next hcl => cases h; exact Step.close s hall hc (by simpa using hcl)

theorem schedRun_reach {N cap : Nat} {s0 : St} : ∀ (fuel start : Nat) (s : St), Reach N cap s0 s →
    Reach N cap s0 (schedRun N cap fuel start s) := by
  intro fuel
  induction fuel with
  | zero => intro _ s h; exact h
  | succ fuel ih =>
    intro start s hr
    simp only [schedRun]
    cases h : schedStep N cap start s with
    | none => exact hr
    | some s' => exact ih _ s' (Reach.step hr (sched_sound h))

theorem poolRun_reach (cap : Nat) (ins : List (List Batch)) :
    Reach ins.length cap (init fun i => ins.getD i []) (poolRun cap ins) :=
  schedRun_reach _ _ _ Reach.init

end ObiVerif.PoolSteps
