import ObiVerif.Lemmas.SeqHeapStep
/-!
# The heap step refines the value-semantics step (C07, heap model)

`step_refines`: for every operation, every decision of the pool and of `append`, and every heap that
satisfies the invariant, what can be observed of EVERY object after `SeqHeap.step` is what the value
semantics `SeqHeap.vstep` computes from what could be observed before — errors included.
-/
namespace ObiVerif.SeqHeap
open ObiVerif.SeqOps

/-- observation of the outcome of a heap step -/
def sim : Except HErr Heap → Except HErr VStore
  | .ok h => .ok h.view
  | .error e => .error e

theorem view_some {h : Heap} {n : String} {o : HObj} (ho : h.objs n = some o) :
    h.view n = some ⟨h.content o.base, h.content (o.base + 1), h.content (o.base + 2), o.ann⟩ := by
  simp [Heap.view, ho]

theorem view_none {h : Heap} {n : String} (ho : h.objs n = none) : h.view n = none := by
  simp [Heap.view, ho]

theorem content_nil_of_none {h : Heap} {c : Nat} (hc : h.cells c = none) : h.content c = [] := by
  simp [Heap.content, hc]

theorem reverseInPlace_nil : reverseInPlace [] = [] := by decide

theorem win_nil (a b : Nat) : win [] a b = [] := by simp [win]

/-! ## the three fields of the target object, tracked through a sequence of actions -/

/-- after the actions leading from `h0` to `h`, which touched only the object at `base`, that object
shows `s`, `q`, `f` -/
structure Tgt (h0 h : Heap) (base : Nat) (s q f : Bytes) : Prop where
  tf : TF h0 h base
  c0 : h.content base = s
  c1 : h.content (base + 1) = q
  c2 : h.content (base + 2) = f

theorem Tgt.init {h : Heap} (hI : Inv h) (base : Nat) :
    Tgt h h base (h.content base) (h.content (base + 1)) (h.content (base + 2)) :=
  ⟨Frame.refl hI _, rfl, rfl, rfl⟩

section
variable {h0 h h2 : Heap} {base : Nat} {s q f x : Bytes}

theorem Tgt.set0 (t : Tgt h0 h base s q f) (hF : ∀ i, i < 3 → Fld h0 (base + i))
    (g : Frame h h2 (· = base)) (hx : h2.content base = x) : Tgt h0 h2 base x q f := by
  refine ⟨TF.step (i := 0) t.tf g (by omega), hx, ?_, ?_⟩
  · rw [g.same (base + 1) ((t.tf.fld _).mpr (hF 1 (by omega))) (by omega)]; exact t.c1
  · rw [g.same (base + 2) ((t.tf.fld _).mpr (hF 2 (by omega))) (by omega)]; exact t.c2

theorem Tgt.set1 (t : Tgt h0 h base s q f) (hF : ∀ i, i < 3 → Fld h0 (base + i))
    (g : Frame h h2 (· = base + 1)) (hx : h2.content (base + 1) = x) : Tgt h0 h2 base s x f := by
  refine ⟨TF.step (i := 1) t.tf g (by omega), ?_, hx, ?_⟩
  · rw [g.same base ((t.tf.fld _).mpr (hF 0 (by omega))) (by omega)]; exact t.c0
  · rw [g.same (base + 2) ((t.tf.fld _).mpr (hF 2 (by omega))) (by omega)]; exact t.c2

theorem Tgt.set2 (t : Tgt h0 h base s q f) (hF : ∀ i, i < 3 → Fld h0 (base + i))
    (g : Frame h h2 (· = base + 2)) (hx : h2.content (base + 2) = x) : Tgt h0 h2 base s q x := by
  refine ⟨TF.step (i := 2) t.tf g (by omega), ?_, ?_, hx⟩
  · rw [g.same base ((t.tf.fld _).mpr (hF 0 (by omega))) (by omega)]; exact t.c0
  · rw [g.same (base + 1) ((t.tf.fld _).mpr (hF 1 (by omega))) (by omega)]; exact t.c1

theorem Tgt.cast {s' q' f' : Bytes} (t : Tgt h0 h base s q f) (es : s = s') (eq : q = q') (ef : f = f') :
    Tgt h0 h base s' q' f' := by subst es eq ef; exact t

/-- a field of another object still shows what it showed -/
theorem Tgt.other (t : Tgt h0 h base s q f) {d : Nat} (hd : Fld h0 d) (hn : ¬ (base ≤ d ∧ d < base + 3)) :
    h.content d = h0.content d := t.tf.same d hd hn

/-- `cell (base+0) = CopySlice(src)` -/
theorem Tgt.store0 (t : Tgt h0 h base s q f) (hF : ∀ i, i < 3 → Fld h0 (base + i)) (src : Bytes) (k : Nat) :
    Tgt h0 (h.storeCopy base src k) base src q f := by
  have g := storeCopy_frame t.tf.inv ((t.tf.fld _).mpr (hF 0 (by omega))) src k
  exact t.set0 hF g.1 g.2

theorem Tgt.store1 (t : Tgt h0 h base s q f) (hF : ∀ i, i < 3 → Fld h0 (base + i)) (src : Bytes) (k : Nat) :
    Tgt h0 (h.storeCopy (base + 1) src k) base s src f := by
  have g := storeCopy_frame t.tf.inv ((t.tf.fld _).mpr (hF 1 (by omega))) src k
  exact t.set1 hF g.1 g.2

theorem Tgt.store2 (t : Tgt h0 h base s q f) (hF : ∀ i, i < 3 → Fld h0 (base + i)) (src : Bytes) (k : Nat) :
    Tgt h0 (h.storeCopy (base + 2) src k) base s q src := by
  have g := storeCopy_frame t.tf.inv ((t.tf.fld _).mpr (hF 2 (by omega))) src k
  exact t.set2 hF g.1 g.2

theorem Tgt.append0 (t : Tgt h0 h base s q f) (hF : ∀ i, i < 3 → Fld h0 (base + i)) (data : Bytes) (g : Nat) :
    Tgt h0 (h.appendCell base data g) base (s ++ data) q f := by
  have a := appendCell_frame (c := base) t.tf.inv ((t.tf.fld _).mpr (hF 0 (by omega))) data g
  exact t.set0 hF a.1 (by rw [a.2, t.c0])

theorem Tgt.append1 (t : Tgt h0 h base s q f) (hF : ∀ i, i < 3 → Fld h0 (base + i)) (data : Bytes) (g : Nat) :
    Tgt h0 (h.appendCell (base + 1) data g) base s (q ++ data) f := by
  have a := appendCell_frame t.tf.inv ((t.tf.fld _).mpr (hF 1 (by omega))) data g
  exact t.set1 hF a.1 (by rw [a.2, t.c1])

/-- the two in-place loops of `ReverseComplement` -/
theorem Tgt.rcInPlace (t : Tgt h0 h base s q f) (hF : ∀ i, i < 3 → Fld h0 (base + i)) :
    Tgt h0 (h.rcInPlace base) base (revcompInPlace s) (reverseInPlace q) f := by
  unfold Heap.rcInPlace
  have g := mapContent_frame (c := base) t.tf.inv ((t.tf.fld _).mpr (hF 0 (by omega))) revcompInPlace revcompInPlace_length
  have t1 : Tgt h0 (h.mapContent base revcompInPlace) base (revcompInPlace s) q f :=
    t.set0 hF g.1 (by rw [g.2, t.c0])
  simp only []
  split
  · have g1 := mapContent_frame t1.tf.inv ((t1.tf.fld _).mpr (hF 1 (by omega))) reverseInPlace reverseInPlace_length
    exact t1.set1 hF g1.1 (by rw [g1.2, t1.c1])
  · rename_i hq
    have hq' : q = [] := by
      have := t1.c1
      simp only [ne_eq, Decidable.not_not] at hq
      rw [hq] at this; exact this.symm
    subst hq'
    rw [reverseInPlace_nil]; exact t1

/-- `SetQualities(x)` (as repaired) -/
theorem Tgt.setQualities (t : Tgt h0 h base s q f) (hF : ∀ i, i < 3 → Fld h0 (base + i)) (x : Bytes) (k : Nat) :
    Tgt h0 (h.setQualities base x k) base s x f := by
  unfold Heap.setQualities
  simp only []
  split
  · have g := detachRecycle_frame t.tf.inv ((t.tf.fld _).mpr (hF 1 (by omega)))
    exact (t.set1 hF g.1 g.2).store1 hF x k
  · exact t.store1 hF x k

/-- `SetFeatures(x)` (as repaired) -/
theorem Tgt.setFeatures (t : Tgt h0 h base s q f) (hF : ∀ i, i < 3 → Fld h0 (base + i)) (x : Bytes) (g : Nat) :
    Tgt h0 (h.setFeatures base x g) base s q x := by
  have key : ∀ big : Bool,
      Tgt h0 ((if big then h.detachRecycle (base + 2) else h).assignFresh (base + 2) x g) base s q x := by
    intro big
    cases big
    · have a := assignFresh_frame t.tf.inv ((t.tf.fld _).mpr (hF 2 (by omega))) x g
      exact t.set2 hF a.1 a.2
    · have d := detachRecycle_frame t.tf.inv ((t.tf.fld _).mpr (hF 2 (by omega)))
      have t1 := t.set2 hF d.1 d.2
      have a := assignFresh_frame t1.tf.inv ((t1.tf.fld _).mpr (hF 2 (by omega))) x g
      exact t1.set2 hF a.1 a.2
  exact key _

end

/-- what the target shows at the end, read as a view -/
theorem Tgt.view {h0 h : Heap} {base : Nat} {s q f : Bytes} (t : Tgt h0 h base s q f) {n : String} {ann : Ann}
    (ho : h0.objs n = some ⟨base, ann⟩) : h.view n = some ⟨s, q, f, ann⟩ := by
  have ho' : h.objs n = some ⟨base, ann⟩ := by rw [t.tf.objs]; exact ho
  rw [view_some ho', t.c0, t.c1, t.c2]

/-! ## a freshly bound object -/

theorem content_newObj (h : Heap) (b : String) (ann : Ann) (c : Nat) : (h.newObj b ann).content c = h.content c := rfl

theorem Tgt.fresh {h : Heap} (hI : Inv h) {b : String} (hb : h.objs b = none) (ann : Ann) :
    Tgt (h.newObj b ann) (h.newObj b ann) h.ncell [] [] [] ∧
      (∀ i, i < 3 → Fld (h.newObj b ann) (h.ncell + i)) ∧
      (h.newObj b ann).objs b = some ⟨h.ncell, ann⟩ := by
  obtain ⟨hI0, hob, _⟩ := newObj_spec hI hb ann
  have hn : ∀ i, (h.newObj b ann).content (h.ncell + i) = [] := by
    intro i
    rw [content_newObj]
    exact content_nil_of_none (hI.cellFresh _ (by omega))
  exact ⟨⟨Frame.refl hI0 _, hn 0, hn 1, hn 2⟩, fun i hi => fld_of hob i hi, hob⟩

/-- the fields of an object `a` bound before `b` was created are fields of the new heap and lie below
the fields of `b` -/
theorem src_fld {h : Heap} (hI : Inv h) {a b : String} {oa : HObj} (ha : h.objs a = some oa) (hb : h.objs b = none)
    (ann : Ann) (i : Nat) (hi : i < 3) :
    Fld (h.newObj b ann) (oa.base + i) ∧ ¬ (h.ncell ≤ oa.base + i ∧ oa.base + i < h.ncell + 3) := by
  have hab : a ≠ b := by intro e; rw [e, hb] at ha; cases ha
  refine ⟨⟨a, oa, ?_, by omega, by omega⟩, ?_⟩
  · show (if a = b then _ else h.objs a) = some oa
    rw [if_neg hab]; exact ha
  · have := hI.cellLt (oa.base + i) (fld_owner (fld_of ha i hi))
    omega

/-- the source of a copy / subsequence still shows, during the construction of the new object, what it
showed before -/
theorem Tgt.src {h hx : Heap} {b : String} {ann : Ann} {s q f : Bytes} (hI : Inv h) {a : String} {oa : HObj}
    (ha : h.objs a = some oa) (hb : h.objs b = none)
    (t : Tgt (h.newObj b ann) hx h.ncell s q f) (i : Nat) (hi : i < 3) :
    hx.content (oa.base + i) = h.content (oa.base + i) := by
  obtain ⟨hf, hn⟩ := src_fld hI ha hb ann i hi
  rw [t.other hf hn, content_newObj]

/-- `Copy` -/
theorem copyObj_tgt {h : Heap} (hI : Inv h) {a b : String} {oa : HObj} (ha : h.objs a = some oa)
    (hb : h.objs b = none) (ch : Nat → Nat) :
    Tgt (h.newObj b oa.ann) (h.copyObj oa b ch) h.ncell
      (h.content oa.base) (h.content (oa.base + 1)) (h.content (oa.base + 2)) := by
  obtain ⟨t0, hF, _⟩ := Tgt.fresh hI hb oa.ann
  unfold Heap.copyObj
  simp only []
  have t1 := t0.store0 hF ((h.newObj b oa.ann).content oa.base) (ch 0)
  have e1 := Tgt.src hI ha hb t1 1 (by omega)
  have t2 := t1.store1 hF (((h.newObj b oa.ann).storeCopy h.ncell ((h.newObj b oa.ann).content oa.base) (ch 0)).content (oa.base + 1)) (ch 1)
  have e2 := Tgt.src hI ha hb t2 2 (by omega)
  have t3 := t2.store2 hF ((((h.newObj b oa.ann).storeCopy h.ncell ((h.newObj b oa.ann).content oa.base) (ch 0)).storeCopy (h.ncell + 1)
    (((h.newObj b oa.ann).storeCopy h.ncell ((h.newObj b oa.ann).content oa.base) (ch 0)).content (oa.base + 1)) (ch 1)).content (oa.base + 2)) (ch 2)
  exact t3.cast (content_newObj _ _ _ _) e1 e2

/-! ## the refinement, operation by operation -/

theorem vput_view_eq {h h' : Heap} {t : String} {o : Option OV}
    (ht : h'.view t = o) (hn : ∀ n, n ≠ t → h'.view n = h.view n) : h'.view = vput h.view t o := by
  funext n
  unfold vput
  by_cases e : n = t
  · rw [if_pos e, e]; exact ht
  · rw [if_neg e]; exact hn n e

theorem others_of_step {h h' : Heap} {ch : Nat → Nat} {op : HOp} {t : String} (hI : Inv h)
    (hs : step h ch op = .ok h') (ht : op.target = some t) : ∀ n, n ≠ t → h'.view n = h.view n := by
  intro n hn
  exact (step_ok hI hs).2 n (by rw [ht]; intro e; cases e; exact hn rfl)

theorem refines_new {h : Heap} (hI : Inv h) (ch : Nat → Nat) (a : String) (s : Bytes) (q : Option Bytes) :
    sim (step h ch (.new a s q)) = vstep h.view (.new a s q) := by
  cases ha : h.objs a with
  | some oa => simp [step, vstep, ha, sim, view_some ha]
  | none =>
    by_cases hq : badQual q s.length = true
    · simp [step, vstep, ha, sim, view_none ha, hq]
    · obtain ⟨t0, hF, hob⟩ := Tgt.fresh hI ha []
      have t1 := t0.store0 hF (s.map lower) (ch 0)
      cases q with
      | none =>
        have hs : step h ch (.new a s none) = .ok ((h.newObj a []).storeCopy h.ncell (s.map lower) (ch 0)) := by
          simp [step, ha, badQual]
        rw [hs]
        simp only [vstep, view_none ha, badQual, sim]
        simp only [Bool.false_eq_true, if_false, Option.getD_none]
        congr 1
        exact vput_view_eq (t1.view hob) (others_of_step hI hs rfl)
      | some qb =>
        have hs : step h ch (.new a s (some qb)) =
            .ok (((h.newObj a []).storeCopy h.ncell (s.map lower) (ch 0)).setQualities h.ncell qb (ch 1)) := by
          simp only [step, ha]
          rw [if_neg hq]
        rw [hs]
        simp only [vstep, view_none ha, sim]
        rw [if_neg hq]
        simp only [Option.getD_some]
        congr 1
        exact vput_view_eq ((t1.setQualities hF qb (ch 1)).view hob) (others_of_step hI hs rfl)

theorem refines_copy {h : Heap} (hI : Inv h) (ch : Nat → Nat) (a b : String) :
    sim (step h ch (.copy a b)) = vstep h.view (.copy a b) := by
  cases ha : h.objs a with
  | none => simp [step, vstep, ha, sim, view_none ha]
  | some oa =>
    cases hb : h.objs b with
    | some ob => simp [step, vstep, ha, hb, sim, view_some ha, view_some hb]
    | none =>
      have hs : step h ch (.copy a b) = .ok (h.copyObj oa b ch) := by simp [step, ha, hb]
      rw [hs]
      simp only [vstep, view_some ha, view_none hb, sim]
      congr 1
      have hob : (h.newObj b oa.ann).objs b = some ⟨h.ncell, oa.ann⟩ := (Tgt.fresh hI hb oa.ann).2.2
      exact vput_view_eq ((copyObj_tgt hI ha hb ch).view hob) (others_of_step hI hs rfl)

theorem refines_rc {h : Heap} (hI : Inv h) (ch : Nat → Nat) (a b : String) :
    sim (step h ch (.rc a b)) = vstep h.view (.rc a b) := by
  cases ha : h.objs a with
  | none => simp [step, vstep, ha, sim, view_none ha]
  | some oa =>
    cases hb : h.objs b with
    | some ob => simp [step, vstep, ha, hb, sim, view_some ha, view_some hb]
    | none =>
      have hs : step h ch (.rc a b) = .ok ((h.copyObj oa b ch).rcInPlace h.ncell) := by simp [step, ha, hb]
      rw [hs]
      simp only [vstep, view_some ha, view_none hb, sim]
      congr 1
      obtain ⟨_, hF, hob⟩ := Tgt.fresh hI hb oa.ann
      exact vput_view_eq (((copyObj_tgt hI ha hb ch).rcInPlace hF).view hob) (others_of_step hI hs rfl)

theorem refines_rci {h : Heap} (hI : Inv h) (ch : Nat → Nat) (a : String) :
    sim (step h ch (.rci a)) = vstep h.view (.rci a) := by
  cases ha : h.objs a with
  | none => simp [step, vstep, ha, sim, view_none ha]
  | some oa =>
    have hs : step h ch (.rci a) = .ok (h.rcInPlace oa.base) := by simp [step, ha]
    rw [hs]
    simp only [vstep, view_some ha, sim]
    congr 1
    have hF : ∀ i, i < 3 → Fld h (oa.base + i) := fun i hi => fld_of ha i hi
    exact vput_view_eq (((Tgt.init hI oa.base).rcInPlace hF).view (ann := oa.ann) ha) (others_of_step hI hs rfl)

theorem refines_set {h : Heap} (hI : Inv h) (ch : Nat → Nat) (a : String) (p : Nat) (v : UInt8) :
    sim (step h ch (.set a p v)) = vstep h.view (.set a p v) := by
  cases ha : h.objs a with
  | none => simp [step, vstep, ha, sim, view_none ha]
  | some oa =>
    have hs : step h ch (.set a p v) =
        .ok (h.mapContent oa.base (fun l => if p < l.length then l.set p v else l)) := by simp [step, ha]
    rw [hs]
    simp only [vstep, view_some ha, sim]
    congr 1
    have hF : ∀ i, i < 3 → Fld h (oa.base + i) := fun i hi => fld_of ha i hi
    have g := mapContent_frame hI (fld_of ha 0 (by omega)) (fun l => if p < l.length then l.set p v else l)
      (by intro l; split <;> simp)
    have t := (Tgt.init hI oa.base).set0 hF g.1 g.2
    exact vput_view_eq (t.view (ann := oa.ann) ha) (others_of_step hI hs rfl)

theorem refines_recycle {h : Heap} (hI : Inv h) (ch : Nat → Nat) (a : String) :
    sim (step h ch (.recycle a)) = vstep h.view (.recycle a) := by
  cases ha : h.objs a with
  | none => simp [step, vstep, ha, sim, view_none ha]
  | some oa =>
    have hs : step h ch (.recycle a) = .ok (h.recycleObj a oa.base) := by simp [step, ha]
    rw [hs]
    simp only [vstep, view_some ha, sim]
    congr 1
    obtain ⟨_, hv, hn⟩ := recycleObj_spec hI ha
    exact vput_view_eq (view_none hn) hv

theorem refines_mapset {h : Heap} (_hI : Inv h) (ch : Nat → Nat) (a key k : String) (x : Int) :
    sim (step h ch (.mapset a key k x)) = vstep h.view (.mapset a key k x) := by
  cases ha : h.objs a with
  | none => simp [step, vstep, ha, sim, view_none ha]
  | some oa =>
    simp only [step, ha, vstep, view_some ha, sim]
    congr 1
    funext n
    unfold vput Heap.view
    by_cases e : n = a
    · simp [e, Heap.content]
    · simp [e, Heap.content]

theorem refines_setqual {h : Heap} (hI : Inv h) (ch : Nat → Nat) (a : String) (q : Bytes) :
    sim (step h ch (.setqual a q)) = vstep h.view (.setqual a q) := by
  cases ha : h.objs a with
  | none => simp [step, vstep, ha, sim, view_none ha]
  | some oa =>
    by_cases hq : q = [] ∨ q.length ≠ (h.content oa.base).length
    · simp only [step, ha, vstep, view_some ha, sim]
      rw [if_pos hq, if_pos hq]
    · have hs : step h ch (.setqual a q) = .ok (h.setQualities oa.base q (ch 0)) := by
        simp only [step, ha]; rw [if_neg hq]
      rw [hs]
      simp only [vstep, view_some ha, sim]
      rw [if_neg hq]
      congr 1
      have hF : ∀ i, i < 3 → Fld h (oa.base + i) := fun i hi => fld_of ha i hi
      exact vput_view_eq (((Tgt.init hI oa.base).setQualities hF q (ch 0)).view (ann := oa.ann) ha)
        (others_of_step hI hs rfl)

theorem refines_setfeat {h : Heap} (hI : Inv h) (ch : Nat → Nat) (a : String) (x : Bytes) (g : Nat) :
    sim (step h ch (.setfeat a x g)) = vstep h.view (.setfeat a x g) := by
  cases ha : h.objs a with
  | none => simp [step, vstep, ha, sim, view_none ha]
  | some oa =>
    have hs : step h ch (.setfeat a x g) = .ok (h.setFeatures oa.base x g) := by simp [step, ha]
    rw [hs]
    simp only [vstep, view_some ha, sim]
    congr 1
    have hF : ∀ i, i < 3 → Fld h (oa.base + i) := fun i hi => fld_of ha i hi
    exact vput_view_eq (((Tgt.init hI oa.base).setFeatures hF x g).view (ann := oa.ann) ha)
      (others_of_step hI hs rfl)

theorem refines_scratch {h : Heap} (hI : Inv h) (ch : Nat → Nat) (n : Nat) (fill : UInt8) :
    sim (step h ch (.scratch n fill)) = vstep h.view (.scratch n fill) := by
  simp only [step, vstep, sim]
  congr 1
  funext m
  exact view_of_frame0 (scratch_frame hI n fill (ch 0)) m

/-! ## `Subsequence` -/

theorem Tgt.others {h hx : Heap} {b : String} {ann : Ann} {s q f : Bytes} (hI : Inv h) (hb : h.objs b = none)
    (t : Tgt (h.newObj b ann) hx h.ncell s q f) : ∀ n, n ≠ b → hx.view n = h.view n := by
  intro n hn
  obtain ⟨hI0, hob, hv⟩ := newObj_spec hI hb ann
  rw [view_of_frame (oa := ⟨h.ncell, ann⟩) hI0 hob t.tf n hn, hv n hn]

theorem Tgt.vput_fresh {h hx : Heap} {b : String} {ann : Ann} {s q f : Bytes} (hI : Inv h) (hb : h.objs b = none)
    (t : Tgt (h.newObj b ann) hx h.ncell s q f) : hx.view = vput h.view b (some ⟨s, q, f, ann⟩) :=
  vput_view_eq (t.view (Tgt.fresh hI hb ann).2.2) (t.others hI hb)

/-- `if sequence.HasQualities() { newSeq.qualities = CopySlice(sequence.Qualities()[from:to]) }` -/
theorem Tgt.storeQualIf {h0 hx : Heap} {base : Nat} {s f : Bytes} (t : Tgt h0 hx base s [] f)
    (hF : ∀ i, i < 3 → Fld h0 (base + i)) (Q : Bytes) (src : Nat) (hsrc : hx.content src = Q) (fr e k : Nat) :
    Tgt h0 (if hx.content src ≠ [] then hx.storeCopy (base + 1) (win (hx.content src) fr e) k else hx) base
      s (win Q fr e) f := by
  rw [hsrc]
  by_cases hq : Q = []
  · rw [if_neg (by simp [hq]), hq, win_nil]; exact t
  · rw [if_pos hq]; exact t.store1 hF _ k

/-- `if sequence.HasQualities() { newSeq.WriteQualities(sequence.Qualities()[0:to]) }` -/
theorem Tgt.appendQualIf {h0 hx : Heap} {base : Nat} {s q f : Bytes} (t : Tgt h0 hx base s q f)
    (hF : ∀ i, i < 3 → Fld h0 (base + i)) (Q : Bytes) (src : Nat) (hsrc : hx.content src = Q) (to g : Nat) :
    Tgt h0 (if hx.content src ≠ [] then hx.appendCell (base + 1) ((hx.content src).take to) g else hx) base
      s (q ++ Q.take to) f := by
  rw [hsrc]
  by_cases hq : Q = []
  · rw [if_neg (by simp [hq]), hq]; simp only [List.take_nil, List.append_nil]; exact t
  · rw [if_pos hq]; exact t.append1 hF _ g

theorem refines_sub {h : Heap} (hI : Inv h) (ch : Nat → Nat) (a b : String) (f t : Int) (c : Bool) :
    sim (step h ch (.sub a b f t c)) = vstep h.view (.sub a b f t c) := by
  cases ha : h.objs a with
  | none => simp [step, vstep, ha, sim, view_none ha]
  | some oa =>
    cases hb : h.objs b with
    | some ob => simp [step, vstep, ha, hb, sim, view_some ha, view_some hb]
    | none =>
      simp only [step, ha, hb, vstep, view_some ha, view_none hb]
      cases hw : subWindow (h.content oa.base).length f t c with
      | error e => cases e <;> simp [sim]
      | ok r =>
        obtain ⟨fr, to⟩ := r
        simp only []
        obtain ⟨t0, hF, hob⟩ := Tgt.fresh hI hb oa.ann
        by_cases hlt : fr < to
        · simp only [hlt, if_true, sim]
          have t1 := t0.store0 hF (win (h.content oa.base) fr to) (ch 0)
          have e1 := Tgt.src hI ha hb t1 1 (by omega)
          have t2 := t1.storeQualIf hF _ (oa.base + 1) e1 fr to (ch 1)
          exact congrArg Except.ok (t2.vput_fresh hI hb)
        · simp only [hlt, if_false, sim]
          have t1 := t0.store0 hF (win (h.content oa.base) fr (h.content oa.base).length) (ch 0)
          have e1 := Tgt.src hI ha hb t1 1 (by omega)
          have t2 := t1.storeQualIf hF _ (oa.base + 1) e1 fr (h.content oa.base).length (ch 1)
          have e2 := Tgt.src hI ha hb t2 0 (by omega)
          have t3 := (t2.append0 hF (List.take to (Heap.content _ oa.base)) (ch 8)).cast
            (congrArg (fun x => win (h.content oa.base) fr (h.content oa.base).length ++ List.take to x) e2) rfl rfl
          have e3 := Tgt.src hI ha hb t3 1 (by omega)
          have t4 := t3.appendQualIf hF _ (oa.base + 1) e3 to (ch 9)
          exact congrArg Except.ok (t4.vput_fresh hI hb)

/-! ## every operation, whole histories -/

/-- **The heap step refines the value-semantics step**: for every operation, every decision of the pool
and of `append` (`ch`) and every heap satisfying the invariant, the outcome of `step` observed through
`Heap.view` (bases, qualities, features, annotations of EVERY object; or the error) is the outcome of
`vstep` on what could be observed before. -/
theorem step_refines {h : Heap} (hI : Inv h) (ch : Nat → Nat) (op : HOp) :
    sim (step h ch op) = vstep h.view op := by
  cases op with
  | new a s q => exact refines_new hI ch a s q
  | copy a b => exact refines_copy hI ch a b
  | rc a b => exact refines_rc hI ch a b
  | rci a => exact refines_rci hI ch a
  | sub a b f t c => exact refines_sub hI ch a b f t c
  | set a p v => exact refines_set hI ch a p v
  | recycle a => exact refines_recycle hI ch a
  | mapset a key k v => exact refines_mapset hI ch a key k v
  | setqual a q => exact refines_setqual hI ch a q
  | setfeat a f g => exact refines_setfeat hI ch a f g
  | scratch n fill => exact refines_scratch hI ch n fill

/-- … and so does every history, whatever the pool decides at every step -/
theorem run_refines (ops : List HOp) (ch : Nat → Nat → Nat) (i : Nat) (h : Heap) (hI : Inv h) :
    sim (run h ch i ops) = vrun h.view ops := by
  induction ops generalizing h i with
  | nil => rfl
  | cons op t ih =>
    have hr := step_refines hI (ch i) op
    simp only [run, vrun]
    cases hs : step h (ch i) op with
    | error e =>
      rw [hs] at hr
      simp only [sim] at hr
      rw [← hr]; rfl
    | ok h1 =>
      rw [hs] at hr
      simp only [sim] at hr
      rw [← hr]
      exact ih (i + 1) h1 (step_ok hI hs).1

theorem view_empty : Heap.empty.view = fun _ => none := rfl

/-! ## windows -/

/-- mirror of a window under `reverse ∘ map f` (`f` = complement for the bases, `id` for the qualities) -/
theorem map_rev_win (f : UInt8 → UInt8) (l : Bytes) (a b : Nat) (hab : a ≤ b) (hb : b ≤ l.length) :
    ((win l a b).map f).reverse = win ((l.map f).reverse) (l.length - b) (l.length - a) := by
  unfold win
  rw [List.map_take, List.map_drop, List.reverse_take, List.reverse_drop, List.drop_take]
  simp only [List.length_drop, List.length_map]
  have e : l.length - a - (l.length - b) = b - a := by omega
  rw [e]
  congr 1
  · omega
  · congr 1; omega

theorem subWindow_linear (n a b : Nat) (hab : a < b) (hb : b ≤ n) :
    subWindow n (a : Int) (b : Int) false = .ok (a, b) := by
  have h1 : Int.tmod (a : Int) (n : Int) = a := Int.tmod_eq_of_lt (by omega) (by omega)
  have h2 : Int.tmod ((b : Int) - 1) (n : Int) = b - 1 := Int.tmod_eq_of_lt (by omega) (by omega)
  have e1 : ¬ b ≤ a := by omega
  have e3 : ¬ n ≤ a := by omega
  have e4 : ¬ n = 0 := by omega
  have e5 : ¬ n < b := by omega
  have e2 : ¬ (a : Int) < 0 := by omega
  have e6 : ¬ (b : Int) < 0 := by omega
  unfold subWindow
  simp only [h1, h2]
  simp [e1, e2, e3, e4, e5, e6]

end ObiVerif.SeqHeap
