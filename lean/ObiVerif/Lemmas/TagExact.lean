import ObiVerif.Lemmas.TagStage
/-!
# The consensus of `Identify` / `BestConsensus` is EXACTLY the LCA of the taxa folded (C15, round 3)

`consensus_anc` (Lemmas/TagTax.lean) proves that the left fold of `TaxNode.LCA` is an ancestor-or-self of every taxon
folded; here: its ancestors are exactly the common ancestors (no ancestor is lost or gained by the fold, whatever the
order of the list).
-/
namespace ObiVerif.Tag
open ObiVerif.Tax

/-- the consensus `z` of `acc` and `ms` : `a` is an ancestor-or-self of `z` iff it is one of `acc` and of every
member of `ms` -/
theorem consensus_exact {t : Taxo} {root : Nat} {depth : Nat → Nat} {fuel : Nat}
    (wf : WF t root depth) (hf : FuelOK t fuel) :
    ∀ (ms : List Nat) (acc : Option Nat) (z : Nat), (∀ m ∈ ms, ∃ n, t.node m = some n) →
      (∀ x, acc = some x → ∃ n, t.node x = some n) →
      consensus t fuel acc ms = .ok (some z) →
      ∀ a, Anc t a z ↔ ((∀ x, acc = some x → Anc t a x) ∧ ∀ m ∈ ms, Anc t a m) := by
  intro ms
  induction ms with
  | nil =>
    intro acc z _ _ h a
    simp only [consensus] at h
    cases h
    constructor
    · intro ha
      exact ⟨fun x hx => (by cases hx; exact ha), by simp⟩
    · intro ha
      exact ha.1 z rfl
  | cons m ms ih =>
    intro acc z hn hacc h a
    have hn' : ∀ m' ∈ ms, ∃ n, t.node m' = some n := fun m' hm' => hn m' (List.mem_cons_of_mem _ hm')
    obtain ⟨nm, hnm⟩ := hn m (List.mem_cons_self)
    cases acc with
    | none =>
      simp only [consensus] at h
      have := ih (some m) z hn' (by intro x hx; cases hx; exact ⟨nm, hnm⟩) h a
      rw [this]
      constructor
      · rintro ⟨h1, h2⟩
        refine ⟨(by intro x hx; cases hx), ?_⟩
        intro m' hm'
        rcases List.mem_cons.1 hm' with e | hm'
        · subst e; exact h1 _ rfl
        · exact h2 m' hm'
      · rintro ⟨_, h2⟩
        exact ⟨(by intro x hx; cases hx; exact h2 _ List.mem_cons_self),
          fun m' hm' => h2 m' (List.mem_cons_of_mem _ hm')⟩
    | some x =>
      obtain ⟨nx, hnx⟩ := hacc x rfl
      simp only [consensus] at h
      cases hl : Tax.lca t fuel x m with
      | error e => rw [hl] at h; cases h
      | ok z' =>
        rw [hl] at h
        simp only at h
        obtain ⟨⟨nz, hnz⟩, hc⟩ := lca_eq_ok wf hf hnx hnm hl
        have := ih (some z') z hn' (by intro y hy; cases hy; exact ⟨nz, hnz⟩) h a
        rw [this]
        constructor
        · rintro ⟨h1, h2⟩
          have hz := (hc a).1 (h1 z' rfl)
          refine ⟨(by intro y hy; cases hy; exact hz.1), ?_⟩
          intro m' hm'
          rcases List.mem_cons.1 hm' with e | hm'
          · subst e; exact hz.2
          · exact h2 m' hm'
        · rintro ⟨h1, h2⟩
          refine ⟨?_, fun m' hm' => h2 m' (List.mem_cons_of_mem _ hm')⟩
          intro y hy
          cases hy
          exact (hc a).2 ⟨h1 x rfl, h2 m List.mem_cons_self⟩

/-- two taxa with the same ancestors are the same taxon -/
theorem eq_of_same_ancestors {t : Taxo} {root : Nat} {depth : Nat → Nat} (wf : WF t root depth) {z z' : Nat}
    (h : ∀ a, Anc t a z ↔ Anc t a z') : z = z' :=
  Anc.antisymm wf ((h z).1 (Anc.refl _)) ((h z').2 (Anc.refl _))

end ObiVerif.Tag
