import ObiVerif.Model.IterWorker
import ObiVerif.Lemmas.Iter
/-! # The growth loop of `SeqToSliceWorker` keeps every record (lemmas for C03) -/
namespace ObiVerif.Iter

/-- what the Go runtime guarantees of `slices.Grow(s, cap(s))` on a full, non-empty slice: more room -/
def Grows (g : Nat → Nat) : Prop := ∀ c, 0 < c → c < g c

theorem growMin_grows : Grows growMin := by
  intro c hc; unfold growMin; omega

/-- loop invariant: the first `i` cells are exactly the records stored so far -/
structure OutInv (st : OutSt) (acc : List Rec) : Prop where
  le : st.2 ≤ st.1.length
  idx : st.2 = acc.length
  pre : st.1.take st.2 = acc.map some

theorem take_succ_set {α : Type} (l : List α) (i : Nat) (h : i < l.length) (x : α) :
    (l.set i x).take (i + 1) = l.take i ++ [x] := by
  induction l generalizing i with
  | nil => simp at h
  | cons a t ih =>
    cases i with
    | zero => simp
    | succ j =>
      simp only [List.set_cons_succ, List.take_succ_cons, List.cons_append]
      rw [ih j (by simpa using h)]

theorem allSome_map_some (l : List Rec) : allSome (l.map some) = some l := by
  induction l with
  | nil => rfl
  | cons a t ih => simp [allSome, ih]

theorem writeCell_grow (g : Nat → Nat) (hg : Grows g) (st : OutSt) (acc : List Rec) (rs : Rec)
    (h : OutInv st acc) (hpos : 0 < st.1.length) :
    ∃ st', writeCell (growIfFull g st) rs = some st' ∧ OutInv st' (acc ++ [rs]) ∧ 0 < st'.1.length := by
  obtain ⟨out, i⟩ := st
  obtain ⟨hle, hidx, hpre⟩ := h
  simp only at hle hidx hpre hpos
  unfold growIfFull
  by_cases hfull : i = out.length
  · have hgl := hg out.length hpos
    simp only [hfull, if_true]
    have hlen : (out ++ List.replicate (g out.length - out.length) none).length = g out.length := by
      simp; omega
    unfold writeCell
    simp only [hlen, hgl, if_true]
    refine ⟨_, rfl, ⟨?_, ?_, ?_⟩, ?_⟩
    · simp; omega
    · simp; omega
    · show ((out ++ List.replicate (g out.length - out.length) none).set out.length (some rs)).take
          (out.length + 1) = (acc ++ [rs]).map some
      rw [take_succ_set _ _ (by rw [hlen]; exact hgl)]
      rw [List.take_left' rfl]
      rw [hfull] at hpre
      simp only [List.take_length] at hpre
      simp [hpre]
    · simp; omega
  · have hlt : i < out.length := by omega
    simp only [hfull, if_false]
    unfold writeCell
    simp only [hlt, if_true]
    refine ⟨_, rfl, ⟨?_, ?_, ?_⟩, ?_⟩
    · simp; omega
    · simp; omega
    · show (out.set i (some rs)).take (i + 1) = (acc ++ [rs]).map some
      rw [take_succ_set _ _ hlt, hpre]; simp
    · simpa using hpos

theorem storeAll_spec (g : Nat → Nat) (hg : Grows g) (r : List Rec) :
    ∀ (st : OutSt) (acc : List Rec), OutInv st acc → 0 < st.1.length →
    ∃ st', storeAll g st r = some st' ∧ OutInv st' (acc ++ r) ∧ 0 < st'.1.length := by
  induction r with
  | nil => intro st acc h hp; exact ⟨st, rfl, by simpa using h, hp⟩
  | cons rs r ih =>
    intro st acc h hp
    obtain ⟨st1, e1, h1, hp1⟩ := writeCell_grow g hg st acc rs h hp
    obtain ⟨st2, e2, h2, hp2⟩ := ih st1 (acc ++ [rs]) h1 hp1
    refine ⟨st2, ?_, by simpa using h2, hp2⟩
    simp only [storeAll, e1, e2]

theorem keepOk_cons (worker : SeqWorker) (s : Rec) (t : List Rec) :
    keepOk worker (s :: t) = (worker s).getD [] ++ keepOk worker t := by
  simp [keepOk]

theorem keepOk_nil (worker : SeqWorker) : keepOk worker [] = [] := rfl

theorem keepOk_append (worker : SeqWorker) (a b : List Rec) :
    keepOk worker (a ++ b) = keepOk worker a ++ keepOk worker b := by
  simp [keepOk]

/-- the loop of the adapters, from any state satisfying the invariant -/
theorem sliceLoop_spec (g : Nat → Nat) (hg : Grows g) (cond : Rec → Bool) (worker : SeqWorker)
    (boe : Bool) :
    ∀ (input : List Rec) (st : OutSt) (acc : List Rec), OutInv st acc →
      (input ≠ [] → 0 < st.1.length) →
      sliceLoop g cond worker boe st input =
        if boe && (input.filter cond).any (fun s => (worker s).isNone) then .error
        else .ok (acc ++ keepOk worker (input.filter cond)) := by
  intro input
  induction input with
  | nil =>
    intro st acc h _
    simp only [sliceLoop, List.filter_nil, List.any_nil, Bool.and_false, keepOk_nil, List.append_nil]
    rw [h.pre, allSome_map_some]; simp
  | cons s input ih =>
    intro st acc h hp
    have hpos : 0 < st.1.length := hp (by simp)
    unfold sliceLoop
    by_cases hc : cond s = true
    · simp only [hc, if_true, List.filter_cons_of_pos]
      cases hw : worker s with
      | none =>
        cases boe with
        | true => simp [hw]
        | false =>
          simp only [Bool.false_and]
          rw [ih st acc h (fun _ => hpos)]
          simp [keepOk_cons, hw]
      | some r =>
        obtain ⟨st', e, h', hp'⟩ := storeAll_spec g hg r st acc h hpos
        simp only [e]
        rw [ih st' (acc ++ r) h' (fun _ => hp')]
        simp [keepOk_cons, hw, List.append_assoc]
    · have hc' : cond s = false := by simpa using hc
      simp only [hc', Bool.false_eq_true, if_false]
      rw [ih st acc h (fun _ => hpos)]
      simp [hc']

theorem outInv_init (n : Nat) : OutInv (List.replicate n none, 0) [] :=
  ⟨by simp, rfl, by simp⟩

theorem seqToSliceCond_eq_spec (g : Nat → Nat) (hg : Grows g) (cond : Rec → Bool) (worker : SeqWorker)
    (boe : Bool) (input : List Rec) :
    seqToSliceCond g cond worker boe input = sliceSpec cond worker boe input := by
  unfold seqToSliceCond sliceSpec
  rw [sliceLoop_spec g hg cond worker boe input _ [] (outInv_init _)]
  · simp
  · intro hne
    simp only [List.length_replicate]
    exact List.length_pos_iff.mpr hne

theorem seqToSlice_eq_spec (g : Nat → Nat) (hg : Grows g) (worker : SeqWorker) (boe : Bool)
    (input : List Rec) :
    seqToSlice g worker boe input = sliceSpec (fun _ => true) worker boe input :=
  seqToSliceCond_eq_spec g hg (fun _ => true) worker boe input

theorem filter_true' (l : List Rec) : l.filter (fun _ => true) = l := by simp

/-- `ChainWorkers`: the second worker is applied to every result of the first, failing results skipped -/
theorem chainWorkers_eq (g : Nat → Nat) (hg : Grows g) (worker next : SeqWorker) (s : Rec) :
    chainWorkers g worker next s = (worker s).map (keepOk next) := by
  unfold chainWorkers
  cases worker s with
  | none => rfl
  | some slice =>
    simp only [seqToSlice_eq_spec g hg, sliceSpec, Bool.false_and, filter_true', Option.map_some]
    rfl

theorem chainPanics_false (g : Nat → Nat) (hg : Grows g) (worker next : SeqWorker) (s : Rec) :
    chainPanics g worker next s = false := by
  unfold chainPanics
  cases worker s with
  | none => rfl
  | some slice =>
    simp [seqToSlice_eq_spec g hg, sliceSpec]

theorem keepOk_chain (g : Nat → Nat) (hg : Grows g) (worker next : SeqWorker) (input : List Rec) :
    keepOk (chainWorkers g worker next) input = keepOk next (keepOk worker input) := by
  induction input with
  | nil => rfl
  | cons s t ih =>
    rw [keepOk_cons, keepOk_cons, keepOk_append, ih, chainWorkers_eq g hg]
    cases worker s <;> simp [keepOk_nil]

/-- a slice worker that never fails: the stage is `workerStage` -/
theorem sliceWorkerStage_ok (w : List Rec → SliceRes) (f : List Rec → List Rec) (boe : Bool)
    (arr : List Batch) (h : ∀ b ∈ arr, w b.2 = .ok (f b.2)) :
    sliceWorkerStage w boe arr = .ok (arr.map fun b => (b.1, f b.2)) := by
  induction arr with
  | nil => rfl
  | cons b t ih =>
    have hb := h b (by simp)
    have ht := ih (fun b hb => h b (by simp [hb]))
    simp [sliceWorkerStage, hb, ht]

/-- a failing batch under `breakOnError`: `log.Fatalf` -/
theorem sliceWorkerStage_fatal (w : List Rec → SliceRes) (arr : List Batch)
    (hnp : ∀ b ∈ arr, w b.2 ≠ .panic) (h : ∃ b ∈ arr, w b.2 = .error) :
    sliceWorkerStage w true arr = .fatal := by
  induction arr with
  | nil => simp at h
  | cons b t ih =>
    unfold sliceWorkerStage
    cases hb : w b.2 with
    | panic => exact absurd hb (hnp b (by simp))
    | error => simp
    | ok l =>
      have : ∃ b ∈ t, w b.2 = .error := by
        obtain ⟨c, hc, hce⟩ := h
        rcases List.mem_cons.mp hc with rfl | hc
        · rw [hb] at hce; cases hce
        · exact ⟨c, hc, hce⟩
      simp [ih (fun b hb => hnp b (by simp [hb])) this]

end ObiVerif.Iter
