import ObiVerif.Model.Lcs
/-!
# C09: `_samenuc` on ALL 256 byte values (what the kernel does with symbols outside the IUPAC alphabet)

* a byte that is not an ASCII letter ('-', '.', digits, '*', bytes ≥ 128, …) matches exactly itself;
* a letter that is not an IUPAC code (e f i j l o p q x z, either case) matches NOTHING, not even itself
  (`_iupac` holds 0 for it);
* the 15 IUPAC letters and u (either case) match by intersection of their nucleotide sets (Props/C09).
One-byte facts are decided over the whole byte range (256 cases); the two-byte statements follow structurally.
-/
namespace ObiVerif.Lcs

theorem forall_byte {P : UInt8 → Prop} (h : ∀ i : Fin 256, P (UInt8.ofNat i.val)) (x : UInt8) : P x := by
  have := h ⟨x.toNat, x.toNat_lt⟩
  simpa using this

/-- an ASCII letter, either case -/
def isLetter (x : UInt8) : Bool := (65 ≤ x && x ≤ 90) || (97 ≤ x && x ≤ 122)

/-- the letters `_iupac` maps to 0: no nucleotide -/
def nonIupacLetter (x : UInt8) : Bool :=
  isLetter x && (iupac ((lowerAZ x).toNat - 97) == 0)

theorem nonletter_facts : ∀ x : UInt8, isLetter x = false →
    lowerAZ x = x ∧ ¬ (97 ≤ x ∧ x ≤ 122) ∧ ¬ (65 ≤ x ∧ x ≤ 90) := by
  apply forall_byte; decide +kernel

theorem lowerAZ_facts : ∀ y : UInt8, lowerAZ y = y ∨ (isLetter (lowerAZ y) = true ∧ isLetter y = true) := by
  apply forall_byte; decide +kernel

theorem letter_facts : ∀ x : UInt8, isLetter x = true → 97 ≤ lowerAZ x ∧ lowerAZ x ≤ 122 := by
  apply forall_byte; decide +kernel

theorem nonletter_low : ∀ y : UInt8, isLetter y = false → ¬ (97 ≤ lowerAZ y ∧ lowerAZ y ≤ 122) := by
  apply forall_byte; decide +kernel

/-- the list of the letters that are not IUPAC codes is what one expects (decided over the generated table) -/
theorem nonIupacLetter_list : ∀ x : UInt8, nonIupacLetter x = true ↔
    x ∈ ([101, 102, 105, 106, 108, 111, 112, 113, 120, 122, 69, 70, 73, 74, 76, 79, 80, 81, 88, 90] : List UInt8) := by
  apply forall_byte; decide +kernel

/-- a byte that is not a letter matches exactly itself -/
theorem samenuc_nonletter (x y : UInt8) (hx : isLetter x = false) : samenuc x y = (x == y) := by
  obtain ⟨h1, h2, _⟩ := nonletter_facts x hx
  have hc : ¬ (97 ≤ lowerAZ x ∧ lowerAZ x ≤ 122 ∧ 97 ≤ lowerAZ y ∧ lowerAZ y ≤ 122) := by
    rw [h1]; exact fun h => h2 ⟨h.1, h.2.1⟩
  unfold samenuc
  simp only []
  rw [if_neg hc, h1]
  rcases lowerAZ_facts y with h | ⟨h, h'⟩
  · rw [h]
  · have n1 : x ≠ lowerAZ y := fun e => by rw [← e, hx] at h; cases h
    have n2 : x ≠ y := fun e => by rw [← e, hx] at h'; cases h'
    rw [beq_eq_false_iff_ne.2 n1, beq_eq_false_iff_ne.2 n2]

/-- a letter that is not an IUPAC code matches nothing, not even itself -/
theorem samenuc_nonIupacLetter (x y : UInt8) (hx : nonIupacLetter x = true) : samenuc x y = false := by
  unfold nonIupacLetter at hx
  rw [Bool.and_eq_true] at hx
  obtain ⟨hl, hz⟩ := hx
  have hz' : iupac ((lowerAZ x).toNat - 97) = 0 := by simpa using hz
  obtain ⟨r1, r2⟩ := letter_facts x hl
  unfold samenuc
  simp only
  by_cases hy : 97 ≤ lowerAZ y ∧ lowerAZ y ≤ 122
  · rw [if_pos ⟨r1, r2, hy.1, hy.2⟩, hz']
    simp
  · have hc : ¬ (97 ≤ lowerAZ x ∧ lowerAZ x ≤ 122 ∧ 97 ≤ lowerAZ y ∧ lowerAZ y ≤ 122) := fun h => hy ⟨h.2.2.1, h.2.2.2⟩
    rw [if_neg hc]
    have n : lowerAZ x ≠ lowerAZ y := fun e => hy (e ▸ ⟨r1, r2⟩)
    exact beq_eq_false_iff_ne.2 n

end ObiVerif.Lcs
