import ObiVerif.Model.TaxIter
import ObiVerif.Lemmas.TaxIter
/-!
# The `ITaxonSet` protocol: draining, `TaxonSet()`, `Split()` (C14, third pass)
-/
namespace ObiVerif.TaxIter
open ObiVerif.Tax ObiVerif.TaxLoad

/-! ## `Next` -/

theorem next_fin (rest : List Nat) (cur : Option Nat) : next ⟨rest, true⟩ cur = (false, cur, ⟨rest, true⟩) := rfl
theorem next_cons (x : Nat) (r : List Nat) (cur : Option Nat) :
    next ⟨x :: r, false⟩ cur = (true, some x, ⟨r, false⟩) := rfl
theorem next_nil (cur : Option Nat) : next ⟨[], false⟩ cur = (false, none, ⟨[], true⟩) := rfl

/-! ## draining -/

/-- `TaxonSlice()`'s loop on an open channel receives everything that was left, in order, and leaves the handle
finished with `current = nil`; the fuel `len + 1` is enough -/
theorem drain_open : ∀ (rest : List Nat) (f : Nat) (cur : Option Nat) (acc : List Nat), rest.length < f →
    drain f ⟨rest, false⟩ cur acc = some (acc.reverse ++ rest, none, ⟨[], true⟩) := by
  intro rest
  induction rest with
  | nil =>
    intro f cur acc h
    cases f with
    | zero => omega
    | succ f => simp [drain, next_nil]
  | cons x r ih =>
    intro f cur acc h
    cases f with
    | zero => omega
    | succ f =>
      simp only [List.length_cons] at h
      simp only [drain, next_cons]
      rw [ih f (some x) (x :: acc) (by omega)]
      simp

/-- on a finished handle the loop receives nothing and changes nothing -/
theorem drain_finished (rest : List Nat) (f : Nat) (cur : Option Nat) (acc : List Nat) :
    drain (f + 1) ⟨rest, true⟩ cur acc = some (acc.reverse, cur, ⟨rest, true⟩) := by
  simp [drain, next_fin]

theorem taxonSlice_ofList (src : List Nat) :
    taxonSlice (Chan.ofList src) = some (src, none, ⟨[], true⟩) := by
  simp [taxonSlice, Chan.ofList, drain_open src (src.length + 1) none [] (by omega)]

/-! ## `TaxonSet()` -/

theorem mem_dedup (x : Nat) : ∀ l : List Nat, x ∈ dedup l ↔ x ∈ l := by
  intro l
  induction l with
  | nil => simp [dedup]
  | cons a r ih =>
    unfold dedup
    by_cases h : a ∈ r
    · simp only [h, if_true, ih, List.mem_cons]
      constructor
      · exact Or.inr
      · rintro (e | e)
        · subst e; exact h
        · exact e
    · simp only [h, if_false, List.mem_cons, ih]

theorem dedup_nodup : ∀ l : List Nat, (dedup l).Nodup := by
  intro l
  induction l with
  | nil => simp [dedup]
  | cons a r ih =>
    unfold dedup
    by_cases h : a ∈ r
    · simp only [h, if_true]; exact ih
    · simp only [h, if_false, List.nodup_cons]
      exact ⟨fun hm => h ((mem_dedup a r).1 hm), ih⟩

theorem dedup_of_nodup : ∀ l : List Nat, l.Nodup → dedup l = l := by
  intro l
  induction l with
  | nil => intro _; rfl
  | cons a r ih =>
    intro h
    simp only [List.nodup_cons] at h
    unfold dedup
    simp only [h.1, if_false, ih h.2]

/-! ## `Split()`: two handles on one channel -/

/-- what holds between the source and the two handles at any time: the taxa received so far by the two handles
are, together, exactly the part `done` of the source already sent, each handle got its share in source order,
and the finished flag is only raised on an exhausted channel -/
def SplitInv (src : List Nat) (s : Two) : Prop :=
  ∃ done, src = done ++ s.c.rest ∧ (s.gotA.reverse ++ s.gotB.reverse).Perm done ∧
    s.gotA.reverse.Sublist done ∧ s.gotB.reverse.Sublist done ∧ (s.c.fin = true → s.c.rest = [])

theorem splitInv_start (src : List Nat) : SplitInv src (Two.start src) :=
  ⟨[], by simp [Two.start, Chan.ofList], by simp [Two.start], by simp [Two.start], by simp [Two.start],
    by simp [Two.start, Chan.ofList]⟩

theorem step_B_cons (x : Nat) (r : List Nat) (curA curB : Option Nat) (gotA gotB : List Nat) :
    step ⟨⟨x :: r, false⟩, curA, curB, gotA, gotB⟩ true = ⟨⟨r, false⟩, curA, some x, gotA, x :: gotB⟩ := rfl
theorem step_A_cons (x : Nat) (r : List Nat) (curA curB : Option Nat) (gotA gotB : List Nat) :
    step ⟨⟨x :: r, false⟩, curA, curB, gotA, gotB⟩ false = ⟨⟨r, false⟩, some x, curB, x :: gotA, gotB⟩ := rfl

theorem step_inv (src : List Nat) (s : Two) (onB : Bool) (h : SplitInv src s) : SplitInv src (step s onB) := by
  obtain ⟨done, h1, h2, h3, h4, h5⟩ := h
  obtain ⟨⟨rest, fin⟩, curA, curB, gotA, gotB⟩ := s
  simp only at h1 h2 h3 h4 h5
  cases fin with
  | true =>
    cases onB <;> exact ⟨done, by simpa [step, next_fin] using h1, by simpa [step, next_fin] using h2,
      by simpa [step, next_fin] using h3, by simpa [step, next_fin] using h4, by simpa [step, next_fin] using h5⟩
  | false =>
    cases rest with
    | nil =>
      cases onB <;> exact ⟨done, by simpa [step, next_nil] using h1, by simpa [step, next_nil] using h2,
        by simpa [step, next_nil] using h3, by simpa [step, next_nil] using h4, by simp [step, next_nil]⟩
    | cons x r =>
      cases onB with
      | true =>
        rw [step_B_cons]
        refine ⟨done ++ [x], by simp [h1], ?_, ?_, ?_, by simp⟩
        · simp only [List.reverse_cons]
          rw [← List.append_assoc]
          exact h2.append_right [x]
        · exact h3.trans (List.sublist_append_left done [x])
        · simp only [List.reverse_cons]
          exact List.Sublist.append h4 (List.Sublist.refl [x])
      | false =>
        rw [step_A_cons]
        refine ⟨done ++ [x], by simp [h1], ?_, ?_, ?_, by simp⟩
        · simp only [List.reverse_cons]
          have : (gotA.reverse ++ [x] ++ gotB.reverse).Perm (gotA.reverse ++ gotB.reverse ++ [x]) := by
            rw [List.append_assoc, List.append_assoc]
            exact List.Perm.append_left _ List.perm_append_comm
          exact this.trans (h2.append_right [x])
        · simp only [List.reverse_cons]
          exact List.Sublist.append h3 (List.Sublist.refl [x])
        · exact h4.trans (List.sublist_append_left done [x])

theorem runSched_inv (src : List Nat) : ∀ (sched : List Bool) (s : Two), SplitInv src s →
    SplitInv src (runSched s sched) := by
  intro sched
  induction sched with
  | nil => intro s h; exact h
  | cons b r ih => intro s h; exact ih _ (step_inv src s b h)

/-- a `Next` call either finds the channel finished / finishes it, or delivers one more taxon -/
theorem step_progress (s : Two) (onB : Bool) :
    (step s onB).c.fin = true ∨
      (step s onB).gotA.length + (step s onB).gotB.length = s.gotA.length + s.gotB.length + 1 := by
  obtain ⟨⟨rest, fin⟩, curA, curB, gotA, gotB⟩ := s
  cases fin with
  | true => left; cases onB <;> simp [step, next_fin]
  | false =>
    cases rest with
    | nil => left; cases onB <;> simp [step, next_nil]
    | cons x r => right; cases onB <;> simp [step, next_cons] <;> omega

theorem step_fin_mono (s : Two) (onB : Bool) (h : s.c.fin = true) : (step s onB).c.fin = true := by
  obtain ⟨⟨rest, fin⟩, curA, curB, gotA, gotB⟩ := s
  simp only at h; subst h
  cases onB <;> simp [step, next_fin]

theorem runSched_progress : ∀ (sched : List Bool) (s : Two),
    (runSched s sched).c.fin = true ∨
      (runSched s sched).gotA.length + (runSched s sched).gotB.length =
        s.gotA.length + s.gotB.length + sched.length := by
  intro sched
  induction sched with
  | nil => intro s; right; simp [runSched]
  | cons b r ih =>
    intro s
    have hr : runSched s (b :: r) = runSched (step s b) r := rfl
    rw [hr]
    rcases ih (step s b) with h | h
    · exact Or.inl h
    · rcases step_progress s b with h' | h'
      · left
        clear h
        have : ∀ (r : List Bool) (s : Two), s.c.fin = true → (runSched s r).c.fin = true := by
          intro r
          induction r with
          | nil => intro s h; exact h
          | cons b r ih => intro s h; exact ih _ (step_fin_mono s b h)
        exact this r _ h'
      · right; rw [h, h']; simp only [List.length_cons]; omega

/-- once finished, both handles answer `false` for ever and nothing changes any more but the `current`s stay -/
theorem step_finished (s : Two) (onB : Bool) (h : s.c.fin = true) : step s onB = s := by
  obtain ⟨⟨rest, fin⟩, curA, curB, gotA, gotB⟩ := s
  simp only at h; subst h
  cases onB <;> simp [step, next_fin]

theorem split_partition_aux (src : List Nat) (sched : List Bool) (s : Two)
    (hs : runSched (Two.start src) sched = s) :
    (∃ done, src = done ++ s.c.rest ∧ (s.gotA.reverse ++ s.gotB.reverse).Perm done ∧
      s.gotA.reverse.Sublist done ∧ s.gotB.reverse.Sublist done) ∧
    (src.length < sched.length → s.c.fin = true ∧ s.c.rest = [] ∧
      (s.gotA.reverse ++ s.gotB.reverse).Perm src ∧ s.gotA.reverse.Sublist src ∧ s.gotB.reverse.Sublist src ∧
      (src.Nodup → (s.gotA.reverse ++ s.gotB.reverse).Nodup)) := by
  have hinv := runSched_inv src sched _ (splitInv_start src)
  have hprog := runSched_progress sched (Two.start src)
  rw [hs] at hinv hprog
  obtain ⟨done, h1, h2, h3, h4, h5⟩ := hinv
  refine ⟨⟨done, h1, h2, h3, h4⟩, ?_⟩
  intro hl
  have hfin : s.c.fin = true := by
    rcases hprog with h | h
    · exact h
    · exfalso
      have hlen := h2.length_eq
      have : src.length = done.length + s.c.rest.length := by rw [h1]; simp
      simp only [List.length_append, List.length_reverse] at hlen
      simp only [Two.start, List.length_nil] at h
      omega
  have hrest := h5 hfin
  have hd : src = done := by rw [h1, hrest]; simp
  subst hd
  exact ⟨hfin, hrest, h2, h3, h4, fun hn => h2.nodup_iff.2 hn⟩

/-- `Split()`: whatever the order in which two consumers call `Next` on an iterator and its split, (1) at any time
the taxa they have received are together exactly the prefix of the source already sent — each taxon of the source
goes to exactly one consumer — and each consumer sees its share in source order; (2) as soon as more `Next` calls
were made than the source has taxa the channel is exhausted and finished, and the two shares are a partition of
the whole source (a permutation of it; disjoint when the source has no duplicate) -/
theorem split_partition (src : List Nat) (sched : List Bool) :
    (∃ done, src = done ++ (runSched (Two.start src) sched).c.rest ∧
      ((runSched (Two.start src) sched).gotA.reverse ++ (runSched (Two.start src) sched).gotB.reverse).Perm done ∧
      (runSched (Two.start src) sched).gotA.reverse.Sublist done ∧
      (runSched (Two.start src) sched).gotB.reverse.Sublist done) ∧
    (src.length < sched.length →
      (runSched (Two.start src) sched).c.fin = true ∧ (runSched (Two.start src) sched).c.rest = [] ∧
      ((runSched (Two.start src) sched).gotA.reverse ++ (runSched (Two.start src) sched).gotB.reverse).Perm src ∧
      (runSched (Two.start src) sched).gotA.reverse.Sublist src ∧
      (runSched (Two.start src) sched).gotB.reverse.Sublist src ∧
      (src.Nodup → ((runSched (Two.start src) sched).gotA.reverse ++ (runSched (Two.start src) sched).gotB.reverse).Nodup)) :=
  split_partition_aux src sched _ rfl

end ObiVerif.TaxIter
