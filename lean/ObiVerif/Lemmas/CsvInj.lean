import ObiVerif.Model.WriterFmt
import ObiVerif.Lemmas.CsvRoundTrip
/-!
# `csv.Writer.Write` is injective (C04 lemmas) — core Lean only

Distinct field lists give distinct CSV texts: the model `WriterFmt.csvRow` of Go's `csv.Writer.Write`
(`Comma = ','`, `UseCRLF = false`) is injective on non-empty rows, for arbitrary field bytes, and so is the
concatenation of rows.  The proof goes through an exact inverse reader `unField` (no `\r\n` collapsing, unlike
`CsvRead`): a quoted field starts with `"`, inside its body every `"` is doubled, so the closing quote is the
first `"` not followed by `"`; an unquoted field holds no `"`, `,`, LF, CR at all and runs to the first `,` / LF.

The only collision is `csvRow [] = csvRow [[]]` (both the single byte LF), hence the hypothesis `r ≠ []`.
-/
namespace ObiVerif.CsvInj
open ObiVerif.WriterFmt

/-- the content of a quoted body up to its closing quote (the first `"` not followed by `"`), and what follows
the closing quote -/
def unQuoted : B → Option (B × B)
  | [] => none
  | c :: t =>
    if c = 34 then
      match t with
      | [] => some ([], [])
      | d :: t' => if d = 34 then (unQuoted t').map (fun p => (34 :: p.1, p.2)) else some ([], d :: t')
    else (unQuoted t).map (fun p => (c :: p.1, p.2))

/-- an unquoted field: the bytes up to the first `,` or LF -/
def unUnq : B → B × B
  | [] => ([], [])
  | c :: t => if c = 44 ∨ c = 10 then ([], c :: t) else ((c :: (unUnq t).1), (unUnq t).2)

/-- exact inverse of `csvField` in front of a separator -/
def unField : B → Option (B × B)
  | [] => some ([], [])
  | c :: t => if c = 34 then unQuoted t else some (unUnq (c :: t))

theorem unQuoted_cons_ne (c : UInt8) (t : B) (h : c ≠ 34) :
    unQuoted (c :: t) = (unQuoted t).map (fun p => (c :: p.1, p.2)) := by
  cases t <;> simp [unQuoted, h]

theorem unQuoted_body (f : B) (c : UInt8) (rest : B) (hc : c ≠ 34) :
    unQuoted (quoteBody f ++ 34 :: c :: rest) = some (f, c :: rest) := by
  induction f with
  | nil => simp [quoteBody, unQuoted, hc]
  | cons x t ih =>
    by_cases hx : x = 34
    · subst hx
      simp [quoteBody, unQuoted, ih]
    · have e : quoteBody (x :: t) = x :: quoteBody t := by simp [quoteBody, hx]
      rw [e, List.cons_append, unQuoted_cons_ne _ _ hx, ih]
      rfl

theorem unUnq_field (f : B) (c : UInt8) (rest : B) (hf : ∀ x ∈ f, x ≠ 44 ∧ x ≠ 10)
    (hc : c = 44 ∨ c = 10) : unUnq (f ++ c :: rest) = (f, c :: rest) := by
  induction f with
  | nil => simp [unUnq, hc]
  | cons x t ih =>
    obtain ⟨h1, h2⟩ := hf x (by simp)
    have := ih (fun y hy => hf y (List.mem_cons_of_mem _ hy))
    simp [unUnq, h1, h2, this]

/-- one written field followed by a separator is read back exactly -/
theorem unField_csvField (f : B) (c : UInt8) (rest : B) (hc : c = 44 ∨ c = 10) :
    unField (csvField f ++ c :: rest) = some (f, c :: rest) := by
  have hc34 : c ≠ 34 := by rcases hc with rfl | rfl <;> decide
  unfold csvField
  by_cases hq : fieldNeedsQuotes f = true
  · rw [if_pos hq]
    have := unQuoted_body f c rest hc34
    simp only [List.cons_append, List.append_assoc, unField, if_true]
    simpa using this
  · have hq' : fieldNeedsQuotes f = false := by simpa using hq
    rw [if_neg hq]
    have hb := CsvRT.noq_bytes f hq'
    have hu := unUnq_field f c rest (fun x hx => ⟨(hb x hx).2.2.2, (hb x hx).1⟩) hc
    cases f with
    | nil =>
      simp only [List.nil_append] at hu ⊢
      simp [unField, hc34, hu]
    | cons x t =>
      have hx : x ≠ 34 := (hb x (by simp)).2.2.1
      simp only [List.cons_append] at hu ⊢
      simp [unField, hx, hu]

/-- **a field text determines the field** (prefix-free form): two written fields, each followed by a separator
(`,` or LF), that give the same text are the same field, followed by the same separator and the same rest -/
theorem csvField_inj (f f' : B) (c c' : UInt8) (rest rest' : B)
    (hc : c = 44 ∨ c = 10) (hc' : c' = 44 ∨ c' = 10)
    (h : csvField f ++ c :: rest = csvField f' ++ c' :: rest') : f = f' ∧ c = c' ∧ rest = rest' := by
  have h1 := unField_csvField f c rest hc
  have h2 := unField_csvField f' c' rest' hc'
  rw [h, h2] at h1
  simp only [Option.some.injEq, Prod.mk.injEq, List.cons.injEq] at h1
  exact ⟨h1.1.symm, h1.2.1.symm, h1.2.2.symm⟩

/-- the fields of a row, in the form `csvRow` unfolds to -/
theorem csvFields_inj (fs : List B) : ∀ (f f' : B) (fs' : List B) (rest rest' : B),
    csvField f ++ csvTail fs ++ 10 :: rest = csvField f' ++ csvTail fs' ++ 10 :: rest' →
    f = f' ∧ fs = fs' ∧ rest = rest' := by
  induction fs with
  | nil =>
    intro f f' fs' rest rest' h
    cases fs' with
    | nil =>
      simp only [csvTail, List.append_nil] at h
      obtain ⟨h1, _, h3⟩ := csvField_inj f f' 10 10 rest rest' (Or.inr rfl) (Or.inr rfl) h
      exact ⟨h1, rfl, h3⟩
    | cons g' gs' =>
      have e : csvField f' ++ csvTail (g' :: gs') ++ 10 :: rest'
          = csvField f' ++ 44 :: (csvField g' ++ csvTail gs' ++ 10 :: rest') := by simp [csvTail]
      rw [e] at h
      simp only [csvTail, List.append_nil] at h
      obtain ⟨_, h2, _⟩ := csvField_inj f f' 10 44 rest _ (Or.inr rfl) (Or.inl rfl) h
      exact absurd h2 (by decide)
  | cons g gs ih =>
    intro f f' fs' rest rest' h
    have e : csvField f ++ csvTail (g :: gs) ++ 10 :: rest
        = csvField f ++ 44 :: (csvField g ++ csvTail gs ++ 10 :: rest) := by simp [csvTail]
    rw [e] at h
    cases fs' with
    | nil =>
      simp only [csvTail, List.append_nil] at h
      obtain ⟨_, h2, _⟩ := csvField_inj f f' 44 10 _ rest' (Or.inl rfl) (Or.inr rfl) h
      exact absurd h2 (by decide)
    | cons g' gs' =>
      have e' : csvField f' ++ csvTail (g' :: gs') ++ 10 :: rest'
          = csvField f' ++ 44 :: (csvField g' ++ csvTail gs' ++ 10 :: rest') := by simp [csvTail]
      rw [e'] at h
      obtain ⟨h1, _, h3⟩ := csvField_inj f f' 44 44 _ _ (Or.inl rfl) (Or.inl rfl) h
      obtain ⟨k1, k2, k3⟩ := ih g g' gs' rest rest' h3
      exact ⟨h1, by rw [k1, k2], k3⟩

/-- **a row text determines the row** (prefix-free form): two non-empty rows whose texts, each followed by
anything, agree are the same row followed by the same rest -/
theorem csvRow_inj (r r' : List B) (rest rest' : B) (hr : r ≠ []) (hr' : r' ≠ [])
    (h : csvRow r ++ rest = csvRow r' ++ rest') : r = r' ∧ rest = rest' := by
  cases r with
  | nil => exact absurd rfl hr
  | cons f fs =>
    cases r' with
    | nil => exact absurd rfl hr'
    | cons f' fs' =>
      have e : ∀ (g : B) (gs : List B) (t : B),
          csvRow (g :: gs) ++ t = csvField g ++ csvTail gs ++ 10 :: t := by
        intro g gs t; simp [csvRow]
      rw [e, e] at h
      obtain ⟨h1, h2, h3⟩ := csvFields_inj fs f f' fs' rest rest' h
      exact ⟨by rw [h1, h2], h3⟩

/-- the one collision: the empty record and the record of one empty field are both written as a bare LF -/
example : csvRow [] = csvRow [[]] := by decide

/-- **a CSV text determines its rows**: two lists of non-empty rows with the same text are equal -/
theorem csvRows_inj (rs : List (List B)) : ∀ (rs' : List (List B)),
    (∀ r ∈ rs, r ≠ []) → (∀ r ∈ rs', r ≠ []) →
    (rs.map csvRow).flatten = (rs'.map csvRow).flatten → rs = rs' := by
  induction rs with
  | nil =>
    intro rs' _ _ h
    cases rs' with
    | nil => rfl
    | cons r' rs' =>
      have hl := congrArg List.length h
      have := CsvRT.csvRow_length_pos r'
      simp only [List.map_nil, List.flatten_nil, List.length_nil, List.map_cons, List.flatten_cons,
        List.length_append] at hl
      omega
  | cons r rs ih =>
    intro rs' hne hne' h
    cases rs' with
    | nil =>
      have hl := congrArg List.length h
      have := CsvRT.csvRow_length_pos r
      simp only [List.map_nil, List.flatten_nil, List.length_nil, List.map_cons, List.flatten_cons,
        List.length_append] at hl
      omega
    | cons r' rs' =>
      simp only [List.map_cons, List.flatten_cons] at h
      obtain ⟨h1, h2⟩ := csvRow_inj r r' _ _ (hne r (by simp)) (hne' r' (by simp)) h
      have := ih rs' (fun x hx => hne x (List.mem_cons_of_mem _ hx))
        (fun x hx => hne' x (List.mem_cons_of_mem _ hx)) h2
      rw [h1, this]

end ObiVerif.CsvInj
