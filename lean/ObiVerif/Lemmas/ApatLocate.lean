import ObiVerif.Model.Apat
/-!
# `obialign.LocatePattern` (repaired model) computes a best semi-global alignment (C10, `locate_spec`)

* specification: `Ali` (alignments of a pattern with a word, with their cost), `editDist` (the textbook Levenshtein
  recursion, parameterised by the match predicate), `ali_editDist` / `editDist_le` (the recursion is the least cost)
* `Reach full rq rs k`: some alignment of cost `k` of the (reversed) pattern prefix `rq` with a suffix
  (`full = false`) or with any factor (`full = true`, last column: free end gap) of the (reversed) text read `rs`
* the matrix `M pat s I J` of the model (`fillRows`) and its recurrence (`M_succ_succ`)
* `M_score`: every cell holds minus the least reachable cost
* `bt_prefix`, `bt_last`: the backtracking returns a span whose alignment cost is the score of the last cell
* `locatePattern_spec`
-/
namespace ObiVerif.Apat

/-! ## specification: alignments and edit distance -/

section Spec
variable {α : Type}

/-- cost of aligning pattern symbol `a` with text symbol `c` under the match predicate `mt` -/
def subCost (mt : α → α → Bool) (a c : α) : Nat := if mt a c then 0 else 1

/-- `Ali mt p w k`: there is an alignment of `p` with `w` of cost `k` (substitution of non-matching symbols,
deletion of a pattern symbol, insertion of a text symbol: 1 each) -/
inductive Ali (mt : α → α → Bool) : List α → List α → Nat → Prop
  | nil : Ali mt [] [] 0
  | sub (a c : α) {p w : List α} {k : Nat} : Ali mt p w k → Ali mt (a :: p) (c :: w) (k + subCost mt a c)
  | del (a : α) {p w : List α} {k : Nat} : Ali mt p w k → Ali mt (a :: p) w (k + 1)
  | ins (c : α) {p w : List α} {k : Nat} : Ali mt p w k → Ali mt p (c :: w) (k + 1)

theorem Ali.cast {mt : α → α → Bool} {p w : List α} {k k' : Nat} (h : Ali mt p w k) (e : k = k') : Ali mt p w k' := e ▸ h

theorem Ali.snoc_sub {mt : α → α → Bool} {p w : List α} {k : Nat} (a c : α) (h : Ali mt p w k) :
    Ali mt (p ++ [a]) (w ++ [c]) (k + subCost mt a c) := by
  induction h with
  | nil => exact Ali.sub a c Ali.nil
  | sub a' c' _ ih => exact (Ali.sub a' c' ih).cast (by omega)
  | del a' _ ih => exact (Ali.del a' ih).cast (by omega)
  | ins c' _ ih => exact (Ali.ins c' ih).cast (by omega)

theorem Ali.snoc_del {mt : α → α → Bool} {p w : List α} {k : Nat} (a : α) (h : Ali mt p w k) :
    Ali mt (p ++ [a]) w (k + 1) := by
  induction h with
  | nil => exact Ali.del a Ali.nil
  | sub a' c' _ ih => exact (Ali.sub a' c' ih).cast (by omega)
  | del a' _ ih => exact (Ali.del a' ih).cast (by omega)
  | ins c' _ ih => exact (Ali.ins c' ih).cast (by omega)

theorem Ali.snoc_ins {mt : α → α → Bool} {p w : List α} {k : Nat} (c : α) (h : Ali mt p w k) :
    Ali mt p (w ++ [c]) (k + 1) := by
  induction h with
  | nil => exact Ali.ins c Ali.nil
  | sub a' c' _ ih => exact (Ali.sub a' c' ih).cast (by omega)
  | del a' _ ih => exact (Ali.del a' ih).cast (by omega)
  | ins c' _ ih => exact (Ali.ins c' ih).cast (by omega)

/-- alignments can be read backwards -/
theorem Ali.reverse {mt : α → α → Bool} {p w : List α} {k : Nat} (h : Ali mt p w k) :
    Ali mt p.reverse w.reverse k := by
  induction h with
  | nil => exact Ali.nil
  | sub a c _ ih => rw [List.reverse_cons, List.reverse_cons]; exact ih.snoc_sub a c
  | del a _ ih => rw [List.reverse_cons]; exact ih.snoc_del a
  | ins c _ ih => rw [List.reverse_cons]; exact ih.snoc_ins c

theorem Ali.of_reverse {mt : α → α → Bool} {p w : List α} {k : Nat} (h : Ali mt p.reverse w.reverse k) :
    Ali mt p w k := by
  have := h.reverse
  rwa [List.reverse_reverse, List.reverse_reverse] at this

theorem ali_nil_right {mt : α → α → Bool} : ∀ (p : List α) (k : Nat), Ali mt p [] k → k = p.length := by
  intro p
  induction p with
  | nil => intro k h; cases h; rfl
  | cons a p ih =>
    intro k h
    cases h with
    | del _ h' => rw [ih _ h']; rfl

theorem ali_nil_right_mk {mt : α → α → Bool} : ∀ (p : List α), Ali mt p [] p.length := by
  intro p
  induction p with
  | nil => exact Ali.nil
  | cons a p ih => exact Ali.del a ih

theorem ali_nil_left_mk {mt : α → α → Bool} : ∀ (w : List α), Ali mt [] w w.length := by
  intro w
  induction w with
  | nil => exact Ali.nil
  | cons c w ih => exact Ali.ins c ih

/-- one row of the Levenshtein recursion: `prev` is the distance function of the shorter pattern -/
def edRow (cost : α → Nat) (prev : List α → Nat) (plen : Nat) : List α → Nat
  | [] => plen
  | c :: w => min (min (prev w + cost c) (prev (c :: w) + 1)) (edRow cost prev plen w + 1)

/-- **edit distance** (Levenshtein) between a pattern and a word; a pattern symbol `a` and a text symbol `c` are equal
when `mt a c` -/
def editDist (mt : α → α → Bool) : List α → List α → Nat
  | [], w => w.length
  | a :: p, w => edRow (subCost mt a) (editDist mt p) (p.length + 1) w

theorem editDist_nil_left (mt : α → α → Bool) (w : List α) : editDist mt [] w = w.length := rfl

theorem editDist_nil_right (mt : α → α → Bool) (p : List α) : editDist mt p [] = p.length := by
  cases p <;> rfl

theorem editDist_cons_cons (mt : α → α → Bool) (a c : α) (p w : List α) :
    editDist mt (a :: p) (c :: w) =
      min (min (editDist mt p w + subCost mt a c) (editDist mt p (c :: w) + 1)) (editDist mt (a :: p) w + 1) := rfl

/-- the recursion is the cost of an alignment … -/
theorem ali_editDist (mt : α → α → Bool) : ∀ (p w : List α), Ali mt p w (editDist mt p w) := by
  intro p
  induction p with
  | nil => intro w; exact ali_nil_left_mk w
  | cons a p ihp =>
    intro w
    induction w with
    | nil => rw [editDist_nil_right]; exact ali_nil_right_mk _
    | cons c w ihw =>
      rw [editDist_cons_cons]
      have h1 := Ali.sub a c (ihp w)
      have h2 := Ali.del a (ihp (c :: w))
      have h3 := Ali.ins c ihw
      generalize editDist mt p w + subCost mt a c = x1 at h1 ⊢
      generalize editDist mt p (c :: w) + 1 = x2 at h2 ⊢
      generalize editDist mt (a :: p) w + 1 = x3 at h3 ⊢
      by_cases c1 : x1 ≤ x2
      · by_cases c2 : x1 ≤ x3
        · exact h1.cast (by omega)
        · exact h3.cast (by omega)
      · by_cases c2 : x2 ≤ x3
        · exact h2.cast (by omega)
        · exact h3.cast (by omega)

/-- … and no alignment is cheaper -/
theorem editDist_le {mt : α → α → Bool} {p w : List α} {k : Nat} (h : Ali mt p w k) : editDist mt p w ≤ k := by
  induction h with
  | nil => exact Nat.le_refl _
  | sub a c _ ih => rw [editDist_cons_cons]; omega
  | @del a p w k _ ih =>
    cases w with
    | nil => rw [editDist_nil_right] at *; simp only [List.length_cons]; omega
    | cons c w => rw [editDist_cons_cons]; omega
  | @ins c p w k _ ih =>
    cases p with
    | nil => rw [editDist_nil_left] at *; simp only [List.length_cons]; omega
    | cons a p => rw [editDist_cons_cons]; omega

/-! ## reachable costs -/

/-- `d` is the least number satisfying `P` -/
def IsLeast (P : Nat → Prop) (d : Nat) : Prop := P d ∧ ∀ k, P k → d ≤ k

/-- an alignment of cost `k` of `rq` with a factor `u` of `rs = x ++ u ++ v`, a prefix when `full = false` -/
def Reach (mt : α → α → Bool) (full : Bool) (rq rs : List α) (k : Nat) : Prop :=
  ∃ x u v, rs = x ++ (u ++ v) ∧ (full = false → x = []) ∧ Ali mt rq u k

theorem least_nilpat (mt : α → α → Bool) (full : Bool) (rs : List α) : IsLeast (Reach mt full [] rs) 0 :=
  ⟨⟨[], [], rs, rfl, fun _ => rfl, Ali.nil⟩, fun _ _ => Nat.zero_le _⟩

theorem least_niltext (mt : α → α → Bool) (full : Bool) (rq : List α) : IsLeast (Reach mt full rq []) rq.length := by
  refine ⟨⟨[], [], [], rfl, fun _ => rfl, ali_nil_right_mk rq⟩, ?_⟩
  rintro k ⟨x, u, v, h, _, ha⟩
  have h1 := (List.append_eq_nil_iff.1 h.symm).2
  have h2 := (List.append_eq_nil_iff.1 h1).1
  subst h2
  rw [ali_nil_right _ _ ha]
  exact Nat.le_refl _

/-- the recurrence of the semi-global alignment matrix (`full`: last pattern column, where skipping a text symbol after
the alignment is free) -/
theorem reach_step (mt : α → α → Bool) (full : Bool) (a c : α) (rq rs : List α) (d1 d2 d3 : Nat)
    (h1 : IsLeast (Reach mt false rq rs) d1) (h2 : IsLeast (Reach mt false rq (c :: rs)) d2)
    (h3 : IsLeast (Reach mt full (a :: rq) rs) d3) :
    IsLeast (Reach mt full (a :: rq) (c :: rs))
      (min (min (d1 + subCost mt a c) (d3 + (if full then 0 else 1))) (d2 + 1)) := by
  -- the three candidates are reachable
  have r1 : Reach mt full (a :: rq) (c :: rs) (d1 + subCost mt a c) := by
    obtain ⟨x, u, v, hx, hf, ha⟩ := h1.1
    have := hf rfl; subst this
    exact ⟨[], c :: u, v, by rw [hx]; rfl, fun _ => rfl, Ali.sub a c ha⟩
  have r2 : Reach mt full (a :: rq) (c :: rs) (d2 + 1) := by
    obtain ⟨x, u, v, hx, hf, ha⟩ := h2.1
    have := hf rfl; subst this
    exact ⟨[], u, v, hx, fun _ => rfl, Ali.del a ha⟩
  have r3 : Reach mt full (a :: rq) (c :: rs) (d3 + (if full then 0 else 1)) := by
    obtain ⟨x, u, v, hx, hf, ha⟩ := h3.1
    cases full with
    | true => exact ⟨c :: x, u, v, by rw [hx]; rfl, (fun h => by cases h), ha⟩
    | false =>
      have := hf rfl; subst this
      exact ⟨[], c :: u, v, by rw [hx]; rfl, fun _ => rfl, Ali.ins c ha⟩
  refine ⟨?_, ?_⟩
  · generalize d1 + subCost mt a c = x1 at r1 ⊢
    generalize d3 + (if full then 0 else 1) = x3 at r3 ⊢
    generalize d2 + 1 = x2 at r2 ⊢
    by_cases c1 : x1 ≤ x3
    · by_cases c2 : x1 ≤ x2
      · have : min (min x1 x3) x2 = x1 := by omega
        rw [this]; exact r1
      · have : min (min x1 x3) x2 = x2 := by omega
        rw [this]; exact r2
    · by_cases c2 : x3 ≤ x2
      · have : min (min x1 x3) x2 = x3 := by omega
        rw [this]; exact r3
      · have : min (min x1 x3) x2 = x2 := by omega
        rw [this]; exact r2
  · rintro k ⟨x, u, v, hx, hf, ha⟩
    cases x with
    | nil =>
      simp only [List.nil_append] at hx
      cases ha with
      | @sub _ c' _ w k' ha' =>
        simp only [List.cons_append, List.cons.injEq] at hx
        obtain ⟨hc, hrs⟩ := hx
        subst hc
        have := h1.2 k' ⟨[], w, v, hrs, fun _ => rfl, ha'⟩
        omega
      | @del _ _ _ k' ha' =>
        have := h2.2 k' ⟨[], u, v, hx, fun _ => rfl, ha'⟩
        omega
      | @ins c' _ w k' ha' =>
        simp only [List.cons_append, List.cons.injEq] at hx
        obtain ⟨hc, hrs⟩ := hx
        have := h3.2 k' ⟨[], w, v, hrs, fun _ => rfl, ha'⟩
        split <;> omega
    | cons c' x' =>
      cases full with
      | false => cases hf rfl
      | true =>
        simp only [List.cons_append, List.cons.injEq] at hx
        have := h3.2 k ⟨x', u, v, hx.2, (fun h => by cases h), ha⟩
        simp only [if_true]
        omega

end Spec

/-! ## the matrix of the model -/

/-- one cell of `rowCells`: `dg`, `up`, `lf` are the diagonal, upper and left neighbours -/
def mkCell (c p : UInt8) (isLast : Bool) (dg up lf : Cell) : Cell :=
  let mt : Int := if samenuc p c then 0 else -1
  let diag := dg.1 + mt
  let left := lf.1 - 1
  let upv := up.1 - (if isLast then 0 else 1)
  let score := max (max diag upv) left
  (score, pathOf score left diag upv)

theorem rowCells_cons (c p : UInt8) (ps : Bytes) (prev : List Cell) (left : Cell) :
    rowCells c (p :: ps) prev left =
      mkCell c p ps.isEmpty (prev.headD (0, 0)) ((prev.drop 1).headD (0, 0)) left ::
        rowCells c ps (prev.drop 1) (mkCell c p ps.isEmpty (prev.headD (0, 0)) ((prev.drop 1).headD (0, 0)) left) := rfl

theorem getD_drop_one (l : List Cell) (k : Nat) (d : Cell) : (l.drop 1).getD k d = l.getD (k + 1) d := by
  simp only [List.getD_eq_getElem?_getD, List.getElem?_drop]
  rw [Nat.add_comm]

theorem headD_eq_getD (l : List Cell) (d : Cell) : l.headD d = l.getD 0 d := by
  cases l <;> rfl

/-- random access to a row under construction -/
theorem rowCells_getD (c : UInt8) : ∀ (ps : Bytes) (prev : List Cell) (left : Cell) (k : Nat) (hk : k < ps.length),
    (left :: rowCells c ps prev left).getD (k + 1) (0, 0) =
      mkCell c ps[k] (decide (k + 1 = ps.length)) (prev.getD k (0, 0)) (prev.getD (k + 1) (0, 0))
        ((left :: rowCells c ps prev left).getD k (0, 0)) := by
  intro ps
  induction ps with
  | nil => intro _ _ k hk; simp at hk
  | cons p ps ih =>
    intro prev left k hk
    rw [rowCells_cons]
    cases k with
    | zero =>
      have he : ps.isEmpty = decide (0 + 1 = (p :: ps).length) := by
        cases ps <;> simp
      rw [he, headD_eq_getD, headD_eq_getD, getD_drop_one]
      rfl
    | succ k =>
      have hk' : k < ps.length := by simpa using hk
      have := ih (prev.drop 1) (mkCell c p ps.isEmpty (prev.headD (0, 0)) ((prev.drop 1).headD (0, 0)) left) k hk'
      rw [getD_drop_one, getD_drop_one] at this
      have hd : decide (k + 1 + 1 = (p :: ps).length) = decide (k + 1 = ps.length) := by
        simp
      rw [hd]
      exact this

/-- the next row of the matrix -/
def rowStep (pat : Bytes) (prev : List Cell) (c : UInt8) : List Cell := (0, 1) :: rowCells c pat prev (0, 1)

theorem fillRows_getD (pat : Bytes) : ∀ (cs : Bytes) (prev : List Cell) (I : Nat), I ≤ cs.length →
    (fillRows pat prev cs).getD I [] = (cs.take I).foldl (rowStep pat) prev := by
  intro cs
  induction cs with
  | nil => intro prev I hI; have : I = 0 := by simpa using hI
           subst this; rfl
  | cons c cs ih =>
    intro prev I hI
    cases I with
    | zero => rfl
    | succ I =>
      simp only [fillRows, List.getD_cons_succ, List.take_succ_cons, List.foldl_cons]
      exact ih _ I (by simpa using hI)

/-- cell of row `I` (after `I` text symbols), column `J` (after `J` pattern symbols) -/
def M (pat s : Bytes) (I J : Nat) : Cell :=
  (((s.take I).foldl (rowStep pat) (firstRow pat.length))).getD J (0, 0)

theorem cellAt_eq (pat s : Bytes) (I J : Nat) (hI : I ≤ s.length) :
    cellAt (fillRows pat (firstRow pat.length) s) ((I : Int) - 1) ((J : Int) - 1) = M pat s I J := by
  unfold cellAt M
  have h1 : ((I : Int) - 1 + 1).toNat = I := by omega
  have h2 : ((J : Int) - 1 + 1).toNat = J := by omega
  rw [h1, h2, fillRows_getD pat s _ I hI]

theorem M_zero_zero (pat s : Bytes) : M pat s 0 0 = (0, 0) := rfl

theorem M_zero_succ (pat s : Bytes) (J : Nat) (hJ : J < pat.length) : M pat s 0 (J + 1) = (-(J : Int) - 1, -1) := by
  unfold M firstRow
  simp [List.getD_eq_getElem?_getD, hJ]

theorem foldl_take_succ {β : Type} (f : β → UInt8 → β) (b : β) (s : Bytes) (I : Nat) (hI : I < s.length) :
    (s.take (I + 1)).foldl f b = f ((s.take I).foldl f b) s[I] := by
  rw [List.take_add_one, List.foldl_append]
  simp [hI]

theorem M_succ_zero (pat s : Bytes) (I : Nat) (hI : I < s.length) : M pat s (I + 1) 0 = (0, 1) := by
  unfold M
  rw [foldl_take_succ _ _ _ _ hI]
  rfl

theorem M_succ_succ (pat s : Bytes) (I J : Nat) (hI : I < s.length) (hJ : J < pat.length) :
    M pat s (I + 1) (J + 1) =
      mkCell s[I] pat[J] (decide (J + 1 = pat.length)) (M pat s I J) (M pat s I (J + 1)) (M pat s (I + 1) J) := by
  unfold M
  rw [foldl_take_succ _ _ _ _ hI]
  exact rowCells_getD s[I] pat _ (0, 1) J hJ

theorem M_zero_score (pat s : Bytes) (J : Nat) (hJ : J ≤ pat.length) : (M pat s 0 J).1 = -(J : Int) := by
  cases J with
  | zero => rfl
  | succ J => rw [M_zero_succ pat s J (by omega)]; simp only []; omega

theorem M_col_zero_score (pat s : Bytes) (I : Nat) (hI : I ≤ s.length) : (M pat s I 0).1 = 0 := by
  cases I with
  | zero => rfl
  | succ I => rw [M_succ_zero pat s I (by omega)]

/-- how the path code of a cell relates its score to its neighbours -/
theorem mkCell_path (c p : UInt8) (isLast : Bool) (dg up lf : Cell) :
    ((mkCell c p isLast dg up lf).2 = -1 ∧ (mkCell c p isLast dg up lf).1 = lf.1 - 1) ∨
    ((mkCell c p isLast dg up lf).2 = 0 ∧ (mkCell c p isLast dg up lf).1 = dg.1 + (if samenuc p c then 0 else -1)) ∨
    ((mkCell c p isLast dg up lf).2 = 1 ∧ (mkCell c p isLast dg up lf).1 = up.1 - (if isLast then 0 else 1)) := by
  unfold mkCell pathOf
  simp only [beq_iff_eq]
  generalize (if samenuc p c then (0 : Int) else -1) = mt
  generalize (if isLast then (0 : Int) else 1) = g
  by_cases h1 : max (max (dg.1 + mt) (up.1 - g)) (lf.1 - 1) = lf.1 - 1
  · left; rw [if_pos h1]; exact ⟨rfl, h1⟩
  · right
    rw [if_neg h1]
    by_cases h2 : max (max (dg.1 + mt) (up.1 - g)) (lf.1 - 1) = dg.1 + mt
    · left; rw [if_pos h2]; exact ⟨rfl, h2⟩
    · right
      rw [if_neg h2]
      have h3 : max (max (dg.1 + mt) (up.1 - g)) (lf.1 - 1) = up.1 - g := by omega
      rw [if_pos h3]; exact ⟨rfl, h3⟩

theorem take_succ_reverse (l : Bytes) (J : Nat) (hJ : J < l.length) :
    (l.take (J + 1)).reverse = l[J] :: (l.take J).reverse := by
  rw [List.take_add_one, List.reverse_append]
  simp [hJ]

/-! ## the scores are the least reachable costs -/

theorem mkCell_score (c p : UInt8) (isLast : Bool) (dg up lf : Cell) (d1 d2 d3 : Nat)
    (h1 : dg.1 = -(d1 : Int)) (h2 : lf.1 = -(d2 : Int)) (h3 : up.1 = -(d3 : Int)) :
    (mkCell c p isLast dg up lf).1 =
      -((min (min (d1 + subCost samenuc p c) (d3 + (if isLast then 0 else 1))) (d2 + 1) : Nat) : Int) := by
  unfold mkCell subCost
  simp only [h1, h2, h3]
  cases samenuc p c <;> cases isLast <;> simp only [if_true, if_false, Bool.false_eq_true] <;> omega

theorem M_score (pat s : Bytes) : ∀ I, I ≤ s.length → ∀ J, J ≤ pat.length →
    ∃ d : Nat, (M pat s I J).1 = -(d : Int) ∧
      IsLeast (Reach samenuc (decide (J = pat.length)) (pat.take J).reverse (s.take I).reverse) d := by
  intro I
  induction I with
  | zero =>
    intro _ J hJ
    refine ⟨J, M_zero_score pat s J hJ, ?_⟩
    have := least_niltext samenuc (decide (J = pat.length)) (pat.take J).reverse
    simp only [List.length_reverse, List.length_take] at this
    rw [Nat.min_eq_left hJ] at this
    exact this
  | succ I ihI =>
    intro hI J
    induction J with
    | zero =>
      intro _
      exact ⟨0, by rw [M_succ_zero pat s I (by omega)]; rfl, least_nilpat _ _ _⟩
    | succ J ihJ =>
      intro hJ
      obtain ⟨d1, e1, l1⟩ := ihI (by omega) J (by omega)
      obtain ⟨d3, e3, l3⟩ := ihI (by omega) (J + 1) hJ
      obtain ⟨d2, e2, l2⟩ := ihJ (by omega)
      have hf : decide (J = pat.length) = false := by simp; omega
      rw [hf] at l1 l2
      rw [take_succ_reverse s I (by omega)] at l2
      refine ⟨min (min (d1 + subCost samenuc pat[J] s[I]) (d3 + (if decide (J + 1 = pat.length) then 0 else 1))) (d2 + 1), ?_, ?_⟩
      · rw [M_succ_succ pat s I J (by omega) (by omega)]
        exact mkCell_score _ _ _ _ _ _ d1 d2 d3 e1 e2 e3
      · rw [take_succ_reverse s I (by omega), take_succ_reverse pat J (by omega)]
        rw [take_succ_reverse pat J (by omega)] at l3
        exact reach_step samenuc _ pat[J] s[I] _ _ d1 d2 d3 l1 l2 l3

/-! ## the backtracking -/

theorem bt_neg (rows : List (List Cell)) (fuel : Nat) (i j e : Int) (hj : ¬ j ≥ 0) :
    backtrack rows (fuel + 1) i j e = (i, e) := by
  rw [backtrack, if_neg hj]

theorem bt_diag (rows : List (List Cell)) (fuel : Nat) (i j e : Int) (hj : j ≥ 0) (hp : (cellAt rows i j).2 = 0) :
    backtrack rows (fuel + 1) i j e = backtrack rows fuel (i - 1) (j - 1) (if e == -1 then i else e) := by
  rw [backtrack, if_pos hj]
  simp only [hp]
  rfl

theorem bt_up (rows : List (List Cell)) (fuel : Nat) (i j e : Int) (hj : j ≥ 0) (hp : (cellAt rows i j).2 = 1) :
    backtrack rows (fuel + 1) i j e = backtrack rows fuel (i - 1) j e := by
  rw [backtrack, if_pos hj]
  simp only [hp]
  rfl

theorem bt_left (rows : List (List Cell)) (fuel : Nat) (i j e : Int) (hj : j ≥ 0) (hp : (cellAt rows i j).2 = -1) :
    backtrack rows (fuel + 1) i j e = backtrack rows fuel i (j - 1) (if e == -1 then i else e) := by
  rw [backtrack, if_pos hj]
  simp only [hp]
  rfl

theorem drop_take_succ_reverse (s : Bytes) (I F : Nat) (hI : I < s.length) (hF : F ≤ I) :
    ((s.take (I + 1)).drop F).reverse = s[I] :: ((s.take I).drop F).reverse := by
  rw [List.take_add_one, List.drop_append_of_le_length (by simp; omega), List.reverse_append]
  simp [hI]

theorem ite_e_keep (e i : Int) (h : e ≠ -1) : (if e == -1 then i else e) = e := by
  simp [h]

/-- backtracking from a cell outside the last column (all moves cost what the alignment pays): the text span
`[F, I)` aligned with the pattern prefix `[0, J)` at the cost held in the cell -/
theorem bt_prefix (pat s : Bytes) (rows : List (List Cell))
    (hrows : ∀ (I J : Nat), I ≤ s.length → cellAt rows ((I : Int) - 1) ((J : Int) - 1) = M pat s I J) :
    ∀ (fuel I J : Nat) (e : Int), I ≤ s.length → J < pat.length → I + J ≤ fuel → (e ≠ -1 ∨ I = 0) →
      ∃ F k : Nat, F ≤ I ∧ backtrack rows fuel ((I : Int) - 1) ((J : Int) - 1) e = ((F : Int) - 1, e) ∧
        (M pat s I J).1 = -(k : Int) ∧ Ali samenuc (pat.take J).reverse ((s.take I).drop F).reverse k := by
  intro fuel
  induction fuel with
  | zero =>
    intro I J e _ _ hf _
    have hI0 : I = 0 := by omega
    have hJ0 : J = 0 := by omega
    subst hI0; subst hJ0
    exact ⟨0, 0, Nat.le_refl _, rfl, rfl, Ali.nil⟩
  | succ fuel ih =>
    intro I J e hI hJ hf he
    cases J with
    | zero =>
      refine ⟨I, 0, Nat.le_refl _, bt_neg _ _ _ _ _ (by omega), by rw [M_col_zero_score pat s I hI]; rfl, ?_⟩
      have : (s.take I).drop I = [] := List.drop_eq_nil_of_le (by simp; omega)
      rw [this]
      exact Ali.nil
    | succ J =>
      have hj : ((J + 1 : Nat) : Int) - 1 ≥ 0 := by omega
      have hjj : ((J + 1 : Nat) : Int) - 1 - 1 = (J : Int) - 1 := by omega
      have hcell := hrows I (J + 1) hI
      cases I with
      | zero =>
        have hM := M_zero_succ pat s J (by omega)
        have hp : (cellAt rows (((0 : Nat) : Int) - 1) (((J + 1 : Nat) : Int) - 1)).2 = -1 := by rw [hcell, hM]
        rw [bt_left _ _ _ _ _ hj hp, hjj]
        have he' : (if e == -1 then ((0 : Nat) : Int) - 1 else e) = e := by
          by_cases h : e = -1
          · subst h; rfl
          · exact ite_e_keep _ _ h
        rw [he']
        obtain ⟨F, k, hF, hb, hk, ha⟩ := ih 0 J e (by omega) (by omega) (by omega) (Or.inr rfl)
        refine ⟨F, k + 1, hF, hb, ?_, ?_⟩
        · rw [hM]
          have := M_zero_score pat s J (by omega)
          simp only []
          omega
        · rw [take_succ_reverse pat J (by omega)]
          exact Ali.del _ ha
      | succ I =>
        have hM := M_succ_succ pat s I J (by omega) (by omega)
        have hne : e ≠ -1 := by
          rcases he with h | h
          · exact h
          · omega
        have hii : ((I + 1 : Nat) : Int) - 1 - 1 = (I : Int) - 1 := by omega
        rcases mkCell_path s[I] pat[J] (decide (J + 1 = pat.length)) (M pat s I J) (M pat s I (J + 1))
          (M pat s (I + 1) J) with ⟨hp, hs⟩ | ⟨hp, hs⟩ | ⟨hp, hs⟩
        · -- left
          rw [← hM] at hp hs
          rw [← hcell] at hp
          rw [bt_left _ _ _ _ _ hj hp, hjj, ite_e_keep _ _ hne]
          obtain ⟨F, k, hF, hb, hk, ha⟩ := ih (I + 1) J e hI (by omega) (by omega) (Or.inl hne)
          refine ⟨F, k + 1, hF, hb, ?_, ?_⟩
          · rw [hs, hk]; omega
          · rw [take_succ_reverse pat J (by omega)]
            exact Ali.del _ ha
        · -- diagonal
          rw [← hM] at hp hs
          rw [← hcell] at hp
          rw [bt_diag _ _ _ _ _ hj hp, hjj, hii, ite_e_keep _ _ hne]
          obtain ⟨F, k, hF, hb, hk, ha⟩ := ih I J e (by omega) (by omega) (by omega) (Or.inl hne)
          refine ⟨F, k + subCost samenuc pat[J] s[I], by omega, hb, ?_, ?_⟩
          · rw [hs, hk]; unfold subCost; split <;> omega
          · rw [take_succ_reverse pat J (by omega), drop_take_succ_reverse s I F (by omega) hF]
            exact Ali.sub _ _ ha
        · -- up (not the last column: costs 1)
          rw [← hM] at hp hs
          rw [← hcell] at hp
          have hd : decide (J + 1 = pat.length) = false := by simp; omega
          rw [hd] at hs
          rw [bt_up _ _ _ _ _ hj hp, hii]
          obtain ⟨F, k, hF, hb, hk, ha⟩ := ih I (J + 1) e (by omega) hJ (by omega) (Or.inl hne)
          refine ⟨F, k + 1, by omega, hb, ?_, ?_⟩
          · rw [hs, hk]; simp only [Bool.false_eq_true, if_false]; omega
          · rw [drop_take_succ_reverse s I F (by omega) hF]
            exact Ali.ins _ ha

/-- backtracking from the last column with no end recorded yet: free moves up, then `bt_prefix` -/
theorem bt_last (pat s : Bytes) (rows : List (List Cell))
    (hrows : ∀ (I J : Nat), I ≤ s.length → cellAt rows ((I : Int) - 1) ((J : Int) - 1) = M pat s I J)
    (J : Nat) (hJ : J + 1 = pat.length) :
    ∀ (I fuel : Nat), I ≤ s.length → I + (J + 1) ≤ fuel →
      ∃ F T k : Nat, F ≤ T ∧ T ≤ I ∧
        backtrack rows fuel ((I : Int) - 1) (((J + 1 : Nat) : Int) - 1) (-1) = ((F : Int) - 1, (T : Int) - 1) ∧
        (M pat s I (J + 1)).1 = -(k : Int) ∧ Ali samenuc (pat.take (J + 1)).reverse ((s.take T).drop F).reverse k := by
  have hj : ((J + 1 : Nat) : Int) - 1 ≥ 0 := by omega
  have hjj : ((J + 1 : Nat) : Int) - 1 - 1 = (J : Int) - 1 := by omega
  intro I
  induction I with
  | zero =>
    intro fuel hI hf
    obtain ⟨fuel, rfl⟩ : ∃ f', fuel = f' + 1 := ⟨fuel - 1, by omega⟩
    have hcell := hrows 0 (J + 1) hI
    have hM := M_zero_succ pat s J (by omega)
    have hp : (cellAt rows (((0 : Nat) : Int) - 1) (((J + 1 : Nat) : Int) - 1)).2 = -1 := by rw [hcell, hM]
    rw [bt_left _ _ _ _ _ hj hp, hjj]
    have he' : (if (-1 : Int) == -1 then ((0 : Nat) : Int) - 1 else -1) = ((0 : Nat) : Int) - 1 := rfl
    rw [he']
    obtain ⟨F, k, hF, hb, hk, ha⟩ := bt_prefix pat s rows hrows fuel 0 J (((0 : Nat) : Int) - 1) hI (by omega) (by omega) (Or.inr rfl)
    refine ⟨F, 0, k + 1, hF, Nat.le_refl _, hb, ?_, ?_⟩
    · rw [hM]
      have := M_zero_score pat s J (by omega)
      simp only []
      omega
    · rw [take_succ_reverse pat J (by omega)]
      exact Ali.del _ ha
  | succ I ih =>
    intro fuel hI hf
    obtain ⟨fuel, rfl⟩ : ∃ f', fuel = f' + 1 := ⟨fuel - 1, by omega⟩
    have hcell := hrows (I + 1) (J + 1) hI
    have hM := M_succ_succ pat s I J (by omega) (by omega)
    have hii : ((I + 1 : Nat) : Int) - 1 - 1 = (I : Int) - 1 := by omega
    have he' : (if (-1 : Int) == -1 then ((I + 1 : Nat) : Int) - 1 else -1) = ((I + 1 : Nat) : Int) - 1 := rfl
    have hne : ((I + 1 : Nat) : Int) - 1 ≠ -1 := by omega
    rcases mkCell_path s[I] pat[J] (decide (J + 1 = pat.length)) (M pat s I J) (M pat s I (J + 1))
      (M pat s (I + 1) J) with ⟨hp, hs⟩ | ⟨hp, hs⟩ | ⟨hp, hs⟩
    · -- left
      rw [← hM] at hp hs
      rw [← hcell] at hp
      rw [bt_left _ _ _ _ _ hj hp, hjj, he']
      obtain ⟨F, k, hF, hb, hk, ha⟩ := bt_prefix pat s rows hrows fuel (I + 1) J _ hI (by omega) (by omega) (Or.inl hne)
      refine ⟨F, I + 1, k + 1, hF, Nat.le_refl _, hb, ?_, ?_⟩
      · rw [hs, hk]; omega
      · rw [take_succ_reverse pat J (by omega)]
        exact Ali.del _ ha
    · -- diagonal
      rw [← hM] at hp hs
      rw [← hcell] at hp
      rw [bt_diag _ _ _ _ _ hj hp, hjj, hii, he']
      obtain ⟨F, k, hF, hb, hk, ha⟩ := bt_prefix pat s rows hrows fuel I J _ (by omega) (by omega) (by omega) (Or.inl hne)
      refine ⟨F, I + 1, k + subCost samenuc pat[J] s[I], by omega, Nat.le_refl _, hb, ?_, ?_⟩
      · rw [hs, hk]; unfold subCost; split <;> omega
      · rw [take_succ_reverse pat J (by omega), drop_take_succ_reverse s I F (by omega) hF]
        exact Ali.sub _ _ ha
    · -- up in the last column: free
      rw [← hM] at hp hs
      rw [← hcell] at hp
      have hd : decide (J + 1 = pat.length) = true := by simp; omega
      rw [hd] at hs
      rw [bt_up _ _ _ _ _ hj hp, hii]
      obtain ⟨F, T, k, hFT, hT, hb, hk, ha⟩ := ih fuel (by omega) (by omega)
      refine ⟨F, T, k, hFT, by omega, hb, ?_, ha⟩
      rw [hs, hk]; simp only [if_true]; omega

/-- **`LocatePattern` (repaired) returns a best semi-global alignment**: the span `[f, t)` lies inside the sequence, the
pattern aligns with `s[f:t]` at cost `k`, and no substring of `s` aligns with the pattern at a smaller cost. -/
theorem locatePattern_spec (pat s : Bytes) (hp : pat ≠ []) :
    ∃ f t k : Nat, locatePattern pat s = some ((f : Int), (t : Int), (k : Int)) ∧ f ≤ t ∧ t ≤ s.length ∧
      Ali samenuc pat ((s.drop f).take (t - f)) k ∧
      ∀ a b k', Ali samenuc pat ((s.drop a).take (b - a)) k' → k ≤ k' := by
  obtain ⟨J, hJ⟩ : ∃ J, J + 1 = pat.length := by
    cases pat with
    | nil => exact absurd rfl hp
    | cons a p => exact ⟨p.length, rfl⟩
  have hrows : ∀ (I J : Nat), I ≤ s.length →
      cellAt (fillRows pat (firstRow pat.length) s) ((I : Int) - 1) ((J : Int) - 1) = M pat s I J :=
    fun I J hI => cellAt_eq pat s I J hI
  obtain ⟨F, T, k, hFT, hT, hb, hk, ha⟩ := bt_last pat s _ hrows J hJ s.length (s.length + pat.length + 2)
    (Nat.le_refl _) (by omega)
  obtain ⟨d, hd, hl⟩ := M_score pat s s.length (Nat.le_refl _) pat.length (Nat.le_refl _)
  have hkd : k = d := by rw [← hJ] at hd; omega
  subst hkd
  have htake : pat.take (J + 1) = pat := by rw [hJ]; exact List.take_length
  rw [htake] at ha
  refine ⟨F, T, k, ?_, hFT, hT, ?_, ?_⟩
  · unfold locatePattern
    have h0 : (pat.length == 0) = false := by simp; omega
    rw [h0]
    simp only [Bool.false_eq_true, if_false]
    have hcast : ((J + 1 : Nat) : Int) = (pat.length : Int) := by rw [hJ]
    rw [hcast] at hb
    rw [hb]
    simp only [Option.some.injEq, Prod.mk.injEq]
    refine ⟨by omega, by omega, ?_⟩
    rw [hrows s.length pat.length (Nat.le_refl _), hd]
    omega
  · have := ha.of_reverse
    rwa [List.drop_take] at this
  · intro a b k' hk'
    apply hl.2
    simp only [decide_true, List.take_length]
    refine ⟨((s.drop a).drop (b - a)).reverse, ((s.drop a).take (b - a)).reverse, (s.take a).reverse, ?_,
      (fun h => by cases h), hk'.reverse⟩
    rw [← List.reverse_append, ← List.reverse_append]
    rw [List.append_assoc, List.take_append_drop, List.take_append_drop]

end ObiVerif.Apat

