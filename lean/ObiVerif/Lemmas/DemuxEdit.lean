import ObiVerif.Lemmas.Demux
/-! `editDist` is the minimal cost of an edit script; consequences: invariance under reversal,
symmetry, triangle inequality, length bounds -/
namespace ObiVerif.Demux

open ObiVerif.SeqOps (Bytes)

/-- `Align s t n`: `s` can be rewritten into `t` by an edit script (deletions, insertions,
substitutions of cost 1, matches of cost 0) of total cost `n` -/
inductive Align : Bytes → Bytes → Nat → Prop
  | nil : Align [] [] 0
  | del (a : UInt8) (s t : Bytes) (n : Nat) : Align s t n → Align (a :: s) t (n + 1)
  | ins (b : UInt8) (s t : Bytes) (n : Nat) : Align s t n → Align s (b :: t) (n + 1)
  | sub (a b : UInt8) (s t : Bytes) (n : Nat) :
      Align s t n → Align (a :: s) (b :: t) (n + (if a ≠ b then 1 else 0))

theorem Align.cast {s t : Bytes} {n m : Nat} (h : Align s t n) (e : n = m) : Align s t m :=
  e ▸ h

/-! ## unfolding and one-step bounds -/

theorem editDist_cons_cons (a b : UInt8) (s t : Bytes) :
    editDist (a :: s) (b :: t) =
      min (min (editDist s (b :: t) + 1) (editDist (a :: s) t + 1))
        (editDist s t + (if a ≠ b then 1 else 0)) := by
  rw [editDist]

theorem editDist_nil_nil : editDist [] [] = 0 := by
  rw [editDist_nil_left]; rfl

theorem editDist_cons_left_le (a : UInt8) (s t : Bytes) :
    editDist (a :: s) t ≤ editDist s t + 1 := by
  cases t with
  | nil => rw [editDist_nil_right, editDist_nil_right]; simp
  | cons b t =>
    rw [editDist_cons_cons]
    exact Nat.le_trans (Nat.min_le_left _ _) (Nat.min_le_left _ _)

theorem editDist_cons_right_le (b : UInt8) (s t : Bytes) :
    editDist s (b :: t) ≤ editDist s t + 1 := by
  cases s with
  | nil => rw [editDist_nil_left, editDist_nil_left]; simp
  | cons a s =>
    rw [editDist_cons_cons]
    exact Nat.le_trans (Nat.min_le_left _ _) (Nat.min_le_right _ _)

theorem editDist_cons_cons_le (a b : UInt8) (s t : Bytes) :
    editDist (a :: s) (b :: t) ≤ editDist s t + (if a ≠ b then 1 else 0) := by
  rw [editDist_cons_cons]
  exact Nat.min_le_right _ _

/-! ## `editDist` is the minimal script cost -/

theorem Align.nil_left (t : Bytes) : Align [] t t.length := by
  induction t with
  | nil => exact Align.nil
  | cons b t ih => exact Align.ins b [] t _ ih

theorem Align.nil_right (s : Bytes) : Align s [] s.length := by
  induction s with
  | nil => exact Align.nil
  | cons a s ih => exact Align.del a s [] _ ih

theorem min_cases (P : Nat → Prop) (x y : Nat) (hx : P x) (hy : P y) : P (min x y) := by
  rw [Nat.min_def]
  split
  · exact hx
  · exact hy

/-- the distance is achieved by a script -/
theorem editDist_align (s t : Bytes) : Align s t (editDist s t) := by
  induction s generalizing t with
  | nil => rw [editDist_nil_left]; exact Align.nil_left t
  | cons a s ih =>
    induction t with
    | nil => rw [editDist_nil_right]; exact Align.nil_right (a :: s)
    | cons b t iht =>
      rw [editDist_cons_cons]
      have h1 := Align.del a s (b :: t) _ (ih (b :: t))
      have h2 := Align.ins b (a :: s) t _ iht
      have h3 := Align.sub a b s t _ (ih t)
      exact min_cases (Align (a :: s) (b :: t)) _ _
        (min_cases (Align (a :: s) (b :: t)) _ _ h1 h2) h3

/-- no script is cheaper than the distance -/
theorem editDist_le_of_align {s t : Bytes} {n : Nat} (h : Align s t n) : editDist s t ≤ n := by
  induction h with
  | nil => rw [editDist_nil_nil]; exact Nat.le_refl 0
  | del a s t n _ ih =>
    exact Nat.le_trans (editDist_cons_left_le a s t) (Nat.add_le_add_right ih 1)
  | ins b s t n _ ih =>
    exact Nat.le_trans (editDist_cons_right_le b s t) (Nat.add_le_add_right ih 1)
  | sub a b s t n _ ih =>
    exact Nat.le_trans (editDist_cons_cons_le a b s t) (Nat.add_le_add_right ih _)

/-- `editDist s t` is the least cost of an edit script from `s` to `t` -/
theorem editDist_isLeast (s t : Bytes) :
    Align s t (editDist s t) ∧ ∀ n, Align s t n → editDist s t ≤ n :=
  ⟨editDist_align s t, fun _ h => editDist_le_of_align h⟩

/-! ## scripts can be extended at the end -/

theorem Align.del_snoc (a : UInt8) {s t : Bytes} {n : Nat} (h : Align s t n) :
    Align (s ++ [a]) t (n + 1) := by
  induction h with
  | nil => exact Align.del a [] [] 0 Align.nil
  | del a' s t n _ ih => exact Align.del a' (s ++ [a]) t _ ih
  | ins b s t n _ ih => exact Align.ins b (s ++ [a]) t _ ih
  | sub a' b s t n _ ih =>
    exact (Align.sub a' b (s ++ [a]) t _ ih).cast (by omega)

theorem Align.ins_snoc (b : UInt8) {s t : Bytes} {n : Nat} (h : Align s t n) :
    Align s (t ++ [b]) (n + 1) := by
  induction h with
  | nil => exact Align.ins b [] [] 0 Align.nil
  | del a s t n _ ih => exact Align.del a s (t ++ [b]) _ ih
  | ins b' s t n _ ih => exact Align.ins b' s (t ++ [b]) _ ih
  | sub a b' s t n _ ih =>
    exact (Align.sub a b' s (t ++ [b]) _ ih).cast (by omega)

theorem Align.sub_snoc (a b : UInt8) {s t : Bytes} {n : Nat} (h : Align s t n) :
    Align (s ++ [a]) (t ++ [b]) (n + (if a ≠ b then 1 else 0)) := by
  induction h with
  | nil => exact Align.sub a b [] [] 0 Align.nil
  | del a' s t n _ ih =>
    exact (Align.del a' (s ++ [a]) (t ++ [b]) _ ih).cast (by omega)
  | ins b' s t n _ ih =>
    exact (Align.ins b' (s ++ [a]) (t ++ [b]) _ ih).cast (by omega)
  | sub a' b' s t n _ ih =>
    exact (Align.sub a' b' (s ++ [a]) (t ++ [b]) _ ih).cast (by omega)

/-! ## reversal -/

theorem Align.reverse {s t : Bytes} {n : Nat} (h : Align s t n) :
    Align s.reverse t.reverse n := by
  induction h with
  | nil => exact Align.nil
  | del a s t n _ ih => rw [List.reverse_cons]; exact Align.del_snoc a ih
  | ins b s t n _ ih => rw [List.reverse_cons]; exact Align.ins_snoc b ih
  | sub a b s t n _ ih =>
    rw [List.reverse_cons, List.reverse_cons]; exact Align.sub_snoc a b ih

theorem editDist_reverse_le (s t : Bytes) : editDist s.reverse t.reverse ≤ editDist s t :=
  editDist_le_of_align (Align.reverse (editDist_align s t))

/-- the edit distance does not depend on the reading direction -/
theorem editDist_reverse (s t : Bytes) : editDist s.reverse t.reverse = editDist s t := by
  apply Nat.le_antisymm (editDist_reverse_le s t)
  have h := editDist_reverse_le s.reverse t.reverse
  rw [List.reverse_reverse, List.reverse_reverse] at h
  exact h

/-! ## symmetry -/

theorem subCost_comm (a b : UInt8) :
    (if a ≠ b then 1 else 0 : Nat) = (if b ≠ a then 1 else 0) := by
  by_cases h : a = b
  · subst h; rfl
  · have h' : b ≠ a := fun e => h e.symm
    simp [h, h']

theorem Align.symm {s t : Bytes} {n : Nat} (h : Align s t n) : Align t s n := by
  induction h with
  | nil => exact Align.nil
  | del a s t n _ ih => exact Align.ins a t s n ih
  | ins b s t n _ ih => exact Align.del b t s n ih
  | sub a b s t n _ ih =>
    exact (Align.sub b a t s n ih).cast (by rw [subCost_comm])

theorem editDist_comm_le (s t : Bytes) : editDist s t ≤ editDist t s :=
  editDist_le_of_align (Align.symm (editDist_align t s))

/-- the edit distance is symmetric -/
theorem editDist_comm (s t : Bytes) : editDist s t = editDist t s :=
  Nat.le_antisymm (editDist_comm_le s t) (editDist_comm_le t s)

/-! ## triangle inequality -/

theorem subCost_triangle (a b c : UInt8) :
    (if a ≠ c then 1 else 0 : Nat) ≤ (if a ≠ b then 1 else 0) + (if b ≠ c then 1 else 0) := by
  by_cases h1 : a = b
  · subst h1; simp
  · by_cases h2 : b = c
    · subst h2; simp
    · simp only [ne_eq, h1, h2, not_false_eq_true, if_true]
      split <;> omega

theorem Align.trans_ins_aux {s t : Bytes} {n : Nat} (b : UInt8)
    (ih : ∀ (u : Bytes) (m : Nat), Align t u m → ∃ k, k ≤ n + m ∧ Align s u k)
    {x u : Bytes} {m : Nat} (h2 : Align x u m) (hx : x = b :: t) :
    ∃ k, k ≤ n + 1 + m ∧ Align s u k := by
  induction h2 with
  | nil => cases hx
  | del b' t' u m' h _ =>
    injection hx with hb ht
    subst hb; subst ht
    obtain ⟨k, hk, hal⟩ := ih u m' h
    exact ⟨k, by omega, hal⟩
  | ins c x' u' m' _ ih2 =>
    obtain ⟨k, hk, hal⟩ := ih2 hx
    exact ⟨k + 1, by omega, Align.ins c s u' k hal⟩
  | sub b' c t' u' m' h _ =>
    injection hx with hb ht
    subst hb; subst ht
    obtain ⟨k, hk, hal⟩ := ih u' m' h
    exact ⟨k + 1, by omega, Align.ins c s u' k hal⟩

theorem Align.trans_sub_aux {s t : Bytes} {n : Nat} (a b : UInt8)
    (ih : ∀ (u : Bytes) (m : Nat), Align t u m → ∃ k, k ≤ n + m ∧ Align s u k)
    {x u : Bytes} {m : Nat} (h2 : Align x u m) (hx : x = b :: t) :
    ∃ k, k ≤ n + (if a ≠ b then 1 else 0) + m ∧ Align (a :: s) u k := by
  induction h2 with
  | nil => cases hx
  | del b' t' u m' h _ =>
    injection hx with hb ht
    subst hb; subst ht
    obtain ⟨k, hk, hal⟩ := ih u m' h
    exact ⟨k + 1, by omega, Align.del a s u k hal⟩
  | ins c x' u' m' _ ih2 =>
    obtain ⟨k, hk, hal⟩ := ih2 hx
    exact ⟨k + 1, by omega, Align.ins c (a :: s) u' k hal⟩
  | sub b' c t' u' m' h _ =>
    injection hx with hb ht
    subst hb; subst ht
    obtain ⟨k, hk, hal⟩ := ih u' m' h
    have htri := subCost_triangle a b' c
    exact ⟨k + (if a ≠ c then 1 else 0), by omega, Align.sub a c s u' k hal⟩

/-- scripts compose, the cost being at most the sum of the costs -/
theorem Align.trans {s t u : Bytes} {n m : Nat} (h1 : Align s t n) (h2 : Align t u m) :
    ∃ k, k ≤ n + m ∧ Align s u k := by
  induction h1 generalizing u m with
  | nil => exact ⟨m, by omega, h2⟩
  | del a s t n _ ih =>
    obtain ⟨k, hk, hal⟩ := ih h2
    exact ⟨k + 1, by omega, Align.del a s u k hal⟩
  | ins b s t n _ ih =>
    exact Align.trans_ins_aux b (fun u m h => ih h) h2 rfl
  | sub a b s t n _ ih =>
    exact Align.trans_sub_aux a b (fun u m h => ih h) h2 rfl

/-- triangle inequality -/
theorem editDist_triangle (s t u : Bytes) : editDist s u ≤ editDist s t + editDist t u := by
  obtain ⟨k, hk, hal⟩ := Align.trans (editDist_align s t) (editDist_align t u)
  exact Nat.le_trans (editDist_le_of_align hal) hk

/-! ## length bounds, identity of indiscernibles -/

theorem Align.length_le {s t : Bytes} {n : Nat} (h : Align s t n) :
    s.length ≤ t.length + n ∧ t.length ≤ s.length + n := by
  induction h with
  | nil => simp
  | del a s t n _ ih => simp only [List.length_cons]; omega
  | ins b s t n _ ih => simp only [List.length_cons]; omega
  | sub a b s t n _ ih => simp only [List.length_cons]; omega

theorem length_sub_le_editDist (s t : Bytes) : s.length - t.length ≤ editDist s t := by
  have := (Align.length_le (editDist_align s t)).1
  omega

theorem length_sub_le_editDist' (s t : Bytes) : t.length - s.length ≤ editDist s t := by
  have := (Align.length_le (editDist_align s t)).2
  omega

theorem Align.max_length (s t : Bytes) : ∃ k, k ≤ max s.length t.length ∧ Align s t k := by
  induction s generalizing t with
  | nil => exact ⟨t.length, by simp, Align.nil_left t⟩
  | cons a s ih =>
    cases t with
    | nil => exact ⟨(a :: s).length, by simp, Align.nil_right (a :: s)⟩
    | cons b t =>
      obtain ⟨k, hk, hal⟩ := ih t
      refine ⟨k + (if a ≠ b then 1 else 0), ?_, Align.sub a b s t k hal⟩
      simp only [List.length_cons]
      split <;> omega

theorem editDist_le_max_length (s t : Bytes) : editDist s t ≤ max s.length t.length := by
  obtain ⟨k, hk, hal⟩ := Align.max_length s t
  exact Nat.le_trans (editDist_le_of_align hal) hk

/-- a script of cost 0 only matches -/
theorem Align.eq_of_zero {s t : Bytes} {n : Nat} (h : Align s t n) (h0 : n = 0) : s = t := by
  induction h with
  | nil => rfl
  | del a s t n _ _ => omega
  | ins b s t n _ _ => omega
  | sub a b s t n _ ih =>
    by_cases hab : a = b
    · subst hab
      simp at h0
      rw [ih h0]
    · simp [hab] at h0

theorem Align.refl (s : Bytes) : Align s s 0 := by
  induction s with
  | nil => exact Align.nil
  | cons a s ih => exact (Align.sub a a s s 0 ih).cast (by simp)

theorem editDist_eq_zero_iff (s t : Bytes) : editDist s t = 0 ↔ s = t := by
  constructor
  · intro h
    exact Align.eq_of_zero (editDist_align s t) h
  · intro h
    subst h
    exact Nat.le_zero.1 (editDist_le_of_align (Align.refl s))

end ObiVerif.Demux
