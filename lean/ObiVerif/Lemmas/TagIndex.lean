import ObiVerif.Lemmas.Tag
/-!
# Lemmas on `IndexSequence` (C15): the running minimum along the lineage and the recorded entries
-/
namespace ObiVerif.Tag

/-- `mini` after one more candidate at distance `d` -/
def optMin : Option Nat → Nat → Option Nat
  | none, d => some d
  | some m, d => some (min m d)

theorem ixStep (c : Cand) (m : Option Nat) : ixMin (ixErrs c m) m = optMin m c.dist := by
  cases m with
  | none => rfl
  | some m =>
    unfold ixErrs
    by_cases h1 : m ≤ 1
    · simp only [h1, if_true, d1or0]
      by_cases hd : c.dist ≤ 1
      · simp only [hd, if_true, ixMin, optMin]
        by_cases h : c.dist < m
        · simp [h]; omega
        · simp [h]; omega
      · simp only [hd, if_false, ixMin, optMin]
        congr 1; omega
    · simp only [h1, if_false, boundedLCS]
      by_cases hd : c.dist ≤ m
      · rw [if_pos hd]
        show ixMin (some (c.ali - c.lcs)) (some m) = optMin (some m) c.dist
        show ixMin (some c.dist) (some m) = optMin (some m) c.dist
        simp only [ixMin, optMin]
        by_cases h : c.dist < m
        · simp [h]; omega
        · simp [h]; omega
      · rw [if_neg hd]
        simp only [Option.map, ixMin, optMin]
        congr 1; omega

theorem foldl_optMin_far (m : Nat) : ∀ (ds : List Nat), (∀ d ∈ ds, m < d) → ds.foldl optMin (some m) = some m := by
  intro ds
  induction ds with
  | nil => intro _; rfl
  | cons d ds ih =>
    intro h
    have hd := h d (List.mem_cons_self)
    have : optMin (some m) d = some m := by simp only [optMin]; congr 1; omega
    rw [List.foldl_cons, this]
    exact ih (fun x hx => h x (List.mem_cons_of_mem _ hx))

theorem foldl_optMin_some (m : Nat) : ∀ (ds : List Nat), ∃ r, ds.foldl optMin (some m) = some r := by
  intro ds
  induction ds generalizing m with
  | nil => exact ⟨m, rfl⟩
  | cons d ds ih => exact ih (min m d)

/-- the fold is the minimum of its start value and of the list -/
theorem foldl_optMin_spec : ∀ (ds : List Nat) (m0 : Option Nat),
    (ds.foldl optMin m0 = none → m0 = none ∧ ds = []) ∧
    (∀ d, ds.foldl optMin m0 = some d →
      (∀ x ∈ ds, d ≤ x) ∧ (∀ m, m0 = some m → d ≤ m) ∧ (d ∈ ds ∨ m0 = some d)) := by
  intro ds
  induction ds with
  | nil =>
    intro m0
    refine ⟨fun h => ⟨h, rfl⟩, ?_⟩
    intro d h
    simp only [List.foldl_nil] at h
    refine ⟨by simp, ?_, Or.inr h⟩
    intro m hm; rw [hm] at h; cases h; exact Nat.le_refl _
  | cons x ds ih =>
    intro m0
    obtain ⟨i1, i2⟩ := ih (optMin m0 x)
    rw [List.foldl_cons]
    refine ⟨?_, ?_⟩
    · intro h
      have := (i1 h).1
      cases m0 <;> simp [optMin] at this
    · intro d h
      obtain ⟨a1, a2, a3⟩ := i2 d h
      cases m0 with
      | none =>
        have hx := a2 x rfl
        refine ⟨?_, by simp, ?_⟩
        · intro y hy
          rcases List.mem_cons.1 hy with e | hy
          · subst e; exact hx
          · exact a1 y hy
        · rcases a3 with a3 | a3
          · exact Or.inl (List.mem_cons_of_mem _ a3)
          · simp only [optMin] at a3; cases a3; exact Or.inl (List.mem_cons_self)
      | some m =>
        have hx := a2 (min m x) rfl
        refine ⟨?_, ?_, ?_⟩
        · intro y hy
          rcases List.mem_cons.1 hy with e | hy
          · subst e; omega
          · exact a1 y hy
        · intro m' hm'; cases hm'; omega
        · rcases a3 with a3 | a3
          · exact Or.inl (List.mem_cons_of_mem _ a3)
          · simp only [optMin] at a3
            cases a3
            by_cases hmx : m ≤ x
            · right; congr 1; omega
            · left; have : min m x = x := by omega
              rw [this]; exact List.mem_cons_self

/-- the distances of the candidates of `l` whose LCA with the indexed sequence is `a` -/
def levelDists (c : Nat → Cand) (anc : Nat → Nat) (a : Nat) (l : List Nat) : List Nat :=
  (l.filter (fun j => anc j = a)).map (fun j => (c j).dist)

theorem far_of_cw_lt_int {lseq : Nat} {c : Cand} {m : Nat}
    (hq : ∀ d, c.dist ≤ d → max lseq c.len - 3 - 4 * d ≤ c.cw) (h : (c.cw : Int) < thrNew lseq c.len m) :
    m < c.dist := by
  by_cases hd : c.dist ≤ m
  · have := hq m hd
    have : lseq ≤ max lseq c.len := Nat.le_max_left _ _
    unfold thrNew at h
    omega
  · omega

/-- the inner scan, `break` included, computes the minimum over ALL the candidates of the level -/
theorem ixInner_spec (lseq : Nat) (c : Nat → Cand) (anc : Nat → Nat) (a : Nat) :
    ∀ (rest : List Nat) (st : IxState), (st.mini = none → st.wordmin ≤ 0) → SortedByCw c rest →
      QGramBound lseq c rest →
      (ixInner thrNew lseq c anc a rest st).mini = (levelDists c anc a rest).foldl optMin st.mini ∧
      ((ixInner thrNew lseq c anc a rest st).mini = none → (ixInner thrNew lseq c anc a rest st).wordmin ≤ 0) := by
  intro rest
  induction rest with
  | nil => intro st h _ _; exact ⟨rfl, h⟩
  | cons j rest ih =>
    intro st hw hs hq
    have hs' : SortedByCw c rest := (List.pairwise_cons.1 hs).2
    have hle : ∀ k ∈ rest, (c k).cw ≤ (c j).cw := (List.pairwise_cons.1 hs).1
    have hq' : QGramBound lseq c rest := fun k hk => hq k (List.mem_cons_of_mem _ hk)
    unfold ixInner
    by_cases ha : anc j = a
    · simp only [ha, if_true]
      have hfil : levelDists c anc a (j :: rest) = (c j).dist :: levelDists c anc a rest := by
        simp [levelDists, ha]
      cases hm : st.mini with
      | none =>
        have hw0 := hw hm
        have hnb : ¬ (((c j).cw : Int) < st.wordmin) := by omega
        simp only [hnb, if_false]
        rw [hfil, List.foldl_cons]
        rw [ixStep]
        exact ih { mini := optMin none (c j).dist, wordmin := st.wordmin } (by simp [optMin]) hs' hq'
      | some m =>
        simp only
        by_cases hbrk : ((c j).cw : Int) < thrNew lseq (c j).len m
        · simp only [hbrk, if_true]
          refine ⟨?_, by simp⟩
          symm
          apply foldl_optMin_far
          intro d hd
          simp only [levelDists, List.mem_map, List.mem_filter] at hd
          obtain ⟨k, ⟨hk, _⟩, e⟩ := hd
          subst e
          apply far_of_cw_lt_int (hq k hk)
          rcases List.mem_cons.1 hk with e | hk'
          · subst e; exact hbrk
          · have := hle k hk'
            unfold thrNew at hbrk ⊢
            omega
        · simp only [hbrk, if_false]
          rw [hfil, List.foldl_cons]
          rw [ixStep]
          exact ih { mini := optMin (some m) (c j).dist, wordmin := thrNew lseq (c j).len m }
            (by simp [optMin]) hs' hq'
    · simp only [ha, if_false]
      have hfil : levelDists c anc a (j :: rest) = levelDists c anc a rest := by
        simp [levelDists, ha]
      rw [hfil]
      exact ih st hw hs' hq'

/-- `m` is the least distance among the candidates of `ow` whose LCA with the indexed sequence is in `seen`
(`none`: there is no such candidate) -/
def IsMin (c : Nat → Cand) (anc : Nat → Nat) (ow : List Nat) (seen : List Nat) : Option Nat → Prop
  | none => ∀ j ∈ ow, anc j ∉ seen
  | some d => (∀ j ∈ ow, anc j ∈ seen → d ≤ (c j).dist) ∧ ∃ j ∈ ow, anc j ∈ seen ∧ (c j).dist = d

theorem isMin_step (c : Nat → Cand) (anc : Nat → Nat) (ow seen : List Nat) (a : Nat) (m0 : Option Nat)
    (h : IsMin c anc ow seen m0) :
    IsMin c anc ow (seen ++ [a]) ((levelDists c anc a ow).foldl optMin m0) := by
  obtain ⟨s1, s2⟩ := foldl_optMin_spec (levelDists c anc a ow) m0
  have hmem : ∀ x, x ∈ levelDists c anc a ow ↔ ∃ j ∈ ow, anc j = a ∧ (c j).dist = x := by
    intro x
    simp only [levelDists, List.mem_map, List.mem_filter, decide_eq_true_eq]
    constructor
    · rintro ⟨j, ⟨hj, ha⟩, e⟩; exact ⟨j, hj, ha, e⟩
    · rintro ⟨j, hj, ha, e⟩; exact ⟨j, ⟨hj, ha⟩, e⟩
  cases hr : (levelDists c anc a ow).foldl optMin m0 with
  | none =>
    obtain ⟨h0, hnil⟩ := s1 hr
    subst h0
    intro j hj hin
    rcases List.mem_append.1 hin with hin | hin
    · exact h j hj hin
    · simp at hin
      have : (c j).dist ∈ levelDists c anc a ow := (hmem _).2 ⟨j, hj, hin, rfl⟩
      rw [hnil] at this; simp at this
  | some d =>
    obtain ⟨a1, a2, a3⟩ := s2 d hr
    refine ⟨?_, ?_⟩
    · intro j hj hin
      rcases List.mem_append.1 hin with hin | hin
      · cases m0 with
        | none => exact absurd hin (h j hj)
        | some m => exact Nat.le_trans (a2 m rfl) (h.1 j hj hin)
      · simp at hin
        exact a1 _ ((hmem _).2 ⟨j, hj, hin, rfl⟩)
    · rcases a3 with a3 | a3
      · obtain ⟨j, hj, ha, e⟩ := (hmem _).1 a3
        exact ⟨j, hj, by simp [ha], e⟩
      · subst a3
        obtain ⟨j, hj, hin, e⟩ := h.2
        exact ⟨j, hj, List.mem_append_left _ hin, e⟩

/-- what an entry `(d, a)` of the index says, in terms of the lineage `pseq` (root first): `a` is on the lineage,
a reference whose LCA with the indexed sequence is `a` is at distance `d`, and every reference whose LCA is
strictly above `a` is farther than `d` -/
def EntryOK (lseq : Nat) (c : Nat → Cand) (anc : Nat → Nat) (ow pseq : List Nat) (d a : Nat) : Prop :=
  ∃ pre post, pseq = pre ++ a :: post ∧ (∃ j ∈ ow, anc j = a ∧ (c j).dist = d) ∧
    (∀ j ∈ ow, anc j ∈ pre → d < (c j).dist) ∧ d < lseq

theorem ixRecord_spec (lseq : Nat) (c : Nat → Cand) (anc : Nat → Nat) (ow : List Nat)
    (hs : SortedByCw c ow) (hq : QGramBound lseq c ow) :
    ∀ (as pre : List Nat) (st : IxState) (old : Nat),
      IsMin c anc ow pre st.mini → (st.mini = none → st.wordmin ≤ 0) → old ≤ lseq →
      (∀ m, st.mini = some m → old ≤ m) →
      ∀ e ∈ ixRecord as (ixOuter thrNew lseq c anc ow as st) old, EntryOK lseq c anc ow (pre ++ as) e.1 e.2 := by
  intro as
  induction as with
  | nil => intro pre st old _ _ _ _ e he; simp [ixRecord] at he
  | cons a as ih =>
    intro pre st old hmin hw hold hm e he
    obtain ⟨r1, r2⟩ := ixInner_spec lseq c anc a ow st hw hs hq
    have hmin' := isMin_step c anc ow pre a st.mini hmin
    rw [← r1] at hmin'
    have happ : pre ++ a :: as = (pre ++ [a]) ++ as := by simp
    unfold ixOuter at he
    simp only at he
    cases hmi : (ixInner thrNew lseq c anc a ow st).mini with
    | none =>
      rw [hmi] at he
      simp only [ixRecord] at he
      rw [happ]
      exact ih (pre ++ [a]) _ old hmin' r2 hold (by intro m h; rw [hmi] at h; cases h) e he
    | some d =>
      rw [hmi] at he hmin'
      simp only [ixRecord] at he
      by_cases hlt : d < old
      · simp only [hlt, if_true] at he
        rcases List.mem_cons.1 he with he | he
        · subst he
          refine ⟨pre, as, rfl, ?_, ?_, by omega⟩
          · obtain ⟨j, hj, hin, e⟩ := hmin'.2
            rcases List.mem_append.1 hin with hin | hin
            · exfalso
              cases hst : st.mini with
              | none => rw [hst] at hmin; exact hmin j hj hin
              | some m =>
                rw [hst] at hmin
                have := hmin.1 j hj hin
                have := hm m hst
                omega
            · simp at hin; exact ⟨j, hj, hin, e⟩
          · intro j hj hin
            cases hst : st.mini with
            | none => rw [hst] at hmin; exact absurd hin (hmin j hj)
            | some m =>
              rw [hst] at hmin
              have := hmin.1 j hj hin
              have := hm m hst
              show d < (c j).dist
              omega
        · rw [happ]
          exact ih (pre ++ [a]) _ d (by rw [hmi]; exact hmin') r2 (by omega)
            (by intro m h; rw [hmi] at h; cases h; exact Nat.le_refl _) e he
      · simp only [hlt, if_false] at he
        rw [happ]
        exact ih (pre ++ [a]) _ old (by rw [hmi]; exact hmin') r2 hold
          (by intro m h; rw [hmi] at h; cases h; omega) e he

/-- every entry of the index is on the lineage -/
theorem ixRecord_mem : ∀ (as : List Nat) (ds : List (Option Nat)) (old : Nat),
    ∀ e ∈ ixRecord as ds old, e.2 ∈ as := by
  intro as
  induction as with
  | nil => intro ds old e he; simp [ixRecord] at he
  | cons a as ih =>
    intro ds old e he
    cases ds with
    | nil => simp [ixRecord] at he
    | cons d ds =>
      cases d with
      | none =>
        simp only [ixRecord] at he
        exact List.mem_cons_of_mem _ (ih ds old e he)
      | some d =>
        simp only [ixRecord] at he
        by_cases hlt : d < old
        · simp only [hlt, if_true] at he
          rcases List.mem_cons.1 he with he | he
          · subst he; exact List.mem_cons_self
          · exact List.mem_cons_of_mem _ (ih ds d e he)
        · simp only [hlt, if_false] at he
          exact List.mem_cons_of_mem _ (ih ds old e he)

theorem indexCore_entry (lseq : Nat) (c : Nat → Cand) (anc : Nat → Nat) (ow pseq : List Nat)
    (hs : SortedByCw c ow) (hq : QGramBound lseq c ow) :
    ∀ e ∈ indexCore lseq c anc ow pseq, EntryOK lseq c anc ow pseq e.1 e.2 := by
  intro e he
  have := ixRecord_spec lseq c anc ow hs hq pseq [] { mini := none, wordmin := 0 } lseq
    (by intro j _; simp) (by intro _; exact Int.le_refl 0) (Nat.le_refl _) (by intro m h; cases h) e he
  simpa using this

theorem indexCore_mem (lseq : Nat) (c : Nat → Cand) (anc : Nat → Nat) (ow pseq : List Nat) :
    ∀ e ∈ indexCore lseq c anc ow pseq, e.2 ∈ pseq :=
  fun e he => ixRecord_mem pseq _ lseq e he

end ObiVerif.Tag
