import ObiVerif.Lemmas.KmerCanon
/-!
# Lemmas on the canonical k-mer index (C19), continued: the sliding window against the list of all windows
(`specLoop_nil`), strand symmetry of the specification (`canonSpec_rc`), the byte-level bridge
-/
namespace ObiVerif.Kmer

/-- all the windows of `k` consecutive elements, in order -/
def windowsAll {α : Type} (k : Nat) : List α → List (List α)
  | [] => []
  | a :: t => if k ≤ (a :: t).length then (a :: t).take k :: windowsAll k t else []

theorem windowsAll_short {α : Type} (k : Nat) (l : List α) (h : l.length < k) : windowsAll k l = [] := by
  cases l with
  | nil => rfl
  | cons a t => simp only [windowsAll]; rw [if_neg (by omega)]

/-- the digits of a window, if all its bases are plain -/
def allSome : List (Option Nat) → Option (List Nat)
  | [] => some []
  | none :: _ => none
  | some c :: t => (allSome t).map (c :: ·)

theorem allSome_map_some (l : List Nat) : allSome (l.map some) = some l := by
  induction l with
  | nil => rfl
  | cons a t ih => simp [allSome, ih]

theorem allSome_append_some (l : List Nat) (r : List (Option Nat)) :
    allSome (l.map some ++ r) = (allSome r).map (l ++ ·) := by
  induction l with
  | nil => simp
  | cons a t ih => simp [allSome, ih, Option.map_map, Function.comp_def]

/-- specification: the canonical value of every window of `k` plain bases, in order -/
def canonSpec (k : Nat) (sparse : Bool) (ds : List (Option Nat)) : List Nat :=
  (windowsAll k ds).filterMap fun w => (allSome w).map (canon sparse)

theorem allSome_take_none (k : Nat) (R : List Nat) (r : List (Option Nat)) (h : R.length < k) :
    allSome ((R.map some ++ none :: r).take k) = none := by
  induction R generalizing k with
  | nil =>
    obtain ⟨k', rfl⟩ : ∃ k', k = k' + 1 := ⟨k - 1, by simp at h; omega⟩
    simp [allSome]
  | cons a R ih =>
    obtain ⟨k', rfl⟩ : ∃ k', k = k' + 1 := ⟨k - 1, by simp at h; omega⟩
    simp only [List.map_cons, List.cons_append, List.take_succ_cons, allSome]
    rw [ih k' (by simpa using h)]; rfl

theorem canonSpec_none (k : Nat) (sparse : Bool) (R : List Nat) (r : List (Option Nat)) (h : R.length < k) :
    canonSpec k sparse (R.map some ++ none :: r) = canonSpec k sparse r := by
  induction R with
  | nil =>
    simp only [List.map_nil, List.nil_append, canonSpec, windowsAll]
    split
    · have := allSome_take_none k [] r h
      simp only [List.map_nil, List.nil_append] at this
      simp [this]
    · rw [windowsAll_short k r (by simp at *; omega)]
  | cons a R ih =>
    have hR : R.length < k := by simp at h; omega
    simp only [List.map_cons, List.cons_append, canonSpec, windowsAll]
    split
    · have := allSome_take_none k (a :: R) r h
      simp only [List.map_cons, List.cons_append] at this
      rw [List.filterMap_cons, this]
      exact ih hR
    · rename_i hk
      have h1 : (List.map some R ++ none :: r).length < k := by simp at hk ⊢; omega
      have h2 := ih hR
      simp only [canonSpec] at h2
      rw [← h2, windowsAll_short k _ h1]

theorem canonSpec_full (k : Nat) (sparse : Bool) (t' : List Nat) (ht : t'.length = k) (hk : 1 ≤ k)
    (r : List (Option Nat)) :
    canonSpec k sparse (t'.map some ++ r) = canon sparse t' :: canonSpec k sparse (t'.tail.map some ++ r) := by
  cases t' with
  | nil => simp at ht; omega
  | cons x X =>
    have hlen : k ≤ (some x :: (X.map some ++ r)).length := by simp at ht ⊢; omega
    have htake : (some x :: (X.map some ++ r)).take k = (x :: X).map some := by
      have : (some x :: (X.map some ++ r)) = (x :: X).map some ++ r := by simp
      rw [this, List.take_left' (by simpa using ht)]
    simp only [List.map_cons, List.cons_append, canonSpec, windowsAll, List.tail_cons]
    rw [if_pos hlen, List.filterMap_cons, htake, allSome_map_some]
    rfl

theorem specLoop_eq (k : Nat) (sparse : Bool) (hk : 1 ≤ k) (r : List (Option Nat)) :
    ∀ t : List Nat, t.length ≤ k →
      specLoop k sparse t r = canonSpec k sparse ((t.drop (t.length - (k - 1))).map some ++ r) := by
  induction r with
  | nil =>
    intro t _
    simp only [specLoop, List.append_nil, canonSpec]
    rw [windowsAll_short]; · rfl
    simp; omega
  | cons o r ih =>
    intro t ht
    cases o with
    | none =>
      simp only [specLoop]
      rw [canonSpec_none k sparse _ r (by simp; omega), ih [] (by simp)]
      simp
    | some c =>
      simp only [specLoop]
      by_cases hA : k - 1 ≤ t.length
      · -- the window is full after this digit
        have ht' : slide k t c = t.drop (t.length - (k - 1)) ++ [c] := by
          by_cases he : t.length = k
          · rw [slide_length_eq c he, he]
            have : k - (k - 1) = 1 := by omega
            rw [this, List.drop_one]
          · rw [slide_length_lt c (by omega)]
            have : t.length - (k - 1) = 0 := by omega
            rw [this, List.drop_zero]
        have hl' : (slide k t c).length = k := by rw [slide_length k t c hk ht]; omega
        rw [if_pos hl', ih _ (by omega), hl']
        have e1 : (t.drop (t.length - (k - 1))).map some ++ some c :: r = (slide k t c).map some ++ r := by
          rw [ht']; simp
        rw [e1, canonSpec_full k sparse _ hl' hk]
        have : k - (k - 1) = 1 := by omega
        rw [this, List.drop_one]
      · have ht' : slide k t c = t ++ [c] := slide_length_lt c (by omega)
        have hl' : ¬ (slide k t c).length = k := by rw [ht']; simp; omega
        rw [if_neg hl', ih _ (by rw [ht']; simp; omega), ht']
        have h1 : t.length - (k - 1) = 0 := by omega
        have h2 : (t ++ [c]).length - (k - 1) = 0 := by simp; omega
        rw [h1, h2]; simp

/-- the rolling loop computes the canonical value of every window of `k` plain bases -/
theorem specLoop_nil (k : Nat) (sparse : Bool) (hk : 1 ≤ k) (r : List (Option Nat)) :
    specLoop k sparse [] r = canonSpec k sparse r := by
  rw [specLoop_eq k sparse hk r [] (by simp)]; simp

theorem windowsAll_snoc {α : Type} (k : Nat) (hk : 1 ≤ k) (l : List α) (a : α) :
    windowsAll k (l ++ [a]) =
      windowsAll k l ++ (if k ≤ l.length + 1 then [(l ++ [a]).drop (l.length + 1 - k)] else []) := by
  induction l with
  | nil =>
    simp only [List.nil_append, windowsAll, List.length_cons, List.length_nil]
    by_cases h : k ≤ 1
    · have : k = 1 := by omega
      subst this; simp
    · simp [h]
  | cons b l ih =>
    simp only [List.cons_append, windowsAll, List.length_cons, List.length_append, List.length_nil]
    by_cases h1 : k ≤ l.length + 1
    · have h2 : k ≤ l.length + 0 + 1 + 1 := by omega
      rw [if_pos h2, if_pos h1, if_pos (by omega), ih, if_pos h1]
      have e1 : List.take k (b :: (l ++ [a])) = List.take k (b :: l) := by
        have : b :: (l ++ [a]) = (b :: l) ++ [a] := rfl
        rw [this, List.take_append_of_le_length (by simpa using h1)]
      have e2 : (b :: (l ++ [a])).drop (l.length + 1 + 1 - k) = (l ++ [a]).drop (l.length + 1 - k) := by
        have : l.length + 1 + 1 - k = (l.length + 1 - k) + 1 := by omega
        rw [this, List.drop_succ_cons]
      rw [e1, e2]; simp
    · by_cases h2 : k = l.length + 2
      · rw [if_pos (by omega), if_neg h1, if_pos (by omega)]
        rw [windowsAll_short k (l ++ [a]) (by simp; omega)]
        have : l.length + 1 + 1 - k = 0 := by omega
        rw [this, List.drop_zero, List.take_of_length_le (by simp; omega)]
        simp
      · rw [if_neg (by omega), if_neg h1, if_neg (by omega)]; simp

theorem windowsAll_reverse {α : Type} (k : Nat) (hk : 1 ≤ k) (l : List α) :
    windowsAll k l.reverse = ((windowsAll k l).map List.reverse).reverse := by
  induction l with
  | nil => rfl
  | cons a l ih =>
    rw [List.reverse_cons, windowsAll_snoc k hk, ih, List.length_reverse]
    simp only [windowsAll, List.length_cons]
    by_cases h : k ≤ l.length + 1
    · rw [if_pos h, if_pos h, List.map_cons, List.reverse_cons]
      congr 2
      rw [List.reverse_take, List.reverse_cons, List.length_cons]
    · rw [if_neg h, if_neg h, windowsAll_short k l (by omega)]; simp

theorem windowsAll_map {α β : Type} (f : α → β) (k : Nat) (l : List α) :
    windowsAll k (l.map f) = (windowsAll k l).map (List.map f) := by
  induction l with
  | nil => rfl
  | cons a l ih =>
    simp only [List.map_cons, windowsAll, List.length_cons, List.length_map]
    split
    · rw [ih]; simp [List.map_take]
    · rfl

theorem mem_windowsAll {α : Type} (k : Nat) (l : List α) : ∀ w ∈ windowsAll k l, ∀ x ∈ w, x ∈ l := by
  induction l with
  | nil => intro w hw; simp [windowsAll] at hw
  | cons a l ih =>
    intro w hw x hx
    simp only [windowsAll] at hw
    split at hw
    · rcases List.mem_cons.mp hw with rfl | hw
      · exact List.mem_of_mem_take hx
      · exact List.mem_cons_of_mem _ (ih w hw x hx)
    · simp at hw

theorem allSome_mem : ∀ (w : List (Option Nat)) (d : List Nat), allSome w = some d → ∀ c ∈ d, some c ∈ w := by
  intro w
  induction w with
  | nil => intro d h c hc; simp [allSome] at h; subst h; simp at hc
  | cons o w ih =>
    intro d h c hc
    cases o with
    | none => simp [allSome] at h
    | some a =>
      simp only [allSome, Option.map_eq_some_iff] at h
      obtain ⟨d', hd', rfl⟩ := h
      rcases List.mem_cons.mp hc with rfl | hc
      · simp
      · exact List.mem_cons_of_mem _ (ih d' hd' c hc)

theorem allSome_snoc (l : List (Option Nat)) (o : Option Nat) :
    allSome (l ++ [o]) = (allSome l).bind fun d => o.map fun c => d ++ [c] := by
  induction l with
  | nil => cases o <;> simp [allSome]
  | cons a l ih =>
    cases a with
    | none => simp [allSome]
    | some a =>
      simp only [List.cons_append, allSome, ih]
      cases allSome l <;> cases o <;> simp

/-- complement of a digit -/
def compD (o : Option Nat) : Option Nat := o.map (3 - ·)

theorem allSome_rc (w : List (Option Nat)) : allSome ((w.map compD).reverse) = (allSome w).map rcDigits := by
  induction w with
  | nil => rfl
  | cons o w ih =>
    rw [List.map_cons, List.reverse_cons, allSome_snoc, ih]
    cases o with
    | none => cases allSome w <;> simp [compD, allSome]
    | some a =>
      cases h : allSome w with
      | none => simp [compD, allSome, h]
      | some d => simp [compD, allSome, h, rcDigits_cons]

theorem canon_rc (sparse : Bool) (d : List Nat) (h : Dig d) : canon sparse (rcDigits d) = canon sparse d := by
  rw [canon_eq_min, canon_eq_min, rcDigits_rcDigits d h, Nat.min_comm]

theorem filterMap_congr' {α β : Type} (f g : α → Option β) (l : List α) (h : ∀ x ∈ l, f x = g x) :
    l.filterMap f = l.filterMap g := by
  induction l with
  | nil => rfl
  | cons a l ih =>
    rw [List.filterMap_cons, List.filterMap_cons, h a (by simp), ih (fun x hx => h x (by simp [hx]))]

/-- strand symmetry of the specification: reversing and complementing the sequence of digits reverses the
list of canonical values -/
theorem canonSpec_rc (k : Nat) (sparse : Bool) (hk : 1 ≤ k) (ds : List (Option Nat))
    (hd : ∀ c, some c ∈ ds → c < 4) :
    canonSpec k sparse ((ds.map compD).reverse) = (canonSpec k sparse ds).reverse := by
  unfold canonSpec
  rw [windowsAll_reverse k hk, windowsAll_map, List.filterMap_reverse, List.map_map, List.filterMap_map]
  congr 1
  apply filterMap_congr'
  intro w hw
  simp only [Function.comp]
  rw [allSome_rc]
  cases h : allSome w with
  | none => rfl
  | some d =>
    simp only [Option.map_some]
    rw [canon_rc]
    intro c hc
    exact hd c (mem_windowsAll k ds w hw _ (allSome_mem w d h c hc))

/-! ## bytes -/

/-- complement of a stored base by the table `revcompnuc` -/
def compByte (b : UInt8) : UInt8 := UInt8.ofNat (revcompnuc b.toNat)

/-- reverse complement of a stored sequence -/
def rcSeq (s : Bytes) : Bytes := (s.map compByte).reverse

def plainN (n : Nat) : Option Nat := if (iupac n).length = 1 then some ((iupac n).headD 0) else none

set_option maxRecDepth 100000 in
/-- table fact (decided over the 256 byte values): complementing a base complements its code; a byte that is
not a plain base is not one after complementation either -/
theorem plainN_comp : ∀ n, n < 256 → plainN (revcompnuc n % 256) = compD (plainN n) := by decide

theorem plain_compByte (b : UInt8) : plain (compByte b) = compD (plain b) := by
  have := plainN_comp b.toNat b.toNat_lt
  simpa [plain, plainN, compByte] using this

theorem plain_lt (b : UInt8) (c : Nat) (h : plain b = some c) : c < 4 := by
  by_cases hl : (iupac b.toNat).length = 1
  · have := (plain_table b.toNat b.toNat_lt hl).1
    simp only [plain, hl, if_true, Option.some.injEq] at h; omega
  · simp [plain, hl] at h

theorem map_plain_rcSeq (s : Bytes) : (rcSeq s).map plain = ((s.map plain).map compD).reverse := by
  simp only [rcSeq, List.map_reverse, List.map_map]
  congr 1
  apply List.map_congr_left
  intro b _
  exact plain_compByte b

theorem normalizedKmerSlice_eq (m : KmerMap) (sparse : Bool) (hv : Valid m sparse) (s : Bytes) :
    normalizedKmerSlice m s = canonSpec m.kmersize sparse (s.map plain) := by
  unfold normalizedKmerSlice
  split
  · rename_i h
    unfold canonSpec
    rw [windowsAll_short _ _ (by simpa using h)]; rfl
  · rw [rollLoop_eq m sparse hv s _ _ (inv_zero m), specLoop_nil _ _ hv.kpos]
end ObiVerif.Kmer
