import ObiVerif.Model.Reseq
/-! # Lemmas on the re-sequencing buffer: every arrival order of 0..n-1 releases 0,1,…,n-1 -/
namespace ObiVerif.Reseq

variable {σ α : Type}

theorem lookupK_some {k : Nat} {l : List (Nat × α)} {x : α} (h : lookupK k l = some x) : (k, x) ∈ l := by
  induction l with
  | nil => simp [lookupK] at h
  | cons p t ih =>
    obtain ⟨j, y⟩ := p
    simp only [lookupK] at h
    split at h
    · rename_i hj; simp at h; subst hj; subst h; simp
    · exact List.mem_cons_of_mem _ (ih h)

theorem lookupK_none {k : Nat} {l : List (Nat × α)} (h : lookupK k l = none) : ∀ x, (k, x) ∉ l := by
  induction l with
  | nil => simp
  | cons p t ih =>
    obtain ⟨j, y⟩ := p
    simp only [lookupK] at h
    split at h
    · simp at h
    · rename_i hj
      intro x hx
      simp at hx
      rcases hx with ⟨h1, _⟩ | hx
      · exact hj h1.symm
      · exact ih h x hx

theorem mem_eraseK {k : Nat} {l : List (Nat × α)} (hnd : (l.map Prod.fst).Nodup) (j : Nat) (y : α) :
    (j, y) ∈ eraseK k l ↔ ((j, y) ∈ l ∧ j ≠ k) := by
  induction l with
  | nil => simp [eraseK]
  | cons p t ih =>
    obtain ⟨i, z⟩ := p
    simp only [List.map_cons, List.nodup_cons] at hnd
    simp only [eraseK]
    split
    · rename_i hik
      subst hik
      constructor
      · intro h
        refine ⟨List.mem_cons_of_mem _ h, ?_⟩
        intro hji; subst hji
        exact hnd.1 (List.mem_map.mpr ⟨(j, y), h, rfl⟩)
      · rintro ⟨h, hne⟩
        simp at h
        rcases h with ⟨h1, _⟩ | h
        · exact absurd h1 hne
        · exact h
    · rename_i hik
      simp only [List.mem_cons, Prod.mk.injEq, ih hnd.2]
      constructor
      · rintro (⟨h1, h2⟩ | ⟨h, hne⟩)
        · subst h1; subst h2; exact ⟨Or.inl ⟨rfl, rfl⟩, hik⟩
        · exact ⟨Or.inr h, hne⟩
      · rintro ⟨(⟨h1, h2⟩ | h), hne⟩
        · exact Or.inl ⟨h1, h2⟩
        · exact Or.inr ⟨h, hne⟩

theorem nodup_eraseK {k : Nat} {l : List (Nat × α)} (hnd : (l.map Prod.fst).Nodup) :
    ((eraseK k l).map Prod.fst).Nodup := by
  induction l with
  | nil => simp [eraseK]
  | cons p t ih =>
    obtain ⟨i, z⟩ := p
    simp only [List.map_cons, List.nodup_cons] at hnd
    simp only [eraseK]
    split
    · exact hnd.2
    · simp only [List.map_cons, List.nodup_cons]
      refine ⟨?_, ih hnd.2⟩
      intro hmem
      obtain ⟨⟨j, y⟩, hjy, hj⟩ := List.mem_map.mp hmem
      simp at hj; subst hj
      have := (mem_eraseK hnd.2 j y).mp hjy
      exact hnd.1 (List.mem_map.mpr ⟨(j, y), this.1, rfl⟩)

/-- state before draining: everything below `next` has been emitted, `pending` is exactly what arrived and is ≥ next -/
structure PreInv (f : σ → α → σ) (init : σ) (v : Nat → α) (K : List Nat) (s : WS σ α) : Prop where
  below : ∀ k, k < s.next → k ∈ K
  pend  : ∀ k x, (k, x) ∈ s.pending ↔ (k ∈ K ∧ s.next ≤ k ∧ x = v k)
  nd    : (s.pending.map Prod.fst).Nodup
  out   : s.acc = ((List.range s.next).map v).foldl f init

structure SInv (f : σ → α → σ) (init : σ) (v : Nat → α) (K : List Nat) (s : WS σ α) : Prop extends PreInv f init v K s where
  notin : s.next ∉ K

theorem drain_inv (f : σ → α → σ) (init : σ) (v : Nat → α) (K : List Nat) (s : WS σ α) (h : PreInv f init v K s) : SInv f init v K (drain f s) := by
  induction s using drain.induct (fD := f) with
  | case1 s hnone =>
    rw [drain, ]
    split
    · rename_i heq
      refine { h with notin := ?_ }
      intro hin
      exact lookupK_none heq (v s.next) ((h.pend _ _).mpr ⟨hin, Nat.le_refl _, rfl⟩)
    · rename_i x heq; rw [hnone] at heq; cases heq
  | case2 s x hsome ih =>
    rw [drain]
    split
    · rename_i heq; rw [hsome] at heq; cases heq
    · rename_i y heq
      rw [hsome] at heq; cases heq
      apply ih
      have hx := (h.pend _ _).mp (lookupK_some hsome)
      constructor
      · intro k hk
        simp at hk
        rcases Nat.lt_succ_iff_lt_or_eq.mp hk with hk | hk
        · exact h.below k hk
        · subst hk; exact hx.1
      · intro k z
        simp only
        rw [mem_eraseK h.nd, h.pend]
        constructor
        · rintro ⟨⟨a, b, c⟩, hne⟩; exact ⟨a, by omega, c⟩
        · rintro ⟨a, b, c⟩; exact ⟨⟨a, by omega, c⟩, by omega⟩
      · exact nodup_eraseK h.nd
      · simp only
        rw [h.out, List.range_succ, List.map_append, hx.2.2]
        simp

theorem step_inv (f : σ → α → σ) (init : σ) (v : Nat → α) (K : List Nat) (s : WS σ α) (h : SInv f init v K s) (k : Nat) (hk : k ∉ K) :
    SInv f init v (k :: K) (step f f s (k, v k)) := by
  unfold step
  simp only
  split
  · rename_i hkn
    subst hkn
    apply drain_inv
    constructor
    · intro j hj
      simp at hj
      rcases Nat.lt_succ_iff_lt_or_eq.mp hj with hj | hj
      · exact List.mem_cons_of_mem _ (h.below j hj)
      · subst hj; simp
    · intro j z
      simp only
      rw [h.pend]
      constructor
      · rintro ⟨a, b, c⟩
        refine ⟨List.mem_cons_of_mem _ a, ?_, c⟩
        rcases Nat.lt_or_ge s.next j with hlt | hge
        · omega
        · have : j = s.next := by omega
          subst this; exact absurd a hk
      · rintro ⟨a, b, c⟩
        simp at a
        rcases a with a | a
        · omega
        · exact ⟨a, by omega, c⟩
    · exact h.nd
    · simp only
      rw [h.out, List.range_succ, List.map_append]; simp
  · rename_i hkn
    have hgt : s.next < k := by
      rcases Nat.lt_or_ge k s.next with hlt | hge
      · exact absurd (h.below k hlt) hk
      · omega
    constructor
    · constructor
      · intro j hj; exact List.mem_cons_of_mem _ (h.below j hj)
      · intro j z
        simp only [List.mem_cons, Prod.mk.injEq]
        rw [h.pend]
        constructor
        · rintro (⟨a, b⟩ | ⟨a, b, c⟩)
          · subst a; subst b; exact ⟨Or.inl rfl, by omega, rfl⟩
          · exact ⟨Or.inr a, b, c⟩
        · rintro ⟨(a | a), b, c⟩
          · subst a; exact Or.inl ⟨rfl, c⟩
          · exact Or.inr ⟨a, b, c⟩
      · simp only [List.map_cons, List.nodup_cons]
        refine ⟨?_, h.nd⟩
        intro hmem
        obtain ⟨⟨j, y⟩, hjy, hj⟩ := List.mem_map.mp hmem
        simp at hj; subst hj
        exact hk ((h.pend _ _).mp hjy).1
      · exact h.out
    · simp only [List.mem_cons, not_or]
      exact ⟨by omega, h.notin⟩

theorem fold_inv (f : σ → α → σ) (init : σ) (v : Nat → α) (ks : List Nat) (K : List Nat) (s : WS σ α) (h : SInv f init v K s)
    (hnd : ks.Nodup) (hdisj : ∀ k ∈ ks, k ∉ K) :
    SInv f init v (ks.reverse ++ K) ((ks.map fun k => (k, v k)).foldl (step f f) s) := by
  induction ks generalizing K s with
  | nil => simpa using h
  | cons k t ih =>
    simp only [List.map_cons, List.foldl_cons, List.reverse_cons, List.append_assoc, List.singleton_append]
    simp only [List.nodup_cons] at hnd
    have hk : k ∉ K := hdisj k (by simp)
    apply ih
    · exact step_inv f init v K s h k hk
    · exact hnd.2
    · intro j hj
      simp only [List.mem_cons, not_or]
      refine ⟨?_, hdisj j (List.mem_cons_of_mem _ hj)⟩
      intro hjk; subst hjk; exact hnd.1 hj

theorem init_inv (f : σ → α → σ) (init : σ) (v : Nat → α) : SInv f init v [] (⟨0, [], init⟩ : WS σ α) := by
  constructor
  · constructor <;> simp
  · simp


/-- For EVERY arrival order of the items numbered 0..n-1 the machine ends with `next = n`, an empty
buffer, and has folded the items in increasing order. -/
theorem run_perm (f : σ → α → σ) (init : σ) (v : Nat → α) (n : Nat) (ks : List Nat)
    (hp : ks.Perm (List.range n)) :
    let s := run f f init (ks.map fun k => (k, v k))
    s.acc = ((List.range n).map v).foldl f init ∧ s.next = n ∧ s.pending = [] := by
  have hnd : ks.Nodup := (List.Perm.nodup_iff hp).mpr List.nodup_range
  have h := fold_inv f init v ks [] ⟨0, [], init⟩ (init_inv f init v) hnd (by simp)
  simp only [List.append_nil] at h
  unfold run
  generalize (List.foldl (step f f) ⟨0, [], init⟩ (ks.map fun k => (k, v k))) = s at h ⊢
  have hnext : s.next = n := by
    have h1 : ∀ k, k < s.next → k < n := by
      intro k hk
      have := h.below k hk
      simp only [List.mem_reverse] at this
      exact List.mem_range.mp (hp.mem_iff.mp this)
    have h2 : ¬ s.next < n := by
      intro hlt
      apply h.notin
      simp only [List.mem_reverse]
      exact hp.mem_iff.mpr (List.mem_range.mpr hlt)
    rcases Nat.lt_or_ge n s.next with hlt | hge
    · exact absurd (h1 n hlt) (Nat.lt_irrefl n)
    · omega
  refine ⟨by rw [h.out, hnext], hnext, ?_⟩
  cases hpd : s.pending with
  | nil => rfl
  | cons p t =>
    exfalso
    obtain ⟨k, x⟩ := p
    have := (h.pend k x).mp (by rw [hpd]; simp)
    have hk : k < n := by
      have := this.1; simp only [List.mem_reverse] at this
      exact List.mem_range.mp (hp.mem_iff.mp this)
    omega

theorem foldl_snoc (l : List α) (acc : List α) : l.foldl (fun l x => l ++ [x]) acc = acc ++ l := by
  induction l generalizing acc with
  | nil => simp
  | cons a t ih => simp [ih]

/-- the released list, for every arrival order -/
theorem reseq_perm (v : Nat → α) (n : Nat) (ks : List Nat) (hp : ks.Perm (List.range n)) :
    reseq (ks.map fun k => (k, v k)) = (List.range n).map v := by
  have := (run_perm (fun l x => l ++ [x]) [] v n ks hp).1
  unfold reseq
  rw [this, foldl_snoc]; simp

end ObiVerif.Reseq
