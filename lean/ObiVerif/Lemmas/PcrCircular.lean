import ObiVerif.Lemmas.Pcr
import ObiVerif.Lemmas.ApatCircular
/-!
# Lemmas for C11 on CIRCULAR templates

A circular template of `L` symbols; every pattern is at most `L` long (`hL`; in particular `L ≥ 64` suffices).
* a priming site of the circle: `CMatchAt P d i k` — `i < L` and the pattern lies at offset `i` of `d ++ d`;
* `cgap L i dl j` — the number of symbols met clockwise from the end of the direct site to the start of the complemented
  site, `(j - (i + dl)) mod L`;
* `cseg seq a n` — the `n` symbols read on the circle from position `a`;
* `cstart`, `clen` — the window the options ask for; `mkAmpC` — the reported record.
`mem_block_circular`: the entries of one orientation block of `_Pcr` are exactly the records of the pairs of sites that do
not overlap on the circle and whose gap is within the bounds.
-/
namespace ObiVerif.Pcr
open ObiVerif ObiVerif.Apat

/-! ## integers modulo the length -/

theorem emod_bounds (x : Int) (L : Nat) (hL : 0 < L) : 0 ≤ x % (L : Int) ∧ x % (L : Int) < L :=
  ⟨Int.emod_nonneg x (by omega), Int.emod_lt_of_pos x (by omega)⟩

/-- `x mod L` for `x` within two turns below zero -/
theorem emod_cases (x : Int) (L : Nat) (h1 : -2 * (L : Int) ≤ x) (h2 : x < L) :
    (0 ≤ x ∧ x % (L : Int) = x) ∨ (-(L : Int) ≤ x ∧ x < 0 ∧ x % (L : Int) = x + L) ∨
      (x < -(L : Int) ∧ x % (L : Int) = x + 2 * L) := by
  by_cases h0 : 0 ≤ x
  · exact Or.inl ⟨h0, Int.emod_eq_of_lt h0 h2⟩
  · by_cases h3 : -(L : Int) ≤ x
    · refine Or.inr (Or.inl ⟨h3, by omega, ?_⟩)
      rw [← Int.add_emod_right x L, Int.emod_eq_of_lt (by omega) (by omega)]
    · refine Or.inr (Or.inr ⟨by omega, ?_⟩)
      rw [← Int.add_mul_emod_self_left x L 2, Int.emod_eq_of_lt (by omega) (by omega)]
      omega

/-- the double `%` of the repaired `_Pcr` (`from = ((from % L) + L) % L`, Go's truncated `%`) is the mathematical modulo -/
theorem tmod_tmod_add (x : Int) (L : Nat) (hL : 0 < L) (hx : x < 0) :
    Int.tmod (Int.tmod x L + L) L = x % (L : Int) := by
  have hb := emod_bounds x L hL
  rw [Int.tmod_eq_emod (a := x)]
  by_cases hd : (L : Int) ∣ x
  · have h0 : x % (L : Int) = 0 := Int.emod_eq_zero_of_dvd hd
    rw [if_pos (Or.inr hd), h0]
    simp
  · have hne : x % (L : Int) ≠ 0 := fun h => hd (Int.dvd_of_emod_eq_zero h)
    rw [if_neg (by intro h; rcases h with h | h; omega; exact hd h)]
    have : (L : Int).natAbs = L := by omega
    rw [this, Int.sub_add_cancel, Int.tmod_eq_of_lt hb.1 hb.2]

/-! ## windows of the circle -/

/-- the `n` symbols read on the circle from position `a` -/
def cseg {α : Type} (s : List α) (a n : Nat) : List α := ((s ++ s).drop a).take n

theorem cseg_length {α : Type} (s : List α) (a n : Nat) (h : a + n ≤ 2 * s.length) : (cseg s a n).length = n := by
  simp only [cseg, List.length_take, List.length_drop, List.length_append]
  omega

/-- number of symbols from `a` to `b` (`b` excluded) going clockwise; `b ≤ a` = across the origin -/
def wlen (L a b : Nat) : Nat := if a < b then b - a else L - a + b

theorem wrap_eq_cseg {α : Type} (s : List α) (a b : Nat) (ha : a ≤ s.length) (hb : b ≤ s.length) :
    (if a < b then (s.drop a).take (b - a) else s.drop a ++ s.take b) = cseg s a (wlen s.length a b) := by
  unfold cseg wlen
  have hl : (s.drop a).length = s.length - a := List.length_drop
  rw [List.drop_append_of_le_length ha]
  by_cases h : a < b
  · have h1 : ((s.drop a) ++ s).take (b - a) = (s.drop a).take (b - a) := List.take_append_of_le_length (by omega)
    rw [if_pos h, if_pos h, h1]
  · have h1 : (s.drop a).take (s.length - a + b) = s.drop a := List.take_of_length_le (by omega)
    rw [if_neg h, if_neg h, List.take_append, h1, hl]
    congr 2
    omega

theorem wlen_emod (L a b : Nat) (ha : a < L) (hb : b ≤ L) :
    ((wlen L a b : Nat) : Int) - 1 = ((b : Int) - 1 - a) % (L : Int) := by
  unfold wlen
  split
  · rw [Int.emod_eq_of_lt (by omega) (by omega)]; omega
  · rw [← Int.add_emod_right, Int.emod_eq_of_lt (by omega) (by omega)]; omega

theorem wlen_bounds (L a b : Nat) (ha : a < L) (hb : b ≤ L) : 1 ≤ wlen L a b ∧ wlen L a b ≤ L := by
  unfold wlen; split <;> omega

/-- `Subsequence(from, to, true)` with `from ≥ 0`, as `_Pcr` calls it: the window of the circle from `from mod L`;
`b` is the normalised `to` -/
theorem subsequence_circ (s : Bytes) (f : Nat) (t : Int) (b : Nat) (hs : 0 < s.length) (hb : b ≤ s.length)
    (h2 : Int.tmod (t - 1) (s.length : Int) + 1 = (b : Int)) :
    SeqOps.subsequence s f t true =
      .ok (cseg s (f % s.length) (wlen s.length (f % s.length) b), f % s.length) := by
  have ha : f % s.length < s.length := Nat.mod_lt _ hs
  have h1 : Int.tmod (f : Int) (s.length : Int) = Int.tmod ((f % s.length : Nat) : Int) (s.length : Int) := by
    rw [Int.tmod_eq_emod_of_nonneg (by omega), Int.tmod_eq_of_lt (by omega) (by omega)]; omega
  have e2 : ((f : Int) < 0) = False := eq_false (by omega)
  have e3 : (((f % s.length : Nat) : Int) < 0) = False := eq_false (by omega)
  have key : SeqOps.subsequence s f t true = SeqOps.subsequence s ((f % s.length : Nat) : Int) t true := by
    unfold SeqOps.subsequence
    simp only [Bool.not_true, Bool.and_false, Bool.false_eq_true, if_false, e2, e3]
    rw [h1]
  rw [key, SeqOps.subsequence_circ_core s (f % s.length) t b ha h2, wrap_eq_cseg s _ b (by omega) hb]

theorem cut_circ (s : Bytes) (f : Nat) (t : Int) (b : Nat) (hs : 0 < s.length) (hb : b ≤ s.length)
    (h2 : Int.tmod (t - 1) (s.length : Int) + 1 = (b : Int)) :
    cut s f t true = .ok (cseg s (f % s.length) (wlen s.length (f % s.length) b)) := by
  unfold cut
  rw [subsequence_circ s f t b hs hb h2]

theorem subId_circ (L f : Nat) (t : Int) (b : Nat) (hL : 0 < L) (hb : b ≤ L)
    (h2 : Int.tmod (t - 1) (L : Int) + 1 = (b : Int)) :
    subId L f t = (((f % L : Nat) : Int) + 1, ((min (f % L + wlen L (f % L) b) L : Nat) : Int)) := by
  have ha : f % L < L := Nat.mod_lt _ hL
  have h1 : Int.tmod (f : Int) (L : Int) = ((f % L : Nat) : Int) := by
    rw [Int.tmod_eq_emod_of_nonneg (by omega)]; omega
  unfold subId wlen
  simp only [h1, h2]
  by_cases hab : f % L < b
  · rw [if_pos (by omega), if_pos hab]
    simp only [Prod.mk.injEq, true_and]
    omega
  · rw [if_neg (by omega), if_neg hab]
    simp only [Prod.mk.injEq, true_and]
    omega

/-- the normalised `to` of `Subsequence` for `to ≥ 1` -/
theorem norm_to (L : Nat) (t : Int) (hL : 0 < L) (ht : 1 ≤ t) :
    ∃ b : Nat, 1 ≤ b ∧ b ≤ L ∧ Int.tmod (t - 1) (L : Int) + 1 = (b : Int) ∧ (b : Int) - 1 = (t - 1) % (L : Int) := by
  have hb := emod_bounds (t - 1) L hL
  refine ⟨((t - 1) % (L : Int) + 1).toNat, by omega, by omega, ?_, by omega⟩
  rw [Int.tmod_eq_emod_of_nonneg (by omega)]
  omega

/-- the number of symbols of the window `Subsequence(from, to, true)` returns: `((to - from - 1) mod L) + 1` -/
theorem wlen_of_to (L f : Nat) (t : Int) (b : Nat) (hL : 0 < L) (hb : b ≤ L)
    (hbt : (b : Int) - 1 = (t - 1) % (L : Int) ∨ ((b : Int) - 1 = t - 1)) :
    ((wlen L (f % L) b : Nat) : Int) = (t - 1 - f) % (L : Int) + 1 := by
  have ha : f % L < L := Nat.mod_lt _ hL
  have h := wlen_emod L (f % L) b ha hb
  have hf : ((f % L : Nat) : Int) = (f : Int) % (L : Int) := by omega
  have : ((b : Int) - 1 - ((f % L : Nat) : Int)) % (L : Int) = (t - 1 - f) % (L : Int) := by
    rw [hf, Int.sub_emod_emod]
    rcases hbt with hbt | hbt
    · rw [hbt, Int.emod_sub_emod]
    · rw [hbt]
  omega

/-- a match string: `Subsequence(i, i + dl, true)` is the site read on the circle -/
theorem cutMatch_circ (s : Bytes) (i dl : Nat) (k : Int) (bad : Bad) (hi : i < s.length) (hdl : 1 ≤ dl) (hdL : dl ≤ s.length) :
    cutMatch s ((i : Int), (i : Int) + dl, k) true bad = .ok (cseg s i dl) := by
  have hs : 0 < s.length := by omega
  obtain ⟨b, hb1, hbL, h2, hbe⟩ := norm_to s.length ((i : Int) + dl) hs (by omega)
  have hw := wlen_of_to s.length i ((i : Int) + dl) b hs hbL (Or.inl hbe)
  have hmod : i % s.length = i := Nat.mod_eq_of_lt hi
  have hwb := wlen_bounds s.length (i % s.length) b (by omega) hbL
  have he : ((i : Int) + dl - 1 - i) % (s.length : Int) = dl - 1 := by
    rw [Int.emod_eq_of_lt (by omega) (by omega)]; omega
  unfold cutMatch
  simp only
  rw [subsequence_circ s i _ b hs hbL h2, hmod]
  rw [hmod] at hw
  have : wlen s.length i b = dl := by omega
  rw [this]

/-! ## sites, gap, window and record on the circle -/

/-- **a priming site of the circle**: `i < L` and the pattern lies at offset `i` of the doubled encoded template, i.e.
matches the word read clockwise from `i` (Hamming cost `k` within the budget, no mismatch at an obligatory position) -/
def CMatchAt (P : Pattern) (d : List Nat) (i k : Nat) : Prop := i < d.length ∧ MatchAt P (d ++ d) i k

/-- number of symbols met clockwise from the end of the direct site (`i`, `dl` long) to the start of the complemented
site `j` -/
def cgap (L i dl j : Nat) : Int := ((j : Int) - ((i : Int) + dl)) % (L : Int)

/-- start of the window the options ask for: the end of the direct site, or `e` symbols before its start -/
def cstart (o : Opts) (L i dl : Nat) : Nat :=
  if o.hasExtension then (((i : Int) - o.extension) % (L : Int)).toNat else (i + dl) % L

/-- number of symbols the options ask for: the gap, or the gap + the two sites + two flanks of `e` symbols -/
def creq (o : Opts) (L i dl j cl : Nat) : Int :=
  if o.hasExtension then cgap L i dl j + dl + cl + 2 * o.extension else cgap L i dl j

/-- number of symbols `Subsequence` returns: the requested number when it is at most `L` (`clen_of_le`), the requested
number modulo `L` (in `1..L`) otherwise -/
def clen (o : Opts) (L i dl j cl : Nat) : Nat := ((creq o L i dl j cl - 1) % (L : Int) + 1).toNat

theorem clen_of_le (o : Opts) (L i dl j cl : Nat) (h1 : 1 ≤ creq o L i dl j cl) (h2 : creq o L i dl j cl ≤ L) :
    (clen o L i dl j cl : Int) = creq o L i dl j cl := by
  unfold clen
  rw [Int.emod_eq_of_lt (by omega) (by omega)]
  omega

/-- the record reported for a pair of sites of the circle: direct site `(i, ki)`, complemented site `(j, kj)`, window of `n`
symbols from `a`; the id coordinates are `a+1 .. a+n`, cut at `L` when the window runs across the origin -/
def mkAmpC (isFwd : Bool) (seq : Bytes) (i ki j kj dl cl a n : Nat) : Amplicon :=
  if isFwd then
    ⟨true, (a : Int) + 1, ((min (a + n) seq.length : Nat) : Int), cseg seq a n, cseg seq i dl, ki, SeqOps.rc (cseg seq j cl), kj,
      ((i : Int), (i : Int) + dl, (ki : Int)), ((j : Int), (j : Int) + cl, (kj : Int))⟩
  else
    ⟨false, (a : Int) + 1, ((min (a + n) seq.length : Nat) : Int), SeqOps.rc (cseg seq a n), SeqOps.rc (cseg seq j cl), kj,
      cseg seq i dl, ki, ((i : Int), (i : Int) + dl, (ki : Int)), ((j : Int), (j : Int) + cl, (kj : Int))⟩

/-- `pairLength` on the circle: a pair is kept iff its gap is within the bounds and the two sites, the gap included, fit
in one turn (the sites do not overlap anywhere on the circle) -/
theorem pairLength_circular (o : Opts) (hc : o.circular = true) (L i dl j cl : Nat) (ki kj : Int)
    (hi : i < L) (hj : j < L) (hdl : 1 ≤ dl) (hcl : 1 ≤ cl) (hdL : dl ≤ L) :
    lengthOk o (pairLength o L dl ((i : Int), (i : Int) + dl, ki) ((j : Int), (j : Int) + cl, kj)) =
      (lengthOk o (cgap L i dl j) && decide (cgap L i dl j + dl + cl ≤ L)) := by
  have hcases := emod_cases ((j : Int) - ((i : Int) + dl)) L (by omega) (by omega)
  unfold pairLength cgap
  simp only [hc, Bool.true_and]
  generalize hx : (j : Int) - ((i : Int) + dl) = x at hcases
  generalize hg : x % (L : Int) = g at hcases
  by_cases hA : (j : Int) + cl > i
  · rw [if_pos hA]
    by_cases hB : (j : Int) + cl - i > L
    · rw [if_pos (by simpa using hB), lengthOk_nonpos o 0 (Int.le_refl _)]
      have : decide (g + dl + cl ≤ L) = false := by
        rw [decide_eq_false_iff_not]; omega
      rw [this, Bool.and_false]
    · rw [if_neg (by simpa using hB)]
      by_cases h0 : 0 ≤ x
      · have hgx : g = x := by omega
        have : decide (g + dl + cl ≤ L) = true := by rw [decide_eq_true_iff]; omega
        rw [this, Bool.and_true, hgx]
      · have : decide (g + dl + cl ≤ L) = false := by rw [decide_eq_false_iff_not]; omega
        rw [this, Bool.and_false, lengthOk_nonpos o x (by omega)]
  · rw [if_neg hA]
    by_cases h1 : -(L : Int) ≤ x
    · have hgx : g = x + L := by omega
      have : decide (g + dl + cl ≤ L) = true := by rw [decide_eq_true_iff]; omega
      have hpl : (j : Int) + L - i - dl = x + L := by omega
      rw [this, Bool.and_true, hgx, hpl, if_pos trivial]
    · have : decide (g + dl + cl ≤ L) = false := by rw [decide_eq_false_iff_not]; omega
      rw [this, Bool.and_false, lengthOk_nonpos o _ (by omega)]

theorem boundsOk_circular (o : Opts) (hc : o.circular = true) (L : Int) (ft : Int × Int) : boundsOk o L ft = true := by
  unfold boundsOk
  cases o.hasExtension <;> simp [hc]

/-- `bounds` on the circle: `from` is a natural number whose residue is `cstart` -/
theorem bounds_circular (o : Opts) (hc : o.circular = true) (L i dl j cl : Nat) (ki kj : Int) (hL : 0 < L) (hi : i < L) :
    ∃ f : Nat, f % L = cstart o L i dl ∧
      bounds o L ((i : Int), (i : Int) + dl, ki) ((j : Int), (j : Int) + cl, kj) =
        ((f : Int), if o.hasExtension then (j : Int) + cl + o.extension else (j : Int)) ∧
      (o.hasExtension = true → (f : Int) = ((i : Int) - o.extension) % (L : Int) ∧ 0 ≤ o.extension) ∧
      (o.hasExtension = false → f = i + dl) := by
  by_cases hx : o.hasExtension = true
  · have he : 0 ≤ o.extension := by
      have : o.extension > -1 := by simpa [Opts.hasExtension] using hx
      omega
    have hb := emod_bounds ((i : Int) - o.extension) L hL
    refine ⟨(((i : Int) - o.extension) % (L : Int)).toNat, ?_, ?_, fun _ => ⟨by omega, he⟩, fun h => by rw [hx] at h; cases h⟩
    · unfold cstart
      rw [if_pos hx]
      exact Nat.mod_eq_of_lt (by omega)
    · unfold bounds
      simp only [hx, hc, if_true, Bool.not_true, Bool.and_false, Bool.false_eq_true, if_false, Bool.true_and]
      by_cases hneg : (i : Int) - o.extension < 0
      · rw [if_pos (by simpa using hneg), tmod_tmod_add _ L hL hneg]
        simp only [Prod.mk.injEq, and_true]
        omega
      · rw [if_neg (by simpa using hneg)]
        simp only [Prod.mk.injEq, and_true]
        rw [Int.emod_eq_of_lt (by omega) (by omega)]
        omega
  · have hx' : o.hasExtension = false := by simpa using hx
    refine ⟨i + dl, ?_, ?_, fun h => absurd h hx, fun _ => rfl⟩
    · unfold cstart; rw [if_neg hx]
    · unfold bounds
      simp only [hx', Bool.false_and, Bool.false_eq_true, if_false, Prod.mk.injEq, and_true]
      omega

/-- the window `_Pcr` cuts for an accepted pair of sites of the circle, and the coordinates written in the id -/
theorem window_circular (o : Opts) (hc : o.circular = true) (seq : Bytes) (i dl j cl : Nat) (ki kj : Int)
    (hi : i < seq.length) (hcl : 1 ≤ cl) (hL : 1 < seq.length) :
    cut seq (bounds o seq.length ((i : Int), (i : Int) + dl, ki) ((j : Int), (j : Int) + cl, kj)).1
        (bounds o seq.length ((i : Int), (i : Int) + dl, ki) ((j : Int), (j : Int) + cl, kj)).2 true =
      .ok (cseg seq (cstart o seq.length i dl) (clen o seq.length i dl j cl)) ∧
    subId seq.length (bounds o seq.length ((i : Int), (i : Int) + dl, ki) ((j : Int), (j : Int) + cl, kj)).1
        (bounds o seq.length ((i : Int), (i : Int) + dl, ki) ((j : Int), (j : Int) + cl, kj)).2 =
      (((cstart o seq.length i dl : Nat) : Int) + 1,
        ((min (cstart o seq.length i dl + clen o seq.length i dl j cl) seq.length : Nat) : Int)) := by
  have hL0 : 0 < seq.length := by omega
  obtain ⟨f, hfmod, hb, hext, hnoext⟩ := bounds_circular o hc seq.length i dl j cl ki kj hL0 hi
  rw [hb]
  simp only
  -- the normalised `to` and the number of symbols
  have key : ∃ b : Nat, b ≤ seq.length ∧
      Int.tmod ((if o.hasExtension then (j : Int) + cl + o.extension else (j : Int)) - 1) (seq.length : Int) + 1 = (b : Int) ∧
      wlen seq.length (f % seq.length) b = clen o seq.length i dl j cl := by
    by_cases hx : o.hasExtension = true
    · obtain ⟨hf, he⟩ := hext hx
      simp only [hx, if_true]
      obtain ⟨b, _, hbL, h2, hbe⟩ := norm_to seq.length ((j : Int) + cl + o.extension) hL0 (by omega)
      refine ⟨b, hbL, h2, ?_⟩
      have hw := wlen_of_to seq.length f ((j : Int) + cl + o.extension) b hL0 hbL (Or.inl hbe)
      have hmod : ((j : Int) + cl + o.extension - 1 - f) % (seq.length : Int) =
          (creq o seq.length i dl j cl - 1) % (seq.length : Int) := by
        unfold creq cgap
        rw [if_pos hx, hf, Int.sub_emod_emod]
        have : ((j : Int) - ((i : Int) + dl)) % (seq.length : Int) + dl + cl + 2 * o.extension - 1 =
            ((j : Int) - ((i : Int) + dl)) % (seq.length : Int) + ((dl : Int) + cl + 2 * o.extension - 1) := by omega
        rw [this, Int.emod_add_emod]
        congr 1; omega
      have hb' := emod_bounds (creq o seq.length i dl j cl - 1) seq.length hL0
      unfold clen
      omega
    · have hx' : o.hasExtension = false := by simpa using hx
      have hf := hnoext hx'
      simp only [hx', Bool.false_eq_true, if_false]
      have hmodeq : ∀ b : Nat, b ≤ seq.length → ((b : Int) - 1 = ((j : Int) - 1) % (seq.length : Int) ∨ (b : Int) - 1 = (j : Int) - 1) →
          wlen seq.length (f % seq.length) b = clen o seq.length i dl j cl := by
        intro b hbL hbt
        have hw := wlen_of_to seq.length f (j : Int) b hL0 hbL hbt
        have hmod : ((j : Int) - 1 - f) % (seq.length : Int) = (creq o seq.length i dl j cl - 1) % (seq.length : Int) := by
          unfold creq cgap
          rw [if_neg hx, Int.emod_sub_emod, hf]
          congr 1; omega
        have hb' := emod_bounds (creq o seq.length i dl j cl - 1) seq.length hL0
        unfold clen
        omega
      by_cases hj0 : j = 0
      · subst hj0
        refine ⟨0, Nat.zero_le _, ?_, hmodeq 0 (Nat.zero_le _) (Or.inr (by omega))⟩
        have := SeqOps.tmod_neg_one seq.length hL
        simp only [Int.natCast_zero, Int.zero_sub]
        rw [this]; rfl
      · obtain ⟨b, _, hbL, h2, hbe⟩ := norm_to seq.length (j : Int) hL0 (by omega)
        exact ⟨b, hbL, h2, hmodeq b hbL (Or.inl hbe)⟩
  obtain ⟨b, hbL, h2, hwl⟩ := key
  rw [hfmod] at hwl
  rw [cut_circ seq f _ b hL0 hbL h2, subId_circ seq.length f _ b hL0 hbL h2, hfmod, hwl]
  exact ⟨rfl, rfl⟩

/-- what `pairStep` does with two sites of the circle (`wrapLen` = length of the direct primer, as in both blocks) -/
theorem pairStep_circular (isFwd : Bool) (o : Opts) (hc : o.circular = true) (seq : Bytes)
    (i ki j kj dl cl : Nat) (hi : i < seq.length) (hj : j < seq.length) (hdl : 1 ≤ dl) (hcl : 1 ≤ cl)
    (hdL : dl ≤ seq.length) (hcL : cl ≤ seq.length) :
    pairStep isFwd o seq dl ((i : Int), (i : Int) + dl, (ki : Int)) ((j : Int), (j : Int) + cl, (kj : Int)) =
      if lengthOk o (cgap seq.length i dl j) = true ∧ cgap seq.length i dl j + dl + cl ≤ seq.length then
        some (.ok (mkAmpC isFwd seq i ki j kj dl cl (cstart o seq.length i dl) (clen o seq.length i dl j cl)))
      else none := by
  unfold pairStep
  simp only [pairLength_circular o hc seq.length i dl j cl ki kj hi hj hdl hcl hdL, boundsOk_circular o hc, if_true]
  by_cases hacc : lengthOk o (cgap seq.length i dl j) = true ∧ cgap seq.length i dl j + dl + cl ≤ seq.length
  · rw [if_pos hacc, if_pos (by simp only [Bool.and_eq_true, decide_eq_true_eq]; exact hacc)]
    have hg := lengthOk_pos o _ hacc.1
    obtain ⟨hcut, hid⟩ := window_circular o hc seq i dl j cl ki kj hi hcl (by omega)
    simp only [Option.some.injEq]
    cases isFwd with
    | true =>
      simp only [if_true, emitForward, hc, hcut, hid, cutMatch_circ seq i dl ki _ hi hdl hdL,
        cutMatch_circ seq j cl kj _ hj hcl hcL, revcompInPlace_eq_rc, mkAmpC, bind, Except.bind, pure, Except.pure]
    | false =>
      simp only [Bool.false_eq_true, if_false, emitReverse, hc, hcut, hid, cutMatch_circ seq i dl ki _ hi hdl hdL,
        cutMatch_circ seq j cl kj _ hj hcl hcL, revcompInPlace_eq_rc, mkAmpC, bind, Except.bind, pure, Except.pure]
  · rw [if_neg hacc, if_neg (by simp only [Bool.and_eq_true, decide_eq_true_eq]; exact hacc)]

/-! ## the hit lists and one orientation block on the circle -/

/-- the hits of a search over the whole circle that start inside the template are the sites of the circle
(`findAllIndex_circular_all`, from C10's exactness theorem through `findAllIndex_exact_circular`) -/
theorem mem_fai_circ (P : Pattern) (hP : POk P) (seq : Bytes) (hL : P.patlen ≤ seq.length) (b l : Int)
    (hb : b ≤ 0) (hl : l < 0 ∨ (seq.length : Int) ≤ l) (h : Hit) :
    (h ∈ findAllIndex P seq true b l ∧ h.1 < (seq.length : Int)) ↔
      ∃ i k : Nat, h = hitOf P i k ∧ CMatchAt P (enc seq) i k := by
  obtain ⟨s, e, k⟩ := h
  rw [findAllIndex_circular_all P seq b l (Or.inl hP.noIndel) hP.pos hP.le63 hL hb hl s e k]
  constructor
  · rintro ⟨i', k', rfl, rfl, rfl, hi, hcost, hk⟩
    refine ⟨i', k', rfl, by simpa using hi, ?_, hcost, hk⟩
    simp only [List.length_append, enc_length]
    omega
  · rintro ⟨i, k', heq, hi, _, hcost, hk⟩
    unfold hitOf at heq
    simp only [Prod.mk.injEq] at heq
    obtain ⟨rfl, rfl, rfl⟩ := heq
    exact ⟨i, k', rfl, rfl, rfl, by simpa using hi, hcost, hk⟩

/-- **one orientation block on a circular template**: its entries are exactly the records of the pairs (site of the
direct primer, site of the complemented primer) whose gap — counted clockwise from the end of the direct site — is within
the bounds and which fit, gap included, in one turn of the circle; no entry is a `log.Fatalf` or a panic.
`wrapLen` is the length of the direct primer (what the repaired `_Pcr` passes in both blocks). -/
theorem mem_block_circular (isFwd : Bool) (D C : Pattern) (hD : POk D) (hC : POk C) (wl : Int)
    (o : Opts) (hc : o.circular = true) (seq : Bytes) (hDL : D.patlen ≤ seq.length) (hCL : C.patlen ≤ seq.length)
    (x : Except Bad Amplicon) :
    x ∈ block isFwd D C D.patlen wl o seq ↔
      ∃ i ki j kj, CMatchAt D (enc seq) i ki ∧ CMatchAt C (enc seq) j kj ∧
        lengthOk o (cgap seq.length i D.patlen j) = true ∧
        cgap seq.length i D.patlen j + D.patlen + C.patlen ≤ seq.length ∧
        x = .ok (mkAmpC isFwd seq i ki j kj D.patlen C.patlen (cstart o seq.length i D.patlen)
              (clen o seq.length i D.patlen j C.patlen)) := by
  have hw : ∀ first last, revWindow o seq.length wl first last = (0, (seq.length : Int) + Gen.apatMaxPatLen) := by
    intro first last; unfold revWindow; simp only [hc, if_true]
  have h64 : Gen.apatMaxPatLen = 64 := by decide
  rw [mem_block_iff]
  simp only [hc, hw]
  constructor
  · rintro ⟨first, last, fm, rm, _, _, hfm, hrm, hfl, hrl, hstep⟩
    obtain ⟨i, ki, rfl, hmi⟩ := (mem_fai_circ D hD seq hDL 0 (-1) (Int.le_refl _) (Or.inl (by decide)) fm).mp ⟨hfm, hfl⟩
    obtain ⟨j, kj, rfl, hmj⟩ := (mem_fai_circ C hC seq hCL 0 _ (Int.le_refl _) (Or.inr (by omega)) rm).mp ⟨hrm, hrl⟩
    have hi := hmi.1
    have hj := hmj.1
    simp only [enc_length] at hi hj
    unfold hitOf at hstep
    rw [pairStep_circular isFwd o hc seq i ki j kj D.patlen C.patlen hi hj hD.pos hC.pos hDL hCL] at hstep
    split at hstep
    · rename_i hacc
      simp only [Option.some.injEq] at hstep
      exact ⟨i, ki, j, kj, hmi, hmj, hacc.1, hacc.2, hstep.symm⟩
    · cases hstep
  · rintro ⟨i, ki, j, kj, hmi, hmj, hl, hfit, rfl⟩
    have hi := hmi.1
    have hj := hmj.1
    simp only [enc_length] at hi hj
    obtain ⟨hfm, hfl⟩ := (mem_fai_circ D hD seq hDL 0 (-1) (Int.le_refl _) (Or.inl (by decide)) _).mpr ⟨i, ki, rfl, hmi⟩
    obtain ⟨hrm, hrl⟩ := (mem_fai_circ C hC seq hCL 0 ((seq.length : Int) + Gen.apatMaxPatLen) (Int.le_refl _)
      (Or.inr (by omega)) _).mpr ⟨j, kj, rfl, hmj⟩
    cases hh : (findAllIndex D seq true 0 (-1)).head? with
    | none => rw [List.head?_eq_none_iff] at hh; rw [hh] at hfm; cases hfm
    | some first =>
      cases hla : (findAllIndex D seq true 0 (-1)).getLast? with
      | none => rw [List.getLast?_eq_none_iff] at hla; rw [hla] at hfm; cases hfm
      | some last =>
        refine ⟨first, last, hitOf D i ki, hitOf C j kj, rfl, rfl, hfm, hrm, hfl, hrl, ?_⟩
        unfold hitOf
        rw [pairStep_circular isFwd o hc seq i ki j kj D.patlen C.patlen hi hj hD.pos hC.pos hDL hCL, if_pos ⟨hl, hfit⟩]

/-- no primer (and no complemented primer) is longer than the template -/
structure PrimersFit (P : Primers) (L : Nat) : Prop where
  forward : P.forward.patlen ≤ L
  cfwd : P.cfwd.patlen ≤ L
  reverse : P.reverse.patlen ≤ L
  crev : P.crev.patlen ≤ L

/-- in particular every template of at least `MAX_PAT_LEN = 64` symbols -/
theorem primersFit_of_64 (P : Primers) (hP : PrimersOk P) (L : Nat) (h : 64 ≤ L) : PrimersFit P L :=
  ⟨by have := hP.forward.le63; omega, by have := hP.cfwd.le63; omega, by have := hP.reverse.le63; omega,
   by have := hP.crev.le63; omega⟩

/-! ## rotation of a circular template -/

/-- the template read from position `r mod L` (the same circle, another origin) -/
def rotl {α : Type} (s : List α) (r : Nat) : List α := s.drop (r % s.length) ++ s.take (r % s.length)

/-- position, in the rotated template, of position `p` of the template: `(p - r) mod L` -/
def rpos (L r p : Nat) : Nat := (p + (L - r % L)) % L

theorem rotl_length {α : Type} (s : List α) (r : Nat) : (rotl s r).length = s.length := by
  by_cases hs : s.length = 0
  · simp [rotl, hs]
  · have := Nat.mod_lt r (Nat.pos_of_ne_zero hs)
    simp only [rotl, List.length_append, List.length_drop, List.length_take]
    omega

theorem rotl_map {α β : Type} (f : α → β) (s : List α) (r : Nat) : (rotl s r).map f = rotl (s.map f) r := by
  simp [rotl, List.map_drop, List.map_take]

theorem dbl_get {α : Type} (s : List α) (q : Nat) (hq : q < 2 * s.length) : (s ++ s)[q]? = s[q % s.length]? := by
  rw [List.getElem?_append]
  split
  · rename_i h; rw [Nat.mod_eq_of_lt h]
  · rename_i h; rw [Nat.mod_eq_sub_mod (by omega), Nat.mod_eq_of_lt (by omega)]

theorem cseg_get {α : Type} (s : List α) (a n t : Nat) (ha : a < s.length) (hn : n ≤ s.length) :
    (cseg s a n)[t]? = if t < n then s[(a + t) % s.length]? else none := by
  unfold cseg
  rw [List.getElem?_take]
  split
  · rw [List.getElem?_drop, dbl_get s _ (by omega)]
  · rfl

theorem rotl_get {α : Type} (s : List α) (r q : Nat) (hq : q < s.length) :
    (rotl s r)[q]? = s[(q + r % s.length) % s.length]? := by
  have hρ := Nat.mod_lt r (by omega : 0 < s.length)
  unfold rotl
  generalize r % s.length = ρ at hρ
  rw [List.getElem?_append, List.length_drop]
  split
  · rename_i h
    rw [List.getElem?_drop, Nat.mod_eq_of_lt (by omega), Nat.add_comm]
  · rename_i h
    rw [List.getElem?_take, if_pos (by omega), Nat.mod_eq_sub_mod (by omega), Nat.mod_eq_of_lt (by omega)]
    congr 1; omega

theorem rpos_lt (L r p : Nat) (hL : 0 < L) : rpos L r p < L := Nat.mod_lt _ hL

/-- a window of the rotated template is the window of the template at the position it comes from -/
theorem cseg_rotl {α : Type} (s : List α) (r a n : Nat) (ha : a < s.length) (hn : n ≤ s.length) :
    cseg (rotl s r) (rpos s.length r a) n = cseg s a n := by
  have hL : 0 < s.length := by omega
  have hρ := Nat.mod_lt r hL
  apply List.ext_getElem?
  intro t
  rw [cseg_get s a n t ha hn, cseg_get (rotl s r) _ n t (by rw [rotl_length]; exact rpos_lt _ _ _ hL) (by rw [rotl_length]; exact hn)]
  split
  · rw [rotl_length, rotl_get s r _ (Nat.mod_lt _ hL)]
    congr 1
    unfold rpos
    rw [Nat.mod_add_mod, Nat.add_assoc, Nat.mod_add_mod]
    have : a + (s.length - r % s.length) + (t + r % s.length) = a + t + s.length := by omega
    rw [this, Nat.add_mod_right]
  · rfl

/-- rotating back -/
theorem rotl_rotl_back {α : Type} (s : List α) (r : Nat) : rotl (rotl s r) (s.length - r % s.length) = s := by
  by_cases hs : s.length = 0
  · have : s = [] := List.eq_nil_of_length_eq_zero hs
    subst this; simp [rotl]
  · have hL : 0 < s.length := Nat.pos_of_ne_zero hs
    have hρ := Nat.mod_lt r hL
    apply List.ext_getElem?
    intro q
    by_cases hq : q < s.length
    · rw [rotl_get _ _ q (by rw [rotl_length]; exact hq), rotl_length, rotl_get s r _ (Nat.mod_lt _ hL)]
      congr 1
      rw [Nat.mod_add_mod, Nat.add_assoc, Nat.add_comm _ (r % s.length), ← Nat.add_assoc, Nat.add_mod_mod]
      have : q + r % s.length + (s.length - r % s.length) = q + s.length := by omega
      rw [this, Nat.add_mod_right, Nat.mod_eq_of_lt hq]
    · rw [List.getElem?_eq_none (by rw [rotl_length, rotl_length]; omega), List.getElem?_eq_none (by omega)]

theorem rpos_cast (L r p : Nat) (hL : 0 < L) : ((rpos L r p : Nat) : Int) = ((p : Int) - r) % (L : Int) := by
  have hρ := Nat.mod_lt r hL
  unfold rpos
  have h1 : ((r % L : Nat) : Int) = (r : Int) % (L : Int) := by omega
  rw [← Int.sub_emod_emod, ← h1, ← Int.add_emod_right ((p : Int) - ((r % L : Nat) : Int)) L]
  rw [Int.natCast_emod]
  congr 1
  omega

theorem cgap_rot (L r i dl j : Nat) (hL : 0 < L) : cgap L (rpos L r i) dl (rpos L r j) = cgap L i dl j := by
  unfold cgap
  rw [rpos_cast L r i hL, rpos_cast L r j hL, Int.emod_sub_emod]
  have : (j : Int) - r - (((i : Int) - r) % (L : Int) + dl) = (j : Int) - r - dl - ((i : Int) - r) % (L : Int) := by omega
  rw [this, Int.sub_emod_emod]
  congr 1; omega

theorem creq_rot (o : Opts) (L r i dl j cl : Nat) (hL : 0 < L) :
    creq o L (rpos L r i) dl (rpos L r j) cl = creq o L i dl j cl := by
  unfold creq; rw [cgap_rot L r i dl j hL]

theorem clen_rot (o : Opts) (L r i dl j cl : Nat) (hL : 0 < L) :
    clen o L (rpos L r i) dl (rpos L r j) cl = clen o L i dl j cl := by
  unfold clen; rw [creq_rot o L r i dl j cl hL]

theorem cstart_rot (o : Opts) (L r i dl : Nat) (hL : 0 < L) :
    cstart o L (rpos L r i) dl = rpos L r (cstart o L i dl) := by
  have hb1 := emod_bounds (((rpos L r i : Nat) : Int) - o.extension) L hL
  have hb2 := emod_bounds ((i : Int) - o.extension) L hL
  have hlt := rpos_lt L r (cstart o L i dl) hL
  have hc := rpos_cast L r (cstart o L i dl) hL
  unfold cstart at hc hlt ⊢
  split
  · rename_i hx
    rw [if_pos hx] at hc hlt
    rw [Int.toNat_of_nonneg hb2.1, Int.emod_sub_emod] at hc
    have : (((rpos L r i : Nat) : Int) - o.extension) % (L : Int) = ((i : Int) - o.extension - r) % (L : Int) := by
      rw [rpos_cast L r i hL, Int.emod_sub_emod]; congr 1; omega
    omega
  · rename_i hx
    rw [if_neg hx] at hc hlt
    have h1 : (((rpos L r i + dl) % L : Nat) : Int) = (((rpos L r i : Nat) : Int) + dl) % (L : Int) := by
      rw [Int.natCast_emod, Int.natCast_add]
    have h2 : (((i + dl) % L : Nat) : Int) = ((i : Int) + dl) % (L : Int) := by
      rw [Int.natCast_emod, Int.natCast_add]
    rw [h2, Int.emod_sub_emod] at hc
    rw [rpos_cast L r i hL, Int.emod_add_emod] at h1
    have : ((i : Int) - r + dl) = ((i : Int) + dl - r) := by omega
    rw [this] at h1
    omega

theorem enc_rotl (seq : Bytes) (r : Nat) : enc (rotl seq r) = rotl (enc seq) r := rotl_map _ _ _

/-- a site of the circle is a site of the rotated circle, at the shifted position -/
theorem cmatch_rot (P : Pattern) (seq : Bytes) (r i k : Nat) (hPL : P.patlen ≤ seq.length)
    (h : CMatchAt P (enc seq) i k) : CMatchAt P (enc (rotl seq r)) (rpos seq.length r i) k := by
  obtain ⟨hi, h1, h2, h3⟩ := h
  simp only [enc_length] at hi
  have hL : 0 < seq.length := by omega
  have hlt := rpos_lt seq.length r i hL
  refine ⟨by rw [enc_length, rotl_length]; exact hlt, ?_, ?_, h3⟩
  · simp only [List.length_append, enc_length, rotl_length]; omega
  · rw [← hamCost_take, ← h2, ← hamCost_take P.codes ((enc seq ++ enc seq).drop i)]
    congr 1
    have := cseg_rotl (enc seq) r i P.codes.length (by simpa using hi) (by simpa [Pattern.patlen] using hPL)
    rw [enc_length] at this
    rw [enc_rotl]
    exact this

/-- a hit shifted by the rotation -/
def rhit (L r : Nat) (h : Hit) : Hit :=
  ((rpos L r h.1.toNat : Int), (rpos L r h.1.toNat : Int) + (h.2.1 - h.1), h.2.2)

/-- **the record seen from the rotated origin**: same direction, nucleotides, matched strings and error counts; the
coordinates of the id and the two hits shifted by `r` modulo `L` -/
def rotAmp (L r : Nat) (x : Amplicon) : Amplicon :=
  { x with idFrom := (rpos L r (x.idFrom - 1).toNat : Int) + 1,
           idTo := ((min (rpos L r (x.idFrom - 1).toNat + x.seq.length) L : Nat) : Int),
           hitD := rhit L r x.hitD, hitC := rhit L r x.hitC }

theorem mkAmpC_rot (d : Bool) (seq : Bytes) (r i ki j kj dl cl a n : Nat) (hi : i < seq.length) (hj : j < seq.length)
    (ha : a < seq.length) (hdl : dl ≤ seq.length) (hcl : cl ≤ seq.length) (hn : n ≤ seq.length) :
    rotAmp seq.length r (mkAmpC d seq i ki j kj dl cl a n) =
      mkAmpC d (rotl seq r) (rpos seq.length r i) ki (rpos seq.length r j) kj dl cl (rpos seq.length r a) n := by
  have hlen : (cseg seq a n).length = n := cseg_length seq a n (by omega)
  have e1 : ((a : Int) + 1 - 1).toNat = a := by omega
  have e2 : (i : Int).toNat = i := by omega
  have e3 : (j : Int).toNat = j := by omega
  cases d with
  | true =>
    simp only [rotAmp, rhit, mkAmpC, if_true, e1, e2, e3, hlen, rotl_length, cseg_rotl seq r a n ha hn,
      cseg_rotl seq r i dl hi hdl, cseg_rotl seq r j cl hj hcl, Amplicon.mk.injEq, Prod.mk.injEq, true_and, and_true]
    omega
  | false =>
    simp only [rotAmp, rhit, mkAmpC, Bool.false_eq_true, if_false, e1, e2, e3, hlen, rotl_length, rc_length,
      cseg_rotl seq r a n ha hn, cseg_rotl seq r i dl hi hdl, cseg_rotl seq r j cl hj hcl, Amplicon.mk.injEq,
      Prod.mk.injEq, true_and, and_true]
    omega

theorem cstart_lt (o : Opts) (L i dl : Nat) (hL : 0 < L) : cstart o L i dl < L := by
  have hb := emod_bounds ((i : Int) - o.extension) L hL
  unfold cstart
  split
  · omega
  · exact Nat.mod_lt _ hL

theorem clen_le (o : Opts) (L i dl j cl : Nat) (hL : 0 < L) : clen o L i dl j cl ≤ L := by
  have hb := emod_bounds (creq o L i dl j cl - 1) L hL
  unfold clen
  omega

/-- one orientation block: an entry for the template gives the shifted entry for the rotated template -/
theorem block_rot (isFwd : Bool) (D C : Pattern) (hD : POk D) (hC : POk C) (wl : Int)
    (o : Opts) (hc : o.circular = true) (seq : Bytes) (hDL : D.patlen ≤ seq.length) (hCL : C.patlen ≤ seq.length)
    (r : Nat) (x : Amplicon) (hx : (.ok x : Except Bad Amplicon) ∈ block isFwd D C D.patlen wl o seq) :
    (.ok (rotAmp seq.length r x) : Except Bad Amplicon) ∈ block isFwd D C D.patlen wl o (rotl seq r) := by
  have hL : 0 < seq.length := by have := hD.pos; omega
  obtain ⟨i, ki, j, kj, hmi, hmj, hl, hfit, heq⟩ := (mem_block_circular isFwd D C hD hC wl o hc seq hDL hCL _).mp hx
  cases heq
  have hi := hmi.1
  have hj := hmj.1
  simp only [enc_length] at hi hj
  refine (mem_block_circular isFwd D C hD hC wl o hc (rotl seq r) (by rw [rotl_length]; exact hDL)
    (by rw [rotl_length]; exact hCL) _).mpr
    ⟨rpos seq.length r i, ki, rpos seq.length r j, kj, cmatch_rot D seq r i ki hDL hmi, cmatch_rot C seq r j kj hCL hmj, ?_, ?_, ?_⟩
  · rw [rotl_length, cgap_rot _ _ _ _ _ hL]; exact hl
  · rw [rotl_length, cgap_rot _ _ _ _ _ hL]; exact hfit
  · rw [rotl_length, cstart_rot _ _ _ _ _ hL, clen_rot _ _ _ _ _ _ _ hL,
      mkAmpC_rot isFwd seq r i ki j kj _ _ _ _ hi hj (cstart_lt o _ i _ hL) hDL hCL (clen_le o _ i _ j _ hL)]

/-! ## strand symmetry on the circle -/

/-- `t mod L` differs from `t` by a multiple of `L` -/
theorem emod_eq_sub (t L : Int) : ∃ Q : Int, L ∣ Q ∧ t % L = t - Q :=
  ⟨L * (t / L), Int.dvd_mul_right _ _, Int.emod_def t L⟩

theorem emod_congr_of_dvd (L A B : Int) (h : L ∣ A - B) : A % L = B % L :=
  Int.emod_eq_emod_iff_emod_sub_eq_zero.2 (Int.emod_eq_zero_of_dvd h)

/-- mirror image, on the reverse-complemented circle, of the start of a segment of `m` symbols starting at `p`:
`(-p - m) mod L` -/
def mpos (L p m : Nat) : Nat := (2 * L - p - m) % L

theorem mpos_lt (L p m : Nat) (hL : 0 < L) : mpos L p m < L := Nat.mod_lt _ hL

theorem mpos_cast (L p m : Nat) (h : p + m ≤ 2 * L) :
    ((mpos L p m : Nat) : Int) = (-(p : Int) - m) % (L : Int) := by
  unfold mpos
  rw [Int.natCast_emod, ← Int.add_mul_emod_self_left (-(p : Int) - m) L 2]
  congr 1
  omega

theorem mpos_mpos (L p m : Nat) (hL : 0 < L) (hp : p < L) (hm : m ≤ L) : mpos L (mpos L p m) m = p := by
  have h1 := mpos_lt L p m hL
  have hc := mpos_cast L (mpos L p m) m (by omega)
  rw [mpos_cast L p m (by omega)] at hc
  obtain ⟨Q, hQ, hq⟩ := emod_eq_sub (-(p : Int) - m) L
  have : (-((-(p : Int) - m) % (L : Int)) - m) % (L : Int) = (p : Int) % (L : Int) := by
    apply emod_congr_of_dvd
    rw [hq]
    have : -(-(p : Int) - m - Q) - m - p = Q := by omega
    rw [this]; exact hQ
  rw [this, Int.emod_eq_of_lt (by omega) (by omega)] at hc
  omega

/-- a window whose start is written one turn too far -/
theorem cseg_shift {α : Type} (s : List α) (p n : Nat) (hp : s.length ≤ p) (h : p + n ≤ 2 * s.length) :
    ((s ++ s).drop p).take n = cseg s (p - s.length) n := by
  unfold cseg
  have h1 : (s ++ s).drop p = s.drop (p - s.length) := by
    rw [List.drop_append, List.drop_of_length_le hp, List.nil_append]
  have h2 : (s ++ s).drop (p - s.length) = s.drop (p - s.length) ++ s := List.drop_append_of_le_length (by omega)
  have h3 : (s.drop (p - s.length) ++ s).take n = (s.drop (p - s.length)).take n :=
    List.take_append_of_le_length (by rw [List.length_drop]; omega)
  rw [h1, h2, h3]

theorem cseg_mod {α : Type} (s : List α) (p n : Nat) (hp2 : p < 2 * s.length) (h : p + n ≤ 2 * s.length) :
    ((s ++ s).drop p).take n = cseg s (p % s.length) n := by
  by_cases hp : p < s.length
  · rw [Nat.mod_eq_of_lt hp]; rfl
  · rw [Nat.mod_eq_sub_mod (by omega), Nat.mod_eq_of_lt (by omega)]
    exact cseg_shift s p n (by omega) h

theorem rc_append (s t : List UInt8) : SeqOps.rc (s ++ t) = SeqOps.rc t ++ SeqOps.rc s := by
  simp [SeqOps.rc, List.map_append, List.reverse_append]

/-- the window of the reverse-complemented circle that mirrors the window of `n` symbols from `a` -/
theorem cseg_rc (seq : Bytes) (a n : Nat) (ha : a < seq.length) (hn1 : 1 ≤ n) (hn : n ≤ seq.length) :
    cseg (SeqOps.rc seq) (mpos seq.length a n) n = SeqOps.rc (cseg seq a n) := by
  have h := seg_rc (seq ++ seq) a (a + n) (by omega) (by simp only [List.length_append]; omega)
  unfold seg at h
  rw [rc_append] at h
  have e1 : (seq ++ seq).length - a - ((seq ++ seq).length - (a + n)) = n := by simp only [List.length_append]; omega
  have e2 : a + n - a = n := by omega
  rw [e1, e2] at h
  have hl : (SeqOps.rc seq).length = seq.length := rc_length seq
  have := cseg_mod (SeqOps.rc seq) ((seq ++ seq).length - (a + n)) n (by simp only [List.length_append, hl]; omega)
    (by simp only [List.length_append, hl]; omega)
  rw [this, hl] at h
  unfold cseg at h ⊢
  rw [← h]
  unfold mpos
  congr 3
  simp only [List.length_append]
  omega

theorem enc_append (s t : Bytes) : enc (s ++ t) = enc s ++ enc t := by simp [enc]

/-- a site of the doubled template, wherever it starts, is a site of the circle -/
theorem matchAt_dbl_mod (P : Pattern) (d : List Nat) (p k : Nat) (hm1 : 1 ≤ P.patlen) (h : MatchAt P (d ++ d) p k) :
    CMatchAt P d (p % d.length) k := by
  obtain ⟨h1, h2, h3⟩ := h
  simp only [List.length_append] at h1
  have hL : 0 < d.length := by omega
  by_cases hp : p < d.length
  · rw [Nat.mod_eq_of_lt hp]
    exact ⟨hp, by simp only [List.length_append]; omega, h2, h3⟩
  · rw [Nat.mod_eq_sub_mod (by omega), Nat.mod_eq_of_lt (by omega)]
    refine ⟨by omega, by simp only [List.length_append]; omega, ?_, h3⟩
    have := hamCost_circ_hi P.codes d d.length p (by omega) (by simp only [Pattern.patlen] at h1 hm1; omega)
    rw [List.take_length] at this
    rw [← this]; exact h2

/-- a site of the complemented pattern on the circle = a site of the pattern at the mirrored position of the
reverse-complemented circle -/
theorem cmirror (P P' : Pattern) (hm : Mirror P P') (hp : 1 ≤ P.patlen) (seq : Bytes) (hs : ∀ b ∈ seq, b ∈ iupac)
    (i k : Nat) (h : CMatchAt P' (enc seq) i k) : CMatchAt P (enc (SeqOps.rc seq)) (mpos seq.length i P.patlen) k := by
  obtain ⟨hi, hma⟩ := h
  have hs2 : ∀ b ∈ seq ++ seq, b ∈ iupac := by
    intro b hb; rcases List.mem_append.mp hb with hb | hb <;> exact hs b hb
  rw [← enc_append] at hma
  have := site_mirror P P' hm (seq ++ seq) hs2 i k hma
  rw [rc_append, enc_append] at this
  have h2 := matchAt_dbl_mod P _ _ k hp this
  simp only [enc_length, rc_length, List.length_append] at h2
  unfold mpos
  have e : 2 * seq.length - i - P.patlen = seq.length + seq.length - i - P.patlen := by omega
  rw [e]; exact h2

/-- … and the other way round -/
theorem cmirror' (P P' : Pattern) (hm : Mirror P P') (hp : 1 ≤ P.patlen) (seq : Bytes) (hs : ∀ b ∈ seq, b ∈ iupac)
    (i k : Nat) (h : CMatchAt P (enc seq) i k) : CMatchAt P' (enc (SeqOps.rc seq)) (mpos seq.length i P.patlen) k := by
  obtain ⟨hi, hma⟩ := h
  have hs2 : ∀ b ∈ seq ++ seq, b ∈ iupac := by
    intro b hb; rcases List.mem_append.mp hb with hb | hb <;> exact hs b hb
  rw [← enc_append] at hma
  have := site_mirror' P P' hm (seq ++ seq) hs2 i k hma
  rw [rc_append, enc_append] at this
  have h2 := matchAt_dbl_mod P' _ _ k (by rw [hm.patlen]; exact hp) this
  simp only [enc_length, rc_length, List.length_append] at h2
  unfold mpos
  have e : 2 * seq.length - i - P.patlen = seq.length + seq.length - i - P.patlen := by omega
  rw [e]; exact h2

theorem cgap_mirror (L i dl j cl : Nat) (hi : i < L) (hj : j < L) (hdl : dl ≤ L) (hcl : cl ≤ L) :
    cgap L (mpos L j cl) cl (mpos L i dl) = cgap L i dl j := by
  unfold cgap
  rw [mpos_cast L j cl (by omega), mpos_cast L i dl (by omega)]
  obtain ⟨Q1, hQ1, hq1⟩ := emod_eq_sub (-(i : Int) - dl) L
  obtain ⟨Q2, hQ2, hq2⟩ := emod_eq_sub (-(j : Int) - cl) L
  apply emod_congr_of_dvd
  rw [hq1, hq2]
  have : -(i : Int) - dl - Q1 - (-(j : Int) - cl - Q2 + cl) - ((j : Int) - ((i : Int) + dl)) = Q2 - Q1 := by omega
  rw [this]
  exact Int.dvd_sub hQ2 hQ1

theorem creq_mirror (o : Opts) (L i dl j cl : Nat) (hi : i < L) (hj : j < L) (hdl : dl ≤ L) (hcl : cl ≤ L) :
    creq o L (mpos L j cl) cl (mpos L i dl) dl = creq o L i dl j cl := by
  unfold creq
  rw [cgap_mirror L i dl j cl hi hj hdl hcl]
  split <;> omega

theorem clen_mirror (o : Opts) (L i dl j cl : Nat) (hi : i < L) (hj : j < L) (hdl : dl ≤ L) (hcl : cl ≤ L) :
    clen o L (mpos L j cl) cl (mpos L i dl) dl = clen o L i dl j cl := by
  unfold clen; rw [creq_mirror o L i dl j cl hi hj hdl hcl]

/-- the window of the mirrored pair starts where the mirror image of the window ends -/
theorem cstart_mirror (o : Opts) (L i dl j cl : Nat) (hL : 0 < L) (hj : j < L) (hcl : cl ≤ L) :
    cstart o L (mpos L j cl) cl = mpos L (cstart o L i dl) (clen o L i dl j cl) := by
  have ha := cstart_lt o L i dl hL
  have hn := clen_le o L i dl j cl hL
  have hl1 := cstart_lt o L (mpos L j cl) cl hL
  have hl2 := mpos_lt L (cstart o L i dl) (clen o L i dl j cl) hL
  have hr := mpos_cast L (cstart o L i dl) (clen o L i dl j cl) (by omega)
  have hb := emod_bounds (creq o L i dl j cl - 1) L hL
  have hn' : ((clen o L i dl j cl : Nat) : Int) = (creq o L i dl j cl - 1) % (L : Int) + 1 := by
    unfold clen; omega
  have hmj := mpos_cast L j cl (by omega)
  suffices h : ((cstart o L (mpos L j cl) cl : Nat) : Int) = ((mpos L (cstart o L i dl) (clen o L i dl j cl) : Nat) : Int) by
    omega
  rw [hr, hn']
  obtain ⟨Q1, hQ1, hq1⟩ := emod_eq_sub (-(j : Int) - cl) L
  obtain ⟨Q3, hQ3, hq3⟩ := emod_eq_sub ((j : Int) - ((i : Int) + dl)) L
  obtain ⟨Q4, hQ4, hq4⟩ := emod_eq_sub (creq o L i dl j cl - 1) L
  have hdv : ∀ Q2 : Int, (L : Int) ∣ Q2 → (L : Int) ∣ -Q1 - Q2 - Q3 - Q4 := fun Q2 hQ2 =>
    Int.dvd_sub (Int.dvd_sub (Int.dvd_sub (Int.dvd_neg.2 hQ1) hQ2) hQ3) hQ4
  by_cases hx : o.hasExtension = true
  · have hb2 := emod_bounds ((i : Int) - o.extension) L hL
    have hb3 := emod_bounds (((mpos L j cl : Nat) : Int) - o.extension) L hL
    obtain ⟨Q2, hQ2, hq2⟩ := emod_eq_sub ((i : Int) - o.extension) L
    have e1 : ((cstart o L (mpos L j cl) cl : Nat) : Int) = (((mpos L j cl : Nat) : Int) - o.extension) % (L : Int) := by
      unfold cstart; rw [if_pos hx]; omega
    have e2 : ((cstart o L i dl : Nat) : Int) = ((i : Int) - o.extension) % (L : Int) := by
      unfold cstart; rw [if_pos hx]; omega
    have e3 : creq o L i dl j cl = ((j : Int) - ((i : Int) + dl)) % (L : Int) + dl + cl + 2 * o.extension := by
      unfold creq cgap; rw [if_pos hx]
    rw [e1, e2, hmj]
    apply emod_congr_of_dvd
    rw [hq4, hq2, hq1, e3, hq3]
    have : -(j : Int) - cl - Q1 - o.extension -
        (-((i : Int) - o.extension - Q2) - ((j : Int) - ((i : Int) + dl) - Q3 + dl + cl + 2 * o.extension - 1 - Q4 + 1)) =
          -Q1 - Q2 - Q3 - Q4 := by omega
    rw [this]
    exact hdv Q2 hQ2
  · obtain ⟨Q2, hQ2, hq2⟩ := emod_eq_sub ((i : Int) + dl) L
    have e1 : ((cstart o L (mpos L j cl) cl : Nat) : Int) = (((mpos L j cl : Nat) : Int) + cl) % (L : Int) := by
      unfold cstart; rw [if_neg hx, Int.natCast_emod, Int.natCast_add]
    have e2 : ((cstart o L i dl : Nat) : Int) = ((i : Int) + dl) % (L : Int) := by
      unfold cstart; rw [if_neg hx, Int.natCast_emod, Int.natCast_add]
    have e3 : creq o L i dl j cl = ((j : Int) - ((i : Int) + dl)) % (L : Int) := by
      unfold creq cgap; rw [if_neg hx]
    rw [e1, e2, hmj]
    apply emod_congr_of_dvd
    rw [hq4, hq2, hq1, e3, hq3]
    have : -(j : Int) - cl - Q1 + cl -
        (-((i : Int) + dl - Q2) - ((j : Int) - ((i : Int) + dl) - Q3 - 1 - Q4 + 1)) = -Q1 - Q2 - Q3 - Q4 := by omega
    rw [this]
    exact hdv Q2 hQ2

theorem cseg_iupac (seq : Bytes) (hs : ∀ b ∈ seq, b ∈ iupac) (a n : Nat) : ∀ x ∈ cseg seq a n, x ∈ iupac := by
  intro x hx
  have := List.mem_of_mem_drop (List.mem_of_mem_take hx)
  rcases List.mem_append.mp this with h | h <;> exact hs x h

/-- mirror image of a hit on the reverse-complemented circle -/
def mhit (L : Nat) (h : Hit) : Hit :=
  ((mpos L h.1.toNat (h.2.1 - h.1).toNat : Int), (mpos L h.1.toNat (h.2.1 - h.1).toNat : Int) + (h.2.1 - h.1), h.2.2)

/-- **the flipped record on the circle**: same nucleotides, matched strings and error counts, the other direction;
the id coordinates and the two hits mirrored modulo `L` -/
def flipC (L : Nat) (x : Amplicon) : Amplicon :=
  { x with isForward := !x.isForward,
           idFrom := (mpos L (x.idFrom - 1).toNat x.seq.length : Int) + 1,
           idTo := ((min (mpos L (x.idFrom - 1).toNat x.seq.length + x.seq.length) L : Nat) : Int),
           hitD := mhit L x.hitC, hitC := mhit L x.hitD }

theorem mkAmpC_flipC (d : Bool) (seq : Bytes) (hs : ∀ b ∈ seq, b ∈ iupac) (i ki j kj dl cl a n : Nat)
    (hi : i < seq.length) (hj : j < seq.length) (ha : a < seq.length) (hdl1 : 1 ≤ dl) (hdl : dl ≤ seq.length)
    (hcl1 : 1 ≤ cl) (hcl : cl ≤ seq.length) (hn1 : 1 ≤ n) (hn : n ≤ seq.length) :
    flipC seq.length (mkAmpC d seq i ki j kj dl cl a n) =
      mkAmpC (!d) (SeqOps.rc seq) (mpos seq.length j cl) kj (mpos seq.length i dl) ki cl dl (mpos seq.length a n) n := by
  have hlen : (cseg seq a n).length = n := cseg_length seq a n (by omega)
  have e1 : ((a : Int) + 1 - 1).toNat = a := by omega
  have e2 : (i : Int).toNat = i := by omega
  have e3 : (j : Int).toNat = j := by omega
  have e4 : (dl : Int).toNat = dl := by omega
  have e5 : (cl : Int).toNat = cl := by omega
  have e6 : (i : Int) + dl - i = dl := by omega
  have e7 : (j : Int) + cl - j = cl := by omega
  have s1 := cseg_rc seq a n ha hn1 hn
  have s2 := cseg_rc seq i dl hi hdl1 hdl
  have s3 := cseg_rc seq j cl hj hcl1 hcl
  cases d with
  | true =>
    simp only [flipC, mhit, mkAmpC, if_true, Bool.not_true, Bool.false_eq_true, if_false, e1, e2, e3, e4, e5, e6, e7, hlen,
      rc_length, s1, s2, s3, rc_rc _ (cseg_iupac seq hs a n), rc_rc _ (cseg_iupac seq hs i dl)]
  | false =>
    simp only [flipC, mhit, mkAmpC, if_true, Bool.not_false, Bool.false_eq_true, if_false, e1, e2, e3, e4, e5, e6, e7, hlen,
      rc_length, s1, s2, s3, rc_rc _ (cseg_iupac seq hs i dl)]

theorem clen_pos (o : Opts) (L i dl j cl : Nat) (hL : 0 < L) : 1 ≤ clen o L i dl j cl := by
  have hb := emod_bounds (creq o L i dl j cl - 1) L hL
  unfold clen
  omega

/-- one orientation block of the template gives, flipped, the other orientation block of the reverse-complemented
template: `D₂` is the primer whose complement `C` was searched, `C₂` the complement of the primer `D` that was searched
as written -/
theorem block_flip (d : Bool) (D C D₂ C₂ : Pattern) (hD : POk D) (hC : POk C) (hD₂ : POk D₂) (hC₂ : POk C₂)
    (m1 : Mirror D₂ C) (m2 : Mirror D C₂) (wl wl' : Int) (o : Opts) (hc : o.circular = true)
    (seq : Bytes) (hs : ∀ b ∈ seq, b ∈ iupac) (hDL : D.patlen ≤ seq.length) (hCL : C.patlen ≤ seq.length)
    (x : Amplicon) (hx : (.ok x : Except Bad Amplicon) ∈ block d D C D.patlen wl o seq) :
    (.ok (flipC seq.length x) : Except Bad Amplicon) ∈ block (!d) D₂ C₂ D₂.patlen wl' o (SeqOps.rc seq) := by
  have hL : 0 < seq.length := by have := hD.pos; omega
  have p1 := m1.patlen   -- C.patlen = D₂.patlen
  have p2 := m2.patlen   -- C₂.patlen = D.patlen
  obtain ⟨i, ki, j, kj, hmi, hmj, hl, hfit, heq⟩ := (mem_block_circular d D C hD hC wl o hc seq hDL hCL _).mp hx
  cases heq
  have hi := hmi.1
  have hj := hmj.1
  simp only [enc_length] at hi hj
  refine (mem_block_circular (!d) D₂ C₂ hD₂ hC₂ wl' o hc (SeqOps.rc seq) (by rw [rc_length, ← p1]; exact hCL)
    (by rw [rc_length, p2]; exact hDL) _).mpr
    ⟨mpos seq.length j D₂.patlen, kj, mpos seq.length i D.patlen, ki, cmirror D₂ C m1 hD₂.pos seq hs j kj hmj,
      cmirror' D C₂ m2 hD.pos seq hs i ki hmi, ?_, ?_, ?_⟩
  · rw [rc_length, ← p1, cgap_mirror _ i _ j _ hi hj hDL hCL]; exact hl
  · rw [rc_length, ← p1, cgap_mirror _ i _ j _ hi hj hDL hCL, p2]; omega
  · rw [rc_length, p2, ← p1, cstart_mirror o _ i D.patlen j C.patlen hL hj hCL,
      clen_mirror o _ i D.patlen j C.patlen hi hj hDL hCL,
      mkAmpC_flipC d seq hs i ki j kj _ _ _ _ hi hj (cstart_lt o _ i _ hL) hD.pos hDL hC.pos hCL
        (clen_pos o _ i _ j _ hL) (clen_le o _ i _ j _ hL)]

/-- flipping twice gives the record back (records of in-range sites and windows) -/
theorem mkAmpC_flipC_flipC (d : Bool) (seq : Bytes) (hs : ∀ b ∈ seq, b ∈ iupac) (i ki j kj dl cl a n : Nat)
    (hi : i < seq.length) (hj : j < seq.length) (ha : a < seq.length) (hdl1 : 1 ≤ dl) (hdl : dl ≤ seq.length)
    (hcl1 : 1 ≤ cl) (hcl : cl ≤ seq.length) (hn1 : 1 ≤ n) (hn : n ≤ seq.length) :
    flipC seq.length (flipC seq.length (mkAmpC d seq i ki j kj dl cl a n)) = mkAmpC d seq i ki j kj dl cl a n := by
  have hL : 0 < seq.length := by omega
  rw [mkAmpC_flipC d seq hs i ki j kj dl cl a n hi hj ha hdl1 hdl hcl1 hcl hn1 hn]
  have := mkAmpC_flipC (!d) (SeqOps.rc seq) (rc_iupac seq hs) (mpos seq.length j cl) kj (mpos seq.length i dl) ki cl dl
    (mpos seq.length a n) n (by rw [rc_length]; exact mpos_lt _ _ _ hL) (by rw [rc_length]; exact mpos_lt _ _ _ hL)
    (by rw [rc_length]; exact mpos_lt _ _ _ hL) hcl1 (by rw [rc_length]; exact hcl) hdl1 (by rw [rc_length]; exact hdl)
    hn1 (by rw [rc_length]; exact hn)
  rw [rc_length] at this
  rw [this, Bool.not_not, rc_rc seq hs, mpos_mpos _ i dl hL hi hdl, mpos_mpos _ j cl hL hj hcl, mpos_mpos _ a n hL ha hn]

/-- the four patterns are complements of each other and fit: an amplicon of the circle, flipped, is an amplicon of the
reverse-complemented circle -/
theorem flip_mem_circ (P : Primers) (hP : PrimersOk P) (hM : PrimersMirror P) (o : Opts) (hc : o.circular = true)
    (seq : Bytes) (hs : ∀ b ∈ seq, b ∈ iupac) (hL : PrimersFit P seq.length) (l l' : List Amplicon)
    (h : pcr P o seq = .ok l) (h' : pcr P o (SeqOps.rc seq) = .ok l') (x : Amplicon) (hx : x ∈ l) :
    flipC seq.length x ∈ l' := by
  rw [mem_pcr_iff P o _ l' h']
  rcases (mem_pcr_iff P o seq l h x).mp hx with hb | hb
  · right
    exact block_flip true _ _ _ _ hP.forward hP.crev hP.reverse hP.cfwd hM.rev hM.fwd _ _ o hc seq hs hL.forward hL.crev x hb
  · left
    exact block_flip false _ _ _ _ hP.reverse hP.cfwd hP.forward hP.crev hM.fwd hM.rev _ _ o hc seq hs hL.reverse hL.cfwd x hb

/-- on the reported records, flipping is an involution -/
theorem flipC_flipC_mem (P : Primers) (hP : PrimersOk P) (o : Opts) (hc : o.circular = true)
    (seq : Bytes) (hs : ∀ b ∈ seq, b ∈ iupac) (hL : PrimersFit P seq.length) (l : List Amplicon)
    (h : pcr P o seq = .ok l) (x : Amplicon) (hx : x ∈ l) : flipC seq.length (flipC seq.length x) = x := by
  have h0 : 0 < seq.length := by have := hP.forward.pos; have := hL.forward; omega
  rcases (mem_pcr_iff P o seq l h x).mp hx with hb | hb
  · obtain ⟨i, ki, j, kj, hmi, hmj, _, _, heq⟩ :=
      (mem_block_circular true _ _ hP.forward hP.crev _ o hc seq hL.forward hL.crev _).mp hb
    cases heq
    have hi := hmi.1
    have hj := hmj.1
    simp only [enc_length] at hi hj
    exact mkAmpC_flipC_flipC true seq hs i ki j kj _ _ _ _ hi hj (cstart_lt o _ i _ h0) hP.forward.pos hL.forward
      hP.crev.pos hL.crev (clen_pos o _ i _ j _ h0) (clen_le o _ i _ j _ h0)
  · obtain ⟨i, ki, j, kj, hmi, hmj, _, _, heq⟩ :=
      (mem_block_circular false _ _ hP.reverse hP.cfwd _ o hc seq hL.reverse hL.cfwd _).mp hb
    cases heq
    have hi := hmi.1
    have hj := hmj.1
    simp only [enc_length] at hi hj
    exact mkAmpC_flipC_flipC false seq hs i ki j kj _ _ _ _ hi hj (cstart_lt o _ i _ h0) hP.reverse.pos hL.reverse
      hP.cfwd.pos hL.cfwd (clen_pos o _ i _ j _ h0) (clen_le o _ i _ j _ h0)

/-! ## rotating back: multiset form of the rotation theorem -/

theorem rpos_congr (L r r' p : Nat) (h : r % L = r' % L) : rpos L r p = rpos L r' p := by
  unfold rpos; rw [h]

theorem rotAmp_congr (L r r' : Nat) (h : r % L = r' % L) (x : Amplicon) : rotAmp L r x = rotAmp L r' x := by
  unfold rotAmp rhit
  simp only [rpos_congr L r r' _ h]

/-- the rotation that undoes `r` has the residue of … `r` undone: `L - r mod L` -/
theorem back_mod (L r : Nat) (hL : 0 < L) : (L - (L - r % L) % L) % L = r % L := by
  have hρ := Nat.mod_lt r hL
  by_cases h0 : r % L = 0
  · rw [h0, Nat.sub_zero, Nat.mod_self, Nat.sub_zero, Nat.mod_self]
  · rw [Nat.mod_eq_of_lt (by omega : L - r % L < L)]
    have : L - (L - r % L) = r % L := by omega
    rw [this, Nat.mod_mod]

theorem rpos_back (L r p : Nat) (hL : 0 < L) (hp : p < L) : rpos L (L - r % L) (rpos L r p) = p := by
  have hρ := Nat.mod_lt r hL
  unfold rpos
  rw [Nat.mod_add_mod]
  by_cases h0 : r % L = 0
  · rw [h0, Nat.sub_zero, Nat.mod_self, Nat.sub_zero, Nat.add_mod_right, Nat.add_mod_right, Nat.mod_eq_of_lt hp]
  · rw [Nat.mod_eq_of_lt (by omega : L - r % L < L)]
    have : p + (L - r % L) + (L - (L - r % L)) = p + L := by omega
    rw [this, Nat.add_mod_right, Nat.mod_eq_of_lt hp]

theorem mkAmpC_rot_back (d : Bool) (seq : Bytes) (r i ki j kj dl cl a n : Nat) (hi : i < seq.length) (hj : j < seq.length)
    (ha : a < seq.length) (hdl : dl ≤ seq.length) (hcl : cl ≤ seq.length) (hn : n ≤ seq.length) :
    rotAmp seq.length (seq.length - r % seq.length) (rotAmp seq.length r (mkAmpC d seq i ki j kj dl cl a n)) =
      mkAmpC d seq i ki j kj dl cl a n := by
  have hL : 0 < seq.length := by omega
  rw [mkAmpC_rot d seq r i ki j kj dl cl a n hi hj ha hdl hcl hn]
  have := mkAmpC_rot d (rotl seq r) (seq.length - r % seq.length) (rpos seq.length r i) ki (rpos seq.length r j) kj dl cl
    (rpos seq.length r a) n (by rw [rotl_length]; exact rpos_lt _ _ _ hL) (by rw [rotl_length]; exact rpos_lt _ _ _ hL)
    (by rw [rotl_length]; exact rpos_lt _ _ _ hL) (by rw [rotl_length]; exact hdl) (by rw [rotl_length]; exact hcl)
    (by rw [rotl_length]; exact hn)
  rw [rotl_length] at this
  rw [this, rotl_rotl_back, rpos_back _ _ _ hL hi, rpos_back _ _ _ hL hj, rpos_back _ _ _ hL ha]

/-- on the reported records, rotating by `r` and back is the identity -/
theorem rotAmp_back_mem (P : Primers) (hP : PrimersOk P) (o : Opts) (hc : o.circular = true)
    (seq : Bytes) (hL : PrimersFit P seq.length) (r : Nat) (l : List Amplicon)
    (h : pcr P o seq = .ok l) (x : Amplicon) (hx : x ∈ l) :
    rotAmp seq.length (seq.length - r % seq.length) (rotAmp seq.length r x) = x := by
  have h0 : 0 < seq.length := by have := hP.forward.pos; have := hL.forward; omega
  rcases (mem_pcr_iff P o seq l h x).mp hx with hb | hb
  · obtain ⟨i, ki, j, kj, hmi, hmj, _, _, heq⟩ :=
      (mem_block_circular true _ _ hP.forward hP.crev _ o hc seq hL.forward hL.crev _).mp hb
    cases heq
    have hi := hmi.1
    have hj := hmj.1
    simp only [enc_length] at hi hj
    exact mkAmpC_rot_back true seq r i ki j kj _ _ _ _ hi hj (cstart_lt o _ i _ h0) hL.forward hL.crev (clen_le o _ i _ j _ h0)
  · obtain ⟨i, ki, j, kj, hmi, hmj, _, _, heq⟩ :=
      (mem_block_circular false _ _ hP.reverse hP.cfwd _ o hc seq hL.reverse hL.cfwd _).mp hb
    cases heq
    have hi := hmi.1
    have hj := hmj.1
    simp only [enc_length] at hi hj
    exact mkAmpC_rot_back false seq r i ki j kj _ _ _ _ hi hj (cstart_lt o _ i _ h0) hL.reverse hL.cfwd (clen_le o _ i _ j _ h0)

end ObiVerif.Pcr
