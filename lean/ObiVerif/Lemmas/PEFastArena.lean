import ObiVerif.Model.PEFastArena
import ObiVerif.Lemmas.PEArena
import ObiVerif.Lemmas.PEFast
import ObiVerif.Lemmas.PEVote
import ObiVerif.Lemmas.PEUnique
set_option Elab.async false
/-!
# C08, third round: fast mode on the whole arena is history independent

* `index4mer_getD`: after `Index4mer` cell `c` holds exactly the positions of code `c` in the new read, in
  increasing order, whatever the index held before (every cell is emptied first);
* `shiftCountsIdx_eq`, `fastShiftIdx_eq`: `FastShiftFourMer` over those lists is `fastShift`, and it leaves the
  `shifts` map empty;
* `extendC_spec`: the two extension statements executed through the path slice (window of the arena buffer or
  fresh array) give `extend3 (extend5 …)` of the slice content;
* `peAlignFastFromC_eq`, `peAlignFastC_eq`: fast mode on the whole arena returns the recurrence-level result.
All auxiliary names are prefixed `fa_`.
-/
namespace ObiVerif.PEAlign
open ObiVerif.Align

/-! ## the index -/

/-- positions `≥ n` (numbered from `n`) of the 4-mers with code `c` -/
def fa_posList (c : Nat) : Nat → List UInt8 → List Nat
  | _, [] => []
  | n, x :: t => if x.toNat = c then n :: fa_posList c (n + 1) t else fa_posList c (n + 1) t

theorem fa_getD_set (ix : FIndex) (i c : Nat) (v : List Nat) (hc : c < ix.size) :
    (ix.setIfInBounds i v).getD c [] = if i = c then v else ix.getD c [] := by
  rw [Array.getD_eq_getD_getElem?, Array.getD_eq_getD_getElem?, Array.getElem?_setIfInBounds]
  by_cases h : i = c
  · subst h; simp [hc]
  · simp [h]

theorem fa_clear_fold (c : Nat) : ∀ (l : List Nat) (ix : FIndex), c < ix.size →
    (l.foldl (fun ix i => ix.setIfInBounds i []) ix).size = ix.size ∧
    (l.foldl (fun ix i => ix.setIfInBounds i []) ix).getD c [] = if c ∈ l then [] else ix.getD c []
  | [], ix, _ => by simp
  | i :: l, ix, hc => by
    have hsz : (ix.setIfInBounds i []).size = ix.size := Array.size_setIfInBounds
    obtain ⟨h1, h2⟩ := fa_clear_fold c l (ix.setIfInBounds i []) (by rw [hsz]; exact hc)
    simp only [List.foldl_cons]
    refine ⟨by rw [h1, hsz], ?_⟩
    rw [h2, fa_getD_set ix i c [] hc]
    by_cases hcl : c ∈ l
    · simp [hcl]
    · by_cases hic : i = c
      · subst hic; simp
      · have : ¬ c = i := fun e => hic e.symm
        simp [hcl, hic, this]

theorem fa_clearIndex (ix : FIndex) (c : Nat) (hc : c < 256) (hs : 256 ≤ ix.size) :
    (clearIndex ix).size = ix.size ∧ (clearIndex ix).getD c [] = [] := by
  obtain ⟨h1, h2⟩ := fa_clear_fold c (List.range 256) ix (by omega)
  exact ⟨h1, by unfold clearIndex; rw [h2]; simp [List.mem_range, hc]⟩

theorem fa_push_fold (c : Nat) : ∀ (l : List UInt8) (n : Nat) (ix : FIndex), ix.size = 256 → c < 256 →
    ((enumFrom n l).foldl indexPush ix).size = 256 ∧
    ((enumFrom n l).foldl indexPush ix).getD c [] = ix.getD c [] ++ fa_posList c n l
  | [], _, ix, hs, _ => by simp [enumFrom, fa_posList, hs]
  | x :: t, n, ix, hs, hc => by
    have hx : x.toNat < 256 := x.toNat_lt
    have hsz : (indexPush ix (n, x)).size = 256 := by unfold indexPush; rw [Array.size_setIfInBounds]; exact hs
    obtain ⟨h1, h2⟩ := fa_push_fold c t (n + 1) (indexPush ix (n, x)) hsz hc
    simp only [enumFrom, List.foldl_cons]
    refine ⟨h1, ?_⟩
    rw [h2]
    unfold indexPush
    rw [fa_getD_set ix x.toNat c _ (by omega)]
    by_cases hxc : x.toNat = c
    · subst hxc; simp [fa_posList]
    · simp [fa_posList, hxc]

/-- **`Index4mer` does not depend on what the index held**: cell `c` = the positions of code `c` in the new read -/
theorem index4mer_getD (idx0 : FIndex) (ka : List UInt8) (c : Nat) (hc : c < 256) :
    (index4mer idx0 ka).getD c [] = fa_posList c 0 ka := by
  unfold index4mer
  by_cases h : idx0.size < 256
  · simp only [h, if_true]
    obtain ⟨s1, g1⟩ := fa_clearIndex (Array.replicate 256 []) c hc (by simp)
    -- cells beyond 256 do not exist here
    have hs : (clearIndex (Array.replicate 256 ([] : List Nat))).size = 256 := by rw [s1]; simp
    obtain ⟨_, h2⟩ := fa_push_fold c ka 0 _ hs hc
    rw [h2, g1]; rfl
  · simp only [h, if_false]
    -- a longer index: only the first 256 cells are ever touched; restrict the statement to them
    obtain ⟨s1, g1⟩ := fa_clearIndex idx0 c hc (by omega)
    exact fa_push_fold_big c ka 0 (clearIndex idx0) (by omega) hc g1
where
  fa_push_fold_big (c : Nat) : ∀ (l : List UInt8) (n : Nat) (ix : FIndex), 256 ≤ ix.size → c < 256 → ix.getD c [] = [] →
      ((enumFrom n l).foldl indexPush ix).getD c [] = fa_posList c n l := by
    intro l n ix hs hc h0
    have key : ∀ (l : List UInt8) (n : Nat) (ix : FIndex), 256 ≤ ix.size →
        ((enumFrom n l).foldl indexPush ix).getD c [] = ix.getD c [] ++ fa_posList c n l := by
      intro l
      induction l with
      | nil => intro n ix _; simp [enumFrom, fa_posList]
      | cons x t ih =>
        intro n ix hs
        have hx : x.toNat < 256 := x.toNat_lt
        have hsz : 256 ≤ (indexPush ix (n, x)).size := by unfold indexPush; rw [Array.size_setIfInBounds]; exact hs
        simp only [enumFrom, List.foldl_cons]
        rw [ih (n + 1) _ hsz]
        unfold indexPush
        rw [fa_getD_set ix x.toNat c _ (by omega)]
        by_cases hxc : x.toNat = c
        · subst hxc; simp [fa_posList]
        · simp [fa_posList, hxc]
    rw [key l n ix hs, h0]; rfl

/-- the inner loop over a position list = the inner loop of `shiftCounts` over the whole read -/
theorem fa_inner (code : UInt8) (pos : Nat) : ∀ (ka : List UInt8) (n : Nat) (acc : List (Int × Nat)),
    (fa_posList code.toNat n ka).foldl (fun acc (refpos : Nat) => bump ((refpos : Int) - (pos : Int)) acc) acc =
    (enumFrom n ka).foldl (fun acc (pa : Nat × UInt8) =>
      if pa.2 = code then bump ((pa.1 : Int) - (pos : Int)) acc else acc) acc
  | [], _, _ => rfl
  | x :: t, n, acc => by
    simp only [fa_posList, enumFrom, List.foldl_cons]
    by_cases h : x = code
    · subst h
      simp only [if_true, List.foldl_cons]
      exact fa_inner x pos t (n + 1) _
    · have h' : ¬ x.toNat = code.toNat := fun e => h (UInt8.toNat_inj.mp e)
      simp only [h, h', if_false]
      exact fa_inner code pos t (n + 1) _

theorem fa_outer (idx0 : FIndex) (ka : List UInt8) : ∀ (l : List (Nat × UInt8)) (m0 : List (Int × Nat)),
    l.foldl (fun acc (pb : Nat × UInt8) =>
      ((index4mer idx0 ka).getD pb.2.toNat []).foldl (fun acc (refpos : Nat) => bump ((refpos : Int) - (pb.1 : Int)) acc) acc) m0 =
    l.foldl (fun acc (pb : Nat × UInt8) =>
      (enumFrom 0 ka).foldl (fun acc (pa : Nat × UInt8) =>
        if pa.2 = pb.2 then bump ((pa.1 : Int) - (pb.1 : Int)) acc else acc) acc) m0
  | [], _ => rfl
  | pb :: t, m0 => by
    simp only [List.foldl_cons]
    rw [index4mer_getD idx0 ka pb.2.toNat pb.2.toNat_lt, fa_inner pb.2 pb.1 ka 0 m0]
    exact fa_outer idx0 ka t _

/-- **the counting loop over the reused index = `shiftCounts`**, for every previous content of the index -/
theorem shiftCountsIdx_eq (idx0 : FIndex) (ka kb : List UInt8) :
    shiftCountsIdx (index4mer idx0 ka) kb [] = shiftCounts ka kb := by
  unfold shiftCountsIdx shiftCounts
  exact fa_outer idx0 ka _ []

theorem fa_voteLoop (rel : Bool) (la lb : Nat) : ∀ (l : List (Int × Nat)) (v : Vote) (m : List (Int × Nat)),
    (∀ x ∈ m, ∃ e ∈ l, e.1 = x.1) →
    voteLoop rel la lb l (v, m) = (l.foldl (voteStep rel la lb) v, [])
  | [], v, m, h => by
    have : m = [] := by
      cases m with
      | nil => rfl
      | cons x t => obtain ⟨e, he, _⟩ := h x (List.mem_cons_self ..); cases he
    subst this; rfl
  | e :: t, v, m, h => by
    simp only [voteLoop, List.foldl_cons]
    apply fa_voteLoop rel la lb t
    intro x hx
    simp only [List.mem_filter, ne_eq, decide_eq_true_eq] at hx
    obtain ⟨e', he', hk⟩ := h x hx.1
    rcases List.mem_cons.mp he' with rfl | h2
    · exact absurd hk.symm hx.2
    · exact ⟨e', h2, hk⟩

/-- **`Index4mer` + `FastShiftFourMer` on the reused index and an empty `shifts` map**: the vote of the model
`fastShift`, and the map is empty again -/
theorem fastShiftIdx_eq (rel : Bool) (a b : Bytes) (idx0 : FIndex) :
    fastShiftIdx rel a.length b.length (index4mer idx0 (encode4mer a)) (encode4mer b) [] = (fastShift rel a b, []) := by
  unfold fastShiftIdx
  simp only [shiftCountsIdx_eq]
  rw [fa_voteLoop rel a.length b.length _ _ _ (fun x hx => ⟨x, hx, rfl⟩)]
  rfl

/-! ## the path slice -/

/-- the window lies inside the buffer -/
def fa_wf (buf : List Int) : PLoc → Prop
  | .arena off len => off + len ≤ buf.length
  | .fresh _ => True

theorem fa_plList_length (buf : List Int) (pl : PLoc) (h : fa_wf buf pl) : (plList buf pl).length = plLen pl := by
  cases pl with
  | arena off len => simp only [plList, plLen, List.length_take, List.length_drop]; unfold fa_wf at h; omega
  | fresh d => rfl

theorem fa_plGet (buf : List Int) (pl : PLoc) (k : Nat) (hk : k < plLen pl) :
    plGet buf pl k = (plList buf pl).getD k 0 := by
  cases pl with
  | arena off len =>
    simp only [plLen] at hk
    simp only [plGet, plList, List.getD_eq_getElem?_getD, List.getElem?_take, List.getElem?_drop, hk, if_true]
  | fresh d => rfl

theorem fa_plSet (buf : List Int) (pl : PLoc) (k : Nat) (v : Int) (h : fa_wf buf pl) :
    plList (plSet buf pl k v).1 (plSet buf pl k v).2 = (plList buf pl).set k v ∧
    fa_wf (plSet buf pl k v).1 (plSet buf pl k v).2 ∧ plLen (plSet buf pl k v).2 = plLen pl ∧
    (plSet buf pl k v).1.length = buf.length := by
  cases pl with
  | arena off len =>
    refine ⟨?_, ?_, rfl, ?_⟩
    · show ((buf.set (off + k) v).drop off).take len = ((buf.drop off).take len).set k v
      rw [← List.set_drop, List.take_set]
    · show off + len ≤ (buf.set (off + k) v).length
      rw [List.length_set]; exact h
    · show (buf.set (off + k) v).length = buf.length
      rw [List.length_set]
  | fresh d => exact ⟨rfl, trivial, by simp [plSet, plLen], rfl⟩

theorem fa_append2_list (L : List Int) (off len : Nat) (x y : Int) (hc : off + len + 2 ≤ L.length) :
    (((L.set (off + len) x).set (off + len + 1) y).drop off).take (len + 2) = (L.drop off).take len ++ [x, y] := by
  apply List.ext_getElem?
  intro i
  have hlen : ((L.drop off).take len).length = len := by simp; omega
  rw [List.getElem?_take, List.getElem?_drop, List.getElem?_set, List.getElem?_set, List.getElem?_append, hlen,
    List.getElem?_take, List.getElem?_drop, List.length_set]
  by_cases h1 : i < len
  · have e1 : ¬ off + len + 1 = off + i := by omega
    have e2 : ¬ off + len = off + i := by omega
    have e3 : i < len + 2 := by omega
    rw [if_pos e3, if_neg e1, if_neg e2, if_pos h1, if_pos h1]
  · by_cases h2 : i = len
    · subst h2
      have e1 : ¬ off + i + 1 = off + i := by omega
      have e3 : i < i + 2 := by omega
      have e4 : off + i < L.length := by omega
      rw [if_pos e3, if_neg e1, if_pos rfl, if_pos e4, if_neg h1, Nat.sub_self]
      rfl
    · by_cases h3 : i = len + 1
      · subst h3
        have e0 : off + (len + 1) = off + len + 1 := by omega
        have e3 : len + 1 < len + 2 := by omega
        have e4 : off + len + 1 < L.length := by omega
        have e5 : len + 1 - len = 1 := by omega
        rw [if_pos e3, e0, if_pos rfl, if_pos e4, if_neg h1, e5]
        rfl
      · have e4 : ¬ i < len + 2 := by omega
        rw [if_neg e4, if_neg h1]
        have : ([x, y] : List Int)[i - len]? = none := by
          apply List.getElem?_eq_none; simp; omega
        rw [this]

theorem fa_plAppend2 (buf : List Int) (pl : PLoc) (x y : Int) (h : fa_wf buf pl) :
    plList (plAppend2 buf pl x y).1 (plAppend2 buf pl x y).2 = plList buf pl ++ [x, y] ∧
    (plAppend2 buf pl x y).1.length = buf.length := by
  cases pl with
  | fresh d => exact ⟨rfl, rfl⟩
  | arena off len =>
    by_cases hc : off + len + 2 ≤ buf.length
    · have e : plAppend2 buf (PLoc.arena off len) x y =
          ((buf.set (off + len) x).set (off + len + 1) y, PLoc.arena off (len + 2)) := by
        simp only [plAppend2, hc, if_true]
      rw [e]
      refine ⟨fa_append2_list buf off len x y hc, ?_⟩
      show ((buf.set (off + len) x).set (off + len + 1) y).length = buf.length
      rw [List.length_set, List.length_set]
    · have e : plAppend2 buf (PLoc.arena off len) x y =
          (buf, PLoc.fresh ((buf.drop off).take len ++ [x, y])) := by
        simp only [plAppend2, hc, if_false]
      rw [e]; exact ⟨rfl, rfl⟩

theorem fa_extend5_idx (e5 : Int) (p0 : Int) (rest : Path) :
    extend5 e5 (p0 :: rest) = if p0 * e5 < 0 then e5 :: 0 :: p0 :: rest else (p0 :: rest).set 0 (p0 + e5) := by
  simp [extend5]

theorem fa_extend3_snoc2 (e3 : Int) (init : Path) (prev last : Int) :
    extend3 e3 (init ++ [prev, last]) =
      if last = 0 ∧ prev * e3 ≥ 0 then (init ++ [prev, last]).set init.length (prev + e3)
      else init ++ [prev, last] ++ [e3, 0] := by
  unfold extend3
  have hr : (init ++ [prev, last]).reverse = last :: prev :: init.reverse := by simp
  rw [hr]
  simp only
  by_cases h : last = 0 ∧ prev * e3 ≥ 0
  · simp only [h, and_self, if_true]
    rw [List.set_append]
    simp
  · simp only [h, if_false]

theorem fa_snoc2 : ∀ (p : Path), 2 ≤ p.length → ∃ init prev last, p = init ++ [prev, last] := by
  intro p hp
  rcases snoc_cases p with h | ⟨p1, last, rfl⟩
  · subst h; simp at hp
  · rcases snoc_cases p1 with h | ⟨init, prev, rfl⟩
    · subst h; simp at hp
    · exact ⟨init, prev, last, by simp⟩

/-- the second extension statement on a well-formed slice -/
theorem fa_ext3 (e3 : Int) (buf : List Int) (pl : PLoc) (h : fa_wf buf pl) (hl : 2 ≤ plLen pl) :
    plList (extend3C e3 buf pl).1 (extend3C e3 buf pl).2 = extend3 e3 (plList buf pl) ∧
    (extend3C e3 buf pl).1.length = buf.length := by
  have hlen := fa_plList_length buf pl h
  obtain ⟨init, pv, ls, hp⟩ := fa_snoc2 (plList buf pl) (by omega)
  have hn : plLen pl = init.length + 2 := by rw [← hlen, hp]; simp
  have hlast : plGet buf pl (plLen pl - 1) = ls := by
    rw [fa_plGet buf pl (plLen pl - 1) (by omega), hp, hn]
    simp [List.getD_eq_getElem?_getD, List.getElem?_append]
  have hprev : plGet buf pl (plLen pl - 2) = pv := by
    rw [fa_plGet buf pl (plLen pl - 2) (by omega), hp, hn]
    simp [List.getD_eq_getElem?_getD, List.getElem?_append]
  rw [hp, fa_extend3_snoc2]
  unfold extend3C
  simp only [hlast, hprev]
  by_cases hc : ls = 0 ∧ pv * e3 ≥ 0
  · rw [if_pos hc, if_pos hc]
    obtain ⟨s1, _, _, s4⟩ := fa_plSet buf pl (plLen pl - 2) (pv + e3) h
    rw [s1, hp]
    exact ⟨by rw [hn]; simp, s4⟩
  · rw [if_neg hc, if_neg hc]
    obtain ⟨a1, a2⟩ := fa_plAppend2 buf pl e3 0 h
    rw [a1, hp]
    exact ⟨rfl, a2⟩

/-- the first extension statement on a well-formed slice -/
theorem fa_ext5 (e5 : Int) (buf : List Int) (pl : PLoc) (h : fa_wf buf pl) (hl : 2 ≤ plLen pl) :
    plList (extend5C e5 buf pl).1 (extend5C e5 buf pl).2 = extend5 e5 (plList buf pl) ∧
    fa_wf (extend5C e5 buf pl).1 (extend5C e5 buf pl).2 ∧ 2 ≤ plLen (extend5C e5 buf pl).2 ∧
    (extend5C e5 buf pl).1.length = buf.length := by
  have hlen := fa_plList_length buf pl h
  obtain ⟨p0, rest, hp⟩ : ∃ p0 rest, plList buf pl = p0 :: rest := by
    cases hq : plList buf pl with
    | nil => rw [hq] at hlen; simp at hlen; omega
    | cons x t => exact ⟨x, t, rfl⟩
  have hg0 : plGet buf pl 0 = p0 := by rw [fa_plGet buf pl 0 (by omega), hp]; rfl
  unfold extend5C
  simp only [hg0]
  rw [hp, fa_extend5_idx]
  by_cases hs : p0 * e5 < 0
  · rw [if_pos hs, if_pos hs]
    exact ⟨rfl, trivial, by simp [plLen], rfl⟩
  · rw [if_neg hs, if_neg hs]
    obtain ⟨s1, s2, s3, s4⟩ := fa_plSet buf pl 0 (p0 + e5) h
    exact ⟨by rw [s1, hp], s2, by rw [s3]; exact hl, s4⟩

/-- **the extension through the slice = the extension of the list**, for a window of the arena buffer as for
a fresh array; the buffer keeps its length -/
theorem extendC_spec (e5 e3 : Int) (buf : List Int) (pl : PLoc) (h : fa_wf buf pl) (hl : 2 ≤ plLen pl) :
    ∃ buf' pl', extendC e5 e3 buf pl = some (buf', pl') ∧
      plList buf' pl' = extend3 e3 (extend5 e5 (plList buf pl)) ∧ buf'.length = buf.length := by
  have hnl : ¬ plLen pl < 2 := by omega
  obtain ⟨t1, t2, t3, t4⟩ := fa_ext5 e5 buf pl h hl
  obtain ⟨u1, u2⟩ := fa_ext3 e3 _ _ t2 t3
  refine ⟨_, _, by unfold extendC; rw [if_neg hnl], ?_, ?_⟩
  · rw [u1, t1]
  · rw [u2, t4]

/-! ## the whole fast mode -/

theorem fa_window_list (L : List Int) (q : Nat) :
    (L.drop (L.length - (L.drop q).length)).take (L.drop q).length = L.drop q ∧
    (L.length - (L.drop q).length) + (L.drop q).length ≤ L.length := by
  have hl : (L.drop q).length = L.length - q := List.length_drop
  by_cases hq : q ≤ L.length
  · have e : L.length - (L.drop q).length = q := by omega
    rw [e]
    exact ⟨List.take_of_length_le (Nat.le_refl _), by omega⟩
  · have e : L.drop q = [] := List.drop_eq_nil_of_le (by omega)
    rw [e]
    exact ⟨by simp, by simp⟩

/-- the path returned by `_Backtracking` is the window at the end of the buffer it leaves -/
theorem fa_backWindow (P : Nat → Nat → Int) (la lb : Nat) (buf0 : Array Int) (p : Path) (b : Array Int)
    (h : backtrackBuf P la lb buf0 = some (p, b)) :
    plList b.toList (backWindow b p) = p ∧ fa_wf b.toList (backWindow b p) ∧ plLen (backWindow b p) = p.length := by
  unfold backtrackBuf at h
  simp only at h
  split at h
  · rename_i b' q _
    simp only [Option.some.injEq, Prod.mk.injEq] at h
    obtain ⟨rfl, rfl⟩ := h
    have hw := fa_window_list b'.toList q
    have hs : b'.size = b'.toList.length := by simp
    refine ⟨?_, ?_, rfl⟩
    · show (b'.toList.drop (b'.size - _)).take _ = _
      rw [hs]; exact hw.1
    · show b'.size - _ + _ ≤ b'.toList.length
      rw [hs]; exact hw.2
  · cases h

theorem fa_consumes_len (p : Path) (la lb : Nat) (h : consumes p la lb) (hla : 0 < la) : 2 ≤ p.length := by
  obtain ⟨hw, hA, _⟩ := h
  match p, hw, hA with
  | [], _, hA => simp [usedA] at hA; omega
  | [_], hw, _ => simp [wf] at hw
  | _ :: _ :: _, _, _ => simp

theorem fa_fillLeftB (s : Nat → Nat → Int) (g : Int) (la lb : Nat) (ar : Arena) (r : FillRes) (a1 : Arena)
    (hla : 0 < la) (hlb : 0 < lb) (h : fillLeftB s g la lb ar = some (r, a1)) :
    plList a1.path.toList (backWindow a1.path r.path) = r.path ∧ fa_wf a1.path.toList (backWindow a1.path r.path) ∧
    2 ≤ plLen (backWindow a1.path r.path) := by
  have hlen : 2 ≤ r.path.length := by
    have e1 := fillLeftB_eq s g la lb ar
    have e2 := fillLeftA_eq s g la lb ar.m hla hlb
    rw [← e1, h] at e2
    simp only [Option.map_some] at e2
    obtain ⟨p, hp, hc, _⟩ := fill_ok s (cALeft g) (cBLeft g la) la lb hla hlb
    unfold fillLeft at e2
    rw [hp] at e2
    have : r = ⟨_, p⟩ := Option.some.inj e2
    rw [this]
    exact fa_consumes_len p la lb hc hla
  unfold fillLeftB at h
  split at h
  · split at h
    · rename_i _ sc m _ p b hb
      simp only [Option.some.injEq, Prod.mk.injEq] at h
      obtain ⟨rfl, rfl⟩ := h
      obtain ⟨w1, w2, w3⟩ := fa_backWindow _ _ _ _ _ _ hb
      exact ⟨w1, w2, by rw [w3]; exact hlen⟩
    · cases h
  · cases h

theorem fa_fillRightB (s : Nat → Nat → Int) (g : Int) (la lb : Nat) (ar : Arena) (r : FillRes) (a1 : Arena)
    (hla : 0 < la) (hlb : 0 < lb) (h : fillRightB s g la lb ar = some (r, a1)) :
    plList a1.path.toList (backWindow a1.path r.path) = r.path ∧ fa_wf a1.path.toList (backWindow a1.path r.path) ∧
    2 ≤ plLen (backWindow a1.path r.path) := by
  have hlen : 2 ≤ r.path.length := by
    have e1 := fillRightB_eq s g la lb ar
    have e2 := fillRightA_eq s g la lb ar.m hla hlb
    rw [← e1, h] at e2
    simp only [Option.map_some] at e2
    obtain ⟨p, hp, hc, _⟩ := fill_ok s (cARight g lb) (cBRight g) la lb hla hlb
    unfold fillRight at e2
    rw [hp] at e2
    have : r = ⟨_, p⟩ := Option.some.inj e2
    rw [this]
    exact fa_consumes_len p la lb hc hla
  unfold fillRightB at h
  split at h
  · split at h
    · rename_i _ sc m _ p b hb
      simp only [Option.some.injEq, Prod.mk.injEq] at h
      obtain ⟨rfl, rfl⟩ := h
      obtain ⟨w1, w2, w3⟩ := fa_backWindow _ _ _ _ _ _ hb
      exact ⟨w1, w2, by rw [w3]; exact hlen⟩
    · cases h
  · cases h

theorem fa_identicalPath (buf : List Int) (pl : Int) :
    plList (identicalPath buf pl).1 (identicalPath buf pl).2 = [0, pl] ∧
    fa_wf (identicalPath buf pl).1 (identicalPath buf pl).2 ∧ 2 ≤ plLen (identicalPath buf pl).2 := by
  unfold identicalPath
  by_cases h : 2 ≤ buf.length
  · rw [if_pos h]
    match buf, h with
    | x :: y :: t, _ => exact ⟨rfl, by simp [fa_wf], by simp [plLen]⟩
  · rw [if_neg h]; exact ⟨rfl, trivial, by simp [plLen]⟩

/-- the two extension statements through the slice, as a rewrite rule -/
theorem fa_ext_list (e5 e3 : Int) (buf : List Int) (pl : PLoc) (h2 : fa_wf buf pl) (h3 : 2 ≤ plLen pl) :
    plList (extend3C e3 (extend5C e5 buf pl).1 (extend5C e5 buf pl).2).1
      (extend3C e3 (extend5C e5 buf pl).1 (extend5C e5 buf pl).2).2 = extend3 e3 (extend5 e5 (plList buf pl)) := by
  obtain ⟨t1, t2, t3, _⟩ := fa_ext5 e5 buf pl h2 h3
  rw [(fa_ext3 e3 _ _ t2 t3).1, t1]

/-- **fast mode on the whole arena** (flat matrices, path buffer with the identical-overlap `append` and the
in-place extension): the result is the one of the list-path level, for every arena content -/
theorem peAlignFastFromC_eq (s : Nat → Nat → Int) (g : Int) (la lb delta : Nat) (shift count : Int) (ar : Arena)
    (hla : 0 < la) (hlb : 0 < lb) (h1 : -(lb : Int) < shift) (h2 : shift < la) :
    (peAlignFastFromC s g la lb delta shift count ar).map (·.1) =
      (peAlignFastFromB s g la lb delta shift count ar).map (·.1) := by
  unfold peAlignFastFromC peAlignFastFromB
  by_cases hdp : count < 1 ∨ count + 3 < over la lb shift
  · simp only [hdp, if_true]
    by_cases hs : shift > 0
    · simp only [hs, if_true]
      have hsa : ¬ (shift - (delta : Int)).toNat > la := by omega
      simp only [hsa, if_false]
      cases hb : fillLeftB (fun i j => s ((shift - (delta : Int)).toNat + i) j) g
          (la - (shift - (delta : Int)).toNat) (min (la - (shift - (delta : Int)).toNat) lb) ar with
      | none => rfl
      | some x =>
        obtain ⟨r, a1⟩ := x
        obtain ⟨w1, w2, w3⟩ := fa_fillLeftB _ g _ _ ar r a1 (by omega) (by omega) hb
        have hn : ¬ plLen (backWindow a1.path r.path) < 2 := by omega
        simp only [extendC, hn, if_false, Option.map_some]
        rw [fa_ext_list _ _ _ _ w2 w3, w1]
    · simp only [hs, if_false]
      have hsb : ¬ (-shift - (delta : Int)).toNat > lb := by omega
      simp only [hsb, if_false]
      cases hb : fillRightB (fun i j => s i ((-shift - (delta : Int)).toNat + j)) g
          (min (lb - (-shift - (delta : Int)).toNat) la) (lb - (-shift - (delta : Int)).toNat) ar with
      | none => rfl
      | some x =>
        obtain ⟨r, a1⟩ := x
        obtain ⟨w1, w2, w3⟩ := fa_fillRightB _ g _ _ ar r a1 (by omega) (by omega) hb
        have hn : ¬ plLen (backWindow a1.path r.path) < 2 := by omega
        simp only [extendC, hn, if_false, Option.map_some]
        rw [fa_ext_list _ _ _ _ w2 w3, w1]
  · simp only [hdp, if_false]
    by_cases hs : shift > 0
    · simp only [hs, if_true]
      by_cases hsa : shift.toNat > la
      · simp [hsa]
      · simp only [hsa, if_false]
        by_cases hpl : la - shift.toNat > lb
        · simp [hpl]
        · simp only [hpl, if_false]
          obtain ⟨w1, w2, w3⟩ := fa_identicalPath ar.path.toList ((la - shift.toNat : Nat) : Int)
          have hn : ¬ plLen (identicalPath ar.path.toList ((la - shift.toNat : Nat) : Int)).2 < 2 := by omega
          simp only [extendC, hn, if_false, Option.map_some]
          rw [fa_ext_list _ _ _ _ w2 w3, w1]
    · simp only [hs, if_false]
      by_cases hsb : (-shift).toNat > lb
      · simp [hsb]
      · simp only [hsb, if_false]
        by_cases hpl : lb - (-shift).toNat > la
        · simp [hpl]
        · simp only [hpl, if_false]
          obtain ⟨w1, w2, w3⟩ := fa_identicalPath ar.path.toList ((lb - (-shift).toNat : Nat) : Int)
          have hn : ¬ plLen (identicalPath ar.path.toList ((lb - (-shift).toNat : Nat) : Int)).2 < 2 := by omega
          simp only [extendC, hn, if_false, Option.map_some]
          rw [fa_ext_list _ _ _ _ w2 w3, w1]

/-- **`PEAlign` in fast mode does not depend on the history of the arena**: index (any previous forward
read), flat matrices, path buffer; the `shifts` map, empty at entry, is empty at exit -/
theorem peAlignFastC_eq (s : Nat → Nat → Int) (g : Int) (rel : Bool) (a b : Bytes) (delta : Nat) (ar : Arena) (idx0 : FIndex)
    (ha : 0 < a.length) (hb : 0 < b.length) :
    (peAlignFastC s g rel a b delta ⟨ar, idx0, []⟩).map (fun o => (o.res, o.vote, o.shifts)) =
      (peAlignFastFrom s g a.length b.length delta (fastShift rel a b).shift (fastShift rel a b).count).map
        (fun r => (r, fastShift rel a b, [])) := by
  obtain ⟨r1, r2, _, _⟩ := fastShift_inRange rel a b ha hb
  have e1 := peAlignFastFromC_eq s g a.length b.length delta (fastShift rel a b).shift (fastShift rel a b).count ar ha hb r1 r2
  have e2 := peAlignFastFromB_eq s g a.length b.length delta (fastShift rel a b).shift (fastShift rel a b).count ar
  have e3 := peAlignFastFromA_eq s g a.length b.length delta (fastShift rel a b).shift (fastShift rel a b).count ar.m ha hb r1 r2
  have e4 : (peAlignFastFromB s g a.length b.length delta (fastShift rel a b).shift (fastShift rel a b).count ar).map (·.1)
      = peAlignFastFrom s g a.length b.length delta (fastShift rel a b).shift (fastShift rel a b).count := by
    rw [← e3, ← e2]
    cases peAlignFastFromB s g a.length b.length delta (fastShift rel a b).shift (fastShift rel a b).count ar <;> rfl
  rw [e4] at e1
  unfold peAlignFastC
  simp only [fastShiftIdx_eq]
  cases hc : peAlignFastFromC s g a.length b.length delta (fastShift rel a b).shift (fastShift rel a b).count ar with
  | none => rw [hc] at e1; simp only [Option.map_none] at e1; rw [← e1]; rfl
  | some x =>
    obtain ⟨r, m, buf⟩ := x
    rw [hc] at e1; simp only [Option.map_some] at e1; rw [← e1]; rfl

end ObiVerif.PEAlign

