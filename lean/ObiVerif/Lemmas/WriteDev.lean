import ObiVerif.Model.WriteDev
import ObiVerif.Lemmas.WriteErr
/-!
# Lemmas on the generic `bufio.Writer` (`GW`), the scripted device and the abstract pgzip writer (C18)

`GInv w got Q P b e`: `e` is the list of all bytes handed to `Write` so far; `got dev` (the bytes the device has
accepted) is a prefix of `e`; while no error has been seen `got dev ++ buf = e`; once an error has been seen the
device satisfies `Q` ("dead"); `P` is any invariant of the device.  `DevLaw` is what is asked of the device:
`Write` appends the first `n` bytes of `p` to what it holds, an error or a short write makes it `Q`, `Q` and `P`
are kept.  No hypothesis on the buffer size, on the fuel, on progress.
-/
namespace ObiVerif.WriteErr

section generic
variable {σ : Type} (w : WFn σ) (got : σ → Bytes) (Q P : σ → Prop)

structure DevLaw : Prop where
  acc : ∀ s p, got (w s p).1 = got s ++ p.take (w s p).2.1
  dead : ∀ s p, P s → ((w s p).2.2 = true ∨ (w s p).2.1 < p.length) → Q (w s p).1
  deadK : ∀ s p, Q s → Q (w s p).1
  inv : ∀ s p, P s → P (w s p).1

structure GInv (b : GW σ) (e : Bytes) : Prop where
  pre : got b.dev <+: e
  ok : b.err = false → got b.dev ++ b.buf = e
  bad : b.err = true → Q b.dev
  p : P b.dev

variable {w got Q P}

theorem gflush_inv (L : DevLaw w got Q P) {b : GW σ} {e : Bytes} (h : GInv got Q P b e) :
    GInv got Q P (b.flush w) e ∧ ((b.flush w).err = false → (b.flush w).buf = []) := by
  unfold GW.flush
  by_cases he : b.err = true
  · simp only [he, if_true]
    exact ⟨h, fun hf => by simp at hf⟩
  · have he' : b.err = false := by simpa using he
    simp only [he']
    by_cases hl : b.buf.length = 0
    · simp only [hl, if_true]
      exact ⟨h, fun _ => List.eq_nil_of_length_eq_zero hl⟩
    · simp only [hl, if_false]
      have hok := h.ok he'
      have hacc := L.acc b.dev b.buf
      by_cases hc : ((w b.dev b.buf).2.2 || decide ((w b.dev b.buf).2.1 < b.buf.length)) = true
      · rw [if_pos hc]
        have hd : (w b.dev b.buf).2.2 = true ∨ (w b.dev b.buf).2.1 < b.buf.length := by
          simpa using hc
        refine ⟨⟨?_, ?_, ?_, ?_⟩, ?_⟩
        · show got (w b.dev b.buf).1 <+: e
          rw [hacc, ← hok]
          exact (List.prefix_append_right_inj _).mpr (List.take_prefix _ _)
        · intro hf; simp at hf
        · intro _; exact L.dead _ _ h.p hd
        · exact L.inv _ _ h.p
        · intro hf; simp at hf
      · rw [if_neg hc]
        have hc' : (w b.dev b.buf).2.2 = false ∧ ¬ ((w b.dev b.buf).2.1 < b.buf.length) := by
          simpa using hc
        have hg : got (w b.dev b.buf).1 = e := by
          rw [hacc, List.take_of_length_le (by omega), hok]
        refine ⟨⟨?_, ?_, ?_, ?_⟩, ?_⟩
        · show got (w b.dev b.buf).1 <+: e
          rw [hg]; exact List.prefix_refl _
        · intro _
          show got (w b.dev b.buf).1 ++ [] = e
          rw [hg, List.append_nil]
        · intro hf; simp [he'] at hf
        · exact L.inv _ _ h.p
        · intro _; rfl

theorem gfin_inv {b : GW σ} {e : Bytes} (h : GInv got Q P b e) (p : Bytes) :
    GInv got Q P (GW.fin (b, p)) (e ++ p) := by
  unfold GW.fin
  cases he : b.err with
  | true =>
    simp only [he, if_true]
    refine ⟨List.IsPrefix.trans h.pre (List.prefix_append _ _), ?_, h.bad, h.p⟩
    intro hf; simp [he] at hf
  | false =>
    simp only [he, Bool.false_eq_true, if_false]
    refine ⟨List.IsPrefix.trans h.pre (List.prefix_append _ _), ?_, ?_, h.p⟩
    · intro _
      show got b.dev ++ (b.buf ++ p) = e ++ p
      rw [← List.append_assoc, h.ok he]
    · intro hf; simp [he] at hf

theorem gwriteLoop_inv (L : DevLaw w got Q P) (fuel : Nat) (b : GW σ) (p e : Bytes)
    (h : GInv got Q P b e) : GInv got Q P (GW.fin (GW.writeLoop w fuel b p)) (e ++ p) := by
  induction fuel generalizing b p e with
  | zero => exact gfin_inv h p
  | succ f ih =>
    rw [GW.writeLoop]
    by_cases hcond : (decide (p.length > b.size - b.buf.length) && !b.err) = true
    · rw [if_pos hcond]
      have he : b.err = false := by
        cases hb : b.err with
        | false => rfl
        | true => simp [hb] at hcond
      have hok := h.ok he
      by_cases hl : b.buf.length = 0
      · rw [if_pos hl]
        have hbuf : b.buf = [] := List.eq_nil_of_length_eq_zero hl
        have hge : got b.dev = e := by rw [← hok, hbuf, List.append_nil]
        have hacc := L.acc b.dev p
        have hinv : GInv got Q P { b with err := (w b.dev p).2.2, dev := (w b.dev p).1 }
            (e ++ p.take (w b.dev p).2.1) := by
          refine ⟨?_, ?_, ?_, L.inv _ _ h.p⟩
          · show got (w b.dev p).1 <+: _
            rw [hacc, hge]; exact List.prefix_refl _
          · intro _
            show got (w b.dev p).1 ++ b.buf = _
            rw [hacc, hge, hbuf, List.append_nil]
          · intro hf
            exact L.dead _ _ h.p (Or.inl hf)
        have := ih _ (p.drop (w b.dev p).2.1) _ hinv
        rwa [List.append_assoc, List.take_append_drop] at this
      · rw [if_neg hl]
        have hinv : GInv got Q P
            { b with buf := b.buf ++ p.take (min p.length (b.size - b.buf.length)) }
            (e ++ p.take (min p.length (b.size - b.buf.length))) := by
          refine ⟨List.IsPrefix.trans h.pre (List.prefix_append _ _), ?_, ?_, h.p⟩
          · intro _
            show got b.dev ++ (b.buf ++ _) = e ++ _
            rw [← List.append_assoc, hok]
          · intro hf; exact absurd hf (by simp [he])
        have := ih _ (p.drop (min p.length (b.size - b.buf.length))) _ (gflush_inv L hinv).1
        rwa [List.append_assoc, List.take_append_drop] at this
    · rw [if_neg hcond]
      exact gfin_inv h p

theorem gwrite_inv (L : DevLaw w got Q P) {b : GW σ} {e : Bytes} (h : GInv got Q P b e) (p : Bytes) :
    GInv got Q P (b.write w p) (e ++ p) := gwriteLoop_inv L _ b p e h

theorem gfoldl_raw_inv (L : DevLaw w got Q P) (l : List Bytes) (b : GW σ) (e : Bytes)
    (h : GInv got Q P b e) : GInv got Q P (l.foldl (emitRawG w) b) (e ++ l.flatten) := by
  induction l generalizing b e with
  | nil => simpa using h
  | cons t ts ih =>
    simp only [List.foldl_cons, List.flatten_cons, ← List.append_assoc]
    exact ih _ _ (gwrite_inv L h t)

/-- the JSON writer over any device simulates the plain JSON writer of C04 -/
theorem gemitJson_sim (L : DevLaw w got Q P) (s : JG σ) (m : Writer.JS) (t : Bytes)
    (hs : s.started = m.some) (h : GInv got Q P s.bw m.out) :
    (emitJsonG w s t).started = (Writer.emitJson m t).some ∧
    GInv got Q P (emitJsonG w s t).bw (Writer.emitJson m t).out := by
  unfold emitJsonG Writer.emitJson
  rw [← hs]
  by_cases ht : t.isEmpty = true
  · simp only [ht, if_true]; exact ⟨hs, h⟩
  · simp only [ht]
    cases hst : s.started with
    | true =>
      simp only [if_true]
      exact ⟨by simp, gwrite_inv L (gwrite_inv L h sepJson) t⟩
    | false =>
      simp only [Bool.false_eq_true, if_false]
      exact ⟨by simp, gwrite_inv L h t⟩

theorem gfoldl_emitJson_sim (L : DevLaw w got Q P) (l : List Bytes) (s : JG σ) (m : Writer.JS)
    (hs : s.started = m.some) (h : GInv got Q P s.bw m.out) :
    (l.foldl (emitJsonG w) s).started = (l.foldl Writer.emitJson m).some ∧
    GInv got Q P (l.foldl (emitJsonG w) s).bw (l.foldl Writer.emitJson m).out := by
  induction l generalizing s m with
  | nil => exact ⟨hs, h⟩
  | cons t ts ih =>
    simp only [List.foldl_cons]
    obtain ⟨h1, h2⟩ := gemitJson_sim L s m t hs h
    exact ih _ _ h1 h2

end generic

/-! ## the scripted device -/

theorem devLaw_any (d0 : Dev) : DevLaw Dev.write Dev.got (fun _ => True)
    (fun d => d.beh = d0.beh ∧ d.closeFails = d0.closeFails) := by
  refine ⟨?_, ?_, ?_, ?_⟩
  · intro s p; rfl
  · intros; trivial
  · intros; trivial
  · intro s p h; exact h

/-- a device that accepts everything: no error can ever be seen (`Q = False`) -/
theorem devLaw_good (beh : Nat → Nat → Nat → Nat × Bool) (hb : ∀ c h l, beh c h l = (l, false)) (cf : Bool) :
    DevLaw Dev.write Dev.got (fun _ => False) (fun d => d.beh = beh ∧ d.closeFails = cf) := by
  refine ⟨?_, ?_, ?_, ?_⟩
  · intro s p; rfl
  · intro s p hP h
    have hbv := hb s.calls s.got.length p.length
    unfold Dev.write at h
    simp only [hP.1, hbv, Nat.min_self, Bool.false_eq_true, Nat.lt_irrefl, or_self] at h
  · intro s p h; exact h
  · intro s p h; exact h

theorem ginv_dev_init (size : Nat) (beh : Nat → Nat → Nat → Nat × Bool) (cf : Bool) (Q : Dev → Prop) :
    GInv Dev.got Q (fun d => d.beh = beh ∧ d.closeFails = cf) (⟨size, [], false, ⟨beh, 0, [], cf⟩⟩ : GW Dev) [] := by
  refine ⟨List.prefix_refl _, fun _ => rfl, ?_, ⟨rfl, rfl⟩⟩
  intro h; cases h

/-- `Wfile.Close` over any device: the device holds a prefix of the history; outcome `ok` implies that it holds
all of it and that no (owned) `Close` failed -/
theorem closeDev_safe {Q : Dev → Prop} {beh : Nat → Nat → Nat → Nat × Bool} {cf : Bool}
    (L : DevLaw Dev.write Dev.got Q (fun d => d.beh = beh ∧ d.closeFails = cf)) (own : Bool)
    {b : GW Dev} {e : Bytes} (h : GInv Dev.got Q (fun d => d.beh = beh ∧ d.closeFails = cf) b e) :
    (closeDev own b).2 <+: e ∧
    ((closeDev own b).1 = .ok → (closeDev own b).2 = e ∧ (own = true → cf = false)) := by
  obtain ⟨hi, hbuf⟩ := gflush_inv L h
  unfold closeDev
  simp only
  generalize b.flush Dev.write = b' at hi hbuf
  have hcf := hi.p.2
  constructor
  · split <;> exact hi.pre
  · intro hok
    cases he : b'.err with
    | true => simp [he] at hok
    | false =>
      have h1 := hi.ok he
      rw [hbuf he, List.append_nil] at h1
      simp only [he, Bool.false_or, hcf] at hok ⊢
      cases own <;> cases cf <;> simp_all

/-- over a device that accepts everything, the outcome is `ok` unless the owned `Close` fails -/
theorem closeDev_good {beh : Nat → Nat → Nat → Nat × Bool} {cf : Bool}
    (L : DevLaw Dev.write Dev.got (fun _ => False) (fun d => d.beh = beh ∧ d.closeFails = cf)) (own : Bool)
    {b : GW Dev} {e : Bytes} (h : GInv Dev.got (fun _ => False) (fun d => d.beh = beh ∧ d.closeFails = cf) b e) :
    closeDev own b = (if own && cf then .fatal else .ok, e) := by
  obtain ⟨hi, hbuf⟩ := gflush_inv L h
  unfold closeDev
  simp only
  generalize b.flush Dev.write = b' at hi hbuf
  have he : b'.err = false := by
    cases hb : b'.err with
    | false => rfl
    | true => exact absurd (hi.bad hb) id
  have h1 := hi.ok he
  rw [hbuf he, List.append_nil] at h1
  simp only [he, Bool.false_or, hi.p.2, h1]
  cases own <;> cases cf <;> simp

/-! ## refinement: `BW` (Model/WriteErr.lean) is the generic `GW` over the sink

so the two transcriptions of `bufio.Writer` agree, and the compressed and uncompressed paths share it -/

def sinkW : WFn Sink := fun s p => s.write p

def BW.toG (b : BW) : GW Sink := ⟨b.size, b.buf, b.err, b.sink⟩

theorem Sink.write_short_iff (s : Sink) (p : Bytes) :
    ((s.write p).2.2 || decide ((s.write p).2.1 < p.length)) = (s.write p).2.2 := by
  rw [Sink.write_e, Sink.write_n]; simp

theorem flush_toG (b : BW) : b.flush.toG = b.toG.flush sinkW := by
  unfold BW.flush GW.flush BW.toG
  by_cases he : b.err = true
  · simp [he]
  · by_cases hl : b.buf.length = 0
    · simp [he, hl]
    · simp only [he, hl, if_false]
      have := Sink.write_short_iff b.sink b.buf
      unfold sinkW
      simp only [this]
      cases (b.sink.write b.buf).2.2 <;> rfl

theorem writeLoop_toG (fuel : Nat) (b : BW) (p : Bytes) :
    ((BW.writeLoop fuel b p).1.toG, (BW.writeLoop fuel b p).2) = GW.writeLoop sinkW fuel b.toG p := by
  induction fuel generalizing b p with
  | zero => rfl
  | succ f ih =>
    rw [BW.writeLoop, GW.writeLoop]
    by_cases hc : (decide (p.length > b.size - b.buf.length) && !b.err) = true
    · have hc' : (decide (p.length > b.toG.size - b.toG.buf.length) && !b.toG.err) = true := hc
      rw [if_pos hc, if_pos hc']
      by_cases hl : b.buf.length = 0
      · have hl' : b.toG.buf.length = 0 := hl
        rw [if_pos hl, if_pos hl']
        exact ih _ _
      · have hl' : ¬ b.toG.buf.length = 0 := hl
        rw [if_neg hl, if_neg hl']
        simp only
        have := flush_toG { b with buf := b.buf ++ p.take (min p.length (b.size - b.buf.length)) }
        refine (ih _ _).trans ?_
        rw [this]
        rfl
    · have hc' : ¬ (decide (p.length > b.toG.size - b.toG.buf.length) && !b.toG.err) = true := hc
      rw [if_neg hc, if_neg hc']

/-- `BW.write` is `GW.write` over the sink -/
theorem write_toG (b : BW) (p : Bytes) : (b.write p).toG = b.toG.write sinkW p := by
  unfold BW.write GW.write
  have := writeLoop_toG (p.length + 2) b p
  rw [← this]
  generalize BW.writeLoop (p.length + 2) b p = r
  obtain ⟨b', p'⟩ := r
  simp only [GW.fin, BW.toG]
  by_cases he : b'.err = true
  · simp [he]
  · simp [he]

/-! ## the abstract pgzip writer -/

/-- what has been handed to the output only grows with the accepted input -/
def Mono (c : Codec) : Prop := ∀ h p, c.pre h <+: c.pre (h ++ p)

theorem Mono.le {c : Codec} (hm : Mono c) {h h' : Bytes} (hp : h <+: h') : c.pre h <+: c.pre h' := by
  obtain ⟨t, rfl⟩ := hp
  exact hm h t

theorem prefix_take_eq {t z : Bytes} {limit : Nat} (hp : t <+: z) (hl : limit ≤ t.length) :
    t.take limit = z.take limit := by
  obtain ⟨u, rfl⟩ := hp
  rw [List.take_append_of_le_length hl]

structure ZInv (c : Codec) (limit : Nat) (cf : Bool) (g : GZ) : Prop where
  lim : g.sink.limit = limit
  cfe : g.sink.closeFails = cf
  okk : g.failed = false → g.sent <+: c.pre g.ein ∧ g.sent.length ≤ limit ∧ g.sink.got = g.sent
  bad : g.failed = true → ∃ t, t <+: c.pre g.ein ∧ limit < t.length ∧ g.sink.got = t.take limit

theorem push_failed (g : GZ) (target : Bytes) (hf : g.failed = true) : g.push target = g := by
  unfold GZ.push; simp [hf]

/-- the listener brings the sink up to the first `limit` bytes of `target`, and fails iff `target` does not fit -/
theorem push_spec {limit : Nat} (g : GZ) (target : Bytes) (hf : g.failed = false)
    (hl : g.sink.limit = limit) (hs : g.sent <+: target) (hle : g.sent.length ≤ limit)
    (hg : g.sink.got = g.sent) :
    (g.push target).sink.got = target.take limit ∧
    (g.push target).failed = decide (limit < target.length) ∧
    (g.push target).sent = target ∧ (g.push target).ein = g.ein ∧
    (g.push target).sink.limit = limit ∧ (g.push target).sink.closeFails = g.sink.closeFails := by
  have ht : g.sent ++ target.drop g.sent.length = target := List.prefix_iff_eq_append.mp hs
  have hlen : target.length = g.sent.length + (target.drop g.sent.length).length := by
    conv => lhs; rw [← ht]
    rw [List.length_append]
  have hp : g.push target = ⟨g.ein, target, (g.sink.write (target.drop g.sent.length)).2.2, g.checks,
      (g.sink.write (target.drop g.sent.length)).1⟩ := by
    unfold GZ.push; simp [hf]
  rw [hp]
  refine ⟨?_, ?_, rfl, rfl, hl, rfl⟩
  · show (g.sink.write (target.drop g.sent.length)).1.got = _
    rw [Sink.write_got, Sink.write_n, hg, hl]
    generalize target.drop g.sent.length = delta at ht hlen
    subst ht
    rw [List.take_append, List.take_of_length_le hle]
    congr 1
    rw [List.take_eq_take_iff]
    omega
  · show (g.sink.write (target.drop g.sent.length)).2.2 = _
    rw [Sink.write_e, hg, hl]
    generalize target.drop g.sent.length = delta at ht hlen
    have : (min delta.length (limit - g.sent.length) < delta.length) ↔ (limit < target.length) := by omega
    simp only [this]

theorem zinv_init (c : Codec) (limit : Nat) (cf : Bool) : ZInv c limit cf (gz0 limit cf) := by
  refine ⟨rfl, rfl, ?_, ?_⟩
  · intro _; exact ⟨List.nil_prefix, Nat.zero_le _, rfl⟩
  · intro h; cases h

/-- `Write` keeps the invariant -/
theorem zwrite_inv {c : Codec} (hm : Mono c) (rep : Nat → Bool) {limit : Nat} {cf : Bool} (g : GZ) (p : Bytes)
    (h : ZInv c limit cf g) : ZInv c limit cf (GZ.write c rep g p).1 := by
  unfold GZ.write
  by_cases hc : (g.failed && rep g.checks) = true
  · rw [if_pos hc]
    exact ⟨h.lim, h.cfe, h.okk, h.bad⟩
  · rw [if_neg hc]
    simp only
    rcases Bool.eq_false_or_eq_true g.failed with hf | hf
    · rw [push_failed _ _ (by exact hf)]
      refine ⟨h.lim, h.cfe, ?_, ?_⟩
      · intro h'; exact absurd h' (by simp [hf])
      · intro _
        obtain ⟨t, h1, h2, h3⟩ := h.bad hf
        exact ⟨t, List.IsPrefix.trans h1 (hm _ _), h2, h3⟩
    · obtain ⟨h1, h2, h3⟩ := h.okk hf
      have hs := push_spec (limit := limit) { g with ein := g.ein ++ p, checks := g.checks + 2 } (c.pre (g.ein ++ p))
        hf h.lim (List.IsPrefix.trans h1 (hm _ _)) h2 h3
      obtain ⟨s1, s2, s3, s4, s5, s6⟩ := hs
      refine ⟨s5, s6.trans h.cfe, ?_, ?_⟩
      · intro hnf
        rw [s2] at hnf
        have : ¬ (limit < (c.pre (g.ein ++ p)).length) := by simpa using hnf
        rw [s3, s4, s1]
        exact ⟨List.prefix_refl _, by omega, List.take_of_length_le (by omega)⟩
      · intro hff
        rw [s2] at hff
        have : limit < (c.pre (g.ein ++ p)).length := by simpa using hff
        rw [s4, s1]
        exact ⟨_, List.prefix_refl _, this, rfl⟩

theorem gzLaw {c : Codec} (hm : Mono c) (rep : Nat → Bool) (limit : Nat) (cf : Bool) :
    DevLaw (GZ.write c rep) GZ.ein (fun g => g.failed = true) (ZInv c limit cf) := by
  refine ⟨?_, ?_, ?_, fun s p h => zwrite_inv hm rep s p h⟩
  · intro s p
    unfold GZ.write
    by_cases hc : (s.failed && rep s.checks) = true
    · rw [if_pos hc]; simp
    · rw [if_neg hc]
      simp only [List.take_length]
      unfold GZ.push
      split <;> rfl
  · intro s p _ h
    unfold GZ.write at h ⊢
    by_cases hc : (s.failed && rep s.checks) = true
    · rw [if_pos hc]
      simp only [Bool.and_eq_true] at hc
      exact hc.1
    · rw [if_neg hc] at h ⊢
      simp only [Bool.and_eq_true, Nat.lt_irrefl, or_false] at h
      exact h.1
  · intro s p h
    unfold GZ.write
    by_cases hc : (s.failed && rep s.checks) = true
    · rw [if_pos hc]; exact h
    · rw [if_neg hc]
      simp only
      rw [push_failed _ _ (by exact h)]
      exact h

/-- compressed `Wfile.Close`: the sink ends with the first `limit` bytes of the complete compressed stream of
everything handed to `Write`; fatal iff the stream does not fit or the (owned) output fails to close -/
theorem closeZ_eq {c : Codec} (hm : Mono c) (rep : Nat → Bool) {limit : Nat} {cf : Bool} (own : Bool)
    {b : GW GZ} {e : Bytes}
    (h : GInv GZ.ein (fun g => g.failed = true) (ZInv c limit cf) b e) :
    closeZ c rep own b =
      (if limit < (c.stream e).length || (own && cf) then .fatal else .ok, (c.stream e).take limit) := by
  obtain ⟨hi, hbuf⟩ := gflush_inv (gzLaw hm rep limit cf) h
  unfold closeZ
  simp only
  generalize b.flush (GZ.write c rep) = b' at hi hbuf
  have hz := hi.p
  cases hf : b'.dev.failed with
  | true =>
    obtain ⟨t, h1, h2, h3⟩ := hz.bad hf
    have htz : t <+: c.stream e :=
      List.IsPrefix.trans (List.IsPrefix.trans h1 (hm.le hi.pre)) (List.prefix_append _ _)
    have hlt : limit < (c.stream e).length := Nat.lt_of_lt_of_le h2 htz.length_le
    unfold GZ.close
    simp only [hf, if_true, Bool.or_true, Bool.true_or]
    rw [h3, prefix_take_eq htz (Nat.le_of_lt h2)]
    simp [hlt]
  | false =>
    have hne : b'.err = false := by
      cases hb : b'.err with
      | false => rfl
      | true => have := hi.bad hb; simp [hf] at this
    have hein : b'.dev.ein = e := by
      have := hi.ok hne
      rwa [hbuf hne, List.append_nil] at this
    obtain ⟨h1, h2, h3⟩ := hz.okk hf
    have hs := push_spec (limit := limit) b'.dev (c.stream b'.dev.ein) hf hz.lim
      (List.IsPrefix.trans h1 (List.prefix_append _ _)) h2 h3
    obtain ⟨s1, s2, _, _, _, s6⟩ := hs
    unfold GZ.close
    simp only [hf, Bool.false_eq_true, if_false, hne, Bool.false_or]
    rw [s1, s2, s6, hz.cfe, hein]
    by_cases hlt : limit < (c.stream e).length <;> cases own <;> cases cf <;> simp [hlt]

/-- `closeWO`: as `closeW_eq`, a failing `Close` only counts for an owned output -/
theorem closeWO_eq {limit : Nat} {cf : Bool} (own : Bool) {b : BW} {e : Bytes} (h : BWInv limit cf b e) :
    closeWO own b = (if limit < e.length || (own && cf) then .fatal else .ok, e.take limit) := by
  obtain ⟨hi, hbuf⟩ := flush_inv h
  unfold closeWO
  simp only [hi.cfe]
  cases he : b.flush.err with
  | true =>
    have h1 := hi.bad he
    have h2 := hi.full he
    have h3 : b.flush.sink.got = e.take limit := by
      rw [← h2]; exact List.prefix_iff_eq_take.mp hi.pre
    simp [h1, h3]
  | false =>
    have h1 := hi.ok he
    rw [hbuf he, List.append_nil] at h1
    have h2 : e.length ≤ limit := by rw [← h1]; exact hi.cap
    have h3 : ¬ (limit < e.length) := by omega
    have h4 : e.take limit = e := List.take_of_length_le h2
    cases cf <;> cases own <;> simp [h3, h4, h1]

end ObiVerif.WriteErr
