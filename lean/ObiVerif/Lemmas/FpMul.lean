import ObiVerif.Lemmas.FpBasic
/-!
# Schoolbook multiplication (`Uint256.Mul`): row invariant of `mulInner` / `mulOuter` (core Lean only)
-/
namespace ObiVerif.Fp

/-- value of a little-endian limb list in base `B` -/
def lval (B : Nat) : List Nat → Nat
  | [] => 0
  | x :: xs => x + B * lval B xs

/-- every limb is below `W` -/
def AllLt (l : List Nat) : Prop := ∀ x ∈ l, x < W

theorem AllLt.set {l : List Nat} {i x : Nat} (hl : AllLt l) (hx : x < W) : AllLt (l.set i x) := by
  intro y hy
  rcases List.mem_or_eq_of_mem_set hy with h | h
  · exact hl y h
  · exact h ▸ hx

theorem AllLt.getD {l : List Nat} (hl : AllLt l) (k : Nat) : l.getD k 0 < W := by
  rw [List.getD_eq_getElem?_getD]
  by_cases h : k < l.length
  · simp [h]; exact hl _ (List.getElem_mem h)
  · simp [h]

theorem getD_set_ne (l : List Nat) {i k : Nat} (x d : Nat) (h : i ≠ k) :
    (l.set i x).getD k d = l.getD k d := by
  simp [List.getD_eq_getElem?_getD, h]

/-- replacing limb `i` (in range) changes the value by the difference at weight `B^i` -/
theorem lval_set (B : Nat) : ∀ (l : List Nat) (i x : Nat), i < l.length →
    lval B (l.set i x) + l.getD i 0 * B ^ i = lval B l + x * B ^ i
  | [], _, _, h => by simp at h
  | y :: ys, 0, x, _ => by simp [lval]; omega
  | y :: ys, i + 1, x, h => by
    have ih := lval_set B ys i x (by simpa using h)
    simp only [List.set_cons_succ, lval, List.getD_cons_succ, Nat.pow_succ]
    generalize lval B (ys.set i x) = a at *
    generalize lval B ys = b at *
    generalize ys.getD i 0 = c at *
    generalize B ^ i = e at *
    grind

/-- one step of the inner loop: `hi:lo = ai*bj + r[i+j] + carry` with no wrap in the two `% W` on `hi` -/
theorem mul_step {a b r c : Nat} (ha : a < W) (hb : b < W) (hr : r < W) (hc : c < W) :
    let lo1 := (bitsMul64 a b).2
    let hi1 := (bitsMul64 a b).1
    let lo2 := (bitsAdd64 lo1 r 0).1
    let hi2 := (hi1 + (bitsAdd64 lo1 r 0).2) % W
    let lo3 := (bitsAdd64 lo2 c 0).1
    let hi3 := (hi2 + (bitsAdd64 lo2 c 0).2) % W
    lo3 < W ∧ hi3 < W ∧ lo3 + hi3 * W = a * b + r + c := by
  have hp := mul_limb_le ha hb
  unfold bitsMul64 bitsAdd64
  generalize a * b = p at *
  simp only [W] at *
  omega

theorem U256.mulInner_cons (ai i bj : Nat) (bs : List Nat) (j : Nat) (r : List Nat) (carry : Nat) :
    U256.mulInner ai i (bj :: bs) j r carry =
      U256.mulInner ai i bs (j + 1)
        (r.set (i + j) (bitsAdd64 (bitsAdd64 (bitsMul64 ai bj).2 (r.getD (i + j) 0) 0).1 carry 0).1)
        ((((bitsMul64 ai bj).1 + (bitsAdd64 (bitsMul64 ai bj).2 (r.getD (i + j) 0) 0).2) % W +
          (bitsAdd64 (bitsAdd64 (bitsMul64 ai bj).2 (r.getD (i + j) 0) 0).1 carry 0).2) % W) := rfl

/-- row invariant of the inner loop -/
theorem U256.mulInner_spec (ai i : Nat) (hai : ai < W) :
    ∀ (bs : List Nat) (j : Nat) (r : List Nat) (carry : Nat),
      AllLt bs → AllLt r → carry < W → i + j + bs.length ≤ r.length →
      (U256.mulInner ai i bs j r carry).1.length = r.length ∧
      AllLt (U256.mulInner ai i bs j r carry).1 ∧
      (U256.mulInner ai i bs j r carry).2 < W ∧
      lval W (U256.mulInner ai i bs j r carry).1 +
          (U256.mulInner ai i bs j r carry).2 * W ^ (i + j + bs.length) =
        lval W r + carry * W ^ (i + j) + ai * lval W bs * W ^ (i + j) ∧
      (∀ k, i + j + bs.length ≤ k →
        (U256.mulInner ai i bs j r carry).1.getD k 0 = r.getD k 0)
  | [], j, r, carry, _, hr, hc, _ => by
    simp [U256.mulInner, lval, hr, hc]
  | bj :: bs, j, r, carry, hbs, hr, hc, hlen => by
    rw [U256.mulInner_cons]
    have hbj : bj < W := hbs bj (by simp)
    have hbs' : AllLt bs := fun x hx => hbs x (by simp [hx])
    have st := mul_step hai hbj (hr.getD (i + j)) hc
    simp only [] at st
    generalize (bitsAdd64 (bitsAdd64 (bitsMul64 ai bj).2 (r.getD (i + j) 0) 0).1 carry 0).1 = lo at *
    generalize (((bitsMul64 ai bj).1 + (bitsAdd64 (bitsMul64 ai bj).2 (r.getD (i + j) 0) 0).2) % W +
          (bitsAdd64 (bitsAdd64 (bitsMul64 ai bj).2 (r.getD (i + j) 0) 0).1 carry 0).2) % W = hi at *
    obtain ⟨hlo, hhi, heq⟩ := st
    simp only [List.length_cons] at hlen
    have ih := U256.mulInner_spec ai i hai bs (j + 1) (r.set (i + j) lo) hi hbs' (hr.set hlo) hhi
      (by rw [List.length_set]; omega)
    obtain ⟨i1, i2, i3, i4, i5⟩ := ih
    have hs := lval_set W r (i + j) lo (by omega)
    refine ⟨by rw [i1, List.length_set], i2, i3, ?_, ?_⟩
    · have e1 : i + (j + 1) + bs.length = i + j + (bs.length + 1) := by omega
      rw [e1] at i4
      simp only [List.length_cons, lval]
      have e2 : W ^ (i + (j + 1)) = W ^ (i + j) * W := by rw [← Nat.add_assoc, Nat.pow_succ]
      rw [e2] at i4
      generalize lval W (U256.mulInner ai i bs (j + 1) (r.set (i + j) lo) hi).1 = A at *
      generalize (U256.mulInner ai i bs (j + 1) (r.set (i + j) lo) hi).2 * W ^ (i + j + (bs.length + 1)) = C at *
      generalize lval W (r.set (i + j) lo) = R1 at *
      generalize lval W r = R at *
      generalize lval W bs = L at *
      generalize r.getD (i + j) 0 = rij at *
      generalize W ^ (i + j) = E at *
      generalize W = B at *
      grind
    · intro k hk
      simp only [List.length_cons] at hk
      rw [i5 k (by omega), getD_set_ne _ _ _ (by omega)]

theorem U256.mulOuter_cons (b : List Nat) (ai : Nat) (as : List Nat) (i : Nat) (r : List Nat) :
    U256.mulOuter b (ai :: as) i r =
      U256.mulOuter b as (i + 1)
        ((U256.mulInner ai i b 0 r 0).1.set (i + 4) (U256.mulInner ai i b 0 r 0).2) := rfl

/-- invariant of the outer loop: after the rows `as` (starting at index `i`) the accumulator has gained
`value(as) * value(b) * W^i`; limbs at and above `i + 4` are still zero on entry -/
theorem U256.mulOuter_spec (b : List Nat) (hb : AllLt b) (hb4 : b.length = 4) :
    ∀ (as : List Nat) (i : Nat) (r : List Nat),
      AllLt as → AllLt r → i + as.length + 4 ≤ r.length → (∀ k, i + 4 ≤ k → r.getD k 0 = 0) →
      (U256.mulOuter b as i r).length = r.length ∧ AllLt (U256.mulOuter b as i r) ∧
      lval W (U256.mulOuter b as i r) = lval W r + lval W as * lval W b * W ^ i
  | [], i, r, _, hr, _, _ => by simp [U256.mulOuter, lval, hr]
  | ai :: as, i, r, has, hr, hlen, hz => by
    rw [U256.mulOuter_cons]
    have hai : ai < W := has ai (by simp)
    have has' : AllLt as := fun x hx => has x (by simp [hx])
    simp only [List.length_cons] at hlen
    have hi := U256.mulInner_spec ai i hai b 0 r 0 hb hr W_pos (by rw [hb4]; omega)
    generalize U256.mulInner ai i b 0 r 0 = rc at *
    obtain ⟨r1, c⟩ := rc
    simp only [Nat.add_zero, hb4, Nat.zero_mul] at hi
    obtain ⟨j1, j2, j3, j4, j5⟩ := hi
    have hs := lval_set W r1 (i + 4) c (by omega)
    have h0 : r1.getD (i + 4) 0 = 0 := by rw [j5 _ (Nat.le_refl _)]; exact hz _ (Nat.le_refl _)
    rw [h0, Nat.zero_mul, Nat.add_zero] at hs
    have ih := U256.mulOuter_spec b hb hb4 as (i + 1) (r1.set (i + 4) c) has' (j2.set j3)
      (by rw [List.length_set]; omega)
      (by intro k hk; rw [getD_set_ne _ _ _ (by omega), j5 k (by omega)]; exact hz k (by omega))
    obtain ⟨k1, k2, k3⟩ := ih
    refine ⟨by rw [k1, List.length_set, j1], k2, ?_⟩
    rw [k3, hs, j4]
    simp only [lval, Nat.pow_succ]
    generalize lval W r = R
    generalize lval W as = A
    generalize lval W b = L
    generalize W ^ i = E
    generalize W = B
    grind

theorem list_len8 {l : List Nat} (h : l.length = 8) :
    ∃ r0 r1 r2 r3 r4 r5 r6 r7, l = [r0, r1, r2, r3, r4, r5, r6, r7] := by
  match l, h with
  | [r0, r1, r2, r3, r4, r5, r6, r7], _ => exact ⟨r0, r1, r2, r3, r4, r5, r6, r7, rfl⟩

theorem U256.mul_spec (u v : U256) (hu : u.WF) (hv : v.WF) :
    U256.mul u v =
      if u.toNat * v.toNat < W ^ 4 then .ok (U256.ofNat (u.toNat * v.toNat)) else .error () := by
  obtain ⟨h3, h2, h1, h0⟩ := hu
  obtain ⟨k3, k2, k1, k0⟩ := hv
  have hb : AllLt [v.w0, v.w1, v.w2, v.w3] := by
    intro x hx; simp at hx; rcases hx with h | h | h | h <;> rw [h] <;> assumption
  have ha : AllLt [u.w0, u.w1, u.w2, u.w3] := by
    intro x hx; simp at hx; rcases hx with h | h | h | h <;> rw [h] <;> assumption
  have hr : AllLt [0, 0, 0, 0, 0, 0, 0, 0] := by
    intro x hx; simp at hx; rw [hx]; exact W_pos
  have sp := U256.mulOuter_spec [v.w0, v.w1, v.w2, v.w3] hb rfl [u.w0, u.w1, u.w2, u.w3] 0
    [0, 0, 0, 0, 0, 0, 0, 0] ha hr (by simp) (by
      intro k _
      rw [List.getD_eq_getElem?_getD]
      by_cases hk : k < 8
      · have : k = 0 ∨ k = 1 ∨ k = 2 ∨ k = 3 ∨ k = 4 ∨ k = 5 ∨ k = 6 ∨ k = 7 := by omega
        rcases this with h | h | h | h | h | h | h | h <;> subst h <;> rfl
      · simp [show 8 ≤ k by omega])
  unfold U256.mul
  simp only []
  generalize U256.mulOuter [v.w0, v.w1, v.w2, v.w3] [u.w0, u.w1, u.w2, u.w3] 0 [0, 0, 0, 0, 0, 0, 0, 0] = r at *
  obtain ⟨l8, hlt, hval⟩ := sp
  obtain ⟨r0, r1, r2, r3, r4, r5, r6, r7, rfl⟩ := list_len8 l8
  have e0 := hlt r0 (by simp)
  have e1 := hlt r1 (by simp)
  have e2 := hlt r2 (by simp)
  have e3 := hlt r3 (by simp)
  have e4 := hlt r4 (by simp)
  have e5 := hlt r5 (by simp)
  have e6 := hlt r6 (by simp)
  have e7 := hlt r7 (by simp)
  have eu : lval W [u.w0, u.w1, u.w2, u.w3] = u.toNat := by
    simp only [lval, U256.toNat, W]; omega
  have ev : lval W [v.w0, v.w1, v.w2, v.w3] = v.toNat := by
    simp only [lval, U256.toNat, W]; omega
  rw [eu, ev] at hval
  simp only [lval, Nat.pow_zero, Nat.mul_one, Nat.mul_zero, Nat.add_zero, Nat.zero_add] at hval
  simp only [List.getD_cons_succ, List.getD_cons_zero]
  generalize u.toNat * v.toNat = N at *
  unfold U256.ofNat
  simp only [W] at *
  by_cases h : N < 18446744073709551616 ^ 4
  · rw [if_pos h, if_neg (by simp; omega)]
    congr 2 <;> omega
  · rw [if_neg h, if_pos (by simp; omega)]

end ObiVerif.Fp
