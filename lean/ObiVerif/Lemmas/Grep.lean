import ObiVerif.Model.Grep
/-!
# Specification of the record selection and helper lemmas (C16)

`selects O o r` says, family by family and without looking at how the predicate is built, that the
record satisfies every requested criterion.  "Requested" is read on the option globals: a minimum is
requested when it is `> 0` (the default is 0, and a bound `<= 0` holds of every length and of every
non-negative count: `sizeHolds_exact`, `countHolds_exact`), a maximum when it differs from its
default 2e9, a list option when the list is not empty, `--id-list` when a file was given.
-/
namespace ObiVerif.Grep

/-! ## verdicts with a "program stopped" outcome -/

/-- short-circuit conjunction (`none` = `log.Fatalf`) -/
def andO (a b : Option Bool) : Option Bool :=
  match a with
  | some true => b
  | x => x

def allO : List (Option Bool) → Option Bool
  | [] => some true
  | a :: t => andO a (allO t)

theorem andO_assoc (a b c : Option Bool) : andO (andO a b) c = andO a (andO b c) := by
  cases a with
  | none => rfl
  | some x => cases x <;> rfl

theorem andO_true_right (a : Option Bool) : andO a (some true) = a := by
  cases a with
  | none => rfl
  | some x => cases x <;> rfl

@[simp] theorem andO_some_some (a b : Bool) : andO (some a) (some b) = some (a && b) := by
  cases a <;> rfl

theorem andO_some_andO (a b : Bool) (y : Option Bool) :
    andO (some a) (andO (some b) y) = andO (some (a && b)) y := by
  cases a <;> cases b <;> rfl

@[simp] theorem andO_true_left (x : Option Bool) : andO (some true) x = x := rfl

theorem allO_total (l : List Bool) : allO (l.map some) = some (l.all id) := by
  induction l with
  | nil => rfl
  | cons a t ih => simp [allO, ih]

/-- when every element is defined, `allO` is the conjunction -/
theorem allO_of_isSome (l : List (Option Bool)) (h : ∀ x ∈ l, x.isSome) :
    allO l = some (l.all fun x => x == some true) := by
  induction l with
  | nil => rfl
  | cons a t ih =>
    have ha := h a (by simp)
    have iht := ih (fun x hx => h x (by simp [hx]))
    cases a with
    | none => simp at ha
    | some b => cases b <;> simp [allO, iht, andO]

/-- `allO` stops (`none`) only on an undefined element -/
theorem allO_none (l : List (Option Bool)) (h : allO l = none) : none ∈ l := by
  induction l with
  | nil => simp [allO] at h
  | cons a t ih =>
    cases a with
    | none => simp
    | some b =>
      cases b with
      | true => simp only [allO, andO_true_left] at h; simp [ih h]
      | false => simp [allO, andO] at h

/-! ## evaluation of the combinators -/

@[simp] theorem eval_none (r : Rec) : Pred.eval none r = some true := rfl
@[simp] theorem eval_some (f : PFun) (r : Rec) : Pred.eval (some f) r = f r := rfl
@[simp] theorem eval_pure (f : Rec → Bool) (r : Rec) : (pure f).eval r = some (f r) := rfl
@[simp] theorem tot_apply (f : Rec → Bool) (r : Rec) : tot f r = some (f r) := rfl

theorem eval_and (p q : Pred) (r : Rec) : (p.and q).eval r = andO (p.eval r) (q.eval r) := by
  cases p with
  | none => simp [Pred.and]
  | some f =>
    cases q with
    | none => simp [Pred.and, andO_true_right]
    | some g =>
      show (match f r with | some true => g r | x => x) = andO (f r) (g r)
      cases f r with
      | none => rfl
      | some b => cases b <;> rfl

theorem eval_not (p : Pred) (r : Rec) : p.not.eval r = (p.eval r).map (!·) := by
  cases p <;> rfl

theorem eval_foldl_and (t : List PFun) (acc : Pred) (r : Rec) :
    (t.foldl (fun acc q => Pred.and acc (some q)) acc).eval r
      = andO (acc.eval r) (allO (t.map (· r))) := by
  induction t generalizing acc with
  | nil => simp [allO, andO_true_right]
  | cons q t ih => simp only [List.foldl_cons, ih, eval_and, eval_some, List.map_cons, allO, andO_assoc]

theorem eval_andAll (l : List PFun) (r : Rec) : (andAll l).eval r = allO (l.map (· r)) := by
  cases l with
  | nil => rfl
  | cons p t => simp only [andAll, eval_foldl_and, eval_some, List.map_cons, allO]

theorem eval_andAll_tot (l : List (Rec → Bool)) (r : Rec) :
    (andAll (l.map tot)).eval r = some (l.all (· r)) := by
  rw [eval_andAll]
  have : (l.map tot).map (· r) = (l.map (· r)).map some := by simp [List.map_map, Function.comp_def]
  rw [this, allO_total]; simp [List.all_map]

theorem or_some_some (p q : PFun) :
    Pred.or (some p) (some q) = some (fun r => match p r with | some false => q r | x => x) := rfl

theorem eval_foldl_or (t : List (Rec → Bool)) (acc : PFun) (b : Bool) (r : Rec) (h : acc r = some b) :
    ((t.map tot).foldl (fun acc q => Pred.or acc (some q)) (some acc)).eval r
      = some (b || t.any (· r)) := by
  induction t generalizing acc b with
  | nil => simp [h]
  | cons g t ih =>
    rw [List.map_cons, List.foldl_cons, or_some_some]
    rw [ih (fun r => match acc r with | some false => tot g r | x => x) (b || g r)]
    · simp [Bool.or_assoc]
    · show (match acc r with | some false => tot g r | x => x) = _
      rw [h]; cases b <;> rfl

/-- a non-empty `Or` chain of total predicates -/
theorem eval_orAll_tot (l : List (Rec → Bool)) (r : Rec) :
    (orAll (l.map tot)).eval r = some (l.isEmpty || l.any (· r)) := by
  cases l with
  | nil => rfl
  | cons f t =>
    simp only [List.map_cons, orAll]
    rw [eval_foldl_or t (tot f) (f r) r rfl]; simp

/-! ## the criteria, family by family -/

def sizeHolds (o : GrepOpts) (r : Rec) : Bool :=
  (!decide (o.minLength > 0) || decide (r.len ≥ o.minLength)) &&
  (!decide (o.maxLength ≠ 2000000000) || decide (r.len ≤ o.maxLength))

def countHolds (o : GrepOpts) (r : Rec) : Bool :=
  (!decide (o.minCount > 0) || decide (r.count ≥ o.minCount)) &&
  (!decide (o.maxCount ≠ 2000000000) || decide (r.count ≤ o.maxCount))

/-- the guard on the minimum length loses nothing: whatever the value of `-l` -/
theorem sizeHolds_exact (o : GrepOpts) (r : Rec) :
    sizeHolds o r = (decide (r.len ≥ o.minLength) &&
      (!decide (o.maxLength ≠ 2000000000) || decide (r.len ≤ o.maxLength))) := by
  unfold sizeHolds
  have hl : (0 : Int) ≤ r.len := by unfold Rec.len; omega
  by_cases h : o.minLength > 0
  · simp [h]
  · have : o.minLength ≤ r.len := by omega
    simp [h, this]

/-- same for the minimum count on records whose count is not negative -/
theorem countHolds_exact (o : GrepOpts) (r : Rec) (hc : 0 ≤ r.count) :
    countHolds o r = (decide (r.count ≥ o.minCount) &&
      (!decide (o.maxCount ≠ 2000000000) || decide (r.count ≤ o.maxCount))) := by
  unfold countHolds
  by_cases h : o.minCount > 0
  · simp [h]
  · have : o.minCount ≤ r.count := by omega
    simp [h, this]

/-- one `--restrict-to-taxon` argument -/
def taxonHolds (O : Oracles) (s : String) (r : Rec) : Bool :=
  match s.toInt? with
  | some t => O.subCladeOf t r
  | none => O.subCladeOfSlot s r

/-- every required rank is defined; the taxon is under one of the `--restrict-to-taxon` (if any) and
under none of the `--ignore-taxon` -/
def taxonomyHolds (O : Oracles) (o : GrepOpts) (r : Rec) : Bool :=
  o.requiredRanks.all (fun k => O.hasRank k r) &&
  (o.belongTaxa.isEmpty || o.belongTaxa.any (fun s => taxonHolds O s r)) &&
  !(o.notBelongTaxa.any fun t => O.subCladeOf t r)

def seqPatternsHold (O : Oracles) (o : GrepOpts) (r : Rec) : Bool :=
  o.seqPatterns.all fun p => O.matchRe ("(?i)" ++ p) r.seq

def defPatternsHold (O : Oracles) (o : GrepOpts) (r : Rec) : Bool :=
  o.defPatterns.all fun p => O.matchRe p (bytes r.definition)

def idPatternsHold (O : Oracles) (o : GrepOpts) (r : Rec) : Bool :=
  o.idPatterns.all fun p => O.matchRe p (bytes r.id)

def idListHolds (o : GrepOpts) (r : Rec) : Bool :=
  match o.idList with
  | none => true
  | some ids => ids.contains r.id

def hasAttributesHold (o : GrepOpts) (r : Rec) : Bool :=
  o.requiredAttrs.all fun k => (r.attrs.lookup k).isSome

/-- every `-a key=pattern`: the attribute exists and its printed value matches -/
def attrPatternsHold (O : Oracles) (o : GrepOpts) (r : Rec) : Bool :=
  o.attrPatterns.all fun kp =>
    match r.attrs.lookup kp.1 with
    | some v => O.matchRe kp.2 (bytes v.shown)
    | none => false

def approxPatternsHold (O : Oracles) (o : GrepOpts) (r : Rec) : Bool :=
  o.approxPatterns.all fun p => O.apat p o.patternError (!o.patternOnlyForward) o.patternIndel r

/-- the criteria evaluated before the `-p` expressions -/
def selectsPre (O : Oracles) (o : GrepOpts) (r : Rec) : Bool :=
  sizeHolds o r && countHolds o r && taxonomyHolds O o r

/-- the criteria evaluated after the `-p` expressions -/
def selectsPost (O : Oracles) (o : GrepOpts) (r : Rec) : Bool :=
  seqPatternsHold O o r && defPatternsHold O o r && idPatternsHold O o r && idListHolds o r &&
  hasAttributesHold o r && attrPatternsHold O o r && approxPatternsHold O o r

/-- every `-p` expression evaluates to true -/
def expressionsHold (O : Oracles) (o : GrepOpts) (r : Rec) : Bool :=
  o.predicates.all fun e => O.evalBool e r == some true

/-- **the record satisfies every requested criterion** -/
def selects (O : Oracles) (o : GrepOpts) (r : Rec) : Bool :=
  selectsPre O o r && expressionsHold O o r && selectsPost O o r

/-! ## each builder computes its family -/

theorem eval_size (o : GrepOpts) (r : Rec) : (sizePredicate o).eval r = some (sizeHolds o r) := by
  unfold sizePredicate sizeHolds
  split
  · split <;> simp_all [eval_and]
  · split <;> simp_all

theorem eval_count (o : GrepOpts) (r : Rec) : (countPredicate o).eval r = some (countHolds o r) := by
  unfold countPredicate countHolds
  split
  · split <;> simp_all [eval_and]
  · split <;> simp_all

theorem taxonPred_eq (O : Oracles) (s : String) : taxonPred O s = tot (taxonHolds O s) := by
  unfold taxonPred taxonHolds
  cases s.toInt? <;> rfl

theorem eval_taxonomy (O : Oracles) (o : GrepOpts) (r : Rec) :
    (taxonomyPredicate O o).eval r = some (taxonomyHolds O o r) := by
  unfold taxonomyPredicate taxonomyHolds
  rw [eval_and, eval_and]
  have h1 : (hasRankPredicate O o).eval r = some (o.requiredRanks.all fun k => O.hasRank k r) := by
    unfold hasRankPredicate
    have := eval_andAll_tot (o.requiredRanks.map fun k => O.hasRank k) r
    simpa [List.map_map, Function.comp_def, List.all_map] using this
  have h2 : (restrictTaxonomyPredicate O o).eval r
      = some (o.belongTaxa.isEmpty || o.belongTaxa.any fun s => taxonHolds O s r) := by
    unfold restrictTaxonomyPredicate
    have e : o.belongTaxa.map (taxonPred O) = (o.belongTaxa.map (taxonHolds O)).map tot := by
      simp [List.map_map, Function.comp_def, taxonPred_eq]
    rw [e, eval_orAll_tot]; simp [List.any_map, Function.comp_def]
  have h3 : (avoidTaxonomyPredicate O o).eval r = some (!(o.notBelongTaxa.any fun t => O.subCladeOf t r)) := by
    unfold avoidTaxonomyPredicate
    cases o.notBelongTaxa with
    | nil => simp
    | cons a t =>
      have e : ((a :: t).map fun t => tot (O.subCladeOf t)) = ((a :: t).map fun t => O.subCladeOf t).map tot := by
        simp [List.map_map, Function.comp_def]
      simp only [eval_not]
      rw [e, eval_orAll_tot]; simp [List.any_map, Function.comp_def]
  rw [h1, h2, h3]; simp

theorem eval_expressions (O : Oracles) (o : GrepOpts) (r : Rec) :
    (expressionPredicate O o).eval r = allO (o.predicates.map fun e => O.evalBool e r) := by
  unfold expressionPredicate
  rw [eval_andAll]; simp [List.map_map, Function.comp_def]

theorem eval_andAll_map {α : Type} (l : List α) (g : α → Rec → Bool) (r : Rec) :
    (andAll (l.map fun a => tot (g a))).eval r = some (l.all fun a => g a r) := by
  have := eval_andAll_tot (l.map g) r
  simpa [List.map_map, Function.comp_def, List.all_map] using this

theorem eval_seqPatterns (O : Oracles) (o : GrepOpts) (r : Rec) :
    (seqPatternPredicate O o).eval r = some (seqPatternsHold O o r) :=
  eval_andAll_map o.seqPatterns (fun p r => O.matchRe ("(?i)" ++ p) r.seq) r

theorem eval_defPatterns (O : Oracles) (o : GrepOpts) (r : Rec) :
    (defPatternPredicate O o).eval r = some (defPatternsHold O o r) :=
  eval_andAll_map o.defPatterns (fun p r => O.matchRe p (bytes r.definition)) r

theorem eval_idPatterns (O : Oracles) (o : GrepOpts) (r : Rec) :
    (idPatternPredicate O o).eval r = some (idPatternsHold O o r) :=
  eval_andAll_map o.idPatterns (fun p r => O.matchRe p (bytes r.id)) r

theorem eval_idList (o : GrepOpts) (r : Rec) : (idListPredicate o).eval r = some (idListHolds o r) := by
  unfold idListPredicate idListHolds
  cases o.idList <;> rfl

theorem eval_hasAttributes (o : GrepOpts) (r : Rec) :
    (hasAttributePredicate o).eval r = some (hasAttributesHold o r) :=
  eval_andAll_map o.requiredAttrs (fun k r => hasAttr k r) r

theorem eval_attrPatterns (O : Oracles) (o : GrepOpts) (r : Rec) :
    (attrMatchPredicate O o).eval r = some (attrPatternsHold O o r) := by
  unfold attrMatchPredicate attrPatternsHold
  have h : ∀ (l : List (String × String)) (acc : Pred),
      l.foldl (fun acc kp => Pred.and acc (some (tot (attrMatch O kp.1 kp.2)))) acc
        = (l.map fun kp => tot (attrMatch O kp.1 kp.2)).foldl (fun acc q => Pred.and acc (some q)) acc := by
    intro l acc; rw [List.foldl_map]
  rw [h, eval_foldl_and]
  have : ((o.attrPatterns.map fun kp => tot (attrMatch O kp.1 kp.2)).map (· r))
      = (o.attrPatterns.map fun kp => attrMatch O kp.1 kp.2 r).map some := by
    simp [List.map_map, Function.comp_def]
  rw [this, allO_total]
  simp only [eval_none, andO_true_left, List.all_map]
  congr 1

theorem eval_agrep (O : Oracles) (o : GrepOpts) (r : Rec) :
    (agrepPredicate O o).eval r = some (approxPatternsHold O o r) :=
  eval_andAll_map o.approxPatterns
    (fun p r => O.apat p o.patternError (!o.patternOnlyForward) o.patternIndel r) r

/-- the whole cascade of `CLISequenceSelectionPredicate` -/
theorem eval_cli (O : Oracles) (o : GrepOpts) (r : Rec) :
    (cliPredicate O o).eval r
      = (if o.invert then Option.map (!·) else id)
          (andO (some (selectsPre O o r))
            (andO (allO (o.predicates.map fun e => O.evalBool e r)) (some (selectsPost O o r)))) := by
  have h : ∀ p : Pred, (if o.invert then p.not else p).eval r
      = (if o.invert then Option.map (!·) else id) (p.eval r) := by
    intro p; split <;> simp [eval_not]
  unfold cliPredicate
  simp only [h, eval_and, eval_size, eval_count, eval_taxonomy, eval_expressions, eval_seqPatterns,
    eval_defPatterns, eval_idPatterns, eval_idList, eval_hasAttributes, eval_attrPatterns, eval_agrep,
    andO_assoc]
  congr 1
  unfold selectsPre selectsPost
  simp only [andO_some_andO, andO_some_some, Bool.and_assoc]

/-! ## paired modes -/

/-- the documented meaning of the six `--paired-mode` values, as a table on (forward verdict,
reverse verdict) -/
def truthTable : Mode → Bool → Bool → Bool
  | .forward, a, _ => a
  | .reverse, _, b => b
  | .and, true, true => true
  | .and, _, _ => false
  | .or, false, false => false
  | .or, _, _ => true
  | .andnot, true, false => true
  | .andnot, _, _ => false
  | .xor, true, false => true
  | .xor, false, true => true
  | .xor, _, _ => false

theorem pairedFun_some (m : Mode) (f : PFun) (r q : Rec) (a b : Bool) (ha : f r = some a) (hb : f q = some b) :
    pairedFun m f r (some q) = some (if m = .forward then a else combine m a b) := by
  unfold pairedFun
  rw [ha]
  by_cases hm : m = .forward
  · simp [hm]
  · simp [hm, hb]

end ObiVerif.Grep
