import ObiVerif.Lemmas.FlatContent
import ObiVerif.Lemmas.EmblContent
/-!
# GenBank: the record the parser returns is the record the entry's own text implies (property C01)

`GbEntry` = the source text of one GenBank entry with an `ORIGIN` block: the `LOCUS` line; the entry part
(`SOURCE` lines and other lines such as `ACCESSION`, `VERSION`, `  ORGANISM`, `REFERENCE` …) with at most one
`DEFINITION` line followed by its continuation lines (12 blanks); the `FEATURES` line and the lines of the
feature table; the `ORIGIN` line, the sequence lines (a 10-byte position field, up to six blank-separated
groups), `//`, optional blank lines.  `GbEntry.record` = what that text says: identifier = `LOCUS` value up
to the first blank, definition = the trimmed `DEFINITION` value and continuation values joined by one blank,
scientific name = trimmed value of the (last) `SOURCE` line, taxid = the value of the (last)
`/db_xref="taxon:` qualifier of the feature table or 1, sequence = the groups of the sequence lines
(position field and blanks dropped) lower-cased, feature table (if requested) = the `FEATURES` line and the
feature lines joined by `\n`.  `gbRun_entries`: `GenbankChunkParser`'s line machine returns exactly these
records, without any fatal error, whatever the neighbours.  Entries with a `CONTIG` block instead of
`ORIGIN` are not covered by the content theorem (record locality covers them).
-/
namespace ObiVerif.Parse
open ObiVerif.Chunk

/-- the line starts with none of the keys the parser dispatches on and is not `//` -/
def GbNoKey (l : Seq) : Prop :=
  hasPrefix gbLOCUS l = false ∧ hasPrefix gbDEFINITION l = false ∧ hasPrefix gbSOURCE l = false ∧
  hasPrefix gbFEATURES l = false ∧ hasPrefix gbORIGIN l = false ∧ hasPrefix gbCONTIG l = false ∧ l ≠ slashes

instance decGbNoKey (l : Seq) : Decidable (GbNoKey l) := by unfold GbNoKey; infer_instance

/-- a line of the entry part -/
inductive GbHead where
  /-- `SOURCE      ` ++ v -/
  | source (v : Seq)
  /-- any line without key: `ACCESSION   …`, `  ORGANISM  …`, a continuation line, … -/
  | other (l : Seq)

namespace GbHead
def line : GbHead → Seq
  | .source v => gbSOURCE ++ v
  | .other l => l
def OK : GbHead → Prop
  | .source v => NoEol v
  | .other l => NoEol l ∧ GbNoKey l
instance decOK (it : GbHead) : Decidable it.OK := by cases it <;> unfold OK <;> infer_instance
def sourceVal? : GbHead → Option Seq
  | .source v => some (trimSpace v)
  | .other _ => none
end GbHead

/-- a sequence line: the 10-byte position field, groups each followed by a blank, the last group -/
structure GbSeqLine where
  pfx : Seq
  groups : List Seq
  last : Seq

namespace GbSeqLine
def line (q : GbSeqLine) : Seq := q.pfx ++ (groupsText q.groups ++ q.last)
def OK (q : GbSeqLine) : Prop :=
  q.pfx.length = 10 ∧ NoEol q.pfx ∧ (∀ g ∈ q.groups, NoBlank g ∧ NoEol g) ∧ q.groups.length ≤ 5 ∧
  NoBlank q.last ∧ NoEol q.last ∧ GbNoKey q.line
instance decOK (q : GbSeqLine) : Decidable q.OK := by unfold OK; infer_instance
def nucs (q : GbSeqLine) : Seq := q.groups.flatten ++ q.last
end GbSeqLine

structure GbEntry where
  /-- the `LOCUS` line after the 12-byte key -/
  locusRest : Seq
  /-- entry part before the `DEFINITION` line -/
  pre : List GbHead
  /-- value of the `DEFINITION` line and of its continuation lines -/
  defn : Option (Seq × List Seq)
  /-- entry part after the definition -/
  post : List GbHead
  /-- the `FEATURES` line after the 12-byte key -/
  featRest : Seq
  /-- the lines of the feature table -/
  feats : List Seq
  /-- the `ORIGIN` line after the key -/
  originRest : Seq
  seqs : List GbSeqLine
  /-- blank lines after the `//` line -/
  blanks : Nat := 0

namespace GbEntry

def defLines : Option (Seq × List Seq) → List Seq
  | none => []
  | some (v, cs) => (gbDEFINITION ++ v) :: cs.map (gbCONT ++ ·)

def lines (e : GbEntry) : List Seq :=
  (gbLOCUS ++ e.locusRest) :: (e.pre.map GbHead.line ++ (defLines e.defn ++ (e.post.map GbHead.line ++
    ((gbFEATURES ++ e.featRest) :: (e.feats ++ ((gbORIGIN ++ e.originRest) :: (e.seqs.map GbSeqLine.line ++
      (slashes :: List.replicate e.blanks []))))))))

def OK (e : GbEntry) : Prop :=
  NoEol e.locusRest ∧ (∀ it ∈ e.pre, it.OK) ∧
  (∀ p, e.defn = some p → NoEol p.1 ∧ (∀ c ∈ p.2, NoEol c) ∧
    -- the line after the definition is not one more continuation line
    ∀ it, e.post.head? = some it → hasPrefix gbCONT it.line = false) ∧
  (∀ it ∈ e.post, it.OK) ∧ NoEol e.featRest ∧ (∀ l ∈ e.feats, NoEol l ∧ GbNoKey l) ∧ NoEol e.originRest ∧
  (∀ q ∈ e.seqs, q.OK) ∧ ∀ l ∈ e.lines, l.length ≤ 100

def taxon? (l : Seq) : Option Int := if hasPrefix gbXREF l then some (taxonOf l) else none

/-- **the record the entry's own text implies** -/
def record (wf : Bool) (e : GbEntry) : Rec :=
  flatRec (e.locusRest.takeWhile (· != 32))
    (match e.defn with
     | none => []
     | some (v, cs) => joinSp (trimSpace v :: cs.map trimSpace))
    (e.seqs.flatMap GbSeqLine.nucs)
    ((e.feats.filterMap taxon?).getLast?.getD 1)
    (((e.pre ++ e.post).filterMap GbHead.sourceVal?).getLast?.getD [])
    (if wf then joinNl ((gbFEATURES ++ e.featRest) :: e.feats) else [])

end GbEntry

/-! ## single lines -/

theorem hasPrefix_head_ne (a b : UInt8) (p l : Seq) (h : (b == a) = false) : hasPrefix (a :: p) (b :: l) = false := by
  simp [hasPrefix, List.take_succ_cons, h]

theorem gbLine_short {wf : Bool} {s : GbSt} {l : Seq} (h : l.length ≤ 100) : gbLine wf s l = gbDispatch wf 2 s l := by
  have : ¬ (l.length > 100) := by omega
  simp [gbLine, this]

theorem gbRun_step {wf : Bool} {s s' : GbSt} {l : Seq} (h : gbLine wf s l = .ok (s', none)) (t : List Seq) :
    gbRun wf s (l :: t) = gbRun wf s' t := by
  simp only [gbRun, h]
  cases gbRun wf s' t with
  | error e => rfl
  | ok p => obtain ⟨a, b⟩ := p; simp

/-- a line without key, in a state other than `inDefinition`: only the state-dependent tail of the switch -/
theorem gbDispatch_noKey (wf : Bool) (f : Nat) (s : GbSt) (l : Seq) (h : GbNoKey l) (h2 : (s.state == 2) = false) :
    gbDispatch wf (f + 1) s l =
      if s.state == 4 then
        (if l.length < 10 then .error .panic
         else .ok ({ s with seqB := s.seqB ++ (splitN 32 6 (l.drop 10)).flatten }, none))
      else if s.state == 3 then
        .ok ((let s1 := if wf then { s with featB := s.featB ++ [10] ++ l } else s
              if hasPrefix gbXREF l then { s1 with taxid := taxonOf l } else s1), none)
      else if s.state == 0 || s.state == 1 || s.state == 5 then .ok (s, none)
      else .error .fatal := by
  obtain ⟨k1, k2, k3, k4, k5, k6, k7⟩ := h
  have k7' : (l == slashes) = false := by simpa using k7
  rw [gbDispatch]
  simp only [k1, k2, k3, k4, k5, k6, k7', h2, Bool.false_eq_true, if_false]

/-- `LOCUS` line in state `inHeader` -/
theorem gbLine_locus (wf : Bool) (s : GbSt) (r : Seq) (hs : s.state = 0) (hlen : (gbLOCUS ++ r).length ≤ 100) :
    gbLine wf s (gbLOCUS ++ r) = .ok ({ s with id := r.takeWhile (· != 32), seqB := [], state := 1 }, none) := by
  rw [gbLine_short hlen, gbDispatch]
  have hd : (gbLOCUS ++ r).drop 12 = r := drop_key gbLOCUS r
  simp [hasPrefix_self, hs, hd]

/-- a head line in state `inEntry` -/
def gbHeadApply (s : GbSt) : GbHead → GbSt
  | .source v => { s with sci := trimSpace v }
  | .other _ => s

theorem gbDispatch_head (wf : Bool) (f : Nat) (s : GbSt) (it : GbHead) (hs : s.state = 1) (h : it.OK) :
    gbDispatch wf (f + 1) s it.line = .ok (gbHeadApply s it, none) := by
  cases it with
  | source v =>
    have h1 : hasPrefix gbLOCUS (gbSOURCE ++ v) = false := hasPrefix_ne _ _ _ (by rfl) (by decide)
    have h2 : hasPrefix gbDEFINITION (gbSOURCE ++ v) = false := hasPrefix_ne _ _ _ (by rfl) (by decide)
    have hd : (gbSOURCE ++ v).drop 12 = v := drop_key gbSOURCE v
    rw [GbHead.line, gbDispatch]
    simp [h1, h2, hasPrefix_self, hs, hd, gbHeadApply]
  | other l =>
    rw [GbHead.line, gbDispatch_noKey wf f s l h.2 (by simp [hs])]
    simp [hs, gbHeadApply]

theorem gbHeadApply_state (s : GbSt) (it : GbHead) : (gbHeadApply s it).state = s.state := by
  cases it <;> rfl

theorem gbRun_heads (wf : Bool) : ∀ (items : List GbHead) (s : GbSt) (tail : List Seq), s.state = 1 →
    (∀ it ∈ items, it.OK) → (∀ it ∈ items, it.line.length ≤ 100) →
    gbRun wf s (items.map GbHead.line ++ tail) = gbRun wf (items.foldl gbHeadApply s) tail ∧
    (items.foldl gbHeadApply s).state = 1
  | [], _, _, hs, _, _ => ⟨rfl, hs⟩
  | it :: t, s, tail, hs, h, hl => by
    have step : gbLine wf s it.line = .ok (gbHeadApply s it, none) := by
      rw [gbLine_short (hl it (by simp))]; exact gbDispatch_head wf 1 s it hs (h it (by simp))
    have ih := gbRun_heads wf t (gbHeadApply s it) tail (by rw [gbHeadApply_state, hs])
      (fun x hx => h x (by simp [hx])) (fun x hx => hl x (by simp [hx]))
    simp only [List.map_cons, List.cons_append, List.foldl_cons]
    rw [gbRun_step step]
    exact ih

/-- leaving `inDefinition`: a line that is neither a key line of the first two cases nor a continuation line is
dispatched again in state `inEntry` -/
theorem gbDispatch_leave2 (wf : Bool) (f : Nat) (s : GbSt) (l : Seq) (hs : s.state = 2)
    (h1 : hasPrefix gbLOCUS l = false) (h2 : hasPrefix gbDEFINITION l = false) (h3 : hasPrefix gbCONT l = false) :
    gbDispatch wf (f + 2) s l = gbDispatch wf (f + 1) { s with state := 1 } l := by
  conv => lhs; rw [gbDispatch]
  simp [h1, h2, h3, hs]

/-- `DEFINITION` line in state `inEntry` -/
theorem gbLine_definition (wf : Bool) (s : GbSt) (v : Seq) (hs : s.state = 1) (hlen : (gbDEFINITION ++ v).length ≤ 100) :
    gbLine wf s (gbDEFINITION ++ v) = .ok ({ s with defB := s.defB ++ trimSpace v, state := 2 }, none) := by
  rw [gbLine_short hlen, gbDispatch]
  have h1 : hasPrefix gbLOCUS (gbDEFINITION ++ v) = false := hasPrefix_ne _ _ _ (by rfl) (by decide)
  have hd : (gbDEFINITION ++ v).drop 12 = v := drop_key gbDEFINITION v
  simp [h1, hasPrefix_self, hs, hd]

/-- continuation line in state `inDefinition` -/
theorem gbLine_cont (wf : Bool) (s : GbSt) (c : Seq) (hs : s.state = 2) (hlen : (gbCONT ++ c).length ≤ 100) :
    gbLine wf s (gbCONT ++ c) = .ok ({ s with defB := s.defB ++ [32] ++ trimSpace c }, none) := by
  rw [gbLine_short hlen, gbDispatch]
  have h1 : hasPrefix gbLOCUS (gbCONT ++ c) = false := hasPrefix_ne _ _ _ (by rfl) (by decide)
  have h2 : hasPrefix gbDEFINITION (gbCONT ++ c) = false := hasPrefix_ne _ _ _ (by rfl) (by decide)
  have hd : (gbCONT ++ c).drop 12 = c := drop_key gbCONT c
  simp [h1, h2, hasPrefix_self, hs, hd]

theorem gbRun_conts (wf : Bool) : ∀ (cs : List Seq) (s : GbSt) (tail : List Seq), s.state = 2 →
    (∀ c ∈ cs, (gbCONT ++ c).length ≤ 100) →
    gbRun wf s (cs.map (gbCONT ++ ·) ++ tail) =
      gbRun wf { s with defB := s.defB ++ cs.flatMap (fun c => 32 :: trimSpace c) } tail
  | [], s, tail, _, _ => by simp
  | c :: t, s, tail, hs, hl => by
    simp only [List.map_cons, List.cons_append, List.flatMap_cons]
    rw [gbRun_step (gbLine_cont wf s c hs (hl c (by simp)))]
    have ih := gbRun_conts wf t { s with defB := s.defB ++ [32] ++ trimSpace c } tail hs
      (fun x hx => hl x (by simp [hx]))
    rw [ih]
    simp

/-- `FEATURES` line in state `inEntry` -/
theorem gbDispatch_features (wf : Bool) (f : Nat) (s : GbSt) (r : Seq) (hs : s.state = 1) :
    gbDispatch wf (f + 1) s (gbFEATURES ++ r) = .ok ({ s with featB := s.featB ++ (gbFEATURES ++ r), state := 3 }, none) := by
  rw [gbDispatch]
  have h1 : hasPrefix gbLOCUS (gbFEATURES ++ r) = false := hasPrefix_ne _ _ _ (by rfl) (by decide)
  have h2 : hasPrefix gbDEFINITION (gbFEATURES ++ r) = false := hasPrefix_ne _ _ _ (by rfl) (by decide)
  have h3 : hasPrefix gbSOURCE (gbFEATURES ++ r) = false := hasPrefix_ne _ _ _ (by rfl) (by decide)
  simp [h1, h2, h3, hasPrefix_self, hs]

/-- a line of the feature table in state `inFeature` -/
def gbFeatApply (wf : Bool) (s : GbSt) (l : Seq) : GbSt :=
  let s1 := if wf then { s with featB := s.featB ++ [10] ++ l } else s
  if hasPrefix gbXREF l then { s1 with taxid := taxonOf l } else s1

theorem gbFeatApply_state (wf : Bool) (s : GbSt) (l : Seq) : (gbFeatApply wf s l).state = s.state := by
  unfold gbFeatApply; cases wf <;> simp only <;> split <;> rfl

theorem gbRun_feats (wf : Bool) : ∀ (ls : List Seq) (s : GbSt) (tail : List Seq), s.state = 3 →
    (∀ l ∈ ls, GbNoKey l) → (∀ l ∈ ls, l.length ≤ 100) →
    gbRun wf s (ls ++ tail) = gbRun wf (ls.foldl (gbFeatApply wf) s) tail ∧ (ls.foldl (gbFeatApply wf) s).state = 3
  | [], _, _, hs, _, _ => ⟨rfl, hs⟩
  | l :: t, s, tail, hs, h, hl => by
    have step : gbLine wf s l = .ok (gbFeatApply wf s l, none) := by
      rw [gbLine_short (hl l (by simp)), gbDispatch_noKey wf 1 s l (h l (by simp)) (by simp [hs])]
      simp [hs, gbFeatApply]
    have ih := gbRun_feats wf t (gbFeatApply wf s l) tail (by rw [gbFeatApply_state, hs])
      (fun x hx => h x (by simp [hx])) (fun x hx => hl x (by simp [hx]))
    simp only [List.cons_append, List.foldl_cons]
    rw [gbRun_step step]
    exact ih

/-- `ORIGIN` line in state `inFeature` -/
theorem gbLine_origin (wf : Bool) (s : GbSt) (r : Seq) (hs : s.state = 3) (hlen : (gbORIGIN ++ r).length ≤ 100) :
    gbLine wf s (gbORIGIN ++ r) = .ok ({ s with state := 4 }, none) := by
  rw [gbLine_short hlen, gbDispatch]
  have h1 : hasPrefix gbLOCUS (gbORIGIN ++ r) = false := hasPrefix_head_ne 76 79 _ _ (by decide)
  have h2 : hasPrefix gbDEFINITION (gbORIGIN ++ r) = false := hasPrefix_head_ne 68 79 _ _ (by decide)
  have h3 : hasPrefix gbSOURCE (gbORIGIN ++ r) = false := hasPrefix_head_ne 83 79 _ _ (by decide)
  have h4 : hasPrefix gbFEATURES (gbORIGIN ++ r) = false := hasPrefix_head_ne 70 79 _ _ (by decide)
  simp [h1, h2, h3, h4, hasPrefix_self, hs]

/-- sequence lines in state `inSequence` -/
theorem gbRun_seqs (wf : Bool) : ∀ (qs : List GbSeqLine) (s : GbSt) (tail : List Seq), s.state = 4 →
    (∀ q ∈ qs, q.OK) → (∀ q ∈ qs, q.line.length ≤ 100) →
    gbRun wf s (qs.map GbSeqLine.line ++ tail) =
      gbRun wf { s with seqB := s.seqB ++ qs.flatMap GbSeqLine.nucs } tail
  | [], s, tail, _, _, _ => by simp
  | q :: t, s, tail, hs, h, hl => by
    obtain ⟨hp, _, hg, hn, hlast, _, hkey⟩ := h q (by simp)
    have hdrop : q.line.drop 10 = groupsText q.groups ++ q.last := by
      unfold GbSeqLine.line; rw [← hp]; exact drop_key _ _
    have hlen10 : ¬ (q.line.length < 10) := by
      unfold GbSeqLine.line; rw [List.length_append]; omega
    have step : gbLine wf s q.line = .ok ({ s with seqB := s.seqB ++ q.nucs }, none) := by
      rw [gbLine_short (hl q (by simp)), gbDispatch_noKey wf 1 s q.line hkey (by simp [hs])]
      rw [hdrop, splitN_groups q.groups 6 q.last (fun g hgm => (hg g hgm).1) hlast (by omega)]
      simp [hs, hlen10, GbSeqLine.nucs]
    simp only [List.map_cons, List.cons_append, List.flatMap_cons]
    rw [gbRun_step step]
    have ih := gbRun_seqs wf t { s with seqB := s.seqB ++ q.nucs } tail hs
      (fun x hx => h x (by simp [hx])) (fun x hx => hl x (by simp [hx]))
    rw [ih]
    simp

/-- `//` in state `inSequence` -/
theorem gbLine_end (wf : Bool) (s : GbSt) (hs : s.state = 4) :
    gbLine wf s slashes =
      .ok ({ s with defB := [], featB := [], sci := [], taxid := 1, state := 0 },
           some (flatRec s.id s.defB s.seqB s.taxid s.sci (if wf then s.featB else []))) := by
  have hl : slashes.length ≤ 100 := by decide
  rw [gbLine_short hl, gbDispatch]
  have h1 : hasPrefix gbLOCUS slashes = false := by decide
  have h2 : hasPrefix gbDEFINITION slashes = false := by decide
  have h3 : hasPrefix gbSOURCE slashes = false := by decide
  have h4 : hasPrefix gbFEATURES slashes = false := by decide
  have h5 : hasPrefix gbORIGIN slashes = false := by decide
  have h6 : hasPrefix gbCONTIG slashes = false := by decide
  simp [h1, h2, h3, h4, h5, h6, hs]

/-- blank line in state `inHeader` -/
theorem gbLine_blank0 (wf : Bool) (s : GbSt) (hs : s.state = 0) : gbLine wf s [] = .ok (s, none) := by
  have hl : ([] : Seq).length ≤ 100 := by decide
  have hk : GbNoKey [] := by refine ⟨?_, ?_, ?_, ?_, ?_, ?_, ?_⟩ <;> decide
  rw [gbLine_short hl, gbDispatch_noKey wf 1 s [] hk (by simp [hs])]
  simp [hs]

/-! ## fields after the folds -/

theorem headFold_sci : ∀ (items : List GbHead) (s : GbSt),
    (items.foldl gbHeadApply s).sci = (items.filterMap GbHead.sourceVal?).getLast?.getD s.sci
  | [], _ => rfl
  | it :: t, s => by
    rw [List.foldl_cons, headFold_sci t]
    cases it with
    | source v => simp only [List.filterMap_cons, GbHead.sourceVal?, getLast_cons_getD, gbHeadApply]
    | other l => rfl

theorem headFold_rest : ∀ (items : List GbHead) (s : GbSt),
    (items.foldl gbHeadApply s).id = s.id ∧ (items.foldl gbHeadApply s).defB = s.defB ∧
    (items.foldl gbHeadApply s).featB = s.featB ∧ (items.foldl gbHeadApply s).seqB = s.seqB ∧
    (items.foldl gbHeadApply s).taxid = s.taxid
  | [], _ => ⟨rfl, rfl, rfl, rfl, rfl⟩
  | it :: t, s => by
    rw [List.foldl_cons]
    have := headFold_rest t (gbHeadApply s it)
    cases it <;> exact this

theorem featFold_taxid (wf : Bool) : ∀ (ls : List Seq) (s : GbSt),
    (ls.foldl (gbFeatApply wf) s).taxid = (ls.filterMap GbEntry.taxon?).getLast?.getD s.taxid
  | [], _ => rfl
  | l :: t, s => by
    rw [List.foldl_cons, featFold_taxid wf t]
    simp only [List.filterMap_cons, GbEntry.taxon?, gbFeatApply]
    cases hx : hasPrefix gbXREF l with
    | true => simp only [if_true, getLast_cons_getD]
    | false => cases wf <;> rfl

theorem featFold_feat : ∀ (ls : List Seq) (s : GbSt),
    (ls.foldl (gbFeatApply true) s).featB = s.featB ++ ls.flatMap (10 :: ·) ∧
    (ls.foldl (gbFeatApply false) s).featB = s.featB
  | [], _ => ⟨by simp, rfl⟩
  | l :: t, s => by
    rw [List.foldl_cons, List.foldl_cons, (featFold_feat t _).1, (featFold_feat t _).2]
    constructor
    · simp only [gbFeatApply, if_true]
      split <;> simp
    · simp only [gbFeatApply, Bool.false_eq_true, if_false]
      split <;> rfl

theorem featFold_rest (wf : Bool) : ∀ (ls : List Seq) (s : GbSt),
    (ls.foldl (gbFeatApply wf) s).id = s.id ∧ (ls.foldl (gbFeatApply wf) s).defB = s.defB ∧
    (ls.foldl (gbFeatApply wf) s).sci = s.sci ∧ (ls.foldl (gbFeatApply wf) s).seqB = s.seqB
  | [], _ => ⟨rfl, rfl, rfl, rfl⟩
  | l :: t, s => by
    rw [List.foldl_cons]
    have := featFold_rest wf t (gbFeatApply wf s l)
    have e : (gbFeatApply wf s l).id = s.id ∧ (gbFeatApply wf s l).defB = s.defB ∧
        (gbFeatApply wf s l).sci = s.sci ∧ (gbFeatApply wf s l).seqB = s.seqB := by
      unfold gbFeatApply; cases wf <;> simp only <;> split <;> exact ⟨rfl, rfl, rfl, rfl⟩
    rw [this.1, this.2.1, this.2.2.1, this.2.2.2]
    exact e

/-! ## one entry -/

/-- state at a record start: `inHeader`, accumulators reset (`id` and the sequence buffer are dead there) -/
def GbFresh (s : GbSt) : Prop := s.state = 0 ∧ s.defB = [] ∧ s.featB = [] ∧ s.sci = [] ∧ s.taxid = 1

def gbEmit (r : Rec) : Except Fatal (GbSt × List Rec) → Except Fatal (GbSt × List Rec)
  | .error x => .error x
  | .ok (sT, rs) => .ok (sT, r :: rs)

theorem gbRun_emit {wf : Bool} {s s' : GbSt} {l : Seq} {r : Rec} (h : gbLine wf s l = .ok (s', some r)) (t : List Seq) :
    gbRun wf s (l :: t) = gbEmit r (gbRun wf s' t) := by
  simp only [gbRun, h]
  cases gbRun wf s' t with
  | error e => rfl
  | ok p => obtain ⟨a, b⟩ := p; rfl

theorem gbRun_blanks0 (wf : Bool) (n : Nat) (s : GbSt) (hs : s.state = 0) (tail : List Seq) :
    gbRun wf s (List.replicate n [] ++ tail) = gbRun wf s tail := by
  induction n with
  | zero => rfl
  | succ k ih =>
    simp only [List.replicate_succ, List.cons_append]
    rw [gbRun_step (gbLine_blank0 wf s hs), ih]

def featState (s : GbSt) (r : Seq) : GbSt := { s with featB := s.featB ++ (gbFEATURES ++ r), state := 3 }

theorem gbRun_post1 (wf : Bool) (post : List GbHead) (s : GbSt) (r : Seq) (tail : List Seq) (hs : s.state = 1)
    (hok : ∀ it ∈ post, it.OK) (hl : ∀ it ∈ post, it.line.length ≤ 100) (hlf : (gbFEATURES ++ r).length ≤ 100) :
    gbRun wf s (post.map GbHead.line ++ (gbFEATURES ++ r) :: tail) =
      gbRun wf (featState (post.foldl gbHeadApply s) r) tail := by
  obtain ⟨h1, h2⟩ := gbRun_heads wf post s ((gbFEATURES ++ r) :: tail) hs hok hl
  rw [h1]
  apply gbRun_step
  rw [gbLine_short hlf]
  exact gbDispatch_features wf 1 _ r h2

theorem gbRun_post2 (wf : Bool) (post : List GbHead) (s : GbSt) (r : Seq) (tail : List Seq) (hs : s.state = 2)
    (hok : ∀ it ∈ post, it.OK) (hl : ∀ it ∈ post, it.line.length ≤ 100) (hlf : (gbFEATURES ++ r).length ≤ 100)
    (hhead : ∀ it, post.head? = some it → hasPrefix gbCONT it.line = false) :
    gbRun wf s (post.map GbHead.line ++ (gbFEATURES ++ r) :: tail) =
      gbRun wf (featState (post.foldl gbHeadApply { s with state := 1 }) r) tail := by
  cases post with
  | nil =>
    simp only [List.map_nil, List.nil_append, List.foldl_nil]
    apply gbRun_step
    rw [gbLine_short hlf, gbDispatch_leave2 wf 0 s _ hs (hasPrefix_ne _ _ _ (by rfl) (by decide))
      (hasPrefix_ne _ _ _ (by rfl) (by decide)) (hasPrefix_ne _ _ _ (by rfl) (by decide))]
    exact gbDispatch_features wf 0 _ r rfl
  | cons it t =>
    have hc := hhead it rfl
    have hk : hasPrefix gbLOCUS it.line = false ∧ hasPrefix gbDEFINITION it.line = false := by
      cases it with
      | source v => exact ⟨hasPrefix_ne _ _ _ (by rfl) (by decide), hasPrefix_ne _ _ _ (by rfl) (by decide)⟩
      | other l =>
        obtain ⟨_, k⟩ := hok (.other l) (by simp)
        exact ⟨k.1, k.2.1⟩
    have step : gbLine wf s it.line = .ok (gbHeadApply { s with state := 1 } it, none) := by
      rw [gbLine_short (hl it (by simp)), gbDispatch_leave2 wf 0 s _ hs hk.1 hk.2 hc]
      exact gbDispatch_head wf 0 _ it rfl (hok it (by simp))
    simp only [List.map_cons, List.cons_append, List.foldl_cons]
    rw [gbRun_step step]
    exact gbRun_post1 wf t _ r tail (by rw [gbHeadApply_state]) (fun x hx => hok x (by simp [hx]))
      (fun x hx => hl x (by simp [hx])) hlf

/-- the accumulators after the `DEFINITION` block (state normalised to `inEntry`) -/
def gbAfterDef (s2 : GbSt) : Option (Seq × List Seq) → GbSt
  | none => s2
  | some (v, cs) =>
    { s2 with defB := s2.defB ++ trimSpace v ++ cs.flatMap (fun c => 32 :: trimSpace c), state := 1 }

/-- the accumulators just before the `//` line -/
def gbBeforeEnd (wf : Bool) (s : GbSt) (e : GbEntry) : GbSt :=
  let s1 : GbSt := { s with id := e.locusRest.takeWhile (· != 32), seqB := [], state := 1 }
  let s3 := gbAfterDef (e.pre.foldl gbHeadApply s1) e.defn
  let s4 := featState (e.post.foldl gbHeadApply s3) e.featRest
  let s5 := e.feats.foldl (gbFeatApply wf) s4
  { s5 with seqB := s5.seqB ++ e.seqs.flatMap GbSeqLine.nucs, state := 4 }

theorem GbEntry.lines_len (e : GbEntry) (hlen : ∀ l ∈ e.lines, l.length ≤ 100) :
    (gbLOCUS ++ e.locusRest).length ≤ 100 ∧ (∀ it ∈ e.pre, it.line.length ≤ 100) ∧
    (∀ l ∈ GbEntry.defLines e.defn, l.length ≤ 100) ∧ (∀ it ∈ e.post, it.line.length ≤ 100) ∧
    (gbFEATURES ++ e.featRest).length ≤ 100 ∧ (∀ l ∈ e.feats, l.length ≤ 100) ∧
    (gbORIGIN ++ e.originRest).length ≤ 100 ∧ (∀ q ∈ e.seqs, q.line.length ≤ 100) := by
  refine ⟨?_, ?_, ?_, ?_, ?_, ?_, ?_, ?_⟩
  · exact hlen _ (by simp [GbEntry.lines])
  · intro it hit; exact hlen _ (by simp only [GbEntry.lines, List.mem_cons, List.mem_append, List.mem_map]; exact Or.inr (Or.inl ⟨it, hit, rfl⟩))
  · intro l hl; exact hlen _ (by simp only [GbEntry.lines, List.mem_cons, List.mem_append]; exact Or.inr (Or.inr (Or.inl hl)))
  · intro it hit; exact hlen _ (by simp only [GbEntry.lines, List.mem_cons, List.mem_append, List.mem_map]; exact Or.inr (Or.inr (Or.inr (Or.inl ⟨it, hit, rfl⟩))))
  · exact hlen _ (by simp only [GbEntry.lines, List.mem_cons, List.mem_append]; exact Or.inr (Or.inr (Or.inr (Or.inr (Or.inl trivial)))))
  · intro l hl; exact hlen _ (by simp only [GbEntry.lines, List.mem_cons, List.mem_append]; exact Or.inr (Or.inr (Or.inr (Or.inr (Or.inr (Or.inl hl))))))
  · exact hlen _ (by simp only [GbEntry.lines, List.mem_cons, List.mem_append]; exact Or.inr (Or.inr (Or.inr (Or.inr (Or.inr (Or.inr (Or.inl trivial)))))))
  · intro q hq; exact hlen _ (by simp only [GbEntry.lines, List.mem_cons, List.mem_append, List.mem_map]; exact Or.inr (Or.inr (Or.inr (Or.inr (Or.inr (Or.inr (Or.inr (Or.inl ⟨q, hq, rfl⟩))))))))

/-- the lines of a well-formed entry, up to `//`, are read without error -/
theorem gbRun_body (wf : Bool) (e : GbEntry) (h : e.OK) (s : GbSt) (hf : s.state = 0) (tail : List Seq) :
    gbRun wf s (e.lines ++ tail) = gbRun wf (gbBeforeEnd wf s e) (slashes :: (List.replicate e.blanks [] ++ tail)) := by
  obtain ⟨_, hpre, hdef, hpost, _, hfeat, _, hseq, hlen⟩ := h
  obtain ⟨l1, l2, l3, l4, l5, l6, l7, l8⟩ := e.lines_len hlen
  unfold GbEntry.lines gbBeforeEnd
  simp only [List.cons_append, List.append_assoc]
  rw [gbRun_step (gbLine_locus wf s e.locusRest hf l1)]
  obtain ⟨hp1, hp2⟩ := gbRun_heads wf e.pre { s with id := e.locusRest.takeWhile (· != 32), seqB := [], state := 1 }
    (GbEntry.defLines e.defn ++ (e.post.map GbHead.line ++ ((gbFEATURES ++ e.featRest) :: (e.feats ++
      ((gbORIGIN ++ e.originRest) :: (e.seqs.map GbSeqLine.line ++ (slashes :: (List.replicate e.blanks [] ++ tail))))))))
    rfl hpre l2
  rw [hp1]
  generalize hs2 : e.pre.foldl gbHeadApply { s with id := e.locusRest.takeWhile (· != 32), seqB := [], state := 1 } = s2 at hp2 ⊢
  -- the definition block and the rest of the entry part, up to the FEATURES line
  have hmid : ∀ tl, gbRun wf s2 (GbEntry.defLines e.defn ++ (e.post.map GbHead.line ++ ((gbFEATURES ++ e.featRest) :: tl))) =
      gbRun wf (featState (e.post.foldl gbHeadApply (gbAfterDef s2 e.defn)) e.featRest) tl := by
    intro tl
    cases hd : e.defn with
    | none =>
      simp only [GbEntry.defLines, List.nil_append, gbAfterDef]
      exact gbRun_post1 wf e.post s2 e.featRest tl hp2 hpost l4 l5
    | some p =>
      obtain ⟨v, cs⟩ := p
      obtain ⟨_, _, hhead⟩ := hdef (v, cs) hd
      rw [hd] at l3
      simp only [GbEntry.defLines, List.cons_append, gbAfterDef]
      rw [gbRun_step (gbLine_definition wf s2 v hp2 (l3 _ (by simp [GbEntry.defLines])))]
      rw [gbRun_conts wf cs _ _ rfl (fun c hc => l3 _ (by simp only [GbEntry.defLines, List.mem_cons, List.mem_map]; exact Or.inr ⟨c, hc, rfl⟩))]
      exact gbRun_post2 wf e.post _ e.featRest tl rfl hpost l4 l5 hhead
  rw [hmid]
  have hs4 : (featState (e.post.foldl gbHeadApply (gbAfterDef s2 e.defn)) e.featRest).state = 3 := rfl
  generalize featState (e.post.foldl gbHeadApply (gbAfterDef s2 e.defn)) e.featRest = s4 at hs4 ⊢
  obtain ⟨hf1, hf2⟩ := gbRun_feats wf e.feats s4
    ((gbORIGIN ++ e.originRest) :: (e.seqs.map GbSeqLine.line ++ (slashes :: (List.replicate e.blanks [] ++ tail))))
    hs4 (fun l hl => (hfeat l hl).2) l6
  rw [hf1]
  generalize e.feats.foldl (gbFeatApply wf) s4 = s5 at hf2 ⊢
  rw [gbRun_step (gbLine_origin wf s5 e.originRest hf2 l7)]
  rw [gbRun_seqs wf e.seqs { s5 with state := 4 } _ rfl hseq l8]

theorem getLast_append_getD {α : Type} : ∀ (a b : List α) (d : α),
    (a ++ b).getLast?.getD d = b.getLast?.getD (a.getLast?.getD d)
  | [], _, _ => rfl
  | x :: a, b, d => by
    rw [List.cons_append, getLast_cons_getD, getLast_append_getD a b x, getLast_cons_getD]

/-- **the accumulators before `//` are what the entry's own text says** -/
theorem gbBeforeEnd_fields (wf : Bool) (e : GbEntry) (s : GbSt) (hf : GbFresh s) :
    (gbBeforeEnd wf s e).state = 4 ∧
    flatRec (gbBeforeEnd wf s e).id (gbBeforeEnd wf s e).defB (gbBeforeEnd wf s e).seqB (gbBeforeEnd wf s e).taxid
      (gbBeforeEnd wf s e).sci (if wf then (gbBeforeEnd wf s e).featB else []) = e.record wf := by
  obtain ⟨_, hd, hfe, hsc, htx⟩ := hf
  refine ⟨rfl, ?_⟩
  have hdefn : ∀ s2 : GbSt, (gbAfterDef s2 e.defn).id = s2.id ∧ (gbAfterDef s2 e.defn).sci = s2.sci ∧
      (gbAfterDef s2 e.defn).featB = s2.featB ∧ (gbAfterDef s2 e.defn).seqB = s2.seqB ∧
      (gbAfterDef s2 e.defn).taxid = s2.taxid := by
    intro s2
    cases e.defn with
    | none => exact ⟨rfl, rfl, rfl, rfl, rfl⟩
    | some p => exact ⟨rfl, rfl, rfl, rfl, rfl⟩
  unfold gbBeforeEnd GbEntry.record
  simp only
  generalize hs1 : ({ s with id := e.locusRest.takeWhile (· != 32), seqB := [], state := 1 } : GbSt) = s1
  have e1 : s1.id = e.locusRest.takeWhile (· != 32) ∧ s1.seqB = [] ∧ s1.defB = [] ∧ s1.featB = [] ∧ s1.sci = [] ∧
      s1.taxid = 1 := by subst hs1; exact ⟨rfl, rfl, hd, hfe, hsc, htx⟩
  obtain ⟨a1, a2, a3, a4, a5⟩ := headFold_rest e.pre s1
  obtain ⟨b1, b2, b3, b4, b5⟩ := hdefn (e.pre.foldl gbHeadApply s1)
  obtain ⟨c1, c2, c3, c4, c5⟩ := headFold_rest e.post (gbAfterDef (e.pre.foldl gbHeadApply s1) e.defn)
  obtain ⟨d1, d2, d3, d4⟩ := featFold_rest wf e.feats
    (featState (e.post.foldl gbHeadApply (gbAfterDef (e.pre.foldl gbHeadApply s1) e.defn)) e.featRest)
  have hid : (e.feats.foldl (gbFeatApply wf)
      (featState (e.post.foldl gbHeadApply (gbAfterDef (e.pre.foldl gbHeadApply s1) e.defn)) e.featRest)).id =
      e.locusRest.takeWhile (· != 32) := by
    rw [d1]; show (e.post.foldl gbHeadApply _).id = _; rw [c1, b1, a1, e1.1]
  have hseq : (e.feats.foldl (gbFeatApply wf)
      (featState (e.post.foldl gbHeadApply (gbAfterDef (e.pre.foldl gbHeadApply s1) e.defn)) e.featRest)).seqB = [] := by
    rw [d4]; show (e.post.foldl gbHeadApply _).seqB = _; rw [c4, b4, a4, e1.2.1]
  have hsci : (e.feats.foldl (gbFeatApply wf)
      (featState (e.post.foldl gbHeadApply (gbAfterDef (e.pre.foldl gbHeadApply s1) e.defn)) e.featRest)).sci =
      ((e.pre ++ e.post).filterMap GbHead.sourceVal?).getLast?.getD [] := by
    rw [d3]; show (e.post.foldl gbHeadApply _).sci = _
    rw [headFold_sci, b2, headFold_sci, e1.2.2.2.2.1, List.filterMap_append, getLast_append_getD]
  have htax : (e.feats.foldl (gbFeatApply wf)
      (featState (e.post.foldl gbHeadApply (gbAfterDef (e.pre.foldl gbHeadApply s1) e.defn)) e.featRest)).taxid =
      (e.feats.filterMap GbEntry.taxon?).getLast?.getD 1 := by
    rw [featFold_taxid]; show _ = _
    have : (featState (e.post.foldl gbHeadApply (gbAfterDef (e.pre.foldl gbHeadApply s1) e.defn)) e.featRest).taxid = 1 := by
      show (e.post.foldl gbHeadApply _).taxid = _; rw [c5, b5, a5, e1.2.2.2.2.2]
    rw [this]
  have hdef : (e.feats.foldl (gbFeatApply wf)
      (featState (e.post.foldl gbHeadApply (gbAfterDef (e.pre.foldl gbHeadApply s1) e.defn)) e.featRest)).defB =
      (match e.defn with
       | none => []
       | some (v, cs) => joinSp (trimSpace v :: cs.map trimSpace)) := by
    rw [d2]; show (e.post.foldl gbHeadApply _).defB = _; rw [c2]
    cases e.defn with
    | none => show (e.pre.foldl gbHeadApply s1).defB = _; rw [a2, e1.2.2.1]
    | some p =>
      obtain ⟨v, cs⟩ := p
      show (e.pre.foldl gbHeadApply s1).defB ++ trimSpace v ++ cs.flatMap (fun c => 32 :: trimSpace c) = _
      rw [a2, e1.2.2.1]
      simp [joinSp, List.flatMap_map]
  have hfeatB : wf = true → (e.feats.foldl (gbFeatApply wf)
      (featState (e.post.foldl gbHeadApply (gbAfterDef (e.pre.foldl gbHeadApply s1) e.defn)) e.featRest)).featB =
      joinNl ((gbFEATURES ++ e.featRest) :: e.feats) := by
    intro hw; subst hw
    rw [(featFold_feat e.feats _).1]
    show (e.post.foldl gbHeadApply _).featB ++ (gbFEATURES ++ e.featRest) ++ _ = _
    rw [c3, b3, a3, e1.2.2.2.1]
    simp [joinNl]
  rw [hid, hseq, hsci, htax, hdef]
  cases wf with
  | false => simp
  | true => simp [hfeatB rfl]

/-- **one entry**: from a record-start state the lines of a well-formed entry are read without error, yield
exactly the record the entry's text implies, and leave the machine in a record-start state -/
theorem gbRun_entry (wf : Bool) (e : GbEntry) (h : e.OK) (s : GbSt) (hf : GbFresh s) (tail : List Seq) :
    ∃ s', GbFresh s' ∧ gbRun wf s (e.lines ++ tail) = gbEmit (e.record wf) (gbRun wf s' tail) := by
  obtain ⟨h4, hrec⟩ := gbBeforeEnd_fields wf e s hf
  refine ⟨{ gbBeforeEnd wf s e with defB := [], featB := [], sci := [], taxid := 1, state := 0 },
    ⟨rfl, rfl, rfl, rfl, rfl⟩, ?_⟩
  rw [gbRun_body wf e h s hf.1 tail, gbRun_emit (gbLine_end wf _ h4), hrec, gbRun_blanks0 wf _ _ rfl]

/-- **a file of entries**: no error, the records in file order, each the record of its own entry -/
theorem gbRun_entries (wf : Bool) : ∀ (es : List GbEntry) (s : GbSt), (∀ e ∈ es, e.OK) → GbFresh s →
    ∃ sT, gbRun wf s (es.flatMap GbEntry.lines) = .ok (sT, es.map (GbEntry.record wf))
  | [], s, _, _ => ⟨s, rfl⟩
  | e :: t, s, h, hf => by
    obtain ⟨s', hf', heq⟩ := gbRun_entry wf e (h e (by simp)) s hf (t.flatMap GbEntry.lines)
    obtain ⟨sT, hT⟩ := gbRun_entries wf t s' (fun x hx => h x (by simp [hx])) hf'
    refine ⟨sT, ?_⟩
    simp only [List.flatMap_cons, List.map_cons]
    rw [heq, hT]
    rfl

/-! ## lines of an entry: no end-of-line byte -/

theorem GbEntry.noEol_lines (e : GbEntry) (h : e.OK) : ∀ l ∈ e.lines, NoEol l := by
  obtain ⟨hloc, hpre, hdef, hpost, hfr, hfeat, hor, hseq, _⟩ := h
  intro l hl
  unfold GbEntry.lines at hl
  simp only [List.mem_cons, List.mem_append, List.mem_map] at hl
  rcases hl with rfl | ⟨it, hit, rfl⟩ | hl | ⟨it, hit, rfl⟩ | rfl | hl | rfl | ⟨q, hq, rfl⟩ | rfl | hl
  · exact noEol_append (by decide) hloc
  · cases it with
    | source v => exact noEol_append (by decide) (hpre _ hit)
    | other l => exact (hpre _ hit).1
  · cases hd : e.defn with
    | none => rw [hd] at hl; cases hl
    | some p =>
      obtain ⟨v, cs⟩ := p
      obtain ⟨hv, hcs, _⟩ := hdef (v, cs) hd
      rw [hd] at hl
      simp only [GbEntry.defLines, List.mem_cons, List.mem_map] at hl
      rcases hl with rfl | ⟨c, hc, rfl⟩
      · exact noEol_append (by decide) hv
      · exact noEol_append (by decide) (hcs c hc)
  · cases it with
    | source v => exact noEol_append (by decide) (hpost _ hit)
    | other l => exact (hpost _ hit).1
  · exact noEol_append (by decide) hfr
  · exact (hfeat l hl).1
  · exact noEol_append (by decide) hor
  · obtain ⟨_, hp, hg, _, _, hlast, _⟩ := hseq q hq
    exact noEol_append hp (noEol_append (noEol_groups _ (fun g hgm => (hg g hgm).2)) hlast)
  · decide
  · rw [List.eq_of_mem_replicate hl]; intro c hc; cases hc

/-! ## files -/

/-- every line with its line end: line `i` ends with `\r\n` iff `crlf i` -/
def withEols (crlf : Nat → Bool) : Nat → List Seq → List (Seq × Bool)
  | _, [] => []
  | i, l :: t => (l, crlf i) :: withEols crlf (i + 1) t

theorem withEols_fst (crlf : Nat → Bool) : ∀ (i : Nat) (ls : List Seq), (withEols crlf i ls).map (·.1) = ls
  | _, [] => rfl
  | i, l :: t => by simp [withEols, withEols_fst crlf (i + 1) t]

theorem withEols_mem (crlf : Nat → Bool) : ∀ (i : Nat) (ls : List Seq) (p : Seq × Bool), p ∈ withEols crlf i ls → p.1 ∈ ls
  | _, [], _, h => by cases h
  | i, l :: t, p, h => by
    simp only [withEols, List.mem_cons] at h ⊢
    rcases h with rfl | h
    · exact Or.inl rfl
    · exact Or.inr (withEols_mem crlf (i + 1) t p h)

theorem withEols_getLast (crlf : Nat → Bool) : ∀ (i : Nat) (ls : List Seq) (p : Seq × Bool),
    (withEols crlf i ls).getLast? = some p → ls.getLast? = some p.1
  | _, [], _, h => by cases h
  | i, [l], p, h => by
    simp only [withEols, List.getLast?_singleton, Option.some.injEq] at h ⊢
    rw [← h]
  | i, l :: m :: t, p, h => by
    simp only [withEols, List.getLast?_cons_cons] at h ⊢
    exact withEols_getLast crlf (i + 1) (m :: t) p h

/-- the text of a flat file: its lines, line `i` followed by `\r\n` or `\n` as `crlf i` says; `closed = false`:
the last line without its line end -/
def flatFileText (crlf : Nat → Bool) (lines : List Seq) (closed : Bool) : Seq :=
  if closed then renderLines (withEols crlf 0 lines) else renderOpen (withEols crlf 0 lines)

/-- both line readers hand over exactly the lines of such a text -/
theorem linesG_flatFileText (g : Seq → Seq) (hg : ∀ l, NoEol l → g l = l) (crlf : Nat → Bool) (lines : List Seq)
    (closed : Bool) (hne : ∀ l ∈ lines, NoEol l) (hlast : closed = false → ∀ l, lines.getLast? = some l → l ≠ []) :
    linesG g (flatFileText crlf lines closed) = lines := by
  have hmem : ∀ p ∈ withEols crlf 0 lines, NoEol p.1 := fun p hp => hne _ (withEols_mem crlf 0 lines p hp)
  unfold flatFileText
  cases closed with
  | true => simp only [if_true]; rw [linesG_render g _ hmem, withEols_fst]
  | false =>
    simp only [Bool.false_eq_true, if_false]
    rw [linesG_renderOpen g hg _ hmem (fun p hp => hlast rfl _ (withEols_getLast crlf 0 lines p hp)), withEols_fst]

theorem regularEol_flatFileText (crlf : Nat → Bool) (lines : List Seq) (closed : Bool) (hne : ∀ l ∈ lines, NoEol l) :
    regularEol (flatFileText crlf lines closed) = true := by
  have hmem : ∀ p ∈ withEols crlf 0 lines, NoEol p.1 := fun p hp => hne _ (withEols_mem crlf 0 lines p hp)
  unfold flatFileText
  cases closed with
  | true => exact regularEol_render _ hmem
  | false => exact regularEol_renderOpen _ hmem

theorem shortLines_flatFileText (max : Nat) (hmax : 0 < max) (crlf : Nat → Bool) (lines : List Seq) (closed : Bool)
    (hne : ∀ l ∈ lines, NoEol l) (hlen : ∀ l ∈ lines, l.length + 1 < max) :
    shortLines max (flatFileText crlf lines closed) = true := by
  have hmem : ∀ p ∈ withEols crlf 0 lines, NoEol p.1 := fun p hp => hne _ (withEols_mem crlf 0 lines p hp)
  have hl : ∀ p ∈ withEols crlf 0 lines, p.1.length + 1 < max := fun p hp => hlen _ (withEols_mem crlf 0 lines p hp)
  unfold flatFileText
  cases closed with
  | true => exact shortLines_render max hmax _ hmem hl
  | false => exact shortLines_renderOpen max hmax _ hmem hl

end ObiVerif.Parse
