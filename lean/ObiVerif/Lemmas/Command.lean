import ObiVerif.Model.Command
import ObiVerif.Lemmas.Iter
import ObiVerif.Props.C04
/-!
# Lemmas for C05: writers fed by an `IsStream`, counters of the aggregating commands
-/
namespace ObiVerif.Command
open ObiVerif.Reseq ObiVerif.Iter ObiVerif.Writer

/-! ## A writer fed by a stream delivered in any order -/

theorem batchText_keyed' (fmt : Rec → Bytes) (w : Nat → List Rec) (ks : List Nat) :
    (ks.map fun k => ((k, w k) : Batch)).map (batchText fmt) = ks.map fun k => (k, ((w k).map fmt).flatten) := by
  simp [batchText, List.map_map, Function.comp_def]

theorem flatten_map_flatMap' (fmt : Rec → Bytes) (w : Nat → List Rec) (l : List Nat) :
    (l.map fun k => ((w k).map fmt).flatten).flatten = ((l.flatMap w).map fmt).flatten := by
  induction l with
  | nil => simp
  | cons a t ih => simp [List.flatMap_cons, ih]

/-- FASTA/FASTQ writer: the batches of a stream (numbers = a permutation of `0..N-1`, records in number
order = `F`) reaching the writer in any order are written as the texts of `F`, in order -/
theorem write_isStream (fmt : Rec → Bytes) {arrW : List Batch} {N : Nat} {F : List Rec}
    (h : IsStream arrW N F) : commandOutput fmt arrW = (F.map fmt).flatten := by
  obtain ⟨ks, w, hp, rfl, hF⟩ := h
  unfold commandOutput
  rw [batchText_keyed', ObiVerif.Props.C04.raw_writer_perm (fun k => ((w k).map fmt).flatten) N ks hp,
    flatten_map_flatMap', hF]

theorem joinSep_eq_joinAll (sep : Bytes) (l : List Bytes) :
    joinSep sep l = ObiVerif.Props.C04.joinAll sep l := by
  induction l with
  | nil => rfl
  | cons a t ih =>
    cases t with
    | nil => rfl
    | cons b u => simp only [joinSep, ObiVerif.Props.C04.joinAll, ih]

/-- JSON writer: one array holding the objects of `F`, in order -/
theorem json_isStream (obj : Rec → Bytes) (hne : ∀ r, obj r ≠ []) {arrW : List Batch} {N : Nat}
    {F : List Rec} (h : IsStream arrW N F) :
    commandJson obj arrW = openJson ++ joinSep sepJson (F.map obj) ++ closeJson := by
  obtain ⟨ks, w, hp, rfl, hF⟩ := h
  unfold commandJson
  have e : (ks.map fun k => ((k, w k) : Batch)).map (jsonBatchText obj)
      = ks.map fun k => (k, ObiVerif.Props.C04.joinAll sepJson ((fun k => (w k).map obj) k)) := by
    simp [jsonBatchText, List.map_map, Function.comp_def, joinSep_eq_joinAll]
  rw [e, ObiVerif.Props.C04.json_is_array_of_records (fun k => (w k).map obj)
    (by intro k t ht; obtain ⟨r, _, rfl⟩ := List.mem_map.mp ht; exact hne r) N ks hp, joinSep_eq_joinAll]
  congr 3
  rw [← hF]
  generalize List.range N = l
  induction l with
  | nil => simp
  | cons a t ih => simp [List.flatMap_cons, ih]

/-- CSV writer: the header once, then the rows of `F`, in order (a stream of at least one batch) -/
theorem csv_isStream (header : Bytes) (row : Rec → Bytes) {arrW : List Batch} {N : Nat} {F : List Rec}
    (hN : 0 < N) (h : IsStream arrW N F) :
    commandCsv header row arrW = header ++ (F.map row).flatten := by
  obtain ⟨ks, w, hp, rfl, hF⟩ := h
  unfold commandCsv
  have e : (ks.map fun k => ((k, w k) : Batch)).map (csvBatchText header row)
      = ks.map fun k => (k, if k = 0 then header ++ (fun k => ((w k).map row).flatten) k
                            else (fun k => ((w k).map row).flatten) k) := by
    simp [csvBatchText, List.map_map, Function.comp_def]
  rw [e, ObiVerif.Props.C04.csv_writer_perm header (fun k => ((w k).map row).flatten) N hN ks hp,
    flatten_map_flatMap', hF]

/-! ## Map-valued counters -/

theorem addKey_comm (k1 n1 k2 n2 : Nat) (m : Counters) :
    addKey k1 n1 (addKey k2 n2 m) = addKey k2 n2 (addKey k1 n1 m) := by
  induction m with
  | nil =>
    simp only [addKey]
    by_cases h : k1 = k2
    · subst h; simp [Nat.add_comm]
    · have h' : ¬ k2 = k1 := fun e => h e.symm
      by_cases hl : k1 < k2
      · have : ¬ k2 < k1 := by omega
        simp [h, h', hl, this]
      · have : k2 < k1 := by omega
        simp [h, h', hl, this]
  | cons x t ih =>
    obtain ⟨k', v⟩ := x
    by_cases a1 : k1 = k' <;> by_cases a2 : k2 = k'
    · subst a1; subst a2; simp [addKey, Nat.add_assoc, Nat.add_comm n1 n2]
    · subst a1
      by_cases hl : k2 < k1
      · have h1 : ¬ k1 = k2 := by omega
        have h2 : ¬ k1 < k2 := by omega
        simp [addKey, a2, hl, h1, h2]
      · simp [addKey, a2, hl]
    · subst a2
      by_cases hl : k1 < k2
      · have h1 : ¬ k2 = k1 := by omega
        have h2 : ¬ k2 < k1 := by omega
        simp [addKey, a1, hl, h1, h2]
      · simp [addKey, a1, hl]
    · by_cases l1 : k1 < k' <;> by_cases l2 : k2 < k'
      · by_cases e : k1 = k2
        · subst e; simp [addKey, a1, l1, Nat.add_comm]
        · have e' : ¬ k2 = k1 := fun h => e h.symm
          by_cases hl : k1 < k2
          · have : ¬ k2 < k1 := by omega
            simp [addKey, a1, a2, l1, l2, e, e', hl, this]
          · have : k2 < k1 := by omega
            simp [addKey, a1, a2, l1, l2, e, e', hl, this]
      · have e : ¬ k2 = k1 := by omega
        have hl : ¬ k2 < k1 := by omega
        simp [addKey, a1, a2, l1, l2, e, hl]
      · have e : ¬ k1 = k2 := by omega
        have hl : ¬ k1 < k2 := by omega
        simp [addKey, a1, a2, l1, l2, e, hl]
      · simp [addKey, a1, a2, l1, l2, ih]

theorem addKey_twice (k n m : Nat) (a : Counters) :
    addKey k n (addKey k m a) = addKey k (m + n) a := by
  induction a with
  | nil => simp [addKey]
  | cons x t ih =>
    obtain ⟨k', v⟩ := x
    by_cases e : k = k'
    · subst e; simp [addKey, Nat.add_assoc]
    · by_cases l : k < k'
      · simp [addKey, e, l]
      · simp [addKey, e, l, ih]

/-- the items of a list added one by one -/
theorem mergeCounters_append (a : Counters) (x y : List (Nat × Nat)) :
    mergeCounters a (x ++ y) = mergeCounters (mergeCounters a x) y := by
  simp [mergeCounters, List.foldl_append]

theorem mergeCounters_addKey_left (k n : Nat) (a : Counters) (t : List (Nat × Nat)) :
    mergeCounters (addKey k n a) t = addKey k n (mergeCounters a t) := by
  induction t generalizing a with
  | nil => rfl
  | cons x u ih =>
    simp only [mergeCounters, List.foldl_cons] at ih ⊢
    rw [addKey_comm, ih]

theorem mergeCounters_addKey_right (k n : Nat) (a b : Counters) :
    mergeCounters a (addKey k n b) = addKey k n (mergeCounters a b) := by
  induction b generalizing a with
  | nil => simp [addKey, mergeCounters]
  | cons x t ih =>
    obtain ⟨k', m⟩ := x
    by_cases e : k = k'
    · subst e
      have l : addKey k n ((k, m) :: t) = (k, m + n) :: t := by simp [addKey]
      rw [l]
      show mergeCounters (addKey k (m + n) a) t = addKey k n (mergeCounters (addKey k m a) t)
      rw [← mergeCounters_addKey_left k n, addKey_twice]
    · by_cases l : k < k'
      · have l' : addKey k n ((k', m) :: t) = (k, n) :: (k', m) :: t := by simp [addKey, e, l]
        rw [l']
        show mergeCounters (addKey k n a) ((k', m) :: t) = _
        rw [mergeCounters_addKey_left]
      · have l' : addKey k n ((k', m) :: t) = (k', m) :: addKey k n t := by simp [addKey, e, l]
        rw [l']
        show mergeCounters (addKey k' m a) (addKey k n t) = addKey k n (mergeCounters (addKey k' m a) t)
        exact ih _

/-- merging an accumulated map = adding the items it was accumulated from -/
theorem mergeCounters_assoc (a b : Counters) (l : List (Nat × Nat)) :
    mergeCounters a (mergeCounters b l) = mergeCounters (mergeCounters a b) l := by
  induction l generalizing b with
  | nil => rfl
  | cons x u ih =>
    show mergeCounters a (mergeCounters (addKey x.1 x.2 b) u) = mergeCounters (addKey x.1 x.2 (mergeCounters a b)) u
    rw [ih, mergeCounters_addKey_right]

theorem mergeCounters_perm (a : Counters) {x y : List (Nat × Nat)} (h : x.Perm y) :
    mergeCounters a x = mergeCounters a y := by
  unfold mergeCounters
  apply List.Perm.foldl_eq' h
  intro p _ q _ m
  exact addKey_comm _ _ _ _ _

/-- the items a list of batches contributes -/
def items (cnt : Rec → Counters) (bs : List Batch) : List (Nat × Nat) := bs.flatMap fun b => b.2.flatMap cnt

theorem aggWorker_summary (cnt : Rec → Counters) (acc : Counters) (bs : List Batch) :
    aggWorker (summaryUpd cnt) acc bs = mergeCounters acc (items cnt bs) := by
  induction bs generalizing acc with
  | nil => rfl
  | cons b t ih =>
    have inner : ∀ (l : List Rec) (a : Counters),
        l.foldl (summaryUpd cnt) a = mergeCounters a (l.flatMap cnt) := by
      intro l
      induction l with
      | nil => intro a; rfl
      | cons r u ihu =>
        intro a
        simp only [List.foldl_cons, List.flatMap_cons, ihu, summaryUpd, mergeCounters_append]
    show aggWorker (summaryUpd cnt) (b.2.foldl (summaryUpd cnt) acc) t = _
    rw [ih, inner]
    simp only [items, List.flatMap_cons, mergeCounters_append]

theorem summaryOutput_flat (cnt : Rec → Counters) (init : Counters) (shares : List (List Batch)) :
    summaryOutput cnt init shares = mergeCounters init (items cnt shares.flatten) := by
  unfold summaryOutput
  induction shares generalizing init with
  | nil => rfl
  | cons s t ih =>
    simp only [List.map_cons, List.foldl_cons, List.flatten_cons]
    rw [ih, aggWorker_summary, mergeCounters_assoc]
    simp [items, mergeCounters_append, mergeCounters]

/-! ## Aggregation in a commutative monoid -/

section Monoid
variable {σ : Type} (op : σ → σ → σ) (e : σ) (val : Rec → σ)

theorem fold_op (hassoc : ∀ a b c, op (op a b) c = op a (op b c)) (hid : ∀ a, op a e = a)
    (hidl : ∀ a, op e a = a) (l : List Rec) (a : σ) :
    l.foldl (fun a r => op a (val r)) a = op a (l.foldl (fun a r => op a (val r)) e) := by
  induction l generalizing a with
  | nil => simp [hid]
  | cons r t ih =>
    simp only [List.foldl_cons]
    rw [ih (op a (val r)), ih (op e (val r)), hidl, hassoc]

theorem aggWorker_op (bs : List Batch) (a : σ) :
    aggWorker (fun a r => op a (val r)) a bs = (flatten bs).foldl (fun a r => op a (val r)) a := by
  induction bs generalizing a with
  | nil => rfl
  | cons b t ih =>
    show aggWorker _ (b.2.foldl _ a) t = _
    rw [ih]; simp [flatten, List.foldl_append]

theorem aggOutput_flat (hassoc : ∀ a b c, op (op a b) c = op a (op b c)) (hid : ∀ a, op a e = a)
    (hidl : ∀ a, op e a = a) (shares : List (List Batch)) (a : σ) :
    (shares.map (aggWorker (fun a r => op a (val r)) e)).foldl op a
      = (flatten shares.flatten).foldl (fun a r => op a (val r)) a := by
  induction shares generalizing a with
  | nil => rfl
  | cons s t ih =>
    simp only [List.map_cons, List.foldl_cons, List.flatten_cons]
    rw [ih, aggWorker_op op val, ← fold_op op e val hassoc hid hidl]
    simp [flatten, List.foldl_append]

end Monoid

end ObiVerif.Command
