import ObiVerif.Lemmas.Getopt
/-!
# Any spelling of a command line is parsed like its canonical spelling (C16)

The logical content of a command line is a list of `Item`s (flags, options with their value, positional
words, `--` and what follows); `denote` is what they mean, independently of how they are written.
`Spells decls is ws`: the words `ws` write the items `is` (abbreviations and aliases = any entry that
`Resolves`, bundled letters, `=value` or a separate value word). `parse_spelling`: the tokenizer computes
`denote`; `canonical_spelling`: every spelling is parsed like `canon is` (`--name`, `--name=value`),
for every declaration table whose names resolve to themselves (`grepDecls_canon`, `annotDecls_canon`,
`distDecls_canon`). Errors are compared up to the alias the message names (`Err.anon`).

Outside the theorem: an empty value (it can only be written as a separate word), unknown and ambiguous
entries, a value word that looks like an option.
-/
namespace ObiVerif.Getopt

/-! ## the words -/

def argSuffix : Option String → String
  | none => ""
  | some v => "=" ++ v
def longWord (e : String) (arg : Option String) : String := "--" ++ e ++ argSuffix arg
def shortWord (letters : List Char) (arg : Option String) : String :=
  "-" ++ String.ofList letters ++ argSuffix arg

def EntryOK (l : List Char) : Prop := l ≠ [] ∧ '=' ∉ l
def ArgOK : Option String → Prop
  | none => True
  | some v => v ≠ ""

instance (l : List Char) : Decidable (EntryOK l) := inferInstanceAs (Decidable (l ≠ [] ∧ '=' ∉ l))

instance : (a : Option String) → Decidable (ArgOK a)
  | none => isTrue trivial
  | some v => inferInstanceAs (Decidable (v ≠ ""))

theorem takeWhile_sep (p : Char → Bool) (l r : List Char) (sep : Char) (h : ∀ x ∈ l, p x = true)
    (hs : p sep = false) : (l ++ sep :: r).takeWhile p = l := by
  induction l with
  | nil => simp [hs]
  | cons c t ih =>
    have hc : p c = true := h c (by simp)
    have ht : ∀ x ∈ t, p x = true := fun x m => h x (by simp [m])
    simp [hc, ih ht]

theorem dropWhile_sep (p : Char → Bool) (l r : List Char) (sep : Char) (h : ∀ x ∈ l, p x = true)
    (hs : p sep = false) : (l ++ sep :: r).dropWhile p = sep :: r := by
  induction l with
  | nil => simp [hs]
  | cons c t ih =>
    have hc : p c = true := h c (by simp)
    have ht : ∀ x ∈ t, p x = true := fun x m => h x (by simp [m])
    simp [hc, ih ht]

theorem takeWhile_all (p : Char → Bool) (l : List Char) (h : ∀ x ∈ l, p x = true) : l.takeWhile p = l := by
  induction l with
  | nil => simp
  | cons c t ih =>
    have hc : p c = true := h c (by simp)
    have ht : ∀ x ∈ t, p x = true := fun x m => h x (by simp [m])
    simp [hc, ih ht]

theorem dropWhile_all (p : Char → Bool) (l : List Char) (h : ∀ x ∈ l, p x = true) : l.dropWhile p = [] := by
  induction l with
  | nil => simp
  | cons c t ih =>
    have hc : p c = true := h c (by simp)
    have ht : ∀ x ∈ t, p x = true := fun x m => h x (by simp [m])
    simp [hc, ih ht]

theorem noeq_all (l : List Char) (h : '=' ∉ l) : ∀ x ∈ l, (fun c : Char => decide (c ≠ '=')) x = true := by
  intro x m
  have : x ≠ '=' := fun e => h (e ▸ m)
  simp [this]

theorem takeWhile_noeq (l r : List Char) (h : '=' ∉ l) :
    (l ++ '=' :: r).takeWhile (· ≠ '=') = l :=
  takeWhile_sep _ l r '=' (noeq_all l h) (by simp)

theorem dropWhile_noeq (l r : List Char) (h : '=' ∉ l) :
    (l ++ '=' :: r).dropWhile (· ≠ '=') = '=' :: r :=
  dropWhile_sep _ l r '=' (noeq_all l h) (by simp)

theorem takeWhile_noeq_nil (l : List Char) (h : '=' ∉ l) : l.takeWhile (· ≠ '=') = l :=
  takeWhile_all _ l (noeq_all l h)

theorem dropWhile_noeq_nil (l : List Char) (h : '=' ∉ l) : l.dropWhile (· ≠ '=') = [] :=
  dropWhile_all _ l (noeq_all l h)

theorem argSuffix_toList_take (l : List Char) (arg : Option String) (h : '=' ∉ l) :
    (l ++ (argSuffix arg).toList).takeWhile (· ≠ '=') = l := by
  cases arg with
  | none => simpa [argSuffix] using takeWhile_noeq_nil l h
  | some v => simpa [argSuffix] using takeWhile_noeq l v.toList h

theorem argSuffix_toList_drop (l : List Char) (arg : Option String) (h : '=' ∉ l) (ha : ArgOK arg) :
    argOf ((l ++ (argSuffix arg).toList).dropWhile (· ≠ '=')) = arg := by
  cases arg with
  | none =>
    have := dropWhile_noeq_nil l h
    simp only [argSuffix, String.toList_empty, List.append_nil] 
    rw [this]; rfl
  | some v =>
    have := dropWhile_noeq l v.toList h
    simp only [argSuffix, String.toList_append]
    have e : "=".toList = ['='] := by simp
    rw [e]
    simp only [List.cons_append, List.nil_append]
    rw [this]
    have hv : v.toList ≠ [] := fun e => ha (String.toList_inj.mp (by simpa using e))
    simp [argOf, hv]

theorem classify_long (e : String) (arg : Option String) (he : EntryOK e.toList) (ha : ArgOK arg) :
    classify (longWord e arg) = .long e arg := by
  obtain ⟨hne, hno⟩ := he
  cases hl : e.toList with
  | nil => exact absurd hl hne
  | cons c r =>
    have hc : c ≠ '=' := fun h => hno (by rw [hl]; simp [h])
    have hw : (longWord e arg).toList = '-' :: '-' :: c :: (r ++ (argSuffix arg).toList) := by
      simp [longWord, hl]
    have h1 : longWord e arg ≠ "--" := by
      intro h; have := congrArg String.toList h; rw [hw] at this; simp at this
    have h2 : longWord e arg ≠ "-" := by
      intro h; have := congrArg String.toList h; rw [hw] at this; simp at this
    unfold classify
    rw [if_neg h1, if_neg h2, hw]
    simp only
    rw [if_pos hc]
    have hno' : '=' ∉ c :: r := by rw [← hl]; exact hno
    have t := argSuffix_toList_take (c :: r) arg hno'
    have d := argSuffix_toList_drop (c :: r) arg hno' ha
    simp only [List.cons_append] at t d
    rw [t, d, ← hl, String.ofList_toList]

theorem classify_short (letters : List Char) (arg : Option String) (he : EntryOK letters)
    (hd : letters.head? ≠ some '-') (ha : ArgOK arg) :
    classify (shortWord letters arg) = .short letters arg := by
  obtain ⟨hne, hno⟩ := he
  cases letters with
  | nil => exact absurd rfl hne
  | cons c r =>
    have hc : c ≠ '=' := fun h => hno (by simp [h])
    have hc' : c ≠ '-' := fun h => hd (by simp [h])
    have hw : (shortWord (c :: r) arg).toList = '-' :: c :: (r ++ (argSuffix arg).toList) := by
      simp [shortWord]
    have h1 : shortWord (c :: r) arg ≠ "--" := by
      intro h; have := congrArg String.toList h; rw [hw] at this
      simp at this; exact hc' this.1
    have h2 : shortWord (c :: r) arg ≠ "-" := by
      intro h; have := congrArg String.toList h; rw [hw] at this; simp at this
    unfold classify
    rw [if_neg h1, if_neg h2, hw]
    have t := argSuffix_toList_take (c :: r) arg hno
    have d := argSuffix_toList_drop (c :: r) arg hno ha
    simp only [List.cons_append] at t d
    split
    · rename_i c' rest heq
      simp only [List.cons.injEq, true_and] at heq
      exact absurd heq.1 hc'
    · rename_i c' rest hnot heq
      simp only [List.cons.injEq, true_and] at heq
      obtain ⟨rfl, rfl⟩ := heq
      rw [if_pos hc]
      simp only
      rw [t, d]
    · rename_i h1 h2
      exact absurd rfl (h2 c _)

/-! ## the logical content of a command line -/

/-- `matchesOf` resolves the entry to one key and that key is declared by `d` -/
def Resolves (decls : List Decl) (entry : String) (d : Decl) : Prop :=
  ∃ key, matchesOf decls entry = [key] ∧ declOf decls key = some d

theorem Resolves.mem {decls : List Decl} {e : String} {d : Decl} (h : Resolves decls e d) : d ∈ decls := by
  obtain ⟨key, _, hd⟩ := h
  exact List.mem_of_find?_eq_some hd

/-- the logical content of a command line -/
inductive Item where
  /-- a flag option given (value "1") -/
  | flag (d : Decl)
  /-- an option taking a value, with its value -/
  | val (d : Decl) (v : String)
  /-- a positional word -/
  | text (w : String)
  /-- `--` and everything after it -/
  | rest (t : List String)

/-- reference semantics: what the items mean, independent of spelling -/
def denote : List Item → St → Except (Err × St) St
  | [], st => .ok st
  | .flag d :: is, st => denote is (st.add [⟨d.name, "1"⟩])
  | .val d v :: is, st =>
      match save d d.name v with
      | .ok es => denote is (st.add es)
      | .error e => .error (e, st)
  | .text w :: is, st => denote is { st with text := st.text ++ [w] }
  | .rest t :: _, st => .ok { st with text := st.text ++ t }

/-- an error with the alias that was typed forgotten (the message names the spelling used) -/
def Err.anon : Err → Err
  | .badInt _ v => .badInt "" v
  | .badFloat _ v => .badFloat "" v
  | .notKV _ => .notKV ""
  | .missing _ => .missing ""
  | .dashArg _ => .dashArg ""
  | e => e

/-- same result: same final state, or the same error (up to the alias named) in the same state -/
def Agree : Except (Err × St) St → Except (Err × St) St → Prop
  | .ok a, .ok b => a = b
  | .error (e, s), .error (e', s') => e.anon = e'.anon ∧ s = s'
  | _, _ => False

theorem Agree.refl (a : Except (Err × St) St) : Agree a a := by
  cases a with
  | ok a => exact rfl
  | error p => exact ⟨rfl, rfl⟩

theorem Agree.symm {a b : Except (Err × St) St} (h : Agree a b) : Agree b a := by
  cases a with
  | ok a =>
    cases b with
    | ok b => exact Eq.symm h
    | error q => exact h.elim
  | error p =>
    cases b with
    | ok b => exact h.elim
    | error q => exact ⟨h.1.symm, h.2.symm⟩

theorem Agree.trans {a b c : Except (Err × St) St} (h : Agree a b) (h' : Agree b c) : Agree a c := by
  cases a with
  | ok a =>
    cases b with
    | ok b =>
      cases c with
      | ok c => exact Eq.trans h h'
      | error r => exact h'.elim
    | error q => exact h.elim
  | error p =>
    cases b with
    | ok b => exact h.elim
    | error q =>
      cases c with
      | ok c => exact h'.elim
      | error r => exact ⟨h.1.trans h'.1, h.2.trans h'.2⟩

theorem Agree.ok_iff {a b : Except (Err × St) St} (h : Agree a b) (st : St) : a = .ok st ↔ b = .ok st := by
  cases a with
  | ok a =>
    cases b with
    | ok b => have : a = b := h; subst this; exact Iff.rfl
    | error q => exact h.elim
  | error p =>
    cases b with
    | ok b => exact h.elim
    | error q => constructor <;> (intro e; cases e)

/-- the alias typed only shows in the error message -/
theorem save_alias (d : Decl) (a b v : String) :
    (∃ es, save d a v = .ok es ∧ save d b v = .ok es) ∨
    (∃ e e', save d a v = .error e ∧ save d b v = .error e' ∧ e.anon = e'.anon) := by
  unfold save
  cases d.kind <;> simp only
  · exact .inl ⟨_, rfl, rfl⟩
  · cases atoi? v with
    | some n => exact .inl ⟨_, rfl, rfl⟩
    | none => exact .inr ⟨_, _, rfl, rfl, rfl⟩
  · cases floatOK v with
    | true => exact .inl ⟨_, rfl, rfl⟩
    | false => exact .inr ⟨_, _, rfl, rfl, rfl⟩
  · exact .inl ⟨_, rfl, rfl⟩
  · exact .inl ⟨_, rfl, rfl⟩
  · cases splitDots v.toList with
    | some p =>
      obtain ⟨x, y⟩ := p
      simp only
      cases atoi? (String.ofList x) with
      | none => exact .inr ⟨_, _, rfl, rfl, rfl⟩
      | some n =>
        cases atoi? (String.ofList y) with
        | none => exact .inr ⟨_, _, rfl, rfl, rfl⟩
        | some m =>
          simp only
          by_cases hlt : n < m
          · rw [if_pos hlt, if_pos hlt]; exact .inl ⟨_, rfl, rfl⟩
          · rw [if_neg hlt, if_neg hlt]; exact .inr ⟨_, _, rfl, rfl, rfl⟩
    | none =>
      simp only
      cases atoi? v with
      | some n => exact .inl ⟨_, rfl, rfl⟩
      | none => exact .inr ⟨_, _, rfl, rfl, rfl⟩
  · cases v.splitOn "=" with
    | nil => exact .inr ⟨_, _, rfl, rfl, rfl⟩
    | cons k t =>
      cases t with
      | nil => exact .inr ⟨_, _, rfl, rfl, rfl⟩
      | cons v' t' => exact .inl ⟨_, rfl, rfl⟩

/-! ## one option of a word, resolved -/

theorem St.add_nil (st : St) : st.add [] = st := by
  cases st; simp [St.add]

theorem saveNone_nonflag (d : Decl) (hk : d.kind ≠ .flag) : saveNone d = [] := by
  unfold saveNone
  split
  · rename_i h; exact absurd h hk
  · rfl

theorem handlePair_flag {decls : List Decl} {e : String} {d : Decl} (h : Resolves decls e d)
    (hk : d.kind = .flag) (w : String) (rest : List String) (st : St) :
    handlePair decls w e none rest st = .ok (st.add [⟨d.name, "1"⟩], rest) := by
  obtain ⟨key, hm, hd⟩ := h
  unfold handlePair
  rw [hm]
  simp only [hd, hk, saveNone, if_true]

theorem handlePair_valEq {decls : List Decl} {e : String} {d : Decl} (h : Resolves decls e d)
    (w v : String) (rest : List String) (st : St) :
    ∃ key, handlePair decls w e (some v) rest st =
      match save d key v with
      | .ok es => .ok (st.add es, rest)
      | .error er => .error (er, st) := by
  obtain ⟨key, hm, hd⟩ := h
  refine ⟨key, ?_⟩
  unfold handlePair
  rw [hm]
  simp only [hd]
  cases save d key v <;> rfl

theorem handlePair_valSep {decls : List Decl} {e : String} {d : Decl} (h : Resolves decls e d)
    (hk : d.kind ≠ .flag) (w v : String) (hv : looksLikeOption v = false) (rest : List String) (st : St) :
    ∃ key, handlePair decls w e none (v :: rest) st =
      match save d key v with
      | .ok es => .ok (st.add es, rest)
      | .error er => .error (er, st) := by
  obtain ⟨key, hm, hd⟩ := h
  refine ⟨key, ?_⟩
  unfold handlePair
  rw [hm]
  simp only [hd, saveNone_nonflag d hk, St.add_nil, hk, if_false, hv]
  cases save d key v <;> rfl

/-- what `loop` does with the outcome of the options of one word -/
def contLoop (decls : List Decl) (fuel : Nat) : Except (Err × St) (St × List String) → Except (Err × St) St
  | .ok (st', rest') => loop decls fuel rest' st'
  | .error e => .error e

theorem contLoop_cons (decls : List Decl) (fuel : Nat) (w e : String) (a : Option String)
    (ps : List (String × Option String)) (rest : List String) (st : St) :
    contLoop decls fuel (handlePairs decls w ((e, a) :: ps) rest st) =
      match handlePair decls w e a rest st with
      | .ok (st', rest') => contLoop decls fuel (handlePairs decls w ps rest' st')
      | .error er => .error er := by
  simp only [handlePairs]
  cases handlePair decls w e a rest st with
  | ok p => rfl
  | error er => rfl

theorem loop_nil (decls : List Decl) (fuel : Nat) (st : St) : loop decls fuel [] st = .ok st := by
  cases fuel <;> simp [loop]

theorem loop_text (decls : List Decl) (f : Nat) (w : String) (rest : List String) (st : St)
    (h : classify w = .text) :
    loop decls (f + 1) (w :: rest) st = loop decls f rest { st with text := st.text ++ [w] } := by
  simp only [loop, h]

theorem loop_long (decls : List Decl) (f : Nat) (w e : String) (arg : Option String) (rest : List String)
    (st : St) (h : classify w = .long e arg) :
    loop decls (f + 1) (w :: rest) st = contLoop decls f (handlePairs decls w [(e, arg)] rest st) := by
  simp only [loop, h, pairsOf, contLoop]
  rfl

theorem loop_short (decls : List Decl) (f : Nat) (w : String) (ls : List Char) (arg : Option String)
    (rest : List String) (st : St) (h : classify w = .short ls arg) :
    loop decls (f + 1) (w :: rest) st =
      contLoop decls f (handlePairs decls w (pairsOf (.short ls arg)) rest st) := by
  simp only [loop, h, contLoop]
  rfl

/-! ## spellings -/

/-- the `(entry, argument)` pairs of one word, the value words they take after it, and what they mean.
An empty value can only be written as a separate word (`--name=` means no argument): it is left out. -/
inductive PairsSpell (decls : List Decl) : List (String × Option String) → List String → List Item → Prop
  | nil : PairsSpell decls [] [] []
  | flag {e d ps vws its} : Resolves decls e d → d.kind = .flag → PairsSpell decls ps vws its →
      PairsSpell decls ((e, none) :: ps) vws (.flag d :: its)
  | valEq {e d v ps vws its} : Resolves decls e d → d.kind ≠ .flag → v ≠ "" → PairsSpell decls ps vws its →
      PairsSpell decls ((e, some v) :: ps) vws (.val d v :: its)
  | valSep {e d v ps vws its} : Resolves decls e d → d.kind ≠ .flag → looksLikeOption v = false → v ≠ "" →
      PairsSpell decls ps vws its → PairsSpell decls ((e, none) :: ps) (v :: vws) (.val d v :: its)

theorem denote_val_agree (d : Decl) (key v : String) (st : St) (rest : List String) (is : List Item)
    (k : St → List String → Except (Err × St) St) (hk : ∀ st', Agree (k st' rest) (denote is st')) :
    Agree (match (match save d key v with
                  | .ok es => (.ok (st.add es, rest) : Except (Err × St) (St × List String))
                  | .error er => .error (er, st)) with
           | .ok (st', r) => k st' r
           | .error er => .error er)
      (denote (.val d v :: is) st) := by
  simp only [denote]
  rcases save_alias d key d.name v with ⟨es, h1, h2⟩ | ⟨e1, e2, h1, h2, h3⟩
  · rw [h1, h2]; exact hk _
  · rw [h1, h2]; exact ⟨h3, rfl⟩

/-- the options of one word, then the rest of the line -/
theorem pairs_step {decls : List Decl} {ps : List (String × Option String)} {vws : List String}
    {its : List Item} (h : PairsSpell decls ps vws its) :
    ∀ (word : String) (ws : List String) (fuel : Nat) (is : List Item),
      (∀ st', Agree (loop decls fuel ws st') (denote is st')) → ∀ st,
      Agree (contLoop decls fuel (handlePairs decls word ps (vws ++ ws) st)) (denote (its ++ is) st) := by
  induction h with
  | nil =>
    intro word ws fuel is hk st
    simp only [handlePairs, contLoop, List.nil_append]
    exact hk st
  | @flag e d ps vws its hr hkind _ ih =>
    intro word ws fuel is hk st
    rw [contLoop_cons, handlePair_flag hr hkind]
    simp only [List.cons_append, denote]
    exact ih word ws fuel is hk _
  | @valEq e d v ps vws its hr hkind _ _ ih =>
    intro word ws fuel is hk st
    obtain ⟨key, hp⟩ := handlePair_valEq hr word v (vws ++ ws) st
    rw [contLoop_cons, hp]
    exact denote_val_agree d key v st (vws ++ ws) (its ++ is)
      (fun st' r => contLoop decls fuel (handlePairs decls word ps r st'))
      (fun st' => ih word ws fuel is hk st')
  | @valSep e d v ps vws its hr hkind hv _ _ ih =>
    intro word ws fuel is hk st
    obtain ⟨key, hp⟩ := handlePair_valSep hr hkind word v hv (vws ++ ws) st
    rw [List.cons_append, contLoop_cons, hp]
    exact denote_val_agree d key v st (vws ++ ws) (its ++ is)
      (fun st' r => contLoop decls fuel (handlePairs decls word ps r st'))
      (fun st' => ih word ws fuel is hk st')

/-- a whole command line spelled out: which words write which items -/
inductive Spells (decls : List Decl) : List Item → List String → Prop
  | nil : Spells decls [] []
  | rest (t : List String) : Spells decls [.rest t] ("--" :: t)
  | text {w is ws} : classify w = .text → Spells decls is ws → Spells decls (.text w :: is) (w :: ws)
  | long {e arg vws its is ws} : EntryOK e.toList → ArgOK arg → PairsSpell decls [(e, arg)] vws its →
      Spells decls is ws → Spells decls (its ++ is) (longWord e arg :: (vws ++ ws))
  | short {letters arg vws its is ws} : EntryOK letters → letters.head? ≠ some '-' → ArgOK arg →
      PairsSpell decls (pairsOf (.short letters arg)) vws its →
      Spells decls is ws → Spells decls (its ++ is) (shortWord letters arg :: (vws ++ ws))

theorem loop_spelling {decls : List Decl} {is : List Item} {ws : List String} (h : Spells decls is ws) :
    ∀ fuel, ws.length ≤ fuel → ∀ st, Agree (loop decls fuel ws st) (denote is st) := by
  induction h with
  | nil => intro fuel _ st; rw [loop_nil]; exact rfl
  | rest t =>
    intro fuel hf st
    cases fuel with
    | zero => simp at hf
    | succ f => rw [loop_terminator]; exact rfl
  | @text w is ws hc _ ih =>
    intro fuel hf st
    cases fuel with
    | zero => simp at hf
    | succ f =>
      rw [loop_text _ _ _ _ _ hc]
      simp only [denote]
      exact ih f (by simpa using hf) _
  | @long e arg vws its is ws he ha hp _ ih =>
    intro fuel hf st
    cases fuel with
    | zero => simp at hf
    | succ f =>
      rw [loop_long _ _ _ _ _ _ _ (classify_long e arg he ha)]
      have hl : ws.length ≤ f := by
        simp only [List.length_cons, List.length_append] at hf; omega
      exact pairs_step hp _ ws f is (ih f hl) st
  | @short letters arg vws its is ws he hd ha hp _ ih =>
    intro fuel hf st
    cases fuel with
    | zero => simp at hf
    | succ f =>
      rw [loop_short _ _ _ _ _ _ _ (classify_short letters arg he hd ha)]
      have hl : ws.length ≤ f := by
        simp only [List.length_cons, List.length_append] at hf; omega
      exact pairs_step hp _ ws f is (ih f hl) st

/-- a command line is parsed to what its items mean, however they are spelled -/
theorem parse_spelling {decls : List Decl} {is : List Item} {ws : List String} (h : Spells decls is ws) :
    Agree (parse decls ws) (denote is {}) :=
  loop_spelling h _ (Nat.le_succ _) _

/-- two spellings of the same items are parsed alike -/
theorem spellings_agree {decls : List Decl} {is : List Item} {ws ws' : List String}
    (h : Spells decls is ws) (h' : Spells decls is ws') : Agree (parse decls ws) (parse decls ws') :=
  (parse_spelling h).trans (parse_spelling h').symm

/-- the parse succeeds exactly when the items are valid, with the state they denote -/
theorem spelling_ok_iff {decls : List Decl} {is : List Item} {ws : List String} (h : Spells decls is ws) :
    (∀ st, parse decls ws = .ok st ↔ denote is {} = .ok st) ∧
    ((∃ st, parse decls ws = .ok st) ↔ (∃ st, denote is {} = .ok st)) := by
  have hi := (parse_spelling h).ok_iff
  exact ⟨hi, ⟨fun ⟨st, e⟩ => ⟨st, (hi st).mp e⟩, fun ⟨st, e⟩ => ⟨st, (hi st).mpr e⟩⟩⟩

/-! ## the canonical spelling -/

/-- the canonical words of an item: the declared name in full, the value glued with `=` -/
def canonWords : Item → List String
  | .flag d => [longWord d.name none]
  | .val d v => [longWord d.name (some v)]
  | .text w => [w]
  | .rest t => "--" :: t

/-- the canonical spelling of a command line -/
def canon (is : List Item) : List String := is.flatMap canonWords

/-- what every spelled list of items satisfies -/
inductive ItemsOK (decls : List Decl) : List Item → Prop
  | nil : ItemsOK decls []
  | rest (t : List String) : ItemsOK decls [.rest t]
  | text {w is} : classify w = .text → ItemsOK decls is → ItemsOK decls (.text w :: is)
  | flag {d is} : d ∈ decls → d.kind = .flag → ItemsOK decls is → ItemsOK decls (.flag d :: is)
  | val {d v is} : d ∈ decls → d.kind ≠ .flag → v ≠ "" → ItemsOK decls is → ItemsOK decls (.val d v :: is)

theorem PairsSpell.itemsOK {decls : List Decl} {ps : List (String × Option String)} {vws : List String}
    {its : List Item} (h : PairsSpell decls ps vws its) {is : List Item} (hi : ItemsOK decls is) :
    ItemsOK decls (its ++ is) := by
  induction h with
  | nil => exact hi
  | flag hr hk _ ih => exact .flag hr.mem hk ih
  | valEq hr hk hv _ ih => exact .val hr.mem hk hv ih
  | valSep hr hk _ hv _ ih => exact .val hr.mem hk hv ih

theorem Spells.itemsOK {decls : List Decl} {is : List Item} {ws : List String} (h : Spells decls is ws) :
    ItemsOK decls is := by
  induction h with
  | nil => exact .nil
  | rest t => exact .rest t
  | text hc _ ih => exact .text hc ih
  | long _ _ hp _ ih => exact hp.itemsOK ih
  | short _ _ _ hp _ ih => exact hp.itemsOK ih

theorem ItemsOK.canon_spells {decls : List Decl}
    (hcanon : ∀ d ∈ decls, Resolves decls d.name d ∧ EntryOK d.name.toList)
    {is : List Item} (h : ItemsOK decls is) : Spells decls is (canon is) := by
  induction h with
  | nil => exact .nil
  | rest t => simpa [canon, canonWords] using Spells.rest (decls := decls) t
  | @text w is hc _ ih => exact Spells.text hc ih
  | @flag d is hd hk _ ih =>
    have := Spells.long (decls := decls) (e := d.name) (arg := none) (vws := []) (its := [.flag d])
      (hcanon d hd).2 trivial (.flag (hcanon d hd).1 hk .nil) ih
    exact this
  | @val d v is hd hk hv _ ih =>
    have := Spells.long (decls := decls) (e := d.name) (arg := some v) (vws := []) (its := [.val d v])
      (hcanon d hd).2 hv (.valEq (hcanon d hd).1 hk hv .nil) ih
    exact this

/-- the canonical spelling is a spelling -/
theorem canon_spells {decls : List Decl}
    (hcanon : ∀ d ∈ decls, Resolves decls d.name d ∧ EntryOK d.name.toList)
    {is : List Item} {ws : List String} (h : Spells decls is ws) : Spells decls is (canon is) :=
  h.itemsOK.canon_spells hcanon

/-- **any spelling of a command line is parsed like its canonical spelling** (abbreviations, aliases,
bundled letters, `=value` or a separate value word) -/
theorem canonical_spelling (decls : List Decl)
    (hcanon : ∀ d ∈ decls, Resolves decls d.name d ∧ EntryOK d.name.toList)
    (is : List Item) (ws : List String) (h : Spells decls is ws) :
    Agree (parse decls ws) (parse decls (canon is)) :=
  spellings_agree h (canon_spells hcanon h)

/-! ## the three tables -/

theorem declOf_name {decls : List Decl} (hn : (decls.flatMap Decl.keys).Nodup) {d : Decl} (hd : d ∈ decls) :
    declOf decls d.name = some d := by
  induction decls with
  | nil => cases hd
  | cons d0 t ih =>
    rw [List.flatMap_cons, List.nodup_append] at hn
    obtain ⟨_, h2, h3⟩ := hn
    unfold declOf
    rcases List.mem_cons.mp hd with rfl | hm
    · simp [Decl.keys]
    · have hk : d.name ∈ t.flatMap Decl.keys := List.mem_flatMap.mpr ⟨d, hm, by simp [Decl.keys]⟩
      have hno : d0.keys.contains d.name = false := by
        cases hc : d0.keys.contains d.name with
        | false => rfl
        | true => exact absurd rfl (h3 _ (by simpa using hc) _ hk)
      rw [List.find?_cons, hno]
      exact ih h2 hm

theorem resolves_name {decls : List Decl} (hn : (decls.flatMap Decl.keys).Nodup) {d : Decl} (hd : d ∈ decls) :
    Resolves decls d.name d :=
  ⟨d.name, matchesOf_exact decls d.name (List.mem_flatMap.mpr ⟨d, hd, by simp [Decl.keys]⟩), declOf_name hn hd⟩

theorem canon_of_nodup {decls : List Decl} (hn : (decls.flatMap Decl.keys).Nodup)
    (he : ∀ d ∈ decls, EntryOK d.name.toList) :
    ∀ d ∈ decls, Resolves decls d.name d ∧ EntryOK d.name.toList :=
  fun d hd => ⟨resolves_name hn hd, he d hd⟩

theorem grepDecls_nodup : (grepDecls.flatMap Decl.keys).Nodup := by
  simp [grepDecls, commonDecls, inputDecls, outputDecls, pairedDecls, selectionDecls, Decl.keys]

theorem annotDecls_nodup : (annotDecls.flatMap Decl.keys).Nodup := by
  simp [annotDecls, annotationDecls, grepDecls, commonDecls, inputDecls, outputDecls, pairedDecls,
    selectionDecls, Decl.keys]

theorem distDecls_nodup : (distDecls.flatMap Decl.keys).Nodup := by
  simp [distDecls, distributeDecls, commonDecls, inputDecls, outputDecls, Decl.keys]

theorem grepDecls_canon : ∀ d ∈ grepDecls, Resolves grepDecls d.name d ∧ EntryOK d.name.toList :=
  canon_of_nodup grepDecls_nodup (by
    simp [grepDecls, commonDecls, inputDecls, outputDecls, pairedDecls, selectionDecls, EntryOK])

theorem annotDecls_canon : ∀ d ∈ annotDecls, Resolves annotDecls d.name d ∧ EntryOK d.name.toList :=
  canon_of_nodup annotDecls_nodup (by
    simp [annotDecls, annotationDecls, grepDecls, commonDecls, inputDecls, outputDecls, pairedDecls,
      selectionDecls, EntryOK])

theorem distDecls_canon : ∀ d ∈ distDecls, Resolves distDecls d.name d ∧ EntryOK d.name.toList :=
  canon_of_nodup distDecls_nodup (by
    simp [distDecls, distributeDecls, commonDecls, inputDecls, outputDecls, EntryOK])

/-! ## a concrete line (obigrep): the theorem is not vacuous -/

namespace Example

def dV : Decl := { name := "inverse-match", aliases := ["v"], kind := .flag }
def dL : Decl := { name := "min-length", aliases := ["l"], kind := .int }
def dC : Decl := { name := "min-count", aliases := ["c"], kind := .int }

def items : List Item := [.flag dV, .val dL "3", .val dC "2", .text "x", .rest ["-y"]]

theorem resolves_v : Resolves grepDecls "v" dV := ⟨"v", by decide, by rfl⟩
theorem resolves_l : Resolves grepDecls "l" dL := ⟨"l", by decide, by rfl⟩
theorem resolves_minc : Resolves grepDecls "min-c" dC := ⟨"min-count", by decide, by rfl⟩

/-- `-vl 3 --min-c=2 x -- -y` spells: `--inverse-match`, `--min-length=3`, `--min-count=2`, the word `x`,
then `-y` as text -/
theorem spells : Spells grepDecls items ["-vl", "3", "--min-c=2", "x", "--", "-y"] := by
  have h4 : Spells grepDecls [.text "x", .rest ["-y"]] ["x", "--", "-y"] :=
    .text (by decide) (.rest ["-y"])
  have h3 := Spells.long (decls := grepDecls) (e := "min-c") (arg := some "2") (vws := [])
    (its := [.val dC "2"]) (by decide) (by decide)
    (.valEq resolves_minc (by decide) (by decide) .nil) h4
  have h1 := Spells.short (decls := grepDecls) (letters := ['v', 'l']) (arg := none) (vws := ["3"])
    (its := [.flag dV, .val dL "3"]) (by decide) (by decide) trivial
    (.flag resolves_v rfl (.valSep resolves_l (by decide) (by decide) (by decide) .nil)) h3
  have w1 : shortWord ['v', 'l'] none = "-vl" := by decide
  have w3 : longWord "min-c" (some "2") = "--min-c=2" := by decide
  rw [w1, w3] at h1
  exact h1

example : canon items = ["--inverse-match", "--min-length=3", "--min-count=2", "x", "--", "-y"] := by decide

/-- both spellings are parsed alike -/
example : Agree (parse grepDecls ["-vl", "3", "--min-c=2", "x", "--", "-y"])
    (parse grepDecls ["--inverse-match", "--min-length=3", "--min-count=2", "x", "--", "-y"]) :=
  canonical_spelling grepDecls grepDecls_canon items _ spells

end Example

end ObiVerif.Getopt
