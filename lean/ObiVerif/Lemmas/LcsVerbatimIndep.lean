import ObiVerif.Lemmas.LcsVerbatimRel
import ObiVerif.Lemmas.LcsVerbatimTop
/-!
# C09: both modes of the verbatim kernel — no panic, one answer whatever the scratch buffer

`init_rel`, `runFrom_rel` (two runs on two arbitrary buffers both succeed with the same `(score, length, end)`),
`fastLCS_anymode_independent`, `lcsHistory_fresh_anymode`.
-/
namespace ObiVerif.Lcs


theorem init_rel {g : Geo} {A B : Seq} (hg : GeoW g A B) (b1 b2 : Array UInt64) (v : UInt64)
    (hsz1 : g.width ≤ b1.size) (hsz2 : g.width ≤ b2.size) :
    let f := fun (b : Array UInt64) => ((b.setIfInBounds (0 + g.extra.toNat) emptyV).setIfInBounds (0 + (g.extra + g.even).toNat)
      v).setIfInBounds (0 + (g.extra + g.even - 1).toNat) (encodeValues 0 1 false)
    EvenEq g A B (f b1) (f b2) 0 0 ∧ OddEq g A B (f b1) (f b2) 0 0 := by
  obtain ⟨hA, hB, hlA, hlB, hle, hextra, heven, hwidth⟩ := hg
  refine ⟨?_, ?_⟩
  · intro x i j h1 h2 h3 h4 h5 h6
    have ex : x = g.extra := by omega
    subst ex
    simp only []
    rw [getD_set_ne _ _ _ _ (by omega), getD_set_ne _ _ _ _ (by omega), getD_set_eq _ _ _ (by omega),
      getD_set_ne _ _ _ _ (by omega), getD_set_ne _ _ _ _ (by omega), getD_set_eq _ _ _ (by omega)]
  · intro x i j h1 h2 h3 h4 h5 h6
    have ex : x = g.extra + g.even ∨ x = g.extra + g.even - 1 := by omega
    simp only []
    rcases ex with ex | ex
    · subst ex
      rw [getD_set_ne _ _ _ _ (by omega), getD_set_eq _ _ _ (by simp; omega),
        getD_set_ne _ _ _ _ (by omega), getD_set_eq _ _ _ (by simp; omega)]
    · subst ex
      rw [getD_set_eq _ _ _ (by simp; omega), getD_set_eq _ _ _ (by simp; omega)]

/-- two runs of the body of `FastLCSEGFScoreByte` (either mode) on two arbitrary buffers: both succeed, same answer -/
theorem runFrom_rel (su : Setup) (A B : Seq) (hg : GeoW su.g A B) (hd : su.delta = su.g.lA - su.g.lB)
    (hN : (su.N : Int) = su.g.lB + su.delta / 2) (b1 b2 : Array UInt64)
    (hsz1 : 2 * su.g.width ≤ b1.size) (hsz2 : 2 * su.g.width ≤ b2.size) :
    ∃ r b1' b2', runFrom su b1 = .ok (r, b1') ∧ runFrom su b2 = .ok (r, b2') := by
  have hg' := hg
  obtain ⟨hA, hB, hlA, hlB, hle, hextra, heven, hwidth⟩ := hg
  obtain ⟨hE0, hO0⟩ := init_rel hg' b1 b2 (if su.g.egf then encodeValues 0 0 false else encodeValues 0 1 false)
    (by omega) (by omega)
  simp only [] at hE0 hO0
  obtain ⟨t1, t2, p', e1, e2, q1, q3, q4, q5⟩ := outer_rel hg' su.N 1 0 su.g.width
    ⟨((b1.setIfInBounds (0 + su.g.extra.toNat) emptyV).setIfInBounds (0 + (su.g.extra + su.g.even).toNat)
      (if su.g.egf then encodeValues 0 0 false else encodeValues 0 1 false)).setIfInBounds
        (0 + (su.g.extra + su.g.even - 1).toNat) (encodeValues 0 1 false), 0, 0⟩
    ⟨((b2.setIfInBounds (0 + su.g.extra.toNat) emptyV).setIfInBounds (0 + (su.g.extra + su.g.even).toNat)
      (if su.g.egf then encodeValues 0 0 false else encodeValues 0 1 false)).setIfInBounds
        (0 + (su.g.extra + su.g.even - 1).toNat) (encodeValues 0 1 false), 0, 0⟩
    (by omega) (by simp; omega) (by simp; omega) (by simp; omega) (by simp; omega) rfl rfl
    (by simpa using hE0) (by simpa using hO0)
  have hx0 : 0 ≤ su.delta % 2 * su.g.even + su.g.extra + su.delta / 2 := by
    have : 0 ≤ su.delta % 2 * su.g.even := Int.mul_nonneg (by omega) (by omega)
    omega
  have hpar : su.delta % 2 = 0 ∨ su.delta % 2 = 1 := by omega
  have hx1 : su.delta % 2 * su.g.even + su.g.extra + su.delta / 2 < (su.g.width : Int) := by
    rcases hpar with h | h <;> rw [h] <;> omega
  have hv : t1.buf.getD (p' + (su.delta % 2 * su.g.even + su.g.extra + su.delta / 2).toNat) 0 =
      t2.buf.getD (p' + (su.delta % 2 * su.g.even + su.g.extra + su.delta / 2).toNat) 0 := by
    rcases hpar with h | h
    · rw [h]
      exact q4 _ B.length A.length (by omega) (by omega) (by omega) (by omega) (by omega) (by omega)
    · rw [h]
      exact q5 _ B.length A.length (by omega) (by omega) (by omega) (by omega) (by omega) (by omega)
  have run : ∀ (b : Array UInt64) (t : St), outer su.g su.N 1 0 su.g.width
      ⟨((b.setIfInBounds (0 + su.g.extra.toNat) emptyV).setIfInBounds (0 + (su.g.extra + su.g.even).toNat)
      (if su.g.egf then encodeValues 0 0 false else encodeValues 0 1 false)).setIfInBounds
        (0 + (su.g.extra + su.g.even - 1).toNat) (encodeValues 0 1 false), 0, 0⟩ = .ok (t, p') →
      runFrom su b = .ok ((if (decodeValues (t.buf.getD (p' + (su.delta % 2 * su.g.even + su.g.extra + su.delta / 2).toNat) 0)).2.2
          then (-1, -1, -1) else
          (((decodeValues (t.buf.getD (p' + (su.delta % 2 * su.g.even + su.g.extra + su.delta / 2).toNat) 0)).1 : Int),
           ((decodeValues (t.buf.getD (p' + (su.delta % 2 * su.g.even + su.g.extra + su.delta / 2).toNat) 0)).2.1 : Int),
           t.endp)), t.buf) := by
    intro b t ht
    unfold runFrom
    simp only []
    rw [wr_ok _ _ _ _ _ (by omega) (by omega)]
    simp only [bind, Except.bind]
    rw [wr_ok _ _ _ _ _ (by omega) (by omega)]
    simp only []
    rw [wr_ok _ _ _ _ _ (by omega) (by omega)]
    simp only []
    rw [ht]
    simp only []
    rw [rd_ok _ _ _ _ hx0 hx1]
    simp only []
    split <;> rfl
  refine ⟨_, t1.buf, t2.buf, run b1 t1 e1, ?_⟩
  rw [run b2 t2 e2, hv, q1]

theorem setup_geoW (A B : Seq) (h : B.length ≤ A.length) (e : Int) (egf : Bool) :
    setup A B e egf = none ∨
    ∃ su, setup A B e egf = some su ∧ GeoW su.g A B ∧ su.delta = su.g.lA - su.g.lB ∧
      (su.N : Int) = su.g.lB + su.delta / 2 := by
  have h' : ¬ A.length < B.length := by omega
  simp only [setup, h', if_false]
  generalize (if egf = true then _ else _ : Int) = me
  by_cases hd : (A.length : Int) - (B.length : Int) > me
  · left; simp [hd]
  · right
    simp only [hd, if_false]
    refine ⟨_, rfl, ⟨rfl, rfl, rfl, rfl, h, by simp only []; omega, rfl, by simp only []; omega⟩, rfl, ?_⟩
    simp only []; omega

/-- either mode, ordered pair: one answer for every buffer large enough -/
theorem runFrom_independent_AB (A B : Seq) (h : B.length ≤ A.length) (e : Int) (egf : Bool) :
    match setup A B e egf with
    | none => True
    | some su => ∃ r, ∀ buf : Array UInt64, 2 * su.g.width ≤ buf.size → ∃ buf', runFrom su buf = .ok (r, buf') := by
  rcases setup_geoW A B h e egf with h1 | ⟨su, h1, hg, hd, hN⟩
  · rw [h1]; trivial
  · rw [h1]
    obtain ⟨r, b1', _, hr, _⟩ := runFrom_rel su A B hg hd hN (fillBuf su.g.width none) (fillBuf su.g.width none)
      (fillBuf_size _ _) (fillBuf_size _ _)
    refine ⟨r, fun buf hsz => ?_⟩
    obtain ⟨r', c1, c2, hr1, hr2⟩ := runFrom_rel su A B hg hd hN buf (fillBuf su.g.width none) hsz (fillBuf_size _ _)
    rw [hr] at hr2
    have : r = r' := by injection hr2 with h2; injection h2
    subst this
    exact ⟨c1, hr1⟩

theorem runFrom_independent (a b : Seq) (e : Int) (egf : Bool) :
    match setup a b e egf with
    | none => True
    | some su => ∃ r, ∀ buf : Array UInt64, 2 * su.g.width ≤ buf.size → ∃ buf', runFrom su buf = .ok (r, buf') := by
  by_cases h : a.length < b.length
  · rw [setup_swap a b e egf h]
    exact runFrom_independent_AB b a (by omega) e egf
  · exact runFrom_independent_AB a b (by omega) e egf

/-- **both modes**: the verbatim kernel never panics and its answer `(score, length, end)` is the same for every
scratch buffer — nil, pre-allocated with any stale word, or the caller's buffer of any capacity and content -/
theorem fastLCS_anymode_independent (a b : Seq) (e : Int) (egf : Bool) :
    ∃ r, (∀ fill, fastLCSEGFScoreByte a b e egf fill = .ok r) ∧
      (∀ buf0, ∃ buf', fastLCSBuf a b e egf buf0 = .ok (r, buf')) := by
  have := runFrom_independent a b e egf
  cases hs : setup a b e egf with
  | none =>
    refine ⟨(-1, -1, -1), fun fill => ?_, fun buf0 => ⟨buf0, ?_⟩⟩
    · rw [fastLCSEGFScoreByte_eq_runFrom, hs]
    · simp only [fastLCSBuf, hs]
  | some su =>
    rw [hs] at this
    obtain ⟨r, hr⟩ := this
    refine ⟨r, fun fill => ?_, fun buf0 => ?_⟩
    · rw [fastLCSEGFScoreByte_eq_runFrom, hs]
      obtain ⟨buf', hb⟩ := hr _ (fillBuf_size su.g.width fill)
      simp only [hb]; rfl
    · simp only [fastLCSBuf, hs]
      exact hr _ (callerBuf_size _ _)

/-- **both modes**: a history of calls on ONE scratch buffer, in any order, from any initial buffer: every answer is
the answer of the same call on a fresh (nil) buffer, and no call panics -/
theorem lcsHistory_fresh_anymode (calls : List (Seq × Seq × Int × Bool)) :
    ∀ buf0 : Array UInt64,
      lcsHistory calls buf0 = calls.map (fun c => fastLCSEGFScoreByte c.1 c.2.1 c.2.2.1 c.2.2.2 none) := by
  induction calls with
  | nil => intro _; rfl
  | cons c cs ih =>
    intro buf0
    obtain ⟨a, b, e, egf⟩ := c
    obtain ⟨r, h1, h2⟩ := fastLCS_anymode_independent a b e egf
    obtain ⟨buf', hb⟩ := h2 buf0
    simp only [lcsHistory, hb, List.map_cons, h1 none, ih buf']


end ObiVerif.Lcs
