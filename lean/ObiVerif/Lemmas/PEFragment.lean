import ObiVerif.Lemmas.PERows
/-!
# C08: the consensus along the true path of two error-free reads is the fragment they were cut from
-/
namespace ObiVerif.PEAlign
open ObiVerif.Align

/-- the 15 IUPAC nucleotide symbols, lower case -/
def sym15 : List UInt8 := "acgtrymkswbdhvn".toList.map (fun c => UInt8.ofNat c.toNat)

/-- a column holding the same base twice keeps it, whatever the qualities -/
theorem consBase_same (n qA qB : UInt8) : consBase n qA n qB = n := by
  unfold consBase
  by_cases h : qB > qA <;> simp [h]

/-- a base opposite the gap filler (' ', quality 0) is kept, whatever its quality (also quality 0: the
IUPAC union with the code of ' ' is the base itself) — decided over the regenerated tables -/
theorem consBase_gap (n : UInt8) (hn : n ∈ sym15) (q : UInt8) :
    consBase 32 0 n q = n ∧ consBase n q 32 0 = n := by
  have hdec : ∀ n ∈ sym15,
      UInt8.ofNat (Gen.fourBitsBaseDecode.getD (fourCode 32 ||| fourCode n) 0) = n ∧
      UInt8.ofNat (Gen.fourBitsBaseDecode.getD (fourCode n ||| fourCode 32) 0) = n ∧ n ≠ 32 := by decide
  obtain ⟨d1, d2, d3⟩ := hdec n hn
  unfold consBase
  by_cases hq : q > 0
  · have h1 : ¬ ((0 : UInt8) > q) := by
      simp only [gt_iff_lt, UInt8.lt_iff_toNat_lt] at hq ⊢; omega
    have h2 : ¬ ((0 : UInt8) = q) := by
      intro e; subst e; simp only [gt_iff_lt, UInt8.lt_iff_toNat_lt] at hq; omega
    simp [hq, h1, h2]
  · have hq0 : q = 0 := by
      simp only [gt_iff_lt, UInt8.lt_iff_toNat_lt, UInt8.toNat_zero] at hq
      exact UInt8.toNat_inj.mp (by simp; omega)
    subst hq0
    have h1 : ¬ ((0 : UInt8) > 0) := by decide
    simp only [h1, if_false, true_and]
    have e1 : (32 : UInt8) ≠ n := fun e => d3 e.symm
    simp only [List.getD_eq_getElem?_getD] at d1 d2
    simp [e1, d3, d1, d2]

/-- the base written in a column, from the positions the column shows -/
def colBase (a qa b qb : Bytes) (c : Col) : UInt8 :=
  consBase (cellOf a 32 c.1) (cellOf qa 0 c.1) (cellOf b 32 c.2) (cellOf qb 0 c.2)

/-- the bases of `consLoop` are `consBase` column by column, whatever the carried `qM`/`qm` -/
theorem consLoop_seq_map (adj : UInt8 → UInt8) (a qa b qb : Bytes) : ∀ (cols : List Col) (qM qm : UInt8),
    (consLoop adj qM qm (cols.map fun c => cellOf a 32 c.1) (cols.map fun c => cellOf b 32 c.2)
      (cols.map fun c => cellOf qa 0 c.1) (cols.map fun c => cellOf qb 0 c.2)).1 = cols.map (colBase a qa b qb)
  | [], _, _ => by simp [consLoop]
  | c :: cs, qM, qm => by
    simp only [List.map_cons, consLoop]
    rw [consLoop_seq_map adj a qa b qb cs]
    rfl

/-- the consensus sequence of a consuming path, as a list -/
theorem consensus_seq (adj : UInt8 → UInt8) (a qa b qb : Bytes) (p : Path)
    (hqa : qa.length = a.length) (hqb : qb.length = b.length) (hp : consumes p a.length b.length) :
    ∃ c, consensus adj a qa b qb p = some c ∧ c.seq = (columns p 0 0).map (colBase a qa b qb) := by
  obtain ⟨hw, hA, hB⟩ := hp
  have h1 := buildAlignment_rows a b 32 p 0 0 hw (by omega) (by omega)
  have h2 := buildAlignment_rows qa qb 0 p 0 0 hw (by omega) (by omega)
  simp only [consensus, h1, h2]
  exact ⟨_, rfl, consLoop_seq_map adj a qa b qb (columns p 0 0) 0 0⟩

theorem getD_mem (x : Bytes) (k : Nat) (g : UInt8) (h : k < x.length) : x.getD k g ∈ x := by
  rw [List.getD_eq_getElem?_getD, List.getElem?_eq_getElem h]
  exact List.getElem_mem h

theorem colsA_base (a qa b qb : Bytes) (ha : ∀ x ∈ a, x ∈ sym15) : ∀ n i, i + n ≤ a.length →
    (colsA n i).map (colBase a qa b qb) = (a.drop i).take n
  | 0, _, _ => by simp [colsA]
  | n + 1, i, h => by
    rw [take_drop_cons a 32 i n h]
    simp only [colsA, List.map_cons]
    rw [colsA_base a qa b qb ha n (i + 1) (by omega)]
    congr 1
    exact (consBase_gap _ (ha _ (getD_mem a i 32 (by omega))) _).2

theorem colsB_base (a qa b qb : Bytes) (hb : ∀ x ∈ b, x ∈ sym15) : ∀ n j, j + n ≤ b.length →
    (colsB n j).map (colBase a qa b qb) = (b.drop j).take n
  | 0, _, _ => by simp [colsB]
  | n + 1, j, h => by
    rw [take_drop_cons b 32 j n h]
    simp only [colsB, List.map_cons]
    rw [colsB_base a qa b qb hb n (j + 1) (by omega)]
    congr 1
    exact (consBase_gap _ (hb _ (getD_mem b j 32 (by omega))) _).1

/-- diagonal columns over an error-free stretch give the stretch (read from A; it is also B's) -/
theorem colsD_base (a qa b qb : Bytes) : ∀ n i j, i + n ≤ a.length →
    (∀ k, k < n → a.getD (i + k) 32 = b.getD (j + k) 32) →
    (colsD n i j).map (colBase a qa b qb) = (a.drop i).take n
  | 0, _, _, _, _ => by simp [colsD]
  | n + 1, i, j, h, he => by
    rw [take_drop_cons a 32 i n h]
    simp only [colsD, List.map_cons]
    rw [colsD_base a qa b qb n (i + 1) (j + 1) (by omega)
      (fun k hk => by have := he (k + 1) (by omega); rwa [← Nat.add_assoc, ← Nat.add_assoc, Nat.add_right_comm i k 1, Nat.add_right_comm j k 1] at this)]
    congr 1
    have := he 0 (by omega)
    simp only [Nat.add_zero] at this
    simp only [colBase, cellOf]
    rw [← this]
    exact consBase_same _ _ _

/-- the same stretch read from B -/
theorem colsD_baseB (a qa b qb : Bytes) : ∀ n i j, j + n ≤ b.length →
    (∀ k, k < n → a.getD (i + k) 32 = b.getD (j + k) 32) →
    (colsD n i j).map (colBase a qa b qb) = (b.drop j).take n
  | 0, _, _, _, _ => by simp [colsD]
  | n + 1, i, j, h, he => by
    rw [take_drop_cons b 32 j n h]
    simp only [colsD, List.map_cons]
    rw [colsD_baseB a qa b qb n (i + 1) (j + 1) (by omega)
      (fun k hk => by have := he (k + 1) (by omega); rwa [← Nat.add_assoc, ← Nat.add_assoc, Nat.add_right_comm i k 1, Nat.add_right_comm j k 1] at this)]
    congr 1
    have := he 0 (by omega)
    simp only [Nat.add_zero] at this
    simp only [colBase, cellOf]
    rw [this]
    exact consBase_same _ _ _

/-- the columns of the true path, A first: `d` bases of A alone, `ov` paired columns, `e` bases of B alone -/
theorem columns_true_left (d ov e : Nat) :
    columns [-(d : Int), (ov : Int), (e : Int), 0] 0 0 = colsA d 0 ++ colsD ov d 0 ++ colsB e ov := by
  have h1 : (-(-(d : Int))).toNat = d := by omega
  have h2 : (-(d : Int)).toNat = 0 := by omega
  have h3 : (-(e : Int)).toNat = 0 := by omega
  simp [columns, h2, h3, colsA, colsB, colsD]

/-- the columns of the true path, B first: `d` bases of B alone, `ov` paired columns, `e` bases of A alone -/
theorem columns_true_right (d ov e : Nat) :
    columns [(d : Int), (ov : Int), -(e : Int), 0] 0 0 = colsB d 0 ++ colsD ov 0 d ++ colsA e ov := by
  have h1 : (-(-(e : Int))).toNat = e := by omega
  have h2 : (-(d : Int)).toNat = 0 := by omega
  have h3 : (-(e : Int)).toNat = 0 := by omega
  simp [columns, h2, h3, colsA, colsB, colsD]

theorem consumes_true_left (d ov e : Nat) : consumes [-(d : Int), (ov : Int), (e : Int), 0] (d + ov) (ov + e) := by
  refine ⟨by simp [wf], ?_, ?_⟩
  · simp only [usedA]; omega
  · simp only [usedB]; omega

theorem consumes_true_right (d ov e : Nat) : consumes [(d : Int), (ov : Int), -(e : Int), 0] (ov + e) (d + ov) := by
  refine ⟨by simp [wf], ?_, ?_⟩
  · simp only [usedA]; omega
  · simp only [usedB]; omega

/-- **A first**: `a = X ++ O`, `b = O ++ Y` with `|X| = d`, `|O| = ov`, `|Y| = e`, no sequencing error in the
overlap: the consensus along the true path is `X ++ O ++ Y = a ++ b.drop ov` -/
theorem consensus_true_left (adj : UInt8 → UInt8) (a qa b qb : Bytes) (d ov e : Nat)
    (hla : a.length = d + ov) (hlb : b.length = ov + e) (hqa : qa.length = a.length) (hqb : qb.length = b.length)
    (ha : ∀ x ∈ a, x ∈ sym15) (hb : ∀ x ∈ b, x ∈ sym15)
    (hov : ∀ k, k < ov → a.getD (d + k) 32 = b.getD k 32) :
    ∃ c, consensus adj a qa b qb [-(d : Int), (ov : Int), (e : Int), 0] = some c ∧ c.seq = a ++ b.drop ov := by
  have hp : consumes [-(d : Int), (ov : Int), (e : Int), 0] a.length b.length := by
    rw [hla, hlb]; exact consumes_true_left d ov e
  obtain ⟨c, hc, hs⟩ := consensus_seq adj a qa b qb _ hqa hqb hp
  refine ⟨c, hc, ?_⟩
  rw [hs, columns_true_left, List.map_append, List.map_append,
    colsA_base a qa b qb ha d 0 (by omega),
    colsD_base a qa b qb ov d 0 (by omega) (fun k hk => by simpa using hov k hk),
    colsB_base a qa b qb hb e ov (by omega)]
  have e1 : List.take e (List.drop ov b) = List.drop ov b := List.take_of_length_le (by simp; omega)
  have e2 : List.take ov (List.drop d a) = List.drop d a := List.take_of_length_le (by simp; omega)
  rw [e1, e2, List.drop_zero, List.take_append_drop]

/-- **B first**: `b = X ++ O`, `a = O ++ Y`: the consensus along the true path is `b ++ a.drop ov` -/
theorem consensus_true_right (adj : UInt8 → UInt8) (a qa b qb : Bytes) (d ov e : Nat)
    (hla : a.length = ov + e) (hlb : b.length = d + ov) (hqa : qa.length = a.length) (hqb : qb.length = b.length)
    (ha : ∀ x ∈ a, x ∈ sym15) (hb : ∀ x ∈ b, x ∈ sym15)
    (hov : ∀ k, k < ov → a.getD k 32 = b.getD (d + k) 32) :
    ∃ c, consensus adj a qa b qb [(d : Int), (ov : Int), -(e : Int), 0] = some c ∧ c.seq = b ++ a.drop ov := by
  have hp : consumes [(d : Int), (ov : Int), -(e : Int), 0] a.length b.length := by
    rw [hla, hlb]; exact consumes_true_right d ov e
  obtain ⟨c, hc, hs⟩ := consensus_seq adj a qa b qb _ hqa hqb hp
  refine ⟨c, hc, ?_⟩
  have hD : (colsD ov 0 d).map (colBase a qa b qb) = (b.drop d).take ov :=
    colsD_baseB a qa b qb ov 0 d (by omega) (fun k hk => by simpa using hov k hk)
  rw [hs, columns_true_right, List.map_append, List.map_append,
    colsB_base a qa b qb hb d 0 (by omega), hD,
    colsA_base a qa b qb ha e ov (by omega)]
  have e1 : List.take e (List.drop ov a) = List.drop ov a := List.take_of_length_le (by simp; omega)
  have e2 : List.take ov (List.drop d b) = List.drop d b := List.take_of_length_le (by simp; omega)
  rw [e1, e2, List.drop_zero, List.take_append_drop]

end ObiVerif.PEAlign
