import ObiVerif.Lemmas.Apat
import ObiVerif.Lemmas.ApatLocate
/-!
# The Wu–Manber automaton with insertions, deletions and substitutions (`ManberIndel`) is exact (C10, `indel_iff`)

* `Within rq s e`: the (reversed) pattern prefix `rq` aligns with some suffix of the text read (reversed: `s`) at a cost
  `≤ e`; `within_step`: its recurrence (identity / insertion / substitution / deletion)
* `indelStep_bit`: one step of the automaton, bit by bit
* `RepI`: the automaton invariant — bit `m - j` of the level-`e` word ⇔ `p[0..j)` matches a suffix of the text read with
  at most `e` errors; `indelStep_repI`, `indelLevels_repI`, `runLevels_repI`, `indelInit_repI`
* `manberIndel_mem`: a hit `(pos - m + 1, k)` is pushed iff `k ≤ maxerr` is the least edit distance between the pattern
  and a substring of the scanned window ending at `pos`

Hypothesis `∀ a ∈ codes, oblig a = false`: no obligatory (`#`) position.  (With `#` the C code masks the three error
transitions at the obligatory column, which is neither "no error at this position" nor a documented semantics.)
-/
namespace ObiVerif.Apat

/-! ## costs within a budget -/

/-- the reversed pattern prefix `rq` aligns with a prefix of `s` (= a suffix of the text read) at a cost `≤ e` -/
def Within (rq s : List Nat) (e : Nat) : Prop := ∃ k, k ≤ e ∧ Reach accepts false rq s k

theorem within_nil (s : List Nat) (e : Nat) : Within [] s e :=
  ⟨0, Nat.zero_le _, (least_nilpat accepts false s).1⟩

theorem within_niltext (rq : List Nat) (e : Nat) : Within rq [] e ↔ rq.length ≤ e := by
  have h := least_niltext accepts false rq
  constructor
  · rintro ⟨k, hk, hr⟩
    have := h.2 k hr
    omega
  · intro hle
    exact ⟨rq.length, hle, h.1⟩

theorem within_mono (rq s : List Nat) (e e' : Nat) (h : Within rq s e) (hle : e ≤ e') : Within rq s e' := by
  obtain ⟨k, hk, hr⟩ := h
  exact ⟨k, by omega, hr⟩

/-- the recurrence of approximate matching with a budget (Wu–Manber): identity, or (budget permitting) insertion of the
text symbol, substitution, deletion of the pattern symbol -/
theorem within_step (a c : Nat) (rq s : List Nat) (e : Nat) :
    Within (a :: rq) (c :: s) e ↔
      (Within rq s e ∧ accepts a c = true) ∨
      (∃ e', e = e' + 1 ∧ (Within (a :: rq) s e' ∨ Within rq s e' ∨ Within rq (c :: s) e')) := by
  constructor
  · rintro ⟨k, hk, x, u, v, hx, hf, ha⟩
    have hx0 := hf rfl
    subst hx0
    simp only [List.nil_append] at hx
    cases ha with
    | @sub _ c' _ w k' ha' =>
      simp only [List.cons_append, List.cons.injEq] at hx
      obtain ⟨hc, hrs⟩ := hx
      subst hc
      by_cases hacc : accepts a c = true
      · left
        refine ⟨⟨k', ?_, [], w, v, hrs, fun _ => rfl, ha'⟩, hacc⟩
        simp only [subCost, hacc, if_true] at hk
        omega
      · right
        simp only [subCost, hacc, Bool.false_eq_true, if_false] at hk
        exact ⟨e - 1, by omega, Or.inr (Or.inl ⟨k', by omega, [], w, v, hrs, fun _ => rfl, ha'⟩)⟩
    | @del _ _ _ k' ha' =>
      right
      exact ⟨e - 1, by omega, Or.inr (Or.inr ⟨k', by omega, [], u, v, hx, fun _ => rfl, ha'⟩)⟩
    | @ins c' _ w k' ha' =>
      simp only [List.cons_append, List.cons.injEq] at hx
      obtain ⟨_, hrs⟩ := hx
      right
      exact ⟨e - 1, by omega, Or.inl ⟨k', by omega, [], w, v, hrs, fun _ => rfl, ha'⟩⟩
  · rintro (⟨⟨k, hk, x, u, v, hx, hf, ha⟩, hacc⟩ | ⟨e', rfl, h | h | h⟩)
    · have hx0 := hf rfl
      subst hx0
      refine ⟨k + subCost accepts a c, ?_, [], c :: u, v, by rw [hx]; rfl, fun _ => rfl, Ali.sub a c ha⟩
      simp only [subCost, hacc, if_true]
      omega
    · obtain ⟨k, hk, x, u, v, hx, hf, ha⟩ := h
      have hx0 := hf rfl
      subst hx0
      exact ⟨k + 1, by omega, [], c :: u, v, by rw [hx]; rfl, fun _ => rfl, Ali.ins c ha⟩
    · obtain ⟨k, hk, x, u, v, hx, hf, ha⟩ := h
      have hx0 := hf rfl
      subst hx0
      refine ⟨k + subCost accepts a c, ?_, [], c :: u, v, by rw [hx]; rfl, fun _ => rfl, Ali.sub a c ha⟩
      unfold subCost
      split <;> omega
    · obtain ⟨k, hk, x, u, v, hx, hf, ha⟩ := h
      have hx0 := hf rfl
      subst hx0
      exact ⟨k + 1, by omega, [], u, v, hx, fun _ => rfl, Ali.del a ha⟩

/-! ## one step of the automaton -/

/-- new word of one error level of `ManberIndel` -/
def indelStep (smask cmask sindx pr0 pr1 r : W) : W :=
  ((pr0 ||| (pr0 >>> 1) ||| (pr1 >>> 1)) &&& cmask) ||| (((r ||| smask) >>> 1) &&& sindx)

theorem indelLevels_cons (smask cmask sindx pr0 pr1 r : W) (rs : List W) :
    indelLevels smask cmask sindx pr0 pr1 (r :: rs) =
      indelStep smask cmask sindx pr0 pr1 r ::
        indelLevels smask cmask sindx (r ||| smask) (indelStep smask cmask sindx pr0 pr1 r) rs := rfl

theorem indelStep_bit (smask cmask sindx pr0 pr1 r : W) (i : Nat) :
    (indelStep smask cmask sindx pr0 pr1 r).getLsbD i =
      ((((pr0.getLsbD i || pr0.getLsbD (i + 1)) || pr1.getLsbD (i + 1)) && cmask.getLsbD i) ||
       ((r.getLsbD (i + 1) || smask.getLsbD (i + 1)) && sindx.getLsbD i)) := by
  unfold indelStep
  simp only [BitVec.getLsbD_or, BitVec.getLsbD_and, BitVec.getLsbD_ushiftRight]
  have : 1 + i = i + 1 := by omega
  rw [this]

/-- the automaton invariant for one level -/
def RepI (codes seen : List Nat) (e : Nat) (r : W) : Prop :=
  ∀ j, 1 ≤ j → j ≤ codes.length → (r.getLsbD (codes.length - j) = true ↔ Within ((codes.take j).reverse) seen e)

/-- what the level below hands over: nothing for level 0; its old word with `smask` (`pr[0]`) and its new word (`pr[1]`) -/
def PrevOkI (codes seen : List Nat) (c e : Nat) (pr0 pr1 : W) : Prop :=
  (e = 0 ∧ pr0 = 0 ∧ pr1 = 0) ∨
  (∃ e' r', e = e' + 1 ∧ RepI codes seen e' r' ∧ pr0 = r' ||| (1#64 <<< codes.length) ∧ RepI codes (c :: seen) e' pr1)

theorem repI_prev_bit (codes seen : List Nat) (e : Nat) (r : W) (hr : RepI codes seen e r)
    (hm : codes.length ≤ 63) (j : Nat) (hj1 : 1 ≤ j) (hjm : j ≤ codes.length) :
    (r.getLsbD (codes.length - j + 1) = true ∨ (1#64 <<< codes.length).getLsbD (codes.length - j + 1) = true) ↔
      Within ((codes.take (j - 1)).reverse) seen e := by
  rw [one_shl_bit]
  by_cases h1 : j = 1
  · subst h1
    have : codes.length - 1 + 1 = codes.length := by omega
    rw [this]
    simp only [Nat.sub_self, List.take_zero, List.reverse_nil]
    constructor
    · intro _; exact within_nil _ _
    · intro _; right; simp; omega
  · have h2 : codes.length - j + 1 = codes.length - (j - 1) := by omega
    have h3 : ¬ (codes.length - (j - 1) = codes.length) := by omega
    rw [h2, hr (j - 1) (by omega) (by omega)]
    simp [h3]

theorem getD_mem_of_lt (codes : List Nat) (i : Nat) (h : i < codes.length) : codes.getD i 0 ∈ codes := by
  rw [List.getD_eq_getElem?_getD, List.getElem?_eq_getElem h]
  exact List.getElem_mem h

theorem indelStep_repI (codes seen : List Nat) (c e : Nat) (pr0 pr1 r : W) (hm : codes.length ≤ 63)
    (hno : ∀ a ∈ codes, oblig a = false)
    (hr : RepI codes seen e r) (hp : PrevOkI codes seen c e pr0 pr1) :
    RepI codes (c :: seen) e
      (indelStep (1#64 <<< codes.length) (~~~ omaskWord codes) (smatWord codes c) pr0 pr1 r) := by
  intro j hj1 hjm
  have hlt : codes.length - j < 64 := by omega
  have hcm : (~~~ omaskWord codes).getLsbD (codes.length - j) = true := by
    rw [BitVec.getLsbD_not, omask_bit codes j (by omega) hj1 hjm, hno _ (getD_mem_of_lt codes (j - 1) (by omega))]
    simp [hlt]
  rw [indelStep_bit, hcm, Bool.and_true, smat_bit codes c j (by omega) hj1 hjm, take_reverse_succ codes j hj1 hjm,
    within_step]
  have hid := repI_prev_bit codes seen e r hr hm j hj1 hjm
  generalize ha : codes.getD (j - 1) 0 = a
  simp only [Bool.or_eq_true, Bool.and_eq_true]
  rw [hid]
  rcases hp with ⟨he, h0, h1⟩ | ⟨e', r', he, hr', h0, h1⟩
  · subst he; subst h0; subst h1
    simp
  · subst he; subst h0
    have hA : (r' ||| (1#64 <<< codes.length)).getLsbD (codes.length - j) = true ↔
        Within (a :: (codes.take (j - 1)).reverse) seen e' := by
      rw [BitVec.getLsbD_or, one_shl_bit]
      have : ¬ (codes.length - j = codes.length) := by omega
      simp only [this, decide_false, Bool.false_and, Bool.or_false]
      rw [hr' j hj1 hjm, take_reverse_succ codes j hj1 hjm, ha]
    have hB : (r' ||| (1#64 <<< codes.length)).getLsbD (codes.length - j + 1) = true ↔
        Within ((codes.take (j - 1)).reverse) seen e' := by
      rw [BitVec.getLsbD_or, Bool.or_eq_true]
      exact repI_prev_bit codes seen e' r' hr' hm j hj1 hjm
    rw [hA, hB]
    by_cases hj : j = 1
    · -- first column: the empty prefix always matches
      subst hj
      simp only [Nat.sub_self, List.take_zero, List.reverse_nil]
      constructor
      · intro _
        exact Or.inr ⟨e', rfl, Or.inr (Or.inl (within_nil _ _))⟩
      · intro _
        exact Or.inl (Or.inl (Or.inr (within_nil _ _)))
    · have hC : pr1.getLsbD (codes.length - j + 1) = true ↔ Within ((codes.take (j - 1)).reverse) (c :: seen) e' := by
        have h2 : codes.length - j + 1 = codes.length - (j - 1) := by omega
        rw [h2, h1 (j - 1) (by omega) (by omega)]
      rw [hC]
      constructor
      · rintro (((h | h) | h) | h)
        · exact Or.inr ⟨e', rfl, Or.inl h⟩
        · exact Or.inr ⟨e', rfl, Or.inr (Or.inl h)⟩
        · exact Or.inr ⟨e', rfl, Or.inr (Or.inr h)⟩
        · exact Or.inl h
      · rintro (h | ⟨e'', he, h | h | h⟩)
        · exact Or.inr h
        · have : e'' = e' := by omega
          subst this; exact Or.inl (Or.inl (Or.inl h))
        · have : e'' = e' := by omega
          subst this; exact Or.inl (Or.inl (Or.inr h))
        · have : e'' = e' := by omega
          subst this; exact Or.inl (Or.inr h)

/-! ## all error levels, the text loop -/

/-- the list of level words represents levels `e0, e0+1, …` -/
def RepAllI (codes seen : List Nat) (e0 : Nat) (rs : List W) : Prop :=
  ∀ k r, rs[k]? = some r → RepI codes seen (e0 + k) r

theorem indelLevels_length (smask cmask sindx : W) (rs : List W) (pr0 pr1 : W) :
    (indelLevels smask cmask sindx pr0 pr1 rs).length = rs.length := by
  induction rs generalizing pr0 pr1 with
  | nil => rfl
  | cons r rs ih => simp [indelLevels_cons, ih]

theorem indelLevels_repI (codes seen : List Nat) (c : Nat) (hm : codes.length ≤ 63)
    (hno : ∀ a ∈ codes, oblig a = false) (rs : List W) (e0 : Nat) (pr0 pr1 : W)
    (hr : RepAllI codes seen e0 rs) (hp : PrevOkI codes seen c e0 pr0 pr1) :
    RepAllI codes (c :: seen) e0
      (indelLevels (1#64 <<< codes.length) (~~~ omaskWord codes) (smatWord codes c) pr0 pr1 rs) := by
  induction rs generalizing e0 pr0 pr1 with
  | nil => intro k r h; simp [indelLevels] at h
  | cons r0 rs ih =>
    have h0 : RepI codes seen e0 r0 := by have := hr 0 r0 (by simp); simpa using this
    have hnew := indelStep_repI codes seen c e0 pr0 pr1 r0 hm hno h0 hp
    intro k r h
    rw [indelLevels_cons] at h
    cases k with
    | zero =>
      simp only [List.getElem?_cons_zero, Option.some.injEq] at h
      subst h
      exact hnew
    | succ k =>
      simp only [List.getElem?_cons_succ] at h
      have hr' : RepAllI codes seen (e0 + 1) rs := by
        intro k' r' h'
        have := hr (k' + 1) r' (by simpa using h')
        have e : e0 + (k' + 1) = e0 + 1 + k' := by omega
        rwa [e] at this
      have := ih (e0 + 1) (r0 ||| (1#64 <<< codes.length)) _ hr' (Or.inr ⟨e0, r0, rfl, h0, rfl, hnew⟩) k r h
      have e : e0 + (k + 1) = e0 + 1 + k := by omega
      rwa [e]

/-- the invariant is preserved by the text loop of `ManberIndel` -/
theorem runLevels_repI (codes : List Nat) (hm : codes.length ≤ 63) (hno : ∀ a ∈ codes, oblig a = false)
    (cs seen : List Nat) (rs : List W) (hcs : ∀ c ∈ cs, c < 26) (hr : RepAllI codes seen 0 rs) :
    RepAllI codes (cs.reverse ++ seen) 0
      (runLevels (fun sindx => indelLevels (1#64 <<< codes.length) (~~~ omaskWord codes) sindx 0 0) (smat codes) rs cs) := by
  induction cs generalizing seen rs with
  | nil => simpa [runLevels] using hr
  | cons c cs ih =>
    simp only [runLevels, List.reverse_cons, List.append_assoc, List.singleton_append]
    apply ih
    · intro c' hc'; exact hcs c' (List.mem_cons_of_mem _ hc')
    · rw [smat_getD codes c (hcs c (by simp))]
      exact indelLevels_repI codes seen c hm hno rs 0 0 0 hr (Or.inl ⟨rfl, rfl, rfl⟩)

theorem runLevels_lengthI (codes : List Nat) (cs : List Nat) (rs : List W) :
    (runLevels (fun sindx => indelLevels (1#64 <<< codes.length) (~~~ omaskWord codes) sindx 0 0) (smat codes) rs cs).length
      = rs.length := by
  induction cs generalizing rs with
  | nil => rfl
  | cons c cs ih => simp only [runLevels]; rw [ih, indelLevels_length]

theorem indelInit_length (smask : W) (n : Nat) (c : W) : (indelInit smask n c).length = n := by
  induction n generalizing c with
  | zero => rfl
  | succ n ih => simp [indelInit, ih]

/-- the initial words: level `e` has the bits `m, m-1, …, m-e` (the prefixes of length `≤ e` match the empty text with
as many deletions) -/
theorem indelInit_repI (codes : List Nat) (hm : codes.length ≤ 63) (n e0 : Nat) (c : W)
    (hc : ∀ i, i < 64 → c.getLsbD i = decide (i ≤ codes.length ∧ codes.length ≤ i + e0)) :
    RepAllI codes [] e0 (indelInit (1#64 <<< codes.length) n c) := by
  induction n generalizing e0 c with
  | zero => intro k r h; simp [indelInit] at h
  | succ n ih =>
    intro k r h
    cases k with
    | zero =>
      simp only [indelInit, List.getElem?_cons_zero, Option.some.injEq] at h
      subst h
      intro j hj1 hjm
      rw [hc _ (by omega), within_niltext]
      simp only [List.length_reverse, List.length_take, Nat.add_zero, decide_eq_true_eq]
      omega
    | succ k =>
      simp only [indelInit, List.getElem?_cons_succ] at h
      have := ih (e0 + 1) ((c >>> 1) ||| (1#64 <<< codes.length)) (by
        intro i hi
        rw [BitVec.getLsbD_or, BitVec.getLsbD_ushiftRight, one_shl_bit]
        by_cases h64 : 1 + i < 64
        · rw [hc _ h64, Bool.eq_iff_iff]
          simp only [Bool.or_eq_true, Bool.and_eq_true, decide_eq_true_eq]
          omega
        · have : c.getLsbD (1 + i) = false := by
            apply BitVec.getLsbD_of_ge; omega
          rw [this, Bool.eq_iff_iff]
          simp only [Bool.or_eq_true, Bool.and_eq_true, decide_eq_true_eq, Bool.false_eq_true, false_or]
          omega) k r h
      have e : e0 + (k + 1) = e0 + 1 + k := by omega
      rwa [e]

/-! ## exactness of `ManberIndel` -/

/-- costs of the alignments of `q` with the suffixes of `L`, read on the reversed lists -/
theorem reach_reverse_iff (q L : List Nat) (k : Nat) :
    Reach accepts false q.reverse L.reverse k ↔ ∃ n, n ≤ L.length ∧ Ali accepts q (L.drop n) k := by
  constructor
  · rintro ⟨x, u, v, hx, hf, ha⟩
    have hx0 := hf rfl
    subst hx0
    simp only [List.nil_append] at hx
    have hL : L = v.reverse ++ u.reverse := by
      have := congrArg List.reverse hx
      rwa [List.reverse_reverse, List.reverse_append] at this
    refine ⟨v.length, by rw [hL]; simp, ?_⟩
    have hd : L.drop v.length = u.reverse := by
      rw [hL, List.drop_left' (by simp)]
    rw [hd]
    apply Ali.of_reverse
    rwa [List.reverse_reverse]
  · rintro ⟨n, _, ha⟩
    refine ⟨[], (L.drop n).reverse, (L.take n).reverse, ?_, fun _ => rfl, ha.reverse⟩
    rw [List.nil_append, ← List.reverse_append, List.take_append_drop]

/-- least alignment cost over the suffixes = least edit distance over the suffixes -/
theorem least_suffix_iff (q L : List Nat) (k : Nat) :
    IsLeast (Reach accepts false q.reverse L.reverse) k ↔
      (∃ n, n ≤ L.length ∧ editDist accepts q (L.drop n) = k) ∧ ∀ n, n ≤ L.length → k ≤ editDist accepts q (L.drop n) := by
  constructor
  · rintro ⟨h1, h2⟩
    have hall : ∀ n, n ≤ L.length → k ≤ editDist accepts q (L.drop n) := fun n hn =>
      h2 _ ((reach_reverse_iff q L _).2 ⟨n, hn, ali_editDist _ _ _⟩)
    obtain ⟨n, hn, ha⟩ := (reach_reverse_iff q L k).1 h1
    exact ⟨⟨n, hn, Nat.le_antisymm (editDist_le ha) (hall n hn)⟩, hall⟩
  · rintro ⟨⟨n, hn, he⟩, hall⟩
    refine ⟨(reach_reverse_iff q L k).2 ⟨n, hn, he ▸ ali_editDist _ _ _⟩, ?_⟩
    intro k' hk'
    obtain ⟨n', hn', ha'⟩ := (reach_reverse_iff q L k').1 hk'
    exact Nat.le_trans (hall n' hn') (editDist_le ha')

/-- the budget test as a Boolean (classically) -/
noncomputable def withinB (rq s : List Nat) (e : Nat) : Bool := @decide (Within rq s e) (Classical.propDecidable _)

theorem withinB_iff (rq s : List Nat) (e : Nat) : withinB rq s e = true ↔ Within rq s e := by
  unfold withinB
  exact @decide_eq_true_iff _ (Classical.propDecidable _)

theorem withinB_false_iff (rq s : List Nat) (e : Nat) : withinB rq s e = false ↔ ¬ Within rq s e := by
  rw [← withinB_iff]
  cases withinB rq s e <;> simp

/-- the least budget within which the pattern matches is the least cost -/
theorem least_within (rq s : List Nat) (k : Nat) :
    (Within rq s k ∧ ∀ e', e' < k → ¬ Within rq s e') ↔ IsLeast (Reach accepts false rq s) k := by
  constructor
  · rintro ⟨⟨k0, hk0, hr⟩, h2⟩
    have : k0 = k := by
      by_cases hlt : k0 < k
      · exact absurd ⟨k0, Nat.le_refl _, hr⟩ (h2 k0 hlt)
      · omega
    subst this
    refine ⟨hr, fun k' hk' => ?_⟩
    by_cases hlt : k' < k0
    · exact absurd ⟨k', Nat.le_refl _, hk'⟩ (h2 k' hlt)
    · omega
  · rintro ⟨h1, h2⟩
    refine ⟨⟨k, Nat.le_refl _, h1⟩, ?_⟩
    rintro e' hlt ⟨k0, hk0, hr⟩
    have := h2 k0 hr
    omega

/-- **the indel automaton is exact**: `(i, k)` is pushed on the hit stacks iff `i = pos - m + 1` for a position `pos` of
the scanned window `[begin, min(begin+length, |data|))`, `k ≤ maxerr`, and `k` is the least edit distance between the
pattern and a substring `data[a .. pos+1)`, `begin ≤ a ≤ pos + 1`, of the window ending at `pos`.
(No obligatory position in the pattern.) -/
theorem manberIndel_mem (P : Pattern) (data : List Nat) (begin length : Nat)
    (hm1 : 1 ≤ P.patlen) (hm : P.patlen ≤ 63) (hd : ∀ c ∈ data, c < 26)
    (hno : ∀ a ∈ P.codes, oblig a = false) (i : Int) (k : Nat) :
    (i, k) ∈ manberIndel P data begin length ↔
      ∃ pos : Nat, begin ≤ pos ∧ pos < min (begin + length) data.length ∧ i = (pos : Int) - P.patlen + 1 ∧ k ≤ P.maxerr ∧
        (∃ a, begin ≤ a ∧ a ≤ pos + 1 ∧ editDist accepts P.codes ((data.drop a).take (pos + 1 - a)) = k) ∧
        (∀ a, begin ≤ a → a ≤ pos + 1 → k ≤ editDist accepts P.codes ((data.drop a).take (pos + 1 - a))) := by
  unfold manberIndel Pattern.patlen at *
  simp only []
  rw [errScan_mem]
  have hwl := window_length data begin length
  have hwin : ∀ c ∈ window data begin length, c < 26 := by
    intro c hc
    unfold window at hc
    exact hd c (List.mem_of_mem_drop (List.mem_of_mem_take hc))
  -- the level words after `t + 1` symbols
  have hfirst : ∀ t, t < (window data begin length).length →
      (firstHit (runLevels (fun sindx => indelLevels (1#64 <<< P.codes.length) (~~~ omaskWord P.codes) sindx 0 0) (smat P.codes)
          (indelInit (1#64 <<< P.codes.length) (P.maxerr + 1) (1#64 <<< P.codes.length)) ((window data begin length).take (t + 1))) 0 = some k ↔
        IsLeast (Reach accepts false P.codes.reverse (((window data begin length).take (t + 1)).reverse)) k ∧ k ≤ P.maxerr) := by
    intro t _
    have hinit : RepAllI P.codes [] 0 (indelInit (1#64 <<< P.codes.length) (P.maxerr + 1) (1#64 <<< P.codes.length)) := by
      apply indelInit_repI P.codes hm
      intro i hi
      rw [one_shl_bit]
      by_cases h1 : i = P.codes.length <;> simp [h1, hi] <;> omega
    have hrep := runLevels_repI P.codes hm hno ((window data begin length).take (t + 1)) [] _
      (fun c hc => hwin c (List.mem_of_mem_take hc)) hinit
    rw [List.append_nil] at hrep
    rw [firstHit_spec (fun e => withinB P.codes.reverse (((window data begin length).take (t + 1)).reverse) e)]
    · rw [runLevels_lengthI, indelInit_length, ← least_within]
      simp only [withinB_iff, withinB_false_iff, Nat.zero_add, Nat.zero_le, true_and, forall_const]
      constructor
      · rintro ⟨h2, h3, h4⟩
        exact ⟨⟨h3, h4⟩, by omega⟩
      · rintro ⟨⟨h3, h4⟩, h2⟩
        exact ⟨by omega, h3, h4⟩
    · intro e r hr
      have := hrep e r hr P.codes.length hm1 (Nat.le_refl _)
      rw [Nat.sub_self, List.take_length, Nat.zero_add] at this
      rw [Nat.zero_add]
      cases hb : r.getLsbD 0 with
      | true => exact ((withinB_iff _ _ _).2 (this.1 hb)).symm
      | false =>
        symm
        rw [withinB_false_iff]
        intro hw
        have := this.2 hw
        rw [hb] at this; cases this
  -- the text read after `t + 1` symbols, and its suffixes
  have htake : ∀ t, t < (window data begin length).length →
      (window data begin length).take (t + 1) = (data.drop begin).take (t + 1) := by
    intro t ht
    unfold window
    rw [List.take_take]
    congr 1
    omega
  have hsuf : ∀ t n, t < (window data begin length).length → n ≤ t + 1 →
      ((data.drop begin).take (t + 1)).drop n = (data.drop (begin + n)).take (begin + t + 1 - (begin + n)) := by
    intro t n _ _
    rw [List.drop_take, List.drop_drop]
    congr 1
    omega
  have hlen : ∀ t, t < (window data begin length).length → ((data.drop begin).take (t + 1)).length = t + 1 := by
    intro t ht
    simp only [List.length_take, List.length_drop]
    omega
  constructor
  · rintro ⟨t, ht, hi, hf⟩
    obtain ⟨hl, hk⟩ := (hfirst t ht).1 hf
    rw [htake t ht, least_suffix_iff] at hl
    rw [hlen t ht] at hl
    obtain ⟨⟨n, hn, he⟩, hall⟩ := hl
    refine ⟨begin + t, by omega, by omega, hi, hk, ⟨begin + n, by omega, by omega, ?_⟩, ?_⟩
    · rw [← hsuf t n ht hn]; exact he
    · intro a ha1 ha2
      have := hall (a - begin) (by omega)
      rw [hsuf t (a - begin) ht (by omega)] at this
      have e1 : begin + (a - begin) = a := by omega
      rwa [e1] at this
  · rintro ⟨pos, hp1, hp2, hi, hk, ⟨a, ha1, ha2, he⟩, hall⟩
    have ht : pos - begin < (window data begin length).length := by omega
    refine ⟨pos - begin, ht, ?_, ?_⟩
    · rw [hi]; congr 2; omega
    · rw [hfirst _ ht]
      refine ⟨?_, hk⟩
      rw [htake _ ht, least_suffix_iff, hlen _ ht]
      have e0 : begin + (pos - begin) = pos := by omega
      refine ⟨⟨a - begin, by omega, ?_⟩, ?_⟩
      · rw [hsuf _ (a - begin) ht (by omega)]
        have e1 : begin + (a - begin) = a := by omega
        rw [e1, e0]; exact he
      · intro n hn
        rw [hsuf _ n ht hn, e0]
        exact hall (begin + n) (by omega) (by omega)

/-- a function on a non-empty integer interval has a minimum -/
theorem exists_min_on (f : Nat → Nat) (lo : Nat) : ∀ d, ∃ a, lo ≤ a ∧ a ≤ lo + d ∧ ∀ b, lo ≤ b → b ≤ lo + d → f a ≤ f b := by
  intro d
  induction d with
  | zero =>
    refine ⟨lo, Nat.le_refl _, Nat.le_refl _, fun b h1 h2 => ?_⟩
    have : b = lo := by omega
    subst this; exact Nat.le_refl _
  | succ d ih =>
    obtain ⟨a0, h1, h2, h3⟩ := ih
    by_cases hc : f a0 ≤ f (lo + (d + 1))
    · refine ⟨a0, h1, by omega, fun b hb1 hb2 => ?_⟩
      by_cases hb : b = lo + (d + 1)
      · subst hb; exact hc
      · exact h3 b hb1 (by omega)
    · refine ⟨lo + (d + 1), by omega, Nat.le_refl _, fun b hb1 hb2 => ?_⟩
      by_cases hb : b = lo + (d + 1)
      · subst hb; exact Nat.le_refl _
      · have := h3 b hb1 (by omega); omega

/-- **a hit is reported at an end position iff some substring ending there is within the budget** -/
theorem manberIndel_hit_iff (P : Pattern) (data : List Nat) (begin length : Nat)
    (hm1 : 1 ≤ P.patlen) (hm : P.patlen ≤ 63) (hd : ∀ c ∈ data, c < 26)
    (hno : ∀ a ∈ P.codes, oblig a = false) (pos : Nat) :
    (∃ k, ((pos : Int) - P.patlen + 1, k) ∈ manberIndel P data begin length) ↔
      begin ≤ pos ∧ pos < min (begin + length) data.length ∧
        ∃ a, begin ≤ a ∧ a ≤ pos + 1 ∧ editDist accepts P.codes ((data.drop a).take (pos + 1 - a)) ≤ P.maxerr := by
  constructor
  · rintro ⟨k, hk⟩
    obtain ⟨pos', h1, h2, h3, h4, ⟨a, ha1, ha2, ha3⟩, _⟩ := (manberIndel_mem P data begin length hm1 hm hd hno _ k).1 hk
    have : pos' = pos := by omega
    subst this
    exact ⟨h1, h2, a, ha1, ha2, by omega⟩
  · rintro ⟨h1, h2, a, ha1, ha2, ha3⟩
    obtain ⟨a0, hb1, hb2, hb3⟩ := exists_min_on (fun a => editDist accepts P.codes ((data.drop a).take (pos + 1 - a))) begin
      (pos + 1 - begin)
    have e : begin + (pos + 1 - begin) = pos + 1 := by omega
    rw [e] at hb2 hb3
    refine ⟨_, (manberIndel_mem P data begin length hm1 hm hd hno _ _).2
      ⟨pos, h1, h2, rfl, ?_, ⟨a0, hb1, hb2, rfl⟩, fun b hb hb' => hb3 b hb hb'⟩⟩
    exact Nat.le_trans (hb3 a ha1 ha2) ha3

end ObiVerif.Apat
