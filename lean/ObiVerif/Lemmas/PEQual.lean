import ObiVerif.Lemmas.PERows
import ObiVerif.Model.PEAnnot
/-!
# C08: the Phred value written in every consensus column, and the match count
-/
namespace ObiVerif.PEAlign
open ObiVerif.Align

/-- `qM`, `qm` after a column: (higher, lower) quality of THAT column, whatever they held before
(`C08-consensus-quality-column`; the unpatched code updated them only when the two qualities differ) -/
def qStep (_st : UInt8 × UInt8) (qA qB : UInt8) : UInt8 × UInt8 :=
  (if qB > qA then qB else qA, if qB > qA then qA else qB)

def cap90 (q : UInt8) : UInt8 := if q > 90 then 90 else q

/-- the quality written in a column, given `(qM, qm)` as the previous columns left them -/
def colQual (adj : UInt8 → UInt8) (st : UInt8 × UInt8) (nA qA nB qB : UInt8) : UInt8 :=
  cap90 (if (qA > 0 ∧ qB > 0) ∧ nA ≠ nB then (qStep st qA qB).1 - adj (qStep st qA qB).2 else qA + qB)

/-- 1 when the column counts as a match (`seq_ab_match`): same symbol, both qualities positive -/
def colMatch (nA qA nB qB : UInt8) : Nat := if (qA > 0 ∧ qB > 0) ∧ nA = nB then 1 else 0

/-- `(qM, qm)` after the columns `cols` -/
def qState (qa qb : Bytes) : UInt8 × UInt8 → List Col → UInt8 × UInt8
  | st, [] => st
  | st, c :: cs => qState qa qb (qStep st (cellOf qa 0 c.1) (cellOf qb 0 c.2)) cs

def colQuals (adj : UInt8 → UInt8) (a qa b qb : Bytes) : UInt8 × UInt8 → List Col → Bytes
  | _, [] => []
  | st, c :: cs =>
    colQual adj st (cellOf a 32 c.1) (cellOf qa 0 c.1) (cellOf b 32 c.2) (cellOf qb 0 c.2)
      :: colQuals adj a qa b qb (qStep st (cellOf qa 0 c.1) (cellOf qb 0 c.2)) cs

def colMatches (a qa b qb : Bytes) : List Col → Nat
  | [] => 0
  | c :: cs => colMatch (cellOf a 32 c.1) (cellOf qa 0 c.1) (cellOf b 32 c.2) (cellOf qb 0 c.2) + colMatches a qa b qb cs

theorem consLoop_qual_map (adj : UInt8 → UInt8) (a qa b qb : Bytes) : ∀ (cols : List Col) (qM qm : UInt8),
    (consLoop adj qM qm (cols.map fun c => cellOf a 32 c.1) (cols.map fun c => cellOf b 32 c.2)
      (cols.map fun c => cellOf qa 0 c.1) (cols.map fun c => cellOf qb 0 c.2)).2 =
      (colQuals adj a qa b qb (qM, qm) cols, colMatches a qa b qb cols)
  | [], _, _ => by simp [consLoop, colQuals, colMatches]
  | c :: cs, qM, qm => by
    simp only [List.map_cons, consLoop]
    rw [consLoop_qual_map adj a qa b qb cs]
    rfl

/-- **qualities and match count of the consensus of a consuming path**, as functions of the columns of the
path and of the original reads -/
theorem consensus_qual (adj : UInt8 → UInt8) (a qa b qb : Bytes) (p : Path)
    (hqa : qa.length = a.length) (hqb : qb.length = b.length) (hp : consumes p a.length b.length) :
    ∃ c, consensus adj a qa b qb p = some c ∧
      c.qual = colQuals adj a qa b qb (0, 0) (columns p 0 0) ∧
      c.nmatch = colMatches a qa b qb (columns p 0 0) := by
  obtain ⟨hw, hA, hB⟩ := hp
  have h1 := buildAlignment_rows a b 32 p 0 0 hw (by omega) (by omega)
  have h2 := buildAlignment_rows qa qb 0 p 0 0 hw (by omega) (by omega)
  simp only [consensus, h1, h2]
  have := consLoop_qual_map adj a qa b qb (columns p 0 0) 0 0
  exact ⟨_, rfl, congrArg Prod.fst this, congrArg Prod.snd this⟩

/-- column `k` of the quality row: `colQual` in the state left by the first `k` columns -/
theorem colQuals_getD (adj : UInt8 → UInt8) (a qa b qb : Bytes) : ∀ (cols : List Col) (st : UInt8 × UInt8) (k : Nat),
    k < cols.length →
    (colQuals adj a qa b qb st cols).getD k 0 =
      colQual adj (qState qa qb st (cols.take k))
        (cellOf a 32 (cols.getD k (none, none)).1) (cellOf qa 0 (cols.getD k (none, none)).1)
        (cellOf b 32 (cols.getD k (none, none)).2) (cellOf qb 0 (cols.getD k (none, none)).2)
  | [], _, _, h => by simp at h
  | c :: cs, st, 0, _ => by simp [colQuals, qState]
  | c :: cs, st, k + 1, h => by
    simp only [colQuals, List.getD_cons_succ, List.take_succ_cons, qState]
    exact colQuals_getD adj a qa b qb cs _ k (by simpa using h)

/-! ## the column rule for the quality -/

theorem u8_pos_of_gt {a b : UInt8} (h : a > b) : a > 0 := by
  simp only [gt_iff_lt, UInt8.lt_iff_toNat_lt, UInt8.toNat_zero] at h ⊢; omega

/-- **gap (or quality 0) on the B side**: the quality of A's base, capped at 90 — whatever the symbols and
whatever `(qM, qm)` -/
theorem colQual_gapB (adj : UInt8 → UInt8) (st : UInt8 × UInt8) (nA qA nB : UInt8) :
    colQual adj st nA qA nB 0 = cap90 qA := by
  have h : ¬ ((0 : UInt8) > 0) := by decide
  simp [colQual, h]

theorem colQual_gapA (adj : UInt8 → UInt8) (st : UInt8 × UInt8) (nA nB qB : UInt8) :
    colQual adj st nA 0 nB qB = cap90 qB := by
  have h : ¬ ((0 : UInt8) > 0) := by decide
  simp [colQual, h]

/-- **match**: the sum of the two qualities, capped at 90 -/
theorem colQual_match (adj : UInt8 → UInt8) (st : UInt8 × UInt8) (n qA qB : UInt8) :
    colQual adj st n qA n qB = cap90 (qA + qB) := by
  simp [colQual]

/-- **mismatch, different qualities**: `max − adj(min)` (byte arithmetic), capped at 90, whatever `(qM, qm)` -/
theorem colQual_mismatch (adj : UInt8 → UInt8) (st : UInt8 × UInt8) (nA qA nB qB : UInt8)
    (hA : qA > 0) (hB : qB > 0) (hn : nA ≠ nB) :
    (qA > qB → colQual adj st nA qA nB qB = cap90 (qA - adj qB)) ∧
    (qB > qA → colQual adj st nA qA nB qB = cap90 (qB - adj qA)) := by
  refine ⟨fun h => ?_, fun h => ?_⟩
  · have h' : ¬ qB > qA := by
      simp only [gt_iff_lt, UInt8.lt_iff_toNat_lt] at h ⊢; omega
    simp [colQual, qStep, hA, hB, hn, h']
  · simp [colQual, qStep, hA, hB, hn, h]

/-- **mismatch, equal qualities**: `q − adj(q)` of the column's own quality, whatever `(qM, qm)` held before
(on the unpatched code: `qM − adj(qm)` of an EARLIER column — witness in the harness corpus,
`cons 61636774 28282828 61746774 28282828 2,2,-2,0`) -/
theorem colQual_tie (adj : UInt8 → UInt8) (st : UInt8 × UInt8) (nA nB q : UInt8) (hq : q > 0) (hn : nA ≠ nB) :
    colQual adj st nA q nB q = cap90 (q - adj q) := by
  have h : ¬ q > q := by simp only [gt_iff_lt, UInt8.lt_iff_toNat_lt]; omega
  simp [colQual, qStep, hq, hn, h]

/-- the state after a column is the (max, min) of that column -/
theorem qStep_rule (st : UInt8 × UInt8) (qA qB : UInt8) :
    (qA > qB → qStep st qA qB = (qA, qB)) ∧ (qB > qA → qStep st qA qB = (qB, qA)) ∧ (qA = qB → qStep st qA qB = (qA, qB)) := by
  refine ⟨fun h => ?_, fun h => by simp [qStep, h], fun h => ?_⟩
  · have h' : ¬ qB > qA := by
      simp only [gt_iff_lt, UInt8.lt_iff_toNat_lt] at h ⊢; omega
    simp [qStep, h']
  · subst h
    have h' : ¬ qA > qA := by simp only [gt_iff_lt, UInt8.lt_iff_toNat_lt]; omega
    simp [qStep, h']

/-- **the quality of a column does not depend on the other columns**: `colQual` ignores the `(qM, qm)` left by
the previous columns -/
theorem colQual_local (adj : UInt8 → UInt8) (st st' : UInt8 × UInt8) (nA qA nB qB : UInt8) :
    colQual adj st nA qA nB qB = colQual adj st' nA qA nB qB := rfl

/-! ## the table as data -/

/-- the literal table is `256 − mmBonus` entry by entry — decided over the whole table -/
theorem adjAmd64_bonus : ∀ k, k < 94 →
    (adjAmd64.getD k 0).toNat = (256 - mmBonus.getD k 0) % 256 ∧ mmBonus.getD k 0 ≤ 10 := by decide

/-- **mismatch quality with the real table**: for qualities `1 ≤ qm < qM ≤ 93` the byte subtraction wraps to
an addition: the column gets `min 90 (qM + mmBonus qm)` — never less than the higher quality -/
theorem mismatch_quality_value (qM qm : UInt8) (hM : qM.toNat ≤ 93) (hm : qm.toNat < 94) :
    (cap90 (qM - adjAmd64.getD qm.toNat 0)).toNat = min 90 (qM.toNat + mmBonus.getD qm.toNat 0) := by
  obtain ⟨h1, h2⟩ := adjAmd64_bonus qm.toNat hm
  have hs : (qM - adjAmd64.getD qm.toNat 0).toNat = qM.toNat + mmBonus.getD qm.toNat 0 := by
    rw [UInt8.toNat_sub, h1]
    generalize mmBonus.getD qm.toNat 0 = bo at h2 ⊢
    omega
  unfold cap90
  by_cases h : qM - adjAmd64.getD qm.toNat 0 > 90
  · simp only [h, if_true]
    simp only [gt_iff_lt, UInt8.lt_iff_toNat_lt] at h
    rw [hs] at h
    have : (90 : UInt8).toNat = 90 := by decide
    omega
  · simp only [h, if_false]
    simp only [gt_iff_lt, UInt8.lt_iff_toNat_lt] at h
    rw [hs] at h ⊢
    have : (90 : UInt8).toNat = 90 := by decide
    omega

/-- match quality as an integer statement -/
theorem match_quality_value (qA qB : UInt8) (h : qA.toNat + qB.toNat < 256) :
    (cap90 (qA + qB)).toNat = min 90 (qA.toNat + qB.toNat) := by
  have hs : (qA + qB).toNat = qA.toNat + qB.toNat := by
    rw [UInt8.toNat_add]; omega
  unfold cap90
  have h90 : (90 : UInt8).toNat = 90 := by decide
  by_cases hc : qA + qB > 90
  · simp only [hc, if_true]
    simp only [gt_iff_lt, UInt8.lt_iff_toNat_lt] at hc
    omega
  · simp only [hc, if_false]
    simp only [gt_iff_lt, UInt8.lt_iff_toNat_lt] at hc
    omega

end ObiVerif.PEAlign
