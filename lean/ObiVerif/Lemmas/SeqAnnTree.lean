import ObiVerif.Model.SeqAnnTree
set_option Elab.async false
/-!
# No annotation value is shared between two live sequences (C07, Model/SeqAnnTree.lean)

`Inv`: the pointer ids of two live objects are disjoint, pooled top-level maps belong to no live object.
`astep_inv` / `arun_inv`: every operation keeps it, for every decision of the annotation pool.
`astep_frame`: an operation leaves every object other than its target exactly as it was — in particular
the in-place edit of a nested map / slice reached through one object (`State.edit` rewrites every
occurrence of the pointer in every object) changes no other object.
-/
namespace ObiVerif.AnnTree

mutual
theorem ATree.relabel_spec : ∀ (t : ATree) (n : Nat),
    n ≤ (t.relabel n).2 ∧ ∀ x ∈ (t.relabel n).1.ids, n ≤ x ∧ x < (t.relabel n).2
  | .leaf v, n => by simp [ATree.relabel, ATree.ids]
  | .node i m ks, n => by
    have h := AForest.relabel_spec ks (n + 1)
    simp only [ATree.relabel, ATree.ids, List.mem_cons]
    refine ⟨by omega, ?_⟩
    rintro x (rfl | hx)
    · omega
    · have := h.2 x hx; omega
theorem AForest.relabel_spec : ∀ (f : AForest) (n : Nat),
    n ≤ (f.relabel n).2 ∧ ∀ x ∈ (f.relabel n).1.ids, n ≤ x ∧ x < (f.relabel n).2
  | .nil, n => by simp [AForest.relabel, AForest.ids]
  | .cons k t r, n => by
    have h1 := ATree.relabel_spec t n
    have h2 := AForest.relabel_spec r (t.relabel n).2
    simp only [AForest.relabel, AForest.ids, List.mem_append]
    refine ⟨by omega, ?_⟩
    rintro x (hx | hx)
    · have := h1.2 x hx; omega
    · have := h2.2 x hx; omega
end

/-- `MustFillMap` allocates only new pointers -/
theorem AForest.fill_spec : ∀ (f : AForest) (n : Nat),
    n ≤ (f.fill n).2 ∧ ∀ x ∈ (f.fill n).1.ids, n ≤ x ∧ x < (f.fill n).2
  | .nil, n => by simp [AForest.fill, AForest.ids]
  | .cons k t r, n => by
    have h1 := ATree.relabel_spec t n
    have h2 := AForest.fill_spec r (t.relabel n).2
    simp only [AForest.fill, AForest.ids, List.mem_append]
    refine ⟨by omega, ?_⟩
    rintro x (hx | hx)
    · have := h1.2 x hx; omega
    · have := h2.2 x hx; omega

theorem AForest.setKey_ids (k : String) (v : Sc) (app : Bool) : ∀ (f : AForest), ∀ x ∈ (f.setKey k v app).ids, x ∈ f.ids
  | .nil => by cases app <;> simp [AForest.setKey, AForest.ids, ATree.ids]
  | .cons k' t r => by
    intro x hx
    simp only [AForest.setKey] at hx
    split at hx
    · simp only [AForest.ids, ATree.ids, List.nil_append] at hx
      simp only [AForest.ids, List.mem_append]; exact Or.inr hx
    · simp only [AForest.ids, List.mem_append] at hx ⊢
      rcases hx with hx | hx
      · exact Or.inl hx
      · exact Or.inr (AForest.setKey_ids k v app r x hx)

theorem AForest.setTop_ids (k : String) (v : ATree) : ∀ (f : AForest), ∀ x ∈ (f.setTop k v).ids, x ∈ f.ids ∨ x ∈ v.ids
  | .nil => by simp [AForest.setTop, AForest.ids]
  | .cons k' t r => by
    intro x hx
    simp only [AForest.setTop] at hx
    split at hx
    · simp only [AForest.ids, List.mem_append] at hx ⊢
      rcases hx with hx | hx
      · exact Or.inr hx
      · exact Or.inl (Or.inr hx)
    · simp only [AForest.ids, List.mem_append] at hx ⊢
      rcases hx with hx | hx
      · exact Or.inl (Or.inl hx)
      · rcases AForest.setTop_ids k v r x hx with h | h
        · exact Or.inl (Or.inr h)
        · exact Or.inr h

mutual
/-- an edit of node `id` does nothing to a value in which `id` does not occur -/
theorem ATree.editId_of_not_mem (id : Nat) (k : String) (v : Sc) : ∀ (t : ATree), id ∉ t.ids → t.editId id k v = t
  | .leaf x, _ => rfl
  | .node i m ks, h => by
    simp only [ATree.ids, List.mem_cons, not_or] at h
    simp only [ATree.editId]
    rw [if_neg (fun e => h.1 e.symm), AForest.editIdF_of_not_mem id k v ks h.2]
theorem AForest.editIdF_of_not_mem (id : Nat) (k : String) (v : Sc) : ∀ (f : AForest), id ∉ f.ids → f.editIdF id k v = f
  | .nil, _ => rfl
  | .cons k' t r, h => by
    simp only [AForest.ids, List.mem_append, not_or] at h
    simp only [AForest.editIdF]
    rw [ATree.editId_of_not_mem id k v t h.1, AForest.editIdF_of_not_mem id k v r h.2]
end

mutual
theorem ATree.editId_ids (id : Nat) (k : String) (v : Sc) : ∀ (t : ATree), ∀ x ∈ (t.editId id k v).ids, x ∈ t.ids
  | .leaf _ => by simp [ATree.editId]
  | .node i m ks => by
    intro x hx
    simp only [ATree.editId] at hx
    split at hx
    · simp only [ATree.ids, List.mem_cons] at hx ⊢
      rcases hx with hx | hx
      · exact Or.inl hx
      · exact Or.inr (AForest.setKey_ids k v m ks x hx)
    · simp only [ATree.ids, List.mem_cons] at hx ⊢
      rcases hx with hx | hx
      · exact Or.inl hx
      · exact Or.inr (AForest.editIdF_ids id k v ks x hx)
theorem AForest.editIdF_ids (id : Nat) (k : String) (v : Sc) : ∀ (f : AForest), ∀ x ∈ (f.editIdF id k v).ids, x ∈ f.ids
  | .nil => by simp [AForest.editIdF]
  | .cons k' t r => by
    intro x hx
    simp only [AForest.editIdF, AForest.ids, List.mem_append] at hx ⊢
    rcases hx with hx | hx
    · exact Or.inl (ATree.editId_ids id k v t x hx)
    · exact Or.inr (AForest.editIdF_ids id k v r x hx)
end

theorem AForest.get_ids (k : String) : ∀ (f : AForest) (t : ATree), f.get k = some t → ∀ x ∈ t.ids, x ∈ f.ids
  | .nil, _, h => by simp [AForest.get] at h
  | .cons k' t' r, t, h => by
    intro x hx
    simp only [AForest.get] at h
    simp only [AForest.ids, List.mem_append]
    split at h
    · cases h; exact Or.inl hx
    · exact Or.inr (AForest.get_ids k r t h x hx)

/-- the pointer reached by a path inside a value occurs in the value -/
theorem ATree.resolve_mem : ∀ (p : List String) (t : ATree) (id : Nat), t.resolve p = some id → id ∈ t.ids
  | [], .leaf _, _, h => by simp [ATree.resolve] at h
  | [], .node i m ks, id, h => by
    simp only [ATree.resolve, Option.some.injEq] at h
    simp [ATree.ids, h]
  | k :: p, .leaf _, _, h => by simp [ATree.resolve] at h
  | k :: p, .node i m ks, id, h => by
    simp only [ATree.resolve] at h
    cases hg : ks.get k with
    | none => rw [hg] at h; cases h
    | some t =>
      rw [hg] at h
      simp only [ATree.ids, List.mem_cons]
      exact Or.inr (AForest.get_ids k ks t hg id (ATree.resolve_mem p t id h))

/-! ## the invariant -/

structure Inv (s : State) : Prop where
  lt : ∀ o ∈ s.objs, ∀ x ∈ o.ids, x < s.next
  uniq : ∀ p ∈ s.objs, ∀ q ∈ s.objs, p.name = q.name → p = q
  /-- **no pointer occurs in two live objects** -/
  disj : ∀ p ∈ s.objs, ∀ q ∈ s.objs, p.name ≠ q.name → ∀ x ∈ p.ids, x ∉ q.ids
  poolLt : ∀ p ∈ s.pool, p < s.next
  poolFree : ∀ p ∈ s.pool, ∀ o ∈ s.objs, p ∉ o.ids
  poolNodup : s.pool.Nodup

theorem Inv.empty : Inv State.empty := by
  refine ⟨?_, ?_, ?_, ?_, ?_, ?_⟩ <;> simp [State.empty]

theorem find_some {s : State} {a : String} {o : AObj} (h : s.find a = some o) : o ∈ s.objs ∧ o.name = a := by
  unfold State.find at h
  have h1 := List.mem_of_find?_eq_some h
  have h2 := List.find?_some h
  exact ⟨h1, by simpa using h2⟩

theorem find_none {s : State} {a : String} (h : s.find a = none) : ∀ o ∈ s.objs, o.name ≠ a := by
  unfold State.find at h
  intro o ho e
  have := List.find?_eq_none.mp h o ho
  simp [e] at this

/-- what the annotation pool hands out: a map that belongs to no live object and to no pooled entry left -/
structure GetOk (s : State) (r : State × Nat) : Prop where
  inv : Inv r.1
  objs : r.1.objs = s.objs
  next : s.next ≤ r.1.next
  lt : r.2 < r.1.next
  free : ∀ o ∈ s.objs, r.2 ∉ o.ids
  notPool : r.2 ∉ r.1.pool

theorem getMap_ok {s : State} (hI : Inv s) (k : Nat) : GetOk s (s.getMap k) := by
  unfold State.getMap
  cases hp : s.pool[k]? with
  | some p =>
    have hm : p ∈ s.pool := List.mem_of_getElem? hp
    have hsub : ∀ x, x ∈ s.pool.erase p → x ∈ s.pool := fun x hx => List.mem_of_mem_erase hx
    refine ⟨⟨hI.lt, hI.uniq, hI.disj, fun x hx => hI.poolLt x (hsub x hx), fun x hx => hI.poolFree x (hsub x hx),
      hI.poolNodup.erase p⟩, rfl, Nat.le_refl _, hI.poolLt p hm, hI.poolFree p hm, ?_⟩
    exact fun h => (List.Nodup.mem_erase_iff hI.poolNodup).mp h |>.1 rfl
  | none =>
    refine ⟨⟨fun o ho x hx => Nat.lt_succ_of_lt (hI.lt o ho x hx), hI.uniq, hI.disj,
      fun x hx => Nat.lt_succ_of_lt (hI.poolLt x hx), hI.poolFree, hI.poolNodup⟩, rfl, Nat.le_succ _, Nat.lt_succ_self _, ?_, ?_⟩
    · intro o ho h; exact Nat.lt_irrefl _ (hI.lt o ho _ h)
    · intro h; exact Nat.lt_irrefl _ (hI.poolLt _ h)

/-- adding an object all of whose pointers are new (or the map just taken from the pool) -/
theorem add_inv {s : State} (hI : Inv s) (o : AObj) (n' : Nat) (hn : s.next ≤ n')
    (hname : ∀ q ∈ s.objs, q.name ≠ o.name)
    (hlt : ∀ x ∈ o.ids, x < n')
    (hfree : ∀ x ∈ o.ids, (∀ q ∈ s.objs, x ∉ q.ids) ∧ x ∉ s.pool) :
    Inv { s with next := n', objs := s.objs ++ [o] } := by
  refine ⟨?_, ?_, ?_, fun p hp => Nat.lt_of_lt_of_le (hI.poolLt p hp) hn, ?_, hI.poolNodup⟩
  · intro q hq x hx
    simp only [List.mem_append, List.mem_singleton] at hq
    rcases hq with hq | hq
    · exact Nat.lt_of_lt_of_le (hI.lt q hq x hx) hn
    · subst hq; exact hlt x hx
  · intro p hp q hq e
    simp only [List.mem_append, List.mem_singleton] at hp hq
    rcases hp with hp | hp <;> rcases hq with hq | hq
    · exact hI.uniq p hp q hq e
    · subst hq; exact absurd e (hname p hp)
    · subst hp; exact absurd e.symm (hname q hq)
    · rw [hp, hq]
  · intro p hp q hq e x hx
    simp only [List.mem_append, List.mem_singleton] at hp hq
    rcases hp with hp | hp <;> rcases hq with hq | hq
    · exact hI.disj p hp q hq e x hx
    · subst hq; intro hx'; exact (hfree x hx').1 p hp hx
    · subst hp; exact (hfree x hx).1 q hq
    · subst hp; subst hq; exact absurd rfl e
  · intro p hp q hq
    simp only [List.mem_append, List.mem_singleton] at hq
    rcases hq with hq | hq
    · exact hI.poolFree p hp q hq
    · subst hq; intro hx; exact (hfree p hx).2 hp

/-- **every operation keeps the invariant**, whatever the annotation pool hands out -/
theorem astep_inv {s s' : State} (hI : Inv s) {ch : Nat} {op : AOp} (h : astep s ch op = .ok s') : Inv s' := by
  cases op with
  | new a =>
    simp only [astep] at h
    cases hf : s.find a with
    | some _ => rw [hf] at h; cases h
    | none =>
      rw [hf] at h
      simp only [Except.ok.injEq] at h
      subst h
      have g := getMap_ok hI ch
      have := add_inv g.inv ⟨a, (s.getMap ch).2, .nil⟩ (s.getMap ch).1.next (Nat.le_refl _)
        (by rw [g.objs]; exact find_none hf)
        (by intro x hx; simp only [AObj.ids, AForest.ids, List.mem_singleton] at hx; subst hx; exact g.lt)
        (by intro x hx; simp only [AObj.ids, AForest.ids, List.mem_singleton] at hx; subst hx
            exact ⟨by rw [g.objs]; exact g.free, g.notPool⟩)
      exact this
  | setattr a key v =>
    simp only [astep] at h
    cases hf : s.find a with
    | none => rw [hf] at h; cases h
    | some oa =>
      rw [hf] at h
      simp only [Except.ok.injEq] at h
      subst h
      have hr := ATree.relabel_spec v s.next
      -- every pointer of an object after the operation is an old pointer of it or a new one
      have hids : ∀ o ∈ s.objs, ∀ x ∈ (if (o.name == a) = true then (⟨o.name, o.root, o.kids.setTop key (v.relabel s.next).1⟩ : AObj) else o).ids,
          x ∈ o.ids ∨ (s.next ≤ x ∧ x < (v.relabel s.next).2) := by
        intro o _ x hx
        split at hx
        · simp only [AObj.ids, List.mem_cons] at hx ⊢
          rcases hx with hx | hx
          · exact Or.inl (Or.inl hx)
          · rcases AForest.setTop_ids key _ o.kids x hx with h1 | h1
            · exact Or.inl (Or.inr h1)
            · exact Or.inr (hr.2 x h1)
        · exact Or.inl hx
      have hname : ∀ o : AObj, (if (o.name == a) = true then (⟨o.name, o.root, o.kids.setTop key (v.relabel s.next).1⟩ : AObj) else o).name = o.name := by
        intro o; split <;> rfl
      refine ⟨?_, ?_, ?_, fun p hp => Nat.lt_of_lt_of_le (hI.poolLt p hp) hr.1, ?_, hI.poolNodup⟩
      · intro q hq x hx
        simp only [List.mem_map] at hq
        obtain ⟨o, ho, rfl⟩ := hq
        rcases hids o ho x hx with h1 | h1
        · exact Nat.lt_of_lt_of_le (hI.lt o ho x h1) hr.1
        · exact h1.2
      · intro p hp q hq e
        simp only [List.mem_map] at hp hq
        obtain ⟨o1, ho1, rfl⟩ := hp
        obtain ⟨o2, ho2, rfl⟩ := hq
        rw [hname, hname] at e
        rw [hI.uniq o1 ho1 o2 ho2 e]
      · intro p hp q hq e x hx hx'
        simp only [List.mem_map] at hp hq
        obtain ⟨o1, ho1, rfl⟩ := hp
        obtain ⟨o2, ho2, rfl⟩ := hq
        rw [hname, hname] at e
        rcases hids o1 ho1 x hx with h1 | h1 <;> rcases hids o2 ho2 x hx' with h2 | h2
        · exact hI.disj o1 ho1 o2 ho2 e x h1 h2
        · have := hI.lt o1 ho1 x h1; omega
        · have := hI.lt o2 ho2 x h2; omega
        · -- both got the new value: both are `a`
          have e1 : (o1.name == a) = true := by
            by_cases c : (o1.name == a) = true
            · exact c
            · simp only [c] at hx; have := hI.lt o1 ho1 x hx; omega
          have e2 : (o2.name == a) = true := by
            by_cases c : (o2.name == a) = true
            · exact c
            · simp only [c] at hx'; have := hI.lt o2 ho2 x hx'; omega
          simp only [beq_iff_eq] at e1 e2
          exact e (e1.trans e2.symm)
      · intro p hp q hq hx
        simp only [List.mem_map] at hq
        obtain ⟨o, ho, rfl⟩ := hq
        rcases hids o ho p hx with h1 | h1
        · exact hI.poolFree p hp o ho h1
        · have := hI.poolLt p hp; omega
  | derive a b =>
    simp only [astep] at h
    cases hfa : s.find a with
    | none => rw [hfa] at h; cases h
    | some oa =>
      cases hfb : s.find b with
      | some _ => rw [hfa, hfb] at h; cases h
      | none =>
        rw [hfa, hfb] at h
        simp only [Except.ok.injEq] at h
        subst h
        have g := getMap_ok hI ch
        have hf := AForest.fill_spec oa.kids (s.getMap ch).1.next
        have := add_inv g.inv ⟨b, (s.getMap ch).2, (oa.kids.fill (s.getMap ch).1.next).1⟩
          (oa.kids.fill (s.getMap ch).1.next).2 hf.1
          (by rw [g.objs]; exact find_none hfb)
          (by intro x hx
              simp only [AObj.ids, List.mem_cons] at hx
              rcases hx with hx | hx
              · subst hx; exact Nat.lt_of_lt_of_le g.lt hf.1
              · exact (hf.2 x hx).2)
          (by intro x hx
              simp only [AObj.ids, List.mem_cons] at hx
              rcases hx with hx | hx
              · subst hx; exact ⟨by rw [g.objs]; exact g.free, g.notPool⟩
              · have hge := (hf.2 x hx).1
                exact ⟨fun q hq hxq => by have := g.inv.lt q hq x hxq; omega,
                  fun hp => by have := g.inv.poolLt x hp; omega⟩)
        exact this
  | edit a path k v =>
    simp only [astep] at h
    cases hf : s.find a with
    | none => rw [hf] at h; cases h
    | some oa =>
      simp only [hf] at h
      cases hr : (ATree.node oa.root true oa.kids).resolve path with
      | none => rw [hr] at h; cases h
      | some id =>
        rw [hr] at h
        simp only [Except.ok.injEq] at h
        subst h
        have hids : ∀ o : AObj, ∀ x ∈ (⟨o.name, o.root, if o.root = id then o.kids.setKey k v true else o.kids.editIdF id k v⟩ : AObj).ids,
            x ∈ o.ids := by
          intro o x hx
          simp only [AObj.ids, List.mem_cons] at hx ⊢
          rcases hx with hx | hx
          · exact Or.inl hx
          · split at hx
            · exact Or.inr (AForest.setKey_ids k v true o.kids x hx)
            · exact Or.inr (AForest.editIdF_ids id k v o.kids x hx)
        refine ⟨?_, ?_, ?_, hI.poolLt, ?_, hI.poolNodup⟩
        · intro q hq x hx
          simp only [State.edit, List.mem_map] at hq
          obtain ⟨o, ho, rfl⟩ := hq
          exact hI.lt o ho x (hids o x hx)
        · intro p hp q hq e
          simp only [State.edit, List.mem_map] at hp hq
          obtain ⟨o1, ho1, rfl⟩ := hp
          obtain ⟨o2, ho2, rfl⟩ := hq
          simp only at e
          rw [hI.uniq o1 ho1 o2 ho2 e]
        · intro p hp q hq e x hx hx'
          simp only [State.edit, List.mem_map] at hp hq
          obtain ⟨o1, ho1, rfl⟩ := hp
          obtain ⟨o2, ho2, rfl⟩ := hq
          simp only at e
          exact hI.disj o1 ho1 o2 ho2 e x (hids o1 x hx) (hids o2 x hx')
        · intro p hp q hq hx
          simp only [State.edit, List.mem_map] at hq
          obtain ⟨o, ho, rfl⟩ := hq
          exact hI.poolFree p hp o ho (hids o p hx)
  | recycle a =>
    simp only [astep] at h
    cases hf : s.find a with
    | none => rw [hf] at h; cases h
    | some oa =>
      rw [hf] at h
      simp only [Except.ok.injEq] at h
      subst h
      obtain ⟨hoa, hna⟩ := find_some hf
      have hsub : ∀ o, o ∈ s.objs.filter (fun o => !(o.name == a)) → o ∈ s.objs ∧ o.name ≠ a := by
        intro o ho
        simp only [List.mem_filter, Bool.not_eq_true', beq_eq_false_iff_ne] at ho
        exact ho
      refine ⟨fun o ho => hI.lt o (hsub o ho).1, fun p hp q hq => hI.uniq p (hsub p hp).1 q (hsub q hq).1,
        fun p hp q hq => hI.disj p (hsub p hp).1 q (hsub q hq).1, ?_, ?_, ?_⟩
      · intro p hp
        simp only [List.mem_cons] at hp
        rcases hp with hp | hp
        · subst hp; exact hI.lt oa hoa _ (by simp [AObj.ids])
        · exact hI.poolLt p hp
      · intro p hp o ho
        simp only [List.mem_cons] at hp
        rcases hp with hp | hp
        · subst hp
          exact hI.disj oa hoa o (hsub o ho).1 (by rw [hna]; exact (hsub o ho).2.symm) _ (by simp [AObj.ids])
        · exact hI.poolFree p hp o (hsub o ho).1
      · refine List.nodup_cons.mpr ⟨?_, hI.poolNodup⟩
        intro hp
        exact hI.poolFree _ hp oa hoa (by simp [AObj.ids])

theorem arun_inv (ops : List AOp) (ch : Nat → Nat) (i : Nat) (s s' : State) (hI : Inv s)
    (hr : arun s ch i ops = .ok s') : Inv s' := by
  induction ops generalizing s i with
  | nil => simp only [arun, Except.ok.injEq] at hr; subst hr; exact hI
  | cons op t ih =>
    simp only [arun] at hr
    cases hs : astep s (ch i) op with
    | error e => rw [hs] at hr; cases hr
    | ok s1 => rw [hs] at hr; exact ih (i + 1) s1 (astep_inv hI hs) hr

/-- **frame**: an operation leaves every live object other than its target exactly as it was (same top-level
map, same entries, same nested values, same pointers) — the in-place edit of a nested map or slice
reached through `a` included -/
theorem astep_frame {s s' : State} (hI : Inv s) {ch : Nat} {op : AOp} (h : astep s ch op = .ok s') :
    ∀ o ∈ s.objs, o.name ≠ op.target → o ∈ s'.objs := by
  intro o ho hne
  cases op with
  | new a =>
    simp only [astep] at h
    cases hf : s.find a with
    | some _ => rw [hf] at h; cases h
    | none =>
      rw [hf] at h; simp only [Except.ok.injEq] at h; subst h
      have g := getMap_ok hI ch
      simp only [List.mem_append]; left; rw [g.objs]; exact ho
  | setattr a key v =>
    simp only [astep] at h
    cases hf : s.find a with
    | none => rw [hf] at h; cases h
    | some oa =>
      rw [hf] at h; simp only [Except.ok.injEq] at h; subst h
      simp only [List.mem_map]
      refine ⟨o, ho, ?_⟩
      have : ¬ (o.name == a) = true := by simpa [AOp.target] using hne
      rw [if_neg this]
  | derive a b =>
    simp only [astep] at h
    cases hfa : s.find a with
    | none => rw [hfa] at h; cases h
    | some oa =>
      cases hfb : s.find b with
      | some _ => rw [hfa, hfb] at h; cases h
      | none =>
        rw [hfa, hfb] at h; simp only [Except.ok.injEq] at h; subst h
        have g := getMap_ok hI ch
        simp only [List.mem_append]; left; rw [g.objs]; exact ho
  | edit a path k v =>
    simp only [astep] at h
    cases hf : s.find a with
    | none => rw [hf] at h; cases h
    | some oa =>
      simp only [hf] at h
      cases hr : (ATree.node oa.root true oa.kids).resolve path with
      | none => rw [hr] at h; cases h
      | some id =>
        rw [hr] at h; simp only [Except.ok.injEq] at h; subst h
        obtain ⟨hoa, hna⟩ := find_some hf
        have hid : id ∈ oa.ids := ATree.resolve_mem path _ id hr
        have hno : id ∉ o.ids := hI.disj oa hoa o ho (by rw [hna]; exact fun e => hne e.symm) id hid
        simp only [AObj.ids, List.mem_cons, not_or] at hno
        simp only [State.edit, List.mem_map]
        refine ⟨o, ho, ?_⟩
        rw [if_neg (fun e => hno.1 e.symm), AForest.editIdF_of_not_mem id k v o.kids hno.2]
  | recycle a =>
    simp only [astep] at h
    cases hf : s.find a with
    | none => rw [hf] at h; cases h
    | some oa =>
      rw [hf] at h; simp only [Except.ok.injEq] at h; subst h
      simp only [List.mem_filter, Bool.not_eq_true', beq_eq_false_iff_ne]
      exact ⟨ho, hne⟩

end ObiVerif.AnnTree
