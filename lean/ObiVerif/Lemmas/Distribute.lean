import ObiVerif.Model.Distribute
/-!
# Lemmas on the routing model of `obidistribute` (C16)
-/
namespace ObiVerif.Distribute
open ObiVerif.Grep

/-! ## `RotateClassifier`: the stateful counter is the round-robin by rank -/

theorem rotateFrom_eq (size : Nat) (l : List α) : ∀ n,
    rotateFrom size n l = (List.range l.length).map fun i => (n + i) % size + 1 := by
  induction l with
  | nil => intro n; rfl
  | cons a t ih =>
    intro n
    simp only [rotateFrom, rotateStep, List.length_cons, List.range_succ_eq_map, List.map_cons,
      List.map_map, Nat.add_zero]
    rw [ih]
    congr 1
    apply List.map_congr_left
    intro i _
    simp only [Function.comp]
    show (n % size + 1 + i) % size + 1 = (n + (i + 1)) % size + 1
    rw [Nat.add_assoc (n % size) 1 i, Nat.mod_add_mod, Nat.add_comm 1 i]

/-- the `i`-th call (0-based) of a fresh `RotateClassifier(size)` returns `i % size + 1` -/
theorem rotateCodes_eq (size : Nat) (l : List α) :
    rotateCodes size l = (List.range l.length).map fun i => i % size + 1 := by
  unfold rotateCodes
  rw [rotateFrom_eq]
  simp

theorem rotateCodes_range (size N : Nat) :
    rotateCodes size (List.range N) = (List.range N).map fun i => i % size + 1 := by
  rw [rotateCodes_eq, List.length_range]

theorem rotate_code_bounds (size i : Nat) (h : 0 < size) : 1 ≤ i % size + 1 ∧ i % size + 1 ≤ size :=
  ⟨Nat.le_add_left _ _, Nat.mod_lt i h⟩

/-! ## `HashClassifier` -/

theorem hashCode_lt (size : Nat) (h : 0 < size) (r : Rec) : hashCode size r < size := Nat.mod_lt _ h

/-- the class depends on the sequence only -/
theorem hashCode_seq (size : Nat) (r r' : Rec) (h : r.seq = r'.seq) : hashCode size r = hashCode size r' := by
  simp [hashCode, h]

/-! ## `encode` / `decode` of the annotation classifiers -/

theorem lookupCode_some (v : String × String) : ∀ (l : List (String × String)) k,
    lookupCode v l = some k → l[k]? = some v := by
  intro l
  induction l with
  | nil => intro k h; simp [lookupCode] at h
  | cons x t ih =>
    intro k h
    simp only [lookupCode] at h
    split at h
    · rename_i hx
      cases h
      simp [hx]
    · cases hl : lookupCode v t with
      | none => simp [hl] at h
      | some j =>
        simp [hl] at h
        subst h
        simpa using ih j hl

theorem lookupCode_none (v : String × String) : ∀ (l : List (String × String)),
    lookupCode v l = none → v ∉ l := by
  intro l
  induction l with
  | nil => intro _; simp
  | cons x t ih =>
    intro h
    simp only [lookupCode] at h
    split at h
    · cases h
    · rename_i hx
      cases hl : lookupCode v t with
      | none =>
        have := ih hl
        simp only [List.mem_cons, not_or]
        exact ⟨fun e => hx e.symm, this⟩
      | some j => simp [hl] at h

/-- one call: `decode` only grows (at its end), stays duplicate free, and `decode[code] = value` -/
theorem encodeStep_spec (dec : List (String × String)) (v : String × String) (hnd : dec.Nodup) :
    (∃ ext, (encodeStep dec v).1 = dec ++ ext) ∧ (encodeStep dec v).1.Nodup ∧
    (encodeStep dec v).1[(encodeStep dec v).2]? = some v := by
  unfold encodeStep
  cases h : lookupCode v dec with
  | some k => exact ⟨⟨[], by simp⟩, hnd, lookupCode_some v dec k h⟩
  | none =>
    refine ⟨⟨[v], rfl⟩, ?_, by simp⟩
    have := lookupCode_none v dec h
    exact List.nodup_append.mpr ⟨hnd, by simp, by
      intro a ha b hb
      simp only [List.mem_singleton] at hb
      subst hb
      exact fun e => this (e ▸ ha)⟩

theorem getElem?_append_some {l : List α} {k : Nat} {x : α} (ext : List α) (h : l[k]? = some x) :
    (l ++ ext)[k]? = some x := by
  have hk : k < l.length := by
    rcases Nat.lt_or_ge k l.length with h' | h'
    · exact h'
    · simp [List.getElem?_eq_none_iff.mpr h'] at h
  rw [List.getElem?_append_left hk]
  exact h

/-- after any sequence of calls: the final `decode` extends the initial one, has no duplicate, and
maps the code returned for the `i`-th value back to that value (`Value(Code(r))` is the class of `r`,
also when asked later) -/
theorem encodeAll_spec : ∀ (vs dec : List (String × String)), dec.Nodup →
    (∃ ext, (encodeAll dec vs).1 = dec ++ ext) ∧ (encodeAll dec vs).1.Nodup ∧
    (encodeAll dec vs).2.length = vs.length ∧
    ∀ i (h : i < vs.length) (h' : i < (encodeAll dec vs).2.length),
      (encodeAll dec vs).1[(encodeAll dec vs).2[i]]? = some vs[i] := by
  intro vs
  induction vs with
  | nil => intro dec hnd; exact ⟨⟨[], by simp [encodeAll]⟩, hnd, rfl, fun i h => absurd h (Nat.not_lt_zero _)⟩
  | cons v t ih =>
    intro dec hnd
    obtain ⟨⟨e1, he1⟩, hnd1, hv⟩ := encodeStep_spec dec v hnd
    obtain ⟨⟨e2, he2⟩, hnd2, hlen, hall⟩ := ih (encodeStep dec v).1 hnd1
    simp only [encodeAll]
    refine ⟨⟨e1 ++ e2, by rw [he2, he1, List.append_assoc]⟩, hnd2, by simp [hlen], ?_⟩
    intro i h h'
    cases i with
    | zero =>
      simp only [List.getElem_cons_zero]
      rw [he2]
      exact getElem?_append_some e2 hv
    | succ j =>
      simp only [List.getElem_cons_succ]
      exact hall j (by simpa using h) (by simpa using h')

/-- two records get the same code iff they have the same class value -/
theorem encodeAll_injective (vs : List (String × String)) (i j : Nat) (hi : i < vs.length) (hj : j < vs.length)
    (hi' : i < (encodeAll [] vs).2.length) (hj' : j < (encodeAll [] vs).2.length) :
    (encodeAll [] vs).2[i] = (encodeAll [] vs).2[j] ↔ vs[i] = vs[j] := by
  obtain ⟨_, hnd, _, hall⟩ := encodeAll_spec vs [] List.nodup_nil
  have h1 := hall i hi hi'
  have h2 := hall j hj hj'
  constructor
  · intro e
    rw [e] at h1
    rw [h1] at h2
    exact Option.some.inj h2
  · intro e
    rw [e] at h1
    -- two positions of a duplicate-free list holding the same value are equal
    have hk1 : (encodeAll [] vs).2[i] < (encodeAll [] vs).1.length := by
      rcases Nat.lt_or_ge ((encodeAll [] vs).2[i]) (encodeAll [] vs).1.length with h | h
      · exact h
      · simp [List.getElem?_eq_none_iff.mpr h] at h1
    have hk2 : (encodeAll [] vs).2[j] < (encodeAll [] vs).1.length := by
      rcases Nat.lt_or_ge ((encodeAll [] vs).2[j]) (encodeAll [] vs).1.length with h | h
      · exact h
      · simp [List.getElem?_eq_none_iff.mpr h] at h2
    rw [List.getElem?_eq_getElem hk1] at h1
    rw [List.getElem?_eq_getElem hk2] at h2
    exact (List.getElem_inj hnd).mp ((Option.some.inj h1).trans (Option.some.inj h2).symm)

/-! ## file names -/

theorem endsWithL_append (a s g : List Char) (h : g.length ≤ s.length) :
    endsWithL (a ++ s) g = endsWithL s g := by
  unfold endsWithL
  have h1 : (a ++ s).length - g.length = a.length + (s.length - g.length) := by
    simp only [List.length_append]; omega
  rw [h1, List.drop_append]
  have h2 : g.length ≤ a.length + s.length := by omega
  have h3 : List.drop (a.length + (s.length - g.length)) a = [] := List.drop_eq_nil_of_le (by omega)
  simp [h, h2, h3]

/-- when the output is not compressed, or when the suffix of the pattern has three characters or more,
the decision to append `.gz` does not depend on the key -/
theorem gz_decision (pre suf : List Char) (z : Bool) (hz : z = false ∨ 3 ≤ suf.length) (k : List Char) :
    (z && !endsWithL (pre ++ k ++ suf) gzSuffix) = (z && !endsWithL suf gzSuffix) := by
  rcases hz with h | h
  · simp [h]
  · rw [endsWithL_append (pre ++ k) suf gzSuffix (by simpa [gzSuffix] using h)]

/-- splitting at the first separator -/
theorem split_first (c : Char) : ∀ (a b x y : List Char), c ∉ a → c ∉ b →
    a ++ c :: x = b ++ c :: y → a = b ∧ x = y := by
  intro a
  induction a with
  | nil =>
    intro b x y _ hb h
    cases b with
    | nil => simpa using h
    | cons b0 bt =>
      simp only [List.nil_append, List.cons_append, List.cons.injEq] at h
      exact absurd (h.1 ▸ List.mem_cons_self) hb
  | cons a0 at' ih =>
    intro b x y ha hb h
    cases b with
    | nil =>
      simp only [List.nil_append, List.cons_append, List.cons.injEq] at h
      exact absurd (h.1 ▸ List.mem_cons_self) ha
    | cons b0 bt =>
      simp only [List.cons_append, List.cons.injEq] at h
      obtain ⟨e, r⟩ := ih bt x y (fun m => ha (List.mem_cons_of_mem _ m)) (fun m => hb (List.mem_cons_of_mem _ m)) h.2
      exact ⟨by rw [h.1, e], r⟩

/-- the name without directory -/
def baseNameL (pre suf : List Char) (z : Bool) (key : List Char) : List Char :=
  let name := pre ++ key ++ suf
  if z && !endsWithL (patternL pre suf) gzSuffix then name ++ gzSuffix else name

theorem fileNameL_eq (pre suf : List Char) (z : Bool) (key dir : List Char) :
    fileNameL pre suf z key dir = if dir ≠ [] then dir ++ '/' :: baseNameL pre suf z key else baseNameL pre suf z key := rfl

/-- the extension does not depend on the key (it did, before the repair, unless `hz` of `gz_decision`) -/
theorem baseNameL_shape (pre suf : List Char) (z : Bool) (key : List Char) :
    baseNameL pre suf z key =
      pre ++ key ++ (suf ++ if z && !endsWithL (patternL pre suf) gzSuffix then gzSuffix else []) := by
  unfold baseNameL
  simp only
  split <;> simp

theorem baseNameL_injective (pre suf : List Char) (z : Bool) (k1 k2 : List Char)
    (h : baseNameL pre suf z k1 = baseNameL pre suf z k2) : k1 = k2 := by
  rw [baseNameL_shape pre suf z, baseNameL_shape pre suf z, List.append_assoc, List.append_assoc] at h
  exact List.append_cancel_right (List.append_cancel_left h)

theorem baseNameL_noslash (pre suf : List Char) (z : Bool) (key : List Char)
    (hp : '/' ∉ pre) (hs : '/' ∉ suf) (hk : '/' ∉ key) : '/' ∉ baseNameL pre suf z key := by
  unfold baseNameL
  simp only
  split <;> simp [hp, hs, hk, gzSuffix]

/-- **the file is determined by the class, and only by it**: two classes (key, directory) get the
same file iff they are equal — for plain names (no `/`); compressed or not, whatever the pattern -/
theorem fileNameL_injective (pre suf : List Char) (z : Bool)
    (k1 d1 k2 d2 : List Char) (hp : '/' ∉ pre) (hs : '/' ∉ suf) (hk1 : '/' ∉ k1) (hk2 : '/' ∉ k2)
    (hd1 : '/' ∉ d1) (hd2 : '/' ∉ d2)
    (h : fileNameL pre suf z k1 d1 = fileNameL pre suf z k2 d2) : k1 = k2 ∧ d1 = d2 := by
  rw [fileNameL_eq, fileNameL_eq] at h
  have n1 := baseNameL_noslash pre suf z k1 hp hs hk1
  have n2 := baseNameL_noslash pre suf z k2 hp hs hk2
  by_cases e1 : d1 = [] <;> by_cases e2 : d2 = []
  · simp only [e1, e2, ne_eq, not_true_eq_false, if_false] at h
    exact ⟨baseNameL_injective pre suf z k1 k2 h, by rw [e1, e2]⟩
  · simp only [e1, e2, ne_eq, not_true_eq_false, if_false, not_false_eq_true, if_true] at h
    exact absurd (h ▸ (List.mem_append_right d2 List.mem_cons_self)) n1
  · simp only [e1, e2, ne_eq, not_true_eq_false, if_false, not_false_eq_true, if_true] at h
    exact absurd (h.symm ▸ (List.mem_append_right d1 List.mem_cons_self)) n2
  · simp only [e1, e2, ne_eq, not_false_eq_true, if_true] at h
    obtain ⟨ed, en⟩ := split_first '/' d1 d2 _ _ hd1 hd2 h
    exact ⟨baseNameL_injective pre suf z k1 k2 en, ed⟩

/-- the counterexample of the unrepaired code (`-Z -p a%s`, classes `x` and `x.gz` sharing `ax.gz`) is
gone: the two classes have the files `ax.gz` and `ax.gz.gz` -/
theorem fileNameL_no_gz_collision :
    fileNameL ['a'] [] true ['x'] [] = ['a', 'x', '.', 'g', 'z'] ∧
    fileNameL ['a'] [] true ['x', '.', 'g', 'z'] [] = ['a', 'x', '.', 'g', 'z', '.', 'g', 'z'] := by decide

/-- a pattern ending with `.gz` is left alone, any other gets `.gz` appended when the output is compressed -/
theorem compressed_extension (pre suf key : List Char) :
    (endsWithL (patternL pre suf) gzSuffix = true → fileNameL pre suf true key [] = pre ++ key ++ suf) ∧
    (endsWithL (patternL pre suf) gzSuffix = false → fileNameL pre suf true key [] = pre ++ key ++ suf ++ gzSuffix) ∧
    fileNameL pre suf false key [] = pre ++ key ++ suf := by
  refine ⟨fun h => ?_, fun h => ?_, ?_⟩ <;> simp [fileNameL, *]

/-! ## the files computed by `distributeFiles` -/

theorem lookup_addToFile (f id : String) : ∀ (l : List (String × List String)) (g : String),
    (addToFile f id l).lookup g = if g = f then some ((l.lookup f).getD [] ++ [id]) else l.lookup g := by
  intro l
  induction l with
  | nil =>
    intro g
    by_cases h : g = f
    · simp [addToFile, List.lookup, h]
    · have hg : (g == f) = false := by simpa using h
      simp [addToFile, List.lookup, h, hg]
  | cons x t ih =>
    intro g
    obtain ⟨x1, x2⟩ := x
    simp only [addToFile]
    by_cases hx : x1 = f
    · subst hx
      by_cases h : g = x1
      · subst h; simp [List.lookup]
      · have hg : (g == x1) = false := by simpa using h
        simp [List.lookup, h, hg]
    · simp only [hx, if_false]
      by_cases h : g = f
      · subst h
        have hg : (g == x1) = false := by simpa using fun e => hx e.symm
        simp only [List.lookup, hg, ih, if_true]
      · by_cases h2 : g = x1
        · subst h2; simp [List.lookup, h]
        · have hg : (g == x1) = false := by simpa using h2
          simp only [List.lookup, hg, ih, h, if_false]

/-- the identifiers a file holds after the records `l` (with their ranks) have been routed, starting
from the files `acc` -/
theorem foldl_addToFile (file : Rec × Nat → String) (g : String) : ∀ (l : List (Rec × Nat)) (acc : List (String × List String)),
    ((l.foldl (fun acc ri => addToFile (file ri) ri.1.id acc) acc).lookup g).getD [] =
      (acc.lookup g).getD [] ++ (l.filter fun ri => file ri == g).map (·.1.id) := by
  intro l
  induction l with
  | nil => intro acc; simp
  | cons x t ih =>
    intro acc
    simp only [List.foldl_cons]
    rw [ih, lookup_addToFile]
    by_cases h : g = file x
    · subst h; simp
    · have : (file x == g) = false := by simpa using fun e => h e.symm
      simp [h, this]

/-- **every file holds exactly the records of its class, in input order**: the content of the file
`g` is the list of the records (rank `i`, content `r`) with `fileName o (classOf c i r) = g` -/
theorem distributeFiles_content (o : DistOpts) (c : Classifier) (recs : List Rec) (g : String) :
    ((distributeFiles o c recs).lookup g).getD [] =
      ((recs.zipIdx).filter fun ri => fileName o (classOf c ri.2 ri.1) == g).map (·.1.id) := by
  unfold distributeFiles
  rw [foldl_addToFile (fun ri => fileName o (classOf c ri.2 ri.1)) g]
  simp

/-! ## `--append` -/

theorem addToFile_nonempty (f id : String) : ∀ (l : List (String × List String)),
    (∀ e ∈ l, e.2 ≠ []) → ∀ e ∈ addToFile f id l, e.2 ≠ [] := by
  intro l
  induction l with
  | nil => intro _ e he; simp [addToFile] at he; subst he; simp
  | cons x t ih =>
    obtain ⟨g, ids⟩ := x
    intro h e he
    unfold addToFile at he
    split at he
    · rcases List.mem_cons.mp he with rfl | h'
      · simp
      · exact h e (List.mem_cons_of_mem _ h')
    · rcases List.mem_cons.mp he with rfl | h'
      · exact h _ (by simp)
      · exact ih (fun e' he' => h e' (List.mem_cons_of_mem _ he')) e h'

theorem mem_of_lookup_some {β : Type} (l : List (String × β)) (g : String) (v : β) (h : l.lookup g = some v) :
    (g, v) ∈ l := by
  induction l with
  | nil => simp at h
  | cons x t ih =>
    obtain ⟨k, w⟩ := x
    by_cases e : g = k
    · subst e; simp [List.lookup] at h; subst h; simp
    · have hb : (g == k) = false := by simp [e]
      simp only [List.lookup, hb] at h
      exact List.mem_cons_of_mem _ (ih h)

/-- a file exists only when a record was routed to it -/
theorem distributeFiles_nonempty (o : DistOpts) (c : Classifier) (recs : List Rec) (g : String) (ids : List String)
    (h : (distributeFiles o c recs).lookup g = some ids) : ids ≠ [] := by
  have inv : ∀ (l : List (Rec × Nat)) (acc : List (String × List String)), (∀ e ∈ acc, e.2 ≠ []) →
      ∀ e ∈ l.foldl (fun acc (ri : Rec × Nat) => addToFile (fileName o (classOf c ri.2 ri.1)) ri.1.id acc) acc, e.2 ≠ [] := by
    intro l
    induction l with
    | nil => intro acc h; exact h
    | cons x t ih => intro acc h; exact ih _ (addToFile_nonempty _ _ acc h)
  exact inv recs.zipIdx [] (by simp) (g, ids) (mem_of_lookup_some _ g ids h)

theorem lookup_map_value {β γ : Type} (h : String → β → γ) (l : List (String × β)) (g : String) :
    (l.map fun f => (f.1, h f.1 f.2)).lookup g = (l.lookup g).map (h g) := by
  induction l with
  | nil => rfl
  | cons x t ih =>
    obtain ⟨k, v⟩ := x
    by_cases e : g = k
    · subst e; simp [List.lookup]
    · have hb : (g == k) = false := by simp [e]
      simp [List.lookup, hb, ih]

theorem lookup_filter_name {β : Type} (p : String → Bool) (l : List (String × β)) (g : String) :
    (l.filter fun kv => p kv.1).lookup g = if p g then l.lookup g else none := by
  induction l with
  | nil => simp
  | cons x t ih =>
    obtain ⟨kx, vx⟩ := x
    by_cases hk : g = kx
    · subst hk
      cases hp : p g <;> simp [List.filter, hp, List.lookup, ih]
    · have hb : (g == kx) = false := by simp [hk]
      cases hp : p kx <;> simp [List.filter, hp, List.lookup, hb, ih]

theorem lookup_none_iff_not_name {β : Type} (l : List (String × β)) (g : String) :
    l.lookup g = none ↔ (l.map (·.1)).contains g = false := by
  induction l with
  | nil => simp
  | cons x t ih =>
    obtain ⟨k, v⟩ := x
    by_cases e : g = k
    · subst e; simp [List.lookup]
    · have hb : (g == k) = false := by simp [e]
      have hb' : (k == g) = false := by simp [Ne.symm e]
      simp only [List.lookup, hb, ih, List.map_cons, List.contains_cons, hb', Bool.false_or]

/-- the directory after a run: a file the run writes holds its old content (with `--append`; nothing
without) followed by the records routed to it; a file the run does not write is as before -/
theorem distributeFilesOn_content (o : DistOpts) (c : Classifier) (existing : List (String × List String))
    (recs : List Rec) (g : String) :
    (distributeFilesOn o c existing recs).lookup g =
      match (distributeFiles o c recs).lookup g with
      | some ids => some ((if o.append then (existing.lookup g).getD [] else []) ++ ids)
      | none => existing.lookup g := by
  unfold distributeFilesOn
  simp only
  rw [List.lookup_append]
  have h1 := lookup_map_value (fun n ids => (if o.append then (existing.lookup n).getD [] else []) ++ ids)
    (distributeFiles o c recs) g
  have h1' : (List.map (writtenContent o.append existing) (distributeFiles o c recs)).lookup g =
      ((distributeFiles o c recs).lookup g).map
        (fun ids => (if o.append then (existing.lookup g).getD [] else []) ++ ids) := h1
  rw [h1']
  rw [lookup_filter_name (fun n => !((distributeFiles o c recs).map (·.1)).contains n) existing g]
  cases hl : (distributeFiles o c recs).lookup g with
  | some ids => simp
  | none =>
    have := (lookup_none_iff_not_name _ g).mp hl
    simp only [this, Option.map_none, Option.none_or, Bool.not_false, ↓reduceIte]

end ObiVerif.Distribute
