import ObiVerif.Model.F64
import ObiVerif.Model.Clean

/-!
# Arithmetic facts about the binary64 model (`ObiVerif.Model.F64`)

* T0 `keeps_boundary_differs`, `keeps_boundary_agrees_tenth`, `share_big_differs` : concrete values (`decide`);
* T1 `ofNat_exact`, `sumF_exact`, `mul_ofNat_exact` : conversions, sums and products below `2^53` are exact;
* T2 `roundInt_rnd`, `share_exact` : one division then `math.Round` is `roundDiv` when `w * c < 2^52`;
* T3 `rnd_lt`, `keeps_exact_d1` : for `dist = 1` the double comparison is the exact one when the cross products
  are below `2^52`;
* T4 `rnd_le_pow2`, `keeps_exact_half` : `ratio = 1/2`, `1 ≤ dist ≤ 61`, `w1 < 2^52`.

Tools: `shiftOf_good` / `good_unique` (the shift chosen by `rnd` is the only one that puts the quotient in
`[2^52, 2^53)`), `rnd_mul_right` / `rnd_congr` (`rnd` depends on the ratio only), `rneQuot_err` (half-unit error).
-/
set_option Elab.async false

namespace ObiVerif.F64

/-! ## T0 : concrete facts -/

theorem keeps_boundary_differs :
    keeps 7 10 49 100 2 = some false ∧ ObiVerif.Clean.ratioKeeps 7 10 49 100 2 = true := by decide

theorem keeps_boundary_agrees_tenth :
    keeps 1 10 1 100 2 = some true ∧ keeps 1 10 1 1000 3 = some true ∧ keeps 5 100 25 10000 2 = some true := by
  decide

/-- `w * c = 19999999800000000 > 2^53`, the quotient is `w - 1/2 - 1/(2*(2w-1))` : the double nearest to it is
`w - 1/2`, which `math.Round` sends to `w`; the exact rounding is `w - 1`.
(The pair suggested first, `share 94906267 94906265 [94906265, 3]`, agrees with `roundDiv`: both are 94906264.) -/
theorem share_big_differs :
    share 100000000 199999998 [199999998, 1] = 100000000 ∧
    ObiVerif.Clean.roundDiv (100000000 * 199999998) (199999998 + 1) = 99999999 := by decide

/-! ## the shift -/

theorem scale_eq (n d : Nat) (e : Int) : scale n d e = (n * 2 ^ e.toNat, d * 2 ^ (-e).toNat) := by
  unfold scale
  split
  · have h : (-e).toNat = 0 := by omega
    simp [h]
  · have h : e.toNat = 0 := by omega
    simp [h]

/-- `2^52 ≤ n * 2^s / d < 2^53` -/
def Good (n d : Nat) (s : Int) : Prop :=
  2 ^ 52 * (d * 2 ^ (-s).toNat) ≤ n * 2 ^ s.toNat ∧ n * 2 ^ s.toNat < 2 ^ 53 * (d * 2 ^ (-s).toNat)

theorem pow_pos' (k : Nat) : 0 < 2 ^ k := Nat.two_pow_pos k

theorem shiftOf_good (n d : Nat) (hn : 0 < n) (hd : 0 < d) : Good n d (shiftOf n d) := by
  unfold shiftOf
  simp only [scale_eq]
  have ha1 : 2 ^ n.log2 ≤ n := Nat.log2_self_le (by omega)
  have ha2 : n < 2 ^ (n.log2 + 1) := Nat.lt_log2_self
  have hb1 : 2 ^ d.log2 ≤ d := Nat.log2_self_le (by omega)
  have hb2 : d < 2 ^ (d.log2 + 1) := Nat.lt_log2_self
  generalize n.log2 = a at *
  generalize d.log2 = b at *
  generalize hs0 : (52 - ((a : Int) - (b : Int))) = s0
  -- bounds at `s0`
  have hA : 2 ^ 51 * (d * 2 ^ (-s0).toNat) < n * 2 ^ s0.toNat := by
    have e : 52 + b + (-s0).toNat = a + s0.toNat := by omega
    have h1 : 2 ^ 51 * (d * 2 ^ (-s0).toNat) < 2 ^ 51 * (2 ^ (b + 1) * 2 ^ (-s0).toNat) :=
      Nat.mul_lt_mul_of_pos_left (Nat.mul_lt_mul_of_pos_right hb2 (pow_pos' _)) (pow_pos' _)
    have h2 : 2 ^ 51 * (2 ^ (b + 1) * 2 ^ (-s0).toNat) = 2 ^ (52 + b + (-s0).toNat) := by grind
    have h3 : 2 ^ a * 2 ^ s0.toNat ≤ n * 2 ^ s0.toNat := Nat.mul_le_mul_right _ ha1
    have h4 : 2 ^ a * 2 ^ s0.toNat = 2 ^ (a + s0.toNat) := by grind
    rw [h2, e] at h1
    rw [h4] at h3
    exact Nat.lt_of_lt_of_le h1 h3
  have hB : n * 2 ^ s0.toNat < 2 ^ 53 * (d * 2 ^ (-s0).toNat) := by
    have e : a + 1 + s0.toNat = 53 + b + (-s0).toNat := by omega
    have h1 : n * 2 ^ s0.toNat < 2 ^ (a + 1) * 2 ^ s0.toNat := Nat.mul_lt_mul_of_pos_right ha2 (pow_pos' _)
    have h2 : 2 ^ (a + 1) * 2 ^ s0.toNat = 2 ^ (a + 1 + s0.toNat) := by grind
    have h3 : 2 ^ 53 * (2 ^ b * 2 ^ (-s0).toNat) ≤ 2 ^ 53 * (d * 2 ^ (-s0).toNat) :=
      Nat.mul_le_mul_left _ (Nat.mul_le_mul_right _ hb1)
    have h4 : 2 ^ 53 * (2 ^ b * 2 ^ (-s0).toNat) = 2 ^ (53 + b + (-s0).toNat) := by grind
    rw [h2, e] at h1
    rw [h4] at h3
    exact Nat.lt_of_lt_of_le h1 h3
  split
  · rename_i hlt
    unfold Good
    by_cases hs : 0 ≤ s0
    · have e1 : (s0 + 1).toNat = s0.toNat + 1 := by omega
      have e2 : (-(s0 + 1)).toNat = 0 := by omega
      have e3 : (-s0).toNat = 0 := by omega
      rw [e1, e2]
      rw [e3] at hA hB hlt
      have e4 : n * 2 ^ (s0.toNat + 1) = 2 * (n * 2 ^ s0.toNat) := by grind
      rw [e4]
      simp only [Nat.pow_zero, Nat.mul_one] at hA hB hlt ⊢
      generalize n * 2 ^ s0.toNat = NP at *
      omega
    · have e1 : (s0 + 1).toNat = 0 := by omega
      have e2 : s0.toNat = 0 := by omega
      have e3 : (-s0).toNat = (-(s0 + 1)).toNat + 1 := by omega
      rw [e1]
      rw [e2, e3] at hA hB hlt
      have e4 : d * 2 ^ ((-(s0 + 1)).toNat + 1) = 2 * (d * 2 ^ (-(s0 + 1)).toNat) := by grind
      rw [e4] at hA hB hlt
      simp only [Nat.pow_zero, Nat.mul_one] at hA hB hlt ⊢
      generalize d * 2 ^ (-(s0 + 1)).toNat = DP at *
      omega
  · rename_i hge
    exact ⟨by omega, hB⟩

theorem good_lt {n d : Nat} {s s' : Int} (h : Good n d s) (h' : Good n d s') : ¬ (s + 1 ≤ s') := by
  intro hss
  obtain ⟨h1, _⟩ := h
  obtain ⟨_, h2⟩ := h'
  have hd : 0 < d := by
    rcases Nat.eq_zero_or_pos d with hd | hd
    · subst hd; simp at h2
    · exact hd
  have hn : 0 < n := by
    rcases Nat.eq_zero_or_pos n with hn | hn
    · subst hn
      have := Nat.mul_pos hd (pow_pos' (-s).toNat)
      omega
    · exact hn
  have hpos : 0 < n * 2 ^ s.toNat := Nat.mul_pos hn (pow_pos' _)
  have hm : 2 ^ 52 * (d * 2 ^ (-s).toNat) * (n * 2 ^ s'.toNat) < n * 2 ^ s.toNat * (2 ^ 53 * (d * 2 ^ (-s').toNat)) :=
    Nat.mul_lt_mul_of_le_of_lt h1 h2 hpos
  have e : (-s).toNat + s'.toNat = (1 + s.toNat + (-s').toNat) + (s' - s - 1).toNat := by omega
  have hl : 2 ^ 52 * (d * 2 ^ (-s).toNat) * (n * 2 ^ s'.toNat) = (2 ^ 52 * d * n) * 2 ^ ((-s).toNat + s'.toNat) := by
    grind
  have hr : n * 2 ^ s.toNat * (2 ^ 53 * (d * 2 ^ (-s').toNat)) = (2 ^ 52 * d * n) * 2 ^ (1 + s.toNat + (-s').toNat) := by
    grind
  rw [hl, hr, e, Nat.pow_add] at hm
  have hp := pow_pos' (s' - s - 1).toNat
  generalize 2 ^ (s' - s - 1).toNat = Q at *
  generalize 2 ^ (1 + s.toNat + (-s').toNat) = R at *
  generalize 2 ^ 52 * d * n = K at *
  have : K * R * 1 ≤ K * R * Q := Nat.mul_le_mul_left _ hp
  have : K * (R * Q) = K * R * Q := by grind
  omega

theorem good_unique {n d : Nat} {s s' : Int} (h : Good n d s) (h' : Good n d s') : s = s' := by
  have := good_lt h h'
  have := good_lt h' h
  omega

theorem shiftOf_eq {n d : Nat} {s : Int} (h : Good n d s) : shiftOf n d = s := by
  have hd : 0 < d := by
    rcases Nat.eq_zero_or_pos d with hd | hd
    · subst hd; have := h.2; simp at this
    · exact hd
  have hn : 0 < n := by
    rcases Nat.eq_zero_or_pos n with hn | hn
    · subst hn
      have := Nat.mul_pos hd (pow_pos' (-s).toNat)
      have := h.1
      omega
    · exact hn
  exact good_unique (shiftOf_good n d hn hd) h

/-! ## `rnd` through a known shift, invariance under a common factor -/

theorem good_pos {n d : Nat} {s : Int} (h : Good n d s) : 0 < n ∧ 0 < d := by
  have hd : 0 < d := by
    rcases Nat.eq_zero_or_pos d with hd | hd
    · subst hd; have := h.2; simp at this
    · exact hd
  refine ⟨?_, hd⟩
  rcases Nat.eq_zero_or_pos n with hn | hn
  · subst hn
    have := Nat.mul_pos hd (pow_pos' (-s).toNat)
    have := h.1
    omega
  · exact hn

theorem rnd_eq_of_good {n d : Nat} {s : Int} (h : Good n d s) :
    rnd n d = norm (rneQuot (n * 2 ^ s.toNat) (d * 2 ^ (-s).toNat)) (-s) := by
  have hp := good_pos h
  unfold rnd
  rw [if_neg (by omega)]
  simp only [shiftOf_eq h, scale_eq]

theorem rneQuot_mul_right (N D t : Nat) (ht : 0 < t) : rneQuot (N * t) (D * t) = rneQuot N D := by
  unfold rneQuot
  rw [Nat.mul_div_mul_right _ _ ht, Nat.mul_mod_mul_right]
  have e1 : (2 * (N % D * t) < D * t) = (2 * (N % D) < D) := by
    apply propext
    rw [← Nat.mul_assoc]
    exact Nat.mul_lt_mul_right ht
  have e2 : (D * t < 2 * (N % D * t)) = (D < 2 * (N % D)) := by
    apply propext
    rw [← Nat.mul_assoc]
    exact Nat.mul_lt_mul_right ht
  simp only [e1, e2]

theorem good_mul_right {n d : Nat} {s : Int} (t : Nat) (ht : 0 < t) (h : Good n d s) : Good (n * t) (d * t) s := by
  obtain ⟨h1, h2⟩ := h
  constructor
  · have := Nat.mul_le_mul_right t h1
    grind
  · have := Nat.mul_lt_mul_of_pos_right h2 ht
    grind

theorem rnd_mul_right (n d t : Nat) (ht : 0 < t) : rnd (n * t) (d * t) = rnd n d := by
  by_cases h0 : n = 0 ∨ d = 0
  · unfold rnd
    have : n * t = 0 ∨ d * t = 0 := by
      rcases h0 with h | h
      · left; simp [h]
      · right; simp [h]
    rw [if_pos h0, if_pos this]
  · have hg := shiftOf_good n d (by omega) (by omega)
    rw [rnd_eq_of_good hg, rnd_eq_of_good (good_mul_right t ht hg)]
    have e1 : n * t * 2 ^ (shiftOf n d).toNat = n * 2 ^ (shiftOf n d).toNat * t := by grind
    have e2 : d * t * 2 ^ (-shiftOf n d).toNat = d * 2 ^ (-shiftOf n d).toNat * t := by grind
    rw [e1, e2, rneQuot_mul_right _ _ _ ht]

/-- equal ratios round alike -/
theorem rnd_congr {n d n' d' : Nat} (hd : 0 < d) (hd' : 0 < d') (h : n * d' = n' * d) : rnd n d = rnd n' d' := by
  rw [← rnd_mul_right n d d' hd', ← rnd_mul_right n' d' d hd, h, Nat.mul_comm d d']

theorem rndE_congr {n d n' d' : Nat} {e : Int} (hd : 0 < d) (hd' : 0 < d')
    (h : n * 2 ^ e.toNat * d' = n' * (d * 2 ^ (-e).toNat)) : rndE n d e = rnd n' d' := by
  unfold rndE
  simp only [scale_eq]
  exact rnd_congr (Nat.mul_pos hd (pow_pos' _)) hd' h

/-! ## one division followed by `math.Round` -/

theorem rneQuot_cases (N D : Nat) :
    rneQuot N D = N / D ∨ (rneQuot N D = N / D + 1 ∧ D ≤ 2 * (N % D)) := by
  unfold rneQuot
  split
  · left; rfl
  · split
    · right; exact ⟨rfl, by omega⟩
    · split
      · left; rfl
      · right; exact ⟨rfl, by omega⟩

theorem core_nat (X S s : Nat) (hs : 1 ≤ s) (hS : 0 < S) (hX : X < 2 ^ 52) (hlo : 2 ^ 52 * S ≤ X * 2 ^ s) :
    (2 * rneQuot (X * 2 ^ s) S + 2 ^ s) / (2 * 2 ^ s) = (2 * X + S) / (2 * S) := by
  obtain ⟨j, rfl⟩ : ∃ j, s = j + 1 := ⟨s - 1, by omega⟩
  have hu : 0 < 2 ^ j := pow_pos' j
  have ht : 2 ^ (j + 1) = 2 * 2 ^ j := by grind
  rw [ht] at hlo ⊢
  generalize 2 ^ j = u at *
  have hSt : S < 2 * u := by
    have h1 : X * (2 * u) < 2 ^ 52 * (2 * u) := Nat.mul_lt_mul_of_pos_right hX (by omega)
    have h2 : 2 ^ 52 * S < 2 ^ 52 * (2 * u) := by omega
    exact Nat.lt_of_mul_lt_mul_left h2
  have hdm := Nat.div_add_mod (X * (2 * u)) S
  have hr := Nat.mod_lt (X * (2 * u)) hS
  have hR : (2 * X + S) / (2 * S) = ((X * (2 * u)) / S + u) / (2 * u) := by
    have e1 : (2 * X + S) / (2 * S) = ((2 * X + S) * u) / ((2 * S) * u) := (Nat.mul_div_mul_right _ _ hu).symm
    have e2 : (2 * X + S) * u = X * (2 * u) + S * u := by grind
    have e3 : 2 * S * u = S * (2 * u) := by grind
    rw [e1, e2, e3, ← Nat.div_div_eq_div_mul, Nat.add_mul_div_left _ _ hS]
  have hL : ∀ m, (2 * m + 2 * u) / (2 * (2 * u)) = (m + u) / (2 * u) := by
    intro m
    have : 2 * m + 2 * u = 2 * (m + u) := by omega
    rw [this, Nat.mul_div_mul_left _ _ (by omega)]
  rw [hR, hL]
  rcases rneQuot_cases (X * (2 * u)) S with hm | ⟨hm, hup⟩
  · rw [hm]
  · rw [hm]
    generalize (X * (2 * u)) / S = q at *
    generalize (X * (2 * u)) % S = r at *
    have hdm2 := Nat.div_add_mod (q + u) (2 * u)
    have hr2 := Nat.mod_lt (q + u) (show 0 < 2 * u by omega)
    generalize hk : (q + u) / (2 * u) = k at *
    generalize (q + u) % (2 * u) = ρ at *
    by_cases hρ : ρ + 1 < 2 * u
    · have : q + 1 + u = ρ + 1 + 2 * u * k := by omega
      rw [this, Nat.add_mul_div_left _ _ (by omega), Nat.div_eq_of_lt hρ]
      omega
    · exfalso
      have hq1 : q + 1 = u * (2 * k + 1) := by
        have : u * (2 * k + 1) = 2 * u * k + u := by grind
        omega
      have h1 : S * (q + 1) = S * q + S := by grind
      have h2 : S * (q + 1) = u * (S * (2 * k + 1)) := by rw [hq1]; grind
      have h3 : X * (2 * u) = u * (2 * X) := by grind
      generalize S * (2 * k + 1) = B at *
      generalize 2 * X = A at *
      rcases Nat.lt_or_ge A B with hAB | hAB
      · have : u * (A + 1) ≤ u * B := Nat.mul_le_mul_left _ hAB
        have : u * (A + 1) = u * A + u := by grind
        omega
      · have : u * B ≤ u * A := Nat.mul_le_mul_left _ hAB
        omega

theorem roundInt_mk (m : Nat) (e : Int) :
    roundInt ⟨m, e⟩ = (2 * (m * 2 ^ e.toNat) + 1 * 2 ^ (-e).toNat) / (2 * (1 * 2 ^ (-e).toNat)) := by
  unfold roundInt
  simp only [scale_eq]

theorem roundInt_norm_neg (m k : Nat) (hk : 1 ≤ k) :
    roundInt (norm m (-(k : Int))) = (2 * m + 2 ^ k) / (2 * 2 ^ k) := by
  obtain ⟨j, rfl⟩ : ∃ j, k = j + 1 := ⟨k - 1, by omega⟩
  unfold norm
  split
  · rename_i hm
    rw [roundInt_mk]
    have e1 : (-((j + 1 : Nat) : Int) + 1).toNat = 0 := by omega
    have e2 : (-(-((j + 1 : Nat) : Int) + 1)).toNat = j := by omega
    rw [e1, e2, hm]
    have e3 : 2 * 2 ^ 53 + 2 ^ (j + 1) = 2 * (2 * (2 ^ 52 * 2 ^ 0) + 1 * 2 ^ j) := by grind
    have e4 : 2 * 2 ^ (j + 1) = 2 * (2 * (1 * 2 ^ j)) := by grind
    rw [e3, e4, Nat.mul_div_mul_left _ _ (by omega)]
  · rw [roundInt_mk]
    have e1 : (-((j + 1 : Nat) : Int)).toNat = 0 := by omega
    have e2 : (-(-((j + 1 : Nat) : Int))).toNat = j + 1 := by omega
    rw [e1, e2]
    simp

/-- the core of T2 : one correctly rounded division, then `int(math.Round(·))`, is the exact rounding of the
rational as long as the numerator is below `2^52` -/
theorem roundInt_rnd (X S : Nat) (hX : X < 2 ^ 52) (hS : 0 < S) :
    roundInt (rnd X S) = (2 * X + S) / (2 * S) := by
  rcases Nat.eq_zero_or_pos X with h0 | h0
  · subst h0
    have : rnd 0 S = zero := by simp [rnd]
    rw [this]
    have : roundInt zero = 0 := by decide
    rw [this]
    exact (Nat.div_eq_of_lt (by omega)).symm
  · have hg := shiftOf_good X S h0 hS
    have hs : 1 ≤ shiftOf X S := by
      by_cases h : shiftOf X S < 1
      · exfalso
        have e : (shiftOf X S).toNat = 0 := by omega
        have h1 := hg.1
        rw [e] at h1
        have := Nat.mul_pos hS (pow_pos' (-shiftOf X S).toNat)
        generalize S * 2 ^ (-shiftOf X S).toNat = D at *
        omega
      · omega
    rw [rnd_eq_of_good hg]
    obtain ⟨k, hk⟩ : ∃ k : Nat, shiftOf X S = (k : Int) := ⟨(shiftOf X S).toNat, by omega⟩
    rw [hk] at hg hs ⊢
    have e1 : ((k : Int)).toNat = k := by omega
    have e2 : (-(k : Int)).toNat = 0 := by omega
    have hlo := hg.1
    rw [e1, e2] at hlo ⊢
    simp only [Nat.pow_zero, Nat.mul_one] at hlo ⊢
    rw [roundInt_norm_neg _ _ (by omega)]
    exact core_nat X S k (by omega) hS hX hlo

example : roundInt (rnd 5 2) = 3 ∧ (2 * 5 + 2) / (2 * 2) = 3 := by decide

/-! ## T1 : conversions, sums and small products are exact -/

/-- `a` is the rational `N / D` -/
def Val (a : F) (N D : Nat) : Prop := (scale a.m 1 a.e).1 * D = N * (scale a.m 1 a.e).2

theorem rneQuot_one (N : Nat) : rneQuot N 1 = N := by
  unfold rneQuot
  simp [Nat.mod_one]

/-- a representable value is not changed by the rounding -/
theorem rnd_pow (M k : Nat) (h1 : 2 ^ 52 ≤ M) (h2 : M < 2 ^ 53) : rnd M (2 ^ k) = ⟨M, -(k : Int)⟩ := by
  have hg : Good M (2 ^ k) (k : Int) := by
    unfold Good
    have e1 : ((k : Int)).toNat = k := by omega
    have e2 : (-(k : Int)).toNat = 0 := by omega
    rw [e1, e2]
    simp only [Nat.pow_zero, Nat.mul_one]
    exact ⟨Nat.mul_le_mul_right _ h1, Nat.mul_lt_mul_of_pos_right h2 (pow_pos' k)⟩
  rw [rnd_eq_of_good hg]
  have e1 : ((k : Int)).toNat = k := by omega
  have e2 : (-(k : Int)).toNat = 0 := by omega
  rw [e1, e2]
  have e3 : 2 ^ k * 2 ^ 0 = 1 * 2 ^ k := by simp
  rw [e3, rneQuot_mul_right _ _ _ (pow_pos' k), rneQuot_one]
  unfold norm
  rw [if_neg (by omega)]

theorem ofNat_zero : ofNat 0 = zero := by decide

/-- `float64(n)` is `n` itself, written with a normalised significand -/
theorem ofNat_form (n : Nat) (h : n < 2 ^ 53) :
    ∃ k : Nat, ofNat n = ⟨n * 2 ^ k, -(k : Int)⟩ ∧ (n = 0 ∨ 2 ^ 52 ≤ n * 2 ^ k) ∧ n * 2 ^ k < 2 ^ 53 ∧ k ≤ 52 := by
  rcases Nat.eq_zero_or_pos n with h0 | h0
  · subst h0
    exact ⟨0, by decide, Or.inl rfl, by decide, by decide⟩
  · have ha1 : 2 ^ n.log2 ≤ n := Nat.log2_self_le (by omega)
    have ha2 : n < 2 ^ (n.log2 + 1) := Nat.lt_log2_self
    have ha3 : n.log2 < 53 := (Nat.log2_lt (by omega)).2 h
    generalize n.log2 = a at *
    have hlo : 2 ^ 52 ≤ n * 2 ^ (52 - a) := by
      have : 2 ^ a * 2 ^ (52 - a) ≤ n * 2 ^ (52 - a) := Nat.mul_le_mul_right _ ha1
      have e : 2 ^ a * 2 ^ (52 - a) = 2 ^ 52 := by rw [← Nat.pow_add]; congr 1; omega
      omega
    have hhi : n * 2 ^ (52 - a) < 2 ^ 53 := by
      have : n * 2 ^ (52 - a) < 2 ^ (a + 1) * 2 ^ (52 - a) := Nat.mul_lt_mul_of_pos_right ha2 (pow_pos' _)
      have e : 2 ^ (a + 1) * 2 ^ (52 - a) = 2 ^ 53 := by rw [← Nat.pow_add]; congr 1; omega
      omega
    refine ⟨52 - a, ?_, Or.inr hlo, hhi, by omega⟩
    unfold ofNat
    rw [← rnd_pow _ _ hlo hhi]
    exact rnd_congr (by omega) (pow_pos' _) (by grind)

theorem val_mk (n k : Nat) : Val ⟨n * 2 ^ k, -(k : Int)⟩ n 1 := by
  unfold Val
  simp only [scale_eq]
  have e1 : (-(k : Int)).toNat = 0 := by omega
  have e2 : (-(-(k : Int))).toNat = k := by omega
  rw [e1, e2]
  simp

theorem ofNat_exact (n : Nat) (h : n < 2 ^ 53) : Val (ofNat n) n 1 := by
  obtain ⟨k, hk, _⟩ := ofNat_form n h
  rw [hk]
  exact val_mk n k

example : Val (ofNat 12345) 12345 1 := ofNat_exact _ (by decide)

theorem add_ofNat (a b : Nat) (h : a + b < 2 ^ 53) : add (ofNat a) (ofNat b) = ofNat (a + b) := by
  obtain ⟨k, hk, _⟩ := ofNat_form a (by omega)
  obtain ⟨l, hl, _⟩ := ofNat_form b (by omega)
  rw [hk, hl]
  unfold add ofNat
  apply rndE_congr (by omega) (by omega)
  simp only
  rcases Nat.le_total k l with hkl | hkl
  · have e0 : min (-(k : Int)) (-(l : Int)) = -(l : Int) := by omega
    rw [e0]
    have e1 : (-(k : Int) - -(l : Int)).toNat = l - k := by omega
    have e2 : (-(l : Int) - -(l : Int)).toNat = 0 := by omega
    have e3 : (-(l : Int)).toNat = 0 := by omega
    have e4 : (-(-(l : Int))).toNat = l := by omega
    rw [e1, e2, e3, e4]
    have : 2 ^ l = 2 ^ k * 2 ^ (l - k) := by rw [← Nat.pow_add]; congr 1; omega
    rw [this]
    grind
  · have e0 : min (-(k : Int)) (-(l : Int)) = -(k : Int) := by omega
    rw [e0]
    have e1 : (-(l : Int) - -(k : Int)).toNat = k - l := by omega
    have e2 : (-(k : Int) - -(k : Int)).toNat = 0 := by omega
    have e3 : (-(k : Int)).toNat = 0 := by omega
    have e4 : (-(-(k : Int))).toNat = k := by omega
    rw [e1, e2, e3, e4]
    have : 2 ^ k = 2 ^ l * 2 ^ (k - l) := by rw [← Nat.pow_add]; congr 1; omega
    rw [this]
    grind

theorem mul_ofNat (w c : Nat) (hw : w < 2 ^ 53) (hc : c < 2 ^ 53) : mul (ofNat w) (ofNat c) = rnd (w * c) 1 := by
  obtain ⟨k, hk, _⟩ := ofNat_form w hw
  obtain ⟨l, hl, _⟩ := ofNat_form c hc
  rw [hk, hl]
  unfold mul
  apply rndE_congr (by omega) (by omega)
  simp only
  have e1 : (-(k : Int) + -(l : Int)).toNat = 0 := by omega
  have e2 : (-(-(k : Int) + -(l : Int))).toNat = k + l := by omega
  rw [e1, e2]
  grind

/-- a product below `2^53` is exact -/
theorem mul_ofNat_exact (w c : Nat) (hw : w < 2 ^ 53) (hc : c < 2 ^ 53) (h : w * c < 2 ^ 53) :
    mul (ofNat w) (ofNat c) = ofNat (w * c) ∧ Val (mul (ofNat w) (ofNat c)) (w * c) 1 := by
  have := mul_ofNat w c hw hc
  refine ⟨this, ?_⟩
  rw [this]
  exact ofNat_exact _ h

example : Val (mul (ofNat 3000000) (ofNat 1000000000)) (3000000 * 1000000000) 1 :=
  (mul_ofNat_exact _ _ (by decide) (by decide) (by decide)).2

theorem div_ofNat (X S : Nat) (hX : X < 2 ^ 53) (hS0 : 0 < S) (hS : S < 2 ^ 53) :
    div (ofNat X) (ofNat S) = rnd X S := by
  obtain ⟨k, hk, _⟩ := ofNat_form X hX
  obtain ⟨l, hl, hl2, _⟩ := ofNat_form S hS
  rw [hk, hl]
  unfold div
  apply rndE_congr (Nat.mul_pos hS0 (pow_pos' _)) hS0
  simp only
  rcases Nat.le_total k l with hkl | hkl
  · have e1 : (-(k : Int) - -(l : Int)).toNat = l - k := by omega
    have e2 : (-(-(k : Int) - -(l : Int))).toNat = 0 := by omega
    rw [e1, e2]
    have : 2 ^ l = 2 ^ k * 2 ^ (l - k) := by rw [← Nat.pow_add]; congr 1; omega
    rw [this]
    grind
  · have e1 : (-(k : Int) - -(l : Int)).toNat = 0 := by omega
    have e2 : (-(-(k : Int) - -(l : Int))).toNat = k - l := by omega
    rw [e1, e2]
    have : 2 ^ k = 2 ^ l * 2 ^ (k - l) := by rw [← Nat.pow_add]; congr 1; omega
    rw [this]
    grind

theorem foldl_add_ofNat (cs : List Nat) : ∀ acc : Nat, acc + cs.sum < 2 ^ 53 →
    cs.foldl (fun s c => add s (ofNat c)) (ofNat acc) = ofNat (acc + cs.sum) := by
  induction cs with
  | nil => intro acc _; simp
  | cons c cs ih =>
    intro acc h
    simp only [List.foldl_cons, List.sum_cons] at h ⊢
    rw [add_ofNat acc c (by omega), ih (acc + c) (by omega)]
    congr 1
    omega

/-- a sum below `2^53` is exact, whatever the order -/
theorem sumF_exact (cs : List Nat) (h : cs.sum < 2 ^ 53) : sumF cs = ofNat cs.sum ∧ Val (sumF cs) cs.sum 1 := by
  have : sumF cs = ofNat cs.sum := by
    unfold sumF
    rw [← ofNat_zero, foldl_add_ofNat cs 0 (by omega)]
    congr 1
    omega
  refine ⟨this, ?_⟩
  rw [this]
  exact ofNat_exact _ h

example : Val (sumF [7, 11, 4000000000]) 4000000018 1 := (sumF_exact _ (by decide)).2

/-! ## T2 : the share given to a father -/

theorem share_exact (w c : Nat) (fs : List Nat) (h1 : w * c < 2 ^ 52) (h2 : 0 < fs.sum) (h3 : fs.sum < 2 ^ 53)
    (h4 : w < 2 ^ 53) (h5 : c < 2 ^ 53) : share w c fs = ObiVerif.Clean.roundDiv (w * c) fs.sum := by
  unfold share ObiVerif.Clean.roundDiv
  rw [(mul_ofNat_exact w c h4 h5 (by omega)).1, (sumF_exact fs h3).1, div_ofNat _ _ (by omega) h2 h3]
  exact roundInt_rnd _ _ h1 h2

example : share 1000 3 [3, 4] = ObiVerif.Clean.roundDiv (1000 * 3) [3, 4].sum :=
  share_exact _ _ _ (by decide) (by decide) (by decide) (by decide) (by decide)

/-! ## T3 : one division on each side of `<=`, distance 1 -/

theorem rneQuot_err (N D : Nat) (hD : 0 < D) :
    2 * (rneQuot N D * D) ≤ 2 * N + D ∧ 2 * N ≤ 2 * (rneQuot N D * D) + D := by
  have hdm := Nat.div_add_mod N D
  have hr := Nat.mod_lt N hD
  unfold rneQuot
  generalize N / D = q at *
  generalize N % D = r at *
  have e : (q + 1) * D = D * q + D := by grind
  have e' : q * D = D * q := Nat.mul_comm _ _
  split
  · rw [e']; omega
  · split
    · rw [e]; omega
    · split
      · rw [e']; omega
      · rw [e]; omega

theorem rneQuot_range (N D : Nat) (hD : 0 < D) (h1 : 2 ^ 52 * D ≤ N) (h2 : N < 2 ^ 53 * D) :
    2 ^ 52 ≤ rneQuot N D ∧ rneQuot N D ≤ 2 ^ 53 := by
  have a1 : 2 ^ 52 ≤ N / D := (Nat.le_div_iff_mul_le hD).2 h1
  have a2 : N / D < 2 ^ 53 := (Nat.div_lt_iff_lt_mul hD).2 h2
  rcases rneQuot_cases N D with h | ⟨h, _⟩ <;> rw [h] <;> omega

/-- the shape of `rnd n d` for `0 < n / d < 2^52` -/
theorem rnd_spec_pos (n d : Nat) (hn : 0 < n) (hd : 0 < d) (h : n < 2 ^ 52 * d) :
    ∃ m s : Nat, 1 ≤ s ∧ 2 ^ 52 * d ≤ n * 2 ^ s ∧ n * 2 ^ s < 2 ^ 53 * d ∧ m = rneQuot (n * 2 ^ s) d ∧
      rnd n d = norm m (-(s : Int)) := by
  have hg := shiftOf_good n d hn hd
  have hs : 1 ≤ shiftOf n d := by
    by_cases hlt : shiftOf n d < 1
    · exfalso
      have e : (shiftOf n d).toNat = 0 := by omega
      have h1 := hg.1
      rw [e] at h1
      have hp := pow_pos' (-shiftOf n d).toNat
      have : d * 1 ≤ d * 2 ^ (-shiftOf n d).toNat := Nat.mul_le_mul_left _ hp
      generalize d * 2 ^ (-shiftOf n d).toNat = D at *
      omega
    · omega
  have hr := rnd_eq_of_good hg
  obtain ⟨k, hk⟩ : ∃ k : Nat, shiftOf n d = (k : Int) := ⟨(shiftOf n d).toNat, by omega⟩
  rw [hk] at hg hs hr
  have e1 : ((k : Int)).toNat = k := by omega
  have e2 : (-(k : Int)).toNat = 0 := by omega
  obtain ⟨hlo, hhi⟩ := hg
  rw [e1, e2] at hlo hhi hr
  simp only [Nat.pow_zero, Nat.mul_one] at hlo hhi hr
  exact ⟨_, k, by omega, hlo, hhi, rfl, hr⟩

theorem le_neg (x y i j : Nat) : le ⟨x, -(i : Int)⟩ ⟨y, -(j : Int)⟩ = decide (x * 2 ^ j ≤ y * 2 ^ i) := by
  unfold le
  simp only
  apply decide_eq_decide.2
  rcases Nat.le_total i j with hij | hij
  · have e0 : min (-(i : Int)) (-(j : Int)) = -(j : Int) := by omega
    have e1 : (-(i : Int) - -(j : Int)).toNat = j - i := by omega
    have e2 : (-(j : Int) - -(j : Int)).toNat = 0 := by omega
    rw [e0, e1, e2]
    have e3 : 2 ^ j = 2 ^ (j - i) * 2 ^ i := by rw [← Nat.pow_add]; congr 1; omega
    rw [e3, ← Nat.mul_assoc, Nat.mul_le_mul_right_iff (pow_pos' i)]
    simp
  · have e0 : min (-(i : Int)) (-(j : Int)) = -(i : Int) := by omega
    have e1 : (-(j : Int) - -(i : Int)).toNat = i - j := by omega
    have e2 : (-(i : Int) - -(i : Int)).toNat = 0 := by omega
    rw [e0, e1, e2]
    have e3 : 2 ^ i = 2 ^ (i - j) * 2 ^ j := by rw [← Nat.pow_add]; congr 1; omega
    rw [e3, ← Nat.mul_assoc, Nat.mul_le_mul_right_iff (pow_pos' j)]
    simp

theorem norm_form (m s : Nat) (hs : 1 ≤ s) : ∃ y j : Nat, norm m (-(s : Int)) = ⟨y, -(j : Int)⟩ := by
  unfold norm
  split
  · exact ⟨2 ^ 52, s - 1, by congr 1; omega⟩
  · exact ⟨m, s, rfl⟩

theorem le_norm_left (m s y j : Nat) (hs : 1 ≤ s) :
    le (norm m (-(s : Int))) ⟨y, -(j : Int)⟩ = le ⟨m, -(s : Int)⟩ ⟨y, -(j : Int)⟩ := by
  unfold norm
  split
  · rename_i hm
    obtain ⟨i, rfl⟩ : ∃ i, s = i + 1 := ⟨s - 1, by omega⟩
    have e : (-((i + 1 : Nat) : Int) + 1) = -(i : Int) := by omega
    rw [e, le_neg, le_neg, hm]
    apply decide_eq_decide.2
    have : y * 2 ^ (i + 1) = 2 * (y * 2 ^ i) := by grind
    rw [this]
    generalize y * 2 ^ i = A
    generalize 2 ^ j = B
    omega
  · rfl

theorem le_norm_right (m s x i : Nat) (hs : 1 ≤ s) :
    le ⟨x, -(i : Int)⟩ (norm m (-(s : Int))) = le ⟨x, -(i : Int)⟩ ⟨m, -(s : Int)⟩ := by
  unfold norm
  split
  · rename_i hm
    obtain ⟨k, rfl⟩ : ∃ k, s = k + 1 := ⟨s - 1, by omega⟩
    have e : (-((k + 1 : Nat) : Int) + 1) = -(k : Int) := by omega
    rw [e, le_neg, le_neg, hm]
    apply decide_eq_decide.2
    have : x * 2 ^ (k + 1) = 2 * (x * 2 ^ k) := by grind
    rw [this]
    generalize x * 2 ^ k = A
    generalize 2 ^ i = B
    omega
  · rfl

theorem le_norm (m1 s1 m2 s2 : Nat) (h1 : 1 ≤ s1) (h2 : 1 ≤ s2) :
    le (norm m1 (-(s1 : Int))) (norm m2 (-(s2 : Int))) = decide (m1 * 2 ^ s2 ≤ m2 * 2 ^ s1) := by
  obtain ⟨y, j, hy⟩ := norm_form m2 s2 h2
  rw [hy, le_norm_left _ _ _ _ h1, ← hy, le_norm_right _ _ _ _ h2, le_neg]

theorem inRange_norm (m s : Nat) (h1 : 2 ^ 52 ≤ m) (h2 : m ≤ 2 ^ 53) (hs : s ≤ 1074) :
    inRange (norm m (-(s : Int))) = true := by
  unfold norm inRange
  split
  · simp only [decide_eq_true_eq]; omega
  · simp only [decide_eq_true_eq]; omega

/-- two ratios that differ, whose cross products are below `2^52`, round to different doubles in the same order -/
theorem rnd_lt (n1 d1 n2 d2 : Nat) (hn1 : 0 < n1) (hd1 : 0 < d1) (hd2 : 0 < d2)
    (h : n1 * d2 < n2 * d1) (hb : n2 * d1 < 2 ^ 52) :
    le (rnd n1 d1) (rnd n2 d2) = true ∧ le (rnd n2 d2) (rnd n1 d1) = false := by
  have hn2 : 0 < n2 := by
    rcases Nat.eq_zero_or_pos n2 with h0 | h0
    · subst h0; omega
    · exact h0
  have b1 : n1 < 2 ^ 52 * d1 := by
    have : n1 * 1 ≤ n1 * d2 := Nat.mul_le_mul_left _ hd2
    omega
  have b2 : n2 < 2 ^ 52 * d2 := by
    have : n2 * 1 ≤ n2 * d1 := Nat.mul_le_mul_left _ hd1
    omega
  obtain ⟨m1, s1, hs1, lo1, hi1, hm1, r1⟩ := rnd_spec_pos n1 d1 hn1 hd1 b1
  obtain ⟨m2, s2, hs2, lo2, hi2, hm2, r2⟩ := rnd_spec_pos n2 d2 hn2 hd2 b2
  rw [r1, r2, le_norm _ _ _ _ hs1 hs2, le_norm _ _ _ _ hs2 hs1]
  have hT1 := pow_pos' s1
  have hT2 := pow_pos' s2
  generalize 2 ^ s1 = T1 at *
  generalize 2 ^ s2 = T2 at *
  obtain ⟨err1, _⟩ := rneQuot_err (n1 * T1) d1 hd1
  obtain ⟨_, err2⟩ := rneQuot_err (n2 * T2) d2 hd2
  rw [← hm1] at err1
  rw [← hm2] at err2
  clear hm1 hm2 r1 r2
  have hG : 0 < d1 * d2 := Nat.mul_pos hd1 hd2
  -- the gap `1 / (d1 * d2)` is larger than one unit in the last place of either value
  have g1 : d1 * d2 < T1 := by
    have a1 : 2 ^ 52 * d1 * d2 ≤ n1 * T1 * d2 := Nat.mul_le_mul_right _ lo1
    have a2 : n1 * d2 * T1 < 2 ^ 52 * T1 := Nat.mul_lt_mul_of_pos_right (by omega) hT1
    have a3 : n1 * T1 * d2 = n1 * d2 * T1 := by grind
    have a4 : 2 ^ 52 * d1 * d2 = 2 ^ 52 * (d1 * d2) := by grind
    exact Nat.lt_of_mul_lt_mul_left (a := 2 ^ 52) (by omega)
  have g2 : d1 * d2 < T2 := by
    have a1 : 2 ^ 52 * d2 * d1 ≤ n2 * T2 * d1 := Nat.mul_le_mul_right _ lo2
    have a2 : n2 * d1 * T2 < 2 ^ 52 * T2 := Nat.mul_lt_mul_of_pos_right hb hT2
    have a3 : n2 * T2 * d1 = n2 * d1 * T2 := by grind
    have a4 : 2 ^ 52 * d2 * d1 = 2 ^ 52 * (d1 * d2) := by grind
    exact Nat.lt_of_mul_lt_mul_left (a := 2 ^ 52) (by omega)
  have f1 : 2 * (m1 * T2 * (d1 * d2)) ≤ 2 * (n1 * d2 * (T1 * T2)) + d1 * d2 * T2 := by
    have := Nat.mul_le_mul_right (d2 * T2) err1
    grind
  have f2 : 2 * (n2 * d1 * (T1 * T2)) ≤ 2 * (m2 * T1 * (d1 * d2)) + d1 * d2 * T1 := by
    have := Nat.mul_le_mul_right (d1 * T1) err2
    grind
  have f3 : (n1 * d2 + 1) * (T1 * T2) ≤ n2 * d1 * (T1 * T2) := Nat.mul_le_mul_right _ h
  have f3' : (n1 * d2 + 1) * (T1 * T2) = n1 * d2 * (T1 * T2) + T1 * T2 := by grind
  have f4 : d1 * d2 * T2 < T1 * T2 := Nat.mul_lt_mul_of_pos_right g1 hT2
  have f5 : d1 * d2 * T1 < T1 * T2 := by
    have := Nat.mul_lt_mul_of_pos_left g2 hT1
    grind
  have key : m1 * T2 * (d1 * d2) < m2 * T1 * (d1 * d2) := by
    generalize m1 * T2 * (d1 * d2) = V at *
    generalize m2 * T1 * (d1 * d2) = U at *
    generalize n1 * d2 * (T1 * T2) = P at *
    generalize n2 * d1 * (T1 * T2) = W at *
    generalize d1 * d2 * T2 = GB at *
    generalize d1 * d2 * T1 = GA at *
    generalize T1 * T2 = TT at *
    omega
  have key' : m1 * T2 < m2 * T1 := Nat.lt_of_mul_lt_mul_right key
  constructor
  · exact decide_eq_true (by omega)
  · exact decide_eq_false (by omega)

theorem le_zero_left (b : F) : le zero b = true := by
  unfold le zero
  simp

theorem pow_one_of_ne (x : F) (h : eqv x one = false) : pow x 1 = some x := by
  unfold pow
  simp [h]

theorem one_eq : one = ⟨2 ^ 52, -((52 : Nat) : Int)⟩ := by decide

theorem zero_eq : zero = ⟨0, -((0 : Nat) : Int)⟩ := by decide

theorem le_refl' (a : F) : le a a = true := by
  unfold le
  simp

/-- a ratio `0 < p / q < 1` with `q < 2^53` is a normal double below 1 -/
theorem ratio_spec (p q : Nat) (hp : 0 < p) (hpq : p < q) (hq' : q < 2 ^ 53) :
    eqv (rnd p q) one = false ∧ inRange (rnd p q) = true := by
  have hq : 0 < q := by omega
  obtain ⟨m, s, hs, lo, hi, hm, r⟩ := rnd_spec_pos p q hp hq (by
    have : 2 ^ 52 * 1 ≤ 2 ^ 52 * q := Nat.mul_le_mul_left _ hq
    omega)
  have hmr := rneQuot_range _ _ hq lo hi
  obtain ⟨err, _⟩ := rneQuot_err (p * 2 ^ s) q hq
  rw [← hm] at hmr err
  have hT := pow_pos' s
  have hstep : (p + 1) * 2 ^ s ≤ q * 2 ^ s := Nat.mul_le_mul_right _ hpq
  have hstep' : (p + 1) * 2 ^ s = p * 2 ^ s + 2 ^ s := by grind
  have hbig : 2 ^ 52 < 2 ^ s := by
    have : 2 ^ 52 * q < 2 ^ s * q := by
      have : q * 2 ^ s = 2 ^ s * q := Nat.mul_comm _ _
      omega
    exact Nat.lt_of_mul_lt_mul_right this
  have hs52 : 52 < s := (Nat.pow_lt_pow_iff_right (by omega)).1 hbig
  have hbig' : 2 ^ 53 ≤ 2 ^ s := Nat.pow_le_pow_right (by omega) (by omega)
  have hs106 : s < 106 := by
    have a1 : 1 * 2 ^ s ≤ p * 2 ^ s := Nat.mul_le_mul_right _ hp
    have a2 : 2 ^ 53 * q < 2 ^ 53 * 2 ^ 53 := Nat.mul_lt_mul_of_pos_left hq' (by omega)
    have a3 : 2 ^ s < 2 ^ 106 := by
      have : (2 : Nat) ^ 53 * 2 ^ 53 = 2 ^ 106 := by decide
      omega
    exact (Nat.pow_lt_pow_iff_right (by omega)).1 a3
  have hlt : m < 2 ^ s := by
    have : m * q < 2 ^ s * q := by
      have : q * 2 ^ s = 2 ^ s * q := Nat.mul_comm _ _
      generalize m * q = A at *
      generalize p * 2 ^ s = B at *
      generalize 2 ^ s * q = C at *
      generalize 2 ^ s = T at *
      omega
    exact Nat.lt_of_mul_lt_mul_right this
  constructor
  · unfold eqv
    have : le one (rnd p q) = false := by
      rw [r, one_eq, le_norm_right _ _ _ _ hs, le_neg]
      apply decide_eq_false
      have : m * 2 ^ 52 < 2 ^ 52 * 2 ^ s := by
        have := Nat.mul_lt_mul_of_pos_left hlt (show 0 < 2 ^ 52 by omega)
        rw [Nat.mul_comm m]; exact this
      omega
    rw [this]
    simp
  · rw [r]
    exact inRange_norm _ _ hmr.1 hmr.2 (by omega)

/-- T3 : for `dist = 1` the double comparison of graph.go is the exact comparison of the two ratios, as long as
the cross products `w1 * q` and `p * wf` are below `2^52` -/
theorem keeps_exact_d1 (p q w1 wf : Nat) (hq : 0 < q) (hwf : 0 < wf) (hpq : p < q)
    (ha : w1 * q < 2 ^ 52) (hb : p * wf < 2 ^ 52) (hq' : q < 2 ^ 53) (hwf' : wf < 2 ^ 53) :
    keeps p q w1 wf 1 = some (ObiVerif.Clean.ratioKeeps p q w1 wf 1) := by
  have hw1 : w1 < 2 ^ 52 := by
    have : w1 * 1 ≤ w1 * q := Nat.mul_le_mul_left _ hq
    omega
  have hp : p < 2 ^ 52 := by
    have : p * 1 ≤ p * wf := Nat.mul_le_mul_left _ hwf
    omega
  have hrk : ObiVerif.Clean.ratioKeeps p q w1 wf 1 = decide (w1 * q ≤ p * wf) := by
    simp [ObiVerif.Clean.ratioKeeps]
  unfold keeps
  rw [hrk, div_ofNat p q (by omega) hq hq', div_ofNat w1 wf (by omega) hwf hwf']
  rcases Nat.eq_zero_or_pos p with hp0 | hp0
  · -- `ratio = 0`
    subst hp0
    have e0 : rnd 0 q = zero := by simp [rnd]
    have e1 : pow zero 1 = some zero := by decide
    rw [e0, e1]
    simp only
    have e2 : inRange zero = true := by decide
    rw [if_pos e2]
    rcases Nat.eq_zero_or_pos w1 with hw0 | hw0
    · subst hw0
      have : rnd 0 wf = zero := by simp [rnd]
      rw [this]
      simp [le_zero_left]
    · obtain ⟨m, s, hs, lo, hi, hm, r⟩ := rnd_spec_pos w1 wf hw0 hwf (by
        have : 2 ^ 52 * 1 ≤ 2 ^ 52 * wf := Nat.mul_le_mul_left _ hwf
        omega)
      have hmr := rneQuot_range _ _ hwf lo hi
      rw [← hm] at hmr
      have hpos : 0 < w1 * q := Nat.mul_pos hw0 hq
      rw [r, zero_eq, le_norm_left _ _ _ _ hs, le_neg]
      congr 1
      apply decide_eq_decide.2
      simp only [Nat.pow_zero, Nat.mul_one, Nat.zero_mul]
      omega
  · obtain ⟨hne, hin⟩ := ratio_spec p q hp0 hpq hq'
    rw [pow_one_of_ne _ hne]
    simp only
    rw [if_pos hin]
    congr 1
    rcases Nat.eq_zero_or_pos w1 with hw0 | hw0
    · subst hw0
      have : rnd 0 wf = zero := by simp [rnd]
      rw [this, le_zero_left]
      exact (decide_eq_true (by omega)).symm
    · rcases Nat.lt_trichotomy (w1 * q) (p * wf) with hlt | heq | hgt
      · rw [(rnd_lt w1 wf p q hw0 hwf hq hlt hb).1]
        exact (decide_eq_true (by omega)).symm
      · rw [rnd_congr hwf hq heq, le_refl']
        exact (decide_eq_true (by omega)).symm
      · rw [(rnd_lt p q w1 wf hp0 hq hwf hgt ha).2]
        exact (decide_eq_false (by omega)).symm

example : keeps 7 10 49 100 1 = some (ObiVerif.Clean.ratioKeeps 7 10 49 100 1) :=
  keeps_exact_d1 _ _ _ _ (by decide) (by decide) (by decide) (by decide) (by decide) (by decide) (by decide)

/-! ## T4 : `ratio = 1/2`, any distance up to 61 -/

/-- `math.Pow(0.5, d)` is exactly `2^-d` (the loop of `pow` is run by the kernel for each `d`) -/
theorem pow_half_all : ∀ d, d < 61 → pow (rnd 1 2) (d + 1) = some ⟨2 ^ 52, -53 - (d : Int)⟩ := by decide

theorem rneQuot_le (N D k : Nat) (hD : 0 < D) (h : N ≤ k * D) : rneQuot N D ≤ k := by
  obtain ⟨err, _⟩ := rneQuot_err N D hD
  have : rneQuot N D * D < (k + 1) * D := by
    have e : (k + 1) * D = k * D + D := by grind
    generalize rneQuot N D * D = A at *
    generalize k * D = B at *
    omega
  have := Nat.lt_of_mul_lt_mul_right this
  omega

/-- comparing a rounded quotient with a power of two is exact when the denominator is below `2^53` -/
theorem rnd_le_pow2 (n dd d : Nat) (hn : n < 2 ^ 52) (hd0 : 0 < dd) (hd : dd < 2 ^ 53) :
    le (rnd n dd) ⟨2 ^ 52, -((52 + d : Nat) : Int)⟩ = decide (n * 2 ^ d ≤ dd) := by
  rcases Nat.eq_zero_or_pos n with h0 | h0
  · subst h0
    have : rnd 0 dd = zero := by simp [rnd]
    rw [this, le_zero_left]
    exact (decide_eq_true (by omega)).symm
  · obtain ⟨m, s, hs, lo, hi, hm, r⟩ := rnd_spec_pos n dd h0 hd0 (by
      have : 2 ^ 52 * 1 ≤ 2 ^ 52 * dd := Nat.mul_le_mul_left _ hd0
      omega)
    have hmr := rneQuot_range _ _ hd0 lo hi
    obtain ⟨_, err⟩ := rneQuot_err (n * 2 ^ s) dd hd0
    rw [← hm] at hmr err
    rw [r, le_norm_left _ _ _ _ hs, le_neg]
    apply decide_eq_decide.2
    have hP := pow_pos' d
    have e52 : 2 ^ (52 + d) = 2 ^ 52 * 2 ^ d := Nat.pow_add _ _ _
    rw [e52]
    constructor
    · -- the double is `≤ 2^-d` : so is the ratio (contrapositive)
      intro hle
      apply Classical.byContradiction
      intro hgt
      have hgt' : dd + 1 ≤ n * 2 ^ d := by omega
      -- `s ≤ 52 + d`
      have a1 : dd * 2 ^ s < dd * (2 ^ 53 * 2 ^ d) := by
        have b1 : (dd + 1) * 2 ^ s ≤ n * 2 ^ d * 2 ^ s := Nat.mul_le_mul_right _ hgt'
        have b2 : n * 2 ^ s * 2 ^ d < 2 ^ 53 * dd * 2 ^ d := Nat.mul_lt_mul_of_pos_right hi hP
        have b3 : n * 2 ^ d * 2 ^ s = n * 2 ^ s * 2 ^ d := by grind
        have b4 : 2 ^ 53 * dd * 2 ^ d = dd * (2 ^ 53 * 2 ^ d) := by grind
        have b5 : (dd + 1) * 2 ^ s = dd * 2 ^ s + 2 ^ s := by grind
        omega
      have a2 : 2 ^ s < 2 ^ (53 + d) := by
        rw [Nat.pow_add]; exact Nat.lt_of_mul_lt_mul_left a1
      have a3 : s < 53 + d := (Nat.pow_lt_pow_iff_right (by omega)).1 a2
      by_cases hc : s ≤ 51 + d
      · have c1 : 2 ^ s ≤ 2 ^ (51 + d) := Nat.pow_le_pow_right (by omega) hc
        have c2 : 2 ^ (51 + d) = 2 ^ 51 * 2 ^ d := Nat.pow_add _ _ _
        have c3 : 2 ^ 52 * 2 ^ d ≤ m * 2 ^ d := Nat.mul_le_mul_right _ hmr.1
        have c5 : 2 ^ 52 * 2 ^ s < 2 ^ 52 * (2 ^ 52 * 2 ^ d) := by
          apply Nat.mul_lt_mul_of_pos_left _ (by omega)
          generalize 2 ^ d = P at *
          omega
        have c6 : m * (2 ^ 52 * 2 ^ d) = 2 ^ 52 * (m * 2 ^ d) := by grind
        have c7 : 2 ^ 52 * (2 ^ 52 * 2 ^ d) ≤ 2 ^ 52 * (m * 2 ^ d) := Nat.mul_le_mul_left _ c3
        omega
      · have hs' : s = 52 + d := by omega
        subst hs'
        rw [e52] at hle err
        -- `m ≤ 2^52`
        have c1 : m * (2 ^ 52 * 2 ^ d) = 2 ^ 52 * 2 ^ d * m := by grind
        have c2 : 2 ^ 52 * (2 ^ 52 * 2 ^ d) = 2 ^ 52 * 2 ^ d * 2 ^ 52 := by grind
        rw [c1, c2] at hle
        have c3 : m ≤ 2 ^ 52 := Nat.le_of_mul_le_mul_left hle (Nat.mul_pos (by omega) hP)
        have c4 : m = 2 ^ 52 := by have := hmr.1; omega
        rw [c4] at err
        have c5 : (dd + 1) * 2 ^ 52 ≤ n * 2 ^ d * 2 ^ 52 := Nat.mul_le_mul_right _ hgt'
        have c6 : n * (2 ^ 52 * 2 ^ d) = n * 2 ^ d * 2 ^ 52 := by grind
        rw [c6] at err
        clear c1 c2 c6 a1 a2 lo hi e52 r
        omega
    · -- the ratio is `≤ 2^-d` : so is the double
      intro hle
      have a1 : 2 ^ 52 * 2 ^ d * dd ≤ 2 ^ s * dd := by
        have b1 : 2 ^ 52 * dd * 2 ^ d ≤ n * 2 ^ s * 2 ^ d := Nat.mul_le_mul_right _ lo
        have b2 : n * 2 ^ d * 2 ^ s ≤ dd * 2 ^ s := Nat.mul_le_mul_right _ hle
        have b3 : n * 2 ^ s * 2 ^ d = n * 2 ^ d * 2 ^ s := by grind
        have b4 : 2 ^ 52 * dd * 2 ^ d = 2 ^ 52 * 2 ^ d * dd := by grind
        have b5 : dd * 2 ^ s = 2 ^ s * dd := Nat.mul_comm _ _
        omega
      have a2 : 2 ^ (52 + d) ≤ 2 ^ s := by rw [e52]; exact Nat.le_of_mul_le_mul_right a1 hd0
      have a3 : 52 + d ≤ s := (Nat.pow_le_pow_iff_right (by omega)).1 a2
      have a4 : 2 ^ s = 2 ^ (s - d) * 2 ^ d := by rw [← Nat.pow_add]; congr 1; omega
      have a5 : n * 2 ^ s ≤ 2 ^ (s - d) * dd := by
        have : n * 2 ^ d * 2 ^ (s - d) ≤ dd * 2 ^ (s - d) := Nat.mul_le_mul_right _ hle
        rw [a4]
        grind
      have a6 : m ≤ 2 ^ (s - d) := by rw [hm]; exact rneQuot_le _ _ _ hd0 a5
      have a7 : m * 2 ^ d ≤ 2 ^ (s - d) * 2 ^ d := Nat.mul_le_mul_right _ a6
      rw [← a4] at a7
      have a8 : m * (2 ^ 52 * 2 ^ d) = 2 ^ 52 * (m * 2 ^ d) := by grind
      rw [a8]
      exact Nat.mul_le_mul_left _ a7

/-- T4 (with `w1 < 2^52` instead of `2^53`, and `d ≤ 61`) -/
theorem keeps_exact_half (w1 wf d : Nat) (hd : 1 ≤ d) (hd' : d ≤ 61) (h1 : w1 < 2 ^ 52) (h2 : 0 < wf)
    (h3 : wf < 2 ^ 53) : keeps 1 2 w1 wf d = some (ObiVerif.Clean.ratioKeeps 1 2 w1 wf d) := by
  obtain ⟨j, rfl⟩ : ∃ j, d = j + 1 := ⟨d - 1, by omega⟩
  have hrk : ObiVerif.Clean.ratioKeeps 1 2 w1 wf ((j + 1 : Nat) : Int) = decide (w1 * 2 ^ (j + 1) ≤ wf) := by
    simp [ObiVerif.Clean.ratioKeeps]
  unfold keeps
  rw [hrk, div_ofNat 1 2 (by decide) (by decide) (by decide), div_ofNat w1 wf (by omega) h2 h3,
    pow_half_all j (by omega)]
  simp only
  have hin : inRange ⟨2 ^ 52, -53 - (j : Int)⟩ = true := by
    unfold inRange
    simp only [decide_eq_true_eq]
    omega
  rw [if_pos hin]
  have e : (-53 - (j : Int)) = -((52 + (j + 1) : Nat) : Int) := by omega
  rw [e, rnd_le_pow2 w1 wf (j + 1) h1 h2 h3]

example : keeps 1 2 3 25 3 = some (ObiVerif.Clean.ratioKeeps 1 2 3 25 3) :=
  keeps_exact_half _ _ _ (by decide) (by decide) (by decide) (by decide) (by decide)

end ObiVerif.F64

#print axioms ObiVerif.F64.share_exact
#print axioms ObiVerif.F64.keeps_exact_d1
#print axioms ObiVerif.F64.keeps_exact_half
#print axioms ObiVerif.F64.share_big_differs
