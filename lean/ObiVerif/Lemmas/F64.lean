import ObiVerif.Model.F64
import ObiVerif.Model.Clean

/-!
# Arithmetic facts about the binary64 model (`ObiVerif.Model.F64`)
-/
set_option Elab.async false

namespace ObiVerif.F64

/-! ## T0 : concrete facts -/

theorem keeps_boundary_differs :
    keeps 7 10 49 100 2 = some false ∧ ObiVerif.Clean.ratioKeeps 7 10 49 100 2 = true := by decide

theorem keeps_boundary_agrees_tenth :
    keeps 1 10 1 100 2 = some true ∧ keeps 1 10 1 1000 3 = some true ∧ keeps 5 100 25 10000 2 = some true := by
  decide

/-- `w * c = 19999999800000000 > 2^53`, the quotient is `w - 1/2 - 1/(2*(2w-1))` : the double nearest to it is
`w - 1/2`, which `math.Round` sends to `w`; the exact rounding is `w - 1`.
(The pair suggested first, `share 94906267 94906265 [94906265, 3]`, agrees with `roundDiv`: both are 94906264.) -/
theorem share_big_differs :
    share 100000000 199999998 [199999998, 1] = 100000000 ∧
    ObiVerif.Clean.roundDiv (100000000 * 199999998) (199999998 + 1) = 99999999 := by decide

/-! ## the shift -/

theorem scale_eq (n d : Nat) (e : Int) : scale n d e = (n * 2 ^ e.toNat, d * 2 ^ (-e).toNat) := by
  unfold scale
  split
  · have h : (-e).toNat = 0 := by omega
    simp [h]
  · have h : e.toNat = 0 := by omega
    simp [h]

/-- `2^52 ≤ n * 2^s / d < 2^53` -/
def Good (n d : Nat) (s : Int) : Prop :=
  2 ^ 52 * (d * 2 ^ (-s).toNat) ≤ n * 2 ^ s.toNat ∧ n * 2 ^ s.toNat < 2 ^ 53 * (d * 2 ^ (-s).toNat)

theorem pow_pos' (k : Nat) : 0 < 2 ^ k := Nat.two_pow_pos k

theorem shiftOf_good (n d : Nat) (hn : 0 < n) (hd : 0 < d) : Good n d (shiftOf n d) := by
  unfold shiftOf
  simp only [scale_eq]
  have ha1 : 2 ^ n.log2 ≤ n := Nat.log2_self_le (by omega)
  have ha2 : n < 2 ^ (n.log2 + 1) := Nat.lt_log2_self
  have hb1 : 2 ^ d.log2 ≤ d := Nat.log2_self_le (by omega)
  have hb2 : d < 2 ^ (d.log2 + 1) := Nat.lt_log2_self
  generalize n.log2 = a at *
  generalize d.log2 = b at *
  generalize hs0 : (52 - ((a : Int) - (b : Int))) = s0
  -- bounds at `s0`
  have hA : 2 ^ 51 * (d * 2 ^ (-s0).toNat) < n * 2 ^ s0.toNat := by
    have e : 52 + b + (-s0).toNat = a + s0.toNat := by omega
    have h1 : 2 ^ 51 * (d * 2 ^ (-s0).toNat) < 2 ^ 51 * (2 ^ (b + 1) * 2 ^ (-s0).toNat) :=
      Nat.mul_lt_mul_of_pos_left (Nat.mul_lt_mul_of_pos_right hb2 (pow_pos' _)) (pow_pos' _)
    have h2 : 2 ^ 51 * (2 ^ (b + 1) * 2 ^ (-s0).toNat) = 2 ^ (52 + b + (-s0).toNat) := by grind
    have h3 : 2 ^ a * 2 ^ s0.toNat ≤ n * 2 ^ s0.toNat := Nat.mul_le_mul_right _ ha1
    have h4 : 2 ^ a * 2 ^ s0.toNat = 2 ^ (a + s0.toNat) := by grind
    rw [h2, e] at h1
    rw [h4] at h3
    exact Nat.lt_of_lt_of_le h1 h3
  have hB : n * 2 ^ s0.toNat < 2 ^ 53 * (d * 2 ^ (-s0).toNat) := by
    have e : a + 1 + s0.toNat = 53 + b + (-s0).toNat := by omega
    have h1 : n * 2 ^ s0.toNat < 2 ^ (a + 1) * 2 ^ s0.toNat := Nat.mul_lt_mul_of_pos_right ha2 (pow_pos' _)
    have h2 : 2 ^ (a + 1) * 2 ^ s0.toNat = 2 ^ (a + 1 + s0.toNat) := by grind
    have h3 : 2 ^ 53 * (2 ^ b * 2 ^ (-s0).toNat) ≤ 2 ^ 53 * (d * 2 ^ (-s0).toNat) :=
      Nat.mul_le_mul_left _ (Nat.mul_le_mul_right _ hb1)
    have h4 : 2 ^ 53 * (2 ^ b * 2 ^ (-s0).toNat) = 2 ^ (53 + b + (-s0).toNat) := by grind
    rw [h2, e] at h1
    rw [h4] at h3
    exact Nat.lt_of_lt_of_le h1 h3
  split
  · rename_i hlt
    unfold Good
    by_cases hs : 0 ≤ s0
    · have e1 : (s0 + 1).toNat = s0.toNat + 1 := by omega
      have e2 : (-(s0 + 1)).toNat = 0 := by omega
      have e3 : (-s0).toNat = 0 := by omega
      rw [e1, e2]
      rw [e3] at hA hB hlt
      have e4 : n * 2 ^ (s0.toNat + 1) = 2 * (n * 2 ^ s0.toNat) := by grind
      rw [e4]
      simp only [Nat.pow_zero, Nat.mul_one] at hA hB hlt ⊢
      generalize n * 2 ^ s0.toNat = NP at *
      omega
    · have e1 : (s0 + 1).toNat = 0 := by omega
      have e2 : s0.toNat = 0 := by omega
      have e3 : (-s0).toNat = (-(s0 + 1)).toNat + 1 := by omega
      rw [e1]
      rw [e2, e3] at hA hB hlt
      have e4 : d * 2 ^ ((-(s0 + 1)).toNat + 1) = 2 * (d * 2 ^ (-(s0 + 1)).toNat) := by grind
      rw [e4] at hA hB hlt
      simp only [Nat.pow_zero, Nat.mul_one] at hA hB hlt ⊢
      generalize d * 2 ^ (-(s0 + 1)).toNat = DP at *
      omega
  · rename_i hge
    exact ⟨by omega, hB⟩

theorem good_lt {n d : Nat} {s s' : Int} (h : Good n d s) (h' : Good n d s') : ¬ (s + 1 ≤ s') := by
  intro hss
  obtain ⟨h1, _⟩ := h
  obtain ⟨_, h2⟩ := h'
  have hd : 0 < d := by
    rcases Nat.eq_zero_or_pos d with hd | hd
    · subst hd; simp at h2
    · exact hd
  have hn : 0 < n := by
    rcases Nat.eq_zero_or_pos n with hn | hn
    · subst hn
      have := Nat.mul_pos hd (pow_pos' (-s).toNat)
      omega
    · exact hn
  have hpos : 0 < n * 2 ^ s.toNat := Nat.mul_pos hn (pow_pos' _)
  have hm : 2 ^ 52 * (d * 2 ^ (-s).toNat) * (n * 2 ^ s'.toNat) < n * 2 ^ s.toNat * (2 ^ 53 * (d * 2 ^ (-s').toNat)) :=
    Nat.mul_lt_mul_of_le_of_lt h1 h2 hpos
  have e : (-s).toNat + s'.toNat = (1 + s.toNat + (-s').toNat) + (s' - s - 1).toNat := by omega
  have hl : 2 ^ 52 * (d * 2 ^ (-s).toNat) * (n * 2 ^ s'.toNat) = (2 ^ 52 * d * n) * 2 ^ ((-s).toNat + s'.toNat) := by
    grind
  have hr : n * 2 ^ s.toNat * (2 ^ 53 * (d * 2 ^ (-s').toNat)) = (2 ^ 52 * d * n) * 2 ^ (1 + s.toNat + (-s').toNat) := by
    grind
  rw [hl, hr, e, Nat.pow_add] at hm
  have hp := pow_pos' (s' - s - 1).toNat
  generalize 2 ^ (s' - s - 1).toNat = Q at *
  generalize 2 ^ (1 + s.toNat + (-s').toNat) = R at *
  generalize 2 ^ 52 * d * n = K at *
  have : K * R * 1 ≤ K * R * Q := Nat.mul_le_mul_left _ hp
  have : K * (R * Q) = K * R * Q := by grind
  omega

theorem good_unique {n d : Nat} {s s' : Int} (h : Good n d s) (h' : Good n d s') : s = s' := by
  have := good_lt h h'
  have := good_lt h' h
  omega

theorem shiftOf_eq {n d : Nat} {s : Int} (h : Good n d s) : shiftOf n d = s := by
  have hd : 0 < d := by
    rcases Nat.eq_zero_or_pos d with hd | hd
    · subst hd; have := h.2; simp at this
    · exact hd
  have hn : 0 < n := by
    rcases Nat.eq_zero_or_pos n with hn | hn
    · subst hn
      have := Nat.mul_pos hd (pow_pos' (-s).toNat)
      have := h.1
      omega
    · exact hn
  exact good_unique (shiftOf_good n d hn hd) h

/-! ## `rnd` through a known shift, invariance under a common factor -/

theorem good_pos {n d : Nat} {s : Int} (h : Good n d s) : 0 < n ∧ 0 < d := by
  have hd : 0 < d := by
    rcases Nat.eq_zero_or_pos d with hd | hd
    · subst hd; have := h.2; simp at this
    · exact hd
  refine ⟨?_, hd⟩
  rcases Nat.eq_zero_or_pos n with hn | hn
  · subst hn
    have := Nat.mul_pos hd (pow_pos' (-s).toNat)
    have := h.1
    omega
  · exact hn

theorem rnd_eq_of_good {n d : Nat} {s : Int} (h : Good n d s) :
    rnd n d = norm (rneQuot (n * 2 ^ s.toNat) (d * 2 ^ (-s).toNat)) (-s) := by
  have hp := good_pos h
  unfold rnd
  rw [if_neg (by omega)]
  simp only [shiftOf_eq h, scale_eq]

theorem rneQuot_mul_right (N D t : Nat) (ht : 0 < t) : rneQuot (N * t) (D * t) = rneQuot N D := by
  unfold rneQuot
  rw [Nat.mul_div_mul_right _ _ ht, Nat.mul_mod_mul_right]
  have e1 : (2 * (N % D * t) < D * t) = (2 * (N % D) < D) := by
    apply propext
    rw [← Nat.mul_assoc]
    exact Nat.mul_lt_mul_right ht
  have e2 : (D * t < 2 * (N % D * t)) = (D < 2 * (N % D)) := by
    apply propext
    rw [← Nat.mul_assoc]
    exact Nat.mul_lt_mul_right ht
  simp only [e1, e2]

theorem good_mul_right {n d : Nat} {s : Int} (t : Nat) (ht : 0 < t) (h : Good n d s) : Good (n * t) (d * t) s := by
  obtain ⟨h1, h2⟩ := h
  constructor
  · have := Nat.mul_le_mul_right t h1
    grind
  · have := Nat.mul_lt_mul_of_pos_right h2 ht
    grind

theorem rnd_mul_right (n d t : Nat) (ht : 0 < t) : rnd (n * t) (d * t) = rnd n d := by
  by_cases h0 : n = 0 ∨ d = 0
  · unfold rnd
    have : n * t = 0 ∨ d * t = 0 := by
      rcases h0 with h | h
      · left; simp [h]
      · right; simp [h]
    rw [if_pos h0, if_pos this]
  · have hg := shiftOf_good n d (by omega) (by omega)
    rw [rnd_eq_of_good hg, rnd_eq_of_good (good_mul_right t ht hg)]
    have e1 : n * t * 2 ^ (shiftOf n d).toNat = n * 2 ^ (shiftOf n d).toNat * t := by grind
    have e2 : d * t * 2 ^ (-shiftOf n d).toNat = d * 2 ^ (-shiftOf n d).toNat * t := by grind
    rw [e1, e2, rneQuot_mul_right _ _ _ ht]

/-- equal ratios round alike -/
theorem rnd_congr {n d n' d' : Nat} (hd : 0 < d) (hd' : 0 < d') (h : n * d' = n' * d) : rnd n d = rnd n' d' := by
  rw [← rnd_mul_right n d d' hd', ← rnd_mul_right n' d' d hd, h, Nat.mul_comm d d']

theorem rndE_congr {n d n' d' : Nat} {e : Int} (hd : 0 < d) (hd' : 0 < d')
    (h : n * 2 ^ e.toNat * d' = n' * (d * 2 ^ (-e).toNat)) : rndE n d e = rnd n' d' := by
  unfold rndE
  simp only [scale_eq]
  exact rnd_congr (Nat.mul_pos hd (pow_pos' _)) hd' h

/-! ## one division followed by `math.Round` -/

theorem rneQuot_cases (N D : Nat) :
    rneQuot N D = N / D ∨ (rneQuot N D = N / D + 1 ∧ D ≤ 2 * (N % D)) := by
  unfold rneQuot
  split
  · left; rfl
  · split
    · right; exact ⟨rfl, by omega⟩
    · split
      · left; rfl
      · right; exact ⟨rfl, by omega⟩

theorem core_nat (X S s : Nat) (hs : 1 ≤ s) (hS : 0 < S) (hX : X < 2 ^ 52) (hlo : 2 ^ 52 * S ≤ X * 2 ^ s) :
    (2 * rneQuot (X * 2 ^ s) S + 2 ^ s) / (2 * 2 ^ s) = (2 * X + S) / (2 * S) := by
  obtain ⟨j, rfl⟩ : ∃ j, s = j + 1 := ⟨s - 1, by omega⟩
  have hu : 0 < 2 ^ j := pow_pos' j
  have ht : 2 ^ (j + 1) = 2 * 2 ^ j := by grind
  rw [ht] at hlo ⊢
  generalize 2 ^ j = u at *
  have hSt : S < 2 * u := by
    have h1 : X * (2 * u) < 2 ^ 52 * (2 * u) := Nat.mul_lt_mul_of_pos_right hX (by omega)
    have h2 : 2 ^ 52 * S < 2 ^ 52 * (2 * u) := by omega
    exact Nat.lt_of_mul_lt_mul_left h2
  have hdm := Nat.div_add_mod (X * (2 * u)) S
  have hr := Nat.mod_lt (X * (2 * u)) hS
  have hR : (2 * X + S) / (2 * S) = ((X * (2 * u)) / S + u) / (2 * u) := by
    have e1 : (2 * X + S) / (2 * S) = ((2 * X + S) * u) / ((2 * S) * u) := (Nat.mul_div_mul_right _ _ hu).symm
    have e2 : (2 * X + S) * u = X * (2 * u) + S * u := by grind
    have e3 : 2 * S * u = S * (2 * u) := by grind
    rw [e1, e2, e3, ← Nat.div_div_eq_div_mul, Nat.add_mul_div_left _ _ hS]
  have hL : ∀ m, (2 * m + 2 * u) / (2 * (2 * u)) = (m + u) / (2 * u) := by
    intro m
    have : 2 * m + 2 * u = 2 * (m + u) := by omega
    rw [this, Nat.mul_div_mul_left _ _ (by omega)]
  rw [hR, hL]
  rcases rneQuot_cases (X * (2 * u)) S with hm | ⟨hm, hup⟩
  · rw [hm]
  · rw [hm]
    generalize (X * (2 * u)) / S = q at *
    generalize (X * (2 * u)) % S = r at *
    have hdm2 := Nat.div_add_mod (q + u) (2 * u)
    have hr2 := Nat.mod_lt (q + u) (show 0 < 2 * u by omega)
    generalize hk : (q + u) / (2 * u) = k at *
    generalize (q + u) % (2 * u) = ρ at *
    by_cases hρ : ρ + 1 < 2 * u
    · have : q + 1 + u = ρ + 1 + 2 * u * k := by omega
      rw [this, Nat.add_mul_div_left _ _ (by omega), Nat.div_eq_of_lt hρ]
      omega
    · exfalso
      have hq1 : q + 1 = u * (2 * k + 1) := by
        have : u * (2 * k + 1) = 2 * u * k + u := by grind
        omega
      have h1 : S * (q + 1) = S * q + S := by grind
      have h2 : S * (q + 1) = u * (S * (2 * k + 1)) := by rw [hq1]; grind
      have h3 : X * (2 * u) = u * (2 * X) := by grind
      generalize S * (2 * k + 1) = B at *
      generalize 2 * X = A at *
      rcases Nat.lt_or_ge A B with hAB | hAB
      · have : u * (A + 1) ≤ u * B := Nat.mul_le_mul_left _ hAB
        have : u * (A + 1) = u * A + u := by grind
        omega
      · have : u * B ≤ u * A := Nat.mul_le_mul_left _ hAB
        omega

theorem roundInt_mk (m : Nat) (e : Int) :
    roundInt ⟨m, e⟩ = (2 * (m * 2 ^ e.toNat) + 1 * 2 ^ (-e).toNat) / (2 * (1 * 2 ^ (-e).toNat)) := by
  unfold roundInt
  simp only [scale_eq]

theorem roundInt_norm_neg (m k : Nat) (hk : 1 ≤ k) :
    roundInt (norm m (-(k : Int))) = (2 * m + 2 ^ k) / (2 * 2 ^ k) := by
  obtain ⟨j, rfl⟩ : ∃ j, k = j + 1 := ⟨k - 1, by omega⟩
  unfold norm
  split
  · rename_i hm
    rw [roundInt_mk]
    have e1 : (-((j + 1 : Nat) : Int) + 1).toNat = 0 := by omega
    have e2 : (-(-((j + 1 : Nat) : Int) + 1)).toNat = j := by omega
    rw [e1, e2, hm]
    have e3 : 2 * 2 ^ 53 + 2 ^ (j + 1) = 2 * (2 * (2 ^ 52 * 2 ^ 0) + 1 * 2 ^ j) := by grind
    have e4 : 2 * 2 ^ (j + 1) = 2 * (2 * (1 * 2 ^ j)) := by grind
    rw [e3, e4, Nat.mul_div_mul_left _ _ (by omega)]
  · rw [roundInt_mk]
    have e1 : (-((j + 1 : Nat) : Int)).toNat = 0 := by omega
    have e2 : (-(-((j + 1 : Nat) : Int))).toNat = j + 1 := by omega
    rw [e1, e2]
    simp

/-- the core of T2 : one correctly rounded division, then `int(math.Round(·))`, is the exact rounding of the
rational as long as the numerator is below `2^52` -/
theorem roundInt_rnd (X S : Nat) (hX : X < 2 ^ 52) (hS : 0 < S) :
    roundInt (rnd X S) = (2 * X + S) / (2 * S) := by
  rcases Nat.eq_zero_or_pos X with h0 | h0
  · subst h0
    have : rnd 0 S = zero := by simp [rnd]
    rw [this]
    have : roundInt zero = 0 := by decide
    rw [this]
    exact (Nat.div_eq_of_lt (by omega)).symm
  · have hg := shiftOf_good X S h0 hS
    have hs : 1 ≤ shiftOf X S := by
      by_cases h : shiftOf X S < 1
      · exfalso
        have e : (shiftOf X S).toNat = 0 := by omega
        have h1 := hg.1
        rw [e] at h1
        have := Nat.mul_pos hS (pow_pos' (-shiftOf X S).toNat)
        generalize S * 2 ^ (-shiftOf X S).toNat = D at *
        omega
      · omega
    rw [rnd_eq_of_good hg]
    obtain ⟨k, hk⟩ : ∃ k : Nat, shiftOf X S = (k : Int) := ⟨(shiftOf X S).toNat, by omega⟩
    rw [hk] at hg hs ⊢
    have e1 : ((k : Int)).toNat = k := by omega
    have e2 : (-(k : Int)).toNat = 0 := by omega
    have hlo := hg.1
    rw [e1, e2] at hlo ⊢
    simp only [Nat.pow_zero, Nat.mul_one] at hlo ⊢
    rw [roundInt_norm_neg _ _ (by omega)]
    exact core_nat X S k (by omega) hS hX hlo

example : roundInt (rnd 5 2) = 3 ∧ (2 * 5 + 2) / (2 * 2) = 3 := by decide

/-! ## T1 : conversions, sums and small products are exact -/

/-- `a` is the rational `N / D` -/
def Val (a : F) (N D : Nat) : Prop := (scale a.m 1 a.e).1 * D = N * (scale a.m 1 a.e).2

theorem rneQuot_one (N : Nat) : rneQuot N 1 = N := by
  unfold rneQuot
  simp [Nat.mod_one]

/-- a representable value is not changed by the rounding -/
theorem rnd_pow (M k : Nat) (h1 : 2 ^ 52 ≤ M) (h2 : M < 2 ^ 53) : rnd M (2 ^ k) = ⟨M, -(k : Int)⟩ := by
  have hg : Good M (2 ^ k) (k : Int) := by
    unfold Good
    have e1 : ((k : Int)).toNat = k := by omega
    have e2 : (-(k : Int)).toNat = 0 := by omega
    rw [e1, e2]
    simp only [Nat.pow_zero, Nat.mul_one]
    exact ⟨Nat.mul_le_mul_right _ h1, Nat.mul_lt_mul_of_pos_right h2 (pow_pos' k)⟩
  rw [rnd_eq_of_good hg]
  have e1 : ((k : Int)).toNat = k := by omega
  have e2 : (-(k : Int)).toNat = 0 := by omega
  rw [e1, e2]
  have e3 : 2 ^ k * 2 ^ 0 = 1 * 2 ^ k := by simp
  rw [e3, rneQuot_mul_right _ _ _ (pow_pos' k), rneQuot_one]
  unfold norm
  rw [if_neg (by omega)]

theorem ofNat_zero : ofNat 0 = zero := by decide

/-- `float64(n)` is `n` itself, written with a normalised significand -/
theorem ofNat_form (n : Nat) (h : n < 2 ^ 53) :
    ∃ k : Nat, ofNat n = ⟨n * 2 ^ k, -(k : Int)⟩ ∧ (n = 0 ∨ 2 ^ 52 ≤ n * 2 ^ k) ∧ n * 2 ^ k < 2 ^ 53 ∧ k ≤ 52 := by
  rcases Nat.eq_zero_or_pos n with h0 | h0
  · subst h0
    exact ⟨0, by decide, Or.inl rfl, by decide, by decide⟩
  · have ha1 : 2 ^ n.log2 ≤ n := Nat.log2_self_le (by omega)
    have ha2 : n < 2 ^ (n.log2 + 1) := Nat.lt_log2_self
    have ha3 : n.log2 < 53 := (Nat.log2_lt (by omega)).2 h
    generalize n.log2 = a at *
    have hlo : 2 ^ 52 ≤ n * 2 ^ (52 - a) := by
      have : 2 ^ a * 2 ^ (52 - a) ≤ n * 2 ^ (52 - a) := Nat.mul_le_mul_right _ ha1
      have e : 2 ^ a * 2 ^ (52 - a) = 2 ^ 52 := by rw [← Nat.pow_add]; congr 1; omega
      omega
    have hhi : n * 2 ^ (52 - a) < 2 ^ 53 := by
      have : n * 2 ^ (52 - a) < 2 ^ (a + 1) * 2 ^ (52 - a) := Nat.mul_lt_mul_of_pos_right ha2 (pow_pos' _)
      have e : 2 ^ (a + 1) * 2 ^ (52 - a) = 2 ^ 53 := by rw [← Nat.pow_add]; congr 1; omega
      omega
    refine ⟨52 - a, ?_, Or.inr hlo, hhi, by omega⟩
    unfold ofNat
    rw [← rnd_pow _ _ hlo hhi]
    exact rnd_congr (by omega) (pow_pos' _) (by grind)

theorem val_mk (n k : Nat) : Val ⟨n * 2 ^ k, -(k : Int)⟩ n 1 := by
  unfold Val
  simp only [scale_eq]
  have e1 : (-(k : Int)).toNat = 0 := by omega
  have e2 : (-(-(k : Int))).toNat = k := by omega
  rw [e1, e2]
  simp

theorem ofNat_exact (n : Nat) (h : n < 2 ^ 53) : Val (ofNat n) n 1 := by
  obtain ⟨k, hk, _⟩ := ofNat_form n h
  rw [hk]
  exact val_mk n k

example : Val (ofNat 12345) 12345 1 := ofNat_exact _ (by decide)

theorem add_ofNat (a b : Nat) (h : a + b < 2 ^ 53) : add (ofNat a) (ofNat b) = ofNat (a + b) := by
  obtain ⟨k, hk, _⟩ := ofNat_form a (by omega)
  obtain ⟨l, hl, _⟩ := ofNat_form b (by omega)
  rw [hk, hl]
  unfold add ofNat
  apply rndE_congr (by omega) (by omega)
  simp only
  rcases Nat.le_total k l with hkl | hkl
  · have e0 : min (-(k : Int)) (-(l : Int)) = -(l : Int) := by omega
    rw [e0]
    have e1 : (-(k : Int) - -(l : Int)).toNat = l - k := by omega
    have e2 : (-(l : Int) - -(l : Int)).toNat = 0 := by omega
    have e3 : (-(l : Int)).toNat = 0 := by omega
    have e4 : (-(-(l : Int))).toNat = l := by omega
    rw [e1, e2, e3, e4]
    have : 2 ^ l = 2 ^ k * 2 ^ (l - k) := by rw [← Nat.pow_add]; congr 1; omega
    rw [this]
    grind
  · have e0 : min (-(k : Int)) (-(l : Int)) = -(k : Int) := by omega
    rw [e0]
    have e1 : (-(l : Int) - -(k : Int)).toNat = k - l := by omega
    have e2 : (-(k : Int) - -(k : Int)).toNat = 0 := by omega
    have e3 : (-(k : Int)).toNat = 0 := by omega
    have e4 : (-(-(k : Int))).toNat = k := by omega
    rw [e1, e2, e3, e4]
    have : 2 ^ k = 2 ^ l * 2 ^ (k - l) := by rw [← Nat.pow_add]; congr 1; omega
    rw [this]
    grind

theorem mul_ofNat (w c : Nat) (hw : w < 2 ^ 53) (hc : c < 2 ^ 53) : mul (ofNat w) (ofNat c) = rnd (w * c) 1 := by
  obtain ⟨k, hk, _⟩ := ofNat_form w hw
  obtain ⟨l, hl, _⟩ := ofNat_form c hc
  rw [hk, hl]
  unfold mul
  apply rndE_congr (by omega) (by omega)
  simp only
  have e1 : (-(k : Int) + -(l : Int)).toNat = 0 := by omega
  have e2 : (-(-(k : Int) + -(l : Int))).toNat = k + l := by omega
  rw [e1, e2]
  grind

/-- a product below `2^53` is exact -/
theorem mul_ofNat_exact (w c : Nat) (hw : w < 2 ^ 53) (hc : c < 2 ^ 53) (h : w * c < 2 ^ 53) :
    mul (ofNat w) (ofNat c) = ofNat (w * c) ∧ Val (mul (ofNat w) (ofNat c)) (w * c) 1 := by
  have := mul_ofNat w c hw hc
  refine ⟨this, ?_⟩
  rw [this]
  exact ofNat_exact _ h

example : Val (mul (ofNat 3000000) (ofNat 1000000000)) (3000000 * 1000000000) 1 :=
  (mul_ofNat_exact _ _ (by decide) (by decide) (by decide)).2

theorem div_ofNat (X S : Nat) (hX : X < 2 ^ 53) (hS0 : 0 < S) (hS : S < 2 ^ 53) :
    div (ofNat X) (ofNat S) = rnd X S := by
  obtain ⟨k, hk, _⟩ := ofNat_form X hX
  obtain ⟨l, hl, hl2, _⟩ := ofNat_form S hS
  rw [hk, hl]
  unfold div
  apply rndE_congr (Nat.mul_pos hS0 (pow_pos' _)) hS0
  simp only
  rcases Nat.le_total k l with hkl | hkl
  · have e1 : (-(k : Int) - -(l : Int)).toNat = l - k := by omega
    have e2 : (-(-(k : Int) - -(l : Int))).toNat = 0 := by omega
    rw [e1, e2]
    have : 2 ^ l = 2 ^ k * 2 ^ (l - k) := by rw [← Nat.pow_add]; congr 1; omega
    rw [this]
    grind
  · have e1 : (-(k : Int) - -(l : Int)).toNat = 0 := by omega
    have e2 : (-(-(k : Int) - -(l : Int))).toNat = k - l := by omega
    rw [e1, e2]
    have : 2 ^ k = 2 ^ l * 2 ^ (k - l) := by rw [← Nat.pow_add]; congr 1; omega
    rw [this]
    grind

theorem foldl_add_ofNat (cs : List Nat) : ∀ acc : Nat, acc + cs.sum < 2 ^ 53 →
    cs.foldl (fun s c => add s (ofNat c)) (ofNat acc) = ofNat (acc + cs.sum) := by
  induction cs with
  | nil => intro acc _; simp
  | cons c cs ih =>
    intro acc h
    simp only [List.foldl_cons, List.sum_cons] at h ⊢
    rw [add_ofNat acc c (by omega), ih (acc + c) (by omega)]
    congr 1
    omega

/-- a sum below `2^53` is exact, whatever the order -/
theorem sumF_exact (cs : List Nat) (h : cs.sum < 2 ^ 53) : sumF cs = ofNat cs.sum ∧ Val (sumF cs) cs.sum 1 := by
  have : sumF cs = ofNat cs.sum := by
    unfold sumF
    rw [← ofNat_zero, foldl_add_ofNat cs 0 (by omega)]
    congr 1
    omega
  refine ⟨this, ?_⟩
  rw [this]
  exact ofNat_exact _ h

example : Val (sumF [7, 11, 4000000000]) 4000000018 1 := (sumF_exact _ (by decide)).2

/-! ## T2 : the share given to a father -/

theorem share_exact (w c : Nat) (fs : List Nat) (h1 : w * c < 2 ^ 52) (h2 : 0 < fs.sum) (h3 : fs.sum < 2 ^ 53)
    (h4 : w < 2 ^ 53) (h5 : c < 2 ^ 53) : share w c fs = ObiVerif.Clean.roundDiv (w * c) fs.sum := by
  unfold share ObiVerif.Clean.roundDiv
  rw [(mul_ofNat_exact w c h4 h5 (by omega)).1, (sumF_exact fs h3).1, div_ofNat _ _ (by omega) h2 h3]
  exact roundInt_rnd _ _ h1 h2

example : share 1000 3 [3, 4] = ObiVerif.Clean.roundDiv (1000 * 3) [3, 4].sum :=
  share_exact _ _ _ (by decide) (by decide) (by decide) (by decide) (by decide)

end ObiVerif.F64
