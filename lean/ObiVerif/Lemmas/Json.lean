import ObiVerif.Model.Json
import ObiVerif.Lemmas.Header
/-! helper lemmas for property C02: the JSON encoder / decoder model (`Model/Json.lean`) -/
namespace ObiVerif.Json
open ObiVerif.Header (Bytes forall_uint8 isEol)
open ObiVerif.JsonTok (Tok EscOK flat ClosesAt BalancedObj)

/-! ## strings: decode ∘ encode -/

theorem prep_some (u s r : Bytes) : prep u (some (s, r)) = some (u ++ s, r) := rfl

set_option maxRecDepth 100000 in
theorem decU_ctrl : ∀ c : UInt8, c < 32 → decU 48 48 (hexDigit (c >>> 4)) (hexDigit (c &&& 15)) = some [c] := by
  apply forall_uint8
  decide

theorem decStrBody_cons (c : UInt8) (t : Bytes) :
    decStrBody (c :: t) =
      if c = 34 then some ([], t)
      else if c = 92 then
        match t with
        | [] => none
        | e :: t' =>
          if e = 117 then
            match t' with
            | h1 :: h2 :: h3 :: h4 :: t'' =>
              match decU h1 h2 h3 h4 with
              | some u => prep u (decStrBody t'')
              | none => none
            | _ => none
          else match unesc e with
            | some b => prep [b] (decStrBody t')
            | none => none
      else if c < 32 then none
      else prep [c] (decStrBody t) := by
  conv => lhs; unfold decStrBody
  rfl

theorem decStrBody_plain (c : UInt8) (t : Bytes) (h1 : c ≠ 34) (h2 : c ≠ 92) (h3 : ¬ c < 32) :
    decStrBody (c :: t) = prep [c] (decStrBody t) := by
  rw [decStrBody_cons]; simp [h1, h2, h3]

theorem decStrBody_u (a b c d : UInt8) (t u : Bytes) (h : decU a b c d = some u) :
    decStrBody (92 :: 117 :: a :: b :: c :: d :: t) = prep u (decStrBody t) := by
  rw [decStrBody_cons]; simp [h]

theorem decStrBody_esc (e b : UInt8) (t : Bytes) (h0 : e ≠ 117) (h : unesc e = some b) :
    decStrBody (92 :: e :: t) = prep [b] (decStrBody t) := by
  rw [decStrBody_cons]; simp [h0, h]

theorem dec_escByte (c : UInt8) (t : Bytes) : decStrBody (escByte c ++ t) = prep [c] (decStrBody t) := by
  unfold escByte
  split
  · rename_i h; subst h; exact decStrBody_esc 34 34 t (by decide) (by decide)
  split
  · rename_i h; subst h; exact decStrBody_esc 92 92 t (by decide) (by decide)
  split
  · rename_i h; subst h; exact decStrBody_esc 110 10 t (by decide) (by decide)
  split
  · rename_i h; subst h; exact decStrBody_esc 114 13 t (by decide) (by decide)
  split
  · rename_i h; subst h; exact decStrBody_esc 116 9 t (by decide) (by decide)
  split
  · rename_i h; exact decStrBody_u _ _ _ _ t [c] (decU_ctrl c h)
  · rename_i h1 h2 _ _ _ h6
    exact decStrBody_plain c t h1 h2 h6

theorem dec_enc_str (s rest : Bytes) : decStrBody (encStrBody s ++ 34 :: rest) = some (s, rest) := by
  induction s using encStrBody.induct with
  | case1 => simp [encStrBody, decStrBody_cons]
  | case2 c d e t' h ih =>
    obtain ⟨hc, hd, he⟩ := h
    subst hc; subst hd
    rw [encStrBody]
    simp only [true_and, he, ↓reduceIte, List.append_assoc]
    rcases he with he | he
    · subst he
      rw [show ([92, 117, 50, 48, 50, (if (0xA8 : UInt8) = 0xA8 then 56 else 57)] : Bytes) ++ (encStrBody t' ++ 34 :: rest)
            = 92 :: 117 :: 50 :: 48 :: 50 :: 56 :: (encStrBody t' ++ 34 :: rest) from rfl]
      rw [decStrBody_u 50 48 50 56 _ [0xE2, 0x80, 0xA8] (by decide), ih]; rfl
    · subst he
      rw [show ([92, 117, 50, 48, 50, (if (0xA9 : UInt8) = 0xA8 then 56 else 57)] : Bytes) ++ (encStrBody t' ++ 34 :: rest)
            = 92 :: 117 :: 50 :: 48 :: 50 :: 57 :: (encStrBody t' ++ 34 :: rest) from rfl]
      rw [decStrBody_u 50 48 50 57 _ [0xE2, 0x80, 0xA9] (by decide), ih]; rfl
  | case3 c d e t' h ih =>
    rw [encStrBody]
    simp only [h, ↓reduceIte, List.append_assoc]
    rw [dec_escByte, ih]; rfl
  | case4 c t h ih =>
    rw [encStrBody]
    · rw [List.append_assoc, dec_escByte, ih]; rfl
    · exact h

/-! ## values: decode ∘ encode -/

/-- the text after a value does not continue a number literal -/
def NoNumHead (rest : Bytes) : Prop := ∀ c, rest.head? = some c → numChar c = false

theorem noNumHead_nil : NoNumHead [] := by intro c h; simp at h
theorem noNumHead_cons (c : UInt8) (t : Bytes) (h : numChar c = false) : NoNumHead (c :: t) := by
  intro d hd; simp at hd; subst hd; exact h

set_option maxRecDepth 100000 in
theorem numChar_ne : ∀ c : UInt8, numChar c = true →
    c ≠ 34 ∧ c ≠ 123 ∧ c ≠ 91 ∧ c ≠ 116 ∧ c ≠ 110 ∧ c ≠ 102 ∧ c ≠ 93 ∧ c ≠ 125 ∧ c ≠ 10 ∧ c ≠ 13 := by
  apply forall_uint8
  decide

theorem takeWhile_all (p : UInt8 → Bool) (l rest : Bytes) (hl : l.all p = true)
    (hr : ∀ c, rest.head? = some c → p c = false) :
    (l ++ rest).takeWhile p = l ∧ (l ++ rest).dropWhile p = rest := by
  induction l with
  | nil =>
    cases rest with
    | nil => simp
    | cons c t => simp [hr c rfl]
  | cons c t ih =>
    simp only [List.all_cons, Bool.and_eq_true] at hl
    have := ih hl.2
    simp [hl.1, this.1, this.2]

theorem decVal_cons (n : Nat) (c : UInt8) (t : Bytes) :
    decVal (n + 1) (c :: t) =
      if c = 34 then (decStrBody t).map (fun p => (.str p.1, p.2))
      else if c = 123 then
        match t with
        | [] => none
        | d :: r => if d = 125 then some (.obj .nil, r) else (decMems n t).map (fun p => (.obj p.1, p.2))
      else if c = 91 then
        match t with
        | [] => none
        | d :: r => if d = 93 then some (.arr .nil, r) else (decElems n t).map (fun p => (.arr p.1, p.2))
      else if c = 116 then lit4 114 117 101 (.bool true) t
      else if c = 110 then lit4 117 108 108 .null t
      else if c = 102 then
        match t with
        | a :: r => if a = 97 then lit4 108 115 101 (.bool false) r else none
        | [] => none
      else if numChar c then
        let lit := (c :: t).takeWhile numChar
        if isNumLit lit then some (.num lit, (c :: t).dropWhile numChar) else none
      else none := by
  conv => lhs; unfold decVal
  rfl

theorem decElems_succ (n : Nat) (s : Bytes) :
    decElems (n + 1) s =
      match decVal n s with
      | none => none
      | some (v, r) =>
        match r with
        | [] => none
        | d :: r' =>
          if d = 44 then (decElems n r').map (fun p => (.cons v p.1, p.2))
          else if d = 93 then some (.cons v .nil, r')
          else none := by
  conv => lhs; unfold decElems
  rfl

theorem decMems_succ (n : Nat) (q : UInt8) (s : Bytes) :
    decMems (n + 1) (q :: s) =
      if q ≠ 34 then none else
      match decStrBody s with
      | none => none
      | some (k, r) =>
        match r with
        | [] => none
        | col :: r1 =>
          if col ≠ 58 then none else
          match decVal n r1 with
          | none => none
          | some (v, r2) =>
            match r2 with
            | [] => none
            | d :: r3 =>
              if d = 44 then (decMems n r3).map (fun p => (.cons k v p.1, p.2))
              else if d = 125 then some (.cons k v .nil, r3)
              else none := by
  conv => lhs; unfold decMems
  rfl

theorem numLitOK_ne_nil (lit : Bytes) (h : numLitOK lit = true) : ∃ c t, lit = c :: t ∧ numChar c = true := by
  cases lit with
  | nil => simp [numLitOK, isNumLit, intOK] at h
  | cons c t =>
    simp only [numLitOK, List.all_cons, Bool.and_eq_true] at h
    exact ⟨c, t, rfl, h.1.1⟩

/-- the first byte of an encoded value -/
theorem encVal_head (v : JVal) (hv : v.WF = true) : ∃ c t, encVal v = c :: t ∧ c ≠ 93 ∧ c ≠ 125 := by
  cases v with
  | null => exact ⟨110, _, by rw [encVal], by decide, by decide⟩
  | bool b =>
    cases b
    · exact ⟨102, _, by rw [encVal], by decide, by decide⟩
    · exact ⟨116, _, by rw [encVal], by decide, by decide⟩
  | num lit =>
    simp only [JVal.WF] at hv
    obtain ⟨c, t, rfl, hc⟩ := numLitOK_ne_nil lit hv
    have := numChar_ne c hc
    exact ⟨c, t, by simp [encVal], this.2.2.2.2.2.2.1, this.2.2.2.2.2.2.2.1⟩
  | str s => exact ⟨34, _, by rw [encVal], by decide, by decide⟩
  | arr l => exact ⟨91, _, by rw [encVal], by decide, by decide⟩
  | obj m => exact ⟨123, _, by rw [encVal], by decide, by decide⟩

theorem encElems_cons (v : JVal) (t : JList) :
    encElems (.cons v t) = encVal v ++ (match t with | .nil => [] | .cons _ _ => 44 :: encElems t) := by
  cases t <;> simp [encElems]

theorem encMems_cons (k : Bytes) (v : JVal) (t : JMems) :
    encMems (.cons k v t) = 34 :: (encStrBody k ++ 34 :: 58 :: (encVal v ++
      (match t with | .nil => [] | .cons _ _ _ => 44 :: encMems t))) := by
  cases t <;> simp [encMems]


theorem fuel_succ {k fuel : Nat} (h : 1 + k ≤ fuel) : ∃ n, fuel = n + 1 ∧ k ≤ n := ⟨fuel - 1, by omega, by omega⟩

mutual
  theorem dec_enc_val : ∀ (v : JVal), v.WF = true → ∀ (rest : Bytes), NoNumHead rest → ∀ fuel, v.size ≤ fuel →
      decVal fuel (encVal v ++ rest) = some (v, rest)
    | .null, _, rest, _, fuel, hf => by
      obtain ⟨n, rfl, _⟩ := fuel_succ (k := 0) (by simpa [JVal.size] using hf)
      simp [encVal, decVal_cons, lit4]
    | .bool true, _, rest, _, fuel, hf => by
      obtain ⟨n, rfl, _⟩ := fuel_succ (k := 0) (by simpa [JVal.size] using hf)
      simp [encVal, decVal_cons, lit4]
    | .bool false, _, rest, _, fuel, hf => by
      obtain ⟨n, rfl, _⟩ := fuel_succ (k := 0) (by simpa [JVal.size] using hf)
      simp [encVal, decVal_cons, lit4]
    | .num lit, hv, rest, hr, fuel, hf => by
      obtain ⟨n, rfl, _⟩ := fuel_succ (k := 0) (by simpa [JVal.size] using hf)
      simp only [JVal.WF] at hv
      obtain ⟨c, t, rfl, hc⟩ := numLitOK_ne_nil lit hv
      obtain ⟨h1, h2, h3, h4, h5, h6, _⟩ := numChar_ne c hc
      simp only [numLitOK, Bool.and_eq_true] at hv
      obtain ⟨e1, e2⟩ := takeWhile_all numChar (c :: t) rest hv.1 hr
      rw [encVal, List.cons_append, decVal_cons]
      simp only [h1, h2, h3, h4, h5, h6, hc, ↓reduceIte]
      rw [← List.cons_append, e1, e2]
      simp [hv.2]
    | .str s, _, rest, _, fuel, hf => by
      obtain ⟨n, rfl, _⟩ := fuel_succ (k := 0) (by simpa [JVal.size] using hf)
      rw [encVal, List.cons_append, List.append_assoc, decVal_cons]
      simp [dec_enc_str]
    | .arr .nil, _, rest, _, fuel, hf => by
      obtain ⟨n, rfl, _⟩ := fuel_succ (k := 0) (by simpa [JVal.size, JList.size] using hf)
      simp [encVal, encElems, decVal_cons]
    | .arr (.cons v t), hv, rest, hr, fuel, hf => by
      obtain ⟨n, rfl, hn⟩ := fuel_succ (k := (JList.cons v t).size) (by simpa [JVal.size] using hf)
      have hv' : (JList.cons v t).WF = true := by simpa [JVal.WF] using hv
      have hvv : v.WF = true := by simp [JList.WF] at hv'; exact hv'.1
      obtain ⟨c, tl, hc, h93, _⟩ := encVal_head v hvv
      have ih := dec_enc_elems (.cons v t) hv' (by simp) rest n hn
      rw [encVal, List.cons_append, List.append_assoc, decVal_cons]
      simp only [show (91 : UInt8) ≠ 34 from by decide, show (91 : UInt8) ≠ 123 from by decide, ↓reduceIte]
      rw [show ([93] : Bytes) ++ rest = 93 :: rest from rfl, ih]
      rw [encElems_cons, hc]
      simp [h93]
    | .obj .nil, _, rest, _, fuel, hf => by
      obtain ⟨n, rfl, _⟩ := fuel_succ (k := 0) (by simpa [JVal.size, JMems.size] using hf)
      simp [encVal, encMems, decVal_cons]
    | .obj (.cons k v t), hv, rest, hr, fuel, hf => by
      obtain ⟨n, rfl, hn⟩ := fuel_succ (k := (JMems.cons k v t).size) (by simpa [JVal.size] using hf)
      have hv' : (JMems.cons k v t).WF = true := by simpa [JVal.WF] using hv
      have ih := dec_enc_mems (.cons k v t) hv' (by simp) rest n hn
      rw [encVal, List.cons_append, List.append_assoc, decVal_cons]
      simp only [show (123 : UInt8) ≠ 34 from by decide, ↓reduceIte]
      rw [show ([125] : Bytes) ++ rest = 125 :: rest from rfl, ih]
      rw [encMems_cons]
      simp
  theorem dec_enc_elems : ∀ (l : JList), l.WF = true → l ≠ .nil → ∀ (rest : Bytes) fuel, l.size ≤ fuel →
      decElems fuel (encElems l ++ 93 :: rest) = some (l, rest)
    | .nil, _, h, _, _, _ => absurd rfl h
    | .cons v .nil, hv, _, rest, fuel, hf => by
      obtain ⟨n, rfl, hn⟩ := fuel_succ (k := v.size) (by simpa [JList.size] using hf)
      have hvv : v.WF = true := by simp [JList.WF] at hv; exact hv
      have ih := dec_enc_val v hvv (93 :: rest) (noNumHead_cons _ _ (by decide)) n hn
      rw [decElems_succ, encElems, ih]
      simp
    | .cons v (.cons v' t'), hv, _, rest, fuel, hf => by
      have hf' : 1 + (v.size + (JList.cons v' t').size) ≤ fuel := by simp only [JList.size] at hf ⊢; omega
      obtain ⟨n, rfl, hn⟩ := fuel_succ hf'
      have hvv : v.WF = true ∧ (JList.cons v' t').WF = true := by
        simp only [JList.WF, Bool.and_eq_true] at hv ⊢; exact ⟨hv.1, hv.2⟩
      have ih1 := dec_enc_val v hvv.1 (44 :: (encElems (.cons v' t') ++ 93 :: rest))
        (noNumHead_cons _ _ (by decide)) n (by omega)
      have ih2 := dec_enc_elems (.cons v' t') hvv.2 (by simp) rest n (by omega)
      rw [decElems_succ, encElems_cons]
      simp only [List.append_assoc, List.cons_append]
      rw [ih1]
      simp [ih2]
  theorem dec_enc_mems : ∀ (m : JMems), m.WF = true → m ≠ .nil → ∀ (rest : Bytes) fuel, m.size ≤ fuel →
      decMems fuel (encMems m ++ 125 :: rest) = some (m, rest)
    | .nil, _, h, _, _, _ => absurd rfl h
    | .cons k v .nil, hv, _, rest, fuel, hf => by
      obtain ⟨n, rfl, hn⟩ := fuel_succ (k := v.size) (by simpa [JMems.size] using hf)
      have hvv : v.WF = true := by simp [JMems.WF] at hv; exact hv
      have ih := dec_enc_val v hvv (125 :: rest) (noNumHead_cons _ _ (by decide)) n hn
      rw [encMems, List.cons_append, decMems_succ]
      simp only [ne_eq, not_true_eq_false, ↓reduceIte, List.append_assoc, List.cons_append]
      rw [dec_enc_str]
      simp [ih]
    | .cons k v (.cons k' v' t'), hv, _, rest, fuel, hf => by
      have hf' : 1 + (v.size + (JMems.cons k' v' t').size) ≤ fuel := by simp only [JMems.size] at hf ⊢; omega
      obtain ⟨n, rfl, hn⟩ := fuel_succ hf'
      have hvv : v.WF = true ∧ (JMems.cons k' v' t').WF = true := by
        simp only [JMems.WF, Bool.and_eq_true] at hv ⊢; exact ⟨hv.1, hv.2⟩
      have ih1 := dec_enc_val v hvv.1 (44 :: (encMems (.cons k' v' t') ++ 125 :: rest))
        (noNumHead_cons _ _ (by decide)) n (by omega)
      have ih2 := dec_enc_mems (.cons k' v' t') hvv.2 (by simp) rest n (by omega)
      rw [encMems_cons, List.cons_append, decMems_succ]
      simp only [ne_eq, not_true_eq_false, ↓reduceIte, List.append_assoc, List.cons_append]
      rw [dec_enc_str]
      simp only [not_true_eq_false, ↓reduceIte]
      rw [ih1]
      simp [ih2]
end

/-! ## fuel: twice the length of the text is enough -/

mutual
  theorem size_val : ∀ v : JVal, v.size ≤ 2 * (encVal v).length + 1
    | .null => by simp [JVal.size]
    | .bool _ => by simp [JVal.size]
    | .num _ => by simp [JVal.size]
    | .str _ => by simp [JVal.size]
    | .arr l => by
      have := size_elems l
      simp only [JVal.size, encVal, List.length_cons, List.length_append, List.length_nil] at this ⊢
      omega
    | .obj m => by
      have := size_mems m
      simp only [JVal.size, encVal, List.length_cons, List.length_append, List.length_nil] at this ⊢
      omega
  theorem size_elems : ∀ l : JList, l.size ≤ 2 * (encElems l).length + 2
    | .nil => by simp [JList.size]
    | .cons v t => by
      have h1 := size_val v
      have h2 := size_elems t
      rw [encElems_cons]
      cases t with
      | nil => simp only [JList.size, List.append_nil] at h2 ⊢; omega
      | cons v' t' => simp only [JList.size, List.length_append, List.length_cons] at h2 ⊢; omega
  theorem size_mems : ∀ m : JMems, m.size ≤ 2 * (encMems m).length + 2
    | .nil => by simp [JMems.size]
    | .cons k v t => by
      have h1 := size_val v
      have h2 := size_mems t
      rw [encMems_cons]
      cases t with
      | nil => simp only [JMems.size, List.append_nil, List.length_append, List.length_cons] at h2 ⊢; omega
      | cons k' v' t' => simp only [JMems.size, List.length_append, List.length_cons] at h2 ⊢; omega
end

/-- **decode ∘ encode = id** on objects whose number literals obey the grammar -/
theorem decodeObj_encodeObj (m : JMems) (hm : m.WF = true) : decodeObj (encodeObj m) = some m := by
  have h := dec_enc_val (.obj m) (by simpa [JVal.WF] using hm) [] noNumHead_nil
    (2 * (encodeObj m).length + 2) (by have := size_val (.obj m); unfold encodeObj; omega)
  rw [List.append_nil] at h
  unfold decodeObj
  rw [show encVal (.obj m) = encodeObj m from rfl] at h
  rw [h]

/-! ## the encoder prints one balanced, properly escaped object on one line -/

/-- token lists that are fine inside an object: every token well formed, nesting unchanged, no end of line -/
def Good (ts : List Tok) : Prop :=
  (∀ t ∈ ts, t.ok) ∧ (∀ n, 1 ≤ n → ∀ r, ClosesAt n (ts ++ r) ↔ ClosesAt n r) ∧ (∀ c ∈ flat ts, isEol c = false)

theorem flat_append (a b : List Tok) : flat (a ++ b) = flat a ++ flat b := by simp [flat]

theorem good_nil : Good [] := ⟨by simp, by simp, by simp [flat]⟩

theorem good_append {a b : List Tok} (ha : Good a) (hb : Good b) : Good (a ++ b) := by
  refine ⟨?_, ?_, ?_⟩
  · intro t ht
    rcases List.mem_append.mp ht with h | h
    · exact ha.1 t h
    · exact hb.1 t h
  · intro n hn r
    rw [List.append_assoc, ha.2.1 n hn, hb.2.1 n hn]
  · intro c hc
    rw [flat_append] at hc
    rcases List.mem_append.mp hc with h | h
    · exact ha.2.2 c h
    · exact hb.2.2 c h

theorem good_other (c : UInt8) (h1 : c ≠ 34) (h2 : c ≠ 123) (h3 : c ≠ 125) (h4 : isEol c = false) :
    Good [.other c] := by
  refine ⟨?_, ?_, ?_⟩
  · intro t ht; simp at ht; subst ht; exact ⟨h1, h2, h3⟩
  · intro n _ r; simp [ClosesAt]
  · intro d hd; simp [flat, Tok.flat] at hd; subst hd; exact h4

/-- bytes that are neither `"` `{` `}` nor an end of line -/
def plainByte (c : UInt8) : Bool := c != 34 && c != 123 && c != 125 && !isEol c

theorem good_others (l : Bytes) (h : l.all plainByte = true) : Good (l.map .other) ∧ flat (l.map .other) = l := by
  induction l with
  | nil => exact ⟨good_nil, rfl⟩
  | cons c t ih =>
    simp only [List.all_cons, Bool.and_eq_true] at h
    obtain ⟨ih1, ih2⟩ := ih h.2
    have hc : c ≠ 34 ∧ c ≠ 123 ∧ c ≠ 125 ∧ isEol c = false := by
      have := h.1; simp [plainByte] at this; exact ⟨this.1.1.1, this.1.1.2, this.1.2, this.2⟩
    refine ⟨?_, ?_⟩
    · exact good_append (a := [.other c]) (good_other c hc.1 hc.2.1 hc.2.2.1 hc.2.2.2) ih1
    · rw [List.map_cons, ← List.singleton_append, flat_append, ih2]; rfl

set_option maxRecDepth 100000 in
theorem numChar_plain : ∀ c : UInt8, numChar c = true → plainByte c = true := by
  apply forall_uint8
  decide

theorem all_imp {p q : UInt8 → Bool} (h : ∀ c, p c = true → q c = true) (l : Bytes) (hl : l.all p = true) :
    l.all q = true := by
  rw [List.all_eq_true] at hl ⊢
  exact fun c hc => h c (hl c hc)

/-- a string body: properly escaped and without raw end of line -/
def BodyOK (b : Bytes) : Prop := EscOK b ∧ ∀ c ∈ b, isEol c = false

theorem bodyOK_nil : BodyOK [] := ⟨EscOK.nil, by simp⟩

theorem bodyOK_esc (c : UInt8) (t : Bytes) (hc : isEol c = false) (h : BodyOK t) : BodyOK (92 :: c :: t) :=
  ⟨EscOK.esc c t h.1, by
    intro d hd
    simp only [List.mem_cons] at hd
    rcases hd with rfl | rfl | hd
    · decide
    · exact hc
    · exact h.2 d hd⟩

theorem bodyOK_plain (c : UInt8) (t : Bytes) (h1 : c ≠ 92) (h2 : c ≠ 34) (hc : isEol c = false) (h : BodyOK t) :
    BodyOK (c :: t) :=
  ⟨EscOK.plain c t h1 h2 h.1, by
    intro d hd
    simp only [List.mem_cons] at hd
    rcases hd with rfl | hd
    · exact hc
    · exact h.2 d hd⟩

set_option maxRecDepth 100000 in
theorem hexDigit_plain : ∀ c : UInt8, c < 16 → hexDigit c ≠ 92 ∧ hexDigit c ≠ 34 ∧ isEol (hexDigit c) = false := by
  apply forall_uint8
  decide

set_option maxRecDepth 100000 in
theorem nibbles : ∀ c : UInt8, c < 32 → c >>> 4 < 16 ∧ c &&& 15 < 16 := by
  apply forall_uint8
  decide

set_option maxRecDepth 100000 in
theorem not_ctrl_noEol : ∀ c : UInt8, ¬ c < 32 → isEol c = false := by
  apply forall_uint8
  decide

theorem bodyOK_escByte (c : UInt8) (t : Bytes) (h : BodyOK t) : BodyOK (escByte c ++ t) := by
  unfold escByte
  split
  · exact bodyOK_esc _ _ (by decide) h
  split
  · exact bodyOK_esc _ _ (by decide) h
  split
  · exact bodyOK_esc _ _ (by decide) h
  split
  · exact bodyOK_esc _ _ (by decide) h
  split
  · exact bodyOK_esc _ _ (by decide) h
  split
  · rename_i hc
    obtain ⟨n1, n2⟩ := nibbles c hc
    obtain ⟨a1, a2, a3⟩ := hexDigit_plain _ n1
    obtain ⟨b1, b2, b3⟩ := hexDigit_plain _ n2
    apply bodyOK_esc _ _ (by decide)
    apply bodyOK_plain _ _ (by decide) (by decide) (by decide)
    apply bodyOK_plain _ _ (by decide) (by decide) (by decide)
    apply bodyOK_plain _ _ a1 a2 a3
    exact bodyOK_plain _ _ b1 b2 b3 h
  · rename_i h1 h2 _ _ _ h6
    exact bodyOK_plain c t h2 h1 (not_ctrl_noEol c h6) h

theorem bodyOK_encStr (s : Bytes) : BodyOK (encStrBody s) := by
  induction s using encStrBody.induct with
  | case1 => rw [encStrBody]; exact bodyOK_nil
  | case2 c d e t' h ih =>
    rw [encStrBody]
    simp only [h, and_self, ↓reduceIte]
    apply bodyOK_esc _ _ (by decide)
    apply bodyOK_plain _ _ (by decide) (by decide) (by decide)
    apply bodyOK_plain _ _ (by decide) (by decide) (by decide)
    apply bodyOK_plain _ _ (by decide) (by decide) (by decide)
    apply bodyOK_plain _ _ (by split <;> decide) (by split <;> decide) (by split <;> decide)
    exact ih
  | case3 c d e t' h ih =>
    rw [encStrBody]
    simp only [h, ↓reduceIte]
    exact bodyOK_escByte c _ ih
  | case4 c t h ih =>
    rw [encStrBody]
    · exact bodyOK_escByte c _ ih
    · exact h

theorem good_str (s : Bytes) : Good [.str (encStrBody s)] ∧ flat [.str (encStrBody s)] = 34 :: (encStrBody s ++ [34]) := by
  obtain ⟨h1, h2⟩ := bodyOK_encStr s
  refine ⟨⟨?_, ?_, ?_⟩, by simp [flat, Tok.flat]⟩
  · intro t ht; simp at ht; subst ht; exact h1
  · intro n _ r; simp [ClosesAt]
  · intro c hc
    simp only [flat, Tok.flat, List.flatMap_cons, List.flatMap_nil, List.append_nil, List.mem_cons,
      List.mem_append, List.not_mem_nil, or_false] at hc
    rcases hc with rfl | hc | rfl
    · decide
    · exact h2 c hc
    · decide

theorem good_obj {tm : List Tok} (h : Good tm) : Good (Tok.opn :: (tm ++ [Tok.cls])) := by
  refine ⟨?_, ?_, ?_⟩
  · intro t ht
    simp only [List.mem_cons, List.mem_append, List.not_mem_nil, or_false] at ht
    rcases ht with rfl | ht | rfl
    · trivial
    · exact h.1 t ht
    · trivial
  · intro n hn r
    have hne : n + 1 ≠ 1 := by omega
    simp only [List.cons_append, List.append_assoc, List.nil_append, ClosesAt]
    rw [h.2.1 (n + 1) (by omega)]
    simp only [ClosesAt, Nat.add_sub_cancel]
    have : ¬ n = 0 := by omega
    simp [this]
  · intro c hc
    simp only [flat, List.flatMap_cons, List.flatMap_append, Tok.flat, List.flatMap_nil, List.append_nil,
      List.mem_cons, List.mem_append, List.not_mem_nil, or_false] at hc
    rcases hc with rfl | hc | rfl
    · decide
    · exact h.2.2 c hc
    · decide

theorem good_lit (l : Bytes) (h : l.all plainByte = true) : ∃ ts, flat ts = l ∧ Good ts :=
  ⟨l.map .other, (good_others l h).2, (good_others l h).1⟩

theorem flat_cons' (t : Tok) (ts : List Tok) : flat (t :: ts) = t.flat ++ flat ts := by simp [flat]

mutual
  theorem tok_val : ∀ v : JVal, v.WF = true → ∃ ts, flat ts = encVal v ∧ Good ts
    | .null, _ => by rw [encVal]; exact good_lit _ (by decide)
    | .bool true, _ => by rw [encVal]; exact good_lit _ (by decide)
    | .bool false, _ => by rw [encVal]; exact good_lit _ (by decide)
    | .num lit, hv => by
      rw [encVal]
      simp only [JVal.WF, numLitOK, Bool.and_eq_true] at hv
      exact good_lit _ (all_imp numChar_plain lit hv.1)
    | .str s, _ => by rw [encVal]; exact ⟨_, (good_str s).2, (good_str s).1⟩
    | .arr l, hv => by
      obtain ⟨te, h1, h2⟩ := tok_elems l (by simpa [JVal.WF] using hv)
      refine ⟨[.other 91] ++ (te ++ [.other 93]), ?_, ?_⟩
      · rw [encVal, flat_append, flat_append, h1]; rfl
      · exact good_append (good_other 91 (by decide) (by decide) (by decide) (by decide))
          (good_append h2 (good_other 93 (by decide) (by decide) (by decide) (by decide)))
    | .obj m, hv => by
      obtain ⟨tm, h1, h2⟩ := tok_mems m (by simpa [JVal.WF] using hv)
      refine ⟨.opn :: (tm ++ [.cls]), ?_, good_obj h2⟩
      rw [encVal, flat_cons', flat_append, h1]; rfl
  theorem tok_elems : ∀ l : JList, l.WF = true → ∃ ts, flat ts = encElems l ∧ Good ts
    | .nil, _ => ⟨[], rfl, good_nil⟩
    | .cons v t, hv => by
      simp only [JList.WF, Bool.and_eq_true] at hv
      obtain ⟨tv, a1, a2⟩ := tok_val v hv.1
      obtain ⟨tt, b1, b2⟩ := tok_elems t hv.2
      rw [encElems_cons]
      cases t with
      | nil => exact ⟨tv, by simpa using a1, a2⟩
      | cons v' t' =>
        refine ⟨tv ++ ([.other 44] ++ tt), ?_, ?_⟩
        · rw [flat_append, flat_append, a1, b1]; rfl
        · exact good_append a2 (good_append (good_other 44 (by decide) (by decide) (by decide) (by decide)) b2)
  theorem tok_mems : ∀ m : JMems, m.WF = true → ∃ ts, flat ts = encMems m ∧ Good ts
    | .nil, _ => ⟨[], rfl, good_nil⟩
    | .cons k v t, hv => by
      simp only [JMems.WF, Bool.and_eq_true] at hv
      obtain ⟨tv, a1, a2⟩ := tok_val v hv.1
      obtain ⟨tt, b1, b2⟩ := tok_mems t hv.2
      obtain ⟨k1, k2⟩ := good_str k
      have c58 := good_other 58 (by decide) (by decide) (by decide) (by decide)
      rw [encMems_cons]
      cases t with
      | nil =>
        refine ⟨[.str (encStrBody k)] ++ ([.other 58] ++ tv), ?_, good_append k1 (good_append c58 a2)⟩
        rw [flat_append, flat_append, k2, a1]; simp [flat, Tok.flat]
      | cons k' v' t' =>
        refine ⟨[.str (encStrBody k)] ++ ([.other 58] ++ (tv ++ ([.other 44] ++ tt))), ?_,
          good_append k1 (good_append c58 (good_append a2
            (good_append (good_other 44 (by decide) (by decide) (by decide) (by decide)) b2)))⟩
        rw [flat_append, flat_append, flat_append, flat_append, k2, a1, b1]; simp [flat, Tok.flat]
end

/-- **the encoder prints one balanced, properly escaped object** (the hypothesis of `scan_finds_object`) … -/
theorem encodeObj_balanced (m : JMems) (hm : m.WF = true) : ∃ ts, encodeObj m = flat ts ∧ BalancedObj ts := by
  obtain ⟨tm, h1, h2⟩ := tok_mems m hm
  refine ⟨.opn :: (tm ++ [.cls]), ?_, tm ++ [.cls], rfl, ?_, ?_⟩
  · unfold encodeObj; rw [encVal, flat_cons', flat_append, h1]; rfl
  · intro t ht
    rcases List.mem_append.mp ht with h | h
    · exact h2.1 t h
    · simp at h; subst h; trivial
  · rw [h2.2.1 1 (Nat.le_refl 1)]; simp [ClosesAt]

/-- … on one line -/
theorem encodeObj_oneLine (m : JMems) (hm : m.WF = true) : ∀ c ∈ encodeObj m, isEol c = false := by
  obtain ⟨tm, h1, h2⟩ := tok_mems m hm
  intro c hc
  unfold encodeObj at hc
  rw [encVal, ← h1] at hc
  simp only [List.mem_cons, List.mem_append, List.not_mem_nil, or_false] at hc
  rcases hc with rfl | hc | rfl
  · decide
  · exact h2.2.2 c hc
  · decide

/-! ## the `definition` entry -/

theorem hasKey_cons (k' k : Bytes) (v : JVal) (t : JMems) (h : (JMems.cons k' v t).hasKey k = false) :
    k' ≠ k ∧ t.hasKey k = false := by
  simpa [JMems.hasKey] using h

theorem dropDef_noKey : ∀ a : JMems, a.hasKey defKey = false → a.dropDef = a
  | .nil, _ => rfl
  | .cons k v t, h => by
    obtain ⟨h1, h2⟩ := hasKey_cons _ _ _ _ h
    simp [JMems.dropDef, h1, dropDef_noKey t h2]

theorem getDef_cons (k : Bytes) (v : JVal) (t : JMems) :
    (JMems.cons k v t).getDef =
      match t.getDef with
      | some d => some d
      | none => if k = defKey then (match v with | .str s => some s | _ => none) else none := by
  conv => lhs; unfold JMems.getDef
  rfl

theorem getDef_noKey : ∀ a : JMems, a.hasKey defKey = false → a.getDef = none
  | .nil, _ => rfl
  | .cons k v t, h => by
    obtain ⟨h1, h2⟩ := hasKey_cons _ _ _ _ h
    rw [getDef_cons, getDef_noKey t h2]; simp [h1]

theorem dropDef_insert : ∀ (a : JMems) (v : JVal), a.hasKey defKey = false → (a.insert defKey v).dropDef = a
  | .nil, v, _ => by simp [JMems.insert, JMems.dropDef]
  | .cons k v' t, v, h => by
    obtain ⟨h1, h2⟩ := hasKey_cons _ _ _ _ h
    simp only [JMems.insert]
    split
    · rw [JMems.dropDef]; simp only [↓reduceIte]
      exact dropDef_noKey _ h
    · rw [JMems.dropDef]; simp only [h1, ↓reduceIte]
      rw [dropDef_insert t v h2]

theorem getDef_insert : ∀ (a : JMems) (d : Bytes), a.hasKey defKey = false → (a.insert defKey (.str d)).getDef = some d
  | .nil, d, _ => by simp [JMems.insert, JMems.getDef]
  | .cons k v' t, d, h => by
    obtain ⟨h1, h2⟩ := hasKey_cons _ _ _ _ h
    simp only [JMems.insert]
    split
    · rw [getDef_cons, getDef_noKey _ h]; simp
    · rw [getDef_cons, getDef_insert t d h2]

theorem WF_insert : ∀ (a : JMems) (k : Bytes) (v : JVal), a.WF = true → v.WF = true → (a.insert k v).WF = true
  | .nil, k, v, _, hv => by simp [JMems.insert, JMems.WF, hv]
  | .cons k' v' t, k, v, ha, hv => by
    simp only [JMems.WF, Bool.and_eq_true] at ha
    simp only [JMems.insert]
    split
    · simp [JMems.WF, hv, ha.1, ha.2]
    · simp [JMems.WF, ha.1, WF_insert t k v ha.2 hv]

theorem WF_dropDef : ∀ a : JMems, a.WF = true → a.dropDef.WF = true
  | .nil, _ => rfl
  | .cons k v t, h => by
    simp only [JMems.WF, Bool.and_eq_true] at h
    rw [JMems.dropDef]
    split
    · exact WF_dropDef t h.2
    · simp [JMems.WF, h.1, WF_dropDef t h.2]

theorem hasKey_dropDef : ∀ a : JMems, a.dropDef.hasKey defKey = false
  | .nil => rfl
  | .cons k v t => by
    rw [JMems.dropDef]
    split
    · exact hasKey_dropDef t
    · rename_i h; simp [JMems.hasKey, h, hasKey_dropDef t]

theorem WF_withDef (a : JMems) (d : Option Bytes) (ha : a.WF = true) : (withDef a d).WF = true := by
  cases d with
  | none => exact ha
  | some d => exact WF_insert a _ _ ha (by simp [JVal.WF])

/-! ## go-json satisfies the contract assumed by the composed theorems of `Lemmas/Header.lean` -/

/-- what an annotation map must satisfy: number literals obey the grammar, `definition` is kept apart -/
structure AnnOK (a : JMems) : Prop where
  wf : a.WF = true
  noDef : a.hasKey defKey = false

theorem goJson_OKat (a : JMems) (d : Option Bytes) (h : AnnOK a) : goJson.OKat (a, d) where
  balanced := encodeObj_balanced _ (WF_withDef a d h.wf)
  oneLine := encodeObj_oneLine _ (WF_withDef a d h.wf)
  roundtrip := by
    show (decodeObj (encodeObj (withDef a d))).map (fun m => (m.dropDef, m.getDef)) = some (a, d)
    rw [decodeObj_encodeObj _ (WF_withDef a d h.wf)]
    cases d with
    | none => simp [withDef, dropDef_noKey a h.noDef, getDef_noKey a h.noDef]
    | some d => simp [withDef, dropDef_insert a _ h.noDef, getDef_insert a d h.noDef]

/-! ## what the decoder returns is well formed (so that it can be encoded again) -/

theorem all_takeWhile (p : UInt8 → Bool) (l : Bytes) : (l.takeWhile p).all p = true := by
  induction l with
  | nil => rfl
  | cons c t ih =>
    rw [List.takeWhile_cons]
    split
    · rename_i h; simp only [List.all_cons, h, ih, Bool.and_self]
    · rfl

theorem lit4_some {a b c : UInt8} {v0 v : JVal} {t r : Bytes} (h : lit4 a b c v0 t = some (v, r)) : v = v0 := by
  unfold lit4 at h
  split at h
  · split at h
    · simp only [Option.some.injEq, Prod.mk.injEq] at h; exact h.1.symm
    · cases h
  · cases h

theorem map_some {α β : Type} {f : α → β} {o : Option α} {b : β} (h : o.map f = some b) : ∃ a, o = some a ∧ f a = b := by
  cases o with
  | none => cases h
  | some a => exact ⟨a, rfl, by simpa using h⟩

theorem dec_WF : ∀ fuel : Nat,
    (∀ s v r, decVal fuel s = some (v, r) → v.WF = true) ∧
    (∀ s l r, decElems fuel s = some (l, r) → l.WF = true) ∧
    (∀ s m r, decMems fuel s = some (m, r) → m.WF = true) := by
  intro fuel
  induction fuel with
  | zero =>
    refine ⟨?_, ?_, ?_⟩ <;> intro s x r h
    · simp [decVal] at h
    · simp [decElems] at h
    · simp [decMems] at h
  | succ n ih =>
    obtain ⟨ihV, ihL, ihM⟩ := ih
    refine ⟨?_, ?_, ?_⟩
    · intro s v r h
      cases s with
      | nil => simp [decVal] at h
      | cons c t =>
        rw [decVal_cons] at h
        split at h
        · obtain ⟨p, _, hp⟩ := map_some h
          simp only [Prod.mk.injEq] at hp; rw [← hp.1]; rfl
        split at h
        · split at h
          · cases h
          · split at h
            · simp only [Option.some.injEq, Prod.mk.injEq] at h; rw [← h.1]; rfl
            · obtain ⟨p, hp1, hp⟩ := map_some h
              simp only [Prod.mk.injEq] at hp; rw [← hp.1]
              simpa [JVal.WF] using ihM _ p.1 p.2 hp1
        split at h
        · split at h
          · cases h
          · split at h
            · simp only [Option.some.injEq, Prod.mk.injEq] at h; rw [← h.1]; rfl
            · obtain ⟨p, hp1, hp⟩ := map_some h
              simp only [Prod.mk.injEq] at hp; rw [← hp.1]
              simpa [JVal.WF] using ihL _ p.1 p.2 hp1
        split at h
        · rw [lit4_some h]; rfl
        split at h
        · rw [lit4_some h]; rfl
        split at h
        · split at h
          · split at h
            · rw [lit4_some h]; rfl
            · cases h
          · cases h
        split at h
        · simp only at h
          split at h
          · rename_i hl
            simp only [Option.some.injEq, Prod.mk.injEq] at h; rw [← h.1]
            simp only [JVal.WF, numLitOK, Bool.and_eq_true]
            exact ⟨all_takeWhile _ _, hl⟩
          · cases h
        · cases h
    · intro s l r h
      rw [decElems_succ] at h
      split at h
      · cases h
      · rename_i v r0 hv
        split at h
        · cases h
        · split at h
          · obtain ⟨p, hp1, hp⟩ := map_some h
            simp only [Prod.mk.injEq] at hp; rw [← hp.1]
            simp only [JList.WF, Bool.and_eq_true]
            exact ⟨ihV _ _ _ hv, ihL _ _ _ hp1⟩
          · split at h
            · simp only [Option.some.injEq, Prod.mk.injEq] at h; rw [← h.1]
              simp only [JList.WF, Bool.and_eq_true]
              exact ⟨ihV _ _ _ hv, trivial⟩
            · cases h
    · intro s m r h
      cases s with
      | nil => simp [decMems] at h
      | cons q s =>
        rw [decMems_succ] at h
        split at h
        · cases h
        split at h
        · cases h
        · split at h
          · cases h
          · split at h
            · cases h
            · split at h
              · cases h
              · rename_i v r2 hv
                split at h
                · cases h
                · split at h
                  · obtain ⟨p, hp1, hp⟩ := map_some h
                    simp only [Prod.mk.injEq] at hp; rw [← hp.1]
                    simp only [JMems.WF, Bool.and_eq_true]
                    exact ⟨ihV _ _ _ hv, ihM _ _ _ hp1⟩
                  · split at h
                    · simp only [Option.some.injEq, Prod.mk.injEq] at h; rw [← h.1]
                      simp only [JMems.WF, Bool.and_eq_true]
                      exact ⟨ihV _ _ _ hv, trivial⟩
                    · cases h

theorem decodeObj_WF (s : Bytes) (m : JMems) (h : decodeObj s = some m) : m.WF = true := by
  unfold decodeObj at h
  split at h
  · rename_i m' hd
    simp only [Option.some.injEq] at h; subst h
    simpa [JVal.WF] using (dec_WF _).1 _ _ _ hd
  · cases h

/-- whatever `json.Unmarshal` (the model) accepts can be printed and read again: its annotation part is `AnnOK` -/
theorem unmarshal_AnnOK (b : Bytes) (a : JMems) (d : Option Bytes) (h : goJson.unmarshal b = some (a, d)) : AnnOK a := by
  obtain ⟨m, hm, he⟩ := map_some (show (decodeObj b).map (fun m => (m.dropDef, m.getDef)) = some (a, d) from h)
  simp only [Prod.mk.injEq] at he
  rw [← he.1]
  exact ⟨WF_dropDef m (decodeObj_WF b m hm), hasKey_dropDef m⟩


open ObiVerif.Header in
/-- the annotations `ParseFastSeqJsonHeader` delivers can always be printed and read again -/
theorem parsed_AnnOK (t : Bytes) (p : Parsed JMems)
    (h : parseFastSeqJsonHeader goJson.empty (goJson.lib t) t = some p) : AnnOK p.ann := by
  unfold parseFastSeqJsonHeader parseJsonHeader at h
  cases hs : scanJson t with
  | none =>
    rw [hs] at h
    simp only [Option.some.injEq] at h
    rw [← h]
    exact ⟨rfl, rfl⟩
  | some se =>
    obtain ⟨s0, e0⟩ := se
    rw [hs] at h
    simp only at h
    cases hl : goJson.lib t s0 e0 with
    | none => rw [hl] at h; cases h
    | some ad =>
      obtain ⟨a0, d0⟩ := ad
      rw [hl] at h
      have hA : AnnOK a0 := unmarshal_AnnOK _ a0 d0 hl
      simp only at h
      split at h
      · simp only [Option.some.injEq] at h; rw [← h]; exact hA
      · split at h
        · simp only [Option.some.injEq] at h; rw [← h]; exact hA
        · simp only [Option.some.injEq] at h; rw [← h]; exact hA

end ObiVerif.Json
