import ObiVerif.Model.TagV
import ObiVerif.Lemmas.QGram
import ObiVerif.Lemmas.LcsBand
import ObiVerif.Lemmas.LcsD1Verbatim
import ObiVerif.Lemmas.LcsVerbatimTop
/-!
# The kernel readings of `Model/Tag.lean` are THEOREMS about the verbatim kernels (C15, round 2)

1. alignment facts: for words over `a c g t`, the LCS distance `alilength - lcs` of the optimum (`lcsDP samenuc`,
   what `FastLCSScore` without bound returns) is 0 iff the words are equal and 1 iff they are one edit apart
   (`OneEdit`, the specification of `D1Or0` in C09) — the bridge between the Levenshtein-style specification of
   `D1Or0` and the (LCS, shortest alignment) specification of `FastLCSScore`;
2. each kernel call of the loops (`fcCompareV`, `ixErrsV`, on the caller's buffer, whatever it contains) returns
   what `fcCompare` / `ixErrs` READ on `candOf q r`, or an above-bound answer that the loops ignore;
3. the loops with the verbatim kernels (`findClosestsV`, `indexSequenceV`, `identifyV`) never panic inside a
   kernel and return exactly what `findClosests`, `indexSequence`, `identify` return on `candOf`.
-/
namespace ObiVerif.Tag
open ObiVerif.Kmer ObiVerif.Lcs ObiVerif.QGram

/-! ## 1. alignments with at most one non-matching column -/

/-- every column consumes a letter; a matching column consumes two -/
theorem ali_sum {m : UInt8 → UInt8 → Bool} {a b : Seq} {s l : Nat} (h : Ali m a b s l) :
    l + s ≤ a.length + b.length := by
  induction h with
  | nil => simp
  | gapB x _ ih => simp; omega
  | gapA y _ ih => simp; omega
  | pair x y _ ih => simp; split <;> omega

/-- an alignment without a non-matching column pairs equal words (when matching letters are equal) -/
theorem ali_eq {m : UInt8 → UInt8 → Bool} {a b : Seq} {s l : Nat} (h : Ali m a b s l) :
    (∀ x ∈ a, ∀ y ∈ b, m x y = true → x = y) → l ≤ s → a = b := by
  induction h with
  | nil => intro _ _; rfl
  | gapB x h' _ => intro _ hl; have := Ali.bounds m h'; omega
  | gapA y h' _ => intro _ hl; have := Ali.bounds m h'; omega
  | pair x y h' ih =>
    intro hm hl
    have hb := Ali.bounds m h'
    by_cases hxy : m x y = true
    · have e := hm x List.mem_cons_self y List.mem_cons_self hxy
      have := ih (fun x' hx' y' hy' => hm x' (List.mem_cons_of_mem _ hx') y' (List.mem_cons_of_mem _ hy'))
        (by simp [hxy] at hl; omega)
      rw [e, this]
    · simp [hxy] at hl; omega

/-- an alignment with exactly one non-matching column is one edit -/
theorem ali_one {m : UInt8 → UInt8 → Bool} {a b : Seq} {s l : Nat} (h : Ali m a b s l) :
    (∀ x ∈ a, ∀ y ∈ b, (m x y = true ↔ x = y)) → l = s + 1 → ∃ n x y, OneEdit a b n x y := by
  induction h with
  | nil => intro _ hl; omega
  | @gapB x a b s l h' _ =>
    intro hm hl
    have e : a = b := ali_eq h' (fun x' hx' y' hy' => (hm x' (List.mem_cons_of_mem _ hx') y' hy').1) (by omega)
    subst e
    exact ⟨0, x, 45, .del [] a rfl rfl rfl rfl⟩
  | @gapA y a b s l h' _ =>
    intro hm hl
    have e : a = b := ali_eq h' (fun x' hx' y' hy' => (hm x' hx' y' (List.mem_cons_of_mem _ hy')).1) (by omega)
    subst e
    exact ⟨0, 45, y, .ins [] a rfl rfl rfl rfl⟩
  | @pair x y a b s l h' ih =>
    intro hm hl
    have hm' : ∀ x' ∈ a, ∀ y' ∈ b, (m x' y' = true ↔ x' = y') :=
      fun x' hx' y' hy' => hm x' (List.mem_cons_of_mem _ hx') y' (List.mem_cons_of_mem _ hy')
    by_cases hxy : m x y = true
    · have e := (hm x List.mem_cons_self y List.mem_cons_self).1 hxy
      subst e
      obtain ⟨n, x', y', he⟩ := ih hm' (by simp [hxy] at hl; omega)
      exact ⟨n + 1, x', y', he.cons x⟩
    · have e : a = b := ali_eq h' (fun x' hx' y' hy' => (hm' x' hx' y' hy').1) (by simp [hxy] at hl; omega)
      subst e
      have hne : x ≠ y := fun e => hxy ((hm x List.mem_cons_self y List.mem_cons_self).2 e)
      exact ⟨0, x, y, .subst [] a rfl rfl hne rfl⟩

theorem ali_append {m : UInt8 → UInt8 → Bool} {a b a' b' : Seq} {s l s' l' : Nat} (h : Ali m a b s l)
    (h' : Ali m a' b' s' l') : Ali m (a ++ a') (b ++ b') (s + s') (l + l') := by
  induction h with
  | nil => simpa using h'
  | @gapB x a b s l _ ih =>
    have e : l + 1 + l' = l + l' + 1 := by omega
    rw [e]; exact .gapB x ih
  | @gapA y a b s l _ ih =>
    have e : l + 1 + l' = l + l' + 1 := by omega
    rw [e]; exact .gapA y ih
  | @pair x y a b s l _ ih =>
    have e : l + 1 + l' = l + l' + 1 := by omega
    have e2 : s + (if m x y = true then 1 else 0) + s' = s + s' + (if m x y = true then 1 else 0) := by omega
    rw [e, e2]; exact .pair x y ih

/-- one edit is an alignment with exactly one non-matching column, as long as the longer word -/
theorem ali_of_oneEdit {m : UInt8 → UInt8 → Bool} {a b : Seq} {n : Nat} {x y : UInt8} (h : OneEdit a b n x y)
    (hm : ∀ x ∈ a, ∀ y ∈ b, (m x y = true ↔ x = y)) :
    ∃ s, Ali m a b s (s + 1) ∧ s + 1 = max a.length b.length := by
  have hself : ∀ (w : Seq), (∀ z ∈ w, z ∈ a ∧ z ∈ b) → Ali m w w w.length w.length :=
    fun w hw => ali_diag m w (fun z hz => (hm z (hw z hz).1 z (hw z hz).2).2 rfl)
  cases h with
  | subst p t ha hb hne hp =>
    subst ha hb
    have hp' := hself p (fun z hz => ⟨by simp [hz], by simp [hz]⟩)
    have ht' := hself t (fun z hz => ⟨by simp [hz], by simp [hz]⟩)
    have hxy : m x y = false := by
      cases hv : m x y with
      | false => rfl
      | true => exact absurd ((hm x (by simp) y (by simp)).1 hv) hne
    have h1 := Ali.pair (m := m) x y ht'
    rw [hxy] at h1
    have h2 := ali_append hp' h1
    refine ⟨p.length + t.length, by simpa [Nat.add_assoc] using h2, by simp; omega⟩
  | del p t ha hb hy hp =>
    subst ha hb
    have hp' := hself p (fun z hz => ⟨by simp [hz], by simp [hz]⟩)
    have ht' := hself t (fun z hz => ⟨by simp [hz], by simp [hz]⟩)
    have h2 := ali_append hp' (Ali.gapB (m := m) x ht')
    refine ⟨p.length + t.length, by simpa [Nat.add_assoc] using h2, by simp; omega⟩
  | ins p t ha hb hx hp =>
    subst ha hb
    have hp' := hself p (fun z hz => ⟨by simp [hz], by simp [hz]⟩)
    have ht' := hself t (fun z hz => ⟨by simp [hz], by simp [hz]⟩)
    have h2 := ali_append hp' (Ali.gapA (m := m) y ht')
    refine ⟨p.length + t.length, by simpa [Nat.add_assoc] using h2, by simp; omega⟩

/-- on words over `a c g t`, `_samenuc` is equality -/
theorem samenuc_iff_eq {q r : Bytes} (hq : IsACGT q) (hr : IsACGT r) :
    ∀ x ∈ q, ∀ y ∈ r, (samenuc x y = true ↔ x = y) := by
  intro x hx y hy
  constructor
  · exact samenuc_eq_of_acgt hq hr x hx y hy
  · intro e; subst e; exact samenuc_self_acgt x (hq x hx)

/-- **distance 0 = equal byte strings** (what obitag2's `case 0` and the verdict 0 of `D1Or0` test) -/
theorem candOf_dist_zero_iff (q r : Bytes) (hq : IsACGT q) (hr : IsACGT r) : (candOf q r).dist = 0 ↔ q = r := by
  constructor
  · intro h
    have h1 := (lcsDP_opt samenuc q r).1
    apply ali_eq h1 (fun x hx y hy => ((samenuc_iff_eq hq hr) x hx y hy).1)
    simp only [candOf, Cand.dist] at h
    omega
  · intro e; subst e; exact candOf_self_dist q hq

/-- **distance 1 = one edit** (the verdict 1 of `D1Or0`), and then the shortest alignment achieving the LCS is as
long as the longer word -/
theorem candOf_dist_one_iff (q r : Bytes) (hq : IsACGT q) (hr : IsACGT r) :
    ((candOf q r).dist = 1 ↔ ∃ n x y, OneEdit q r n x y) ∧
    ((candOf q r).dist = 1 → (candOf q r).ali = max q.length r.length ∧ (candOf q r).lcs + 1 = max q.length r.length) := by
  have hm := samenuc_iff_eq hq hr
  have hopt := lcsDP_opt samenuc q r
  have hb := Ali.bounds samenuc hopt.1
  have key : (∃ n x y, OneEdit q r n x y) →
      (lcsDP samenuc q r).2 = max q.length r.length ∧ (lcsDP samenuc q r).1 + 1 = max q.length r.length := by
    rintro ⟨n, x, y, he⟩
    obtain ⟨s, hs, hmax⟩ := ali_of_oneEdit (m := samenuc) he hm
    have hbet := hopt.2 _ _ hs
    rw [better_iff] at hbet
    simp only at hbet
    have hsum := ali_sum hopt.1
    have hne : ¬ (lcsDP samenuc q r).2 ≤ (lcsDP samenuc q r).1 := by
      intro hl
      exact he.ne (ali_eq hopt.1 (fun x hx y hy => (hm x hx y hy).1) hl)
    omega
  refine ⟨⟨?_, ?_⟩, ?_⟩
  · intro h
    apply ali_one hopt.1 hm
    simp only [candOf, Cand.dist] at h
    omega
  · intro h
    have := key h
    simp only [candOf, Cand.dist]
    omega
  · intro h
    have h1 : ∃ n x y, OneEdit q r n x y := by
      apply ali_one hopt.1 hm
      simp only [candOf, Cand.dist] at h
      omega
    exact key h1

/-! ## 2. the kernel calls -/

/-- one call of the LCS kernel on the caller's buffer, whatever it holds: no panic, and the answer of the banded
matrix (C09 `fastLCSBuf_refines`; no hypothesis on the lengths) -/
theorem lcsCallV_eq (q r : Bytes) (maxe : Option Nat) (buf : Array UInt64) :
    ∃ buf', lcsCallV q r maxe buf =
      .ok ((bandLCS q r (maxeInt maxe)).map (fun p => (p.2 - p.1, p.1, p.2)), buf') := by
  obtain ⟨buf', h⟩ := fastLCSBuf_refines q r (maxeInt maxe) buf
  refine ⟨buf', ?_⟩
  unfold lcsCallV
  rw [h]
  cases bandLCS q r (maxeInt maxe) with
  | none => simp [resOf]
  | some p =>
    obtain ⟨s, l⟩ := p
    simp only [resOf, Option.map_some]
    have h1 : ((s : Int) ≥ 0) := Int.natCast_nonneg s
    simp only [h1, if_true, Int.toNat_natCast]
    rw [show ((l : Int) - (s : Int)).toNat = l - s by omega]

/-- what the loops do with an answer: the answer read by the model, or an above-bound answer -/
def CmpRel (maxe : Option Nat) (X Y : Option (Nat × Nat × Nat)) : Prop :=
  X = Y ∨ (Y = none ∧ ∃ e s l a, maxe = some e ∧ X = some (s, l, a) ∧ e < s)

theorem lcsDP_le (q r : Bytes) : (lcsDP samenuc q r).1 ≤ (lcsDP samenuc q r).2 :=
  (Ali.bounds samenuc (lcsDP_opt samenuc q r).1).2.2.2.2.2

/-- the bounded LCS call, for any explicit bound or none: exact within the bound, ignored beyond -/
theorem lcsCallV_spec (q r : Bytes) (hlen : q.length + r.length + 1 ≤ 30000) (maxe : Option Nat) (buf : Array UInt64) :
    ∃ X buf', lcsCallV q r maxe buf = .ok (X, buf') ∧
      CmpRel maxe X (match maxe with
        | none => some ((candOf q r).dist, (candOf q r).lcs, (candOf q r).ali)
        | some e => (boundedLCS (candOf q r) e).map (fun la => (la.2 - la.1, la.1, la.2))) := by
  obtain ⟨buf', h⟩ := lcsCallV_eq q r maxe buf
  refine ⟨_, buf', h, ?_⟩
  have hle := lcsDP_le q r
  cases maxe with
  | none =>
    left
    simp only [maxeInt]
    rw [bandLCS_exact_unbounded q r hlen]
    rfl
  | some e =>
    simp only [maxeInt]
    have hne : ((e : Nat) : Int) ≠ -1 := by omega
    by_cases hd : (candOf q r).dist ≤ e
    · left
      have hd' : (((lcsDP samenuc q r).2 : Nat) : Int) - (((lcsDP samenuc q r).1 : Nat) : Int) ≤ (e : Int) := by
        simp only [candOf, Cand.dist] at hd; omega
      rw [bandLCS_exact_band q r e hlen hne (diff_le_imp_cover q r e hd')]
      have hd2 := hd
      simp only [candOf, Cand.dist] at hd2
      simp [boundedLCS, candOf, Cand.dist, hd2]
    · have hd' : ((e : Nat) : Int) < (((lcsDP samenuc q r).2 : Nat) : Int) - (((lcsDP samenuc q r).1 : Nat) : Int) := by
        simp only [candOf, Cand.dist] at hd; omega
      have hY : (boundedLCS (candOf q r) e).map (fun la => (la.2 - la.1, la.1, la.2)) = none := by
        simp [boundedLCS, hd]
      rw [hY]
      rcases bandLCS_beyond q r e hlen hne hd' with h1 | ⟨s, l, h1, h2⟩
      · left; rw [h1]; rfl
      · right
        refine ⟨rfl, e, l - s, s, l, rfl, by rw [h1]; rfl, by omega⟩

/-- `D1Or0` on words over `a c g t`: verdict 0 / 1 exactly when the LCS distance is 0 / 1 (no panic, any lengths) -/
theorem d1or0_acgt (q r : Bytes) (hq : IsACGT q) (hr : IsACGT r) :
    Lcs.d1or0 q r = .ok (d1F q r) ∧
    ((d1F q r).verdict = 0 ↔ (candOf q r).dist = 0) ∧ ((d1F q r).verdict = 1 ↔ (candOf q r).dist = 1) ∧
    ((d1F q r).verdict = 0 ∨ (d1F q r).verdict = 1 ∨ (d1F q r).verdict = -1) := by
  refine ⟨d1or0_refines q r, ?_, ?_, ?_⟩
  · rw [candOf_dist_zero_iff q r hq hr]; exact d1F_zero_iff q r
  · rw [(candOf_dist_one_iff q r hq hr).1]
    constructor
    · intro h
      obtain ⟨n, _, he⟩ := d1F_one_sound q r h
      exact ⟨n, _, _, he⟩
    · rintro ⟨n, x, y, he⟩
      exact d1F_complete he
  · rcases d1F_verdict_cases q r with h | h | h
    · exact .inl h
    · exact .inr (.inl h)
    · right; right; rw [h]

/-- the `D1Or0` call of `FindClosests` = the reading `Tag.d1or0` of the model -/
theorem d1CallV_spec (q r : Bytes) (hq : IsACGT q) (hr : IsACGT r) :
    d1CallV q r = .ok (match Tag.d1or0 (candOf q r) with
      | some d => some (d, max q.length (candOf q r).len - d, max q.length (candOf q r).len)
      | none => none) := by
  obtain ⟨h0, hz, ho, hc⟩ := d1or0_acgt q r hq hr
  unfold d1CallV
  rw [h0]
  simp only [Tag.d1or0]
  have hlen : (candOf q r).len = r.length := rfl
  rw [hlen]
  rcases hc with h | h | h
  · have hd := hz.1 h
    rw [h, hd]
    simp
  · have hd := ho.1 h
    have hpos : 1 ≤ max q.length r.length := by
      have := (candOf_dist_one_iff q r hq hr).2 hd
      omega
    rw [h, hd]
    have : ((max q.length r.length : Nat) : Int) - 1 ≥ 0 := by omega
    simp only [this, and_true]
    simp
  · have hd : ¬ (candOf q r).dist ≤ 1 := by
      intro hle
      have : (candOf q r).dist = 0 ∨ (candOf q r).dist = 1 := by omega
      rcases this with e | e
      · have := hz.2 e; omega
      · have := ho.2 e; omega
    rw [h]
    simp [hd]

/-- **every comparison of `FindClosests` with the verbatim kernels is the comparison read by the model** (or an
above-bound answer), on any scratch buffer -/
theorem fcCompareV_spec (v : Variant) (q r : Bytes) (hq : IsACGT q) (hr : IsACGT r)
    (hlen : q.length + r.length + 1 ≤ 30000) (maxe : Option Nat) (buf : Array UInt64) :
    ∃ X buf', fcCompareV v q r maxe buf = .ok (X, buf') ∧ CmpRel maxe X (fcCompare v q.length (candOf q r) maxe) := by
  unfold fcCompareV
  cases maxe with
  | none =>
    simp only [reduceCtorEq, false_and, false_or, if_false]
    exact lcsCallV_spec q r hlen none buf
  | some e =>
    by_cases h0 : e = 0 ∧ v = .tag2
    · obtain ⟨e0, ev⟩ := h0
      subst e0 ev
      simp only [and_self, if_true]
      refine ⟨_, buf, rfl, .inl ?_⟩
      simp only [fcCompare, and_self, if_true]
      by_cases hqr : q = r
      · simp [hqr, (candOf_dist_zero_iff r r hr hr).2 rfl]
      · have : ¬ (candOf q r).dist = 0 := fun h => hqr ((candOf_dist_zero_iff q r hq hr).1 h)
        simp [hqr, this]
    · have h0' : ¬ (some e = some 0 ∧ v = .tag2) := by
        rintro ⟨h1, h2⟩; exact h0 ⟨by cases h1; rfl, h2⟩
      simp only [h0', if_false]
      by_cases h1 : e ≤ 1
      · have h1' : some e = some 0 ∨ some e = some 1 := by
          have : e = 0 ∨ e = 1 := by omega
          rcases this with e' | e' <;> subst e' <;> simp
        simp only [h1', if_true]
        rw [d1CallV_spec q r hq hr]
        refine ⟨_, buf, rfl, .inl ?_⟩
        simp only [fcCompare, h0, if_false, h1, if_true]
        rfl
      · have h1' : ¬ (some e = some 0 ∨ some e = some 1) := by
          rintro (h | h) <;> cases h <;> omega
        simp only [h1', if_false]
        obtain ⟨X, buf', hX, hrel⟩ := lcsCallV_spec q r hlen (some e) buf
        refine ⟨X, buf', hX, ?_⟩
        have : fcCompare v q.length (candOf q r) (some e) =
            (boundedLCS (candOf q r) e).map (fun la => (la.2 - la.1, la.1, la.2)) := by
          simp only [fcCompare, h0, if_false, h1]
          cases boundedLCS (candOf q r) e with
          | none => rfl
          | some p => rfl
        rw [this]
        exact hrel

/-- an answer farther than the best distance changes nothing -/
theorem fcUpdate_far (wm : Nat → Nat → Nat → Nat) (lq : Nat) (c : Cand) (i : Nat) (st : FCState) (s l a e : Nat)
    (hm : st.maxe = some e) (h : e < s) : fcUpdate wm lq c i st s l a = st := by
  have h1 : ¬ s < e := by omega
  have h2 : ¬ (e = s) := by omega
  simp [fcUpdate, hm, h1, h2]

/-- `fcUpdate` only looks at the length of the candidate -/
theorem fcUpdate_len (wm : Nat → Nat → Nat → Nat) (lq : Nat) (c c' : Cand) (hl : c.len = c'.len) (i : Nat)
    (st : FCState) (s l a : Nat) : fcUpdate wm lq c i st s l a = fcUpdate wm lq c' i st s l a := by
  simp only [fcUpdate, hl]

/-! ## 3. the loops -/

/-- the scan of `FindClosests` with the verbatim kernels = the scan of the model, from any state, on any buffer -/
theorem fcLoopV_refines (wm : Nat → Nat → Nat → Nat) (v : Variant) (q : Bytes) (refs : Nat → Bytes) (cw : Nat → Nat)
    (hq : IsACGT q) (hcw : ∀ i, cw i = common4 q (refs i)) :
    ∀ (rest : List Nat) (st : FCState) (buf : Array UInt64),
      (∀ i ∈ rest, IsACGT (refs i) ∧ q.length + (refs i).length + 1 ≤ 30000) →
      ∃ buf', fcLoopV wm v q refs cw rest st buf =
        .ok (fcLoop wm v q.length (fun i => candOf q (refs i)) rest st, buf') := by
  intro rest
  induction rest with
  | nil => intro st buf _; exact ⟨buf, rfl⟩
  | cons i rest ih =>
    intro st buf hr
    have hr' : ∀ j ∈ rest, IsACGT (refs j) ∧ q.length + (refs j).length + 1 ≤ 30000 :=
      fun j hj => hr j (List.mem_cons_of_mem _ hj)
    obtain ⟨hri, hli⟩ := hr i List.mem_cons_self
    unfold fcLoopV fcLoop
    have hcwi : (candOf q (refs i)).cw = cw i := by rw [hcw]; simp only [candOf]
    simp only [hcwi]
    by_cases hbrk : cw i < st.wordmin
    · simp only [hbrk, if_true]; exact ⟨buf, rfl⟩
    · simp only [hbrk, if_false]
      obtain ⟨X, buf1, hX, hrel⟩ := fcCompareV_spec v q (refs i) hq hri hli st.maxe buf
      rw [hX]
      rcases hrel with e | ⟨hY, e, s, l, a, hm, hXs, hlt⟩
      · subst e
        cases hc : fcCompare v q.length (candOf q (refs i)) st.maxe with
        | none => simp only; exact ih st buf1 hr'
        | some p =>
          obtain ⟨s, l, a⟩ := p
          simp only
          rw [fcUpdate_len wm q.length ⟨(refs i).length, cw i, l, a⟩ (candOf q (refs i)) rfl]
          exact ih _ buf1 hr'
      · subst hXs
        rw [hY]
        simp only
        rw [fcUpdate_far wm q.length _ i st s l a e hm hlt]
        exact ih st buf1 hr'

/-- **`FindClosests` with the verbatim kernels** (`FastLCSEGFScoreByte` on the shared scratch buffer, `D1Or0`,
byte comparison) never panics inside a kernel and returns what `findClosests` returns on `candOf`: query and
references over `a c g t`, `|q| + |r| < 30000`; any candidate order -/
theorem findClosestsV_refines (v : Variant) (q : Bytes) (refs : Nat → Bytes) (o : List Nat) (hq : IsACGT q)
    (hr : ∀ i ∈ o, IsACGT (refs i) ∧ q.length + (refs i).length + 1 ≤ 30000) :
    findClosestsV v q refs o = .ok (findClosests v q.length (fun i => candOf q (refs i)) o) := by
  cases o with
  | nil => rfl
  | cons o0 rest =>
    unfold findClosestsV findClosests findClosestsWith
    simp only
    obtain ⟨buf', h⟩ := fcLoopV_refines wmNew v q refs
      (fun i => common4mer (Kmer.count4mer q) (Kmer.count4mer (refs i))) hq (fun _ => by unfold common4; rfl) (o0 :: rest)
      { maxe := none, wordmin := 0, bestidxs := [], bestId := (0, 1), bestmatch := o0 } #[] hr
    rw [h]
    rfl

/-- `errs` with the verbatim kernels updates `mini` as the reading of the model does -/
theorem ixErrsV_spec (s r : Bytes) (hs : IsACGT s) (hr : IsACGT r) (hlen : s.length + r.length + 1 ≤ 30000)
    (mini : Option Nat) (buf : Array UInt64) :
    ∃ E buf', ixErrsV s r mini buf = .ok (E, buf') ∧ ixMin E mini = ixMin (ixErrs (candOf s r) mini) mini := by
  unfold ixErrsV
  by_cases h1 : mini = some 0 ∨ mini = some 1
  · simp only [h1, if_true]
    obtain ⟨h0, hz, ho, hc⟩ := d1or0_acgt s r hs hr
    rw [h0]
    refine ⟨_, buf, rfl, ?_⟩
    congr 1
    have hm : ixErrs (candOf s r) mini = Tag.d1or0 (candOf s r) := by
      rcases h1 with e | e <;> subst e <;> simp [ixErrs]
    rw [hm]
    simp only [Tag.d1or0]
    rcases hc with h | h | h
    · rw [h, hz.1 h]; simp
    · rw [h, ho.1 h]; simp
    · have hd : ¬ (candOf s r).dist ≤ 1 := by
        intro hle
        have : (candOf s r).dist = 0 ∨ (candOf s r).dist = 1 := by omega
        rcases this with e | e
        · have := hz.2 e; omega
        · have := ho.2 e; omega
      rw [h]; simp [hd]
  · simp only [h1, if_false]
    obtain ⟨X, buf', hX, hrel⟩ := lcsCallV_spec s r hlen mini buf
    rw [hX]
    refine ⟨_, buf', rfl, ?_⟩
    have hY : ixErrs (candOf s r) mini = (match mini with
        | none => some ((candOf s r).dist, (candOf s r).lcs, (candOf s r).ali)
        | some e => (boundedLCS (candOf s r) e).map (fun (la : Nat × Nat) => (la.2 - la.1, la.1, la.2))).map
          (fun (x : Nat × Nat × Nat) => x.1) := by
      cases mini with
      | none => rfl
      | some m =>
        have : ¬ m ≤ 1 := by
          intro hle
          have : m = 0 ∨ m = 1 := by omega
          rcases this with e | e <;> subst e <;> simp at h1
        simp only [ixErrs, this, if_false]
        cases boundedLCS (candOf s r) m <;> rfl
    rcases hrel with e | ⟨hn, e, s', l', a', hm, hXs, hlt⟩
    · rw [hY, e]
    · rw [hY, hn, hXs, hm]
      have : ¬ s' < e := by omega
      simp [ixMin, this]

/-- the inner scan of `IndexSequence` with the verbatim kernels = the inner scan of the model -/
theorem ixInnerV_refines (thr : Nat → Nat → Nat → Int) (s : Bytes) (refs : Nat → Bytes) (cw : Nat → Nat)
    (anc : Nat → Nat) (a : Nat) (hs : IsACGT s) (hcw : ∀ j, cw j = common4 s (refs j)) :
    ∀ (rest : List Nat) (st : IxState) (buf : Array UInt64),
      (∀ j ∈ rest, IsACGT (refs j) ∧ s.length + (refs j).length + 1 ≤ 30000) →
      ∃ buf', ixInnerV thr s refs cw anc a rest st buf =
        .ok (ixInner thr s.length (fun j => candOf s (refs j)) anc a rest st, buf') := by
  intro rest
  induction rest with
  | nil => intro st buf _; exact ⟨buf, rfl⟩
  | cons j rest ih =>
    intro st buf hr
    have hr' : ∀ k ∈ rest, IsACGT (refs k) ∧ s.length + (refs k).length + 1 ≤ 30000 :=
      fun k hk => hr k (List.mem_cons_of_mem _ hk)
    obtain ⟨hrj, hlj⟩ := hr j List.mem_cons_self
    unfold ixInnerV ixInner
    have hcwj : (candOf s (refs j)).cw = cw j := by rw [hcw]; simp only [candOf]
    have hlenj : (candOf s (refs j)).len = (refs j).length := rfl
    simp only [hcwj, hlenj]
    by_cases ha : anc j = a
    · simp only [ha, if_true]
      obtain ⟨E, buf1, hE, hmin⟩ := ixErrsV_spec s (refs j) hs hrj hlj st.mini buf
      rw [hE]
      cases hmi : st.mini with
      | none =>
        rw [hmi] at hmin
        simp only
        by_cases hb : ((cw j : Nat) : Int) < st.wordmin
        · simp only [hb, if_true]; exact ⟨buf, rfl⟩
        · simp only [hb, if_false]
          rw [hmin]
          exact ih _ buf1 hr'
      | some m =>
        rw [hmi] at hmin
        simp only
        by_cases hb : ((cw j : Nat) : Int) < thr s.length (refs j).length m
        · simp only [hb, if_true]; exact ⟨buf, rfl⟩
        · simp only [hb, if_false]
          rw [hmin]
          exact ih _ buf1 hr'
    · simp only [ha, if_false]
      exact ih st buf hr'

theorem ixOuterV_refines (thr : Nat → Nat → Nat → Int) (s : Bytes) (refs : Nat → Bytes) (cw : Nat → Nat)
    (anc : Nat → Nat) (ow : List Nat) (hs : IsACGT s) (hcw : ∀ j, cw j = common4 s (refs j))
    (hr : ∀ j ∈ ow, IsACGT (refs j) ∧ s.length + (refs j).length + 1 ≤ 30000) :
    ∀ (as : List Nat) (st : IxState) (buf : Array UInt64),
      ixOuterV thr s refs cw anc ow as st buf =
        .ok (ixOuter thr s.length (fun j => candOf s (refs j)) anc ow as st) := by
  intro as
  induction as with
  | nil => intro st buf; rfl
  | cons a as ih =>
    intro st buf
    unfold ixOuterV ixOuter
    obtain ⟨buf', h⟩ := ixInnerV_refines thr s refs cw anc a hs hcw ow st buf hr
    rw [h]
    simp only
    rw [ih]

/-- **`IndexSequence` with the verbatim kernels** never panics inside a kernel and returns what `indexSequence`
returns on `candOf`: references over `a c g t`, `|s| + |r| < 30000`; any candidate order, any taxonomy -/
theorem indexSequenceV_refines (t : Tax.Taxo) (fuel : Nat) (taxids : List Nat) (seqidx : Nat) (refs : Nat → Bytes)
    (ow : List Nat) (hs : IsACGT (refs seqidx))
    (hr : ∀ j ∈ ow, IsACGT (refs j) ∧ (refs seqidx).length + (refs j).length + 1 ≤ 30000) :
    indexSequenceV t fuel taxids seqidx refs ow =
      .ok (indexSequence t fuel taxids seqidx (refs seqidx).length (fun j => candOf (refs seqidx) (refs j)) ow) := by
  unfold indexSequenceV indexSequence
  simp only
  cases lcaAll t fuel (taxids.getD seqidx 0) taxids with
  | error e => rfl
  | ok lcas =>
    simp only
    cases Tax.path t fuel (taxids.getD seqidx 0) with
    | error e => rfl
    | ok p =>
      simp only
      rw [ixOuterV_refines thrNew (refs seqidx) refs _ _ ow hs (fun _ => by unfold common4; rfl) hr]
      rfl

/-- **`Identify` / `FindClosests` + `BestConsensus` with every kernel call verbatim** = `identify` on `candOf` -/
theorem identifyV_refines (t : Tax.Taxo) (fuel : Nat) (v : Variant) (q : Bytes) (refs : Nat → Bytes)
    (taxids : List Nat) (o : List Nat) (ows : Nat → List Nat) (hq : IsACGT q)
    (hr : ∀ i ∈ o, IsACGT (refs i) ∧ q.length + (refs i).length + 1 ≤ 30000)
    (hrr : ∀ b, IsACGT (refs b) ∧ ∀ j ∈ ows b, IsACGT (refs j) ∧ (refs b).length + (refs j).length + 1 ≤ 30000) :
    identifyV t fuel v q refs taxids o ows =
      identify t fuel (findClosests v q.length (fun i => candOf q (refs i)) o)
        (fun b => indexSequence t fuel taxids b (refs b).length (fun j => candOf (refs b) (refs j)) (ows b)) := by
  unfold identifyV
  rw [findClosestsV_refines v q refs o hq hr]
  simp only
  congr 1
  funext b
  rw [indexSequenceV_refines t fuel taxids b refs (ows b) (hrr b).1 (hrr b).2]

end ObiVerif.Tag
