import ObiVerif.Lemmas.CleanAnnot
import ObiVerif.Lemmas.CleanDist
/-! lemmas on the data-set layer of the obiclean model (property C13): which records are nodes of which sample -/
namespace ObiVerif.Clean

/-- the nodes `cleanSample` returns are the sample in stable count order -/
theorem cleanSample_nodes (K : Kernels) (cfg : Config) (sample : List Node) (outs : List Out)
    (h : cleanSample K cfg sample = .ok outs) : outs.map (·.node) = sortByCount sample := by
  obtain ⟨hlen, _, _, hall⟩ := finish_edges_weight cfg (sortByCount sample).toArray _ _ _ _
    (by simp [edges1]) (by simp [edges2]) outs h
  apply List.ext_getElem?
  intro i
  rw [List.getElem?_map]
  by_cases hi : i < outs.length
  · have hi' : i < (sortByCount sample).length := by
      have : outs.length = (sortByCount sample).length := by simpa using hlen
      omega
    obtain ⟨_, hn, _⟩ := hall i outs[i] (List.getElem?_eq_getElem hi)
    rw [List.getElem?_eq_getElem hi, List.getElem?_eq_getElem hi', Option.map_some, hn]
    simp [Array.getD, hi']
  · have hi' : ¬ i < (sortByCount sample).length := by
      have : outs.length = (sortByCount sample).length := by simpa using hlen
      omega
    rw [List.getElem?_eq_none (by omega), List.getElem?_eq_none (by omega)]
    rfl

/-- record `i` is a node of sample `name` exactly when its `merged_sample` map has the key `name` -/
theorem sampleOf_has (db : List Rec) (name i : Nat) (r : Rec) (hi : db[i]? = some r) :
    (∃ nd ∈ sampleOf db name, nd.orig = i) ↔ r.counts.any (fun kv => kv.1 == name) = true := by
  unfold sampleOf
  constructor
  · rintro ⟨nd, hm, ho⟩
    obtain ⟨⟨r', i'⟩, hz, hv⟩ := List.mem_filterMap.1 hm
    have hg := List.mem_zipIdx_iff_getElem?.1 hz
    cases hf : r'.counts.find? (fun kv => kv.1 == name) with
    | none => simp [hf] at hv
    | some kv =>
      simp only [hf, Option.map_some, Option.some.injEq] at hv
      subst hv
      simp only at ho
      subst ho
      simp only at hg
      rw [hi] at hg
      cases hg
      rw [List.any_eq_true]
      exact ⟨kv, List.mem_of_find?_eq_some hf, List.find?_some (p := fun (kv : Nat × Nat) => kv.1 == name) hf⟩
  · intro ha
    obtain ⟨kv, hkv, hp⟩ := List.any_eq_true.1 ha
    have hs : (r.counts.find? (fun kv => kv.1 == name)).isSome = true := List.find?_isSome.2 ⟨kv, hkv, hp⟩
    obtain ⟨kv', hf⟩ := Option.isSome_iff_exists.1 hs
    refine ⟨{ orig := i, count := kv'.2, seq := r.seq }, List.mem_filterMap.2 ⟨(r, i), ?_, ?_⟩, rfl⟩
    · exact List.mem_zipIdx_iff_getElem?.2 hi
    · simp [hf]

theorem mapM_option_countP {α β : Type} (f : α → Option β) (P : α → Bool) (Q : β → Bool) :
    ∀ (l : List α) (res : List β), l.mapM f = some res → (∀ a ∈ l, ∀ b, f a = some b → Q b = P a) →
      res.countP Q = l.countP P := by
  intro l
  induction l with
  | nil => intro res h _; simp [List.mapM_nil] at h; subst h; rfl
  | cons x xs ih =>
    intro res h hq
    rw [List.mapM_cons] at h
    cases hx : f x with
    | none => rw [hx] at h; cases h
    | some b =>
      cases hxs : xs.mapM f with
      | none => rw [hx, hxs] at h; cases h
      | some bs =>
        rw [hx, hxs] at h
        have : res = b :: bs := by cases h; rfl
        subst this
        rw [List.countP_cons, List.countP_cons, hq x List.mem_cons_self b hx,
          ih bs hxs (fun a ha b' hb => hq a (List.mem_cons_of_mem _ ha) b' hb)]

/-- the number of samples of which record `i` is a node, in the results of `runSamples` -/
theorem mineOf_length (K : Kernels) (cfg : Config) (db : List Rec) (res : List (Nat × List Out))
    (h : runSamples (fun _ s => cleanSample K cfg s) db = some res) (i : Nat) (r : Rec) (hi : db[i]? = some r) :
    (mineOf res i).length =
      ((sampleNames db).filter (fun name => r.counts.any (fun kv => kv.1 == name))).length := by
  unfold mineOf
  rw [List.length_filterMap_eq_countP, ← List.countP_eq_length_filter]
  unfold runSamples at h
  refine mapM_option_countP _ _ _ _ _ h ?_
  intro name _ b hb
  split at hb
  · rename_i outs ho
    cases hb
    simp only [Option.isSome_map]
    have hnodes := cleanSample_nodes K cfg (sampleOf db name) outs ho
    have hiff : (∃ o ∈ outs, o.node.orig = i) ↔ ∃ nd ∈ sampleOf db name, nd.orig = i := by
      constructor
      · rintro ⟨o, hm, ho'⟩
        have : o.node ∈ sortByCount (sampleOf db name) := by rw [← hnodes]; exact List.mem_map.2 ⟨o, hm, rfl⟩
        exact ⟨o.node, (sortByCount_perm _).mem_iff.1 this, ho'⟩
      · rintro ⟨nd, hm, ho'⟩
        have : nd ∈ outs.map (·.node) := by rw [hnodes]; exact (sortByCount_perm _).mem_iff.2 hm
        obtain ⟨o, hom, rfl⟩ := List.mem_map.1 this
        exact ⟨o, hom, ho'⟩
    rw [Bool.eq_iff_iff, List.find?_isSome, ← sampleOf_has db name i r hi, ← hiff]
    constructor
    · rintro ⟨o, hm, hp⟩; exact ⟨o, hm, by simpa using hp⟩
    · rintro ⟨o, hm, hp⟩; exact ⟨o, hm, by simpa using hp⟩
  · cases hb

/-! ## `sampleNames` has no duplicate -/

theorem eraseDups_nodup : ∀ (n : Nat) (l : List Nat), l.length ≤ n → l.eraseDups.Nodup := by
  intro n
  induction n with
  | zero => intro l hl; cases l with
    | nil => simp
    | cons _ _ => simp at hl
  | succ n ih =>
    intro l hl
    cases l with
    | nil => simp
    | cons a as =>
      rw [List.eraseDups_cons, List.nodup_cons]
      refine ⟨fun hm => ?_, ih _ (Nat.le_trans (List.length_filter_le _ _) (by simpa using hl))⟩
      have := (List.mem_filter.1 (List.mem_eraseDups.1 hm)).2
      simp at this

theorem insertNat_perm (a : Nat) (l : List Nat) : (insertNat a l).Perm (a :: l) := by
  induction l with
  | nil => exact List.Perm.refl _
  | cons y ys ih =>
    simp only [insertNat]
    split
    · exact List.Perm.refl _
    · exact ((List.Perm.cons y ih).trans (List.Perm.swap a y ys))

theorem foldr_insertNat_perm (l : List Nat) : (l.foldr insertNat []).Perm l := by
  induction l with
  | nil => exact List.Perm.refl _
  | cons x xs ih => exact (insertNat_perm x _).trans (List.Perm.cons x ih)

theorem sampleNames_nodup (db : List Rec) : (sampleNames db).Nodup :=
  (foldr_insertNat_perm _).nodup_iff.2 (eraseDups_nodup _ _ (Nat.le_refl _))

theorem mem_sampleNames (db : List Rec) (name : Nat) :
    name ∈ sampleNames db ↔ ∃ r ∈ db, ∃ kv ∈ r.counts, kv.1 = name := by
  unfold sampleNames
  rw [(foldr_insertNat_perm _).mem_iff, List.mem_eraseDups, List.mem_flatMap]
  constructor
  · rintro ⟨r, hr, hm⟩
    obtain ⟨kv, hkv, rfl⟩ := List.mem_map.1 hm
    exact ⟨r, hr, kv, hkv, rfl⟩
  · rintro ⟨r, hr, kv, hkv, rfl⟩
    exact ⟨r, hr, List.mem_map.2 ⟨kv, hkv, rfl⟩⟩

/-- when the keys of the `merged_sample` map of a record are distinct (a Go map), the samples of the data set in which
it has a count are as many as its entries -/
theorem samples_of_record_length (db : List Rec) (i : Nat) (r : Rec) (hi : db[i]? = some r)
    (hk : (r.counts.map (·.1)).Nodup) :
    ((sampleNames db).filter (fun name => r.counts.any (fun kv => kv.1 == name))).length = r.counts.length := by
  have hp : ((sampleNames db).filter (fun name => r.counts.any (fun kv => kv.1 == name))).Perm (r.counts.map (·.1)) := by
    rw [List.perm_ext_iff_of_nodup ((sampleNames_nodup db).sublist List.filter_sublist) hk]
    intro a
    rw [List.mem_filter, List.any_eq_true, mem_sampleNames, List.mem_map]
    constructor
    · rintro ⟨_, kv, hkv, hp⟩; exact ⟨kv, hkv, by simpa using hp⟩
    · rintro ⟨kv, hkv, rfl⟩
      exact ⟨⟨r, List.mem_of_getElem? hi, kv, hkv, rfl⟩, kv, hkv, by simp⟩
  rw [hp.length_eq, List.length_map]

end ObiVerif.Clean
