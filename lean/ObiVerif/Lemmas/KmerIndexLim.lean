import ObiVerif.Lemmas.KmerIndex
/-!
# The k-mer index with an occurrence limit, and `Query` of a sequence that is itself in the index (C19)

* `idxGet_newIndex_lim`: `NewKmerMap(refs, k, sparse, M)` with `M ≥ 0` keeps **exactly** the canonical k-mers whose
  total number of occurrences in the references (with multiplicity) is below `M`, with their complete lists
  (`Push` stops appending at `M + 1` entries, the final pass deletes the lists of `M` entries or more);
* `kmQuery_general`: `Query` on any index: sequence `j` is reported iff `j` is not the query sequence and occurs
  in the lists of the canonical k-mers of the query, with its number of occurrences plus one — for every
  injective address rank (so the answer does not depend on the addresses);
* `kmQuery_any` / `kmQuery_lim`: the two instances (no limit / limit `M`), the query being a reference or not.
-/
set_option Elab.async false
namespace ObiVerif.Kmer

/-! ## lists -/

theorem take_append_take {α : Type} (n : Nat) (l r : List α) : (l.take n ++ r).take n = (l ++ r).take n := by
  by_cases h : l.length ≤ n
  · rw [List.take_of_length_le h]
  · have h1 : (l.take n).length = n := by rw [List.length_take]; omega
    rw [List.take_append_of_le_length (by omega), List.take_append_of_le_length (by omega), List.take_take]
    simp

theorem lookup_filter_nodup' {β : Type} (nodes : List (Nat × β)) (hn : (nodes.map Prod.fst).Nodup)
    (f : Nat × β → Bool) (x : Nat) :
    (nodes.filter f).lookup x = match nodes.lookup x with
      | some v => if f (x, v) then some v else none
      | none => none := by
  induction nodes with
  | nil => simp
  | cons a t ih =>
    obtain ⟨y, v⟩ := a
    simp only [List.map_cons, List.nodup_cons] at hn
    by_cases h : x = y
    · subst h
      have hnone : t.lookup x = none := by
        rw [List.lookup_eq_none_iff]
        intro p hp
        rw [bne_iff_ne]
        intro e; apply hn.1; rw [e]; exact List.mem_map.mpr ⟨p, hp, rfl⟩
      have hnone' : (t.filter f).lookup x = none := by
        rw [List.lookup_eq_none_iff]
        intro p hp
        rw [bne_iff_ne]
        intro e; apply hn.1; rw [e]; exact List.mem_map.mpr ⟨p, (List.mem_filter.mp hp).1, rfl⟩
      simp only [List.lookup, beq_self_eq_true]
      by_cases hf : f (x, v) = true
      · simp [List.filter, hf]
      · have hf' : f (x, v) = false := by simpa using hf
        simp [List.filter, hf', hnone']
    · have hb : (x == y) = false := by simp [h]
      simp only [List.lookup, hb]
      rw [← ih hn.2]
      by_cases hf : f (y, v) = true
      · simp [List.filter, hf, List.lookup, hb]
      · have hf' : f (y, v) = false := by simpa using hf
        simp [List.filter, hf']

/-! ## the keys of the index stay distinct (it is a Go map) -/

theorem keys_idxSet (m : Index) (x : Nat) (v : List Nat) (y : Nat) (h : y ∈ (idxSet m x v).map Prod.fst) :
    y = x ∨ y ∈ m.map Prod.fst := by
  induction m with
  | nil => simp [idxSet] at h; exact Or.inl h
  | cons p t ih =>
    obtain ⟨z, u⟩ := p
    unfold idxSet at h
    by_cases e : z = x
    · simp only [e, if_true, List.map_cons, List.mem_cons] at h
      rcases h with h | h
      · exact Or.inl h
      · right; simp [h]
    · simp only [e, if_false, List.map_cons, List.mem_cons] at h
      rcases h with h | h
      · right; simp [h]
      · rcases ih h with h | h
        · exact Or.inl h
        · right; simp [h]

theorem idxSet_nodup (m : Index) (x : Nat) (v : List Nat) (h : (m.map Prod.fst).Nodup) :
    ((idxSet m x v).map Prod.fst).Nodup := by
  induction m with
  | nil => simp [idxSet]
  | cons p t ih =>
    obtain ⟨z, u⟩ := p
    simp only [List.map_cons, List.nodup_cons] at h
    unfold idxSet
    by_cases e : z = x
    · simp only [e, if_true, List.map_cons, List.nodup_cons]; rw [← e]; exact h
    · simp only [e, if_false, List.map_cons, List.nodup_cons]
      refine ⟨?_, ih h.2⟩
      intro hm
      rcases keys_idxSet t x v z hm with h1 | h1
      · exact e h1
      · exact h.1 h1

theorem kmPush_nodup (m : KmerMap) (maxocc : Int) (idx : Index) (id : Nat) (s : Bytes)
    (h : (idx.map Prod.fst).Nodup) : ((kmPush m maxocc idx id s).map Prod.fst).Nodup := by
  unfold kmPush
  generalize normalizedKmerSlice m s = kmers
  induction kmers generalizing idx with
  | nil => exact h
  | cons k t ih =>
    simp only [List.foldl_cons]
    apply ih
    split
    · exact idxSet_nodup idx k _ h
    · exact h

theorem kmPushAll_nodup (m : KmerMap) (maxocc : Int) (refs : List Bytes) : ∀ (idx : Index) (i : Nat),
    (idx.map Prod.fst).Nodup → ((kmPushAll m maxocc idx i refs).map Prod.fst).Nodup := by
  induction refs with
  | nil => intro idx i h; exact h
  | cons s t ih => intro idx i h; exact ih _ _ (kmPush_nodup m maxocc idx i s h)

/-! ## `Push` with an occurrence limit `M ≥ 0` -/

theorem foldl_push_get_lim (M id : Nat) (kmers : List Nat) : ∀ (idx : Index) (x : Nat),
    (idxGet idx x).length ≤ M + 1 →
    idxGet (kmers.foldl (fun idx kmer =>
      if ((M : Nat) : Int) = -1 ∨ ((idxGet idx kmer).length : Int) ≤ ((M : Nat) : Int)
      then idxSet idx kmer (idxGet idx kmer ++ [id]) else idx) idx) x
      = (idxGet idx x ++ List.replicate (kmers.count x) id).take (M + 1) := by
  induction kmers with
  | nil => intro idx x h; simp [List.take_of_length_le h]
  | cons k t ih =>
    intro idx x hlen
    simp only [List.foldl_cons]
    by_cases hc : (idxGet idx k).length ≤ M
    · have hcond : ((M : Nat) : Int) = -1 ∨ ((idxGet idx k).length : Int) ≤ ((M : Nat) : Int) := Or.inr (by omega)
      rw [if_pos hcond]
      have hget : idxGet (idxSet idx k (idxGet idx k ++ [id])) x =
          if x = k then idxGet idx k ++ [id] else idxGet idx x := idxGet_idxSet idx k _ x
      have hlen' : (idxGet (idxSet idx k (idxGet idx k ++ [id])) x).length ≤ M + 1 := by
        rw [hget]; split
        · simp; omega
        · exact hlen
      rw [ih _ x hlen', hget]
      by_cases h : x = k
      · subst h
        simp [List.replicate_succ]
      · have h' : ¬ k = x := fun e => h e.symm
        have hb : (k == x) = false := by simpa using h'
        simp [h, List.count_cons, hb]
    · have hcond : ¬ (((M : Nat) : Int) = -1 ∨ ((idxGet idx k).length : Int) ≤ ((M : Nat) : Int)) := by omega
      rw [if_neg hcond, ih idx x hlen]
      by_cases h : x = k
      · subst h
        -- the list is full: nothing more is kept
        have hfull : (idxGet idx x).length = M + 1 := by omega
        rw [List.take_append_of_le_length (by omega), List.take_append_of_le_length (by omega)]
      · have h' : ¬ k = x := fun e => h e.symm
        have hb : (k == x) = false := by simpa using h'
        simp [List.count_cons, hb]

theorem kmPush_get_lim (m : KmerMap) (M : Nat) (idx : Index) (id : Nat) (s : Bytes) (x : Nat)
    (h : (idxGet idx x).length ≤ M + 1) :
    idxGet (kmPush m (M : Int) idx id s) x =
      (idxGet idx x ++ List.replicate ((normalizedKmerSlice m s).count x) id).take (M + 1) := by
  unfold kmPush
  exact foldl_push_get_lim M id _ idx x h

theorem kmPushAll_get_lim (m : KmerMap) (M : Nat) (x : Nat) (refs : List Bytes) : ∀ (idx : Index) (i : Nat),
    (idxGet idx x).length ≤ M + 1 →
    idxGet (kmPushAll m (M : Int) idx i refs) x = (idxGet idx x ++ refOcc m x i refs).take (M + 1) := by
  induction refs with
  | nil => intro idx i h; simp [kmPushAll, refOcc, List.take_of_length_le h]
  | cons s t ih =>
    intro idx i h
    simp only [kmPushAll, refOcc]
    have hl : (idxGet (kmPush m (M : Int) idx i s) x).length ≤ M + 1 := by
      rw [kmPush_get_lim m M idx i s x h, List.length_take]; omega
    rw [ih _ _ hl, kmPush_get_lim m M idx i s x h, take_append_take, List.append_assoc]

/-- total number of occurrences of the canonical k-mer `x` in the references (with multiplicity) -/
def occTotal (m : KmerMap) (refs : List Bytes) (x : Nat) : Nat := (refOcc m x 0 refs).length

theorem length_refOcc (m : KmerMap) (x : Nat) (refs : List Bytes) : ∀ i,
    (refOcc m x i refs).length = (refs.map fun s => (normalizedKmerSlice m s).count x).sum := by
  induction refs with
  | nil => intro i; simp [refOcc]
  | cons s t ih => intro i; simp [refOcc, ih (i + 1)]

theorem occTotal_eq (m : KmerMap) (refs : List Bytes) (x : Nat) :
    occTotal m refs x = (refs.map fun s => (normalizedKmerSlice m s).count x).sum := length_refOcc m x refs 0

/-- **The index with an occurrence limit, exactly**: for `M ≥ 0`, `NewKmerMap(refs, k, sparse, M)` lists under the
k-mer `x` what the unlimited index lists when `x` occurs fewer than `M` times in the references, and nothing
otherwise (in particular the index is empty for `M = 0` and `M = 1`). -/
theorem idxGet_newIndex_lim (m : KmerMap) (M : Nat) (refs : List Bytes) (x : Nat) :
    idxGet (newIndex m (M : Int) refs) x = if occTotal m refs x < M then refOcc m x 0 refs else [] := by
  unfold newIndex
  have hge : ((M : Nat) : Int) ≥ 0 := by omega
  simp only [hge, if_true]
  have hnd := kmPushAll_nodup m (M : Int) refs [] 0 (by simp)
  have hget := kmPushAll_get_lim m M x refs [] 0 (by simp [idxGet])
  simp only [idxGet, List.lookup, Option.getD_none, List.nil_append] at hget
  unfold idxGet
  rw [lookup_filter_nodup' _ hnd]
  unfold occTotal
  generalize kmPushAll m (M : Int) [] 0 refs = idx at hget
  generalize refOcc m x 0 refs = r at hget
  cases hl : idx.lookup x with
  | none =>
    rw [hl] at hget
    simp only [Option.getD_none] at hget
    -- the unfiltered list is empty: so is `r.take (M+1)`, hence `r`
    have : r = [] := by
      cases r with
      | nil => rfl
      | cons a t => simp at hget
    simp [this]
  | some v =>
    rw [hl] at hget
    simp only [Option.getD_some] at hget
    simp only []
    by_cases hr : r.length < M
    · have hv : v = r := by rw [hget]; exact List.take_of_length_le (by omega)
      have : ¬ ((v.length : Int) ≥ (M : Int)) := by rw [hv]; omega
      simp [hr, hv]
    · have hvl : v.length ≥ M := by rw [hget, List.length_take]; omega
      have : ((v.length : Int) ≥ (M : Int)) := by omega
      simp [this, hr]

/-! ## `Query` on any index -/

theorem count_flatMap' (f : Nat → List Nat) (j : Nat) (l : List Nat) :
    (l.flatMap f).count j = (l.map fun x => (f x).count j).sum := by
  induction l with
  | nil => simp
  | cons a t ih => rw [List.flatMap_cons, List.count_append, ih]; simp

/-- **`Query`, on any index and for any query sequence** (reference or not): `j` is reported iff it is not the
query sequence and occurs in the lists of the canonical k-mers of the query; the number reported is its number of
occurrences there plus one.  `rank` (the address order used by `sort.Slice`) only needs to be injective on the
sequences of the index: the answer does not depend on it. -/
theorem kmQuery_general (m : KmerMap) (idx : Index) (q : Bytes) (rank : Nat → Nat) (qid N : Nat)
    (hlt : ∀ x, ∀ i ∈ idxGet idx x, i < N)
    (hinj : ∀ a b, a < N → b < N → rank a = rank b → a = b) (j : Nat) :
    (kmQuery m idx rank qid q).lookup j =
      if 0 < ((normalizedKmerSlice m q).map fun x => (idxGet idx x).count j).sum ∧ j ≠ qid
      then some (((normalizedKmerSlice m q).map fun x => (idxGet idx x).count j).sum + 1) else none := by
  unfold kmQuery
  rw [← count_flatMap' (fun x => idxGet idx x) j]
  generalize hseqs : ((normalizedKmerSlice m q).flatMap fun kmer => idxGet idx kmer) = seqs
  have hlt' : ∀ i, i ∈ seqs → i < N := by
    intro i hi
    rw [← hseqs] at hi
    obtain ⟨x, _, hx⟩ := List.mem_flatMap.mp hi
    exact hlt x i hx
  have hperm := sortRank_perm rank seqs
  have hmem : ∀ i, i ∈ sortRank rank seqs ↔ i ∈ seqs := fun i => hperm.mem_iff
  have key := scan_general qid rank (sortRank rank seqs) (sortRank_sorted rank seqs)
    (fun a b ha hb e => hinj a b (hlt' a ((hmem a).1 ha)) (hlt' b ((hmem b).1 hb)) e) j
  dsimp only
  rw [key, hperm.count_eq j]
  by_cases hj : j ∈ seqs
  · have h1 : 0 < seqs.count j := List.count_pos_iff.2 hj
    have h2 : j ∈ sortRank rank seqs := (hmem j).2 hj
    simp [h1, h2]
  · have h1 : ¬ 0 < seqs.count j := by rw [List.count_pos_iff]; exact hj
    have h2 : j ∉ sortRank rank seqs := fun h => hj ((hmem j).1 h)
    simp [h1, h2]

theorem mem_refOcc_lt (m : KmerMap) (x : Nat) (refs : List Bytes) (i : Nat) (h : i ∈ refOcc m x 0 refs) :
    i < refs.length := by
  have := List.count_pos_iff.2 h
  rw [count_refOcc] at this
  by_cases hh : 0 ≤ i ∧ i < 0 + refs.length
  · omega
  · rw [if_neg hh] at this; omega

/-- **`Query` without occurrence limit, the query being a reference or not**: reference `j` is reported iff it is
not the query sequence and shares a canonical k-mer occurrence with the query; the number reported is `shared + 1`. -/
theorem kmQuery_any (m : KmerMap) (refs : List Bytes) (q : Bytes) (rank : Nat → Nat) (qid : Nat)
    (hinj : ∀ a b, a < refs.length → b < refs.length → rank a = rank b → a = b) (j : Nat) :
    (kmQuery m (newIndex m (-1) refs) rank qid q).lookup j =
      if j < refs.length ∧ j ≠ qid ∧ 0 < shared m refs q j then some (shared m refs q j + 1) else none := by
  rw [kmQuery_general m _ q rank qid refs.length
    (fun x i hi => mem_refOcc_lt m x refs i (by rw [idxGet_newIndex] at hi; exact hi)) hinj j]
  have e : ((normalizedKmerSlice m q).map fun x => (idxGet (newIndex m (-1) refs) x).count j).sum =
      if j < refs.length then shared m refs q j else 0 := by
    rw [← count_flatMap' (fun x => idxGet (newIndex m (-1) refs) x) j]
    exact count_seqs m refs j _
  rw [e]
  by_cases hj : j < refs.length
  · simp only [hj, if_true, true_and]
    by_cases hq : j = qid
    · simp [hq]
    · by_cases hs : 0 < shared m refs q j
      · simp [hq, hs]
      · simp [hq, hs]
  · simp [hj]

/-- number of shared canonical k-mer occurrences, the k-mers occurring `M` times or more in the references being
ignored -/
def sharedLim (m : KmerMap) (M : Nat) (refs : List Bytes) (q : Bytes) (j : Nat) : Nat :=
  ((normalizedKmerSlice m q).map fun x =>
    if occTotal m refs x < M then (normalizedKmerSlice m (refs.getD j [])).count x else 0).sum

/-- **`Query` with an occurrence limit `M ≥ 0`, the query being a reference or not.** -/
theorem kmQuery_lim (m : KmerMap) (M : Nat) (refs : List Bytes) (q : Bytes) (rank : Nat → Nat) (qid : Nat)
    (hinj : ∀ a b, a < refs.length → b < refs.length → rank a = rank b → a = b) (j : Nat) :
    (kmQuery m (newIndex m (M : Int) refs) rank qid q).lookup j =
      if j < refs.length ∧ j ≠ qid ∧ 0 < sharedLim m M refs q j then some (sharedLim m M refs q j + 1) else none := by
  rw [kmQuery_general m _ q rank qid refs.length
    (fun x i hi => by
      rw [idxGet_newIndex_lim] at hi
      split at hi
      · exact mem_refOcc_lt m x refs i hi
      · cases hi) hinj j]
  have e : ((normalizedKmerSlice m q).map fun x => (idxGet (newIndex m (M : Int) refs) x).count j).sum =
      if j < refs.length then sharedLim m M refs q j else 0 := by
    have pt : ∀ x, (idxGet (newIndex m (M : Int) refs) x).count j =
        if j < refs.length then
          (if occTotal m refs x < M then (normalizedKmerSlice m (refs.getD j [])).count x else 0) else 0 := by
      intro x
      rw [idxGet_newIndex_lim]
      by_cases hj : j < refs.length
      · simp only [hj, if_true]
        split
        · rw [count_refOcc]; simp [hj]
        · simp
      · simp only [hj, if_false]
        split
        · rw [count_refOcc]; simp [hj]
        · simp
    unfold sharedLim
    by_cases hj : j < refs.length
    · simp only [pt, hj, if_true]
    · simp only [pt, hj, if_false]
      generalize normalizedKmerSlice m q = l
      induction l with
      | nil => rfl
      | cons a t ih => simp only [List.map_cons, List.sum_cons, ih]
  rw [e]
  by_cases hj : j < refs.length
  · simp only [hj, if_true, true_and]
    by_cases hq : j = qid
    · simp [hq]
    · by_cases hs : 0 < sharedLim m M refs q j
      · simp [hq, hs]
      · simp [hq, hs]
  · simp [hj]

theorem sharedLim_perm (m : KmerMap) (M : Nat) (refs : List Bytes) (q q' : Bytes) (j : Nat)
    (h : (normalizedKmerSlice m q').Perm (normalizedKmerSlice m q)) :
    sharedLim m M refs q' j = sharedLim m M refs q j := by
  unfold sharedLim
  exact (h.map _).sum_nat

end ObiVerif.Kmer
