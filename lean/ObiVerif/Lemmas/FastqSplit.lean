import ObiVerif.Model.Fastq
import ObiVerif.Lemmas.Chunk
import ObiVerif.Lemmas.Splitters
import ObiVerif.Lemmas.FastaGrammar
/-!
# FASTQ: what `EndOfLastFastqEntry` recognises, and why it is a record start

Part 1 (any buffer): a non-negative result of the backward state machine is the offset of an `@` that
follows an end-of-line byte and is followed by the text
`x EOL⁺ s sep* EOL '+'` with `x` free of end-of-line bytes and `s` a non-empty run of bytes of the
sequence alphabet (`FqPattern`, `splitFastq_ok_cut`).

Part 2 (parser): the byte machine `fqStep` can get through such a text without a fatal error only if
it was waiting for a record (state 11) at the `@`: from the "sequence expected" state 5 the line `s`
would have to start with `+`, from the "quality expected" state 9 it would have to start with `@`, and
state 7 does not accept `@` (`fqRun_cut`).  Hence chunks of a text that is read as a whole number of
records are whole numbers of records (`pieces_parse_fastq`).
-/
namespace ObiVerif.Parse
open ObiVerif.Chunk

def AllSeqChar (s : Seq) : Prop := ∀ c ∈ s, isSeqChar c = true
def AllSep (s : Seq) : Prop := ∀ c ∈ s, isSep c = true

/-- `'@' x EOL⁺ s sep* EOL '+' rest` -/
def FqPattern (b : Seq) : Prop :=
  ∃ x eols s seps e2 rest, b = 64 :: x ++ eols ++ s ++ seps ++ e2 :: 43 :: rest ∧
    NoEol x ∧ eols ≠ [] ∧ AllEol eols ∧ s ≠ [] ∧ AllSeqChar s ∧ AllSep seps ∧ isEol e2 = true

/-- emitted part ends with an end-of-line byte, carried-over part starts with the pattern -/
def FastqCut (a b : Seq) : Prop := (∃ a' e, a = a' ++ [e] ∧ isEol e = true) ∧ FqPattern b

/-! ## Part 1: the backward machine (lists are reversed buffers: head = highest offset) -/

def Rev5 (l : Seq) (cut' : Nat) : Prop :=
  ∃ x e l', l = x ++ 64 :: e :: l' ∧ NoEol x ∧ isEol e = true ∧ cut' = l'.length + 1
def Rev4 (l : Seq) (cut' : Nat) : Prop := ∃ eols r, l = eols ++ r ∧ AllEol eols ∧ Rev5 r cut'
def Rev3 (l : Seq) (cut' : Nat) : Prop :=
  ∃ s e r, l = s ++ e :: r ∧ AllSeqChar s ∧ isEol e = true ∧ Rev4 r cut'
def Rev2 (l : Seq) (cut' : Nat) : Prop :=
  ∃ seps c r, l = seps ++ c :: r ∧ AllSep seps ∧ isSeqChar c = true ∧ Rev3 r cut'
def Rev1 (l : Seq) (cut' : Nat) : Prop := ∃ e2 r, l = e2 :: r ∧ isEol e2 = true ∧ Rev2 r cut'

theorem noEol_nil : NoEol [] := by intro c hc; cases hc

theorem noEol_cons {c : UInt8} {x : Seq} (hc : isEol c = false) (hx : NoEol x) : NoEol (c :: x) := by
  intro y hy
  simp only [List.mem_cons] at hy
  rcases hy with rfl | hy
  · exact hc
  · exact hx y hy

theorem all_cons {p : UInt8 → Bool} {c : UInt8} {x : Seq} (hc : p c = true) (hx : ∀ y ∈ x, p y = true) :
    ∀ y ∈ c :: x, p y = true := by
  intro y hy
  simp only [List.mem_cons] at hy
  rcases hy with rfl | hy
  · exact hc
  · exact hx y hy

theorem fqTry_56 : ∀ (l : List UInt8) (cut cut' : Nat) (i : Int),
    (fqTry l 5 cut = .found cut' i → Rev5 l cut') ∧
    (fqTry l 6 cut = .found cut' i →
      (∃ e l', l = e :: l' ∧ isEol e = true ∧ cut' = cut) ∨ Rev5 l cut') := by
  intro l
  induction l with
  | nil => intro cut cut' i; constructor <;> (intro h; simp [fqTry] at h)
  | cons c rest ih =>
    intro cut cut' i
    constructor
    · intro h
      simp only [fqTry] at h
      split at h
      · cases h
      · rename_i hc
        have hc' : isEol c = false := by simpa using hc
        split at h
        · rename_i h64
          have h64' : c = 64 := by simpa using h64
          subst h64'
          rcases (ih rest.length cut' i).2 h with ⟨e, l', hl, he, hcut⟩ | ⟨x, e, l', hl, hx, he, hcut⟩
          · refine ⟨[], e, l', by rw [hl]; rfl, noEol_nil, he, ?_⟩
            rw [hcut, hl]; rfl
          · exact ⟨64 :: x, e, l', by rw [hl]; rfl, noEol_cons hc' hx, he, hcut⟩
        · obtain ⟨x, e, l', hl, hx, he, hcut⟩ := (ih cut cut' i).1 h
          exact ⟨c :: x, e, l', by rw [hl]; rfl, noEol_cons hc' hx, he, hcut⟩
    · intro h
      simp only [fqTry] at h
      split at h
      · rename_i hc
        simp only [FqTry.found.injEq] at h
        left
        exact ⟨c, rest, rfl, hc, h.1.symm⟩
      · rename_i hc
        have hc' : isEol c = false := by simpa using hc
        right
        obtain ⟨x, e, l', hl, hx, he, hcut⟩ := (ih cut cut' i).1 h
        exact ⟨c :: x, e, l', by rw [hl]; rfl, noEol_cons hc' hx, he, hcut⟩

theorem fqTry_4 : ∀ (l : List UInt8) (cut cut' : Nat) (i : Int),
    fqTry l 4 cut = .found cut' i → Rev4 l cut' := by
  intro l
  induction l with
  | nil => intro cut cut' i h; simp [fqTry] at h
  | cons c rest ih =>
    intro cut cut' i h
    simp only [fqTry] at h
    split at h
    · rename_i hc
      obtain ⟨eols, r, hl, he, hr⟩ := ih cut cut' i h
      exact ⟨c :: eols, r, by rw [hl]; rfl, all_cons hc he, hr⟩
    · rename_i hc
      have hc' : isEol c = false := by simpa using hc
      obtain ⟨x, e, l', hl, hx, he, hcut⟩ := (fqTry_56 rest cut cut' i).1 h
      exact ⟨[], c :: rest, rfl, allEol_nil, c :: x, e, l', by rw [hl]; rfl, noEol_cons hc' hx, he, hcut⟩

theorem fqTry_3 : ∀ (l : List UInt8) (cut cut' : Nat) (i : Int),
    fqTry l 3 cut = .found cut' i → Rev3 l cut' := by
  intro l
  induction l with
  | nil => intro cut cut' i h; simp [fqTry] at h
  | cons c rest ih =>
    intro cut cut' i h
    simp only [fqTry] at h
    split at h
    · rename_i hc
      exact ⟨[], c, rest, rfl, fun _ hy => absurd hy List.not_mem_nil, hc, fqTry_4 rest cut cut' i h⟩
    · split at h
      · rename_i hc
        obtain ⟨s, e, r, hl, hs, he, hr⟩ := ih cut cut' i h
        exact ⟨c :: s, e, r, by rw [hl]; rfl, all_cons hc hs, he, hr⟩
      · cases h

theorem fqTry_2 : ∀ (l : List UInt8) (cut cut' : Nat) (i : Int),
    fqTry l 2 cut = .found cut' i → Rev2 l cut' := by
  intro l
  induction l with
  | nil => intro cut cut' i h; simp [fqTry] at h
  | cons c rest ih =>
    intro cut cut' i h
    simp only [fqTry] at h
    split at h
    · rename_i hc
      obtain ⟨seps, c', r, hl, hs, hc2, hr⟩ := ih cut cut' i h
      exact ⟨c :: seps, c', r, by rw [hl]; rfl, all_cons hc hs, hc2, hr⟩
    · split at h
      · rename_i hc
        exact ⟨[], c, rest, rfl, fun _ hy => absurd hy List.not_mem_nil, hc, fqTry_3 rest cut cut' i h⟩
      · cases h

theorem fqTry_1 (l : List UInt8) (cut cut' : Nat) (i : Int)
    (h : fqTry l 1 cut = .found cut' i) : Rev1 l cut' := by
  cases l with
  | nil => simp [fqTry] at h
  | cons c rest =>
    simp only [fqTry] at h
    split at h
    · rename_i hc
      exact ⟨c, rest, rfl, hc, fqTry_2 rest cut cut' i h⟩
    · cases h

/-- a non-negative result of the state-0 search comes from a successful attempt below some `+` -/
theorem fqScan_found : ∀ (l : List UInt8) (cut : Nat), fqScan l = (cut : Int) →
    ∃ pre l1, l = pre ++ 43 :: l1 ∧ Rev1 l1 cut := by
  intro l
  induction l with
  | nil => intro cut h; simp only [fqScan] at h; omega
  | cons c rest ih =>
    intro cut h
    rw [fqScan] at h
    split at h
    · rename_i hc
      have hc' : c = 43 := by simpa using hc
      subst hc'
      cases htry : fqTry rest 1 0 with
      | found cut' i =>
        rw [htry] at h
        simp only at h
        split at h
        · omega
        · have : cut' = cut := by omega
          subst this
          exact ⟨[], rest, rfl, fqTry_1 rest 0 cut' i htry⟩
      | restart =>
        rw [htry] at h
        obtain ⟨pre, l1, hl, hr⟩ := ih cut h
        exact ⟨43 :: pre, l1, by rw [hl]; rfl, hr⟩
      | exhausted =>
        rw [htry] at h
        simp only at h
        omega
    · obtain ⟨pre, l1, hl, hr⟩ := ih cut h
      exact ⟨c :: pre, l1, by rw [hl]; rfl, hr⟩

theorem mem_rev_all {p : UInt8 → Bool} {x : Seq} (h : ∀ c ∈ x, p c = true) : ∀ c ∈ x.reverse, p c = true := by
  intro c hc; exact h c (List.mem_reverse.mp hc)

/-- the reversed shape, in file order -/
theorem rev1_forward {l : Seq} {cut : Nat} (h : Rev1 l cut) :
    ∃ a' e x eols s seps e2, l.reverse = (a' ++ [e]) ++ (64 :: x ++ eols ++ s ++ seps ++ [e2]) ∧
      (a' ++ [e]).length = cut ∧ isEol e = true ∧
      NoEol x ∧ eols ≠ [] ∧ AllEol eols ∧ s ≠ [] ∧ AllSeqChar s ∧ AllSep seps ∧ isEol e2 = true := by
  obtain ⟨e2, r1, rfl, he2, seps, c, r2, rfl, hseps, hc, s, e4, r3, rfl, hs, he4, eols, r4, rfl, heols,
    x, e, l', rfl, hx, he, hcut⟩ := h
  refine ⟨l'.reverse, e, x.reverse, eols.reverse ++ [e4], s.reverse ++ [c], seps.reverse, e2, ?_, ?_, he, ?_,
    by simp, ?_, by simp, ?_, mem_rev_all hseps, he2⟩
  · simp
  · simp [hcut]
  · intro y hy; exact hx y (List.mem_reverse.mp hy)
  · intro y hy
    simp only [List.mem_append, List.mem_reverse, List.mem_singleton] at hy
    rcases hy with hy | rfl
    · exact heols y hy
    · exact he4
  · intro y hy
    simp only [List.mem_append, List.mem_reverse, List.mem_singleton] at hy
    rcases hy with hy | rfl
    · exact hs y hy
    · exact hc

/-- **what `EndOfLastFastqEntry` recognises** (any buffer): a non-negative result `n` is the offset of
an `@` preceded by an end-of-line byte and followed by `x EOL⁺ s sep* EOL '+'` -/
theorem splitFastq_cut (buf : Seq) (h : 0 ≤ splitFastq buf) :
    FastqCut (buf.take (splitFastq buf).toNat) (buf.drop (splitFastq buf).toNat) := by
  unfold splitFastq at h ⊢
  rcases fqScan_spec buf.reverse with h1 | ⟨cut, h1, _, _, _⟩
  · omega
  · rw [h1]
    simp only [Int.toNat_natCast]
    obtain ⟨pre, l1, hl, hr⟩ := fqScan_found buf.reverse cut h1
    obtain ⟨a', e, x, eols, s, seps, e2, hrev, hlen, he, hx, hne, heols, hsne, hs, hseps, he2⟩ := rev1_forward hr
    have hb : buf = (a' ++ [e]) ++ (64 :: x ++ eols ++ s ++ seps ++ e2 :: 43 :: pre.reverse) := by
      have := congrArg List.reverse hl
      rw [List.reverse_reverse] at this
      rw [this, List.reverse_append, List.reverse_cons, hrev]
      simp
    constructor
    · refine ⟨a', e, ?_, he⟩
      rw [hb]; exact List.take_left' hlen
    · refine ⟨x, eols, s, seps, e2, pre.reverse, ?_, hx, hne, heols, hsne, hs, hseps, he2⟩
      rw [hb]; exact List.drop_left' hlen

theorem fqPattern_ext {b : Seq} (x : Seq) (h : FqPattern b) : FqPattern (b ++ x) := by
  obtain ⟨x', eols, s, seps, e2, rest, rfl, h1⟩ := h
  exact ⟨x', eols, s, seps, e2, rest ++ x, by simp, h1⟩

theorem splitFastq_ok_cut : SplitterOK splitFastq FastqCut :=
  ⟨splitFastq_range, splitFastq_cut, fun _ _ x h => ⟨h.1, fqPattern_ext x h.2⟩⟩

/-! ## Part 2: the chunk parser at such a cut -/

section parser
variable (sh : UInt8) (wq : Bool)

theorem fqRun_cons (s : FqSt) (c : UInt8) (t : Seq) :
    fqRun sh wq s (c :: t) =
      match fqStep sh wq s c with
      | .error e => .error e
      | .ok (s', r) =>
        match fqRun sh wq s' t with
        | .error e => .error e
        | .ok (s'', rs) => .ok (s'', r.toList ++ rs) := rfl

theorem fqRun_append (s : FqSt) (a b : Seq) :
    fqRun sh wq s (a ++ b) =
      match fqRun sh wq s a with
      | .error e => .error e
      | .ok (s', r1) =>
        match fqRun sh wq s' b with
        | .error e => .error e
        | .ok (s'', r2) => .ok (s'', r1 ++ r2) := by
  induction a generalizing s with
  | nil =>
    simp only [List.nil_append, fqRun]
    cases fqRun sh wq s b with
    | error e => rfl
    | ok p => obtain ⟨s'', r2⟩ := p; simp
  | cons c t ih =>
    simp only [List.cons_append, fqRun]
    cases hstep : fqStep sh wq s c with
    | error e => rfl
    | ok p =>
      obtain ⟨s', r⟩ := p
      simp only
      rw [ih]
      cases fqRun sh wq s' t with
      | error e => rfl
      | ok p2 =>
        obtain ⟨s2, r1⟩ := p2
        simp only
        cases fqRun sh wq s2 b with
        | error e => rfl
        | ok p3 => obtain ⟨s3, r2⟩ := p3; simp

/-- a successful run over `c :: t` is a successful step followed by a successful run -/
theorem fqRun_ok_cons {s sF : FqSt} {c : UInt8} {t : Seq} {rs : List Rec}
    (h : fqRun sh wq s (c :: t) = .ok (sF, rs)) :
    ∃ s' o r2, fqStep sh wq s c = .ok (s', o) ∧ fqRun sh wq s' t = .ok (sF, r2) ∧ rs = o.toList ++ r2 := by
  rw [fqRun_cons] at h
  cases hstep : fqStep sh wq s c with
  | error e => rw [hstep] at h; cases h
  | ok p =>
    obtain ⟨s', o⟩ := p
    rw [hstep] at h
    simp only at h
    cases hrun : fqRun sh wq s' t with
    | error e => rw [hrun] at h; cases h
    | ok p2 =>
      obtain ⟨s2, r2⟩ := p2
      rw [hrun] at h
      simp only [Except.ok.injEq, Prod.mk.injEq] at h
      obtain ⟨rfl, rfl⟩ := h
      exact ⟨s', o, r2, rfl, hrun, rfl⟩

/-- a successful run over `a ++ b` is a successful run over `a` followed by one over `b` -/
theorem fqRun_ok_append {s sF : FqSt} {a b : Seq} {rs : List Rec}
    (h : fqRun sh wq s (a ++ b) = .ok (sF, rs)) :
    ∃ s' r1 r2, fqRun sh wq s a = .ok (s', r1) ∧ fqRun sh wq s' b = .ok (sF, r2) ∧ rs = r1 ++ r2 := by
  rw [fqRun_append] at h
  cases h1 : fqRun sh wq s a with
  | error e => rw [h1] at h; cases h
  | ok p =>
    obtain ⟨s', r1⟩ := p
    rw [h1] at h
    simp only at h
    cases h2 : fqRun sh wq s' b with
    | error e => rw [h2] at h; cases h
    | ok p2 =>
      obtain ⟨s2, r2⟩ := p2
      rw [h2] at h
      simp only [Except.ok.injEq, Prod.mk.injEq] at h
      obtain ⟨rfl, rfl⟩ := h
      exact ⟨s', r1, r2, rfl, h2, rfl⟩

theorem fqRun_ok_nil {s sF : FqSt} {rs : List Rec} (h : fqRun sh wq s [] = .ok (sF, rs)) : sF = s ∧ rs = [] := by
  simp only [fqRun, Except.ok.injEq, Prod.mk.injEq] at h
  exact ⟨h.1.symm, h.2.symm⟩

/-- bytes of the sequence alphabet are not end-of-line bytes, `+` or `@` -/
theorem seqChar_facts {c : UInt8} (h : isSeqChar c = true) :
    isEol c = false ∧ (c == 43) = false ∧ (c == 64) = false := by
  refine ⟨?_, ?_, ?_⟩
  · cases he : isEol c with
    | false => rfl
    | true => rcases eol_cases he with rfl | rfl <;> revert h <;> decide
  · cases hc : (c == 43) with
    | false => rfl
    | true =>
      have : c = 43 := by simpa using hc
      subst this; revert h; decide
  · cases hc : (c == 64) with
    | false => rfl
    | true =>
      have : c = 64 := by simpa using hc
      subst this; revert h; decide

/-- the states the machine can be in just after an end-of-line byte -/
def AfterEol : FqSt → Prop
  | .s5 _ _ | .s7 _ | .s9 _ | .s11 => True
  | _ => False

theorem fqStep_eol {s s' : FqSt} {c : UInt8} {o : Option Rec} (hc : isEol c = true)
    (h : fqStep sh wq s c = .ok (s', o)) : AfterEol s' := by
  have hsep := eol_isSep hc
  have h64 : (c == 64) = false := by rcases eol_cases hc with rfl | rfl <;> decide
  cases s <;> simp only [fqStep, hc, hsep, h64, if_true] at h
  · cases h
  · cases h
  · simp only [Except.ok.injEq, Prod.mk.injEq] at h; rw [← h.1]; trivial
  · simp only [Except.ok.injEq, Prod.mk.injEq] at h; rw [← h.1]; trivial
  · simp only [Except.ok.injEq, Prod.mk.injEq] at h; rw [← h.1]; trivial
  · simp only [Bool.not_true, Bool.false_eq_true, if_false, Except.ok.injEq, Prod.mk.injEq] at h; rw [← h.1]; trivial
  · split at h
    · cases h
    · simp only [Except.ok.injEq, Prod.mk.injEq] at h; rw [← h.1]; trivial
  · simp only [Except.ok.injEq, Prod.mk.injEq] at h; rw [← h.1]; trivial
  · simp only [Except.ok.injEq, Prod.mk.injEq] at h; rw [← h.1]; trivial
  · simp only [Except.ok.injEq, Prod.mk.injEq] at h; rw [← h.1]; trivial
  · split at h
    · split at h
      · cases h
      · simp only [Except.ok.injEq, Prod.mk.injEq] at h; rw [← h.1]; trivial
    · simp only [Except.ok.injEq, Prod.mk.injEq] at h; rw [← h.1]; trivial
  · simp only [Except.ok.injEq, Prod.mk.injEq] at h; rw [← h.1]; trivial

theorem fqRun_s6_noEol : ∀ (x : Seq) (id d sq : Seq) (s' : FqSt) (rs : List Rec), NoEol x →
    fqRun sh wq (.s6 id d sq) x = .ok (s', rs) → ∃ sq', s' = .s6 id d sq' ∧ rs = [] := by
  intro x
  induction x with
  | nil =>
    intro id d sq s' rs _ h
    obtain ⟨rfl, rfl⟩ := fqRun_ok_nil sh wq h
    exact ⟨sq, rfl, rfl⟩
  | cons c t ih =>
    intro id d sq s' rs hx h
    have hc : isEol c = false := hx c (by simp)
    have ht : NoEol t := fun y hy => hx y (by simp [hy])
    obtain ⟨sa, o, r2, hstep, hrun, rfl⟩ := fqRun_ok_cons sh wq h
    by_cases hok : seqOK (lower c) = true
    · simp only [fqStep, hc, hok, Bool.false_eq_true, if_false, if_true, Except.ok.injEq, Prod.mk.injEq] at hstep
      obtain ⟨rfl, rfl⟩ := hstep
      obtain ⟨sq', hs, hr⟩ := ih id d _ s' r2 ht hrun
      exact ⟨sq', hs, by rw [hr]; rfl⟩
    · simp [fqStep, hc, hok] at hstep

theorem fqRun_s10_noEol : ∀ (x : Seq) (r : Rec) (q : Seq), NoEol x →
    fqRun sh wq (.s10 r q) x = .ok (.s10 r (q ++ x), []) := by
  intro x
  induction x with
  | nil => intro r q _; simp [fqRun]
  | cons c t ih =>
    intro r q hx
    have hc : isEol c = false := hx c (by simp)
    have ht : NoEol t := fun y hy => hx y (by simp [hy])
    have hstep : fqStep sh wq (.s10 r q) c = .ok (.s10 r (q ++ [c]), none) := by simp [fqStep, hc]
    rw [fqRun_cons, hstep]
    simp only [ih r (q ++ [c]) ht]
    simp

theorem fqRun_s5_eols : ∀ (e : Seq) (id d : Seq), AllEol e → fqRun sh wq (.s5 id d) e = .ok (.s5 id d, []) := by
  intro e
  induction e with
  | nil => intro id d _; rfl
  | cons c t ih =>
    intro id d hall
    have hc : isEol c = true := hall c (by simp)
    have ht : AllEol t := fun x hx => hall x (by simp [hx])
    have hstep : fqStep sh wq (.s5 id d) c = .ok (.s5 id d, none) := by simp [fqStep, hc]
    rw [fqRun_cons, hstep]
    simp only [ih id d ht]
    rfl

theorem fqRun_s7_eols : ∀ (e : Seq) (r : Rec), AllEol e → fqRun sh wq (.s7 r) e = .ok (.s7 r, []) := by
  intro e
  induction e with
  | nil => intro r _; rfl
  | cons c t ih =>
    intro r hall
    have hc : isEol c = true := hall c (by simp)
    have ht : AllEol t := fun x hx => hall x (by simp [hx])
    have hstep : fqStep sh wq (.s7 r) c = .ok (.s7 r, none) := by simp [fqStep, hc]
    rw [fqRun_cons, hstep]
    simp only [ih r ht]
    rfl

theorem fqRun_s9_eols : ∀ (e : Seq) (r : Rec), AllEol e → fqRun sh wq (.s9 r) e = .ok (.s9 r, []) := by
  intro e
  induction e with
  | nil => intro r _; rfl
  | cons c t ih =>
    intro r hall
    have hc : isEol c = true := hall c (by simp)
    have ht : AllEol t := fun x hx => hall x (by simp [hx])
    have hstep : fqStep sh wq (.s9 r) c = .ok (.s9 r, none) := by simp [fqStep, hc]
    rw [fqRun_cons, hstep]
    simp only [ih r ht]
    rfl

theorem fqRun_s11_eols : ∀ (e : Seq), AllEol e → fqRun sh wq .s11 e = .ok (.s11, []) := by
  intro e
  induction e with
  | nil => intro _; rfl
  | cons c t ih =>
    intro hall
    have hc : isEol c = true := hall c (by simp)
    have ht : AllEol t := fun x hx => hall x (by simp [hx])
    have hstep : fqStep sh wq .s11 c = .ok (.s11, none) := by simp [fqStep, hc]
    rw [fqRun_cons, hstep]
    simp only [ih ht]
    rfl

/-- "sequence expected" at the `@`: the `@ x` line is taken as the sequence, the line `s` would have to
start with `+` -/
theorem fq_bad_s5 {id d x eols s tail : Seq} {sF : FqSt} {rs : List Rec} (hx : NoEol x) (hne : eols ≠ [])
    (he : AllEol eols) (hs : s ≠ []) (hsc : AllSeqChar s)
    (h : fqRun sh wq (.s5 id d) (64 :: (x ++ (eols ++ (s ++ tail)))) = .ok (sF, rs)) : False := by
  obtain ⟨sa, o, r2, hstep, hrun, _⟩ := fqRun_ok_cons sh wq h
  have h64 : isEol 64 = false := by decide
  simp only [fqStep, h64] at hstep
  simp only [Bool.not_false, if_true, Except.ok.injEq, Prod.mk.injEq] at hstep
  obtain ⟨rfl, _⟩ := hstep
  obtain ⟨s2, _, r4, hrx, hrun2, _⟩ := fqRun_ok_append sh wq hrun
  obtain ⟨sq', rfl, _⟩ := fqRun_s6_noEol sh wq x _ _ _ _ _ hx hrx
  cases eols with
  | nil => exact hne rfl
  | cons e eols' =>
    have hee : isEol e = true := he e (by simp)
    have he' : AllEol eols' := fun y hy => he y (by simp [hy])
    rw [List.cons_append] at hrun2
    obtain ⟨s3, o3, r5, hstep3, hrun3, _⟩ := fqRun_ok_cons sh wq hrun2
    simp only [fqStep, hee, if_true] at hstep3
    split at hstep3
    · cases hstep3
    · simp only [Except.ok.injEq, Prod.mk.injEq] at hstep3
      obtain ⟨rfl, _⟩ := hstep3
      obtain ⟨s4, _, r6, hre, hrun4, _⟩ := fqRun_ok_append sh wq hrun3
      rw [fqRun_s7_eols sh wq eols' _ he'] at hre
      simp only [Except.ok.injEq, Prod.mk.injEq] at hre
      obtain ⟨rfl, _⟩ := hre
      cases s with
      | nil => exact hs rfl
      | cons c s' =>
        obtain ⟨hc1, hc2, _⟩ := seqChar_facts (hsc c (by simp))
        rw [List.cons_append] at hrun4
        obtain ⟨s5, o5, r7, hstep5, _, _⟩ := fqRun_ok_cons sh wq hrun4
        simp [fqStep, hc1, hc2] at hstep5

/-- "quality expected" at the `@`: the `@ x` line is taken as the quality line, the line `s` would have
to start with `@` -/
theorem fq_bad_s9 {r : Rec} {x eols s tail : Seq} {sF : FqSt} {rs : List Rec} (hx : NoEol x) (hne : eols ≠ [])
    (he : AllEol eols) (hs : s ≠ []) (hsc : AllSeqChar s)
    (h : fqRun sh wq (.s9 r) (64 :: (x ++ (eols ++ (s ++ tail)))) = .ok (sF, rs)) : False := by
  obtain ⟨sa, o, r2, hstep, hrun, _⟩ := fqRun_ok_cons sh wq h
  have h64 : isEol 64 = false := by decide
  simp only [fqStep, h64] at hstep
  simp only [Bool.false_eq_true, if_false, Except.ok.injEq, Prod.mk.injEq] at hstep
  obtain ⟨rfl, _⟩ := hstep
  obtain ⟨s2, _, r4, hrx, hrun2, _⟩ := fqRun_ok_append sh wq hrun
  rw [fqRun_s10_noEol sh wq x _ _ hx] at hrx
  simp only [Except.ok.injEq, Prod.mk.injEq] at hrx
  obtain ⟨rfl, _⟩ := hrx
  cases eols with
  | nil => exact hne rfl
  | cons e eols' =>
    have hee : isEol e = true := he e (by simp)
    have he' : AllEol eols' := fun y hy => he y (by simp [hy])
    rw [List.cons_append] at hrun2
    obtain ⟨s3, o3, r5, hstep3, hrun3, _⟩ := fqRun_ok_cons sh wq hrun2
    have hs3 : s3 = .s11 := by
      simp only [fqStep, hee, if_true] at hstep3
      split at hstep3
      · split at hstep3
        · cases hstep3
        · simp only [Except.ok.injEq, Prod.mk.injEq] at hstep3; exact hstep3.1.symm
      · simp only [Except.ok.injEq, Prod.mk.injEq] at hstep3; exact hstep3.1.symm
    subst hs3
    obtain ⟨s4, _, r6, hre, hrun4, _⟩ := fqRun_ok_append sh wq hrun3
    rw [fqRun_s11_eols sh wq eols' he'] at hre
    simp only [Except.ok.injEq, Prod.mk.injEq] at hre
    obtain ⟨rfl, _⟩ := hre
    cases s with
    | nil => exact hs rfl
    | cons c s' =>
      obtain ⟨hc1, _, hc3⟩ := seqChar_facts (hsc c (by simp))
      rw [List.cons_append] at hrun4
      obtain ⟨s5, o5, r7, hstep5, _, _⟩ := fqRun_ok_cons sh wq hrun4
      simp [fqStep, hc1, hc3] at hstep5

/-- **the cut is a record start**: if the byte machine, started in any state, gets through `a ++ b`
without error, `a` ends with an end-of-line byte and `b` starts with the pattern the splitter
recognises, then after `a` the machine is waiting for a record (state 11) and the rest of the run is
the run of a fresh parser on `b` -/
theorem fqRun_cut {st0 sF : FqSt} {a b : Seq} {rs : List Rec} (hcut : FastqCut a b)
    (h : fqRun sh wq st0 (a ++ b) = .ok (sF, rs)) :
    ∃ rs1 rs2, fqRun sh wq st0 a = .ok (.s11, rs1) ∧ fqRun sh wq .s0 b = .ok (sF, rs2) ∧ rs = rs1 ++ rs2 := by
  obtain ⟨⟨a', e, rfl, he⟩, x, eols, s, seps, e2, rest, rfl, hx, hne, heols, hsne, hsc, _, _⟩ := hcut
  obtain ⟨sA, rs1, rs2, hA, hB, rfl⟩ := fqRun_ok_append sh wq h
  have hafter : AfterEol sA := by
    obtain ⟨sP, _, r2, _, hE, _⟩ := fqRun_ok_append sh wq hA
    obtain ⟨sE, o, r3, hstep, hnil, _⟩ := fqRun_ok_cons sh wq hE
    obtain ⟨rfl, _⟩ := fqRun_ok_nil sh wq hnil
    exact fqStep_eol sh wq he hstep
  have hshape : 64 :: x ++ eols ++ s ++ seps ++ e2 :: 43 :: rest =
      64 :: (x ++ (eols ++ (s ++ (seps ++ e2 :: 43 :: rest)))) := by simp
  rw [hshape] at hB ⊢
  cases sA with
  | s5 id d => exact (fq_bad_s5 sh wq hx hne heols hsne hsc hB).elim
  | s9 r => exact (fq_bad_s9 sh wq hx hne heols hsne hsc hB).elim
  | s7 r =>
    obtain ⟨sa, o, r2, hstep, _, _⟩ := fqRun_ok_cons sh wq hB
    have h64 : isEol 64 = false := by decide
    simp [fqStep, h64] at hstep
  | s11 =>
    refine ⟨rs1, rs2, hA, ?_, rfl⟩
    rw [fqRun_cons] at hB ⊢
    have h11 : fqStep sh wq .s11 64 = .ok (.s1, none) := by simp [fqStep, isEol]
    have h0 : fqStep sh wq .s0 64 = .ok (.s1, none) := by simp [fqStep]
    rw [h11] at hB
    rw [h0]
    exact hB
  | s0 => exact hafter.elim
  | s1 => exact hafter.elim
  | s2 _ => exact hafter.elim
  | s3 _ => exact hafter.elim
  | s4 _ _ => exact hafter.elim
  | s6 _ _ _ => exact hafter.elim
  | s8 _ => exact hafter.elim
  | s10 _ _ => exact hafter.elim

/-! ## Whole numbers of records -/

/-- the states in which a text that is a whole number of records ends: inside the last quality line
(no trailing end-of-line byte) or after it -/
def FqEnd : FqSt → Prop
  | .s10 _ _ | .s11 => True
  | _ => False

/-- "a whole number of records": the byte loop reads `c` without error from the initial state and ends
in or after a quality line; `rs` = all the records, the pending one included -/
def FqComplete (c : Seq) (rs : List Rec) : Prop :=
  ∃ s rs0 l, fqRun sh wq .s0 c = .ok (s, rs0) ∧ FqEnd s ∧ fqFinish sh wq s = .ok l ∧ rs = rs0 ++ l

theorem parseFastq_complete {c : Seq} {rs : List Rec} (h : FqComplete sh wq c rs) :
    parseFastq sh wq c = .ok rs := by
  obtain ⟨s, rs0, l, hrun, _, hfin, rfl⟩ := h
  simp only [parseFastq, hrun, hfin]

/-- stepping over an end-of-line byte into an end state: the state before was an end state with the
same final records -/
theorem fqStep_eol_end {s s' : FqSt} {c : UInt8} {o : Option Rec} {l : List Rec} (hc : isEol c = true)
    (h : fqStep sh wq s c = .ok (s', o)) (hend : FqEnd s') (hfin : fqFinish sh wq s' = .ok l) :
    FqEnd s ∧ fqFinish sh wq s = .ok (o.toList ++ l) := by
  have hsep := eol_isSep hc
  have h64 : (c == 64) = false := by rcases eol_cases hc with rfl | rfl <;> decide
  cases s <;> simp only [fqStep, hc, hsep, h64, if_true] at h
  · cases h
  · cases h
  · simp only [Except.ok.injEq, Prod.mk.injEq] at h; rw [← h.1] at hend; exact hend.elim
  · simp only [Except.ok.injEq, Prod.mk.injEq] at h; rw [← h.1] at hend; exact hend.elim
  · simp only [Except.ok.injEq, Prod.mk.injEq] at h; rw [← h.1] at hend; exact hend.elim
  · simp only [Bool.not_true, Bool.false_eq_true, if_false, Except.ok.injEq, Prod.mk.injEq] at h
    rw [← h.1] at hend; exact hend.elim
  · split at h
    · cases h
    · simp only [Except.ok.injEq, Prod.mk.injEq] at h; rw [← h.1] at hend; exact hend.elim
  · simp only [Except.ok.injEq, Prod.mk.injEq] at h; rw [← h.1] at hend; exact hend.elim
  · simp only [Except.ok.injEq, Prod.mk.injEq] at h; rw [← h.1] at hend; exact hend.elim
  · simp only [Except.ok.injEq, Prod.mk.injEq] at h; rw [← h.1] at hend; exact hend.elim
  · rename_i r q
    refine ⟨trivial, ?_⟩
    cases hwq : wq with
    | true =>
      simp only [hwq, if_true] at h
      cases hsq : storeQual sh r q with
      | error e => rw [hsq] at h; cases h
      | ok r' =>
        rw [hsq] at h
        simp only [Except.ok.injEq, Prod.mk.injEq] at h
        obtain ⟨rfl, rfl⟩ := h
        rw [hwq] at hfin
        simp only [fqFinish, Except.ok.injEq] at hfin
        subst hfin
        simp [fqFinish, hsq]
    | false =>
      simp only [hwq, Bool.false_eq_true, if_false, Except.ok.injEq, Prod.mk.injEq] at h
      obtain ⟨rfl, rfl⟩ := h
      rw [hwq] at hfin
      simp only [fqFinish, Except.ok.injEq] at hfin
      subst hfin
      simp [fqFinish]
  · simp only [Except.ok.injEq, Prod.mk.injEq] at h
    obtain ⟨rfl, rfl⟩ := h
    simp only [fqFinish, Except.ok.injEq] at hfin
    subst hfin
    exact ⟨trivial, rfl⟩

theorem fqRun_eols_end : ∀ (e : Seq) (s s' : FqSt) (r2 l : List Rec), AllEol e →
    fqRun sh wq s e = .ok (s', r2) → FqEnd s' → fqFinish sh wq s' = .ok l →
    FqEnd s ∧ fqFinish sh wq s = .ok (r2 ++ l) := by
  intro e
  induction e with
  | nil =>
    intro s s' r2 l _ h hend hfin
    obtain ⟨rfl, rfl⟩ := fqRun_ok_nil sh wq h
    exact ⟨hend, hfin⟩
  | cons c t ih =>
    intro s s' r2 l hall h hend hfin
    have hc : isEol c = true := hall c (by simp)
    have ht : AllEol t := fun x hx => hall x (by simp [hx])
    obtain ⟨sa, o, r3, hstep, hrun, rfl⟩ := fqRun_ok_cons sh wq h
    obtain ⟨hend1, hfin1⟩ := ih sa s' r3 l ht hrun hend hfin
    obtain ⟨hend0, hfin0⟩ := fqStep_eol_end sh wq hc hstep hend1 hfin1
    exact ⟨hend0, by rw [hfin0, List.append_assoc]⟩

theorem fqComplete_strip {t : Seq} {rs : List Rec} (h : FqComplete sh wq t rs) :
    FqComplete sh wq (stripEol t) rs := by
  obtain ⟨s, rs0, l, hrun, hend, hfin, rfl⟩ := h
  obtain ⟨e, he, hall⟩ := stripEol_decomp t
  rw [he] at hrun
  obtain ⟨s', r1, r2, h1, h2, rfl⟩ := fqRun_ok_append sh wq hrun
  obtain ⟨hend', hfin'⟩ := fqRun_eols_end sh wq e s' s r2 l hall h2 hend hfin
  exact ⟨s', r1, r2 ++ l, h1, hend', hfin', by rw [List.append_assoc]⟩

theorem fqComplete_not_allEol {t : Seq} {rs : List Rec} (h : FqComplete sh wq t rs) (ha : AllEol t) : False := by
  obtain ⟨s, rs0, l, hrun, hend, _, _⟩ := h
  cases t with
  | nil =>
    obtain ⟨rfl, _⟩ := fqRun_ok_nil sh wq hrun
    exact hend.elim
  | cons c t' =>
    have hc : isEol c = true := ha c (by simp)
    obtain ⟨sa, o, r3, hstep, _, _⟩ := fqRun_ok_cons sh wq hrun
    rcases eol_cases hc with rfl | rfl <;> simp [fqStep] at hstep

/-- what the workers produce from the chunks of a whole-records text, taken in chunk order -/
theorem pieces_parse_fastq {cs : List Seq} {t : Seq} (hp : Pieces FastqCut cs t) :
    ∀ (rs : List Rec), FqComplete sh wq t rs →
      (∃ rss : List (List Rec), cs.map (parseFastq sh wq) = rss.map Except.ok ∧ rss.flatten = rs) ∧
      ∀ c ∈ cs, ∃ rs', FqComplete sh wq c rs' := by
  induction hp with
  | nil h0 => intro rs hc; exact (fqComplete_not_allEol sh wq hc h0).elim
  | @lastStripped t _ =>
    intro rs hc
    have hs := fqComplete_strip sh wq hc
    refine ⟨⟨[rs], ?_, by simp⟩, ?_⟩
    · simp [parseFastq_complete sh wq hs]
    · intro c hcm; simp at hcm; subst hcm; exact ⟨rs, hs⟩
  | @lastRaw t _ =>
    intro rs hc
    refine ⟨⟨[rs], ?_, by simp⟩, ?_⟩
    · simp [parseFastq_complete sh wq hc]
    · intro c hcm; simp at hcm; subst hcm; exact ⟨rs, hc⟩
  | @cut a b cs hcut _ _ ih =>
    intro rs hc
    obtain ⟨s, rs0, l, hrun, hend, hfin, rfl⟩ := hc
    obtain ⟨rs1, rs2, hA, hB, rfl⟩ := fqRun_cut sh wq hcut hrun
    have hca : FqComplete sh wq a rs1 := ⟨.s11, rs1, [], hA, trivial, rfl, by simp⟩
    have hcb : FqComplete sh wq b (rs2 ++ l) := ⟨s, rs2, l, hB, hend, hfin, rfl⟩
    obtain ⟨⟨rss, hmap, hflat⟩, hall⟩ := ih (rs2 ++ l) hcb
    have hsa := fqComplete_strip sh wq hca
    refine ⟨⟨rs1 :: rss, ?_, ?_⟩, ?_⟩
    · simp [parseFastq_complete sh wq hsa, hmap]
    · simp [hflat]
    · intro c hcm
      simp only [List.mem_cons] at hcm
      rcases hcm with rfl | hcm
      · exact ⟨rs1, hsa⟩
      · exact hall c hcm
  | @skip a b cs hcut hnil _ _ =>
    intro rs hc
    obtain ⟨s, rs0, l, hrun, hend, hfin, rfl⟩ := hc
    obtain ⟨rs1, rs2, hA, _, _⟩ := fqRun_cut sh wq hcut hrun
    have hca : FqComplete sh wq a rs1 := ⟨.s11, rs1, [], hA, trivial, rfl, by simp⟩
    exact (fqComplete_not_allEol sh wq hca (allEol_of_strip_nil hnil)).elim

/-! ## Record locality -/

/-- a non-empty run of end-of-line bytes after a whole number of records releases the pending record
and leaves the machine waiting for a record -/
theorem fqRun_end_eols {s : FqSt} {l : List Rec} {e : Seq} (hend : FqEnd s) (hfin : fqFinish sh wq s = .ok l)
    (he : AllEol e) (hne : e ≠ []) : fqRun sh wq s e = .ok (.s11, l) := by
  cases e with
  | nil => exact absurd rfl hne
  | cons c t =>
    have hc : isEol c = true := he c (by simp)
    have ht : AllEol t := fun x hx => he x (by simp [hx])
    cases s with
    | s11 =>
      simp only [fqFinish, Except.ok.injEq] at hfin
      subst hfin
      exact fqRun_s11_eols sh wq (c :: t) he
    | s10 r q =>
      have hstep : fqStep sh wq (.s10 r q) c = .ok (.s11, l.head?) ∧ l.head?.toList = l := by
        cases hwq : wq with
        | true =>
          rw [hwq] at hfin
          simp only [fqFinish, if_true] at hfin
          cases hsq : storeQual sh r q with
          | error x => rw [hsq] at hfin; cases hfin
          | ok r' =>
            rw [hsq] at hfin
            simp only [Except.ok.injEq] at hfin
            subst hfin
            simp [fqStep, hc, hsq]
        | false =>
          rw [hwq] at hfin
          simp only [fqFinish, Bool.false_eq_true, if_false, Except.ok.injEq] at hfin
          subst hfin
          simp [fqStep, hc]
      rw [fqRun_cons, hstep.1]
      simp only [fqRun_s11_eols sh wq t ht, hstep.2, List.append_nil]
    | s0 => exact hend.elim
    | s1 => exact hend.elim
    | s2 _ => exact hend.elim
    | s3 _ => exact hend.elim
    | s4 _ _ => exact hend.elim
    | s5 _ _ => exact hend.elim
    | s6 _ _ _ => exact hend.elim
    | s7 _ => exact hend.elim
    | s8 _ => exact hend.elim
    | s9 _ => exact hend.elim

/-- at an `@` a machine waiting for a record behaves as a fresh one -/
theorem fqRun_s11_at (t : Seq) : fqRun sh wq .s11 (64 :: t) = fqRun sh wq .s0 (64 :: t) := by
  have h11 : fqStep sh wq .s11 64 = .ok (.s1, none) := by simp [fqStep, isEol]
  have h0 : fqStep sh wq .s0 64 = .ok (.s1, none) := by simp [fqStep]
  rw [fqRun_cons, fqRun_cons, h11, h0]

/-- **record locality**: whole records, a non-empty run of end-of-line bytes, then any text starting
with `@` -/
theorem parseFastq_append_complete {c1 : Seq} {rs : List Rec} (h1 : FqComplete sh wq c1 rs)
    {e : Seq} (he : AllEol e) (hne : e ≠ []) (t : Seq) :
    parseFastq sh wq (c1 ++ e ++ 64 :: t) =
      match parseFastq sh wq (64 :: t) with
      | .error x => .error x
      | .ok r2 => .ok (rs ++ r2) := by
  obtain ⟨s, rs0, l, hrun, hend, hfin, rfl⟩ := h1
  have h2 := fqRun_end_eols sh wq hend hfin he hne
  unfold parseFastq
  rw [List.append_assoc, fqRun_append, hrun]
  simp only
  rw [fqRun_append, h2]
  simp only
  rw [fqRun_s11_at]
  cases fqRun sh wq .s0 (64 :: t) with
  | error x => rfl
  | ok p =>
    obtain ⟨sT, rT⟩ := p
    simp only
    cases fqFinish sh wq sT with
    | error x => rfl
    | ok l2 => simp

end parser

end ObiVerif.Parse
