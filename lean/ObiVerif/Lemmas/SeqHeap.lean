import ObiVerif.Model.SeqHeap
/-!
# The byte-slice pool never makes two live objects share a buffer (C07, heap model)

Invariant `Inv` of `Model/SeqHeap.lean` and its preservation by the primitive heap actions, for every
decision of the pool.  `Frame h h' T`: the action leading from `h` to `h'` keeps the invariant, keeps the
objects, and changes the visible bytes of no live slice field outside `T`.
-/
namespace ObiVerif.SeqHeap
open ObiVerif.SeqOps

@[simp] theorem upd_same {β : Type} (f : Nat → β) (i : Nat) (v : β) : upd f i v i = v := by simp [upd]
theorem upd_ne {β : Type} (f : Nat → β) {i j : Nat} (v : β) (h : j ≠ i) : upd f i v j = f j := by simp [upd, h]

/-- `c` is a slice field of a live (bound, not recycled) object -/
def Fld (h : Heap) (c : Nat) : Prop := ∃ n o, h.objs n = some o ∧ o.base ≤ c ∧ c < o.base + 3

/-- the slice variables that matter: those the pool can hand out and those of live objects -/
def Owner (h : Heap) (c : Nat) : Prop := c ∈ h.pool ∨ Fld h c

structure Inv (h : Heap) : Prop where
  /-- the pool never holds the address of a field of a live object -/
  poolNotFld : ∀ c ∈ h.pool, ¬ Fld h c
  poolNodup : h.pool.Nodup
  /-- separation: two different slice variables (pooled or live fields) never show the same array -/
  sep : ∀ c d s t, Owner h c → Owner h d → h.cells c = some s → h.cells d = some t → s.buf = t.buf → c = d
  disj : ∀ n m o o', h.objs n = some o → h.objs m = some o' → n ≠ m →
    o.base + 3 ≤ o'.base ∨ o'.base + 3 ≤ o.base
  cellLt : ∀ c, Owner h c → c < h.ncell
  cellFresh : ∀ c, h.ncell ≤ c → h.cells c = none
  bufLt : ∀ c s, Owner h c → h.cells c = some s → s.buf < h.nbuf
  lenLe : ∀ c s, Fld h c → h.cells c = some s → s.len ≤ (h.bufs s.buf).length

theorem Inv.empty : Inv Heap.empty := by
  refine ⟨?_, ?_, ?_, ?_, ?_, ?_, ?_, ?_⟩ <;> simp [Heap.empty, Owner, Fld]

structure Frame (h h' : Heap) (T : Nat → Prop) : Prop where
  inv : Inv h'
  objs : h'.objs = h.objs
  same : ∀ d, Fld h d → ¬ T d → h'.content d = h.content d
  ncell : h.ncell ≤ h'.ncell

theorem Frame.fld {h h' : Heap} {T} (f : Frame h h' T) (c : Nat) : Fld h' c ↔ Fld h c := by
  unfold Fld; rw [f.objs]

theorem Frame.trans {h h1 h2 : Heap} {T1 T2 : Nat → Prop} (f1 : Frame h h1 T1) (f2 : Frame h1 h2 T2) :
    Frame h h2 (fun c => T1 c ∨ T2 c) := by
  refine ⟨f2.inv, by rw [f2.objs, f1.objs], ?_, Nat.le_trans f1.ncell f2.ncell⟩
  intro d hd hT
  rw [f2.same d ((f1.fld d).mpr hd) (fun h => hT (Or.inr h)), f1.same d hd (fun h => hT (Or.inl h))]

theorem Frame.weaken {h h' : Heap} {T T' : Nat → Prop} (f : Frame h h' T) (hT : ∀ c, T c → T' c) :
    Frame h h' T' :=
  ⟨f.inv, f.objs, fun d hd hn => f.same d hd (fun h => hn (hT d h)), f.ncell⟩

theorem Frame.refl {h : Heap} (hI : Inv h) (T) : Frame h h T := ⟨hI, rfl, fun _ _ _ => rfl, Nat.le_refl _⟩

/-! ## `GetSlice` -/

/-- what `GetSlice` guarantees: the slice it returns has the capacity asked for and its array is shown by
no pooled or live slice variable of the new heap -/
structure GetSpec (h : Heap) (n : Nat) (r : Heap × Slice) : Prop where
  inv : Inv r.1
  cells : r.1.cells = h.cells
  objs : r.1.objs = h.objs
  ncell : r.1.ncell = h.ncell
  capOk : n ≤ (r.1.bufs r.2.buf).length
  bufs : ∀ b, b ≠ r.2.buf → r.1.bufs b = h.bufs b
  bufNew : r.2.buf < r.1.nbuf
  detached : ∀ c s, Owner r.1 c → r.1.cells c = some s → s.buf ≠ r.2.buf

theorem owner_erase {h : Heap} {p c : Nat} (hc : Owner { h with pool := h.pool.erase p } c) : Owner h c := by
  rcases hc with hc | hc
  · exact Or.inl (List.mem_of_mem_erase hc)
  · exact Or.inr hc

theorem erase_inv {h : Heap} (hI : Inv h) (p : Nat) : Inv { h with pool := h.pool.erase p } := by
  refine ⟨?_, ?_, ?_, hI.disj, ?_, hI.cellFresh, ?_, hI.lenLe⟩
  · intro c hc; exact hI.poolNotFld c (List.mem_of_mem_erase hc)
  · exact hI.poolNodup.erase p
  · intro c d s t hc hd; exact hI.sep c d s t (owner_erase hc) (owner_erase hd)
  · intro c hc; exact hI.cellLt c (owner_erase hc)
  · intro c s hc; exact hI.bufLt c s (owner_erase hc)

theorem make_spec {h : Heap} (hI : Inv h) (n m : Nat) (hm : n ≤ m) : GetSpec h n (h.make m) := by
  refine ⟨⟨hI.poolNotFld, hI.poolNodup, hI.sep, hI.disj, hI.cellLt, hI.cellFresh, ?_, ?_⟩, rfl, rfl, rfl, ?_, ?_, ?_, ?_⟩
  · intro c s hc hs
    have := hI.bufLt c s hc hs
    show s.buf < h.nbuf + 1
    omega
  · intro c s hc hs
    have h1 := hI.bufLt c s (Or.inr hc) hs
    have h2 := hI.lenLe c s hc hs
    show s.len ≤ (upd h.bufs h.nbuf _ s.buf).length
    rw [upd_ne _ _ (by omega)]; exact h2
  · show n ≤ (upd h.bufs h.nbuf _ h.nbuf).length
    simp; exact hm
  · intro b hb; exact upd_ne _ _ hb
  · show h.nbuf < h.nbuf + 1; omega
  · intro c s hc hs
    have := hI.bufLt c s hc hs
    show s.buf ≠ h.nbuf
    omega

theorem getSpec_of_erase {h : Heap} {p n : Nat} {r : Heap × Slice}
    (g : GetSpec { h with pool := h.pool.erase p } n r) : GetSpec h n r :=
  ⟨g.inv, g.cells, g.objs, g.ncell, g.capOk, g.bufs, g.bufNew, g.detached⟩

theorem getSlice_spec {h : Heap} (hI : Inv h) (n k : Nat) : GetSpec h n (h.getSlice n k) := by
  unfold Heap.getSlice
  split
  · split
    · rename_i p hp
      have hmem : p ∈ h.pool := List.mem_of_getElem? hp
      simp only []
      split
      · rename_i s hs
        split
        · exact getSpec_of_erase (make_spec (erase_inv hI p) n n (Nat.le_refl _))
        · rename_i hcap
          refine ⟨erase_inv hI p, rfl, rfl, rfl, by simpa using hcap, fun _ _ => rfl, hI.bufLt p s (Or.inl hmem) hs, ?_⟩
          intro c t hc ht heq
          have hcp : c = p := hI.sep c p t s (owner_erase hc) (Or.inl hmem) ht hs heq
          subst hcp
          rcases hc with hc | hc
          · exact absurd hc (by
              show ¬ c ∈ h.pool.erase c
              rw [hI.poolNodup.mem_erase_iff]; simp)
          · exact hI.poolNotFld c hmem hc
      · exact getSpec_of_erase (make_spec (erase_inv hI p) n n (Nat.le_refl _))
    · exact make_spec hI n _ (by split <;> omega)
  · exact make_spec hI n n (Nat.le_refl _)

/-! ## contents -/

theorem writeAt_length (l : Bytes) (off : Nat) (src : Bytes) (h : off + src.length ≤ l.length) :
    (writeAt l off src).length = l.length := by
  unfold writeAt; simp; omega

theorem writeAt_zero_take (l src : Bytes) : (writeAt l 0 src).take src.length = src := by
  unfold writeAt; simp

theorem writeAt_take_append (l : Bytes) (off : Nat) (src : Bytes) (h : off ≤ l.length) :
    (writeAt l off src).take (off + src.length) = l.take off ++ src := by
  unfold writeAt
  have e1 : (l.take off).length = off := by simp; omega
  have e2 : off + src.length = (l.take off ++ src).length := by simp [e1]
  rw [e2, List.take_left']
  rfl

theorem content_eq_of {h h' : Heap} {d : Nat} (hc : h'.cells d = h.cells d)
    (hb : ∀ s, h.cells d = some s → h'.bufs s.buf = h.bufs s.buf) : h'.content d = h.content d := by
  unfold Heap.content
  rw [hc]
  cases hs : h.cells d with
  | none => rfl
  | some s => simp only []; rw [hb s hs]

/-! ## assigning a slice whose array nobody else shows -/

theorem fld_owner {h : Heap} {c : Nat} (hc : Fld h c) : Owner h c := Or.inr hc

theorem assign_frame {h : Heap} (hI : Inv h) {c : Nat} (hc : Fld h c) (b n nb' : Nat) (W : Bytes)
    (hb : b < nb') (hnb : h.nbuf ≤ nb') (hn : n ≤ W.length)
    (hd : ∀ c' s, Owner h c' → c' ≠ c → h.cells c' = some s → s.buf ≠ b) :
    Frame h { h with bufs := upd h.bufs b W, nbuf := nb', cells := upd h.cells c (some ⟨b, n⟩) } (· = c) ∧
    Heap.content { h with bufs := upd h.bufs b W, nbuf := nb', cells := upd h.cells c (some ⟨b, n⟩) } c = W.take n := by
  have hcl : c < h.ncell := hI.cellLt c (fld_owner hc)
  refine ⟨⟨⟨hI.poolNotFld, hI.poolNodup, ?_, hI.disj, hI.cellLt, ?_, ?_, ?_⟩, rfl, ?_, Nat.le_refl _⟩, ?_⟩
  · intro c1 c2 s t h1 h2 hs ht heq
    change upd h.cells c _ c1 = some s at hs
    change upd h.cells c _ c2 = some t at ht
    by_cases e1 : c1 = c <;> by_cases e2 : c2 = c
    · rw [e1, e2]
    · rw [e1, upd_same] at hs
      rw [upd_ne _ _ e2] at ht
      have := hd c2 t h2 e2 ht
      cases hs; exact absurd heq.symm this
    · rw [e2, upd_same] at ht
      rw [upd_ne _ _ e1] at hs
      have := hd c1 s h1 e1 hs
      cases ht; exact absurd heq this
    · rw [upd_ne _ _ e1] at hs
      rw [upd_ne _ _ e2] at ht
      exact hI.sep c1 c2 s t h1 h2 hs ht heq
  · intro c' hc'
    have hc'' : h.ncell ≤ c' := hc'
    show upd h.cells c _ c' = none
    rw [upd_ne _ _ (by omega)]; exact hI.cellFresh c' hc'
  · intro c1 s h1 hs
    change upd h.cells c _ c1 = some s at hs
    show s.buf < nb'
    by_cases e1 : c1 = c
    · rw [e1, upd_same] at hs; cases hs; exact hb
    · rw [upd_ne _ _ e1] at hs
      have := hI.bufLt c1 s h1 hs; omega
  · intro c1 s h1 hs
    change upd h.cells c _ c1 = some s at hs
    show s.len ≤ (upd h.bufs b W s.buf).length
    by_cases e1 : c1 = c
    · rw [e1, upd_same] at hs; cases hs; simp; exact hn
    · rw [upd_ne _ _ e1] at hs
      rw [upd_ne _ _ (hd c1 s (fld_owner h1) e1 hs)]
      exact hI.lenLe c1 s h1 hs
  · intro d hdF hdc
    refine content_eq_of (h := h) (upd_ne _ _ hdc) ?_
    intro s hs; exact upd_ne _ _ (hd d s (fld_owner hdF) hdc hs)
  · unfold Heap.content
    simp

theorem getSpec_frame {h : Heap} {n : Nat} {r : Heap × Slice} (g : GetSpec h n r) :
    Frame h r.1 (fun _ => False) := by
  refine ⟨g.inv, g.objs, ?_, by rw [g.ncell]; exact Nat.le_refl _⟩
  intro d hd _
  apply content_eq_of
  · rw [g.cells]
  · intro s hs
    apply g.bufs
    refine g.detached d s (Or.inr ?_) (by rw [g.cells]; exact hs)
    unfold Fld; rw [g.objs]; exact hd

/-! ## `cell c = CopySlice(src)` -/

theorem storeCopy_frame {h : Heap} (hI : Inv h) {c : Nat} (hc : Fld h c) (src : Bytes) (k : Nat) :
    Frame h (h.storeCopy c src k) (· = c) ∧ (h.storeCopy c src k).content c = src := by
  have g := getSlice_spec hI src.length k
  have f1 := getSpec_frame g
  have hc1 : Fld (h.getSlice src.length k).1 c := (f1.fld c).mpr hc
  have hW : src.length ≤ (writeAt ((h.getSlice src.length k).1.bufs (h.getSlice src.length k).2.buf) 0 src).length := by
    rw [writeAt_length _ _ _ (by simpa using g.capOk)]; exact g.capOk
  have a := assign_frame g.inv hc1 (h.getSlice src.length k).2.buf src.length (h.getSlice src.length k).1.nbuf
    (writeAt ((h.getSlice src.length k).1.bufs (h.getSlice src.length k).2.buf) 0 src)
    g.bufNew (Nat.le_refl _) hW (fun c' s ho _ hs => g.detached c' s ho hs)
  refine ⟨(f1.trans a.1).weaken (by intro c; simp), ?_⟩
  have := a.2
  rw [writeAt_zero_take] at this
  exact this

/-! ## in-place rewriting -/

theorem mapContent_frame {h : Heap} (hI : Inv h) {c : Nat} (hc : Fld h c) (f : Bytes → Bytes)
    (hf : ∀ l, (f l).length = l.length) :
    Frame h (h.mapContent c f) (· = c) ∧ (h.mapContent c f).content c = f (h.content c) := by
  unfold Heap.mapContent
  cases hs : h.cells c with
  | none =>
    refine ⟨Frame.refl hI _, ?_⟩
    simp only [Heap.content, hs]
    have := hf []
    simp at this; exact this.symm
  | some s =>
    simp only []
    have hl := hI.lenLe c s hc hs
    have hlen : (f ((h.bufs s.buf).take s.len) ++ (h.bufs s.buf).drop s.len).length = (h.bufs s.buf).length := by
      simp [hf]; omega
    refine ⟨⟨⟨hI.poolNotFld, hI.poolNodup, hI.sep, hI.disj, hI.cellLt, hI.cellFresh, hI.bufLt, ?_⟩, rfl, ?_, Nat.le_refl _⟩, ?_⟩
    · intro c1 t h1 ht
      show t.len ≤ (upd h.bufs s.buf _ t.buf).length
      by_cases e : t.buf = s.buf
      · rw [e, upd_same, hlen, ← e]; exact hI.lenLe c1 t h1 ht
      · rw [upd_ne _ _ e]; exact hI.lenLe c1 t h1 ht
    · intro d hd hdc
      refine content_eq_of (h := h) rfl ?_
      intro t ht
      apply upd_ne
      intro e
      exact hdc (hI.sep d c t s (fld_owner hd) (fld_owner hc) ht hs e)
    · simp only [Heap.content, hs, upd_same]
      have e : (f ((h.bufs s.buf).take s.len)).length = s.len := by rw [hf]; simp; omega
      rw [List.take_append_of_le_length (by omega), List.take_of_length_le (by omega)]

/-! ## recycling a slice variable that belongs to nobody -/

/-- `x` is an allocated slice variable that is neither pooled nor a live field, and whose array (if any)
is shown by no pooled or live slice variable -/
def Loose (h : Heap) (x : Nat) : Prop :=
  ¬ Owner h x ∧ x < h.ncell ∧
    ∀ s, h.cells x = some s → s.buf < h.nbuf ∧ ∀ c' t, Owner h c' → h.cells c' = some t → t.buf ≠ s.buf

theorem recycle_loose {h : Heap} (hI : Inv h) {x : Nat} (hx : Loose h x) :
    Frame h (h.recycleSlice x) (fun _ => False) ∧
    (∀ y, y ≠ x → (h.recycleSlice x).cells y = h.cells y) ∧
    (∀ c', Owner (h.recycleSlice x) c' → c' = x ∨ Owner h c') ∧
    (∀ s, (h.recycleSlice x).cells x = some s → ∃ s', h.cells x = some s' ∧ s.buf = s'.buf) ∧
    (h.recycleSlice x).nbuf = h.nbuf ∧ (h.recycleSlice x).ncell = h.ncell := by
  obtain ⟨hno, hxl, hdet⟩ := hx
  unfold Heap.recycleSlice
  cases hs : h.cells x with
  | none => exact ⟨Frame.refl hI _, fun _ _ => rfl, fun c' hc' => Or.inr hc', by simp [hs], rfl, rfl⟩
  | some s =>
    simp only []
    obtain ⟨hsb, hsd⟩ := hdet s hs
    split
    · -- generic pool' ⊆ x :: pool
      have key : ∀ (pool' : List Nat), (∀ c', c' ∈ pool' → c' = x ∨ c' ∈ h.pool) → pool'.Nodup →
          let h' : Heap := { h with bufs := upd h.bufs s.buf (List.replicate (h.bufs s.buf).length 0xDB),
                                    cells := upd h.cells x (some ⟨s.buf, 0⟩), pool := pool' }
          Frame h h' (fun _ => False) ∧ (∀ y, y ≠ x → h'.cells y = h.cells y) ∧
            (∀ c', Owner h' c' → c' = x ∨ Owner h c') ∧
            (∀ s1, h'.cells x = some s1 → s1.buf = s.buf) ∧
            h'.nbuf = h.nbuf ∧ h'.ncell = h.ncell := by
        intro pool' hsub hnd h'
        have hown : ∀ c', Owner h' c' → c' = x ∨ Owner h c' := by
          intro c' hc'
          rcases hc' with hc' | hc'
          · rcases hsub c' hc' with e | e
            · exact Or.inl e
            · exact Or.inr (Or.inl e)
          · exact Or.inr (Or.inr hc')
        have hxF : ¬ Fld h x := fun hf => hno (Or.inr hf)
        refine ⟨⟨⟨?_, hnd, ?_, hI.disj, ?_, ?_, ?_, ?_⟩, rfl, ?_, Nat.le_refl _⟩, fun y hy => upd_ne _ _ hy, hown,
          ?_, rfl, rfl⟩
        · intro c' hc' hf
          rcases hsub c' hc' with e | e
          · exact hxF (e ▸ hf)
          · exact hI.poolNotFld c' e hf
        · intro c1 c2 s1 s2 h1 h2 hs1 hs2 heq
          change upd h.cells x _ c1 = some s1 at hs1
          change upd h.cells x _ c2 = some s2 at hs2
          by_cases e1 : c1 = x <;> by_cases e2 : c2 = x
          · rw [e1, e2]
          · rw [e1, upd_same] at hs1; rw [upd_ne _ _ e2] at hs2
            cases hs1
            rcases hown c2 h2 with e | ho
            · exact absurd e e2
            · exact absurd heq.symm (hsd c2 s2 ho hs2)
          · rw [e2, upd_same] at hs2; rw [upd_ne _ _ e1] at hs1
            cases hs2
            rcases hown c1 h1 with e | ho
            · exact absurd e e1
            · exact absurd heq (hsd c1 s1 ho hs1)
          · rw [upd_ne _ _ e1] at hs1; rw [upd_ne _ _ e2] at hs2
            rcases hown c1 h1 with e | ho1
            · exact absurd e e1
            rcases hown c2 h2 with e | ho2
            · exact absurd e e2
            exact hI.sep c1 c2 s1 s2 ho1 ho2 hs1 hs2 heq
        · intro c' hc'
          rcases hown c' hc' with e | ho
          · rw [e]; exact hxl
          · exact hI.cellLt c' ho
        · intro c' hc'
          have hc'' : h.ncell ≤ c' := hc'
          show upd h.cells x _ c' = none
          rw [upd_ne _ _ (by omega)]; exact hI.cellFresh c' hc'
        · intro c1 s1 h1 hs1
          change upd h.cells x _ c1 = some s1 at hs1
          show s1.buf < h.nbuf
          by_cases e1 : c1 = x
          · rw [e1, upd_same] at hs1; cases hs1; exact hsb
          · rw [upd_ne _ _ e1] at hs1
            rcases hown c1 h1 with e | ho
            · exact absurd e e1
            · exact hI.bufLt c1 s1 ho hs1
        · intro c1 s1 h1 hs1
          change upd h.cells x _ c1 = some s1 at hs1
          have e1 : c1 ≠ x := fun e => hxF (e ▸ h1)
          rw [upd_ne _ _ e1] at hs1
          show s1.len ≤ (upd h.bufs s.buf _ s1.buf).length
          rw [upd_ne _ _ (hsd c1 s1 (fld_owner h1) hs1)]
          exact hI.lenLe c1 s1 h1 hs1
        · intro d hd _
          have e1 : d ≠ x := fun e => hxF (e ▸ hd)
          refine content_eq_of (h := h) (upd_ne _ _ e1) ?_
          intro t ht
          exact upd_ne _ _ (hsd d t (fld_owner hd) ht)
        · intro s1 hs1
          change upd h.cells x _ x = some s1 at hs1
          rw [upd_same] at hs1; cases hs1
          rfl
      split
      · obtain ⟨a1, a2, a3, a4, a5, a6⟩ := key (x :: h.pool) (by intro c' hc'; simpa using hc')
          (List.nodup_cons.mpr ⟨fun hm => hno (Or.inl hm), hI.poolNodup⟩)
        exact ⟨a1, a2, a3, fun s1 h1 => ⟨s, rfl, a4 s1 h1⟩, a5, a6⟩
      · obtain ⟨a1, a2, a3, a4, a5, a6⟩ := key h.pool (fun c' hc' => Or.inr hc') hI.poolNodup
        exact ⟨a1, a2, a3, fun s1 h1 => ⟨s, rfl, a4 s1 h1⟩, a5, a6⟩
    · exact ⟨Frame.refl hI _, fun _ _ => rfl, fun c' hc' => Or.inr hc', fun s1 hs1 => ⟨s, rfl, by rw [hs] at hs1; cases hs1; rfl⟩, rfl, rfl⟩

end ObiVerif.SeqHeap
