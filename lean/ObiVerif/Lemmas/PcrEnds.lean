import ObiVerif.Lemmas.PcrMore
set_option Elab.async false
/-!
# Lemmas for C11: pieces that know which of their ends are ends of the template (patch `C11-fragment-inner-ends`)

`pcrE e` is the patched `_Pcr` on a template carrying the marks `e` (`Model/PcrAnnot.lean`).
* `pcrE Ends.none = pcr` (`pcrE_none`): nothing changes for a template that is not a piece;
* on a linear template `pcrE e` reports the records of `pcr` except those whose flank a marked end would clip
  (`mem_pcrLE_iff`);
* for the piece `[fa, fb)` of a template, marked as `IFragments` marks it, a record of the piece survives iff, moved to the
  coordinates of the template, it is a record of the template (`block_piece_marked`) — in every linear mode.
-/
namespace ObiVerif.Pcr
open ObiVerif ObiVerif.Apat

theorem endsReject_none (o : Opts) (L : Int) (fm rm : Hit) : endsReject Ends.none o L fm rm = false := by
  simp [endsReject, Ends.none]

/-- the patched pair step = the two `continue`, then the old pair step -/
theorem pairStepE_eq (e : Ends) (isFwd : Bool) (o : Opts) (seq : Bytes) (w : Int) (fm rm : Hit) :
    pairStepE e isFwd o seq w fm rm =
      if endsReject e o seq.length fm rm then none else pairStep isFwd o seq w fm rm := by
  unfold pairStepE pairStep
  simp only []
  by_cases h1 : lengthOk o (pairLength o seq.length w fm rm) = true
  · rw [if_pos h1, if_pos h1]
  · rw [if_neg h1, if_neg h1]; split <;> rfl

theorem pairStepE_none (isFwd : Bool) (o : Opts) (seq : Bytes) (w : Int) (fm rm : Hit) :
    pairStepE Ends.none isFwd o seq w fm rm = pairStep isFwd o seq w fm rm := by
  rw [pairStepE_eq, endsReject_none]; rfl

theorem blockE_none (isFwd : Bool) (D C : Pattern) (w wl : Int) (o : Opts) (seq : Bytes) :
    blockE Ends.none isFwd D C w wl o seq = block isFwd D C w wl o seq := by
  unfold blockE block
  simp only [pairStepE_none]
  rfl

/-- **a template that is not a piece: the patched `_Pcr` is the old one** -/
theorem pcrE_none (P : Primers) (o : Opts) (seq : Bytes) : pcrE Ends.none P o seq = pcr P o seq := by
  unfold pcrE pcr pcrRawE pcrRaw
  rw [blockE_none, blockE_none]

theorem mem_blockE_iff (e : Ends) (isFwd : Bool) (D C : Pattern) (wrapLen winLen : Int) (o : Opts) (seq : Bytes)
    (x : Except Bad Amplicon) :
    x ∈ blockE e isFwd D C wrapLen winLen o seq ↔
      ∃ first last fm rm, (findAllIndex D seq o.circular 0 (-1)).head? = some first ∧
        (findAllIndex D seq o.circular 0 (-1)).getLast? = some last ∧
        fm ∈ findAllIndex D seq o.circular 0 (-1) ∧
        rm ∈ findAllIndex C seq o.circular (revWindow o seq.length winLen first last).1
          (revWindow o seq.length winLen first last).2 ∧
        fm.1 < (seq.length : Int) ∧ rm.1 < (seq.length : Int) ∧ pairStepE e isFwd o seq wrapLen fm rm = some x := by
  unfold blockE
  generalize findAllIndex D seq o.circular 0 (-1) = fms
  simp only []
  split
  · rename_i first last hh hl
    simp only [hh, hl]
    simp only [List.mem_flatMap, Option.some.injEq]
    constructor
    · rintro ⟨fm, hfm, hx⟩
      by_cases hlt : fm.1 < (seq.length : Int)
      · rw [if_pos hlt, List.mem_filterMap] at hx
        obtain ⟨rm, hrm, hstep⟩ := hx
        by_cases hlt2 : rm.1 < (seq.length : Int)
        · rw [if_pos hlt2] at hstep
          exact ⟨first, last, fm, rm, rfl, rfl, hfm, hrm, hlt, hlt2, hstep⟩
        · rw [if_neg hlt2] at hstep; cases hstep
      · rw [if_neg hlt] at hx; cases hx
    · rintro ⟨f', l', fm, rm, rfl, rfl, hfm, hrm, hlt, hlt2, hstep⟩
      refine ⟨fm, hfm, ?_⟩
      rw [if_pos hlt, List.mem_filterMap]
      exact ⟨rm, hrm, by rw [if_pos hlt2]; exact hstep⟩
  · rename_i hne
    constructor
    · intro h; cases h
    · rintro ⟨f', l', _, _, hf, hl, _⟩
      exact absurd hl (hne f' l' hf)

/-- every entry of the patched block is an entry of the old one -/
theorem blockE_sub (e : Ends) (isFwd : Bool) (D C : Pattern) (w wl : Int) (o : Opts) (seq : Bytes) (x : Except Bad Amplicon)
    (hx : x ∈ blockE e isFwd D C w wl o seq) : x ∈ block isFwd D C w wl o seq := by
  rw [mem_blockE_iff] at hx
  obtain ⟨first, last, fm, rm, h1, h2, h3, h4, h5, h6, h7⟩ := hx
  rw [pairStepE_eq] at h7
  split at h7
  · cases h7
  · exact (mem_block_iff isFwd D C w wl o seq x).mpr ⟨first, last, fm, rm, h1, h2, h3, h4, h5, h6, h7⟩

/-- **the amplicons of the patched block**: those of the old block whose flank no marked end would clip -/
theorem mem_blockE_ok (e : Ends) (isFwd : Bool) (D C : Pattern) (w wl : Int) (o : Opts) (seq : Bytes) (a : Amplicon) :
    (.ok a : Except Bad Amplicon) ∈ blockE e isFwd D C w wl o seq ↔
      (.ok a : Except Bad Amplicon) ∈ block isFwd D C w wl o seq ∧ endsReject e o seq.length a.hitD a.hitC = false := by
  constructor
  · intro hx
    refine ⟨blockE_sub e isFwd D C w wl o seq _ hx, ?_⟩
    rw [mem_blockE_iff] at hx
    obtain ⟨first, last, fm, rm, _, _, _, _, _, _, h7⟩ := hx
    rw [pairStepE_eq] at h7
    split at h7
    · cases h7
    · rename_i hr
      obtain ⟨e1, e2, _⟩ := pairStep_prov isFwd o seq w fm rm a h7
      rw [e1, e2]
      simpa using hr
  · rintro ⟨hx, hr⟩
    rw [mem_block_iff] at hx
    obtain ⟨first, last, fm, rm, h1, h2, h3, h4, h5, h6, h7⟩ := hx
    obtain ⟨e1, e2, _⟩ := pairStep_prov isFwd o seq w fm rm a h7
    rw [e1, e2] at hr
    exact (mem_blockE_iff e isFwd D C w wl o seq _).mpr
      ⟨first, last, fm, rm, h1, h2, h3, h4, h5, h6, by rw [pairStepE_eq, hr]; exact h7⟩

/-- the direction of the records of a block -/
theorem block_dir (isFwd : Bool) (D C : Pattern) (w wl : Int) (o : Opts) (seq : Bytes) (a : Amplicon)
    (hx : (.ok a : Except Bad Amplicon) ∈ block isFwd D C w wl o seq) : a.isForward = isFwd := by
  rw [mem_block_iff] at hx
  obtain ⟨_, _, fm, rm, _, _, _, _, _, _, h7⟩ := hx
  exact (pairStep_prov isFwd o seq w fm rm a h7).2.2

/-! ## the list the patched `_Pcr` returns on a linear template -/

def pcrLE (e : Ends) (P : Primers) (o : Opts) (seq : Bytes) : List Amplicon :=
  match pcrE e P o seq with
  | .ok l => l
  | .error _ => []

/-- no `log.Fatalf`, no panic on a linear template, marked or not -/
theorem pcrLE_spec (e : Ends) (P : Primers) (hP : PrimersOk P) (o : Opts) (hc : o.circular = false) (seq : Bytes) :
    pcrE e P o seq = .ok (pcrLE e P o seq) := by
  have : ∃ l, pcrE e P o seq = .ok l := by
    unfold pcrE
    apply mapM_id_total
    intro x hx
    unfold pcrRawE at hx
    rcases List.mem_append.mp hx with hx | hx
    · obtain ⟨i, ki, j, kj, a, b, _, _, _, _, rfl⟩ :=
        (mem_block_linear true _ _ hP.forward hP.crev _ _ (Int.natCast_nonneg _) o hc seq x).mp (blockE_sub _ _ _ _ _ _ _ _ _ hx)
      exact ⟨_, rfl⟩
    · obtain ⟨i, ki, j, kj, a, b, _, _, _, _, rfl⟩ :=
        (mem_block_linear false _ _ hP.reverse hP.cfwd _ _ (Int.natCast_nonneg _) o hc seq x).mp (blockE_sub _ _ _ _ _ _ _ _ _ hx)
      exact ⟨_, rfl⟩
  obtain ⟨l, hl⟩ := this
  unfold pcrLE
  rw [hl]

theorem mem_pcrLE_blocks (e : Ends) (P : Primers) (hP : PrimersOk P) (o : Opts) (hc : o.circular = false) (seq : Bytes)
    (a : Amplicon) :
    a ∈ pcrLE e P o seq ↔
      (.ok a : Except Bad Amplicon) ∈ blockE e true P.forward P.crev P.forward.patlen P.reverse.patlen o seq ∨
      (.ok a : Except Bad Amplicon) ∈ blockE e false P.reverse P.cfwd P.reverse.patlen P.reverse.patlen o seq := by
  have h := pcrLE_spec e P hP o hc seq
  unfold pcrE at h
  have := (mapM_id_ok _ _).mp h
  unfold pcrRawE at this
  rw [← List.mem_append, this, List.mem_map]
  constructor
  · intro ha; exact ⟨a, ha, rfl⟩
  · rintro ⟨b, hb, he⟩; cases he; exact hb

/-- **what the patched `_Pcr` reports for a marked linear template**: the records of the unpatched one, except those whose
flank a marked end would clip -/
theorem mem_pcrLE_iff (e : Ends) (P : Primers) (hP : PrimersOk P) (o : Opts) (hc : o.circular = false) (seq : Bytes)
    (a : Amplicon) :
    a ∈ pcrLE e P o seq ↔ a ∈ pcrL P o seq ∧ endsReject e o seq.length a.hitD a.hitC = false := by
  rw [mem_pcrLE_blocks e P hP o hc, mem_pcrL_iff P hP o hc, mem_blockE_ok, mem_blockE_ok]
  constructor
  · rintro (⟨h1, h2⟩ | ⟨h1, h2⟩)
    · exact ⟨Or.inl h1, h2⟩
    · exact ⟨Or.inr h1, h2⟩
  · rintro ⟨h1 | h1, h2⟩
    · exact Or.inl ⟨h1, h2⟩
    · exact Or.inr ⟨h1, h2⟩

/-! ## a piece marked as `IFragments` marks it -/

/-- the two `continue` on the piece `[fa, fb)` of a template of `L` symbols, in words -/
theorem reject_piece_iff (o : Opts) (hc : o.circular = false) (L fa fb : Nat) (hD hC : Hit) :
    endsReject (pieceEnds L (fa, fb)) o ((fb - fa : Nat) : Int) hD hC = false ↔
      (o.hasExtension = true → o.fullExtension = false →
        ((o.extension ≤ hD.1 ∨ fa = 0) ∧ (hC.2.1 + o.extension ≤ ((fb - fa : Nat) : Int) ∨ L ≤ fb))) := by
  unfold endsReject pieceEnds
  simp only [hc, Bool.not_false, Bool.and_true]
  cases hx : o.hasExtension <;> cases hf : o.fullExtension <;>
    simp only [Bool.false_and, Bool.true_and, Bool.not_true, Bool.not_false, Bool.and_false, Bool.false_eq_true, forall_false,
      implies_true, forall_const, Bool.or_eq_false_iff, Bool.and_eq_false_iff, decide_eq_false_iff_not, Bool.true_eq_false]
  constructor
  · rintro ⟨h1, h2⟩
    exact ⟨by omega, by omega⟩
  · rintro ⟨h1, h2⟩
    exact ⟨by omega, by omega⟩

/-- two records of a block on a linear template that come from the same two hits are the same record -/
theorem block_linear_hits_inj (isFwd : Bool) (D C : Pattern) (hD : POk D) (hC : POk C) (w wl : Int) (hwl : 0 ≤ wl)
    (o : Opts) (hc : o.circular = false) (seq : Bytes) (x x' : Amplicon)
    (hx : (.ok x : Except Bad Amplicon) ∈ block isFwd D C w wl o seq)
    (hx' : (.ok x' : Except Bad Amplicon) ∈ block isFwd D C w wl o seq)
    (h1 : x.hitD = x'.hitD) (h2 : x.hitC = x'.hitC) : x = x' := by
  obtain ⟨i, ki, j, kj, a, b, _, _, _, hb, e⟩ := (mem_block_linear isFwd D C hD hC w wl hwl o hc seq _).mp hx
  obtain ⟨i', ki', j', kj', a', b', _, _, _, hb', e'⟩ := (mem_block_linear isFwd D C hD hC w wl hwl o hc seq _).mp hx'
  cases e; cases e'
  have hh : i = i' ∧ ki = ki' ∧ j = j' ∧ kj = kj' := by
    cases isFwd <;> simp only [mkAmp, if_true, Bool.false_eq_true, if_false, Prod.mk.injEq] at h1 h2 <;> omega
  obtain ⟨rfl, rfl, rfl, rfl⟩ := hh
  rw [hb] at hb'
  cases hb'
  rfl

/-- **a record of the piece `[fa, fb)` moved to the coordinates of the template is a record of the template iff none of the
two `continue` fires** — every linear mode -/
theorem block_piece_marked (isFwd : Bool) (D C : Pattern) (hD : POk D) (hC : POk C) (w wl : Int) (hwl : 0 ≤ wl)
    (o : Opts) (hc : o.circular = false) (seq : Bytes) (fa fb : Nat) (hfa : fa ≤ fb) (hfb : fb ≤ seq.length) (y : Amplicon)
    (hy : (.ok y : Except Bad Amplicon) ∈ block isFwd D C w wl o (seg seq fa fb)) :
    (.ok (shiftAmp fa y) : Except Bad Amplicon) ∈ block isFwd D C w wl o seq ↔
      endsReject (pieceEnds seq.length (fa, fb)) o (seg seq fa fb).length y.hitD y.hitC = false := by
  rw [seg_length seq fa fb hfb, reject_piece_iff o hc]
  by_cases hm : o.hasExtension = false ∨ o.fullExtension = true
  · constructor
    · intro _ hx hf
      rcases hm with hm | hm
      · rw [hm] at hx; cases hx
      · rw [hm] at hf; cases hf
    · intro _
      exact (block_of_piece isFwd D C hD hC w wl hwl o hc hm seq fa fb hfa hfb y hy).1
  · have hx : o.hasExtension = true := by
      cases h : o.hasExtension
      · exact absurd (Or.inl h) hm
      · rfl
    have hf : o.fullExtension = false := by
      cases h : o.fullExtension
      · rfl
      · exact absurd (Or.inr h) hm
    obtain ⟨x, hxb, hd1, hd2, hiff⟩ :=
      block_of_piece_clipped_exact isFwd D C hD hC w wl hwl o hc hx hf seq fa fb hfa hfb y hy
    have hcond : ((o.extension ≤ y.hitD.1 ∨ fa = 0) ∧ (y.hitC.2.1 + o.extension + fa ≤ fb ∨ fb = seq.length)) ↔
        ((o.extension ≤ y.hitD.1 ∨ fa = 0) ∧ (y.hitC.2.1 + o.extension ≤ ((fb - fa : Nat) : Int) ∨ seq.length ≤ fb)) := by
      constructor
      · rintro ⟨c1, c2⟩; exact ⟨c1, by omega⟩
      · rintro ⟨c1, c2⟩; exact ⟨c1, by omega⟩
    constructor
    · intro hs _ _
      have : shiftAmp fa y = x :=
        block_linear_hits_inj isFwd D C hD hC w wl hwl o hc seq _ _ hs hxb (by rw [hd1]; rfl) (by rw [hd2]; rfl)
      exact hcond.mp (hiff.mp this.symm)
    · intro hc2
      have := hiff.mpr (hcond.mpr (hc2 hx hf))
      rw [← this]; exact hxb

end ObiVerif.Pcr
