import ObiVerif.Lemmas.Apat
import ObiVerif.Lemmas.ApatPure
/-!
# The pattern-length bound 63 is tight: no 64-position automaton (C10, round 3; finding D33)

`MAX_PAT_LEN` = 64 and `buildPattern` accepts a pattern of 64 positions, but the Baeza-Yates/Manber automaton keeps, for a
pattern of `m` positions, the bits `m - j` (`j = 0..m`: "the prefix of length `j` matches the last `j` symbols") of a 64-bit word
(invariant `Rep` of `Lemmas/Apat.lean`): `m + 1` bits.  The bit `m` (empty prefix) is re-injected before every step by
`| smask`, `smask = 0x1L << patlen` — undefined behaviour in C for `patlen = 64` (gcc/x86-64 `shl` masks the count: 1; Lean's
`BitVec` shift: 0).  Here the automata are re-stated with the VALUE of that shift as a parameter `v`, and it is proved that
for NO value `v` the 64-position exact automaton is exact (`noErr_len64_inexact`): two texts `a^64` and `c a^63` on which the
answers cannot both be right.  Hence the hypothesis `patlen ≤ 63` of the exactness theorems cannot be relaxed, whatever the
compiler does with the undefined shift.
-/
namespace ObiVerif.Apat
open ObiVerif

/-- `ManberNoErr` with the value of `0x1L << ppat->patlen` as a parameter -/
def manberNoErrWith (v : W) (P : Pattern) (data : List Nat) (begin length : Nat) : List RawHit :=
  noErrScan P.patlen v (smat P.codes) begin v (window data begin length)

/-- `ManberSub` with the value of `0x1L << ppat->patlen` as a parameter -/
def manberSubWith (v : W) (P : Pattern) (data : List Nat) (begin length : Nat) : List RawHit :=
  let cmask : W := ~~~ (omaskWord P.codes)
  errScan P.patlen (fun sindx => subLevels v cmask sindx 0) (smat P.codes) begin
    (List.replicate (P.maxerr + 1) v) (window data begin length)

theorem manberNoErr_eq_with (P : Pattern) (data : List Nat) (begin length : Nat) :
    manberNoErr P data begin length = manberNoErrWith (1#64 <<< P.patlen) P data begin length := rfl

theorem manberSub_eq_with (P : Pattern) (data : List Nat) (begin length : Nat) :
    manberSub P data begin length = manberSubWith (1#64 <<< P.patlen) P data begin length := rfl

/-- the state word (`r1`, before `| smask`) after `k` symbols accepted by every position, starting from the empty state -/
def stAll (v : W) : Nat → W
  | 0 => 0
  | k + 1 => (stAll v k ||| v) >>> 1

/-- bit `j` of that word: some bit `i + j` of `v`, `1 ≤ i ≤ k`, has been shifted down -/
theorem stAll_bit (v : W) : ∀ k j, (stAll v k).getLsbD j = true ↔ ∃ i, 1 ≤ i ∧ i ≤ k ∧ v.getLsbD (i + j) = true := by
  intro k
  induction k with
  | zero =>
    intro j
    constructor
    · intro h
      rw [show stAll v 0 = 0#64 from rfl, BitVec.getLsbD_zero] at h
      exact absurd h (by decide)
    · rintro ⟨i, h1, h2, _⟩; omega
  | succ k ih =>
    intro j
    simp only [stAll, BitVec.getLsbD_ushiftRight, BitVec.getLsbD_or, Bool.or_eq_true]
    rw [ih (1 + j)]
    constructor
    · rintro (⟨i, h1, h2, h3⟩ | h)
      · exact ⟨i + 1, by omega, by omega, by rw [show i + 1 + j = i + (1 + j) by omega]; exact h3⟩
      · exact ⟨1, by omega, by omega, h⟩
    · rintro ⟨i, h1, h2, h3⟩
      by_cases hi : i = 1
      · subst hi; exact Or.inr h3
      · exact Or.inl ⟨i - 1, by omega, by omega, by rw [show i - 1 + (1 + j) = i + j by omega]; exact h3⟩

/-- `noErrScan` over a run of `n` symbols `c` whose S word is all ones: the hits are the steps at which bit 0 comes out -/
theorem mem_noErrScan_run (m : Nat) (v : W) (sm : List W) (c : Nat) (hS : sm.getD c 0 = BitVec.allOnes 64) :
    ∀ n k pos (x : RawHit), x ∈ noErrScan m v sm pos (stAll v k ||| v) (List.replicate n c) ↔
      ∃ i, i < n ∧ (stAll v (k + i + 1)).getLsbD 0 = true ∧ x = (((pos + i : Nat) : Int) - m + 1, 0) := by
  intro n
  induction n with
  | zero =>
    intro k pos x
    simp only [List.replicate_zero, noErrScan, List.not_mem_nil, false_iff]
    rintro ⟨i, h, _⟩; omega
  | succ n ih =>
    intro k pos x
    have hstep : ((stAll v k ||| v) >>> 1) &&& sm.getD c 0 = stAll v (k + 1) := by
      rw [hS, BitVec.and_allOnes]; rfl
    rw [List.replicate_succ]
    simp only [noErrScan]
    rw [hstep]
    have hrest := ih (k + 1) (pos + 1) x
    by_cases hb : (stAll v (k + 1)).getLsbD 0 = true
    · rw [if_pos hb, List.mem_cons, hrest]
      constructor
      · rintro (h | ⟨i, h1, h2, h3⟩)
        · exact ⟨0, by omega, by simpa using hb, by simpa using h⟩
        · exact ⟨i + 1, by omega, by rw [show k + (i + 1) + 1 = k + 1 + i + 1 by omega]; exact h2,
            by rw [h3, show pos + (i + 1) = pos + 1 + i by omega]⟩
      · rintro ⟨i, h1, h2, h3⟩
        by_cases hi : i = 0
        · subst hi; exact Or.inl (by simpa using h3)
        · refine Or.inr ⟨i - 1, by omega, ?_, ?_⟩
          · rw [show k + 1 + (i - 1) + 1 = k + i + 1 by omega]; exact h2
          · rw [h3, show pos + 1 + (i - 1) = pos + i by omega]
    · rw [if_neg hb, hrest]
      constructor
      · rintro ⟨i, h1, h2, h3⟩
        exact ⟨i + 1, by omega, by rw [show k + (i + 1) + 1 = k + 1 + i + 1 by omega]; exact h2,
          by rw [h3, show pos + (i + 1) = pos + 1 + i by omega]⟩
      · rintro ⟨i, h1, h2, h3⟩
        by_cases hi : i = 0
        · subst hi; exact absurd (by simpa using h2) hb
        · refine ⟨i - 1, by omega, ?_, ?_⟩
          · rw [show k + 1 + (i - 1) + 1 = k + i + 1 by omega]; exact h2
          · rw [h3, show pos + 1 + (i - 1) = pos + i by omega]

/-- the pattern `A^64` as compiled (64 positions of class {a}) -/
def patA64 : Pattern := letterPattern (List.replicate 64 65) 0 false

theorem patA64_compiles : compile (List.replicate 64 65) 0 false = .ok patA64 :=
  compile_letters _ (by intro c hc; rw [List.eq_of_mem_replicate hc]; decide) (by decide) 0 false

theorem patA64_patlen : patA64.patlen = 64 := by
  unfold patA64; rw [letterPattern_patlen]; exact List.length_replicate ..

set_option maxRecDepth 100000 in
theorem patA64_smat_a : (smat patA64.codes).getD 0 0 = BitVec.allOnes 64 := by decide

set_option maxRecDepth 100000 in
theorem patA64_smat_c : (smat patA64.codes).getD 2 0 = 0 := by decide

theorem window_full (d : List Nat) : window d 0 d.length = d := by
  unfold window; simp

/-- the text `a^64` (the exact occurrence) -/
def textA64 : List Nat := List.replicate 64 0
/-- the text `c a^63` (no occurrence) -/
def textCA63 : List Nat := 2 :: List.replicate 63 0

/-- on `a^64`, a hit at position 0 means bit 0 of the state after 64 steps -/
theorem len64_hit_iff (v : W) :
    ((0 : Int), 0) ∈ manberNoErrWith v patA64 textA64 0 64 ↔ (stAll v 64).getLsbD 0 = true := by
  unfold manberNoErrWith textA64
  rw [show window (List.replicate 64 0) 0 64 = List.replicate 64 0 from by
    have := window_full (List.replicate 64 0); rwa [List.length_replicate] at this]
  have h := mem_noErrScan_run patA64.patlen v (smat patA64.codes) 0 patA64_smat_a 64 0 0 ((0 : Int), 0)
  rw [show stAll v 0 ||| v = v from BitVec.zero_or] at h
  rw [h, patA64_patlen]
  constructor
  · rintro ⟨i, h1, h2, h3⟩
    have h4 := congrArg Prod.fst h3
    simp only at h4
    have : i = 63 := by omega
    subst this; exact h2
  · intro h2
    exact ⟨63, by omega, h2, by simp⟩

/-- on `c a^63`: a spurious hit as soon as some bit `1..63` of `v` has come down -/
theorem len64_spurious (v : W) (j : Nat) (h1 : 1 ≤ j) (h63 : j ≤ 63) (hb : (stAll v j).getLsbD 0 = true) :
    manberNoErrWith v patA64 textCA63 0 64 ≠ [] := by
  unfold manberNoErrWith textCA63
  rw [show window (2 :: List.replicate 63 0) 0 64 = 2 :: List.replicate 63 0 from by
    have := window_full (2 :: List.replicate 63 0)
    rwa [List.length_cons, List.length_replicate] at this]
  simp only [noErrScan]
  have hz : ∀ x : W, x &&& (0 : W) = 0#64 := fun x => BitVec.and_zero
  rw [patA64_smat_c, hz, BitVec.getLsbD_zero]
  simp only [Bool.false_eq_true, if_false]
  have h := (mem_noErrScan_run patA64.patlen v (smat patA64.codes) 0 patA64_smat_a 63 0 (0 + 1)
    ((((0 + 1 + (j - 1) : Nat) : Int) - patA64.patlen + 1, 0))).2
      ⟨j - 1, by omega, by rw [show 0 + (j - 1) + 1 = j by omega]; exact hb, rfl⟩
  rw [show stAll v 0 ||| v = 0 ||| v from rfl] at h
  exact List.ne_nil_of_mem h

/-- **no value of `0x1L << 64` makes the 64-position automaton exact.**  For the pattern `A^64` and ANY value `v` of the
undefined shift, `ManberNoErr` is wrong on `a^64` (the exact occurrence at position 0 is missed) or on `c a^63` (a hit is
reported although there is no occurrence). -/
theorem noErr_len64_inexact (v : W) :
    ((0 : Int), 0) ∉ manberNoErrWith v patA64 textA64 0 64 ∨ manberNoErrWith v patA64 textCA63 0 64 ≠ [] := by
  by_cases h : ((0 : Int), 0) ∈ manberNoErrWith v patA64 textA64 0 64
  · right
    rw [len64_hit_iff, stAll_bit] at h
    obtain ⟨i, h1, h2, h3⟩ := h
    have hi : i ≤ 63 := by
      by_cases h64 : i = 64
      · subst h64
        rw [BitVec.getLsbD_of_ge v (64 + 0) (by omega)] at h3
        exact absurd h3 (by decide)
      · omega
    exact len64_spurious v i h1 hi ((stAll_bit v i 0).2 ⟨i, h1, Nat.le_refl _, h3⟩)
  · exact Or.inl h

/-- … whereas the specification (Hamming cost of the pattern at position 0) says: one exact occurrence in `a^64`, none in
`c a^63` -/
theorem len64_spec :
    hamCost patA64.codes textA64 = some 0 ∧ ∀ i, hamCost patA64.codes (textCA63.drop i) ≠ some 0 ∨ 64 < i + patA64.patlen := by
  constructor
  · decide
  · intro i
    by_cases hi : i = 0
    · subst hi; left; decide
    · right; rw [patA64_patlen]; omega

/-- the right-hand side of `manberNoErr_exact` (what an exact automaton reports) -/
def NoErrSpec (P : Pattern) (data : List Nat) (begin length : Nat) (i : Int) (k : Nat) : Prop :=
  ∃ i' : Nat, i = (i' : Int) ∧ begin ≤ i' ∧ i' + P.patlen ≤ min (begin + length) data.length ∧
    hamCost P.codes (data.drop i') = some 0 ∧ k = 0

/-- **the statement of `manberNoErr_exact` is false for the 64-position pattern `A^64`, whatever the value `v` of the shift** -/
theorem len64_not_exact (v : W) :
    ¬ (∀ data ∈ [textA64, textCA63], ∀ (i : Int) (k : Nat),
        (i, k) ∈ manberNoErrWith v patA64 data 0 64 ↔ NoErrSpec patA64 data 0 64 i k) := by
  intro H
  rcases noErr_len64_inexact v with h | h
  · apply h
    refine (H textA64 (by simp) 0 0).2 ⟨0, rfl, Nat.le_refl _, ?_, len64_spec.1, rfl⟩
    rw [patA64_patlen]; decide
  · obtain ⟨⟨i, k⟩, hx⟩ := List.exists_mem_of_ne_nil _ h
    obtain ⟨i', _, _, h3, h4, _⟩ := (H textCA63 (by simp) i k).1 hx
    rw [patA64_patlen] at h3
    have hl : textCA63.length = 64 := by decide
    rw [hl] at h3
    have : i' = 0 := by omega
    subst this
    rcases len64_spec.2 0 with h5 | h5
    · exact h5 h4
    · rw [patA64_patlen] at h5; omega

/-- in particular for the model as it is (`1#64 <<< 64 = 0` in Lean): the bound `patlen ≤ 63` of `manberNoErr_exact` cannot be
replaced by `patlen ≤ 64` = `MAX_PAT_LEN` -/
theorem manberNoErr_exact_fails_at_64 :
    ¬ (∀ (P : Pattern) (data : List Nat) (begin length : Nat), 1 ≤ P.patlen → P.patlen ≤ 64 → (∀ c ∈ data, c < 26) →
        ∀ (i : Int) (k : Nat), (i, k) ∈ manberNoErr P data begin length ↔ NoErrSpec P data begin length i k) := by
  intro H
  apply len64_not_exact (1#64 <<< patA64.patlen)
  intro data hd i k
  rw [← manberNoErr_eq_with]
  refine H patA64 data 0 64 (by rw [patA64_patlen]; omega) (by rw [patA64_patlen]; omega) ?_ i k
  simp only [List.mem_cons, List.not_mem_nil, or_false] at hd
  rcases hd with rfl | rfl <;> decide

/-! ## the D33 witness: `ACGT`x16 (64 positions), one error, on `acgt`x20 -/

/-- `ManberIndel` with the value of `0x1L << ppat->patlen` as a parameter -/
def manberIndelWith (v : W) (P : Pattern) (data : List Nat) (begin length : Nat) : List RawHit :=
  let cmask : W := ~~~ (omaskWord P.codes)
  errScan P.patlen (fun sindx => indelLevels v cmask sindx 0 0) (smat P.codes) begin
    (indelInit v (P.maxerr + 1) v) (window data begin length)

theorem manberIndel_eq_with (P : Pattern) (data : List Nat) (begin length : Nat) :
    manberIndel P data begin length = manberIndelWith (1#64 <<< P.patlen) P data begin length := rfl

def strACGT16 : Bytes := (List.replicate 16 [65, 67, 71, 84]).flatten
/-- `ACGT`x16 as compiled, budget 1 -/
def patACGT16 (indel : Bool) : Pattern := letterPattern strACGT16 1 indel
/-- `acgt`x20, encoded -/
def textACGT20 : List Nat := (List.replicate 20 [0, 2, 6, 19]).flatten

theorem patACGT16_compiles (b : Bool) : compile strACGT16 1 b = .ok (patACGT16 b) :=
  compile_letters _ (by decide) (by decide) 1 b

theorem patACGT16_patlen (b : Bool) : (patACGT16 b).patlen = 64 := by
  unfold patACGT16; rw [letterPattern_patlen]; decide

set_option maxRecDepth 1000000 in
/-- the 64-position pattern occurs exactly at positions 0, 4, 8, 12, 16 of the text … -/
theorem acgt16_spec : [0, 4, 8, 12, 16].map (fun i => hamCost (patACGT16 false).codes (textACGT20.drop i)) =
    [some 0, some 0, some 0, some 0, some 0] := by decide

set_option maxRecDepth 1000000 in
/-- … and the mismatch automaton reports nothing, with Lean's value of the shift (0: the model as it is) and with the value
gcc/x86-64 gives (`shl` masks the count: 1) — the behaviour observed on the real code (finding D33) -/
theorem acgt16_sub_reports_nothing :
    manberSub (patACGT16 false) textACGT20 0 144 = [] ∧
    manberSubWith 0 (patACGT16 false) textACGT20 0 144 = [] ∧
    manberSubWith 1 (patACGT16 false) textACGT20 0 144 = [] := by
  refine ⟨?_, ?_, ?_⟩ <;> decide

set_option maxRecDepth 1000000 in
/-- the indel automaton: nothing with the value 0; with the value 1 (gcc/x86-64) EVERY end position of the text is reported
with one error — 80 hits, starts -63 .. 16, the five exact occurrences included with the wrong count 1 (what the real code
answers: finding D33) -/
theorem acgt16_indel_reports_garbage :
    manberIndelWith 0 (patACGT16 true) textACGT20 0 144 = [] ∧
    manberIndelWith 1 (patACGT16 true) textACGT20 0 144 = (List.range 80).map (fun (i : Nat) => ((i : Int) - 63, 1)) := by
  refine ⟨?_, ?_⟩ <;> decide

end ObiVerif.Apat
