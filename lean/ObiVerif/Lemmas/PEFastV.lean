import ObiVerif.Lemmas.PEFillV
import ObiVerif.Lemmas.PECons
/-!
# C08: fast mode on the arena (verbatim local fills) refines `peAlignFastFrom`
-/
namespace ObiVerif.PEAlign
open ObiVerif.Align

/-- **refinement, fast mode**: for every vote result in range, every delta and every content of the arena,
`PEAlign` with the verbatim local fill returns exactly what the recurrence-level `peAlignFastFrom` returns -/
theorem peAlignFastFromA_eq (s : Nat → Nat → Int) (g : Int) (la lb delta : Nat) (shift count : Int) (m0 : Mats)
    (hla : 0 < la) (hlb : 0 < lb) (h1 : -(lb : Int) < shift) (h2 : shift < la) :
    (peAlignFastFromA s g la lb delta shift count m0).map (·.1) = peAlignFastFrom s g la lb delta shift count := by
  unfold peAlignFastFromA peAlignFastFrom over
  by_cases hdp : count < 1 ∨ count + 3 < (if shift > 0 then (la : Int) - shift else (lb : Int) + shift)
  · simp only [hdp, if_true]
    by_cases hs : shift > 0
    · simp only [hs, if_true]
      have hsa : ¬ ((shift - (delta : Int)).toNat > la) := by omega
      simp only [hsa, if_false]
      have := fillLeftA_eq (fun i j => s ((shift - (delta : Int)).toNat + i) j) g
        (la - (shift - (delta : Int)).toNat) (min (la - (shift - (delta : Int)).toNat) lb) m0 (by omega) (by omega)
      rw [← this]
      cases fillLeftA (fun i j => s ((shift - (delta : Int)).toNat + i) j) g
        (la - (shift - (delta : Int)).toNat) (min (la - (shift - (delta : Int)).toNat) lb) m0 with
      | none => rfl
      | some x => rfl
    · simp only [hs, if_false]
      have hsb : ¬ ((-shift - (delta : Int)).toNat > lb) := by omega
      simp only [hsb, if_false]
      have := fillRightA_eq (fun i j => s i ((-shift - (delta : Int)).toNat + j)) g
        (min (lb - (-shift - (delta : Int)).toNat) la) (lb - (-shift - (delta : Int)).toNat) m0 (by omega) (by omega)
      rw [← this]
      cases fillRightA (fun i j => s i ((-shift - (delta : Int)).toNat + j)) g
        (min (lb - (-shift - (delta : Int)).toNat) la) (lb - (-shift - (delta : Int)).toNat) m0 with
      | none => rfl
      | some x => rfl
  · simp only [hdp, if_false]
    by_cases hs : shift > 0
    · simp only [hs, if_true]
      by_cases hsa : shift.toNat > la
      · simp [hsa]
      · simp only [hsa, if_false]
        by_cases hpl : la - shift.toNat > lb
        · simp [hpl]
        · simp [hpl]
    · simp only [hs, if_false]
      by_cases hsb : (-shift).toNat > lb
      · simp [hsb]
      · simp only [hsb, if_false]
        by_cases hpl : lb - (-shift).toNat > la
        · simp [hpl]
        · simp [hpl]

end ObiVerif.PEAlign
