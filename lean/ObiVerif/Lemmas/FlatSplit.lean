import ObiVerif.Lemmas.Splitters
import ObiVerif.Lemmas.Embl
/-!
# `EndOfLastFlatFileEntry`: a non-negative result follows `\n//\n` or `\n//\r\n`
-/
namespace ObiVerif.Parse
open ObiVerif.Chunk

/-- what the states of the backward scan know about the suffix already consumed (`suf`, in file
order) and about `start`; `n` = number of bytes not yet consumed -/
def FlatInv (st start n : Nat) (suf : Seq) : Prop :=
  match st with
  | 0 => True
  | 1 => ∃ s, suf = 10 :: s
  | 2 => ∃ s, suf = 13 :: 10 :: s ∧ start = n + 2
  | 3 => (∃ s, suf = 47 :: 10 :: s ∧ start = n + 2) ∨ (∃ s, suf = 47 :: 13 :: 10 :: s ∧ start = n + 3)
  | 4 => (∃ s, suf = 47 :: 47 :: 10 :: s ∧ start = n + 3) ∨ (∃ s, suf = 47 :: 47 :: 13 :: 10 :: s ∧ start = n + 4)
  | _ => (∃ s, suf = 10 :: 47 :: 47 :: 10 :: s ∧ start = n + 4) ∨
         (∃ s, suf = 10 :: 47 :: 47 :: 13 :: 10 :: s ∧ start = n + 5)

theorem flatInv_step {st start : Nat} {c : UInt8} {rest suf : Seq} (hst : st < 5)
    (h : FlatInv st start (rest.length + 1) suf) :
    FlatInv (flatNext st c) (if st == 1 then rest.length + 2 else start) rest.length (c :: suf) := by
  have hcases : st = 0 ∨ st = 1 ∨ st = 2 ∨ st = 3 ∨ st = 4 := by omega
  rcases hcases with rfl | rfl | rfl | rfl | rfl
  · simp only [flatNext]
    split
    · rename_i hc; simp only [beq_iff_eq] at hc; subst hc; exact ⟨suf, rfl⟩
    · trivial
  · obtain ⟨s, rfl⟩ := h
    simp only [flatNext]
    split
    · rename_i hc; simp only [beq_iff_eq] at hc; subst hc; exact ⟨s, rfl, by simp⟩
    · split
      · rename_i hc; simp only [beq_iff_eq] at hc; subst hc; exact Or.inl ⟨s, rfl, by simp⟩
      · split
        · rename_i hc; simp only [beq_iff_eq] at hc; subst hc; exact ⟨_, rfl⟩
        · trivial
  · obtain ⟨s, rfl, hs⟩ := h
    simp only [flatNext]
    split
    · rename_i hc; simp only [beq_iff_eq] at hc; subst hc
      exact Or.inr ⟨s, rfl, by simp; omega⟩
    · split
      · rename_i hc; simp only [beq_iff_eq] at hc; subst hc; exact ⟨_, rfl⟩
      · trivial
  · simp only [flatNext]
    split
    · rename_i hc; simp only [beq_iff_eq] at hc; subst hc
      rcases h with ⟨s, rfl, hs⟩ | ⟨s, rfl, hs⟩
      · exact Or.inl ⟨s, rfl, by simp; omega⟩
      · exact Or.inr ⟨s, rfl, by simp; omega⟩
    · split
      · rename_i hc; simp only [beq_iff_eq] at hc; subst hc; exact ⟨_, rfl⟩
      · trivial
  · simp only [flatNext]
    split
    · rename_i hc; simp only [beq_iff_eq] at hc; subst hc
      rcases h with ⟨s, rfl, hs⟩ | ⟨s, rfl, hs⟩
      · exact Or.inl ⟨s, rfl, by simp; omega⟩
      · exact Or.inr ⟨s, rfl, by simp; omega⟩
    · trivial

theorem flatLoop_cut : ∀ (l : List UInt8) (st start : Nat) (suf : Seq) (start' : Nat) (i : Int),
    st ≤ 5 → FlatInv st start l.length suf → flatLoop l st start = (start', i) → 0 < i →
    ∃ p s, (l.reverse ++ suf = p ++ [10, 47, 47, 10] ++ s ∧ start' = p.length + 4) ∨
           (l.reverse ++ suf = p ++ [10, 47, 47, 13, 10] ++ s ∧ start' = p.length + 5) := by
  intro l
  induction l with
  | nil =>
    intro st start suf start' i _ _ h hi
    simp only [flatLoop, Prod.mk.injEq] at h
    omega
  | cons c rest ih =>
    intro st start suf start' i hle hinv h hi
    rw [flatLoop] at h
    split at h
    · rename_i hst
      have := ih (flatNext st c) _ (c :: suf) start' i (flatNext_le st c) (flatInv_step hst hinv) h hi
      obtain ⟨p, s, hps⟩ := this
      refine ⟨p, s, ?_⟩
      simpa using hps
    · have hst : st = 5 := by omega
      subst hst
      simp only [Prod.mk.injEq] at h
      obtain ⟨rfl, _⟩ := h
      rcases hinv with ⟨s, rfl, hs⟩ | ⟨s, rfl, hs⟩
      · exact ⟨(c :: rest).reverse, s, Or.inl ⟨by simp, by simp at hs ⊢; omega⟩⟩
      · exact ⟨(c :: rest).reverse, s, Or.inr ⟨by simp, by simp at hs ⊢; omega⟩⟩

/-- emitted part ends with an end-of-record line -/
def FlatCut (a _b : Seq) : Prop := FlatEnd a

theorem splitFlat_cut (buf : Seq) (h : 0 ≤ splitFlat buf) : FlatEnd (buf.take (splitFlat buf).toNat) := by
  unfold splitFlat at h ⊢
  generalize hfl : flatLoop buf.reverse 0 0 = r at h ⊢
  obtain ⟨start', i⟩ := r
  simp only at h ⊢
  split at h
  · rename_i hi
    simp only [hi, if_true, Int.toNat_natCast]
    obtain ⟨p, s, hps⟩ := flatLoop_cut buf.reverse 0 0 [] start' i (by omega) trivial hfl hi
    simp only [List.reverse_reverse, List.append_nil] at hps
    rcases hps with ⟨hb, hs⟩ | ⟨hb, hs⟩
    · refine ⟨p, Or.inl ?_⟩
      rw [hb, hs]
      exact List.take_left' (by simp)
    · refine ⟨p, Or.inr ?_⟩
      rw [hb, hs]
      exact List.take_left' (by simp)
  · omega

theorem splitFlat_ok_cut : SplitterOK splitFlat FlatCut :=
  ⟨splitFlat_range, fun buf h => splitFlat_cut buf h, fun _ _ _ h => h⟩

end ObiVerif.Parse
