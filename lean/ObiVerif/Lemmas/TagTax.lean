import ObiVerif.Lemmas.TagIndex
import ObiVerif.Lemmas.Tax
/-!
# The index and the assigned taxon in terms of the taxonomy (C15, on top of the C14 lemmas)
-/
namespace ObiVerif.Tag
open ObiVerif.Tax

variable {t : Taxo} {root : Nat} {depth : Nat → Nat} {fuel : Nat}

/-- `TaxNode.LCA` returns a node that is a common ancestor, below every common ancestor -/
theorem lca_eq_ok (wf : WF t root depth) (hf : FuelOK t fuel) {x y z : Nat} {nx ny : Node}
    (hx : t.node x = some nx) (hy : t.node y = some ny) (h : Tax.lca t fuel x y = .ok z) :
    (∃ nz, t.node z = some nz) ∧ ∀ a, Anc t a z ↔ (Anc t a x ∧ Anc t a y) := by
  obtain ⟨z', nz, h', hnz, hc, _⟩ := lca_ok wf hf hx hy
  rw [h] at h'; cases h'
  exact ⟨⟨nz, hnz⟩, hc⟩

theorem lca_exists (wf : WF t root depth) (hf : FuelOK t fuel) {x y : Nat} {nx ny : Node}
    (hx : t.node x = some nx) (hy : t.node y = some ny) : ∃ z, Tax.lca t fuel x y = .ok z := by
  obtain ⟨z, _, h, _⟩ := lca_ok wf hf hx hy; exact ⟨z, h⟩

theorem lcaAll_ok (wf : WF t root depth) (hf : FuelOK t fuel) {x : Nat} {nx : Node} (hx : t.node x = some nx) :
    ∀ (l : List Nat), (∀ y ∈ l, ∃ n, t.node y = some n) →
      ∃ zs, lcaAll t fuel x l = .ok zs ∧ zs.length = l.length ∧
        ∀ j, j < l.length → Tax.lca t fuel x (l.getD j 0) = .ok (zs.getD j 0) := by
  intro l
  induction l with
  | nil => intro _; exact ⟨[], rfl, rfl, by intro j hj; simp at hj⟩
  | cons y ys ih =>
    intro h
    obtain ⟨ny, hy⟩ := h y (List.mem_cons_self)
    obtain ⟨z, hz⟩ := lca_exists wf hf hx hy
    obtain ⟨zs, h1, h2, h3⟩ := ih (fun y' hy' => h y' (List.mem_cons_of_mem _ hy'))
    refine ⟨z :: zs, by simp [lcaAll, hz, h1], by simp [h2], ?_⟩
    intro j hj
    cases j with
    | zero => simpa using hz
    | succ j =>
      have := h3 j (by simp at hj; omega)
      simpa using this

/-- on the lineage read from the root, what comes at or after `a` is below `a` -/
theorem anc_of_after {x : Nat} {p : List Nat} (hp : IsPath t x p) {pre post : List Nat} {a y : Nat}
    (hsplit : p.reverse = pre ++ a :: post) (hy : y ∈ a :: post) : Anc t a y := by
  have hp' : p = post.reverse ++ a :: pre.reverse := by
    have := congrArg List.reverse hsplit
    simpa using this
  rcases List.mem_cons.1 hy with e | hy
  · subst e; exact Anc.refl _
  · have hy' : y ∈ post.reverse := by simpa using hy
    obtain ⟨u, w, e⟩ := List.append_of_mem hy'
    have hp'' : p = u ++ y :: (w ++ a :: pre.reverse) := by rw [hp', e]; simp
    have := hp.suffix u y _ hp''
    exact this.anc_of_mem (by simp)

theorem isNode_of_mem_path {x : Nat} {p : List Nat} (hp : IsPath t x p) {a : Nat} (ha : a ∈ p) :
    ∃ n, t.node a = some n := by
  obtain ⟨u, w, e⟩ := List.append_of_mem ha
  exact (hp.suffix u a w e).isNode

theorem anc_root (wf : WF t root depth) (hf : FuelOK t fuel) {x : Nat} {n : Node} (hx : t.node x = some n) :
    Anc t root x := by
  obtain ⟨p, _, hp⟩ := path_total wf hf hx
  have := hp.getLast wf
  exact hp.anc_of_mem (List.mem_of_getLast? this)

/-! ## the index -/

/-- **the index is the LCA table**: with the q-gram bound on the candidates, `IndexSequence` succeeds and every
recorded entry `d ↦ a` is such that the ancestors of `a` are exactly the common ancestors of the taxa of ALL
the references within distance `d` of the indexed sequence -/
theorem indexSequence_lca (wf : WF t root depth) (hf : FuelOK t fuel)
    (taxids : List Nat) (htax : ∀ x ∈ taxids, ∃ n, t.node x = some n)
    (seqidx lseq : Nat) (hidx : seqidx < taxids.length) (c : Nat → Cand) (ow : List Nat)
    (hperm : ∀ j, j ∈ ow ↔ j < taxids.length)
    (hs : SortedByCw c ow) (hq : QGramBound lseq c ow) (hself : (c seqidx).dist = 0) :
    ∃ idx, indexSequence t fuel taxids seqidx lseq c ow = .ok idx ∧
      ∀ e ∈ idx, ∀ x, Anc t x e.2 ↔
        ∀ j, j < taxids.length → (c j).dist ≤ e.1 → Anc t x (taxids.getD j 0) := by
  have hgetD : ∀ j, j < taxids.length → ∃ n, t.node (taxids.getD j 0) = some n := by
    intro j hj
    apply htax
    rw [List.getD_eq_getElem?_getD, List.getElem?_eq_getElem hj]
    simp
  obtain ⟨ns, hns⟩ := hgetD seqidx hidx
  obtain ⟨zs, hz1, _, hz3⟩ := lcaAll_ok wf hf hns taxids htax
  obtain ⟨p, hp1, hp⟩ := path_total wf hf hns
  refine ⟨indexCore lseq c (fun j => zs.getD j 0) ow p.reverse, by simp only [indexSequence, hz1, hp1], ?_⟩
  intro e he x
  obtain ⟨pre, post, hsplit, ⟨js, hjs, hajs, hdjs⟩, hpre, _⟩ :=
    indexCore_entry lseq c (fun j => zs.getD j 0) ow p.reverse hs hq e he
  -- facts on the LCA of the indexed sequence and reference j
  have hl : ∀ j, j < taxids.length →
      ∀ a, Anc t a (zs.getD j 0) ↔ (Anc t a (taxids.getD seqidx 0) ∧ Anc t a (taxids.getD j 0)) := by
    intro j hj
    obtain ⟨nj, hnj⟩ := hgetD j hj
    exact (lca_eq_ok wf hf hns hnj (hz3 j hj)).2
  constructor
  · intro hx j hj hd
    have hjo : j ∈ ow := (hperm j).2 hj
    have h1 := (hl j hj (zs.getD j 0)).1 (Anc.refl _)
    have hmem : zs.getD j 0 ∈ p.reverse := by
      have := IsPath.mem_of_anc h1.1 hp
      simpa using this
    rw [hsplit] at hmem
    rcases List.mem_append.1 hmem with hm | hm
    · have := hpre j hjo hm
      omega
    · have := anc_of_after hp hsplit hm
      exact (hx.trans this).trans h1.2
  · intro hall
    have hjs' : js < taxids.length := (hperm js).1 hjs
    have h1 := hall js hjs' (by omega)
    have h2 := hall seqidx hidx (by omega)
    have h3 : zs.getD js 0 = e.2 := hajs
    rw [← h3]
    exact (hl js hjs' x).2 ⟨h2, h1⟩

/-! ## the assigned taxon -/

theorem idxGet_mem {idx : List (Nat × Nat)} {d m : Nat} (h : idxGet idx d = some m) : ∃ e ∈ idx, e.2 = m := by
  unfold idxGet at h
  cases hf : idx.find? (fun e => e.1 = d) with
  | none => rw [hf] at h; simp at h
  | some e =>
    rw [hf] at h
    simp at h
    exact ⟨e, List.mem_of_find?_eq_some hf, h⟩

theorem lookDown_mem {idx : List (Nat × Nat)} : ∀ {d m : Nat}, lookDown idx d = some m → ∃ e ∈ idx, e.2 = m := by
  intro d
  induction d with
  | zero => intro m h; exact idxGet_mem h
  | succ d ih =>
    intro m h
    unfold lookDown at h
    cases hg : idxGet idx (d + 1) with
    | some t => rw [hg] at h; cases h; exact idxGet_mem hg
    | none => rw [hg] at h; exact ih h

theorem lookUp_mem {idx : List (Nat × Nat)} : ∀ {f d m : Nat}, lookUp idx f d = some m → ∃ e ∈ idx, e.2 = m := by
  intro f
  induction f with
  | zero => intro d m h; simp [lookUp] at h
  | succ f ih =>
    intro d m h
    unfold lookUp at h
    cases hg : idxGet idx d with
    | some t => rw [hg] at h; cases h; exact idxGet_mem hg
    | none => rw [hg] at h; exact ih h

/-- the selected entry is an entry -/
theorem selectEntry_mem {idx : List (Nat × Nat)} {d m : Nat} (h : selectEntry idx d = .ok m) :
    ∃ e ∈ idx, e.2 = m := by
  unfold selectEntry at h
  cases h1 : lookDown idx d with
  | some t => rw [h1] at h; cases h; exact lookDown_mem h1
  | none =>
    rw [h1] at h
    cases h2 : lookUp idx 1001 0 with
    | some t => rw [h2] at h; cases h; exact lookUp_mem h2
    | none =>
      rw [h2] at h
      cases h3 : idxGet idx 1001 with
      | some t => rw [h3] at h; cases h; exact idxGet_mem h3
      | none => rw [h3] at h; cases h

/-- every entry of the index of a reference is an ancestor-or-self of the taxon of that reference -/
theorem indexSequence_anc {taxids : List Nat} {b lseq : Nat} {c : Nat → Cand} {ow : List Nat}
    {idx : List (Nat × Nat)} (h : indexSequence t fuel taxids b lseq c ow = .ok idx) :
    ∀ e ∈ idx, Anc t e.2 (taxids.getD b 0) ∧ ∃ n, t.node e.2 = some n := by
  unfold indexSequence at h
  simp only at h
  cases h1 : lcaAll t fuel (taxids.getD b 0) taxids with
  | error e => rw [h1] at h; cases h
  | ok zs =>
    rw [h1] at h
    simp only at h
    cases h2 : Tax.path t fuel (taxids.getD b 0) with
    | error e => rw [h2] at h; cases h
    | ok p =>
      rw [h2] at h
      simp only at h
      cases h
      intro e he
      have hp := (path_ok_isPath _ _ _ h2).1
      have hm : e.2 ∈ p := by
        have := indexCore_mem lseq c _ ow p.reverse e he
        simpa using this
      exact ⟨hp.anc_of_mem hm, isNode_of_mem_path hp hm⟩

theorem selectAll_spec {index : Nat → Tax.Res (List (Nat × Nat))} {d : Nat} :
    ∀ {bs ms : List Nat}, selectAll index d bs = .ok ms →
      (∀ b ∈ bs, ∃ m ∈ ms, ∃ idx, index b = .ok idx ∧ ∃ e ∈ idx, e.2 = m) ∧
      (∀ m ∈ ms, ∃ b ∈ bs, ∃ idx, index b = .ok idx ∧ ∃ e ∈ idx, e.2 = m) := by
  intro bs
  induction bs with
  | nil => intro ms h; simp [selectAll] at h; cases h; simp
  | cons b bs ih =>
    intro ms h
    unfold selectAll at h
    cases h1 : index b with
    | error e => rw [h1] at h; cases h
    | ok idx =>
      rw [h1] at h
      simp only at h
      cases h2 : selectEntry idx d with
      | error e => rw [h2] at h; cases h
      | ok m =>
        rw [h2] at h
        simp only at h
        cases h3 : selectAll index d bs with
        | error e => rw [h3] at h; cases h
        | ok ms' =>
          rw [h3] at h
          simp only at h
          cases h
          obtain ⟨i1, i2⟩ := ih h3
          have hm := selectEntry_mem h2
          refine ⟨?_, ?_⟩
          · intro b' hb'
            rcases List.mem_cons.1 hb' with e | hb'
            · subst e; exact ⟨m, List.mem_cons_self, idx, h1, hm⟩
            · obtain ⟨m', hm', r⟩ := i1 b' hb'
              exact ⟨m', List.mem_cons_of_mem _ hm', r⟩
          · intro m' hm'
            rcases List.mem_cons.1 hm' with e | hm'
            · subst e; exact ⟨b, List.mem_cons_self, idx, h1, hm⟩
            · obtain ⟨b', hb', r⟩ := i2 m' hm'
              exact ⟨b', List.mem_cons_of_mem _ hb', r⟩

/-- the consensus (left fold of `TaxNode.LCA`) is an ancestor-or-self of every taxon folded -/
theorem consensus_anc (wf : WF t root depth) (hf : FuelOK t fuel) :
    ∀ (ms : List Nat) (acc : Option Nat) (z : Nat), (∀ m ∈ ms, ∃ n, t.node m = some n) →
      (∀ x, acc = some x → ∃ n, t.node x = some n) →
      consensus t fuel acc ms = .ok (some z) →
      (∀ x, acc = some x → Anc t z x) ∧ (∀ m ∈ ms, Anc t z m) := by
  intro ms
  induction ms with
  | nil =>
    intro acc z _ _ h
    simp only [consensus] at h
    cases h
    exact ⟨fun x hx => (by cases hx; exact Anc.refl _), by simp⟩
  | cons m ms ih =>
    intro acc z hn ha h
    have hn' : ∀ m' ∈ ms, ∃ n, t.node m' = some n := fun m' hm' => hn m' (List.mem_cons_of_mem _ hm')
    obtain ⟨nm, hnm⟩ := hn m (List.mem_cons_self)
    cases acc with
    | none =>
      simp only [consensus] at h
      obtain ⟨i1, i2⟩ := ih (some m) z hn' (by intro x hx; cases hx; exact ⟨nm, hnm⟩) h
      refine ⟨(by intro x hx; cases hx), ?_⟩
      intro m' hm'
      rcases List.mem_cons.1 hm' with e | hm'
      · subst e; exact i1 _ rfl
      · exact i2 m' hm'
    | some x =>
      obtain ⟨nx, hnx⟩ := ha x rfl
      simp only [consensus] at h
      cases hl : Tax.lca t fuel x m with
      | error e => rw [hl] at h; cases h
      | ok z' =>
        rw [hl] at h
        simp only at h
        obtain ⟨⟨nz, hnz⟩, hc⟩ := lca_eq_ok wf hf hnx hnm hl
        obtain ⟨i1, i2⟩ := ih (some z') z hn' (by intro y hy; cases hy; exact ⟨nz, hnz⟩) h
        have hz := i1 z' rfl
        have hxm := (hc z').1 (Anc.refl _)
        refine ⟨?_, ?_⟩
        · intro y hy; cases hy; exact hz.trans hxm.1
        · intro m' hm'
          rcases List.mem_cons.1 hm' with e | hm'
          · subst e; exact hz.trans hxm.2
          · exact i2 m' hm'

end ObiVerif.Tag
